// Package ref holds reference oracles written from the property statements and
// the spec text.  They share no logic with the implementation (only SHA-256,
// ed25519 and protobuf encodings).
package ref

import (
	"bytes"
	"crypto/sha256"
)

func LeafHash(item []byte) []byte {
	h := sha256.New()
	h.Write([]byte{0})
	h.Write(item)
	return h.Sum(nil)
}

func InnerHash(l, r []byte) []byte {
	h := sha256.New()
	h.Write([]byte{1})
	h.Write(l)
	h.Write(r)
	return h.Sum(nil)
}

// split is the RFC 6962 split point: the largest power of two strictly less than n (n >= 2).
func split(n int) int {
	k := 1
	for k*2 < n {
		k *= 2
	}
	return k
}

// MerkleRoot recomputes the RFC 6962 root from the full leaf list.
func MerkleRoot(leaves [][]byte) []byte {
	switch len(leaves) {
	case 0:
		s := sha256.Sum256(nil)
		return s[:]
	case 1:
		return LeafHash(leaves[0])
	}
	k := split(len(leaves))
	return InnerHash(MerkleRoot(leaves[:k]), MerkleRoot(leaves[k:]))
}

// MerklePath returns the audit path of leaf i, from the leaf's sibling up to
// a child of the root (the order the implementation calls "aunts").
func MerklePath(leaves [][]byte, i int) [][]byte {
	if len(leaves) <= 1 {
		return nil
	}
	k := split(len(leaves))
	if i < k {
		return append(MerklePath(leaves[:k], i), MerkleRoot(leaves[k:]))
	}
	return append(MerklePath(leaves[k:], i-k), MerkleRoot(leaves[:k]))
}

// PathShape returns the left/right turn sequence (root to leaf) for (index,total);
// "" for a single leaf; ok=false if index is out of range.
func PathShape(index, total int64) (string, bool) {
	if total <= 0 || index < 0 || index >= total {
		return "", false
	}
	s := []byte{}
	for total > 1 {
		k := int64(1)
		for k*2 < total {
			k *= 2
		}
		if index < k {
			s = append(s, 'L')
			total = k
		} else {
			s = append(s, 'R')
			index -= k
			total -= k
		}
	}
	return string(s), true
}

// ProofOK is the reference verdict for a Merkle proof: it may verify against
// MerkleRoot(leaves) for item iff total == len(leaves), 0 <= index < total,
// item == leaves[index], leafHash == H(0x00||item) and aunts == MerklePath.
func ProofOK(leaves [][]byte, item []byte, index, total int64, leafHash []byte, aunts [][]byte) bool {
	if total != int64(len(leaves)) || index < 0 || index >= total {
		return false
	}
	if !bytes.Equal(item, leaves[index]) || !bytes.Equal(leafHash, LeafHash(item)) {
		return false
	}
	p := MerklePath(leaves, int(index))
	if len(p) != len(aunts) {
		return false
	}
	for i := range p {
		if !bytes.Equal(p[i], aunts[i]) {
			return false
		}
	}
	return true
}

// MerkleRootSplit exposes the split point for n >= 2 leaves.
func MerkleRootSplit(n int) int { return split(n) }

func Sha256(b []byte) []byte {
	s := sha256.Sum256(b)
	return s[:]
}
