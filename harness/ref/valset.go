package ref

// Reference validator set (property C08, reused by C03).
//
// Written from the property statement and spec/consensus/proposer-selection.md,
// not from types/validator_set.go.  All arithmetic is done with big integers, so
// nothing here can overflow or clip; a caller that wants to know whether an int64
// implementation would have overflowed asks FitsInt64.
//
// The rules:
//
//   - a batch of changes is a list of (address, power); power 0 removes.
//     It is rejected as a whole (set untouched) when an address occurs twice, a power
//     is negative, a removal names an address that is not a member, the resulting set
//     is empty, or the resulting total power exceeds MaxTotalPower.  Otherwise the
//     result is the map "old members, overwritten by the updates, minus the
//     removals", which does not depend on the order of the batch.
//   - surviving members keep their priority; a new member V enters with priority
//     -1.125*P, "where P is the total voting power of the set including V": P is
//     taken after all additions and power changes of the batch and before its
//     removals (the new member is compared with everybody it displaces);
//     1.125*P is computed as P + floor(P/8).
//   - after a batch, and at the beginning of every round, priorities are scaled
//     into a window of 2*T (T = total power): if max-min > 2T every priority is
//     divided by ceil((max-min)/2T), and then centred by subtracting the average.
//   - one round: scale, centre, add every member's power to its priority, elect
//     the member with the highest priority (ties go to the lower address), subtract
//     T from the elected member.
//
// Rounding choices that the spec text leaves open (recorded by C08 as
// assumptions): the scaling quotient is truncated toward zero, the average is
// rounded toward minus infinity.

import (
	"bytes"
	"errors"
	"fmt"
	"math"
	"math/big"
	"sort"

	"github.com/tendermint/tendermint/types"
)

// MaxTotalPower is the limit on the total voting power of a set ("within the
// limit" in the statement): the largest int64 divided by 8.
const MaxTotalPower = int64(math.MaxInt64) / 8

type RVal struct {
	Address  []byte
	Power    int64
	Priority *big.Int
}

// RSet is a validator set in canonical order (power descending, then address
// ascending).  Proposer is the index of the member elected by the last round,
// or -1 when no round has been run since the set was made or changed.
type RSet struct {
	Vals     []RVal
	Proposer int
	// Rescales counts the rounds / batches (cumulative over the sets derived from
	// one another) in which the scaling step actually divided.
	Rescales int
}

// RChange is one entry of an update batch; Power 0 asks for removal.
type RChange struct {
	Address []byte
	Power   int64
}

// NewRSet copies the data of an implementation set: members in the order they
// are stored there, priorities, and the proposer by address.
func NewRSet(vals *types.ValidatorSet) *RSet {
	s := &RSet{Proposer: -1}
	if vals == nil {
		return s
	}
	for _, v := range vals.Validators {
		s.Vals = append(s.Vals, RVal{Address: append([]byte{}, v.Address...), Power: v.VotingPower,
			Priority: big.NewInt(v.ProposerPriority)})
	}
	if vals.Proposer != nil {
		for i := range s.Vals {
			if bytes.Equal(s.Vals[i].Address, vals.Proposer.Address) {
				s.Proposer = i
			}
		}
	}
	return s
}

func (s *RSet) Clone() *RSet {
	o := &RSet{Proposer: s.Proposer, Rescales: s.Rescales, Vals: make([]RVal, len(s.Vals))}
	for i, v := range s.Vals {
		o.Vals[i] = RVal{Address: append([]byte{}, v.Address...), Power: v.Power, Priority: new(big.Int).Set(v.Priority)}
	}
	return o
}

// TotalPower is the exact sum of the members' powers.
func (s *RSet) TotalPower() *big.Int {
	t := new(big.Int)
	for _, v := range s.Vals {
		t.Add(t, big.NewInt(v.Power))
	}
	return t
}

// IsCanonical reports whether the members are ordered by power descending, then
// address ascending, with unique addresses.
func (s *RSet) IsCanonical() bool {
	for i := 1; i < len(s.Vals); i++ {
		a, b := s.Vals[i-1], s.Vals[i]
		if a.Power < b.Power {
			return false
		}
		if a.Power == b.Power && bytes.Compare(a.Address, b.Address) >= 0 {
			return false
		}
	}
	seen := map[string]bool{}
	for _, v := range s.Vals {
		if seen[string(v.Address)] {
			return false
		}
		seen[string(v.Address)] = true
	}
	return true
}

// FitsInt64 reports whether every priority is representable as an int64.
func (s *RSet) FitsInt64() bool {
	for _, v := range s.Vals {
		if !v.Priority.IsInt64() {
			return false
		}
	}
	return true
}

// Spread returns max-min of the priorities.
func (s *RSet) Spread() *big.Int {
	if len(s.Vals) == 0 {
		return new(big.Int)
	}
	mx, mn := s.Vals[0].Priority, s.Vals[0].Priority
	for _, v := range s.Vals[1:] {
		if v.Priority.Cmp(mx) > 0 {
			mx = v.Priority
		}
		if v.Priority.Cmp(mn) < 0 {
			mn = v.Priority
		}
	}
	return new(big.Int).Sub(mx, mn)
}

func (s *RSet) canonicalise() {
	sort.SliceStable(s.Vals, func(i, j int) bool {
		if s.Vals[i].Power != s.Vals[j].Power {
			return s.Vals[i].Power > s.Vals[j].Power
		}
		return bytes.Compare(s.Vals[i].Address, s.Vals[j].Address) < 0
	})
}

// ScaleAndCentre performs, in place, the two normalisation steps that open every
// round and close every batch.  It returns true if the scaling step divided.
func (s *RSet) ScaleAndCentre() bool {
	n := len(s.Vals)
	if n == 0 {
		return false
	}
	scaled := false
	window := new(big.Int).Mul(big.NewInt(2), s.TotalPower())
	if window.Sign() > 0 {
		diff := s.Spread()
		if diff.Cmp(window) > 0 {
			// ratio = ceil(diff / window)
			ratio := new(big.Int).Add(diff, window)
			ratio.Sub(ratio, big.NewInt(1))
			ratio.Quo(ratio, window)
			for i := range s.Vals {
				s.Vals[i].Priority = new(big.Int).Quo(s.Vals[i].Priority, ratio) // truncated toward zero
			}
			scaled = true
			s.Rescales++
		}
	}
	sum := new(big.Int)
	for _, v := range s.Vals {
		sum.Add(sum, v.Priority)
	}
	avg := floorDiv(sum, big.NewInt(int64(n)))
	for i := range s.Vals {
		s.Vals[i].Priority = new(big.Int).Sub(s.Vals[i].Priority, avg)
	}
	return scaled
}

// floorDiv rounds toward minus infinity (b > 0).
func floorDiv(a, b *big.Int) *big.Int {
	q, m := new(big.Int).QuoRem(a, b, new(big.Int))
	if m.Sign() < 0 {
		q.Sub(q, big.NewInt(1))
	}
	return q
}

// Elect performs, in place, the election step of one round (no normalisation):
// add powers, pick the maximum (ties to the lower address), subtract the total.
func (s *RSet) Elect() int {
	if len(s.Vals) == 0 {
		s.Proposer = -1
		return -1
	}
	t := s.TotalPower()
	best := -1
	for i := range s.Vals {
		s.Vals[i].Priority = new(big.Int).Add(s.Vals[i].Priority, big.NewInt(s.Vals[i].Power))
		if best < 0 {
			best = i
			continue
		}
		switch c := s.Vals[i].Priority.Cmp(s.Vals[best].Priority); {
		case c > 0:
			best = i
		case c == 0 && bytes.Compare(s.Vals[i].Address, s.Vals[best].Address) < 0:
			best = i
		}
	}
	s.Vals[best].Priority = new(big.Int).Sub(s.Vals[best].Priority, t)
	s.Proposer = best
	return best
}

// IncrementOnce runs one round of the rotation on a copy and returns it with
// Proposer set.  The set must not be empty.
func (s *RSet) IncrementOnce() *RSet {
	o := s.Clone()
	o.ScaleAndCentre()
	o.Elect()
	return o
}

// ProposerSchedule returns the addresses of the proposers of the next `rounds` rounds.
func ProposerSchedule(s *RSet, rounds int) [][]byte {
	out := make([][]byte, 0, rounds)
	cur := s
	for r := 0; r < rounds; r++ {
		cur = cur.IncrementOnce()
		out = append(out, append([]byte{}, cur.Vals[cur.Proposer].Address...))
	}
	return out
}

// ApplyUpdates applies a batch.  It returns a new set (Proposer = -1: nobody has
// been elected in it yet) or an error, in which case s is untouched; s is never
// modified.
func (s *RSet) ApplyUpdates(changes []RChange) (*RSet, error) {
	if len(changes) == 0 {
		o := s.Clone()
		return o, nil
	}
	type member struct {
		power int64
		prio  *big.Int // nil: new member
	}
	cur := map[string]*member{}
	for _, v := range s.Vals {
		cur[string(v.Address)] = &member{v.Power, new(big.Int).Set(v.Priority)}
	}
	seen := map[string]bool{}
	var removals []string
	for _, ch := range changes {
		k := string(ch.Address)
		if seen[k] {
			return nil, fmt.Errorf("address %X occurs twice in the batch", ch.Address)
		}
		seen[k] = true
		if ch.Power < 0 {
			return nil, fmt.Errorf("negative power %d for %X", ch.Power, ch.Address)
		}
		if ch.Power > MaxTotalPower {
			return nil, fmt.Errorf("power %d for %X exceeds the limit on the total", ch.Power, ch.Address)
		}
	}
	for _, ch := range changes {
		k := string(ch.Address)
		if ch.Power == 0 {
			if _, ok := cur[k]; !ok {
				return nil, fmt.Errorf("removal of %X, which is not a member", ch.Address)
			}
			removals = append(removals, k)
			continue
		}
		if m, ok := cur[k]; ok {
			m.power = ch.Power
		} else {
			cur[k] = &member{ch.Power, nil}
		}
	}
	// total with all additions and power changes, before removals
	before := new(big.Int)
	for _, m := range cur {
		before.Add(before, big.NewInt(m.power))
	}
	for _, k := range removals {
		delete(cur, k)
	}
	if len(cur) == 0 {
		return nil, errors.New("the batch would leave the set empty")
	}
	total := new(big.Int)
	for _, m := range cur {
		total.Add(total, big.NewInt(m.power))
	}
	if total.Cmp(big.NewInt(MaxTotalPower)) > 0 {
		return nil, fmt.Errorf("total power %v exceeds the limit %d", total, MaxTotalPower)
	}
	// -1.125 * P  =  -(P + floor(P/8))
	entry := new(big.Int).Add(before, new(big.Int).Rsh(before, 3))
	entry.Neg(entry)
	o := &RSet{Proposer: -1, Rescales: s.Rescales}
	for k, m := range cur {
		p := m.prio
		if p == nil {
			p = new(big.Int).Set(entry)
		}
		o.Vals = append(o.Vals, RVal{Address: []byte(k), Power: m.power, Priority: p})
	}
	o.canonicalise() // fixes the order before anything order-sensitive could happen
	o.ScaleAndCentre()
	return o, nil
}
