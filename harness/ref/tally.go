package ref

// Reference tally of a commit against a validator set (DESIGN.md C07; reused by
// C01, C13, C18).
//
// Written from the property statement ("signatures that verify under the given
// chain id, height, round and exactly that block id, each from a different
// member of the given validator set and flagged as for-the-block, add up to
// strictly more than the required fraction of that set's total power") and from
// spec/core/encoding.md ("SignBytes for a vote is the protobuf encoding of
// CanonicalVote ... all canonical messages are length prefixed").
//
// Nothing here calls types.ValidatorSet.VerifyCommit*, Vote.Verify,
// types.VoteSignBytes, Commit.VoteSignBytes, CommitSig.BlockID/ForBlock/Absent,
// CanonicalizeVote/CanonicalizeBlockID, ValidatorSet.TotalVotingPower or
// GetByAddress.  types.ValidatorSet / types.Commit / types.BlockID are read as
// plain data (exported fields only).  Shared with the implementation: the
// generated protobuf marshaller of tmproto.CanonicalVote, and the ed25519
// primitive (Go standard library; other key types fall back to the key's own
// VerifySignature as a primitive).  All arithmetic is math/big.

import (
	"bytes"
	stded "crypto/ed25519"
	"crypto/sha256"
	"encoding/binary"
	"errors"
	"fmt"
	"math/big"
	"sync"
	"time"

	"github.com/tendermint/tendermint/crypto"
	tmed "github.com/tendermint/tendermint/crypto/ed25519"
	tmproto "github.com/tendermint/tendermint/proto/tendermint/types"
	"github.com/tendermint/tendermint/types"
)

// Flag values of a commit slot (spec/core/data_structures.md, BlockIDFlag).
const (
	FlagAbsent = 1
	FlagCommit = 2
	FlagNil    = 3
)

// Message types (SignedMsgType).
const (
	MsgPrevote   = 1
	MsgPrecommit = 2
)

// IsNilBlockID: the id of "no block" (empty hash, zero part-set header).
func IsNilBlockID(b types.BlockID) bool {
	return len(b.Hash) == 0 && b.PartSetHeader.Total == 0 && len(b.PartSetHeader.Hash) == 0
}

// SameBlockID compares two block ids field by field.
func SameBlockID(a, b types.BlockID) bool {
	return bytes.Equal(a.Hash, b.Hash) && a.PartSetHeader.Total == b.PartSetHeader.Total &&
		bytes.Equal(a.PartSetHeader.Hash, b.PartSetHeader.Hash)
}

// CanonicalVoteSignBytes builds the bytes a validator signs for a vote:
// uvarint(length) || protobuf(CanonicalVote{type, sfixed64 height, sfixed64
// round, block id (omitted for the nil block), timestamp, chain id}).
func CanonicalVoteSignBytes(chainID string, msgType int32, height int64, round int32, blockID types.BlockID, ts time.Time) []byte {
	cv := tmproto.CanonicalVote{
		Type:      tmproto.SignedMsgType(msgType),
		Height:    height,
		Round:     int64(round),
		Timestamp: ts,
		ChainID:   chainID,
	}
	if !IsNilBlockID(blockID) {
		cv.BlockID = &tmproto.CanonicalBlockID{
			Hash: blockID.Hash,
			PartSetHeader: tmproto.CanonicalPartSetHeader{
				Total: blockID.PartSetHeader.Total,
				Hash:  blockID.PartSetHeader.Hash,
			},
		}
	}
	body, err := cv.Marshal()
	if err != nil {
		// only a timestamp outside years 1..9999 can do this; such a slot can
		// not carry a valid signature
		return nil
	}
	var pre [binary.MaxVarintLen64]byte
	n := binary.PutUvarint(pre[:], uint64(len(body)))
	out := make([]byte, 0, n+len(body))
	out = append(out, pre[:n]...)
	return append(out, body...)
}

// PrecommitSignBytes: sign bytes of a precommit.
func PrecommitSignBytes(chainID string, height int64, round int32, blockID types.BlockID, ts time.Time) []byte {
	return CanonicalVoteSignBytes(chainID, MsgPrecommit, height, round, blockID, ts)
}

// VerifySig is the signature primitive: standard-library ed25519 for ed25519
// keys, the key's own VerifySignature otherwise.
func VerifySig(pk crypto.PubKey, msg, sig []byte) bool {
	if pk == nil || msg == nil {
		return false
	}
	if k, ok := pk.(tmed.PubKey); ok {
		if len(k) != stded.PublicKeySize || len(sig) != stded.SignatureSize {
			return false
		}
		return stded.Verify(stded.PublicKey(k), msg, sig)
	}
	return pk.VerifySignature(msg, sig)
}

// SigCache memoises VerifySig by SHA-256(pubkey, message, signature); safe for
// concurrent use.  A nil *SigCache verifies without memoising.
type SigCache struct {
	mu sync.Mutex
	m  map[[32]byte]bool
}

func NewSigCache() *SigCache { return &SigCache{m: map[[32]byte]bool{}} }

func (c *SigCache) Verify(pk crypto.PubKey, msg, sig []byte) bool {
	if c == nil || pk == nil {
		return VerifySig(pk, msg, sig)
	}
	h := sha256.New()
	var l [8]byte
	for _, b := range [][]byte{[]byte(pk.Type()), pk.Bytes(), msg, sig} {
		binary.LittleEndian.PutUint64(l[:], uint64(len(b)))
		h.Write(l[:])
		h.Write(b)
	}
	var k [32]byte
	copy(k[:], h.Sum(nil))
	c.mu.Lock()
	v, ok := c.m[k]
	c.mu.Unlock()
	if ok {
		return v
	}
	v = VerifySig(pk, msg, sig)
	c.mu.Lock()
	c.m[k] = v
	c.mu.Unlock()
	return v
}

// TallyResult of a commit against a validator set, computed independently of the implementation.
type TallyResult struct {
	Total             *big.Int // total power of the set
	ForBlock          *big.Int // power of DISTINCT validators whose slot is flagged commit and whose signature verifies over (chainID,height,round,blockID,slot timestamp)
	AllNonAbsentValid bool     // every non-absent slot carries a signature valid for what its flag says (commit => blockID, nil => nil block id), from the validator at that index
	Structural        error    // non-nil if size/height/blockID preconditions of the "by index" entry points fail (len(sigs)!=len(vals), commit.Height!=height, commit.BlockID!=blockID)

	NonAbsent int // slots that are not flagged absent
	Counted   int // validators counted in ForBlock
}

func totalPower(vals *types.ValidatorSet) *big.Int {
	t := new(big.Int)
	if vals == nil {
		return t
	}
	for _, v := range vals.Validators {
		if v != nil {
			t.Add(t, big.NewInt(v.VotingPower))
		}
	}
	return t
}

// TallyCommit is the "by index" tally: slot i belongs to validator i of vals.
// The sign bytes are built from the CALLER's height and block id (the block
// the caller wants to see committed) and the commit's round, so a commit for
// another height or block contributes nothing whatever its Height/BlockID
// fields say.
func TallyCommit(chainID string, vals *types.ValidatorSet, blockID types.BlockID, height int64, commit *types.Commit) TallyResult {
	return TallyCommitCached(nil, chainID, vals, blockID, height, commit)
}

func TallyCommitCached(cache *SigCache, chainID string, vals *types.ValidatorSet, blockID types.BlockID, height int64, commit *types.Commit) TallyResult {
	r := TallyResult{Total: totalPower(vals), ForBlock: new(big.Int), AllNonAbsentValid: true}
	if commit == nil {
		r.Structural = errors.New("nil commit")
		r.AllNonAbsentValid = false
		return r
	}
	var vs []*types.Validator
	if vals != nil {
		vs = vals.Validators
	}
	switch {
	case len(commit.Signatures) != len(vs):
		r.Structural = fmt.Errorf("commit has %d slots, validator set has %d members", len(commit.Signatures), len(vs))
	case commit.Height != height:
		r.Structural = fmt.Errorf("commit is for height %d, wanted %d", commit.Height, height)
	case !SameBlockID(commit.BlockID, blockID):
		r.Structural = errors.New("commit is for another block id")
	}
	// "each from a different member": a member is identified by its public key
	// (the address is derived data that a decoded set may carry forged)
	counted := map[string]bool{}
	for i, s := range commit.Signatures {
		if s.BlockIDFlag == FlagAbsent {
			continue
		}
		r.NonAbsent++
		if i >= len(vs) || vs[i] == nil {
			r.AllNonAbsentValid = false // nobody owns this slot
			continue
		}
		v := vs[i]
		switch s.BlockIDFlag {
		case FlagCommit:
			msg := PrecommitSignBytes(chainID, height, commit.Round, blockID, s.Timestamp)
			if !cache.Verify(v.PubKey, msg, s.Signature) {
				r.AllNonAbsentValid = false
				continue
			}
			a := v.PubKey.Type() + "/" + string(v.PubKey.Bytes())
			if !counted[a] {
				counted[a] = true
				r.Counted++
				r.ForBlock.Add(r.ForBlock, big.NewInt(v.VotingPower))
			}
		case FlagNil:
			msg := PrecommitSignBytes(chainID, height, commit.Round, types.BlockID{}, s.Timestamp)
			if !cache.Verify(v.PubKey, msg, s.Signature) {
				r.AllNonAbsentValid = false
			}
		default:
			r.AllNonAbsentValid = false // a flag that says nothing cannot be valid
		}
	}
	return r
}

// TwoThirds: 3*ForBlock > 2*Total.
func TwoThirds(r TallyResult) bool { return FractionExceeded(r.ForBlock, r.Total, 2, 3) }

// OK: structural preconditions hold and more than two thirds signed for the block.
func (r TallyResult) OK() bool { return r.Structural == nil && TwoThirds(r) }

// FractionExceeded: den*sum > num*total, in big integers.
func FractionExceeded(sum, total *big.Int, num, den uint64) bool {
	l := new(big.Int).Mul(new(big.Int).SetUint64(den), sum)
	rr := new(big.Int).Mul(new(big.Int).SetUint64(num), total)
	return l.Cmp(rr) > 0
}

// TrustingResult is the detailed result of the "by address" tally.
type TrustingResult struct {
	Total        *big.Int // total power of vals
	ForBlock     *big.Int // power of distinct members of vals with >= 1 commit-flagged slot carrying their valid signature over (chainID, commit.Height, commit.Round, commit.BlockID, slot timestamp)
	DoubleSigner bool     // some member of vals owns (by address) more than one commit-flagged slot
	AllValid     bool     // every commit-flagged slot whose address belongs to vals carries that member's valid signature
	Known        int      // commit-flagged slots whose address belongs to vals
}

// TallyCommitTrusting, trusting variant: signers looked up by address in vals (a possibly different set), each validator counted once.
func TallyCommitTrusting(chainID string, vals *types.ValidatorSet, commit *types.Commit) (forBlock, total *big.Int, doubleSigner bool) {
	t := TallyCommitTrustingDetail(nil, chainID, vals, commit)
	return t.ForBlock, t.Total, t.DoubleSigner
}

func TallyCommitTrustingDetail(cache *SigCache, chainID string, vals *types.ValidatorSet, commit *types.Commit) TrustingResult {
	t := TrustingResult{Total: totalPower(vals), ForBlock: new(big.Int), AllValid: true}
	if commit == nil || vals == nil {
		return t
	}
	byAddr := map[string]int{}
	for i, v := range vals.Validators {
		if v == nil {
			continue
		}
		if _, dup := byAddr[string(v.Address)]; !dup {
			byAddr[string(v.Address)] = i
		}
	}
	slotsOf := map[int]int{}
	counted := map[int]bool{}
	for _, s := range commit.Signatures {
		if s.BlockIDFlag != FlagCommit {
			continue
		}
		i, ok := byAddr[string(s.ValidatorAddress)]
		if !ok {
			continue // unknown signer: never counts
		}
		t.Known++
		slotsOf[i]++
		if slotsOf[i] > 1 {
			t.DoubleSigner = true
		}
		v := vals.Validators[i]
		msg := PrecommitSignBytes(chainID, commit.Height, commit.Round, commit.BlockID, s.Timestamp)
		if !cache.Verify(v.PubKey, msg, s.Signature) {
			t.AllValid = false
			continue
		}
		if !counted[i] {
			counted[i] = true
			t.ForBlock.Add(t.ForBlock, big.NewInt(v.VotingPower))
		}
	}
	return t
}

// CanonicalVoteSignBytesByHand encodes the same message as
// CanonicalVoteSignBytes byte by byte from the .proto definition
// (proto/tendermint/types/canonical.proto, spec/core/encoding.md) without the
// generated marshaller:
//
//	CanonicalVote            1 type varint, 2 height sfixed64, 3 round sfixed64,
//	                         4 block_id message (ABSENT iff the block id is the zero id),
//	                         5 timestamp message (always present), 6 chain_id string
//	CanonicalBlockID         1 hash bytes, 2 part_set_header message (always present)
//	CanonicalPartSetHeader   1 total uint32 varint, 2 hash bytes
//	google.protobuf.Timestamp 1 seconds int64 varint, 2 nanos int32 varint
//
// proto3 scalar fields equal to their zero value are omitted.  Checks use it to
// cross-examine the marshaller-based encoding; a block id that is not zero but
// incomplete (e.g. hash only) must stay present in the sign bytes.
func CanonicalVoteSignBytesByHand(chainID string, msgType int32, height int64, round int32, blockID types.BlockID, ts time.Time) []byte {
	uv := func(b []byte, x uint64) []byte {
		for x >= 0x80 {
			b = append(b, byte(x)|0x80)
			x >>= 7
		}
		return append(b, byte(x))
	}
	bytesField := func(b []byte, tag byte, v []byte) []byte {
		b = append(b, tag)
		b = uv(b, uint64(len(v)))
		return append(b, v...)
	}
	fixed := func(b []byte, tag byte, x int64) []byte {
		b = append(b, tag)
		var f [8]byte
		binary.LittleEndian.PutUint64(f[:], uint64(x))
		return append(b, f[:]...)
	}
	var body []byte
	if msgType != 0 {
		body = append(body, 0x08)
		body = uv(body, uint64(int64(msgType)))
	}
	if height != 0 {
		body = fixed(body, 0x11, height)
	}
	if round != 0 {
		body = fixed(body, 0x19, int64(round))
	}
	if !IsNilBlockID(blockID) {
		var psh []byte
		if blockID.PartSetHeader.Total != 0 {
			psh = append(psh, 0x08)
			psh = uv(psh, uint64(blockID.PartSetHeader.Total))
		}
		if len(blockID.PartSetHeader.Hash) != 0 {
			psh = bytesField(psh, 0x12, blockID.PartSetHeader.Hash)
		}
		var bid []byte
		if len(blockID.Hash) != 0 {
			bid = bytesField(bid, 0x0a, blockID.Hash)
		}
		bid = bytesField(bid, 0x12, psh)
		body = bytesField(body, 0x22, bid)
	}
	var tsb []byte
	if s := ts.Unix(); s != 0 {
		tsb = append(tsb, 0x08)
		tsb = uv(tsb, uint64(s))
	}
	if n := ts.Nanosecond(); n != 0 {
		tsb = append(tsb, 0x10)
		tsb = uv(tsb, uint64(n))
	}
	body = bytesField(body, 0x2a, tsb)
	if chainID != "" {
		body = bytesField(body, 0x32, []byte(chainID))
	}
	return append(uv(nil, uint64(len(body))), body...)
}
