module verif

go 1.18

require (
	github.com/anishathalye/porcupine v1.3.0
	github.com/tendermint/tendermint v0.0.0
)

require (
	github.com/btcsuite/btcd v0.22.1 // indirect
	github.com/go-kit/log v0.2.1 // indirect
	github.com/go-logfmt/logfmt v0.5.1 // indirect
	github.com/gogo/protobuf v1.3.2 // indirect
	github.com/golang/protobuf v1.5.2 // indirect
	github.com/pkg/errors v0.9.1 // indirect
	golang.org/x/crypto v0.1.0 // indirect
	golang.org/x/net v0.1.0 // indirect
	golang.org/x/sys v0.1.0 // indirect
	golang.org/x/text v0.4.0 // indirect
	google.golang.org/genproto v0.0.0-20221014213838-99cd37c6964a // indirect
	google.golang.org/grpc v1.50.1 // indirect
	google.golang.org/protobuf v1.28.2-0.20220831092852-f930b1dc76e8 // indirect
)

replace github.com/tendermint/tendermint => /repo
