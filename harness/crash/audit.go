package crash

import (
	"fmt"
	"strings"
)

type Finding struct {
	Key  string
	What string
}

// AuditApp is the C05a oracle over the application journal of all
// incarnations plus the stores after the final recovery.
func AuditApp(res *Result, blockTxs map[int64][]string) []Finding {
	var out []Finding
	add := func(k, f string, a ...interface{}) { out = append(out, Finding{k, fmt.Sprintf(f, a...)}) }
	committed := int64(0) // highest height the app is known to have persisted
	type blk struct {
		h     int64
		txs   []string
		ended bool
		inc   int
	}
	var cur *blk
	checkTxs := func(b *blk, complete bool) {
		want, ok := blockTxs[b.h]
		if !ok {
			return
		}
		if complete && len(b.txs) != len(want) {
			add("delivertx-sequence-differs", "height %d (incarnation %d): application was given %d txs, block has %d", b.h, b.inc, len(b.txs), len(want))
			return
		}
		for i, tx := range b.txs {
			if i >= len(want) || want[i] != tx {
				add("delivertx-sequence-differs", "height %d (incarnation %d): DeliverTx #%d is not tx #%d of the block", b.h, b.inc, i, i)
				return
			}
		}
	}
	for _, e := range res.App {
		if e.Conn == "query" && e.Method == "Info" && e.Phase == "ret" {
			if e.Height > committed {
				committed = e.Height
			}
			cur = nil // a new incarnation starts with Info
			continue
		}
		if e.Conn != "consensus" {
			continue
		}
		switch e.Method + "/" + e.Phase {
		case "InitChain/call":
			if e.Height != 0 || committed != 0 {
				add("initchain-after-commit", "InitChain (incarnation %d) while the application had committed height %d", e.Inc, maxi(e.Height, committed))
			}
		case "BeginBlock/call":
			if cur != nil && !cur.ended && cur.inc == e.Inc && cur.h != 0 {
				// a new block began although the previous one of the same incarnation never reached Commit
				add("block-abandoned-mid-execution", "incarnation %d: BeginBlock(%d) while block %d was still being executed", e.Inc, e.Height, cur.h)
			}
			switch {
			case e.Height <= committed:
				add("block-executed-again", "BeginBlock(%d) in incarnation %d although the application had already committed height %d", e.Height, e.Inc, committed)
			case e.Height > committed+1:
				add("height-skipped", "BeginBlock(%d) in incarnation %d while the application's last committed height is %d", e.Height, e.Inc, committed)
			}
			cur = &blk{h: e.Height, inc: e.Inc}
		case "DeliverTx/call":
			if cur == nil || cur.ended {
				add("delivertx-outside-block", "DeliverTx in incarnation %d outside BeginBlock..EndBlock", e.Inc)
				continue
			}
			cur.txs = append(cur.txs, e.Tx)
		case "EndBlock/call":
			if cur == nil || cur.h != e.Height {
				add("endblock-without-beginblock", "EndBlock(%d) in incarnation %d without a matching BeginBlock", e.Height, e.Inc)
				continue
			}
			cur.ended = true
			checkTxs(cur, true)
		case "Commit/call":
			if cur == nil || !cur.ended {
				add("commit-without-endblock", "Commit in incarnation %d without a completed block", e.Inc)
			}
		case "Commit/persisted":
			if e.Height != committed+1 {
				add("commit-height-not-consecutive", "application persisted height %d after %d", e.Height, committed)
			}
			if e.Height > committed {
				committed = e.Height
			}
			cur = nil
		}
	}
	if cur != nil && !cur.ended {
		checkTxs(cur, false)
	}
	// after the final restart
	hs := res.Handshake
	if hs.Err != "" {
		add("restart-failed", "node could not be restarted after the plan: %s", firstLine(hs.Err))
		return out
	}
	if hs.StateHeight != hs.StoreHeight || hs.StoreHeight != hs.AppHeight {
		add("heights-disagree-after-restart", "after restart: state %d, block store %d, application %d", hs.StateHeight, hs.StoreHeight, hs.AppHeight)
	}
	if hs.StateAppHash != hs.AppHash {
		add("apphash-disagrees-after-restart", "after restart: state app hash %s, application %s", hs.StateAppHash, hs.AppHash)
	}
	return out
}

func maxi(a, b int64) int64 {
	if a > b {
		return a
	}
	return b
}

func firstLine(s string) string {
	s = strings.TrimSpace(s)
	if i := strings.LastIndexByte(s, '\n'); i >= 0 {
		s = s[i+1:]
	}
	if len(s) > 300 {
		s = s[:300]
	}
	return s
}

// AuditPV is the C04 oracle over the union of the signer journals of all
// incarnations: for one (height, round, kind) every released signature is over
// the same block (and POL round), and the released sign-bytes are identical
// (a request differing only in timestamp must get the earlier signature back).
func AuditPV(pv []PVEntry) []Finding {
	var out []Finding
	type key struct {
		h int64
		r int32
		k string
	}
	first := map[key]PVEntry{}
	for _, e := range pv {
		k := key{e.Height, e.Round, e.Kind}
		p, ok := first[k]
		if !ok {
			first[k] = e
			continue
		}
		if p.BlockHash != e.BlockHash || p.PartsHash != e.PartsHash || p.PartsTot != e.PartsTot || p.POLRound != e.POLRound {
			out = append(out, Finding{"conflicting-signatures", fmt.Sprintf("%s at %d/%d signed for block %s (incarnation %d) and for block %s (incarnation %d)",
				e.Kind, e.Height, e.Round, short(p.BlockHash), p.Inc, short(e.BlockHash), e.Inc)})
			continue
		}
		if p.SignBytes != e.SignBytes || p.Signature != e.Signature {
			out = append(out, Finding{"resigned-with-new-timestamp", fmt.Sprintf("%s at %d/%d for the same block released twice with different sign-bytes/signature (incarnations %d and %d): the earlier signature was not reused",
				e.Kind, e.Height, e.Round, p.Inc, e.Inc)})
		}
	}
	return out
}

func short(s string) string {
	if len(s) > 12 {
		return s[:12]
	}
	if s == "" {
		return "nil"
	}
	return s
}
