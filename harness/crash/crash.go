// Package crash is the parent side of the crashbox engine (DESIGN.md 2.4):
// crash plans, child runs, WAL tail surgery and the journal audits.
package crash

import (
	"bufio"
	"bytes"
	"context"
	"encoding/hex"
	"encoding/json"
	"fmt"
	"os"
	"os/exec"
	"path/filepath"
	"strconv"
	"strings"
	"time"

	dbm "github.com/tendermint/tm-db"

	cs "github.com/tendermint/tendermint/consensus"
	"github.com/tendermint/tendermint/store"

	"verif/recapp"
)

// Step is one incarnation of the node.
type Step struct {
	Plan   string `json:"plan"`    // "" = no crash planned
	Target int64  `json:"target"`  // exit when the store reaches this height
	WALCut string `json:"wal_cut"` // after this incarnation: "" | "synced" | "frac:<0..1>" | "garbage:<n>"
}

type IncResult struct {
	Step      Step   `json:"step"`
	Exit      int    `json:"exit"`
	Crashed   bool   `json:"crashed"`
	Reached   bool   `json:"reached_target"`
	Timeout   bool   `json:"timeout"` // the parent's wall-clock watchdog killed the child (inconclusive)
	Stalled   bool   `json:"stalled"` // the node was alive for 60 s without reaching its target
	Marker    string `json:"marker"`
	WALBefore int64  `json:"wal_size"`
	WALSynced int64  `json:"wal_synced"`
	WALAfter  int64  `json:"wal_after_cut"`
	Stderr    string `json:"stderr,omitempty"`
}

type PVEntry struct {
	Inc       int    `json:"inc"`
	N         int64  `json:"n"`
	Kind      string `json:"kind"`
	Height    int64  `json:"h"`
	Round     int32  `json:"r"`
	BlockHash string `json:"block"`
	PartsHash string `json:"parts"`
	PartsTot  uint32 `json:"parts_total"`
	POLRound  int32  `json:"pol"`
	TsNanos   int64  `json:"ts"`
	SignBytes string `json:"sign_bytes"`
	Signature string `json:"sig"`
}

type Handshake struct {
	StateHeight  int64  `json:"state_height"`
	StateAppHash string `json:"state_app_hash"`
	StoreHeight  int64  `json:"store_height"`
	StoreBase    int64  `json:"store_base"`
	AppHeight    int64  `json:"app_height"`
	AppHash      string `json:"app_hash"`
	Err          string `json:"err,omitempty"`
}

type Result struct {
	Incs      []IncResult
	Handshake Handshake
	App       []recapp.Event
	PV        []PVEntry
	DBOps     map[string]map[int]int // store -> incarnation -> ops
	Home      string
}

type Runner struct {
	Bin     string // crashbox binary
	Tmp     string
	Special string
	Retain  int64
	Mempool string
	// AbsentValidator: the genesis has a second validator (power 1 of 11) that never shows up, so the node is not
	// "the only validator" (that special case switches block sync and state sync off whatever the configuration says).
	AbsentValidator bool
	// StateSyncLeftOn: every incarnation after the template run has statesync.enable = true in its configuration
	// (an operator who state-synced the node once and never switched it off again): a node with local state must ignore it.
	StateSyncLeftOn bool
}

func walHead(home string) string { return filepath.Join(home, "data", "cs.wal", "wal") }

// InitHome creates a fresh home and advances it cleanly to height h0.
func (r *Runner) InitHome(home string, h0 int64) error {
	initArgs := []string{"-home", home, "-mode", "init"}
	if r.AbsentValidator {
		initArgs = append(initArgs, "-absentval")
	}
	if out, err := exec.Command(r.Bin, initArgs...).CombinedOutput(); err != nil {
		return fmt.Errorf("crashbox init: %v: %s", err, out)
	}
	if h0 > 0 {
		res := r.runInc(home, 0, Step{Target: h0})
		if !res.Reached {
			return fmt.Errorf("template run did not reach height %d: %+v", h0, res)
		}
	}
	return nil
}

// CopyHome clones a home directory.
func CopyHome(src, dst string) error {
	out, err := exec.Command("cp", "-a", src, dst).CombinedOutput()
	if err != nil {
		return fmt.Errorf("cp: %v: %s", err, out)
	}
	return nil
}

func (r *Runner) runInc(home string, inc int, st Step) IncResult {
	res := IncResult{Step: st}
	args := []string{"-home", home, "-mode", "run", "-target", strconv.FormatInt(st.Target, 10), "-inc", strconv.Itoa(inc)}
	if r.Special != "" {
		args = append(args, "-special", r.Special)
	}
	if r.Retain > 0 {
		args = append(args, "-retain", strconv.FormatInt(r.Retain, 10))
	}
	if r.Mempool != "" {
		args = append(args, "-mempool", r.Mempool)
	}
	if r.StateSyncLeftOn && inc > 0 {
		args = append(args, "-statesync")
	}
	env := append(os.Environ(), "VERIF_HOOK_JOURNAL="+filepath.Join(home, "hookjournal"))
	switch {
	case strings.HasPrefix(st.Plan, "fail:"):
		env = append(env, "FAIL_TEST_INDEX="+st.Plan[len("fail:"):])
	case strings.HasPrefix(st.Plan, "point:"):
		p := strings.Split(st.Plan, ":")
		if len(p) == 3 {
			env = append(env, "VERIF_POINTS="+p[1]+"=crash@"+p[2])
		}
	case strings.HasPrefix(st.Plan, "sys:"):
		// handled below
	case st.Plan != "":
		args = append(args, "-plan", st.Plan)
	}
	_ = os.Remove(filepath.Join(home, "hookjournal"))
	ctx, cancel := context.WithTimeout(context.Background(), 90*time.Second)
	defer cancel()
	bin := r.Bin
	sysKill := false
	if strings.HasPrefix(st.Plan, "sys:") {
		// syscall-level crash point: SIGKILL on entering the n-th call of the set (strace fault injection)
		p := strings.Split(st.Plan, ":")
		if len(p) == 3 {
			args = append([]string{"-f", "-o", "/dev/null", "-e", "trace=" + p[1], "-e", "inject=" + p[1] + ":signal=SIGKILL:when=" + p[2], r.Bin}, args...)
			bin = "strace"
			sysKill = true
		}
	}
	cmd := exec.CommandContext(ctx, bin, args...)
	cmd.Env = env
	var so, se bytes.Buffer
	cmd.Stdout, cmd.Stderr = &so, &se
	err := cmd.Run()
	res.Exit = cmd.ProcessState.ExitCode()
	if ctx.Err() != nil {
		res.Timeout = true
	}
	_ = err
	out := so.String()
	switch {
	case res.Exit == 87:
		res.Crashed = true
	case sysKill && !strings.Contains(out, "CRASHBOX-TARGET") && !strings.Contains(out, "CRASHBOX-TIMEOUT") && ctx.Err() == nil:
		res.Crashed = true // killed by the injected SIGKILL
	case strings.Contains(out, "*** fail-test"):
		res.Crashed = true
	case strings.Contains(out, "CRASHBOX-TARGET"):
		res.Reached = true
	case strings.Contains(out, "CRASHBOX-TIMEOUT"):
		res.Stalled = true
	}
	for _, l := range strings.Split(out, "\n") {
		if strings.HasPrefix(l, "CRASHBOX-") || strings.HasPrefix(l, "*** fail-test") {
			res.Marker = l
		}
	}
	if !res.Crashed && !res.Reached {
		s := se.String()
		if len(s) > 1500 {
			s = s[len(s)-1500:]
		}
		res.Stderr = s
	}
	// WAL sizes
	if fi, err := os.Stat(walHead(home)); err == nil {
		res.WALBefore = fi.Size()
	}
	res.WALSynced = lastSynced(filepath.Join(home, "hookjournal"), walHead(home))
	res.WALAfter = res.WALBefore
	return res
}

func lastSynced(journal, path string) int64 {
	f, err := os.Open(journal)
	if err != nil {
		return -1
	}
	defer f.Close()
	last := int64(-1)
	sc := bufio.NewScanner(f)
	for sc.Scan() {
		p := strings.Fields(sc.Text())
		if len(p) == 3 && p[0] == "autofile.synced" && p[1] == path {
			if n, err := strconv.ParseInt(p[2], 10, 64); err == nil {
				last = n
			}
		}
	}
	return last
}

// cutWAL applies the "unsynced tail that survives" model to the WAL head.
func cutWAL(home string, res *IncResult, how string, rnd func(int64) int64) {
	if how == "" || res.WALSynced < 0 || res.WALBefore <= res.WALSynced {
		return
	}
	head := walHead(home)
	switch {
	case how == "synced":
		_ = os.Truncate(head, res.WALSynced)
		res.WALAfter = res.WALSynced
	case strings.HasPrefix(how, "rand"):
		n := res.WALSynced + rnd(res.WALBefore-res.WALSynced+1)
		_ = os.Truncate(head, n)
		res.WALAfter = n
	case strings.HasPrefix(how, "garbage"):
		// keep a prefix of the tail and overwrite its last bytes with garbage
		n := res.WALSynced + rnd(res.WALBefore-res.WALSynced+1)
		_ = os.Truncate(head, n)
		if n > res.WALSynced {
			f, err := os.OpenFile(head, os.O_WRONLY, 0)
			if err == nil {
				k := rnd(n-res.WALSynced) + 1
				g := make([]byte, k)
				for i := range g {
					g[i] = byte(rnd(256))
				}
				_, _ = f.WriteAt(g, n-k)
				_ = f.Close()
			}
		}
		res.WALAfter = n
	}
}

// Run executes a plan (a list of incarnations) on a private copy of the
// template home, then a final handshake-only incarnation, and collects all
// journals.
func (r *Runner) Run(template string, name string, steps []Step, rnd func(int64) int64) (*Result, error) {
	home := filepath.Join(r.Tmp, name)
	_ = os.RemoveAll(home)
	if err := CopyHome(template, home); err != nil {
		return nil, err
	}
	res := &Result{Home: home}
	for i, st := range steps {
		ir := r.runInc(home, i+1, st)
		if ir.Crashed {
			cutWAL(home, &ir, st.WALCut, rnd)
		}
		res.Incs = append(res.Incs, ir)
	}
	// final: handshake only
	hsArgs := []string{"-home", home, "-mode", "handshake", "-inc", strconv.Itoa(len(steps) + 1)}
	if r.StateSyncLeftOn {
		hsArgs = append(hsArgs, "-statesync")
	}
	out, err := exec.Command(r.Bin, hsArgs...).CombinedOutput()
	found := false
	for _, l := range strings.Split(string(out), "\n") {
		if strings.HasPrefix(l, "CRASHBOX-HANDSHAKE ") {
			_ = json.Unmarshal([]byte(l[len("CRASHBOX-HANDSHAKE "):]), &res.Handshake)
			found = true
		}
	}
	if !found {
		s := string(out)
		if len(s) > 1500 {
			s = s[len(s)-1500:]
		}
		res.Handshake.Err = fmt.Sprintf("%v: %s", err, s)
	}
	res.App = readAppJournal(filepath.Join(home, "appjournal"))
	res.PV = readPVJournal(filepath.Join(home, "pvjournal"))
	res.DBOps = readDBJournal(filepath.Join(home, "dbjournal"))
	return res, nil
}

func readAppJournal(p string) []recapp.Event {
	f, err := os.Open(p)
	if err != nil {
		return nil
	}
	defer f.Close()
	var out []recapp.Event
	sc := bufio.NewScanner(f)
	sc.Buffer(make([]byte, 1<<20), 1<<24)
	for sc.Scan() {
		var e recapp.Event
		if json.Unmarshal(sc.Bytes(), &e) == nil { // a torn last line of a killed incarnation is skipped
			out = append(out, e)
		}
	}
	return out
}

func readPVJournal(p string) []PVEntry {
	f, err := os.Open(p)
	if err != nil {
		return nil
	}
	defer f.Close()
	var out []PVEntry
	sc := bufio.NewScanner(f)
	sc.Buffer(make([]byte, 1<<20), 1<<24)
	for sc.Scan() {
		var e PVEntry
		if json.Unmarshal(sc.Bytes(), &e) == nil {
			out = append(out, e)
		}
	}
	return out
}

func readDBJournal(p string) map[string]map[int]int {
	out := map[string]map[int]int{}
	f, err := os.Open(p)
	if err != nil {
		return out
	}
	defer f.Close()
	sc := bufio.NewScanner(f)
	for sc.Scan() {
		w := strings.Fields(sc.Text())
		if len(w) < 4 {
			continue
		}
		inc, _ := strconv.Atoi(w[0])
		if out[w[1]] == nil {
			out[w[1]] = map[int]int{}
		}
		out[w[1]][inc]++
	}
	return out
}

// BlockTxs loads, from the final block store of a home, the txs of each height.
func BlockTxs(home string) (map[int64][]string, int64, int64, error) {
	db, err := dbm.NewDB("blockstore", dbm.GoLevelDBBackend, filepath.Join(home, "data"))
	if err != nil {
		return nil, 0, 0, err
	}
	defer db.Close()
	bs := store.NewBlockStore(db)
	out := map[int64][]string{}
	for h := bs.Base(); h <= bs.Height() && h > 0; h++ {
		b := bs.LoadBlock(h)
		if b == nil {
			return nil, 0, 0, fmt.Errorf("block %d between base %d and height %d cannot be loaded", h, bs.Base(), bs.Height())
		}
		txs := []string{}
		for _, tx := range b.Txs {
			txs = append(txs, hex.EncodeToString(tx))
		}
		out[h] = txs
	}
	return out, bs.Base(), bs.Height(), nil
}

// Extra runs one more incarnation on the home of a finished plan (used to tell a
// node that is really stuck from one that was merely slow).
func (r *Runner) Extra(res *Result, st Step) IncResult {
	ir := r.runInc(res.Home, len(res.Incs)+2, st)
	res.Incs = append(res.Incs, ir)
	return ir
}

// WALEndHeights lists the end-of-height markers present in the WAL files of a home.
func WALEndHeights(home string) map[int64]bool {
	out := map[int64]bool{}
	files, _ := filepath.Glob(filepath.Join(home, "data", "cs.wal", "wal*"))
	for _, fn := range files {
		f, err := os.Open(fn)
		if err != nil {
			continue
		}
		dec := cs.NewWALDecoder(f)
		for {
			m, err := dec.Decode()
			if err != nil {
				if cs.IsDataCorruptionError(err) {
					continue
				}
				break
			}
			if eh, ok := m.Msg.(cs.EndHeightMessage); ok {
				out[eh.Height] = true
			}
		}
		f.Close()
	}
	return out
}

// PVState reads the signer's persisted last-sign state.
func PVState(home string) (height int64, round int32, step int8) {
	b, err := os.ReadFile(filepath.Join(home, "data", "priv_validator_state.json"))
	if err != nil {
		return
	}
	var st struct {
		Height string `json:"height"`
		Round  int32  `json:"round"`
		Step   int8   `json:"step"`
	}
	if json.Unmarshal(b, &st) == nil {
		height, _ = strconv.ParseInt(st.Height, 10, 64)
		round, step = st.Round, st.Step
	}
	return
}
