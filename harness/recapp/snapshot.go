package recapp

import abci "github.com/tendermint/tendermint/abci/types"

// SnapshotScript lets a check script the snapshot connection; nil members fall
// back to the BaseApplication defaults.
type SnapshotScript struct {
	List  func() abci.ResponseListSnapshots
	Offer func(abci.RequestOfferSnapshot) abci.ResponseOfferSnapshot
	Load  func(abci.RequestLoadSnapshotChunk) abci.ResponseLoadSnapshotChunk
	Apply func(abci.RequestApplySnapshotChunk) abci.ResponseApplySnapshotChunk
}

func (a *App) ListSnapshots(req abci.RequestListSnapshots) abci.ResponseListSnapshots {
	if a.opt.Snapshots.List != nil {
		return a.opt.Snapshots.List()
	}
	return abci.ResponseListSnapshots{}
}

func (a *App) OfferSnapshot(req abci.RequestOfferSnapshot) abci.ResponseOfferSnapshot {
	if a.opt.Snapshots.Offer != nil {
		return a.opt.Snapshots.Offer(req)
	}
	return abci.ResponseOfferSnapshot{}
}

func (a *App) LoadSnapshotChunk(req abci.RequestLoadSnapshotChunk) abci.ResponseLoadSnapshotChunk {
	if a.opt.Snapshots.Load != nil {
		return a.opt.Snapshots.Load(req)
	}
	return abci.ResponseLoadSnapshotChunk{}
}

func (a *App) ApplySnapshotChunk(req abci.RequestApplySnapshotChunk) abci.ResponseApplySnapshotChunk {
	if a.opt.Snapshots.Apply != nil {
		return a.opt.Snapshots.Apply(req)
	}
	return abci.ResponseApplySnapshotChunk{}
}
