// Package recapp is the deterministic recording ABCI application used by the
// harness (DESIGN.md 2.4).  Txs:
//
//	val:<hex ed25519 pubkey>:<power>   validator update at EndBlock
//	param:<name>=<int>                 consensus parameter update at EndBlock
//	                                   (maxbytes, maxgas, evage, evdur_ms, evbytes)
//	bad...                             rejected by CheckTx and DeliverTx (code 1)
//	<key>=<value>                      sets a key
//	anything else                      sets key <tx> to value <tx>
//
// The app hash is the simple Merkle root (ValueOp leaf encoding) of the sorted
// key/value store, which contains the meta keys "~height" and "~txhash" (a
// running SHA-256 over all delivered txs), so Query proofs verify against it
// and it commits to the whole delivery history.
package recapp

import (
	"bytes"
	"crypto/sha256"
	"encoding/binary"
	"encoding/hex"
	"encoding/json"
	"fmt"
	"os"
	"sort"
	"strconv"
	"strings"
	"sync"
	"time"

	abci "github.com/tendermint/tendermint/abci/types"
	"github.com/tendermint/tendermint/crypto/ed25519"
	cryptoenc "github.com/tendermint/tendermint/crypto/encoding"
	"github.com/tendermint/tendermint/crypto/merkle"
	tmcrypto "github.com/tendermint/tendermint/proto/tendermint/crypto"
	tmproto "github.com/tendermint/tendermint/proto/tendermint/types"
)

// Event is one journal line: an ABCI call on entry ("call") or on return ("ret").
type Event struct {
	Seq    int64  `json:"seq"`
	Conn   string `json:"conn"`
	Method string `json:"m"`
	Phase  string `json:"p"` // call | ret
	Height int64  `json:"h,omitempty"`
	Tx     string `json:"tx,omitempty"`
	Hash   string `json:"hash,omitempty"`
	Extra  string `json:"x,omitempty"`
	Inc    int    `json:"inc,omitempty"`  // incarnation
	CSeq   int64  `json:"cseq,omitempty"` // sequence number among the events of the consensus and query connections
}

type persisted struct {
	Height   int64             `json:"height"`
	KV       map[string]string `json:"kv"`
	Vals     map[string]int64  `json:"vals"`
	InitDone bool              `json:"init_done"`
}

type Options struct {
	Dir          string                   // persistence dir ("" = in memory)
	Journal      string                   // journal file path ("" = none)
	Incarnation  int                      // stamped on journal lines
	Hook         func(ev Event)           // called for every event (after journaling), e.g. crash points
	RetainBlocks int64                    // if > 0 Commit returns RetainHeight = height - RetainBlocks + 1
	RetainHeight func(height int64) int64 // if set, Commit returns exactly this (any value, also hostile ones); overrides RetainBlocks
	CommitDelay  time.Duration            // injected at the existing suspension point inside Commit
	CheckDelay   time.Duration
	AppVersion   uint64
	CheckTxFn    func(tx []byte, height int64) abci.ResponseCheckTx // overrides the default verdict
	Snapshots    SnapshotScript                                     // see snapshot.go
}

type App struct {
	abci.BaseApplication
	opt Options

	mu       sync.Mutex
	height   int64
	kv       map[string]string
	vals     map[string]int64 // hex pubkey -> power
	initDone bool
	// per block
	valsAtStart map[string]int64
	valUpdates  []abci.ValidatorUpdate
	paramUpd    *abci.ConsensusParams
	curHeight   int64
	seq         int64
	cseq        int64
	jf          *os.File
}

func New(opt Options) *App {
	a := &App{opt: opt, kv: map[string]string{}, vals: map[string]int64{}}
	if opt.Dir != "" {
		if b, err := os.ReadFile(opt.Dir + "/app.json"); err == nil {
			var p persisted
			if json.Unmarshal(b, &p) == nil {
				a.height, a.kv, a.vals, a.initDone = p.Height, p.KV, p.Vals, p.InitDone
				if a.kv == nil {
					a.kv = map[string]string{}
				}
				if a.vals == nil {
					a.vals = map[string]int64{}
				}
			}
		}
	}
	if opt.Journal != "" {
		a.jf, _ = os.OpenFile(opt.Journal, os.O_CREATE|os.O_WRONLY|os.O_APPEND, 0o644)
	}
	return a
}

func (a *App) log(conn, method, phase string, h int64, tx []byte, hash []byte, extra string) {
	a.seq++
	ev := Event{Seq: a.seq, Conn: conn, Method: method, Phase: phase, Height: h, Extra: extra, Inc: a.opt.Incarnation}
	if conn != "mempool" {
		a.cseq++
		ev.CSeq = a.cseq
	}
	if tx != nil {
		ev.Tx = hex.EncodeToString(tx)
	}
	if hash != nil {
		ev.Hash = hex.EncodeToString(hash)
	}
	if a.jf != nil {
		b, _ := json.Marshal(ev)
		_, _ = a.jf.Write(append(b, '\n'))
	}
	if a.opt.Hook != nil {
		a.opt.Hook(ev)
	}
}

// ---- app hash

func encodeByteSlice(buf *bytes.Buffer, b []byte) {
	var l [binary.MaxVarintLen64]byte
	n := binary.PutUvarint(l[:], uint64(len(b)))
	buf.Write(l[:n])
	buf.Write(b)
}

func kvLeaf(k, v string) []byte {
	vh := sha256.Sum256([]byte(v))
	var buf bytes.Buffer
	encodeByteSlice(&buf, []byte(k))
	encodeByteSlice(&buf, vh[:])
	return buf.Bytes()
}

func (a *App) sortedKeys() []string {
	keys := make([]string, 0, len(a.kv))
	for k := range a.kv {
		keys = append(keys, k)
	}
	sort.Strings(keys)
	return keys
}

func (a *App) appHash() []byte {
	if a.height == 0 && len(a.kv) == 0 {
		return nil
	}
	keys := a.sortedKeys()
	leaves := make([][]byte, len(keys))
	for i, k := range keys {
		leaves[i] = kvLeaf(k, a.kv[k])
	}
	return merkle.HashFromByteSlices(leaves)
}

// Height and AppHash as persisted (for monitors).
func (a *App) Height() int64 {
	a.mu.Lock()
	defer a.mu.Unlock()
	return a.height
}

func (a *App) AppHash() []byte {
	a.mu.Lock()
	defer a.mu.Unlock()
	return a.appHash()
}

// ---- consensus connection

func (a *App) Info(req abci.RequestInfo) abci.ResponseInfo {
	a.mu.Lock()
	defer a.mu.Unlock()
	a.log("query", "Info", "call", a.height, nil, nil, "")
	appVersion := a.opt.AppVersion
	if v, ok := a.kv["~appversion"]; ok {
		if n, err := strconv.ParseUint(v, 10, 64); err == nil {
			appVersion = n
		}
	}
	res := abci.ResponseInfo{Data: "recapp", Version: "1", AppVersion: appVersion, LastBlockHeight: a.height, LastBlockAppHash: a.appHash()}
	a.log("query", "Info", "ret", a.height, nil, res.LastBlockAppHash, "")
	return res
}

func (a *App) InitChain(req abci.RequestInitChain) abci.ResponseInitChain {
	a.mu.Lock()
	defer a.mu.Unlock()
	a.log("consensus", "InitChain", "call", a.height, nil, nil, fmt.Sprintf("initial=%d init_done=%v", req.InitialHeight, a.initDone))
	for _, v := range req.Validators {
		pk, err := cryptoenc.PubKeyFromProto(v.PubKey)
		if err == nil {
			a.vals[hex.EncodeToString(pk.Bytes())] = v.Power
		}
	}
	a.initDone = true
	a.log("consensus", "InitChain", "ret", a.height, nil, nil, "")
	return abci.ResponseInitChain{}
}

func (a *App) BeginBlock(req abci.RequestBeginBlock) abci.ResponseBeginBlock {
	a.mu.Lock()
	defer a.mu.Unlock()
	a.log("consensus", "BeginBlock", "call", req.Header.Height, nil, req.Hash, fmt.Sprintf("byz=%d", len(req.ByzantineValidators)))
	a.curHeight = req.Header.Height
	a.valUpdates = nil
	a.paramUpd = nil
	a.valsAtStart = map[string]int64{}
	for k, v := range a.vals {
		a.valsAtStart[k] = v
	}
	res := abci.ResponseBeginBlock{Events: []abci.Event{{Type: "begin", Attributes: []abci.EventAttribute{{Key: []byte("h"), Value: []byte(strconv.FormatInt(req.Header.Height, 10)), Index: true}}}}}
	a.log("consensus", "BeginBlock", "ret", req.Header.Height, nil, nil, "")
	return res
}

func isBad(tx []byte) bool { return bytes.HasPrefix(tx, []byte("bad")) }

func (a *App) DeliverTx(req abci.RequestDeliverTx) abci.ResponseDeliverTx {
	a.mu.Lock()
	defer a.mu.Unlock()
	tx := req.Tx
	a.log("consensus", "DeliverTx", "call", a.curHeight, tx, nil, "")
	prev := a.kv["~txhash"]
	h := sha256.New()
	h.Write([]byte(prev))
	h.Write(tx)
	a.kv["~txhash"] = hex.EncodeToString(h.Sum(nil))
	res := abci.ResponseDeliverTx{GasWanted: 1, GasUsed: 1}
	s := string(tx)
	switch {
	case isBad(tx):
		res.Code = 1
		res.Log = "bad tx"
	case strings.HasPrefix(s, "val:"):
		parts := strings.Split(s, ":")
		if len(parts) != 3 {
			res.Code = 2
			break
		}
		pkb, err1 := hex.DecodeString(parts[1])
		pw, err2 := strconv.ParseInt(parts[2], 10, 64)
		if err1 != nil || err2 != nil || len(pkb) != ed25519.PubKeySize {
			res.Code = 2
			break
		}
		if pw == 0 {
			delete(a.vals, parts[1])
		} else {
			a.vals[parts[1]] = pw
		}
	case strings.HasPrefix(s, "param:"):
		kvp := strings.SplitN(s[len("param:"):], "=", 2)
		if len(kvp) != 2 {
			res.Code = 2
			break
		}
		n, err := strconv.ParseInt(kvp[1], 10, 64)
		if err != nil {
			res.Code = 2
			break
		}
		if a.paramUpd == nil {
			a.paramUpd = &abci.ConsensusParams{}
		}
		switch kvp[0] {
		case "maxbytes":
			if a.paramUpd.Block == nil {
				a.paramUpd.Block = &abci.BlockParams{MaxBytes: n, MaxGas: -1}
			} else {
				a.paramUpd.Block.MaxBytes = n
			}
		case "maxgas":
			if a.paramUpd.Block == nil {
				a.paramUpd.Block = &abci.BlockParams{MaxBytes: 22020096, MaxGas: n}
			} else {
				a.paramUpd.Block.MaxGas = n
			}
		case "appversion":
			// the application moves to a new protocol version with this block; Info reports it once the block is committed
			a.paramUpd.Version = &tmproto.VersionParams{AppVersion: uint64(n)}
			a.kv["~appversion"] = kvp[1]
		case "evage":
			if a.paramUpd.Evidence == nil {
				a.paramUpd.Evidence = &tmproto.EvidenceParams{MaxAgeNumBlocks: n, MaxAgeDuration: 48 * time.Hour, MaxBytes: 1048576}
			} else {
				a.paramUpd.Evidence.MaxAgeNumBlocks = n
			}
		default:
			res.Code = 2
		}
	default:
		k, v := s, s
		if i := strings.IndexByte(s, '='); i >= 0 {
			k, v = s[:i], s[i+1:]
		}
		a.kv["k/"+k] = v
		res.Data = []byte(v)
		res.Events = []abci.Event{{Type: "app", Attributes: []abci.EventAttribute{
			{Key: []byte("key"), Value: []byte(k), Index: true},
			{Key: []byte("len"), Value: []byte(strconv.Itoa(len(v))), Index: true},
			{Key: []byte("noindex"), Value: []byte(v), Index: false},
		}}}
	}
	a.log("consensus", "DeliverTx", "ret", a.curHeight, tx, nil, fmt.Sprintf("code=%d", res.Code))
	return res
}

func (a *App) EndBlock(req abci.RequestEndBlock) abci.ResponseEndBlock {
	a.mu.Lock()
	defer a.mu.Unlock()
	a.log("consensus", "EndBlock", "call", req.Height, nil, nil, "")
	// validator updates = net change of this block (each validator at most once, no removal of a non-member)
	a.valUpdates = nil
	keys := map[string]bool{}
	for k := range a.vals {
		keys[k] = true
	}
	for k := range a.valsAtStart {
		keys[k] = true
	}
	sorted := make([]string, 0, len(keys))
	for k := range keys {
		sorted = append(sorted, k)
	}
	sort.Strings(sorted)
	for _, k := range sorted {
		if a.vals[k] != a.valsAtStart[k] {
			pkb, _ := hex.DecodeString(k)
			a.valUpdates = append(a.valUpdates, abci.UpdateValidator(pkb, a.vals[k], ""))
		}
	}
	res := abci.ResponseEndBlock{ValidatorUpdates: a.valUpdates, ConsensusParamUpdates: a.paramUpd,
		Events: []abci.Event{{Type: "end", Attributes: []abci.EventAttribute{{Key: []byte("h"), Value: []byte(strconv.FormatInt(req.Height, 10)), Index: true}}}}}
	a.log("consensus", "EndBlock", "ret", req.Height, nil, nil, fmt.Sprintf("valupd=%d", len(a.valUpdates)))
	return res
}

func (a *App) Commit() abci.ResponseCommit {
	a.mu.Lock()
	defer a.mu.Unlock()
	a.log("consensus", "Commit", "call", a.curHeight, nil, nil, "")
	if a.opt.CommitDelay > 0 {
		a.mu.Unlock()
		time.Sleep(a.opt.CommitDelay)
		a.mu.Lock()
	}
	a.height = a.curHeight
	a.kv["~height"] = strconv.FormatInt(a.height, 10)
	hash := a.appHash()
	a.persist()
	a.log("consensus", "Commit", "persisted", a.height, nil, hash, "")
	res := abci.ResponseCommit{Data: hash}
	if a.opt.RetainBlocks > 0 && a.height >= a.opt.RetainBlocks {
		res.RetainHeight = a.height - a.opt.RetainBlocks + 1
	}
	if a.opt.RetainHeight != nil {
		res.RetainHeight = a.opt.RetainHeight(a.height)
	}
	a.log("consensus", "Commit", "ret", a.height, nil, hash, "")
	return res
}

// Clone copies the committed application state (height, key-value store, validators) into a new in-memory
// application with its own options; to be called between blocks.
func (a *App) Clone(opt Options) *App {
	a.mu.Lock()
	defer a.mu.Unlock()
	b := &App{opt: opt, height: a.height, initDone: a.initDone, kv: make(map[string]string, len(a.kv)), vals: make(map[string]int64, len(a.vals))}
	for k, v := range a.kv {
		b.kv[k] = v
	}
	for k, v := range a.vals {
		b.vals[k] = v
	}
	return b
}

func (a *App) persist() {
	if a.opt.Dir == "" {
		return
	}
	b, _ := json.Marshal(persisted{Height: a.height, KV: a.kv, Vals: a.vals, InitDone: a.initDone})
	tmp := a.opt.Dir + "/app.json.tmp"
	f, err := os.OpenFile(tmp, os.O_CREATE|os.O_WRONLY|os.O_TRUNC, 0o644)
	if err != nil {
		panic(err)
	}
	if _, err := f.Write(b); err != nil {
		panic(err)
	}
	_ = f.Sync()
	_ = f.Close()
	if err := os.Rename(tmp, a.opt.Dir+"/app.json"); err != nil {
		panic(err)
	}
}

// ---- mempool connection

func (a *App) CheckTx(req abci.RequestCheckTx) abci.ResponseCheckTx {
	a.mu.Lock()
	h := a.height
	a.log("mempool", "CheckTx", "call", h, req.Tx, nil, req.Type.String())
	a.mu.Unlock()
	if a.opt.CheckDelay > 0 {
		time.Sleep(a.opt.CheckDelay)
	}
	var res abci.ResponseCheckTx
	if a.opt.CheckTxFn != nil {
		res = a.opt.CheckTxFn(req.Tx, h)
	} else {
		res = abci.ResponseCheckTx{GasWanted: 1}
		if isBad(req.Tx) {
			res.Code = 1
		}
	}
	a.mu.Lock()
	a.log("mempool", "CheckTx", "ret", h, req.Tx, nil, req.Type.String())
	a.mu.Unlock()
	return res
}

// ---- query connection

// Query returns the value of key req.Data ("k/<key>" namespace is added for
// path "/key"; path "/raw" uses the key as is) with a ValueOp proof against the
// app hash of the last committed height.
func (a *App) Query(req abci.RequestQuery) abci.ResponseQuery {
	a.mu.Lock()
	defer a.mu.Unlock()
	key := string(req.Data)
	if req.Path != "/raw" {
		key = "k/" + key
	}
	res := abci.ResponseQuery{Key: []byte(key), Height: a.height}
	v, ok := a.kv[key]
	if !ok {
		res.Log = "does not exist"
		return res
	}
	res.Value = []byte(v)
	if req.Prove {
		keys := a.sortedKeys()
		leaves := make([][]byte, len(keys))
		idx := -1
		for i, k := range keys {
			leaves[i] = kvLeaf(k, a.kv[k])
			if k == key {
				idx = i
			}
		}
		_, proofs := merkle.ProofsFromByteSlices(leaves)
		op := merkle.NewValueOp([]byte(key), proofs[idx]).ProofOp()
		res.ProofOps = &tmcrypto.ProofOps{Ops: []tmcrypto.ProofOp{op}}
	}
	return res
}
