package main

import (
	"verif/checks/c01"
	"verif/driver"
)

func main() { driver.Main(map[string]driver.CheckFn{"C01": c01.Run}) }
