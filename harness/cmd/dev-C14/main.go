// dev main: links only this check, so that a half-written sibling package cannot break the build.
package main

import (
	"verif/checks/c14"
	"verif/driver"
)

func main() { driver.Main(map[string]driver.CheckFn{"C14": c14.Run}) }
