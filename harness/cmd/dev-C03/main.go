package main

import (
	"verif/checks/c03"
	"verif/driver"
)

func main() { driver.Main(map[string]driver.CheckFn{"C03": c03.Run}) }
