// dev main: links only this check, so that a half-written sibling package cannot break the build.
package main

import (
	"verif/checks/c12"
	"verif/driver"
)

func main() { driver.Main(map[string]driver.CheckFn{"C12": c12.Run}) }
