package main

import "verif/checks/c12"

func init() { registry["C12"] = c12.Run }
