package main

import "verif/checks/c06"

func init() { registry["C06"] = c06.Run }
