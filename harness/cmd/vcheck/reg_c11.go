package main

import "verif/checks/c11"

func init() { registry["C11"] = c11.Run }
