package main

import "verif/checks/c07"

func init() { registry["C07"] = c07.Run }
