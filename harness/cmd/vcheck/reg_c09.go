package main

import "verif/checks/c09"

func init() { registry["C09"] = c09.Run }
