package main

import "verif/checks/c15"

func init() { registry["C15"] = c15.Run }
