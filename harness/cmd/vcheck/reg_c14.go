package main

import "verif/checks/c14"

func init() { registry["C14"] = c14.Run }
