package main

import "verif/checks/c18"

func init() { registry["C18"] = c18.Run }
