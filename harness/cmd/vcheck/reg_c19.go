package main

import "verif/checks/c19"

func init() { registry["C19"] = c19.Run }
