// vcheck is the check driver: vcheck [--tier quick|thorough] [--replay file] <ID>
package main

import "verif/driver"

var registry = map[string]driver.CheckFn{}

func main() { driver.Main(registry) }
