package main

import "verif/checks/c08"

func init() { registry["C08"] = c08.Run }
