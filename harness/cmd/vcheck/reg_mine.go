package main

import (
	"verif/checks/c01"
	"verif/checks/c02"
	"verif/checks/c03"
	"verif/checks/c04"
	"verif/checks/c05"
)

func init() {
	registry["C01"] = c01.Run
	registry["C02"] = c02.Run
	registry["C03"] = c03.Run
	registry["C04"] = c04.Run
	registry["C05"] = c05.Run
}
