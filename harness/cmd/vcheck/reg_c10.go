package main

import "verif/checks/c10"

func init() { registry["C10"] = c10.Run }
