package main

import "verif/checks/c20"

func init() { registry["C20"] = c20.Run }
