package main

import "verif/checks/c13"

func init() { registry["C13"] = c13.Run }
