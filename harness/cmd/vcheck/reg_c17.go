package main

import "verif/checks/c17"

func init() { registry["C17"] = c17.Run }
