package main

import "verif/checks/c16"

func init() { registry["C16"] = c16.Run }
