package main

import "github.com/tendermint/tendermint/mempool"

func mempoolTxInfo() mempool.TxInfo { return mempool.TxInfo{} }
