// crashbox runs a real tendermint node (node.NewNode: handshake, WAL,
// consensus, mempool, evidence pool, executor) in this process with injected
// boundaries (DB, PrivValidator, ABCI app) that journal every operation and can
// kill the process at a planned point (exit 87 = os.Exit without deferred work).
//
//	crashbox -home DIR -mode run|handshake|init -target H [-plan kind:...]
//
// Plans (one per incarnation):
//
//	db:<store>:<n>:before|after    n-th mutating DB call of that store in this incarnation
//	pv:<n>:entry|exit              n-th signing request / after it was journaled
//	app:<n>                        n-th journal event (call / ret / persisted) on the consensus or query connection
//	fail:<k>                       FAIL_TEST_INDEX=k (set by the parent in the environment)
//	point:<name>:<n>               VERIF_POINTS=name=crash@n (set by the parent)
package main

import (
	"encoding/hex"
	"encoding/json"
	"flag"
	"fmt"
	"os"
	"path/filepath"
	"strconv"
	"strings"
	"sync"
	"sync/atomic"
	"time"

	dbm "github.com/tendermint/tm-db"

	cfg "github.com/tendermint/tendermint/config"
	"github.com/tendermint/tendermint/crypto"
	"github.com/tendermint/tendermint/crypto/ed25519"
	"github.com/tendermint/tendermint/libs/log"
	"github.com/tendermint/tendermint/libs/verifhook"
	nm "github.com/tendermint/tendermint/node"
	"github.com/tendermint/tendermint/p2p"
	"github.com/tendermint/tendermint/privval"
	tmproto "github.com/tendermint/tendermint/proto/tendermint/types"
	"github.com/tendermint/tendermint/proxy"
	"github.com/tendermint/tendermint/types"

	"verif/recapp"
)

const crashCode = 87

var (
	planKind, planA, planB, planC string
	incarnation                   int
)

func crash(why string) {
	fmt.Fprintf(os.Stdout, "CRASHBOX-CRASH %s\n", why)
	os.Exit(crashCode)
}

// ---- journaling DB

type jdb struct {
	dbm.DB
	name string
	n    *int64
	jf   *os.File
	mu   *sync.Mutex
}

func (d *jdb) op(kind string, key []byte) {
	i := atomic.AddInt64(d.n, 1)
	if planKind == "db" && planA == d.name && planB == strconv.FormatInt(i, 10) && planC == "before" {
		crash(fmt.Sprintf("db:%s:%d:before %s", d.name, i, kind))
	}
	d.mu.Lock()
	fmt.Fprintf(d.jf, "%d %s %d %s %s\n", incarnation, d.name, i, kind, hex.EncodeToString(trunc(key)))
	d.mu.Unlock()
}

func (d *jdb) after() {
	i := atomic.LoadInt64(d.n)
	if planKind == "db" && planA == d.name && planB == strconv.FormatInt(i, 10) && planC == "after" {
		crash(fmt.Sprintf("db:%s:%d:after", d.name, i))
	}
}

func trunc(b []byte) []byte {
	if len(b) > 24 {
		return b[:24]
	}
	return b
}

func (d *jdb) Set(k, v []byte) error { d.op("Set", k); err := d.DB.Set(k, v); d.after(); return err }
func (d *jdb) SetSync(k, v []byte) error {
	d.op("SetSync", k)
	err := d.DB.SetSync(k, v)
	d.after()
	return err
}
func (d *jdb) Delete(k []byte) error { d.op("Delete", k); err := d.DB.Delete(k); d.after(); return err }
func (d *jdb) DeleteSync(k []byte) error {
	d.op("DeleteSync", k)
	err := d.DB.DeleteSync(k)
	d.after()
	return err
}
func (d *jdb) NewBatch() dbm.Batch { return &jbatch{Batch: d.DB.NewBatch(), d: d} }

type jbatch struct {
	dbm.Batch
	d   *jdb
	ops int
}

func (b *jbatch) Set(k, v []byte) error { b.ops++; return b.Batch.Set(k, v) }
func (b *jbatch) Delete(k []byte) error { b.ops++; return b.Batch.Delete(k) }
func (b *jbatch) Write() error {
	b.d.op(fmt.Sprintf("Batch.Write(%d)", b.ops), nil)
	err := b.Batch.Write()
	b.d.after()
	return err
}
func (b *jbatch) WriteSync() error {
	b.d.op(fmt.Sprintf("Batch.WriteSync(%d)", b.ops), nil)
	err := b.Batch.WriteSync()
	b.d.after()
	return err
}

// ---- journaling signer

type jpv struct {
	inner *privval.FilePV
	jf    *os.File
	n     int64
	mu    sync.Mutex
}

type pvEntry struct {
	Inc       int    `json:"inc"`
	N         int64  `json:"n"`
	Kind      string `json:"kind"`
	Height    int64  `json:"h"`
	Round     int32  `json:"r"`
	BlockHash string `json:"block"`
	PartsHash string `json:"parts"`
	PartsTot  uint32 `json:"parts_total"`
	POLRound  int32  `json:"pol"`
	TsNanos   int64  `json:"ts"`
	SignBytes string `json:"sign_bytes"`
	Signature string `json:"sig"`
}

func (p *jpv) GetPubKey() (crypto.PubKey, error) { return p.inner.GetPubKey() }

func (p *jpv) enter() int64 {
	n := atomic.AddInt64(&p.n, 1)
	if planKind == "pv" && planA == strconv.FormatInt(n, 10) && planB == "entry" {
		crash(fmt.Sprintf("pv:%d:entry", n))
	}
	return n
}

func (p *jpv) record(e pvEntry) {
	e.Inc = incarnation
	b, _ := json.Marshal(e)
	p.mu.Lock()
	_, _ = p.jf.Write(append(b, '\n'))
	_ = p.jf.Sync()
	p.mu.Unlock()
	if planKind == "pv" && planA == strconv.FormatInt(e.N, 10) && planB == "exit" {
		crash(fmt.Sprintf("pv:%d:exit", e.N))
	}
}

func (p *jpv) SignVote(chainID string, vote *tmproto.Vote) error {
	n := p.enter()
	if err := p.inner.SignVote(chainID, vote); err != nil {
		return err
	}
	kind := "prevote"
	if vote.Type == tmproto.PrecommitType {
		kind = "precommit"
	}
	p.record(pvEntry{N: n, Kind: kind, Height: vote.Height, Round: vote.Round,
		BlockHash: hex.EncodeToString(vote.BlockID.Hash), PartsHash: hex.EncodeToString(vote.BlockID.PartSetHeader.Hash), PartsTot: vote.BlockID.PartSetHeader.Total,
		TsNanos: vote.Timestamp.UnixNano(), SignBytes: hex.EncodeToString(types.VoteSignBytes(chainID, vote)), Signature: hex.EncodeToString(vote.Signature)})
	return nil
}

func (p *jpv) SignProposal(chainID string, pr *tmproto.Proposal) error {
	n := p.enter()
	if err := p.inner.SignProposal(chainID, pr); err != nil {
		return err
	}
	p.record(pvEntry{N: n, Kind: "proposal", Height: pr.Height, Round: pr.Round, POLRound: pr.PolRound,
		BlockHash: hex.EncodeToString(pr.BlockID.Hash), PartsHash: hex.EncodeToString(pr.BlockID.PartSetHeader.Hash), PartsTot: pr.BlockID.PartSetHeader.Total,
		TsNanos: pr.Timestamp.UnixNano(), SignBytes: hex.EncodeToString(types.ProposalSignBytes(chainID, pr)), Signature: hex.EncodeToString(pr.Signature)})
	return nil
}

// ---- main

func must(err error) {
	if err != nil {
		fmt.Fprintln(os.Stderr, "crashbox:", err)
		os.Exit(3)
	}
}

func main() {
	home := flag.String("home", "", "node home")
	mode := flag.String("mode", "run", "init|run|handshake")
	target := flag.Int64("target", 3, "exit 0 when the block store reaches this height")
	plan := flag.String("plan", "", "crash plan")
	inc := flag.Int("inc", 0, "incarnation number")
	txEvery := flag.Int("tx-every-ms", 3, "submit a tx every N ms")
	retain := flag.Int64("retain", 0, "app asks to retain only this many blocks")
	special := flag.String("special", "", "comma separated h:tx pairs submitted once the chain is at height >= h")
	mempoolVersion := flag.String("mempool", "v0", "v0|v1")
	absentVal := flag.Bool("absentval", false, "init: add a second genesis validator (power 1) that never shows up")
	stateSyncOn := flag.Bool("statesync", false, "statesync.enable = true in the configuration (must be ignored by a node that has state)")
	flag.Parse()
	incarnation = *inc
	if *plan != "" {
		parts := strings.Split(*plan, ":")
		planKind = parts[0]
		if len(parts) > 1 {
			planA = parts[1]
		}
		if len(parts) > 2 {
			planB = parts[2]
		}
		if len(parts) > 3 {
			planC = parts[3]
		}
	}
	c := cfg.DefaultConfig()
	c.SetRoot(*home)
	c.P2P.ListenAddress = "tcp://127.0.0.1:0"
	c.P2P.AddrBookStrict = false
	c.P2P.PexReactor = false
	c.RPC.ListenAddress = ""
	c.Mempool.Version = *mempoolVersion
	c.Consensus.TimeoutPropose = 300 * time.Millisecond
	c.Consensus.TimeoutProposeDelta = 10 * time.Millisecond
	c.Consensus.TimeoutPrevote = 20 * time.Millisecond
	c.Consensus.TimeoutPrevoteDelta = 5 * time.Millisecond
	c.Consensus.TimeoutPrecommit = 20 * time.Millisecond
	c.Consensus.TimeoutPrecommitDelta = 5 * time.Millisecond
	c.Consensus.TimeoutCommit = 15 * time.Millisecond
	c.Consensus.SkipTimeoutCommit = false
	c.Consensus.CreateEmptyBlocks = true
	c.Consensus.DoubleSignCheckHeight = 0
	c.FastSyncMode = false // no peers: with a second (absent) validator in the set the node would wait for block sync forever
	if *stateSyncOn {
		c.StateSync.Enable = true
		c.StateSync.RPCServers = []string{"127.0.0.1:1", "127.0.0.1:2"}
		c.StateSync.TrustHeight = 1
		c.StateSync.TrustHash = strings.Repeat("AB", 32)
	}
	c.TxIndex.Indexer = "kv"
	c.Instrumentation.Prometheus = false
	keyFile, stateFile := c.PrivValidatorKeyFile(), c.PrivValidatorStateFile()

	if *mode == "init" {
		must(os.MkdirAll(filepath.Join(*home, "config"), 0o755))
		must(os.MkdirAll(filepath.Join(*home, "data"), 0o755))
		must(os.MkdirAll(filepath.Join(*home, "app"), 0o755))
		key := ed25519.GenPrivKeyFromSecret([]byte("crashbox-validator"))
		pv := privval.NewFilePV(key, keyFile, stateFile)
		pv.Save()
		nk := &p2p.NodeKey{PrivKey: ed25519.GenPrivKeyFromSecret([]byte("crashbox-node"))}
		must(nk.SaveAs(c.NodeKeyFile()))
		gen := &types.GenesisDoc{ChainID: "crashbox-chain", GenesisTime: time.Now().Add(-time.Minute).UTC(), ConsensusParams: types.DefaultConsensusParams(),
			Validators: []types.GenesisValidator{{Address: key.PubKey().Address(), PubKey: key.PubKey(), Power: 10, Name: "v0"}}}
		if *absentVal {
			k2 := ed25519.GenPrivKeyFromSecret([]byte("crashbox-absent-validator"))
			gen.Validators = append(gen.Validators, types.GenesisValidator{Address: k2.PubKey().Address(), PubKey: k2.PubKey(), Power: 1, Name: "absent"})
		}
		must(gen.ValidateAndComplete())
		must(gen.SaveAs(c.GenesisFile()))
		return
	}

	// injected boundaries
	dbj, err := os.OpenFile(filepath.Join(*home, "dbjournal"), os.O_CREATE|os.O_WRONLY|os.O_APPEND, 0o644)
	must(err)
	var dbmu sync.Mutex
	dbProvider := func(ctx *nm.DBContext) (dbm.DB, error) {
		db, err := dbm.NewDB(ctx.ID, dbm.GoLevelDBBackend, ctx.Config.DBDir())
		if err != nil {
			return nil, err
		}
		return &jdb{DB: db, name: ctx.ID, n: new(int64), jf: dbj, mu: &dbmu}, nil
	}
	pvj, err := os.OpenFile(filepath.Join(*home, "pvjournal"), os.O_CREATE|os.O_WRONLY|os.O_APPEND, 0o644)
	must(err)
	pv := &jpv{inner: privval.LoadOrGenFilePV(keyFile, stateFile), jf: pvj} // the call cmd/tendermint makes at start-up
	app := recapp.New(recapp.Options{Dir: filepath.Join(*home, "app"), Journal: filepath.Join(*home, "appjournal"), Incarnation: incarnation,
		RetainBlocks: *retain,
		Hook: func(ev recapp.Event) {
			if planKind == "app" && ev.CSeq > 0 && planA == strconv.FormatInt(ev.CSeq, 10) {
				crash(fmt.Sprintf("app:%d %s/%s/%s h=%d", ev.CSeq, ev.Conn, ev.Method, ev.Phase, ev.Height))
			}
		}})
	nodeKey, err := p2p.LoadNodeKey(c.NodeKeyFile())
	must(err)
	logger := log.NewNopLogger()
	if os.Getenv("CRASHBOX_LOG") != "" {
		logger = log.NewTMLogger(log.NewSyncWriter(os.Stderr))
	}
	// make sure the hook package parses its plan now
	verifhook.Point("crashbox.start")

	node, err := nm.NewNode(c, pv, nodeKey, proxy.NewLocalClientCreator(app), nm.DefaultGenesisDocProviderFunc(c), dbProvider, nm.DefaultMetricsProvider(c.Instrumentation), logger)
	must(err)
	if *mode == "handshake" {
		st, err := node.ConsensusState().GetState(), error(nil)
		_ = err
		out := map[string]interface{}{"state_height": st.LastBlockHeight, "state_app_hash": hex.EncodeToString(st.AppHash),
			"store_height": node.BlockStore().Height(), "store_base": node.BlockStore().Base(),
			"app_height": app.Height(), "app_hash": hex.EncodeToString(app.AppHash())}
		b, _ := json.Marshal(out)
		fmt.Println("CRASHBOX-HANDSHAKE " + string(b))
		os.Exit(0)
	}
	must(node.Start())
	// tx feeder
	type sp struct {
		h  int64
		tx string
	}
	var specials []sp
	for _, s := range strings.Split(*special, ",") {
		if i := strings.IndexByte(s, ':'); i > 0 {
			h, _ := strconv.ParseInt(s[:i], 10, 64)
			specials = append(specials, sp{h, s[i+1:]})
		}
	}
	go func() {
		i := 0
		for {
			time.Sleep(time.Duration(*txEvery) * time.Millisecond)
			h := node.BlockStore().Height()
			for k := range specials {
				if specials[k].tx != "" && h >= specials[k].h {
					_ = node.Mempool().CheckTx(types.Tx(specials[k].tx), nil, mempoolTxInfo())
					specials[k].tx = ""
				}
			}
			i++
			_ = node.Mempool().CheckTx(types.Tx(fmt.Sprintf("i%d-n%d=v%d", incarnation, i, i)), nil, mempoolTxInfo())
		}
	}()
	deadline := time.Now().Add(60 * time.Second)
	for time.Now().Before(deadline) {
		if node.BlockStore().Height() >= *target {
			fmt.Printf("CRASHBOX-TARGET %d\n", node.BlockStore().Height())
			os.Exit(0) // abrupt on purpose: a stop at an arbitrary point
		}
		time.Sleep(2 * time.Millisecond)
	}
	fmt.Println("CRASHBOX-TIMEOUT")
	os.Exit(4)
}
