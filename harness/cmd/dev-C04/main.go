package main

import (
	"verif/checks/c04"
	"verif/driver"
)

func main() { driver.Main(map[string]driver.CheckFn{"C04": c04.Run}) }
