package main

import (
	"verif/checks/c02"
	"verif/driver"
)

func main() { driver.Main(map[string]driver.CheckFn{"C02": c02.Run}) }
