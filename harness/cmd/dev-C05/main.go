package main

import (
	"verif/checks/c05"
	"verif/driver"
)

func main() { driver.Main(map[string]driver.CheckFn{"C05": c05.Run}) }
