package c08

import (
	"bytes"
	"fmt"
	"math/rand"
	"sync"
	"time"

	dbm "github.com/tendermint/tm-db"

	abci "github.com/tendermint/tendermint/abci/types"
	"github.com/tendermint/tendermint/libs/log"
	mmock "github.com/tendermint/tendermint/mempool/mock"
	tmproto "github.com/tendermint/tendermint/proto/tendermint/types"
	"github.com/tendermint/tendermint/proxy"
	sm "github.com/tendermint/tendermint/state"
	"github.com/tendermint/tendermint/types"

	"verif/ref"
	"verif/verdict"
)

// Oracle (iii): a chain is driven through the real BlockExecutor.ApplyBlock
// (updateState + state store) with an ABCI application that returns scripted
// validator updates.  The harness records state.Validators / NextValidators of
// the live run; LoadValidators(h) must return exactly the recorded set for every
// retained height, before and after PruneStates.

const chainID = "c08-chain"
const checkpointInterval = 100000 // valSetCheckpointInterval in state/store.go

var genesisTime = time.Date(2020, 1, 1, 0, 0, 0, 0, time.UTC)

// scriptApp returns the validator updates scripted for the block being executed
// and remembers what BeginBlock said about the previous commit.
type scriptApp struct {
	abci.BaseApplication
	mu        sync.Mutex
	next      []abci.ValidatorUpdate
	lastVotes []abci.VoteInfo
	initVals  []abci.ValidatorUpdate // what InitChain answers (initchain.go)
	initReqs  []abci.RequestInitChain
}

func (a *scriptApp) InitChain(req abci.RequestInitChain) abci.ResponseInitChain {
	a.mu.Lock()
	defer a.mu.Unlock()
	a.initReqs = append(a.initReqs, req)
	return abci.ResponseInitChain{Validators: a.initVals}
}

func (a *scriptApp) BeginBlock(req abci.RequestBeginBlock) abci.ResponseBeginBlock {
	a.mu.Lock()
	a.lastVotes = req.LastCommitInfo.Votes
	a.mu.Unlock()
	return abci.ResponseBeginBlock{}
}

func (a *scriptApp) EndBlock(abci.RequestEndBlock) abci.ResponseEndBlock {
	a.mu.Lock()
	defer a.mu.Unlock()
	return abci.ResponseEndBlock{ValidatorUpdates: a.next}
}

type histEvent struct {
	Height   int64     `json:"height"`
	Batch    []jchange `json:"batch,omitempty"`
	Rejected string    `json:"must_fail_because,omitempty"`
	Prune    []int64   `json:"prune_from_to,omitempty"`
}

type history struct {
	c      *verdict.Ctx
	idx    int
	r      *rand.Rand
	pool   []ident
	pm     map[string]ident
	app    *scriptApp
	store  sm.Store
	exec   *sm.BlockExecutor
	state  sm.State
	init   int64
	gen    []ref.RChange
	events []histEvent
	truth  map[int64]ssnap
	base   int64          // lowest retained height
	stored []int64        // heights at which a full set was written because the set changed (ascending)
	boot   map[int64]bool // statesync family: the heights whose sets were written by Bootstrap
	family string         // "" = history stage; "initchain" = chains whose first set comes from InitChain (other keys, other stream)
	extra  map[string]interface{}
	stats  struct {
		heights, changes, rejected, prunes, lookups, reconstructed, maxK, crossings, s15, s15prop, rounds, bootProp int64
	}
}

func (h *history) witness(extra map[string]interface{}) map[string]interface{} {
	stream := "history"
	if h.family != "" {
		stream = h.family
	}
	w := map[string]interface{}{"stream": stream, "case": h.idx, "initial_height": h.init, "genesis_validators": jbatch(h.gen),
		"events": h.events, "tip": h.state.LastBlockHeight}
	for k, v := range h.extra {
		w[k] = v
	}
	for k, v := range extra {
		w[k] = v
	}
	return w
}

// key maps a finding key of the history stage to the one of the family the chain
// belongs to.  The S15 class keeps its key everywhere: it is one defect.
func (h *history) key(k string) string {
	if h.family == "" || k == "loadvalidators-replays-rounds-in-one-call" {
		return k
	}
	prefix := "initchain-loadvalidators"
	if h.family == "statesync" {
		prefix = "statesync-bootstrap-loadvalidators"
	}
	if k == "loadvalidators-fails-for-retained-height" || k == "loadvalidators-panics" {
		return prefix + "-fails"
	}
	return prefix + "-differs-from-in-force"
}

// onlyProposerDiffers: same members, powers and priorities, another proposer.
func onlyProposerDiffers(got, want ssnap) bool {
	if diffMembers(got, want) != "" || bytes.Equal(got.Proposer, want.Proposer) {
		return false
	}
	for i := range got.Vals {
		if got.Vals[i].Prio != want.Vals[i].Prio {
			return false
		}
	}
	return true
}

// proposerIsLowestPriority: the set's proposer is a member holding the lowest priority
// (what types.ValidatorSetFromExistingValidators picks).  Used only to classify.
func proposerIsLowestPriority(s ssnap) bool {
	if len(s.Vals) == 0 {
		return false
	}
	min := s.Vals[0].Prio
	for _, v := range s.Vals {
		if v.Prio < min {
			min = v.Prio
		}
	}
	for _, v := range s.Vals {
		if bytes.Equal(v.Addr, s.Proposer) {
			return v.Prio == min
		}
	}
	return false
}

const keyBootProposer = "statesync-bootstrap-proposer-is-lowest-priority-member"

// rotKey is the key for "the set / the proposer of a round is not what the
// reference rotation prescribes" in the family the chain belongs to.
func (h *history) rotKey() string {
	switch h.family {
	case "initchain":
		return "initchain-valset-rotation-differs"
	case "statesync":
		return "statesync-bootstrap-state-differs-from-reference"
	}
	return "rotation-priorities-differ"
}

func toABCI(pm map[string]ident, b []ref.RChange) []abci.ValidatorUpdate {
	out := make([]abci.ValidatorUpdate, len(b))
	for i, ch := range b {
		out[i] = types.TM2PB.NewValidatorUpdate(pm[string(ch.Address)].pub, ch.Power)
	}
	return out
}

// signCommit signs block `height` with the members of vals (the set in force at
// that height).  Members beyond the first > 2/3 of the power are sometimes absent.
func (h *history) signCommit(height int64, blockID types.BlockID, vals *types.ValidatorSet) *types.Commit {
	ts := genesisTime.Add(time.Duration(height-h.init+1) * time.Second)
	sigs := make([]types.CommitSig, len(vals.Validators))
	total := vals.TotalVotingPower()
	var tallied int64
	skipRest := h.r.Intn(2) == 0
	for i, v := range vals.Validators {
		if skipRest && tallied > total/3*2+2 {
			sigs[i] = types.NewCommitSigAbsent()
			continue
		}
		vote := &types.Vote{Type: tmproto.PrecommitType, Height: height, Round: 0, BlockID: blockID, Timestamp: ts,
			ValidatorAddress: v.Address, ValidatorIndex: int32(i)}
		id, ok := h.pm[string(v.Address)]
		if !ok {
			panic("no key for a member of the set")
		}
		sig, err := id.priv.Sign(types.VoteSignBytes(chainID, vote.ToProto()))
		if err != nil {
			panic(err)
		}
		sigs[i] = types.NewCommitSigForBlock(sig, v.Address, ts)
		tallied += v.VotingPower
	}
	return types.NewCommit(height, 0, blockID, sigs)
}

// lookup compares LoadValidators(q) with the recorded truth.  Returns false after a violation.
func (h *history) lookup(q int64, phase string) bool {
	want, ok := h.truth[q]
	if !ok {
		return true
	}
	var got *types.ValidatorSet
	err, pan := safely(func() error {
		var e error
		got, e = h.store.LoadValidators(q)
		return e
	})
	h.stats.lookups++
	// how many rounds the store has to replay for this height (for the counters only)
	ls := h.init
	for i := len(h.stored) - 1; i >= 0; i-- {
		if h.stored[i] <= q {
			ls = h.stored[i]
			break
		}
	}
	if cp := q - q%checkpointInterval; cp > ls {
		ls = cp
	}
	if k := q - ls; k >= 2 {
		h.stats.reconstructed++
		if k > h.stats.maxK {
			h.stats.maxK = k
		}
	}
	if pan != nil {
		h.c.Violation(h.key("loadvalidators-panics"), fmt.Sprintf("LoadValidators(%d) panicked (%s): %v", q, phase, pan), h.witness(map[string]interface{}{"query_height": q, "phase": phase}))
		return false
	}
	if err != nil {
		h.c.Violation(h.key("loadvalidators-fails-for-retained-height"), fmt.Sprintf("LoadValidators(%d) failed (%s, retained from %d): %v", q, phase, h.base, err),
			h.witness(map[string]interface{}{"query_height": q, "phase": phase, "base": h.base, "expected": jsnap(want)}))
		return false
	}
	g := snap(got)
	if d := diffMembers(g, want); d != "" {
		h.c.Violation(h.key("loadvalidators-wrong-members"), fmt.Sprintf("LoadValidators(%d) (%s) is not the set that was in force: %s", q, phase, d),
			h.witness(map[string]interface{}{"query_height": q, "phase": phase, "base": h.base, "expected": jsnap(want), "got": jsnap(g)}))
		return false
	}
	if h.family == "statesync" && h.boot[q] && onlyProposerDiffers(g, want) && proposerIsLowestPriority(g) {
		h.stats.bootProp++
		h.c.Violation(keyBootProposer, fmt.Sprintf("LoadValidators(%d) (%s) of a state-synced node: members, powers and priorities are those in force, the proposer is %X instead of %X", q, phase, g.Proposer, want.Proposer),
			h.witness(map[string]interface{}{"query_height": q, "phase": phase, "expected": jsnap(want), "got": jsnap(g)}))
		return true // a known class: go on looking
	}
	if d := diffPriorities(g, want); d != "" {
		key := "loadvalidators-priorities-or-proposer-differ"
		// is the answer what one gets from the last stored set by normalising once and electing q-ls times (finding S15)?
		if from, ok := h.truth[ls]; ok && q > ls {
			if kd, _ := diffRef(g, oneCallModel(from, q-ls)); kd == "" {
				key = "loadvalidators-replays-rounds-in-one-call"
			}
		}
		h.stats.s15++
		if !bytes.Equal(g.Proposer, want.Proposer) {
			h.stats.s15prop++
		}
		h.c.Violation(h.key(key),
			fmt.Sprintf("LoadValidators(%d) (%s) has the right members but not the priorities / proposer that were in force (last stored set: height %d): %s", q, phase, ls, d),
			h.witness(map[string]interface{}{"query_height": q, "phase": phase, "base": h.base, "last_stored_height": ls, "stored_set": jsnap(h.truth[ls]),
				"expected": jsnap(want), "got": jsnap(g), "proposer_differs": !bytes.Equal(g.Proposer, want.Proposer)}))
		return key == "loadvalidators-replays-rounds-in-one-call" // a known class: go on looking
	}
	if err := got.ValidateBasic(); err != nil {
		h.c.Violation(h.key("loadvalidators-invalid-set"), fmt.Sprintf("LoadValidators(%d) returned a set that fails ValidateBasic: %v", q, err), h.witness(map[string]interface{}{"query_height": q}))
		return false
	}
	return true
}

// sweep looks up every retained height (or a sample of them).
func (h *history) sweep(phase string, sample int) bool {
	lo, hi := h.base, h.state.LastBlockHeight+2
	if h.state.LastBlockHeight == 0 {
		hi = h.init + 1
	}
	if sample <= 0 || hi-lo+1 <= int64(sample) {
		for q := lo; q <= hi; q++ {
			if !h.lookup(q, phase) {
				return false
			}
		}
		return true
	}
	qs := []int64{lo, lo + 1, hi, hi - 1, hi - 2}
	if cp := hi - hi%checkpointInterval; cp >= lo {
		qs = append(qs, cp, cp+1, cp-1)
	}
	for len(qs) < sample {
		qs = append(qs, lo+h.r.Int63n(hi-lo+1))
	}
	for _, q := range qs {
		if q < lo || q > hi {
			continue
		}
		if !h.lookup(q, phase) {
			return false
		}
	}
	return true
}

func (h *history) prune(to int64) bool {
	from := h.base
	h.events = append(h.events, histEvent{Height: h.state.LastBlockHeight, Prune: []int64{from, to}})
	err, pan := safely(func() error { return h.store.PruneStates(from, to) })
	if pan != nil || err != nil {
		h.c.Violation("prunestates-fails", fmt.Sprintf("PruneStates(%d, %d) with tip %d failed: %v %v", from, to, h.state.LastBlockHeight, err, pan), h.witness(nil))
		return false
	}
	h.base = to
	h.stats.prunes++
	return true
}

func histCase(c *verdict.Ctx, idx int) {
	r := c.Rand("history", idx)
	c.Eval()
	h := &history{c: c, idx: idx, r: r, truth: map[int64]ssnap{}}
	h.pool = keyPool(r, 5+r.Intn(8))
	h.pm = poolMap(h.pool)
	maxN := 4
	if r.Intn(5) == 0 {
		maxN = 9
	}
	h.gen = genInitial(r, h.pool, maxN)

	// length and initial height
	var L int
	switch x := r.Intn(10); {
	case x < 4:
		L = 40 + r.Intn(160)
	case x < 8:
		L = 200 + r.Intn(400)
	default:
		L = 600 + r.Intn(c.N(1400, 900))
	}
	switch x := r.Intn(8); {
	case x < 2:
		h.init = 1
	case x < 3:
		h.init = 2 + r.Int63n(5000)
	default: // the chain crosses a multiple of the checkpoint interval
		h.init = checkpointInterval*int64(1+r.Intn(3)) - int64(r.Intn(L))
		if r.Intn(6) == 0 {
			h.init = checkpointInterval*int64(1+r.Intn(3)) - int64(r.Intn(3)) // starts on / right below it
		}
	}

	gvals := make([]types.GenesisValidator, len(h.gen))
	for i, ch := range h.gen {
		gvals[i] = types.GenesisValidator{PubKey: h.pm[string(ch.Address)].pub, Power: ch.Power, Name: fmt.Sprint(i)}
	}
	st, err := sm.MakeGenesisState(&types.GenesisDoc{ChainID: chainID, GenesisTime: genesisTime, InitialHeight: h.init, Validators: gvals,
		ConsensusParams: types.DefaultConsensusParams()})
	if err != nil {
		c.HarnessError("C08: MakeGenesisState: %v", err)
		return
	}
	h.state = st
	h.base = h.init
	h.store = sm.NewStore(dbm.NewMemDB(), sm.StoreOptions{DiscardABCIResponses: r.Intn(2) == 0})
	if err := h.store.Save(st); err != nil {
		c.HarnessError("C08: Save(genesis): %v", err)
		return
	}
	h.app = &scriptApp{}
	conns := proxy.NewAppConns(proxy.NewLocalClientCreator(h.app))
	conns.SetLogger(log.NewNopLogger())
	if err := conns.Start(); err != nil {
		c.HarnessError("C08: app conns: %v", err)
		return
	}
	defer conns.Stop() //nolint:errcheck
	h.exec = sm.NewBlockExecutor(h.store, log.NewNopLogger(), conns.Consensus(), mmock.Mempool{}, sm.EmptyEvidencePool{})

	// the reference follows the chain on its own, starting from the genesis members
	refVals, rerr := (&ref.RSet{Proposer: -1}).ApplyUpdates(h.gen)
	if rerr != nil {
		c.HarnessError("C08: reference rejects genesis members: %v", rerr)
		return
	}
	refVals = refVals.IncrementOnce()
	refNext := refVals.IncrementOnce()
	if k, d := diffRef(snap(st.Validators), refVals); k != "" {
		c.Violation("genesis-"+k+"-differ", "Validators of the genesis state differ from the reference: "+d, h.witness(nil))
		return
	}
	if k, d := diffRef(snap(st.NextValidators), refNext); k != "" {
		c.Violation("genesis-"+k+"-differ", "NextValidators of the genesis state differ from the reference: "+d, h.witness(nil))
		return
	}
	h.truth[h.init] = snap(st.Validators)
	h.truth[h.init+1] = snap(st.NextValidators)
	if !h.sweep("after genesis", 0) {
		return
	}

	var lastCommit = types.NewCommit(0, 0, types.BlockID{}, nil)
	midPrune := r.Intn(2) == 0 // half of the chains are pruned while they run, all are pruned at the end
	quietLeft := 0
	ok := true
	for step := 0; step < L && ok; step++ {
		height := h.init + int64(step)
		// script for this height
		var batch []ref.RChange
		class := "empty"
		if quietLeft > 0 {
			quietLeft--
		} else {
			switch x := r.Intn(100); {
			case x < 6: // begin a quiet stretch
				quietLeft = 20 + r.Intn(120)
				if r.Intn(3) == 0 {
					quietLeft = 200 + r.Intn(L)
				}
			case x < 45:
				batch, class = genBatch(r, h.pool, refNext, true)
			}
		}
		want, werr := refNext.ApplyUpdates(batch)

		prev := h.state
		prevVals, prevNext := snap(prev.Validators), snap(prev.NextValidators)
		block, parts := prev.MakeBlock(height, nil, lastCommit, nil, prev.Validators.GetProposer().Address)
		blockID := types.BlockID{Hash: block.Hash(), PartSetHeader: parts.Header()}

		apply := func(b []ref.RChange) (sm.State, error, interface{}) {
			h.app.mu.Lock()
			h.app.next = toABCI(h.pm, b)
			h.app.mu.Unlock()
			var ns sm.State
			err, pan := safely(func() error {
				var e error
				ns, _, e = h.exec.ApplyBlock(prev, blockID, block)
				return e
			})
			return ns, err, pan
		}
		ns, aerr, pan := apply(batch)
		if pan != nil {
			h.events = append(h.events, histEvent{Height: height, Batch: jbatch(batch)})
			c.Violation("applyblock-panics", fmt.Sprintf("ApplyBlock(%d) panicked: %v", height, pan), h.witness(nil))
			return
		}
		if werr != nil {
			h.events = append(h.events, histEvent{Height: height, Batch: jbatch(batch), Rejected: werr.Error()})
			c.Count("history.batch."+class+".reject", 1)
			h.stats.rejected++
			if aerr == nil {
				c.Violation("update-accepts-invalid-batch", fmt.Sprintf("ApplyBlock(%d) accepted validator updates that must fail: %v", height, werr), h.witness(nil))
				return
			}
			// nothing may have changed: the state handed back, and what the store answers
			if ns.LastBlockHeight != prev.LastBlockHeight || diffSnap(snap(ns.Validators), prevVals) != "" || diffSnap(snap(ns.NextValidators), prevNext) != "" ||
				diffSnap(snap(prev.Validators), prevVals) != "" || diffSnap(snap(prev.NextValidators), prevNext) != "" {
				c.Violation("failed-update-mutates-set", fmt.Sprintf("ApplyBlock(%d) failed on the validator updates but the state's sets changed", height), h.witness(nil))
				return
			}
			if !h.sweep("after rejected batch", 6) {
				return
			}
			// the chain goes on with no updates at this height
			batch, class = nil, "empty"
			want, _ = refNext.ApplyUpdates(nil)
			ns, aerr, pan = apply(nil)
			if pan != nil {
				c.Violation("applyblock-panics", fmt.Sprintf("ApplyBlock(%d) panicked: %v", height, pan), h.witness(nil))
				return
			}
		} else if len(batch) > 0 {
			h.events = append(h.events, histEvent{Height: height, Batch: jbatch(batch)})
			c.Count("history.batch."+class+".accept", 1)
			h.stats.changes++
			h.stored = append(h.stored, height+2)
		}
		if aerr != nil {
			if len(batch) > 0 {
				c.Violation("update-rejects-valid-batch", fmt.Sprintf("ApplyBlock(%d) failed on valid validator updates: %v", height, aerr), h.witness(nil))
			} else {
				c.HarnessError("C08: ApplyBlock(%d) failed without validator updates (case %d): %v", height, idx, aerr)
			}
			return
		}
		h.state = ns
		h.stats.heights++
		if height%checkpointInterval == 0 || (height+2)%checkpointInterval == 0 {
			h.stats.crossings++
		}

		// what BeginBlock was told about the signers of the previous block
		if height > h.init {
			h.app.mu.Lock()
			votes := h.app.lastVotes
			h.app.mu.Unlock()
			tv := h.truth[height-1]
			bad := len(votes) != len(tv.Vals)
			for i := 0; !bad && i < len(votes); i++ {
				bad = !bytes.Equal(votes[i].Validator.Address, tv.Vals[i].Addr) || votes[i].Validator.Power != tv.Vals[i].Pow
			}
			if bad {
				c.Violation("beginblock-wrong-last-validators", fmt.Sprintf("BeginBlock(%d) reported signers that are not the set in force at %d", height, height-1),
					h.witness(map[string]interface{}{"expected": jsnap(tv)}))
				return
			}
		}

		// the live sets against the reference and against each other
		newNext := want.IncrementOnce()
		if !newNext.FitsInt64() {
			c.Violation("priority-overflow", "an exact priority no longer fits in an int64", h.witness(map[string]interface{}{"reference": jref(newNext)}))
			return
		}
		if k, d := diffRef(snap(ns.NextValidators), newNext); k != "" {
			key := "update-" + k + "-differ"
			if len(batch) == 0 {
				key = "rotation-" + k + "-differ"
			}
			c.Violation(key, fmt.Sprintf("NextValidators after block %d differ from the reference: %s", height, d),
				h.witness(map[string]interface{}{"next_validators_before": jsnap(prevNext), "implementation": jsnap(snap(ns.NextValidators)), "reference": jref(newNext)}))
			return
		}
		if d := invariants(ns.NextValidators); d != "" {
			c.Violation("update-breaks-invariant", fmt.Sprintf("NextValidators after block %d: %s", height, d), h.witness(nil))
			return
		}
		if d := diffSnap(snap(ns.Validators), prevNext); d != "" {
			c.Violation("state-validators-not-previous-next", fmt.Sprintf("Validators after block %d are not the NextValidators before it: %s", height, d), h.witness(nil))
			return
		}
		if d := diffSnap(snap(ns.LastValidators), prevVals); d != "" {
			c.Violation("state-validators-not-previous-next", fmt.Sprintf("LastValidators after block %d are not the Validators before it: %s", height, d), h.witness(nil))
			return
		}
		refNext = newNext
		h.truth[height+1] = snap(ns.Validators)
		h.truth[height+2] = snap(ns.NextValidators)

		lastCommit = h.signCommit(height, blockID, ns.LastValidators)

		// pruning while the chain runs, as a node whose application sets retain_height does
		if midPrune && r.Intn(300) == 0 && height > h.base+1 {
			to := h.base + 1 + r.Int63n(height-h.base)
			if !h.prune(to) || !h.sweep(fmt.Sprintf("after PruneStates(%d) at tip %d", to, height), 40) {
				return
			}
		} else if r.Intn(200) == 0 {
			if !h.sweep(fmt.Sprintf("at tip %d", height), 40) {
				return
			}
		}
	}

	// every retained height, then prune in one to three steps and look again
	if !h.sweep("at the end, before pruning", 0) {
		return
	}
	tip := h.state.LastBlockHeight
	for p := 0; p < 1+r.Intn(3); p++ {
		if tip <= h.base+1 {
			break
		}
		var to int64
		switch r.Intn(4) {
		case 0: // just below / at / above a checkpoint
			to = tip - tip%checkpointInterval + int64(r.Intn(5)) - 2
		case 1:
			to = tip - int64(r.Intn(3))
		default:
			to = h.base + 1 + r.Int63n(tip-h.base)
		}
		if to <= h.base || to > tip {
			to = h.base + 1 + r.Int63n(tip-h.base)
		}
		if !h.prune(to) || !h.sweep(fmt.Sprintf("after PruneStates(to=%d) at the end", to), 0) {
			return
		}
	}

	// reconstruction distances that were exercised
	c.Count("history.heights_applied", h.stats.heights)
	c.Count("history.batches_applied", h.stats.changes)
	c.Count("history.batches_rejected", h.stats.rejected)
	c.Count("history.prunes", h.stats.prunes)
	c.Count("history.lookups_compared", h.stats.lookups)
	c.Count("history.lookups_reconstructed_by_2_or_more_rounds", h.stats.reconstructed)
	c.Max("history.max_reconstruction_rounds", h.stats.maxK)
	c.Count("history.lookups_differing_in_priorities", h.stats.s15)
	c.Count("history.lookups_differing_in_proposer", h.stats.s15prop)
	c.Count("history.heights_next_to_checkpoint", h.stats.crossings)
	if h.stats.changes > 0 && h.stats.reconstructed > 0 {
		c.Distinct("history", idx, h.init, L)
	}
	if c.WantSample() && idx%41 == 0 {
		ev := h.events
		if len(ev) > 12 {
			ev = ev[:12]
		}
		c.Sample(map[string]interface{}{"stream": "history", "case": idx, "initial_height": h.init, "heights": h.stats.heights, "genesis_validators": jbatch(h.gen),
			"first_events": ev, "batches_applied": h.stats.changes, "batches_rejected": h.stats.rejected, "prunes": h.stats.prunes, "lookups_compared": h.stats.lookups})
	}
}
