package c08

import (
	"bytes"
	"fmt"
	"math/big"

	"verif/ref"
	"verif/verdict"
)

// Oracle (ii): the proposer of every round, and every priority after it, is what
// the reference algorithm computes; two copies fed the same history agree; in a
// stretch without changes turns are proportional to power; the exact (big
// integer) priorities always fit in an int64, so nothing was ever clipped.

// propTracker follows, for one stretch without changes, the quantity
// D_i(t) = turns_i(t)*T - t*p_i.  The deviation of validator i over the window
// (a,b] is (D_i(b)-D_i(a))/T, so the worst window of a stretch is
// (max D_i - min D_i)/T.  "Calm" sub-stretches are those in which the reference
// never had to rescale; there the bound 4 + n/T is guaranteed (see Run).
type propTracker struct {
	n                             int
	T                             *big.Int
	pow                           []*big.Int
	d                             []*big.Int // current D_i
	calmMin                       []*big.Int
	calmMax                       []*big.Int
	allMin                        []*big.Int
	allMax                        []*big.Int
	worstCalmMilli, worstAllMilli int64
	calmOpen                      bool  // a calm sub-stretch is running (its first state may be the start of the segment)
	calmStates                    int64 // states that belonged to calm sub-stretches
}

func newPropTracker(s *ref.RSet) *propTracker {
	p := &propTracker{n: len(s.Vals), T: s.TotalPower()}
	for _, v := range s.Vals {
		p.pow = append(p.pow, big.NewInt(v.Power))
		p.d = append(p.d, new(big.Int))
		p.calmMin = append(p.calmMin, new(big.Int))
		p.calmMax = append(p.calmMax, new(big.Int))
		p.allMin = append(p.allMin, new(big.Int))
		p.allMax = append(p.allMax, new(big.Int))
	}
	// the state a segment starts from has just been scaled and centred
	win := new(big.Int).Mul(big.NewInt(2), p.T)
	p.calmOpen = s.Spread().Cmp(win) <= 0
	return p
}

// round records that member `elected` (index in canonical order) proposed.
// rescaled: the reference had to rescale at the start of this round, so the
// calm sub-stretch that was running is over.  calmAfter: the state after this
// round is inside the 2T window (the next round will not rescale), so it
// belongs to the running calm sub-stretch.
// It returns the index of a member whose calm range exceeds the bound, or -1.
func (p *propTracker) round(elected int, rescaled, calmAfter bool) int {
	if rescaled {
		p.calmOpen = false
	}
	bad := -1
	bound := new(big.Int).Mul(big.NewInt(4), p.T)
	bound.Add(bound, big.NewInt(int64(p.n)))
	for i := 0; i < p.n; i++ {
		p.d[i].Sub(p.d[i], p.pow[i])
		if i == elected {
			p.d[i].Add(p.d[i], p.T)
		}
		if p.d[i].Cmp(p.allMin[i]) < 0 {
			p.allMin[i].Set(p.d[i])
		}
		if p.d[i].Cmp(p.allMax[i]) > 0 {
			p.allMax[i].Set(p.d[i])
		}
		if m := milli(new(big.Int).Sub(p.allMax[i], p.allMin[i]), p.T); m > p.worstAllMilli {
			p.worstAllMilli = m
		}
		if !calmAfter {
			continue
		}
		if !p.calmOpen {
			p.calmMin[i].Set(p.d[i])
			p.calmMax[i].Set(p.d[i])
		}
		if p.d[i].Cmp(p.calmMin[i]) < 0 {
			p.calmMin[i].Set(p.d[i])
		}
		if p.d[i].Cmp(p.calmMax[i]) > 0 {
			p.calmMax[i].Set(p.d[i])
		}
		rng := new(big.Int).Sub(p.calmMax[i], p.calmMin[i])
		if rng.Cmp(bound) > 0 {
			bad = i
		}
		if m := milli(rng, p.T); m > p.worstCalmMilli {
			p.worstCalmMilli = m
		}
	}
	if calmAfter {
		p.calmOpen = true
		p.calmStates++
	}
	return bad
}

// milli returns floor(1000*a/T).
func milli(a, t *big.Int) int64 {
	x := new(big.Int).Mul(a, big.NewInt(1000))
	x.Quo(x, t)
	if !x.IsInt64() {
		return 1<<63 - 1
	}
	return x.Int64()
}

func indexOf(s *ref.RSet, addr []byte) int {
	for i, v := range s.Vals {
		if bytes.Equal(v.Address, addr) {
			return i
		}
	}
	return -1
}

func schedCase(c *verdict.Ctx, idx int) {
	r := c.Rand("sched", idx)
	c.Eval()
	poolN := 4 + r.Intn(16)
	maxN := 8
	if r.Intn(10) == 0 {
		poolN, maxN = 40+r.Intn(40), 40
	}
	pool := synthPool(r, poolN)
	pm := poolMap(pool)
	members := genInitial(r, pool, maxN)
	type seg struct {
		Batch  []jchange `json:"batch_before_segment,omitempty"`
		Rounds int       `json:"rounds"`
	}
	var segs []seg
	wit := func(extra map[string]interface{}) map[string]interface{} {
		w := map[string]interface{}{"stream": "sched", "case": idx, "initial_members": jbatch(members), "segments": segs}
		for k, v := range extra {
			w[k] = v
		}
		return w
	}
	vs, rs, err := newImplSet(pm, members)
	if err != nil {
		c.Violation("newvalidatorset-fails", "NewValidatorSet failed on valid members: "+err.Error(), wit(nil))
		return
	}
	nSeg := 1 + r.Intn(4)
	totalRounds := c.N(1200, 2000)
	var rounds, ksteps, rescales int64
	var maxAbsPrioBits int
	for sg := 0; sg < nSeg; sg++ {
		var jb []jchange
		if sg > 0 || r.Intn(2) == 0 {
			// a valid batch opens the segment (try a few times to get one the reference accepts)
			for try := 0; try < 6; try++ {
				batch, _ := genBatch(r, pool, rs, false)
				want, werr := rs.ApplyUpdates(batch)
				if werr != nil || len(batch) == 0 {
					continue
				}
				if e, p := safely(func() error { return vs.UpdateWithChangeSet(toImpl(pm, batch)) }); e != nil || p != nil {
					c.Violation("update-rejects-valid-batch", fmt.Sprintf("UpdateWithChangeSet failed on a valid batch: %v %v", e, p),
						wit(map[string]interface{}{"batch": jbatch(batch)}))
					return
				}
				rs = want
				jb = jbatch(batch)
				break
			}
		}
		nR := totalRounds/nSeg/2 + r.Intn(totalRounds/nSeg)
		segs = append(segs, seg{Batch: jb, Rounds: nR})
		if k, d := diffRef(snap(vs), &ref.RSet{Vals: rs.Vals, Proposer: -1}); k != "" {
			c.Violation("update-"+k+"-differ", "set at the start of a segment differs from the reference: "+d,
				wit(map[string]interface{}{"implementation": jsnap(snap(vs)), "reference": jref(rs)}))
			return
		}
		start := snap(vs)
		twin := vs.Copy() // determinism: a second copy fed the same rounds
		trkRef := newPropTracker(rs)
		trkImpl := newPropTracker(rs)
		window := new(big.Int).Mul(big.NewInt(2), rs.TotalPower())
		// k-step probes: at round `at` a copy is advanced by one call with times=k and
		// must equal the live set k single rounds later
		type probe struct {
			due  int
			k    int32
			got  ssnap
			from ssnap
		}
		var probes []probe
		nextProbe := r.Intn(20)
		for t := 0; t < nR; t++ {
			if t == nextProbe {
				k := int32(2 + r.Intn(60))
				if r.Intn(5) == 0 {
					k = int32(2 + r.Intn(600))
				}
				cp := vs.Copy()
				if e, p := safely(func() error { cp.IncrementProposerPriority(k); return nil }); e != nil || p != nil {
					c.Violation("increment-panics", fmt.Sprintf("IncrementProposerPriority(%d) panicked: %v", k, p), wit(map[string]interface{}{"round": t, "set": jsnap(snap(vs))}))
					return
				}
				probes = append(probes, probe{due: t + int(k), k: k, got: snap(cp), from: snap(vs)})
				nextProbe = t + 1 + r.Intn(nR/4+1)
			}
			before := rs.Rescales
			rs = rs.IncrementOnce()
			rescaled := rs.Rescales != before
			if rescaled {
				rescales++
			}
			calmAfter := rs.Spread().Cmp(window) <= 0
			if _, p := safely(func() error { vs.IncrementProposerPriority(1); return nil }); p != nil {
				c.Violation("increment-panics", fmt.Sprintf("IncrementProposerPriority(1) panicked: %v", p), wit(map[string]interface{}{"round": t}))
				return
			}
			rounds++
			now := snap(vs)
			if k, d := diffRef(now, rs); k != "" {
				c.Violation("rotation-"+k+"-differ", fmt.Sprintf("round %d of segment %d: %s", t+1, sg, d),
					wit(map[string]interface{}{"segment": sg, "round": t + 1, "segment_start": jsnap(start), "implementation": jsnap(now), "reference": jref(rs)}))
				return
			}
			if !rs.FitsInt64() {
				c.Violation("priority-overflow", "an exact priority no longer fits in an int64",
					wit(map[string]interface{}{"segment": sg, "round": t + 1, "reference": jref(rs)}))
				return
			}
			for _, v := range rs.Vals {
				if b := v.Priority.BitLen(); b > maxAbsPrioBits {
					maxAbsPrioBits = b
				}
			}
			if t < 64 {
				twin.IncrementProposerPriority(1)
				if d := diffSnap(snap(twin), now); d != "" {
					c.Violation("rotation-not-deterministic", "two copies fed the same rounds disagree: "+d, wit(map[string]interface{}{"segment": sg, "round": t + 1}))
					return
				}
			}
			// proportionality, on the reference's elections and on the implementation's
			if bad := trkRef.round(rs.Proposer, rescaled, calmAfter); bad >= 0 {
				c.HarnessError("C08: the reference algorithm itself exceeds the proportionality bound (case %d segment %d round %d member %d): the bound is wrong", idx, sg, t+1, bad)
				return
			}
			ip := indexOf(rs, now.Proposer)
			if bad := trkImpl.round(ip, rescaled, calmAfter); bad >= 0 {
				c.Violation("turns-not-proportional", fmt.Sprintf("segment %d: member %X got turns off by more than 4+n/T in a window without changes or rescaling", sg, rs.Vals[bad].Address),
					wit(map[string]interface{}{"segment": sg, "round": t + 1, "segment_start": jsnap(start)}))
				return
			}
			for pi := 0; pi < len(probes); pi++ {
				if probes[pi].due != t+1 {
					continue
				}
				ksteps++
				if d := diffSnap(probes[pi].got, now); d != "" {
					key := "increment-k-rounds-in-one-call-differs-from-k-single-rounds"
					if kd, _ := diffRef(probes[pi].got, oneCallModel(probes[pi].from, int64(probes[pi].k))); kd != "" {
						key = "increment-k-unexplained" // not even "normalise once, then k elections"
					}
					if !bytes.Equal(probes[pi].got.Proposer, now.Proposer) {
						c.Count("sched.kstep_probes_with_another_proposer", 1)
					}
					c.Count("sched.kstep_probes_differing", 1)
					c.Violation(key,
						fmt.Sprintf("IncrementProposerPriority(%d) gives another set than %d calls of IncrementProposerPriority(1): %s", probes[pi].k, probes[pi].k, d),
						wit(map[string]interface{}{"segment": sg, "from_round": t + 1 - int(probes[pi].k), "k": probes[pi].k, "set_before": jsnap(probes[pi].from),
							"after_one_call": jsnap(probes[pi].got), "after_k_calls": jsnap(now), "proposer_differs": !bytes.Equal(probes[pi].got.Proposer, now.Proposer)}))
					// keep going: the round-by-round oracle is independent of this one
				}
			}
		}
		c.Count("sched.states_in_calm_stretches", trkRef.calmStates)
		c.Max("sched.worst_window_deviation_calm_milliturns", trkRef.worstCalmMilli)
		c.Max("sched.worst_window_deviation_any_milliturns", trkRef.worstAllMilli)
		if len(rs.Vals) > 1 && nR >= 20 {
			c.Distinct("sched", idx, sg)
		}
	}
	// the public schedule function must agree with stepping
	if len(rs.Vals) > 0 {
		sch := ref.ProposerSchedule(rs, 5)
		cp := vs.Copy()
		for i := 0; i < 5; i++ {
			cp.IncrementProposerPriority(1)
			if !bytes.Equal(cp.Proposer.Address, sch[i]) {
				c.Violation("rotation-priorities-differ", "proposer differs from ref.ProposerSchedule", wit(map[string]interface{}{"ahead": i + 1}))
				return
			}
		}
	}
	c.Count("sched.rounds_compared", rounds)
	c.Count("sched.kstep_probes_compared", ksteps)
	c.Count("sched.reference_rescales_during_rotation", rescales)
	c.Max("sched.max_priority_bits", int64(maxAbsPrioBits))
	if c.WantSample() && idx%97 == 0 {
		c.Sample(map[string]interface{}{"stream": "sched", "case": idx, "initial_members": jbatch(members), "segments": segs, "rounds_compared": rounds, "final_set": jref(rs)})
	}
}

// fixedKStep is the smallest instance found of finding S15, run once per run so
// that the one-call-versus-k-rounds comparison is known to have been exercised on
// a case where the two readings elect different proposers: members with powers
// 20, 2, 13; five rounds; the first member's power drops to 1; then three rounds.
func fixedKStep(c *verdict.Ctx) {
	c.Eval()
	pool := []ident{{addr: bytes.Repeat([]byte{1}, 20)}, {addr: bytes.Repeat([]byte{2}, 20)}, {addr: bytes.Repeat([]byte{3}, 20)}}
	pm := poolMap(pool)
	members := []ref.RChange{{Address: pool[0].addr, Power: 20}, {Address: pool[1].addr, Power: 2}, {Address: pool[2].addr, Power: 13}}
	vs, rs, err := newImplSet(pm, members)
	if err != nil {
		c.HarnessError("C08: fixed case: %v", err)
		return
	}
	for i := 0; i < 5; i++ {
		vs.IncrementProposerPriority(1)
		rs = rs.IncrementOnce()
	}
	drop := []ref.RChange{{Address: pool[0].addr, Power: 1}}
	if err := vs.UpdateWithChangeSet(toImpl(pm, drop)); err != nil {
		c.HarnessError("C08: fixed case: %v", err)
		return
	}
	rs, _ = rs.ApplyUpdates(drop)
	from := snap(vs)
	one := vs.Copy()
	one.IncrementProposerPriority(3)
	for i := 0; i < 3; i++ {
		vs.IncrementProposerPriority(1)
		rs = rs.IncrementOnce()
	}
	w := map[string]interface{}{"stream": "sched-fixed", "case": 0, "initial_powers": []int{20, 2, 13}, "rounds_before_change": 5, "change": jbatch(drop), "k": 3,
		"set_before": jsnap(from), "after_one_call": jsnap(snap(one)), "after_k_calls": jsnap(snap(vs)), "reference_after_k_rounds": jref(rs)}
	if k, d := diffRef(snap(vs), rs); k != "" {
		c.Violation("rotation-"+k+"-differ", "fixed case: three single rounds differ from the reference: "+d, w)
		return
	}
	c.Distinct("sched-fixed", 0)
	if d := diffSnap(snap(one), snap(vs)); d != "" {
		key := "increment-k-rounds-in-one-call-differs-from-k-single-rounds"
		if kd, _ := diffRef(snap(one), oneCallModel(from, 3)); kd != "" {
			key = "increment-k-unexplained"
		}
		c.Count("sched.kstep_probes_differing", 1)
		c.Violation(key, "IncrementProposerPriority(3) gives another set (and another proposer) than 3 calls of IncrementProposerPriority(1): "+d, w)
	}
}
