package c08

import (
	"bytes"
	"encoding/hex"
	"fmt"
	"math/big"
	"math/rand"

	"github.com/tendermint/tendermint/crypto"
	"github.com/tendermint/tendermint/crypto/ed25519"
	"github.com/tendermint/tendermint/types"

	"verif/ref"
)

// ---------------------------------------------------------------- snapshots

// vsnap is a plain-data copy of one member of an implementation set.
type vsnap struct {
	Addr []byte
	Pub  []byte
	Pow  int64
	Prio int64
}

// ssnap is a plain-data copy of an implementation set.
type ssnap struct {
	Vals     []vsnap
	Proposer []byte // address, nil if the Proposer pointer is nil
	PropPow  int64
	PropPrio int64
}

func snap(vs *types.ValidatorSet) ssnap {
	var s ssnap
	if vs == nil {
		return s
	}
	s.Vals = make([]vsnap, len(vs.Validators))
	for i, v := range vs.Validators {
		s.Vals[i] = vsnap{Addr: append([]byte{}, v.Address...), Pow: v.VotingPower, Prio: v.ProposerPriority}
		if v.PubKey != nil {
			s.Vals[i].Pub = append([]byte{}, v.PubKey.Bytes()...)
		}
	}
	if vs.Proposer != nil {
		s.Proposer = append([]byte{}, vs.Proposer.Address...)
		s.PropPow = vs.Proposer.VotingPower
		s.PropPrio = vs.Proposer.ProposerPriority
	}
	return s
}

// diffMembers compares membership, powers, keys and order.
func diffMembers(a, b ssnap) string {
	if len(a.Vals) != len(b.Vals) {
		return fmt.Sprintf("sizes differ: %d vs %d", len(a.Vals), len(b.Vals))
	}
	for i := range a.Vals {
		x, y := a.Vals[i], b.Vals[i]
		if !bytes.Equal(x.Addr, y.Addr) {
			return fmt.Sprintf("member #%d: address %X vs %X", i, x.Addr, y.Addr)
		}
		if x.Pow != y.Pow {
			return fmt.Sprintf("member #%d (%X): power %d vs %d", i, x.Addr, x.Pow, y.Pow)
		}
		if !bytes.Equal(x.Pub, y.Pub) {
			return fmt.Sprintf("member #%d (%X): public keys differ", i, x.Addr)
		}
	}
	return ""
}

// diffPriorities compares priorities and the proposer (members assumed equal).
func diffPriorities(a, b ssnap) string {
	for i := range a.Vals {
		if a.Vals[i].Prio != b.Vals[i].Prio {
			return fmt.Sprintf("member #%d (%X): priority %d vs %d", i, a.Vals[i].Addr, a.Vals[i].Prio, b.Vals[i].Prio)
		}
	}
	if !bytes.Equal(a.Proposer, b.Proposer) {
		return fmt.Sprintf("proposer %X vs %X", a.Proposer, b.Proposer)
	}
	return ""
}

func diffSnap(a, b ssnap) string {
	if d := diffMembers(a, b); d != "" {
		return d
	}
	return diffPriorities(a, b)
}

// diffRef compares an implementation set with a reference set.  kind is
// "members" (membership / power / order) or "priorities" (priority values,
// proposer) or "" when equal.  proposer is compared only when the reference
// has one.
func diffRef(a ssnap, r *ref.RSet) (kind, what string) {
	if len(a.Vals) != len(r.Vals) {
		return "members", fmt.Sprintf("sizes differ: implementation %d, reference %d", len(a.Vals), len(r.Vals))
	}
	for i := range a.Vals {
		if !bytes.Equal(a.Vals[i].Addr, r.Vals[i].Address) {
			return "members", fmt.Sprintf("position %d: implementation has %X, reference %X", i, a.Vals[i].Addr, r.Vals[i].Address)
		}
		if a.Vals[i].Pow != r.Vals[i].Power {
			return "members", fmt.Sprintf("%X: implementation power %d, reference %d", a.Vals[i].Addr, a.Vals[i].Pow, r.Vals[i].Power)
		}
	}
	for i := range a.Vals {
		if big.NewInt(a.Vals[i].Prio).Cmp(r.Vals[i].Priority) != 0 {
			return "priorities", fmt.Sprintf("%X: implementation priority %d, reference %v", a.Vals[i].Addr, a.Vals[i].Prio, r.Vals[i].Priority)
		}
	}
	if r.Proposer >= 0 {
		if !bytes.Equal(a.Proposer, r.Vals[r.Proposer].Address) {
			return "priorities", fmt.Sprintf("implementation proposer %X, reference %X", a.Proposer, r.Vals[r.Proposer].Address)
		}
	}
	return "", ""
}

// refFromSnap turns a recorded implementation set into a reference set (data only).
func refFromSnap(a ssnap) *ref.RSet {
	r := &ref.RSet{Proposer: -1}
	for i, v := range a.Vals {
		r.Vals = append(r.Vals, ref.RVal{Address: append([]byte{}, v.Addr...), Power: v.Pow, Priority: big.NewInt(v.Prio)})
		if bytes.Equal(v.Addr, a.Proposer) {
			r.Proposer = i
		}
	}
	return r
}

// oneCallModel is NOT the specified rotation: it is the shortcut "scale and
// centre once, then k elections".  It is used only to classify a disagreement
// between k rounds and one call with times=k (finding S15), never to accept one.
func oneCallModel(from ssnap, k int64) *ref.RSet {
	r := refFromSnap(from)
	r.ScaleAndCentre()
	for i := int64(0); i < k; i++ {
		r.Elect()
	}
	return r
}

type jval struct {
	Addr string `json:"address"`
	Pow  int64  `json:"power"`
	Prio string `json:"priority"`
}
type jset struct {
	Vals     []jval `json:"validators"`
	Proposer string `json:"proposer"`
}

func jsnap(s ssnap) jset {
	j := jset{Proposer: hex.EncodeToString(s.Proposer)}
	for _, v := range s.Vals {
		j.Vals = append(j.Vals, jval{hex.EncodeToString(v.Addr), v.Pow, fmt.Sprint(v.Prio)})
	}
	return j
}
func jref(r *ref.RSet) jset {
	j := jset{}
	if r == nil {
		return j
	}
	for _, v := range r.Vals {
		j.Vals = append(j.Vals, jval{hex.EncodeToString(v.Address), v.Power, v.Priority.String()})
	}
	if r.Proposer >= 0 {
		j.Proposer = hex.EncodeToString(r.Vals[r.Proposer].Address)
	}
	return j
}

type jchange struct {
	Addr string `json:"address"`
	Pow  int64  `json:"power"`
}

func jbatch(b []ref.RChange) []jchange {
	out := make([]jchange, len(b))
	for i, ch := range b {
		out[i] = jchange{hex.EncodeToString(ch.Address), ch.Power}
	}
	return out
}

// ---------------------------------------------------------------- invariants

// invariants checks what the statement demands of every set: unique addresses,
// no zero-power (or negative) member, canonical order, total within the limit,
// not empty, and the set's own total equal to the exact sum.
func invariants(vs *types.ValidatorSet) string {
	if len(vs.Validators) == 0 {
		return "set is empty"
	}
	seen := map[string]bool{}
	sum := new(big.Int)
	for i, v := range vs.Validators {
		if seen[string(v.Address)] {
			return fmt.Sprintf("address %X occurs twice", v.Address)
		}
		seen[string(v.Address)] = true
		if v.VotingPower <= 0 {
			return fmt.Sprintf("member %X has power %d", v.Address, v.VotingPower)
		}
		sum.Add(sum, big.NewInt(v.VotingPower))
		if i > 0 {
			p := vs.Validators[i-1]
			if p.VotingPower < v.VotingPower || (p.VotingPower == v.VotingPower && bytes.Compare(p.Address, v.Address) >= 0) {
				return fmt.Sprintf("not in canonical order at position %d", i)
			}
		}
	}
	if sum.Cmp(big.NewInt(ref.MaxTotalPower)) > 0 {
		return fmt.Sprintf("total power %v exceeds the limit", sum)
	}
	if got := vs.TotalVotingPower(); big.NewInt(got).Cmp(sum) != 0 {
		return fmt.Sprintf("TotalVotingPower() = %d but the members sum to %v", got, sum)
	}
	return ""
}

// ---------------------------------------------------------------- pools and generators

// ident is one potential validator.
type ident struct {
	addr []byte
	pub  crypto.PubKey   // nil for synthetic identities
	priv ed25519.PrivKey // nil for synthetic identities
}

// synthPool makes identities without keys; some share long address prefixes so
// that the address tie-breaks are exercised on late bytes.
func synthPool(r *rand.Rand, n int) []ident {
	out := make([]ident, 0, n)
	seen := map[string]bool{}
	base := make([]byte, 20)
	r.Read(base)
	for len(out) < n {
		a := make([]byte, 20)
		switch r.Intn(4) {
		case 0: // differs from base only in the last two bytes
			copy(a, base)
			a[19] = byte(r.Intn(256))
			a[18] = byte(r.Intn(3))
		case 1: // extreme first byte
			r.Read(a)
			a[0] = []byte{0x00, 0xff, 0x7f, 0x80}[r.Intn(4)]
		default:
			r.Read(a)
		}
		if seen[string(a)] {
			continue
		}
		seen[string(a)] = true
		out = append(out, ident{addr: a})
	}
	return out
}

func keyPool(r *rand.Rand, n int) []ident {
	out := make([]ident, n)
	for i := range out {
		secret := make([]byte, 16)
		r.Read(secret)
		pk := ed25519.GenPrivKeyFromSecret(secret)
		out[i] = ident{addr: pk.PubKey().Address(), pub: pk.PubKey(), priv: pk}
	}
	return out
}

const maxTotal = ref.MaxTotalPower

// genPower draws a power from classes that matter: 1, small, medium, large,
// near the limit.  room is how much total power is still available (>= 1).
func genPower(r *rand.Rand, room int64) int64 {
	if room < 1 {
		room = 1
	}
	var p int64
	switch r.Intn(10) {
	case 0, 1:
		p = 1
	case 2, 3:
		p = 1 + r.Int63n(10)
	case 4, 5:
		p = 1 + r.Int63n(1000000)
	case 6:
		p = 1 + r.Int63n(1<<50)
	case 7:
		p = room/int64(1+r.Intn(8)) - r.Int63n(3)
	case 8:
		p = room - r.Int63n(4)
	default:
		p = 1 + r.Int63n(100)
	}
	if p > room {
		p = room
	}
	if p < 1 {
		p = 1
	}
	return p
}

// genInitial picks the members of a fresh set (total within the limit).
func genInitial(r *rand.Rand, pool []ident, maxN int) []ref.RChange {
	n := 1 + r.Intn(maxN)
	if n > len(pool) {
		n = len(pool)
	}
	perm := r.Perm(len(pool))[:n]
	room := maxTotal
	if r.Intn(3) > 0 { // most sets are far from the limit
		room = 1 + r.Int63n(1<<40)
		if room < int64(n) {
			room = int64(n)
		}
	}
	out := make([]ref.RChange, 0, n)
	for k, pi := range perm {
		left := int64(n - k - 1)
		p := genPower(r, room-left)
		room -= p
		out = append(out, ref.RChange{Address: pool[pi].addr, Power: p})
	}
	return out
}

// genBatch draws one batch of changes against the current membership.  class
// is a label for the counters only; what the batch must do is decided by the
// reference.
func genBatch(r *rand.Rand, pool []ident, cur *ref.RSet, allowNegative bool) (batch []ref.RChange, class string) {
	member := map[string]int64{}
	total := new(big.Int)
	for _, v := range cur.Vals {
		member[string(v.Address)] = v.Power
		total.Add(total, big.NewInt(v.Power))
	}
	tot := total.Int64() // the reference keeps it within the limit
	var outsiders []ident
	for _, id := range pool {
		if _, ok := member[string(id.addr)]; !ok {
			outsiders = append(outsiders, id)
		}
	}
	anyMember := func() ref.RVal { return cur.Vals[r.Intn(len(cur.Vals))] }
	room := maxTotal - tot

	mix := func(k int) []ref.RChange {
		used := map[string]bool{}
		var b []ref.RChange
		for len(b) < k {
			switch r.Intn(3) {
			case 0: // add
				if len(outsiders) == 0 {
					continue
				}
				id := outsiders[r.Intn(len(outsiders))]
				if used[string(id.addr)] {
					k--
					continue
				}
				used[string(id.addr)] = true
				rm := room
				if r.Intn(4) > 0 && rm > 1<<30 {
					rm = 1 + r.Int63n(tot+1000) // in the range of the present members
				}
				b = append(b, ref.RChange{Address: id.addr, Power: genPower(r, rm)})
			case 1: // remove
				v := anyMember()
				if used[string(v.Address)] {
					k--
					continue
				}
				used[string(v.Address)] = true
				b = append(b, ref.RChange{Address: v.Address, Power: 0})
			default: // change power
				v := anyMember()
				if used[string(v.Address)] {
					k--
					continue
				}
				used[string(v.Address)] = true
				rm := room + v.Power
				if r.Intn(4) > 0 && rm > 1<<30 {
					rm = 1 + r.Int63n(tot+1000)
				}
				b = append(b, ref.RChange{Address: v.Address, Power: genPower(r, rm)})
			}
		}
		return b
	}

	switch c := r.Intn(100); {
	case c < 8:
		return nil, "empty"
	case c < 55:
		return mix(1 + r.Intn(6)), "mix"
	case c < 60: // duplicate address
		b := mix(1 + r.Intn(4))
		d := b[r.Intn(len(b))]
		if r.Intn(2) == 0 {
			d.Power = genPower(r, 1000)
		}
		b = append(b, d)
		r.Shuffle(len(b), func(i, j int) { b[i], b[j] = b[j], b[i] })
		return b, "duplicate"
	case c < 65: // removal of a non-member
		b := mix(r.Intn(4))
		if len(outsiders) == 0 {
			return b, "mix"
		}
		id := outsiders[r.Intn(len(outsiders))]
		for _, ch := range b {
			if bytes.Equal(ch.Address, id.addr) {
				return b, "mix"
			}
		}
		b = append(b, ref.RChange{Address: id.addr, Power: 0})
		r.Shuffle(len(b), func(i, j int) { b[i], b[j] = b[j], b[i] })
		return b, "remove-unknown"
	case c < 73: // total exactly at / just over the limit, via a power change or an addition
		over := int64(r.Intn(3)) // 0: exactly at the limit, 1,2: over
		var b []ref.RChange
		if len(outsiders) > 0 && r.Intn(2) == 0 {
			if room+over < 1 {
				return mix(2), "mix"
			}
			b = append(b, ref.RChange{Address: outsiders[r.Intn(len(outsiders))].addr, Power: room + over})
		} else {
			v := anyMember()
			b = append(b, ref.RChange{Address: v.Address, Power: v.Power + room + over})
		}
		if over == 0 {
			return b, "at-limit"
		}
		return b, "over-limit"
	case c < 80: // remove a member and hand its power plus the room (plus 0..2) to newcomers / others
		if len(cur.Vals) < 2 || len(outsiders) == 0 {
			return mix(2), "mix"
		}
		v := cur.Vals[r.Intn(1+r.Intn(len(cur.Vals)))] // biased to the powerful
		over := int64(r.Intn(3))
		gift := v.Power + room + over
		if r.Intn(2) == 0 {
			gift = v.Power + r.Int63n(room+1)
			over = 0
		}
		b := []ref.RChange{{Address: v.Address, Power: 0}, {Address: outsiders[r.Intn(len(outsiders))].addr, Power: gift}}
		r.Shuffle(len(b), func(i, j int) { b[i], b[j] = b[j], b[i] })
		if over > 0 {
			return b, "swap-over-limit"
		}
		return b, "swap-heavy"
	case c < 85: // remove everybody, with or without a replacement
		var b []ref.RChange
		for _, v := range cur.Vals {
			b = append(b, ref.RChange{Address: v.Address, Power: 0})
		}
		cl := "remove-all"
		if len(outsiders) > 0 && r.Intn(2) == 0 {
			b = append(b, ref.RChange{Address: outsiders[r.Intn(len(outsiders))].addr, Power: genPower(r, maxTotal)})
			cl = "replace-all"
		}
		r.Shuffle(len(b), func(i, j int) { b[i], b[j] = b[j], b[i] })
		return b, cl
	case c < 89: // a single power beyond the limit
		b := mix(r.Intn(3))
		var a []byte
		if len(outsiders) > 0 && r.Intn(2) == 0 {
			a = outsiders[r.Intn(len(outsiders))].addr
		} else {
			a = anyMember().Address
		}
		for _, ch := range b {
			if bytes.Equal(ch.Address, a) {
				return b, "mix"
			}
		}
		p := maxTotal + 1 + r.Int63n(1000)
		if r.Intn(3) == 0 {
			p = int64(1<<63 - 1)
		}
		b = append(b, ref.RChange{Address: a, Power: p})
		return b, "power-beyond-limit"
	case c < 92 && allowNegative:
		b := mix(r.Intn(3))
		a := anyMember().Address
		for _, ch := range b {
			if bytes.Equal(ch.Address, a) {
				return b, "mix"
			}
		}
		b = append(b, ref.RChange{Address: a, Power: -1 - r.Int63n(5)})
		return b, "negative"
	case c < 96: // everybody to power 1, or one member to 1
		var b []ref.RChange
		if r.Intn(2) == 0 {
			for _, v := range cur.Vals {
				b = append(b, ref.RChange{Address: v.Address, Power: 1})
			}
		} else {
			b = append(b, ref.RChange{Address: cur.Vals[0].Address, Power: 1})
		}
		return b, "to-one"
	default: // larger batch (more than 5 entries: sampled permutations)
		return mix(6 + r.Intn(5)), "mix-large"
	}
}

// toImpl converts a batch for UpdateWithChangeSet.
func toImpl(pool map[string]ident, b []ref.RChange) []*types.Validator {
	out := make([]*types.Validator, len(b))
	for i, ch := range b {
		out[i] = &types.Validator{Address: append([]byte{}, ch.Address...), PubKey: pool[string(ch.Address)].pub, VotingPower: ch.Power}
	}
	return out
}

func poolMap(pool []ident) map[string]ident {
	m := map[string]ident{}
	for _, id := range pool {
		m[string(id.addr)] = id
	}
	return m
}
