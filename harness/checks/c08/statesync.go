package c08

import (
	"bytes"
	"context"
	"fmt"
	"net"
	"net/http"
	"os"
	"strings"
	"sync"
	"time"

	dbm "github.com/tendermint/tm-db"

	"github.com/tendermint/tendermint/libs/log"
	"github.com/tendermint/tendermint/light"
	mmock "github.com/tendermint/tendermint/mempool/mock"
	"github.com/tendermint/tendermint/proxy"
	ctypes "github.com/tendermint/tendermint/rpc/core/types"
	rpcserver "github.com/tendermint/tendermint/rpc/jsonrpc/server"
	rpctypes "github.com/tendermint/tendermint/rpc/jsonrpc/types"
	sm "github.com/tendermint/tendermint/state"
	"github.com/tendermint/tendermint/statesync"
	"github.com/tendermint/tendermint/types"

	"verif/ref"
	"verif/verdict"
)

// Family "statesync": the node's state did not grow from genesis; the real
// light-client state provider (statesync.NewLightClientStateProvider, State(H))
// builds it for a snapshot height H from what honest RPC servers answer, the
// node stores it with Store.Bootstrap and goes on applying blocks H+1, H+2, ...
// The lookup clause holds there too: LoadValidators(h) for every retained
// h >= H must be the set that was in force at h on the chain.
//
// The chain is produced by a source node (real ApplyBlock + store, scripted
// validator updates, in particular in blocks H-2 .. H+1 so that the sets of
// H, H+1, H+2, H+3 differ); the servers are rpc/jsonrpc/server instances
// answering commit / validators / consensus_params from the recorded chain
// (validators in the canonical order with the priorities in force, as rpc/core
// does from LoadValidators).

type srcHeight struct {
	block   *types.Block
	blockID types.BlockID
	commit  *types.Commit // for this height
	vals    *types.ValidatorSet
	batch   []ref.RChange
}

// ssServer is one in-process JSON-RPC server.  It lives for the whole stage and
// serves the chain of whatever case currently holds it.
type ssServer struct {
	mu    sync.RWMutex
	chain map[int64]*srcHeight
	tip   int64
	ln    net.Listener
	addr  string
}

func (s *ssServer) serve(chain map[int64]*srcHeight, tip int64) {
	s.mu.Lock()
	s.chain, s.tip = chain, tip
	s.mu.Unlock()
}

// ssPair is what one case needs: a primary and a witness.
type ssPair [2]*ssServer

// ssPool holds the servers of the stage: one pair per concurrent case.  They
// listen on unix sockets under a scratch directory, so no TCP port is used.
type ssPool struct {
	dir   string
	pairs chan *ssPair
	all   []*ssServer
}

func newSSPool(n int) (*ssPool, error) {
	p := &ssPool{dir: verdict.TmpDir("c08ss-"), pairs: make(chan *ssPair, n)}
	for i := 0; i < n; i++ {
		pair := &ssPair{}
		for j := range pair {
			s := &ssServer{}
			if err := s.start(fmt.Sprintf("unix://%s/s%d-%d.sock", p.dir, i, j)); err != nil {
				p.close()
				return nil, err
			}
			p.all = append(p.all, s)
			pair[j] = s
		}
		p.pairs <- pair
	}
	return p, nil
}

func (p *ssPool) close() {
	for _, s := range p.all {
		_ = s.ln.Close()
	}
	_ = os.RemoveAll(p.dir)
}

// the pool of the running stage (set by Run)
var ssServers *ssPool

// transportFailure tells whether an error of the state provider comes from the
// plumbing between it and the in-process servers rather than from the provider
// refusing what honest servers said.
func transportFailure(err error) bool {
	if err == nil {
		return false
	}
	m := strings.ToLower(err.Error())
	for _, s := range []string{"connection refused", "connection reset", "cannot assign requested address", "too many open files", "timeout", "timed out",
		"deadline exceeded", "broken pipe", "eof", "no such file", "use of closed network connection", "client failed to respond", "no witnesses connected",
		"post failed", "socket", "dial "} {
		if strings.Contains(m, s) {
			return true
		}
	}
	return false
}

func (s *ssServer) at(p *int64) (*srcHeight, int64, error) {
	s.mu.RLock()
	defer s.mu.RUnlock()
	h := s.tip
	if p != nil {
		h = *p
	}
	if h <= 0 {
		return nil, 0, fmt.Errorf("height must be greater than 0, but got %d", h)
	}
	if h > s.tip {
		return nil, 0, fmt.Errorf("height %d must be less than or equal to the current blockchain height %d", h, s.tip)
	}
	sh, ok := s.chain[h]
	if !ok {
		return nil, 0, fmt.Errorf("height %d is not available", h)
	}
	return sh, h, nil
}

func (s *ssServer) commit(_ *rpctypes.Context, heightPtr *int64) (*ctypes.ResultCommit, error) {
	sh, _, err := s.at(heightPtr)
	if err != nil {
		return nil, err
	}
	hdr := sh.block.Header
	return &ctypes.ResultCommit{SignedHeader: types.SignedHeader{Header: &hdr, Commit: sh.commit}, CanonicalCommit: true}, nil
}

func (s *ssServer) validators(_ *rpctypes.Context, heightPtr *int64, pagePtr, perPagePtr *int) (*ctypes.ResultValidators, error) {
	sh, h, err := s.at(heightPtr)
	if err != nil {
		return nil, err
	}
	all := sh.vals.Copy().Validators
	perPage, page := 30, 1
	if perPagePtr != nil && *perPagePtr > 0 {
		perPage = *perPagePtr
	}
	if perPage > 100 {
		perPage = 100
	}
	if pagePtr != nil && *pagePtr > 0 {
		page = *pagePtr
	}
	lo := (page - 1) * perPage
	if lo > len(all) {
		lo = len(all)
	}
	hi := lo + perPage
	if hi > len(all) {
		hi = len(all)
	}
	return &ctypes.ResultValidators{BlockHeight: h, Validators: all[lo:hi], Count: hi - lo, Total: len(all)}, nil
}

func (s *ssServer) params(_ *rpctypes.Context, heightPtr *int64) (*ctypes.ResultConsensusParams, error) {
	_, h, err := s.at(heightPtr)
	if err != nil {
		return nil, err
	}
	return &ctypes.ResultConsensusParams{BlockHeight: h, ConsensusParams: *types.DefaultConsensusParams()}, nil
}

func (s *ssServer) start(addr string) error {
	routes := map[string]*rpcserver.RPCFunc{
		"commit":           rpcserver.NewRPCFunc(s.commit, "height"),
		"validators":       rpcserver.NewRPCFunc(s.validators, "height,page,per_page"),
		"consensus_params": rpcserver.NewRPCFunc(s.params, "height"),
	}
	mux := http.NewServeMux()
	rpcserver.RegisterRPCFuncs(mux, routes, log.NewNopLogger())
	cfg := rpcserver.DefaultConfig()
	ln, err := rpcserver.Listen(addr, cfg)
	if err != nil {
		return err
	}
	s.ln = ln
	s.addr = addr
	go func() { _ = rpcserver.Serve(ln, mux, log.NewNopLogger(), cfg) }()
	return nil
}

// bootDiff compares one of the three sets of the bootstrapped state with the set
// in force.  It reports and returns false when the case must end.
func (h *history) bootDiff(what string, height int64, got *types.ValidatorSet, want ssnap) bool {
	g := snap(got)
	if diffSnap(g, want) == "" {
		return true
	}
	w := h.witness(map[string]interface{}{"which": what, "height": height, "got": jsnap(g), "in_force": jsnap(want)})
	if onlyProposerDiffers(g, want) && proposerIsLowestPriority(g) {
		h.stats.bootProp++
		h.c.Violation(keyBootProposer, fmt.Sprintf("%s of the state-synced node (set of height %d): members, powers and priorities are those in force, the proposer is %X instead of %X",
			what, height, g.Proposer, want.Proposer), w)
		return true
	}
	h.c.Violation("statesync-bootstrap-state-differs-from-reference", fmt.Sprintf("%s of the state-synced node is not the set in force at %d: %s", what, height, diffSnap(g, want)), w)
	return false
}

func ssCase(c *verdict.Ctx, idx int) {
	r := c.Rand("statesync", idx)
	c.Eval()
	// ---- the source node and the chain
	src := &history{c: c, idx: idx, r: r, truth: map[int64]ssnap{}, family: "statesync", extra: map[string]interface{}{}}
	src.pool = keyPool(r, 6+r.Intn(6))
	src.pm = poolMap(src.pool)
	src.gen = genInitial(r, src.pool, 4)
	pre := 4 + r.Intn(30) // heights before the snapshot height
	if r.Intn(5) == 0 {
		pre = 40 + r.Intn(120)
	}
	K := 6 + r.Intn(7) // heights applied after the bootstrap
	var H int64
	var initClass string
	switch x := r.Intn(6); {
	case x < 2:
		src.init, initClass = 1, "1"
	case x < 3:
		src.init, initClass = 2+r.Int63n(90000), ">1"
	default: // the snapshot height sits next to a validator-set checkpoint
		H = checkpointInterval*int64(1+r.Intn(3)) + int64(r.Intn(8)) - 5
		src.init, initClass = H-int64(pre), "snapshot-at-checkpoint"
	}
	H = src.init + int64(pre)
	L := pre + K + 1 // source chain: blocks init .. H+K
	src.extra["snapshot_height"] = H

	gvals := make([]types.GenesisValidator, len(src.gen))
	for i, ch := range src.gen {
		gvals[i] = types.GenesisValidator{PubKey: src.pm[string(ch.Address)].pub, Power: ch.Power, Name: fmt.Sprint(i)}
	}
	genDoc := &types.GenesisDoc{ChainID: chainID, GenesisTime: genesisTime, InitialHeight: src.init, Validators: gvals, ConsensusParams: types.DefaultConsensusParams()}
	st, err := sm.MakeGenesisState(genDoc)
	if err != nil {
		c.HarnessError("C08: MakeGenesisState: %v", err)
		return
	}
	src.state = st
	src.store = sm.NewStore(dbm.NewMemDB(), sm.StoreOptions{})
	if err := src.store.Save(st); err != nil {
		c.HarnessError("C08: Save(genesis): %v", err)
		return
	}
	src.app = &scriptApp{}
	conns := proxy.NewAppConns(proxy.NewLocalClientCreator(src.app))
	conns.SetLogger(log.NewNopLogger())
	if err := conns.Start(); err != nil {
		c.HarnessError("C08: app conns: %v", err)
		return
	}
	defer conns.Stop() //nolint:errcheck
	src.exec = sm.NewBlockExecutor(src.store, log.NewNopLogger(), conns.Consensus(), mmock.Mempool{}, sm.EmptyEvidencePool{})

	refVals, rerr := (&ref.RSet{Proposer: -1}).ApplyUpdates(src.gen)
	if rerr != nil {
		c.HarnessError("C08: reference rejects genesis members: %v", rerr)
		return
	}
	refVals = refVals.IncrementOnce()
	refNext := refVals.IncrementOnce()
	refAt := map[int64]*ref.RSet{src.init: refVals, src.init + 1: refNext}
	src.truth[src.init] = snap(st.Validators)
	src.truth[src.init+1] = snap(st.NextValidators)
	chain := map[int64]*srcHeight{}
	sets := map[int64]*types.ValidatorSet{src.init: st.Validators.Copy(), src.init + 1: st.NextValidators.Copy()}

	lastCommit := types.NewCommit(0, 0, types.BlockID{}, nil)
	quiet := 0
	var updatesNearH int
	for step := 0; step < L; step++ {
		height := src.init + int64(step)
		var batch []ref.RChange
		want, _ := refNext.ApplyUpdates(nil)
		wantUpdate := false
		switch {
		case height >= H-2 && height <= H+1: // these take effect at H .. H+3
			wantUpdate = r.Intn(10) < 8
			quiet = 0
		case quiet > 0:
			quiet--
		case r.Intn(12) == 0:
			quiet = 5 + r.Intn(40)
		default:
			wantUpdate = r.Intn(10) < 3
		}
		if wantUpdate {
			for try := 0; try < 8; try++ {
				b, _ := genBatch(r, src.pool, refNext, false)
				if len(b) == 0 {
					continue
				}
				if wnt, werr := refNext.ApplyUpdates(b); werr == nil {
					batch, want = b, wnt
					break
				}
			}
		}
		prev := src.state
		block, parts := prev.MakeBlock(height, nil, lastCommit, nil, prev.Validators.GetProposer().Address)
		blockID := types.BlockID{Hash: block.Hash(), PartSetHeader: parts.Header()}
		src.app.mu.Lock()
		src.app.next = toABCI(src.pm, batch)
		src.app.mu.Unlock()
		if len(batch) > 0 {
			src.events = append(src.events, histEvent{Height: height, Batch: jbatch(batch)})
			if height >= H-2 && height <= H+1 {
				updatesNearH++
			}
		}
		var ns sm.State
		aerr, pan := safely(func() error {
			var e error
			ns, _, e = src.exec.ApplyBlock(prev, blockID, block)
			return e
		})
		if pan != nil || aerr != nil {
			c.HarnessError("C08: statesync case %d: the source node failed at height %d: %v %v", idx, height, aerr, pan)
			return
		}
		src.state = ns
		newNext := want.IncrementOnce()
		if k, d := diffRef(snap(ns.NextValidators), newNext); k != "" {
			key := "update-" + k + "-differ"
			if len(batch) == 0 {
				key = "rotation-" + k + "-differ"
			}
			c.Violation(key, fmt.Sprintf("source node: NextValidators after block %d differ from the reference: %s", height, d), src.witness(nil))
			return
		}
		refNext = newNext
		refAt[height+2] = newNext
		src.truth[height+1] = snap(ns.Validators)
		src.truth[height+2] = snap(ns.NextValidators)
		sets[height+2] = ns.NextValidators.Copy()
		lastCommit = src.signCommit(height, blockID, ns.LastValidators)
		chain[height] = &srcHeight{block: block, blockID: blockID, commit: lastCommit, vals: sets[height], batch: batch}
	}
	tip := src.state.LastBlockHeight // = H+K

	// ---- two honest RPC servers (taken from the stage's pool) and the real state provider
	if ssServers == nil {
		c.HarnessError("C08: statesync stage without servers")
		return
	}
	pair := <-ssServers.pairs
	defer func() {
		pair[0].serve(nil, 0)
		pair[1].serve(nil, 0)
		ssServers.pairs <- pair
	}()
	pair[0].serve(chain, tip)
	pair[1].serve(chain, tip)
	addrs := []string{pair[0].addr, pair[1].addr}
	trustH := src.init + r.Int63n(int64(pre)+1)
	src.extra["trust_height"] = trustH
	// the syncer's order of calls: AppHash when the snapshot is offered, then State and Commit
	var boot sm.State
	var seen *types.Commit
	var perr error
	var pan interface{}
	var ctxErr error
	for attempt := 0; attempt < 3; attempt++ { // a transport hiccup is retried; it never decides anything
		ctx, cancel := context.WithTimeout(context.Background(), 120*time.Second)
		perr, pan = safely(func() error {
			sp, e := statesync.NewLightClientStateProvider(ctx, chainID, sm.InitStateVersion, src.init, addrs,
				light.TrustOptions{Period: 100 * 365 * 24 * time.Hour, Height: trustH, Hash: chain[trustH].block.Hash()}, log.NewNopLogger())
			if e != nil {
				return e
			}
			if _, e = sp.AppHash(ctx, uint64(H)); e != nil {
				return e
			}
			if boot, e = sp.State(ctx, uint64(H)); e != nil {
				return e
			}
			seen, e = sp.Commit(ctx, uint64(H))
			return e
		})
		ctxErr = ctx.Err()
		cancel()
		if pan != nil || perr == nil || !(ctxErr != nil || transportFailure(perr)) {
			break
		}
		c.Count("statesync.transport_retries", 1)
	}
	if perr != nil || pan != nil {
		if pan == nil && (ctxErr != nil || transportFailure(perr)) {
			c.Inconclusive("statesync stage: transport failure or watchdog between the state provider and the in-process rpc servers")
			return
		}
		c.Violation("statesync-bootstrap-state-provider-fails", fmt.Sprintf("the state provider failed for snapshot height %d against honest servers: %v %v", H, perr, pan), src.witness(nil))
		return
	}
	_ = seen

	// ---- the state-synced node
	n := &history{c: c, idx: idx, r: r, pool: src.pool, pm: src.pm, truth: src.truth, family: "statesync", extra: src.extra,
		init: src.init, gen: src.gen, events: src.events, boot: map[int64]bool{H: true, H + 1: true, H + 2: true}}
	n.base = H
	n.stored = []int64{H, H + 1, H + 2}
	for _, e := range src.events {
		if len(e.Batch) > 0 && e.Height+2 > H+2 {
			n.stored = append(n.stored, e.Height+2)
		}
	}
	n.state = boot
	if boot.LastBlockHeight != H || boot.InitialHeight != src.init {
		c.Violation("statesync-bootstrap-state-differs-from-reference", fmt.Sprintf("State(%d): LastBlockHeight %d, InitialHeight %d", H, boot.LastBlockHeight, boot.InitialHeight), n.witness(nil))
		return
	}
	if !n.bootDiff("LastValidators", H, boot.LastValidators, src.truth[H]) || !n.bootDiff("Validators", H+1, boot.Validators, src.truth[H+1]) ||
		!n.bootDiff("NextValidators", H+2, boot.NextValidators, src.truth[H+2]) {
		return
	}
	n.store = sm.NewStore(dbm.NewMemDB(), sm.StoreOptions{DiscardABCIResponses: r.Intn(2) == 0})
	if berr, pan := safely(func() error { return n.store.Bootstrap(boot) }); berr != nil || pan != nil {
		c.Violation("statesync-bootstrap-loadvalidators-fails", fmt.Sprintf("Bootstrap failed: %v %v", berr, pan), n.witness(nil))
		return
	}
	if re, err := n.store.Load(); err != nil || re.LastBlockHeight != H || diffSnap(snap(re.Validators), snap(boot.Validators)) != "" ||
		diffSnap(snap(re.NextValidators), snap(boot.NextValidators)) != "" {
		c.Violation("statesync-bootstrap-loadvalidators-differs-from-in-force", fmt.Sprintf("the state reloaded after Bootstrap is not the bootstrapped one: %v", err), n.witness(nil))
		return
	}
	// retained heights are H .. LastBlockHeight+2
	if !n.sweep("after Bootstrap", 0) {
		return
	}
	if !n.checkRounds(H+1, boot.Validators, refAt[H+1]) {
		return
	}
	n.app = &scriptApp{}
	nconns := proxy.NewAppConns(proxy.NewLocalClientCreator(n.app))
	nconns.SetLogger(log.NewNopLogger())
	if err := nconns.Start(); err != nil {
		c.HarnessError("C08: app conns: %v", err)
		return
	}
	defer nconns.Stop() //nolint:errcheck
	n.exec = sm.NewBlockExecutor(n.store, log.NewNopLogger(), nconns.Consensus(), mmock.Mempool{}, sm.EmptyEvidencePool{})
	for height := H + 1; height <= tip; height++ {
		sh := chain[height]
		n.app.mu.Lock()
		n.app.next = toABCI(n.pm, sh.batch)
		n.app.mu.Unlock()
		if len(sh.batch) > 0 {
			n.stats.changes++
		}
		prev := n.state
		var ns sm.State
		aerr, pan := safely(func() error {
			var e error
			ns, _, e = n.exec.ApplyBlock(prev, sh.blockID, sh.block)
			return e
		})
		if pan != nil || aerr != nil {
			c.Violation("statesync-bootstrap-applyblock-fails", fmt.Sprintf("the state-synced node could not apply the chain's block %d: %v %v", height, aerr, pan), n.witness(map[string]interface{}{"height": height}))
			return
		}
		n.state = ns
		n.stats.heights++
		if !n.bootDiff("LastValidators", height, ns.LastValidators, src.truth[height]) || !n.bootDiff("Validators", height+1, ns.Validators, src.truth[height+1]) {
			return
		}
		// NextValidators has been through a rotation in this node: everything, proposer included, must be right
		if k, d := diffRef(snap(ns.NextValidators), refAt[height+2]); k != "" {
			c.Violation("statesync-bootstrap-state-differs-from-reference", fmt.Sprintf("NextValidators of the state-synced node after block %d (in force at %d) differ from the reference (%s): %s", height, height+2, k, d),
				n.witness(map[string]interface{}{"implementation": jsnap(snap(ns.NextValidators)), "reference": jref(refAt[height+2])}))
			return
		}
		if height > H+1 { // what BeginBlock was told about the signers of the previous block
			n.app.mu.Lock()
			votes := n.app.lastVotes
			n.app.mu.Unlock()
			tv := src.truth[height-1]
			bad := len(votes) != len(tv.Vals)
			for i := 0; !bad && i < len(votes); i++ {
				bad = !bytes.Equal(votes[i].Validator.Address, tv.Vals[i].Addr) || votes[i].Validator.Power != tv.Vals[i].Pow
			}
			if bad {
				c.Violation("statesync-bootstrap-loadvalidators-differs-from-in-force", fmt.Sprintf("BeginBlock(%d) reported signers that are not the set in force at %d", height, height-1),
					n.witness(map[string]interface{}{"expected": jsnap(tv)}))
				return
			}
		}
		if !n.checkRounds(height+1, ns.Validators, refAt[height+1]) {
			return
		}
		if !n.sweep(fmt.Sprintf("at tip %d", height), 0) {
			return
		}
	}
	if r.Intn(2) == 0 && tip > n.base+1 {
		to := n.base + 1 + r.Int63n(tip-n.base)
		if !n.prune(to) || !n.sweep(fmt.Sprintf("after PruneStates(to=%d)", to), 0) {
			return
		}
	}
	c.Count("statesync.initial_height."+initClass, 1)
	c.Count("statesync.bootstraps", 1)
	c.Count(fmt.Sprintf("statesync.updates_in_blocks_H-2_to_H+1=%d", updatesNearH), 1)
	if diffMembers(src.truth[H], src.truth[H+1]) != "" && diffMembers(src.truth[H+1], src.truth[H+2]) != "" && diffMembers(src.truth[H], src.truth[H+2]) != "" {
		c.Count("statesync.sets_at_H_H+1_H+2_pairwise_different", 1)
	}
	c.Count("statesync.heights_applied_after_bootstrap", n.stats.heights)
	c.Count("statesync.validator_updates_applied_after_bootstrap", n.stats.changes)
	c.Count("statesync.lookups_compared", n.stats.lookups)
	c.Count("statesync.lookups_reconstructed_by_2_or_more_rounds", n.stats.reconstructed)
	c.Count("statesync.round_proposers_compared", n.stats.rounds)
	c.Count("statesync.prunes", n.stats.prunes)
	c.Count("statesync.comparisons_hitting_lowest_priority_proposer", n.stats.bootProp)
	if n.stats.bootProp > 0 {
		c.Count("statesync.bootstraps_with_another_proposer_than_in_force", 1)
	}
	c.Count("statesync.lookups_differing_in_priorities", n.stats.s15)
	c.Distinct("statesync", idx, src.init, H, K)
	if c.WantSample() && idx%37 == 0 {
		c.Sample(map[string]interface{}{"stream": "statesync", "case": idx, "initial_height": src.init, "snapshot_height": H, "trust_height": trustH,
			"heights_after_bootstrap": K, "events": src.events, "lookups_compared": n.stats.lookups})
	}
}
