package c08

import (
	"fmt"
	"math/rand"

	"github.com/tendermint/tendermint/types"

	"verif/ref"
	"verif/verdict"
)

// Oracle (i): a batch either fails and leaves the set untouched, or yields the
// set the reference computes, whatever the order of the batch.

func safely(f func() error) (err error, panicked interface{}) {
	defer func() {
		if rec := recover(); rec != nil {
			panicked = rec
		}
	}()
	return f(), nil
}

// permutations returns all orderings of 0..n-1 for n <= 5, otherwise 20 seeded ones
// (the identity is always first).
func permutations(r *rand.Rand, n int) [][]int {
	id := make([]int, n)
	for i := range id {
		id[i] = i
	}
	if n <= 1 {
		return [][]int{id}
	}
	if n > 5 {
		out := [][]int{id}
		rev := make([]int, n)
		for i := range rev {
			rev[i] = n - 1 - i
		}
		out = append(out, rev)
		for len(out) < 20 {
			out = append(out, r.Perm(n))
		}
		return out
	}
	var out [][]int
	var rec func(p []int, k int)
	rec = func(p []int, k int) {
		if k == n {
			out = append(out, append([]int{}, p...))
			return
		}
		for i := k; i < n; i++ {
			p[k], p[i] = p[i], p[k]
			rec(p, k+1)
			p[k], p[i] = p[i], p[k]
		}
	}
	rec(append([]int{}, id...), 0)
	return out
}

type batchStep struct {
	Kind  string    `json:"kind"` // "batch" | "rounds"
	Batch []jchange `json:"batch,omitempty"`
	K     int32     `json:"rounds,omitempty"`
}

// newImplSet builds the implementation's set and the reference's from the same members.
func newImplSet(pm map[string]ident, members []ref.RChange) (*types.ValidatorSet, *ref.RSet, error) {
	var vs *types.ValidatorSet
	err, p := safely(func() error { vs = types.NewValidatorSet(toImpl(pm, members)); return nil })
	if p != nil {
		return nil, nil, fmt.Errorf("NewValidatorSet panicked: %v", p)
	}
	if err != nil {
		return nil, nil, err
	}
	rs, rerr := (&ref.RSet{Proposer: -1}).ApplyUpdates(members)
	if rerr != nil {
		return nil, nil, fmt.Errorf("reference rejects the initial members: %v", rerr)
	}
	return vs, rs.IncrementOnce(), nil
}

func batchCase(c *verdict.Ctx, idx int) {
	r := c.Rand("batch", idx)
	poolN := 6 + r.Intn(18)
	maxN := 8
	if r.Intn(8) == 0 {
		poolN, maxN = 60+r.Intn(30), 60
	}
	pool := synthPool(r, poolN)
	pm := poolMap(pool)
	members := genInitial(r, pool, maxN)
	var steps []batchStep
	wit := func(extra map[string]interface{}) map[string]interface{} {
		w := map[string]interface{}{"stream": "batch", "case": idx, "initial_members": jbatch(members), "steps": steps}
		for k, v := range extra {
			w[k] = v
		}
		return w
	}
	vs, rs, err := newImplSet(pm, members)
	if err != nil {
		c.Violation("newvalidatorset-fails", "NewValidatorSet failed on valid members: "+err.Error(), wit(nil))
		return
	}
	if k, d := diffRef(snap(vs), rs); k != "" {
		c.Violation("newvalidatorset-"+k+"-differ", "fresh set differs from the reference: "+d,
			wit(map[string]interface{}{"implementation": jsnap(snap(vs)), "reference": jref(rs)}))
		return
	}
	nSteps := 6 + r.Intn(14)
	for s := 0; s < nSteps; s++ {
		if r.Intn(4) == 0 { // rotate a little so that the priorities in front of the next batch vary
			k := int32(1 + r.Intn(40))
			steps = append(steps, batchStep{Kind: "rounds", K: k})
			for i := int32(0); i < k; i++ {
				vs.IncrementProposerPriority(1)
				rs = rs.IncrementOnce()
			}
			if kd, d := diffRef(snap(vs), rs); kd != "" {
				c.Violation("rotation-"+kd+"-differ", "after single rounds the set differs from the reference: "+d,
					wit(map[string]interface{}{"implementation": jsnap(snap(vs)), "reference": jref(rs)}))
				return
			}
			continue
		}
		batch, class := genBatch(r, pool, rs, true)
		steps = append(steps, batchStep{Kind: "batch", Batch: jbatch(batch)})
		c.Eval()
		want, werr := rs.ApplyUpdates(batch)
		before := snap(vs)
		verdictName := "accept"
		if werr != nil {
			verdictName = "reject"
		}
		c.Count("batch.class."+class+"."+verdictName, 1)
		if len(batch) > 0 {
			c.Distinct("batch", idx, s)
		}

		var first ssnap
		var firstErr error
		perms := permutations(r, len(batch))
		c.Count("batch.permutations_applied", int64(len(perms)))
		for pi, perm := range perms {
			pb := make([]ref.RChange, len(batch))
			for i, j := range perm {
				pb[i] = batch[j]
			}
			target := vs.Copy()
			var perr error
			var pan interface{}
			changes := toImpl(pm, pb)
			perr, pan = safely(func() error { return target.UpdateWithChangeSet(changes) })
			w := func() map[string]interface{} {
				return wit(map[string]interface{}{"order": perm, "set_before": jsnap(before), "implementation_after": jsnap(snap(target)),
					"implementation_error": fmt.Sprint(perr), "reference_error": fmt.Sprint(werr), "reference_after": jref(want)})
			}
			if pan != nil {
				c.Violation("update-panics", fmt.Sprintf("UpdateWithChangeSet panicked: %v", pan), w())
				return
			}
			after := snap(target)
			if perr != nil {
				if d := diffSnap(before, after); d != "" {
					c.Violation("failed-update-mutates-set", "UpdateWithChangeSet returned an error but changed the set: "+d, w())
					return
				}
			}
			if (perr != nil) != (werr != nil) {
				if perr == nil {
					c.Violation("update-accepts-invalid-batch", "UpdateWithChangeSet accepted a batch that must fail: "+werr.Error(), w())
				} else {
					c.Violation("update-rejects-valid-batch", "UpdateWithChangeSet rejected a valid batch: "+perr.Error(), w())
				}
				return
			}
			if pi == 0 {
				first, firstErr = after, perr
				if perr == nil {
					if d := invariants(target); d != "" {
						c.Violation("update-breaks-invariant", "set after a successful batch: "+d, w())
						return
					}
					if kd, d := diffRef(after, want); kd != "" {
						c.Violation("update-"+kd+"-differ", "set after a successful batch differs from the reference: "+d, w())
						return
					}
				}
				continue
			}
			if d := diffSnap(first, after); d != "" {
				c.Violation("update-depends-on-batch-order", "the same batch in another order gives another set: "+d,
					wit(map[string]interface{}{"order": perm, "set_before": jsnap(before), "result_in_given_order": jsnap(first), "result_in_this_order": jsnap(after)}))
				return
			}
		}
		// finally on the live set itself
		lerr, lpan := safely(func() error { return vs.UpdateWithChangeSet(toImpl(pm, batch)) })
		if lpan != nil {
			c.Violation("update-panics", fmt.Sprintf("UpdateWithChangeSet panicked: %v", lpan), wit(map[string]interface{}{"set_before": jsnap(before)}))
			return
		}
		if (lerr != nil) != (firstErr != nil) || diffSnap(first, snap(vs)) != "" {
			c.Violation("update-not-deterministic", "two copies of one set given the same batch disagree: "+diffSnap(first, snap(vs)),
				wit(map[string]interface{}{"set_before": jsnap(before), "copy_after": jsnap(first), "original_after": jsnap(snap(vs))}))
			return
		}
		if werr == nil {
			rs = want
			c.Count("batch.applied", 1)
			if pick := r.Intn(40) == 0; pick && len(batch) > 2 && c.WantSample() {
				c.Sample(map[string]interface{}{"stream": "batch", "case": idx, "set_before": jsnap(before), "batch": jbatch(batch), "set_after": jsnap(first), "orderings_tried": len(perms)})
			}
		} else {
			c.Count("batch.rejected", 1)
			if pick := r.Intn(100) == 0; pick && c.WantSample() {
				c.Sample(map[string]interface{}{"stream": "batch", "case": idx, "set_before": jsnap(before), "batch": jbatch(batch), "rejected_because": werr.Error()})
			}
		}
		// the stale Proposer pointer after a batch is not part of the statement; a round follows in the node
		if r.Intn(2) == 0 {
			steps = append(steps, batchStep{Kind: "rounds", K: 1})
			vs.IncrementProposerPriority(1)
			rs = rs.IncrementOnce()
			if kd, d := diffRef(snap(vs), rs); kd != "" {
				c.Violation("rotation-"+kd+"-differ", "after one round the set differs from the reference: "+d,
					wit(map[string]interface{}{"implementation": jsnap(snap(vs)), "reference": jref(rs)}))
				return
			}
		}
	}
}
