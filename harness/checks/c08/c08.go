// Package c08: validator-set updates, proposer rotation and historical lookup
// (DESIGN.md section 3, C08).
//
// Three monitors run the real code and compare with ref/valset.go:
//
//	batch    types.ValidatorSet.UpdateWithChangeSet on generated batches, in every
//	         order: fails-and-untouched or exactly the reference's set.
//	sched    IncrementProposerPriority round by round against the reference
//	         algorithm (proposer and every priority), k-step against k single
//	         steps, proportionality of turns, exact priorities within int64.
//	history  chains driven through BlockExecutor.ApplyBlock and the real state
//	         store; LoadValidators(h) against the recorded live sets, with and
//	         without PruneStates, around validator-set checkpoints.
package c08

import (
	"fmt"
	"os"
	"runtime"
	"sync"
	"sync/atomic"
	"time"

	"github.com/tendermint/tendermint/types"

	"verif/ref"
	"verif/verdict"
)

func workers() int {
	w := runtime.NumCPU()
	if w > 16 {
		w = 16
	}
	if w < 1 {
		w = 1
	}
	return w
}

func parallel(n int, f func(i int)) {
	workers := workers()
	var next int64 = -1
	var wg sync.WaitGroup
	for w := 0; w < workers; w++ {
		wg.Add(1)
		go func() {
			defer wg.Done()
			for {
				i := int(atomic.AddInt64(&next, 1))
				if i >= n {
					return
				}
				f(i)
			}
		}()
	}
	wg.Wait()
}

func guarded(c *verdict.Ctx, stream string, f func(*verdict.Ctx, int)) func(int) {
	return func(i int) {
		defer func() {
			if rec := recover(); rec != nil {
				buf := make([]byte, 4096)
				buf = buf[:runtime.Stack(buf, false)]
				c.HarnessError("C08: harness panic in %s case %d: %v\n%s", stream, i, rec, buf)
			}
		}()
		f(c, i)
	}
}

func Run(c *verdict.Ctx) int {
	c.Level = "exploration"
	c.Rule = "batch: one non-empty generated batch applied (in all / 20 orderings) to a set whose priorities come from earlier batches and rounds, distinct by (case, step); " +
		"sched: one stretch of >= 20 rounds of a set with >= 2 members compared round by round, distinct by (case, segment); " +
		"history: one chain run through ApplyBlock + state store in which >= 1 validator change took effect and >= 1 LoadValidators answer that the store had to reconstruct by >= 2 rounds was compared, distinct by (case, initial height, length); " +
		"initchain: one chain whose first validator set was adopted by the real Handshaker from the application's InitChain answer (or, for the empty answer, kept from the genesis file), driven 8-15 heights with >= 1 validator update, every height's set, round 1..3 proposers and LoadValidators answer compared, distinct by (case, answer mode, initial height, length); " +
		"statesync: one node whose state was built by the real light-client state provider State(H) from two honest in-process RPC servers, stored with Bootstrap and driven 6-12 further heights of the chain, every LoadValidators answer in [H, tip+2] compared after every block, distinct by (case, initial height, H, heights after)"
	c.Assume(
		"reference ref/valset.go: rounding choices the spec text leaves open are fixed as: scale divisor = ceil(spread/2T), scaled priorities truncated toward zero, average rounded toward minus infinity; a new member enters at -(P + floor(P/8)) with P = total after the batch's additions and power changes and before its removals",
		"limit on the total power = MaxInt64/8 (spec: 'Validator Power Overflow Conditions')",
		"proportionality bound: in a window of rounds without changes during which the reference never rescales, |turns_i - m*p_i/T| <= 4 + n/T; this follows from centred priorities staying inside a window of 2T (DESIGN's +-3 is not implied by the algorithm); the bound is asserted on the reference's own elections too, and the worst windows seen (with and without rescaling) are reported as measurements",
		"initchain: the Handshaker runs against an empty MemDB block store and state store with the state LoadFromDBOrGenesisDoc returns, as node.NewNode does; the application answers Info with height 0",
		"statesync: the RPC servers (rpc/jsonrpc/server, routes commit / validators / consensus_params) are honest and answer /validators with the sets in force in canonical order with their priorities; the light client runs on the real clock with a 100-year trusting period over block times in 2020; a 120 s watchdog yields inconclusive",
		"history: commits are signed with harness-held ed25519 keys; block time = median of scripted vote times; MemDB state store; the recorded truth is state.Validators / state.NextValidators of the live run",
	)
	if ref.MaxTotalPower != types.MaxTotalVotingPower {
		c.HarnessError("C08: the limit on the total power differs from the implementation's constant")
		return c.Finish(1)
	}

	if rp := c.Replay(); rp != "" {
		var w struct {
			Stream string `json:"stream"`
			Case   int    `json:"case"`
		}
		if err := verdict.LoadReplay(rp, &w); err != nil {
			fmt.Fprintln(os.Stderr, "cannot read replay file:", err)
			return 2
		}
		switch w.Stream {
		case "batch":
			guarded(c, "batch", batchCase)(w.Case)
		case "sched-fixed":
			fixedKStep(c)
		case "sched":
			guarded(c, "sched", schedCase)(w.Case)
		case "history":
			guarded(c, "history", histCase)(w.Case)
		case "initchain":
			guarded(c, "initchain", initCase)(w.Case)
		case "statesync":
			pool, err := newSSPool(1)
			if err != nil {
				fmt.Fprintln(os.Stderr, "cannot start rpc servers:", err)
				return 2
			}
			ssServers = pool
			guarded(c, "statesync", ssCase)(w.Case)
			pool.close()
		default:
			fmt.Fprintln(os.Stderr, "unknown stream in replay file:", w.Stream)
			return 2
		}
		return c.Finish(0)
	}

	t0 := time.Now()
	lap := func(name string) {
		c.Set("wall_s_"+name, time.Since(t0).Seconds()) // measurement only, decides nothing
		t0 = time.Now()
	}
	parallel(c.N(1500, 60000), guarded(c, "batch", batchCase))
	lap("batch")
	fixedKStep(c)
	parallel(c.N(1000, 20000), guarded(c, "sched", schedCase))
	lap("sched")
	parallel(c.N(300, 20000), guarded(c, "history", histCase))
	lap("history")
	parallel(c.N(1000, 20000), guarded(c, "initchain", initCase))
	lap("initchain")
	if pool, err := newSSPool(workers()); err != nil {
		c.HarnessError("C08: cannot start the in-process rpc servers of the statesync stage: %v", err)
	} else {
		ssServers = pool
		parallel(c.N(300, 4000), guarded(c, "statesync", ssCase))
		pool.close()
		ssServers = nil
	}
	lap("statesync")

	if c.Violations() == 0 && (c.Counter("history.lookups_reconstructed_by_2_or_more_rounds") == 0 || c.Counter("history.prunes") == 0 ||
		c.Counter("history.heights_next_to_checkpoint") == 0 || c.Counter("sched.rounds_compared") == 0 || c.Counter("batch.applied") == 0 ||
		c.Counter("initchain.lookups_compared") == 0 || c.Counter("initchain.validator_updates_applied") == 0 || c.Counter("initchain.mode.fresh") == 0 ||
		c.Counter("statesync.lookups_compared") == 0 || c.Counter("statesync.sets_at_H_H+1_H+2_pairwise_different") == 0) {
		c.HarnessError("C08: a monitor observed nothing (reconstructed lookups / prunes / checkpoint crossings / rounds / batches)")
	}
	return c.Finish(c.N(2000, 100000))
}
