package c08

import (
	"bytes"
	"fmt"

	dbm "github.com/tendermint/tm-db"

	"github.com/tendermint/tendermint/consensus"
	"github.com/tendermint/tendermint/libs/log"
	mmock "github.com/tendermint/tendermint/mempool/mock"
	"github.com/tendermint/tendermint/proxy"
	sm "github.com/tendermint/tendermint/state"
	"github.com/tendermint/tendermint/store"
	"github.com/tendermint/tendermint/types"

	"verif/ref"
	"verif/verdict"
)

// Family "initchain": the chain's first validator set is not the genesis
// file's but the one the application answers InitChain with.  It is adopted by
// the real consensus.Handshaker (ReplayBlocks), a second place next to
// sm.MakeGenesisState that builds the initial Validators / NextValidators pair.
// The rotation and lookup clauses must hold from the first heights there too:
// the set in force at the initial height is the fresh set of the initial
// members, the next one that set rotated once, and so on exactly as the
// reference prescribes; LoadValidators(h) returns the set in force at h.

// checkRounds compares, for the set in force at one height, the proposers (and
// sets) of rounds 1..3 with the reference: stepping round by round as a node
// that enters every round does, and in one call as a node that skips does.
// It returns false after a violation that ends the case.
func (h *history) checkRounds(height int64, vals *types.ValidatorSet, rv *ref.RSet) bool {
	step := vals.Copy()
	cur := rv
	from := snap(vals)
	for round := int32(1); round <= 3; round++ {
		step.IncrementProposerPriority(1)
		cur = cur.IncrementOnce()
		h.stats.rounds++
		if k, d := diffRef(snap(step), cur); k != "" {
			h.c.Violation(h.rotKey(), fmt.Sprintf("height %d round %d: the set differs from the reference rotation: %s", height, round, d),
				h.witness(map[string]interface{}{"height": height, "round": round, "set_at_round_0": jsnap(from), "implementation": jsnap(snap(step)), "reference": jref(cur)}))
			return false
		}
		one := vals.CopyIncrementProposerPriority(round)
		if k, d := diffRef(snap(one), cur); k != "" {
			key := "increment-k-rounds-in-one-call-differs-from-k-single-rounds"
			if kd, _ := diffRef(snap(one), oneCallModel(from, int64(round))); kd != "" {
				key = h.rotKey() // not the known shortcut
			}
			h.c.Violation(key, fmt.Sprintf("height %d: CopyIncrementProposerPriority(%d) differs from %d single rounds: %s", height, round, round, d),
				h.witness(map[string]interface{}{"height": height, "k": round, "set_before": jsnap(from), "after_one_call": jsnap(snap(one)), "reference_after_k_rounds": jref(cur),
					"proposer_differs": !bytes.Equal(one.Proposer.Address, cur.Vals[cur.Proposer].Address)}))
			if key != "increment-k-rounds-in-one-call-differs-from-k-single-rounds" {
				return false
			}
		}
	}
	return true
}

func initCase(c *verdict.Ctx, idx int) {
	r := c.Rand("initchain", idx)
	c.Eval()
	h := &history{c: c, idx: idx, r: r, truth: map[int64]ssnap{}, family: "initchain", extra: map[string]interface{}{}}
	h.pool = keyPool(r, 8+r.Intn(5))
	h.pm = poolMap(h.pool)
	h.gen = genInitial(r, h.pool, 5)

	// what the application answers InitChain with
	modes := []string{"empty", "equal", "subset", "powers", "fresh", "fresh", "fresh"}
	mode := modes[r.Intn(len(modes))]
	if mode == "subset" && len(h.gen) < 2 {
		mode = "fresh"
	}
	var resp []ref.RChange
	switch mode {
	case "equal":
		resp = append(resp, h.gen...)
	case "subset":
		keep := 1 + r.Intn(len(h.gen)-1)
		for _, i := range r.Perm(len(h.gen))[:keep] {
			resp = append(resp, h.gen[i])
		}
	case "powers":
		room := int64(1 + r.Int63n(1<<40))
		if r.Intn(4) == 0 {
			room = maxTotal
		}
		for i, g := range h.gen {
			p := genPower(r, room-int64(len(h.gen)-i-1))
			if p == g.Power {
				p++
			}
			room -= p
			if room < int64(len(h.gen)) {
				room = int64(len(h.gen))
			}
			resp = append(resp, ref.RChange{Address: g.Address, Power: p})
		}
	case "fresh": // 2..7 members, any identities, unequal powers
		n := 2 + r.Intn(6)
		perm := r.Perm(len(h.pool))[:n]
		used := map[int64]bool{}
		room := int64(1 + r.Int63n(1<<40))
		if r.Intn(4) == 0 {
			room = maxTotal
		}
		if room < 1000 {
			room = 1000
		}
		for k, pi := range perm {
			p := genPower(r, room/int64(n-k))
			for used[p] {
				p++
			}
			used[p] = true
			room -= p
			resp = append(resp, ref.RChange{Address: h.pool[pi].addr, Power: p})
		}
	}
	r.Shuffle(len(resp), func(i, j int) { resp[i], resp[j] = resp[j], resp[i] })
	initial := resp
	if len(resp) == 0 {
		initial = h.gen
	}
	// the powers drawn above must form a valid set; the reference decides
	refVals, rerr := (&ref.RSet{Proposer: -1}).ApplyUpdates(initial)
	if rerr != nil {
		// generator produced an over-limit answer: shrink to the genesis set
		mode, resp, initial = "empty", nil, h.gen
		refVals, rerr = (&ref.RSet{Proposer: -1}).ApplyUpdates(initial)
		if rerr != nil {
			c.HarnessError("C08: reference rejects genesis members: %v", rerr)
			return
		}
	}
	refVals = refVals.IncrementOnce()  // the fresh set: in force at the initial height
	refNext := refVals.IncrementOnce() // rotated once: in force at the initial height + 1

	// heights: a dozen, and where the chain starts
	L := 8 + r.Intn(8)
	var initClass string
	switch x := r.Intn(6); {
	case x < 2:
		h.init, initClass = 1, "1"
	case x < 4:
		h.init, initClass = 2+r.Int63n(90000), ">1"
	default: // the first heights straddle a validator-set checkpoint
		h.init, initClass = checkpointInterval*int64(1+r.Intn(3))-int64(r.Intn(L+2)), "at-checkpoint"
	}
	h.extra["init_chain_response"] = jbatch(resp)
	h.extra["mode"] = mode

	gvals := make([]types.GenesisValidator, len(h.gen))
	for i, ch := range h.gen {
		gvals[i] = types.GenesisValidator{PubKey: h.pm[string(ch.Address)].pub, Power: ch.Power, Name: fmt.Sprint(i)}
	}
	genDoc := &types.GenesisDoc{ChainID: chainID, GenesisTime: genesisTime, InitialHeight: h.init, Validators: gvals, ConsensusParams: types.DefaultConsensusParams()}
	h.base = h.init
	h.store = sm.NewStore(dbm.NewMemDB(), sm.StoreOptions{DiscardABCIResponses: r.Intn(2) == 0})
	st, err := h.store.LoadFromDBOrGenesisDoc(genDoc) // as node.NewNode does on an empty store
	if err != nil {
		c.HarnessError("C08: LoadFromDBOrGenesisDoc: %v", err)
		return
	}
	h.state = st
	if r.Intn(3) == 0 {
		// the genesis state was already written once (store.save expects this: "It may get
		// overwritten due to InitChain validator updates"); the handshake's Save must replace it
		if err := h.store.Save(st); err != nil {
			c.HarnessError("C08: Save(genesis): %v", err)
			return
		}
		h.extra["genesis_state_saved_before_handshake"] = true
		c.Count("initchain.genesis_state_saved_first", 1)
	}
	h.app = &scriptApp{initVals: toABCI(h.pm, resp)}
	conns := proxy.NewAppConns(proxy.NewLocalClientCreator(h.app))
	conns.SetLogger(log.NewNopLogger())
	if err := conns.Start(); err != nil {
		c.HarnessError("C08: app conns: %v", err)
		return
	}
	defer conns.Stop() //nolint:errcheck

	blockStore := store.NewBlockStore(dbm.NewMemDB())
	hs := consensus.NewHandshaker(h.store, st, blockStore, genDoc)
	herr, pan := safely(func() error { return hs.Handshake(conns) })
	if herr != nil || pan != nil {
		c.Violation("initchain-handshake-fails", fmt.Sprintf("Handshake on an empty store failed for a valid InitChain answer: %v %v", herr, pan), h.witness(nil))
		return
	}
	h.app.mu.Lock()
	nReq := len(h.app.initReqs)
	h.app.mu.Unlock()
	if nReq != 1 {
		c.HarnessError("C08: InitChain was called %d times by the handshake (case %d)", nReq, idx)
		return
	}
	st, err = h.store.Load() // what the node continues from
	if err != nil || st.IsEmpty() {
		c.Violation("initchain-handshake-fails", fmt.Sprintf("no state in the store after the handshake: %v", err), h.witness(nil))
		return
	}
	h.state = st
	c.Count("initchain.mode."+mode, 1)
	c.Count("initchain.initial_height."+initClass, 1)

	// the pair the handshake built
	if st.LastBlockHeight != 0 || st.InitialHeight != h.init {
		c.Violation("initchain-handshake-fails", fmt.Sprintf("state after the handshake: LastBlockHeight %d, InitialHeight %d", st.LastBlockHeight, st.InitialHeight), h.witness(nil))
		return
	}
	w := func(what string, got *types.ValidatorSet, want *ref.RSet) map[string]interface{} {
		return h.witness(map[string]interface{}{"which": what, "implementation": jsnap(snap(got)), "reference": jref(want)})
	}
	if k, d := diffRef(snap(st.Validators), refVals); k != "" {
		c.Violation("initchain-valset-rotation-differs", fmt.Sprintf("Validators after the handshake (in force at the initial height %d) are not the fresh set of the initial members (%s): %s", h.init, k, d),
			w("Validators", st.Validators, refVals))
		return
	}
	if k, d := diffRef(snap(st.NextValidators), refNext); k != "" {
		c.Violation("initchain-valset-rotation-differs", fmt.Sprintf("NextValidators after the handshake (in force at %d) are not the fresh set rotated once (%s): %s", h.init+1, k, d),
			w("NextValidators", st.NextValidators, refNext))
		return
	}
	if d := invariants(st.Validators); d != "" {
		c.Violation("initchain-valset-rotation-differs", "Validators after the handshake: "+d, h.witness(nil))
		return
	}
	h.truth[h.init] = snap(st.Validators)
	h.truth[h.init+1] = snap(st.NextValidators)
	if !h.sweep("after the handshake", 0) {
		return
	}
	refAt := map[int64]*ref.RSet{h.init: refVals, h.init + 1: refNext}
	if !h.checkRounds(h.init, st.Validators, refVals) {
		return
	}

	h.exec = sm.NewBlockExecutor(h.store, log.NewNopLogger(), conns.Consensus(), mmock.Mempool{}, sm.EmptyEvidencePool{})
	lastCommit := types.NewCommit(0, 0, types.BlockID{}, nil)
	// one to three validator updates at chosen steps
	updateAt := map[int]bool{r.Intn(L - 3): true}
	for i, more := 0, r.Intn(3); i < more; i++ {
		updateAt[r.Intn(L-2)] = true
	}
	for step := 0; step < L; step++ {
		height := h.init + int64(step)
		var batch []ref.RChange
		want, _ := refNext.ApplyUpdates(nil)
		if updateAt[step] {
			for try := 0; try < 8; try++ {
				b, _ := genBatch(r, h.pool, refNext, false)
				if len(b) == 0 {
					continue
				}
				if wnt, werr := refNext.ApplyUpdates(b); werr == nil {
					batch, want = b, wnt
					break
				}
			}
		}
		prev := h.state
		prevVals, prevNext := snap(prev.Validators), snap(prev.NextValidators)
		block, parts := prev.MakeBlock(height, nil, lastCommit, nil, prev.Validators.GetProposer().Address)
		blockID := types.BlockID{Hash: block.Hash(), PartSetHeader: parts.Header()}
		h.app.mu.Lock()
		h.app.next = toABCI(h.pm, batch)
		h.app.mu.Unlock()
		if len(batch) > 0 {
			h.events = append(h.events, histEvent{Height: height, Batch: jbatch(batch)})
			h.stored = append(h.stored, height+2)
			h.stats.changes++
		}
		var ns sm.State
		aerr, pan := safely(func() error {
			var e error
			ns, _, e = h.exec.ApplyBlock(prev, blockID, block)
			return e
		})
		if pan != nil || aerr != nil {
			c.Violation("initchain-applyblock-fails", fmt.Sprintf("ApplyBlock(%d) on a chain started from an InitChain validator set failed: %v %v", height, aerr, pan), h.witness(nil))
			return
		}
		h.state = ns
		h.stats.heights++

		newNext := want.IncrementOnce()
		if k, d := diffRef(snap(ns.NextValidators), newNext); k != "" {
			c.Violation("initchain-valset-rotation-differs", fmt.Sprintf("NextValidators after block %d (in force at %d) differ from the reference (%s): %s", height, height+2, k, d),
				w("NextValidators", ns.NextValidators, newNext))
			return
		}
		if d := diffSnap(snap(ns.Validators), prevNext); d != "" {
			c.Violation("initchain-valset-rotation-differs", fmt.Sprintf("Validators after block %d are not the NextValidators before it: %s", height, d), h.witness(nil))
			return
		}
		if d := diffSnap(snap(ns.LastValidators), prevVals); d != "" {
			c.Violation("initchain-valset-rotation-differs", fmt.Sprintf("LastValidators after block %d are not the Validators before it: %s", height, d), h.witness(nil))
			return
		}
		if d := invariants(ns.NextValidators); d != "" {
			c.Violation("initchain-valset-rotation-differs", fmt.Sprintf("NextValidators after block %d: %s", height, d), h.witness(nil))
			return
		}
		// what BeginBlock was told about the signers of the previous block
		if height > h.init {
			h.app.mu.Lock()
			votes := h.app.lastVotes
			h.app.mu.Unlock()
			tv := h.truth[height-1]
			bad := len(votes) != len(tv.Vals)
			for i := 0; !bad && i < len(votes); i++ {
				bad = !bytes.Equal(votes[i].Validator.Address, tv.Vals[i].Addr) || votes[i].Validator.Power != tv.Vals[i].Pow
			}
			if bad {
				c.Violation("initchain-loadvalidators-differs-from-in-force", fmt.Sprintf("BeginBlock(%d) reported signers that are not the set in force at %d", height, height-1),
					h.witness(map[string]interface{}{"expected": jsnap(tv)}))
				return
			}
		}
		refNext = newNext
		refAt[height+2] = newNext
		h.truth[height+1] = snap(ns.Validators)
		h.truth[height+2] = snap(ns.NextValidators)
		if !h.checkRounds(height+1, ns.Validators, refAt[height+1]) {
			return
		}
		lastCommit = h.signCommit(height, blockID, ns.LastValidators)
		// every height so far, every time: the pointer / checkpoint mechanics change as the chain grows
		if !h.sweep(fmt.Sprintf("at tip %d", height), 0) {
			return
		}
	}
	// a node restarted here reloads the state: same sets
	re, err := h.store.Load()
	if err != nil || diffSnap(snap(re.Validators), snap(h.state.Validators)) != "" || diffSnap(snap(re.NextValidators), snap(h.state.NextValidators)) != "" {
		c.Violation("initchain-loadvalidators-differs-from-in-force", fmt.Sprintf("state reloaded at tip %d does not carry the sets in force: %v", h.state.LastBlockHeight, err), h.witness(nil))
		return
	}
	// prune and look again
	tip := h.state.LastBlockHeight
	if r.Intn(2) == 0 && tip > h.base+1 {
		to := h.base + 1 + r.Int63n(tip-h.base)
		if !h.prune(to) || !h.sweep(fmt.Sprintf("after PruneStates(to=%d)", to), 0) {
			return
		}
	}
	c.Count("initchain.heights_applied", h.stats.heights)
	c.Count("initchain.validator_updates_applied", h.stats.changes)
	c.Count("initchain.lookups_compared", h.stats.lookups)
	c.Count("initchain.lookups_reconstructed_by_2_or_more_rounds", h.stats.reconstructed)
	c.Count("initchain.round_proposers_compared", h.stats.rounds)
	c.Count("initchain.prunes", h.stats.prunes)
	c.Count("initchain.lookups_differing_in_priorities", h.stats.s15)
	if cp := (tip + 2) - (tip+2)%checkpointInterval; cp >= h.init {
		c.Count("initchain.chains_over_a_checkpoint", 1)
	}
	c.Distinct("initchain", idx, mode, h.init, L)
	if c.WantSample() && idx%53 == 0 {
		c.Sample(map[string]interface{}{"stream": "initchain", "case": idx, "mode": mode, "initial_height": h.init, "genesis_validators": jbatch(h.gen),
			"init_chain_response": jbatch(resp), "heights": h.stats.heights, "events": h.events, "lookups_compared": h.stats.lookups})
	}
}
