// Package c19: subscribers get exactly their matching events; searches return
// exact matches (DESIGN.md section 3 "C19", section 4 rows S8 and S19).
//
// Three monitors, all executing the real tendermint code:
//
//	qdiff   real query.Matches vs the reference evaluator (refquery.go) on
//	        generated (query, event map) pairs;
//	pubsub  real pubsub.Server with concurrent subscribers / unsubscribers and
//	        one publisher; per-subscription history oracle (pubsub.go);
//	        run in a child process built with -race ($VERIF_RACE_BIN);
//	index   real IndexerService + kv TxIndex + kv BlockIndexer on a real
//	        EventBus; Get / Has / Search vs brute force over what was
//	        committed (index.go).
package c19

import (
	"encoding/json"
	"fmt"
	"os"
	"os/exec"
	"path/filepath"
	"regexp"
	"sort"
	"strings"
	"sync"
	"time"

	"verif/verdict"
)

// sink is the part of verdict.Ctx the stages report through; the child
// process of the pubsub stage uses a recorder that is replayed by the parent.
type sink interface {
	Eval()
	Count(name string, n int64)
	Max(name string, v int64)
	Distinct(descriptor ...interface{}) bool
	Violation(key, what string, witness interface{}) bool
	Sample(v interface{})
	WantSample() bool
	Inconclusive(why string)
	HarnessError(format string, a ...interface{})
}

type recViol struct {
	Key     string      `json:"key"`
	What    string      `json:"what"`
	Witness interface{} `json:"witness"`
}

type recorder struct {
	mu        sync.Mutex
	Evals     int64                  `json:"evals"`
	Counters  map[string]int64       `json:"counters"`
	Maxes     map[string]int64       `json:"maxes"`
	Distincts []string               `json:"distincts"`
	Viols     []recViol              `json:"viols"`
	ViolCount map[string]int         `json:"viol_count"`
	Samples   []interface{}          `json:"samples"`
	Inconcl   []string               `json:"inconclusive"`
	HErrs     []string               `json:"harness_errors"`
	Explore   map[string]interface{} `json:"explore"`
	seen      map[string]bool
}

func newRecorder() *recorder {
	return &recorder{Counters: map[string]int64{}, Maxes: map[string]int64{}, ViolCount: map[string]int{}, seen: map[string]bool{}}
}

func (r *recorder) Eval() { r.mu.Lock(); r.Evals++; r.mu.Unlock() }
func (r *recorder) Count(name string, n int64) {
	r.mu.Lock()
	r.Counters[name] += n
	r.mu.Unlock()
}
func (r *recorder) Max(name string, v int64) {
	r.mu.Lock()
	if v > r.Maxes[name] {
		r.Maxes[name] = v
	}
	r.mu.Unlock()
}
func (r *recorder) Distinct(d ...interface{}) bool {
	s := fmt.Sprint(d...)
	r.mu.Lock()
	defer r.mu.Unlock()
	if r.seen[s] {
		return false
	}
	r.seen[s] = true
	r.Distincts = append(r.Distincts, s)
	return true
}
func (r *recorder) Violation(key, what string, w interface{}) bool {
	r.mu.Lock()
	defer r.mu.Unlock()
	r.ViolCount[key]++
	if r.ViolCount[key] <= 3 {
		r.Viols = append(r.Viols, recViol{key, what, w})
	}
	return true
}
func (r *recorder) Sample(v interface{}) {
	r.mu.Lock()
	if len(r.Samples) < 3 {
		r.Samples = append(r.Samples, v)
	}
	r.mu.Unlock()
}
func (r *recorder) WantSample() bool {
	r.mu.Lock()
	defer r.mu.Unlock()
	return len(r.Samples) < 3
}
func (r *recorder) Inconclusive(why string) {
	r.mu.Lock()
	r.Inconcl = append(r.Inconcl, why)
	r.mu.Unlock()
}
func (r *recorder) HarnessError(format string, a ...interface{}) {
	r.mu.Lock()
	r.HErrs = append(r.HErrs, fmt.Sprintf(format, a...))
	r.mu.Unlock()
}

func (r *recorder) replayInto(c *verdict.Ctx) {
	for i := int64(0); i < r.Evals; i++ {
		c.Eval()
	}
	for k, v := range r.Counters {
		c.Count(k, v)
	}
	for k, v := range r.Maxes {
		c.Max(k, v)
	}
	for _, d := range r.Distincts {
		c.Distinct(d)
	}
	first := map[string]recViol{}
	for _, v := range r.Viols {
		if _, ok := first[v.Key]; !ok {
			first[v.Key] = v
		}
		c.Violation(v.Key, v.What, v.Witness)
	}
	keys := make([]string, 0, len(r.ViolCount))
	for k := range r.ViolCount {
		keys = append(keys, k)
	}
	sort.Strings(keys)
	for _, k := range keys {
		stored := 0
		for _, v := range r.Viols {
			if v.Key == k {
				stored++
			}
		}
		for i := stored; i < r.ViolCount[k]; i++ {
			c.Violation(k, first[k].What, first[k].Witness)
		}
	}
	for _, s := range r.Samples {
		c.Sample(s)
	}
	for _, s := range r.Inconcl {
		c.Inconclusive(s)
	}
	for _, s := range r.HErrs {
		c.HarnessError("%s", s)
	}
}

// parallel runs fn(i) for i in [from,to) on 16 workers.
func parallel(from, to int, fn func(i int)) {
	workers := 16
	if to-from < workers {
		workers = to - from
	}
	if workers < 1 {
		return
	}
	ch := make(chan int)
	var wg sync.WaitGroup
	for w := 0; w < workers; w++ {
		wg.Add(1)
		go func() {
			defer wg.Done()
			for i := range ch {
				fn(i)
			}
		}()
	}
	for i := from; i < to; i++ {
		ch <- i
	}
	close(ch)
	wg.Wait()
}

type replayRef struct {
	Stream string `json:"stream"`
	Case   int    `json:"case"`
}

const (
	stageEnv = "VERIF_C19_STAGE"
	outEnv   = "VERIF_C19_OUT"
)

func Run(c *verdict.Ctx) int {
	switch os.Getenv(stageEnv) {
	case "qdiff":
		return runChild(c, runQdiff)
	case "pubsub":
		return runChild(c, runPubsub)
	case "index":
		return runChild(c, runIndex)
	case "bignum":
		return runChild(c, runBignum)
	case "svc":
		return runChild(c, runSvc)
	case "unsub":
		return runChild(c, runUnsub)
	}
	c.Level = "exploration"
	c.Rule = "qdiff: a (query, event map) pair is distinct by its text and non-trivial when the reference verdict is true or false (not error) and the query's keys occur in the map; " +
		"pubsub: a run (seeded set of subscriptions, publication list, subscribe/unsubscribe script) is distinct by its descriptor and non-trivial when >= 2 subscriptions each had >= 1 event they were obliged to receive; " +
		"index: a search is distinct by (run, kind, query text) and non-trivial when it has >= 2 conditions or its reference result is a non-empty proper subset of the indexed items; " +
		"bignum: a (run, query) is distinct by its text and non-trivial when the exact oracle matches a non-empty proper subset of the published items; " +
		"unsub: a run is distinct by its descriptor; scenario A is non-trivial when the failing Unsubscribe really failed and the run completed, scenario B when Subscribe returned >= 2 handles; " +
		"svc: a (run, block) is distinct by (run, height, whether its block-event indexing failed) and non-trivial when the block has >= 1 tx"
	c.Assume(
		"query semantics: a condition holds iff any value under its key satisfies it, conjunction over conditions (rpc/openapi subscribe description, query package comment); comparisons of a number/time operand with a value that is not a canonical non-negative integer / RFC3339 time / date are undefined and impose no obligation",
		"search semantics: several range conditions on one key are decided only where 'each condition by some value' and 'one value inside all of them' agree",
		"only attributes with Index=true, a non-empty event type and a non-empty key are indexed, plus tx.height, tx.hash, block.height",
		"publication order = order of return of Publish* calls of the single publisher goroutine; subscribe/unsubscribe windows by a monitor clock read before the call and after its return",
		"bignum: number semantics are the query language's own (first run of [0-9.], sign and unit ignored; integer operand: integer run must fit int64, a run with a decimal point is rounded to float64 and truncated and must then fit int64; decimal-point operand: both sides as float64; kv search: only whole-value int64 integers take part, decimal-point operands do not match); what cannot be an int64 / cannot be parsed is mistyped and must be neither delivered nor returned; subscription-vs-search differences are counted, not claimed",
		"tm-db MemDB, protobuf encoding, SHA-256 (tx hash) are shared with the implementation",
	)
	if rp := c.Replay(); rp != "" {
		var ref replayRef
		if err := verdict.LoadReplay(rp, &ref); err != nil {
			c.HarnessError("cannot read replay file: %v", err)
			return c.Finish(0)
		}
		switch ref.Stream {
		case "qdiff":
			qdiffCase(c, c, ref.Case)
		case "pubsub":
			for i := 0; i < 300 && c.Violations() == 0; i++ { // outcome depends on map iteration order / scheduling
				pubsubCase(c, c, ref.Case)
			}
		case "index":
			indexCase(c, c, ref.Case)
		case "bignum":
			bignumCase(c, c, ref.Case)
		case "svc":
			svcCase(c, c, ref.Case)
		case "unsub":
			for i := 0; i < 50 && c.Violations() == 0; i++ { // scenario B depends on scheduling
				unsubCase(c, c, ref.Case)
			}
		default:
			c.HarnessError("unknown stream %q in replay file", ref.Stream)
		}
		return c.Finish(0)
	}

	only := os.Getenv("VERIF_C19_ONLY") // development knob: run a single stage
	want := func(stage string) bool { return only == "" || only == stage }
	self := os.Getenv("VERIF_SELF")
	if self == "" {
		self, _ = os.Executable()
	}
	// every stage runs in child processes: pubsub in the -race build, the others in the plain one
	if want("qdiff") {
		runStage(c, "qdiff", self, false, runQdiff, c.N(1000, 2500), 1250)
	}
	if want("pubsub") {
		runStage(c, "pubsub", os.Getenv("VERIF_RACE_BIN"), true, runPubsub, c.N(300, 20000), 2500)
	}
	if want("index") {
		runStage(c, "index", self, false, runIndex, c.N(200, 10000), 2500)
	}
	if want("bignum") {
		runStage(c, "bignum", self, false, runBignum, c.N(400, 20000), 5000)
	}
	if want("svc") {
		runStage(c, "svc", self, false, runSvc, c.N(300, 8000), 2000)
	}
	if want("unsub") {
		runStage(c, "unsub", os.Getenv("VERIF_RACE_BIN"), true, runUnsub, c.N(200, 6000), 2000)
	}
	c.Set("exploratory_first_disagreement_per_class", explore.snapshot())

	min := 2000
	if only == "" && c.Violations() == 0 && (c.Counter("pubsub.runs") == 0 || c.Counter("index.searches") == 0 || c.Counter("qdiff.pairs") == 0 || c.Counter("bignum.pairs") == 0 || c.Counter("svc.tx_by_hash") == 0 || c.Counter("unsub.A.runs") == 0 || c.Counter("unsub.B.runs") == 0) {
		c.HarnessError("a stage observed nothing: qdiff=%d pubsub=%d index=%d", c.Counter("qdiff.pairs"), c.Counter("pubsub.runs"), c.Counter("index.searches"))
	}
	return c.Finish(min)
}

// stageFn runs the cases [from,to) of one monitor.
type stageFn func(c *verdict.Ctx, s sink, from, to int)

const rangeEnv = "VERIF_C19_RANGE"

// runStage executes one monitor over n cases in child processes of `chunk`
// cases each (bin re-executed with VERIF_C19_STAGE=<stage>); without a usable
// binary it runs in-process.  Children bound what the code under test can
// leak (query.Matches leaves a blocked goroutine behind, see the report) and
// turn a panic in one of its goroutines into an observation.
func runStage(c *verdict.Ctx, stage, bin string, race bool, fn stageFn, n, chunk int) {
	if bin != "" {
		if _, err := os.Stat(bin); err != nil {
			bin = ""
		}
	}
	if bin == "" || os.Getenv("VERIF_C19_INPROC") != "" {
		if race {
			c.Set("pubsub_race_build", false)
		}
		fn(c, c, 0, n)
		return
	}
	raceTotal, raceDedup := 0, map[string]int{}
	for from := 0; from < n; from += chunk {
		to := from + chunk
		if to > n {
			to = n
		}
		dir := verdict.TmpDir("c19-")
		ok := runStageChild(c, stage, bin, dir, from, to)
		if race {
			t, d := raceReports(dir)
			raceTotal += t
			for k, v := range d {
				raceDedup[k] += v
			}
		}
		os.RemoveAll(dir)
		if !ok {
			break
		}
	}
	if race {
		sfx := ""
		if stage != "pubsub" {
			sfx = "_" + stage
		}
		c.Set("pubsub_race_build"+sfx, true)
		c.Set("race_reports_total"+sfx, raceTotal)
		c.Set("race_reports_dedup"+sfx, raceDedup)
	}
}

func runStageChild(c *verdict.Ctx, stage, bin, dir string, from, to int) bool {
	out := filepath.Join(dir, stage+".json")
	errPath := filepath.Join(dir, stage+".stderr")
	errFile, _ := os.Create(errPath)
	cmd := exec.Command(bin, "--tier", c.Tier, c.ID)
	cmd.Env = append(os.Environ(),
		stageEnv+"="+stage, outEnv+"="+out, fmt.Sprintf("%s=%d:%d", rangeEnv, from, to),
		fmt.Sprintf("VERIF_SEED=%d", c.Seed),
		"GORACE=halt_on_error=0 log_path="+filepath.Join(dir, "race"))
	cmd.Stdout = os.Stderr
	cmd.Stderr = errFile
	done := make(chan error, 1)
	if err := cmd.Start(); err != nil {
		c.HarnessError("cannot start %s child: %v", stage, err)
		return false
	}
	go func() { done <- cmd.Wait() }()
	limit := 10 * time.Minute
	var werr error
	select {
	case werr = <-done:
	case <-time.After(limit):
		_ = cmd.Process.Kill()
		c.HarnessError("%s child [%d,%d) did not finish within %v", stage, from, to, limit)
		return false
	}
	errFile.Close()
	stderr, _ := os.ReadFile(errPath)
	if werr != nil {
		// the race runtime exits 66 when it reported races and halt_on_error=0; results are still valid
		if ee, ok := werr.(*exec.ExitError); !ok || ee.ExitCode() != 66 {
			tail := string(stderr)
			if len(tail) > 6000 {
				tail = tail[:6000]
			}
			if i := strings.Index(tail, "panic:"); i >= 0 && !strings.Contains(firstGoroutine(tail[i:]), "verif/checks/c19") {
				// a goroutine of the code under test panicked and took the process down
				c.Violation(stage+"-stage-code-under-test-panicked", "a goroutine of the code under test panicked: "+firstLine(tail[i:]),
					map[string]interface{}{"stream": stage, "cases": []int{from, to}, "stderr": tail[i:]})
			} else {
				c.HarnessError("%s child [%d,%d) failed: %v\n%s", stage, from, to, werr, tail)
			}
			return false
		}
	}
	b, err := os.ReadFile(out)
	if err != nil {
		c.HarnessError("%s child wrote no result: %v", stage, err)
		return false
	}
	rec := newRecorder()
	if err := json.Unmarshal(b, rec); err != nil {
		c.HarnessError("cannot parse %s child result: %v", stage, err)
		return false
	}
	rec.replayInto(c)
	explore.merge(rec.Explore)
	return true
}

func firstLine(s string) string {
	if i := strings.Index(s, "\n"); i >= 0 {
		return s[:i]
	}
	return s
}

// firstGoroutine: the stack of the panicking goroutine (up to the first blank line after "goroutine ").
func firstGoroutine(s string) string {
	i := strings.Index(s, "goroutine ")
	if i < 0 {
		return s
	}
	s = s[i:]
	if j := strings.Index(s, "\n\n"); j >= 0 {
		return s[:j]
	}
	return s
}

func runChild(c *verdict.Ctx, fn stageFn) int {
	var from, to int
	if _, err := fmt.Sscanf(os.Getenv(rangeEnv), "%d:%d", &from, &to); err != nil {
		fmt.Fprintln(os.Stderr, "c19 child: bad range:", err)
		return 2
	}
	rec := newRecorder()
	fn(c, rec, from, to)
	rec.Explore = explore.snapshot()
	b, err := json.Marshal(rec)
	if err != nil {
		fmt.Fprintln(os.Stderr, "c19 child: marshal:", err)
		return 2
	}
	if err := os.WriteFile(os.Getenv(outEnv), b, 0o644); err != nil {
		fmt.Fprintln(os.Stderr, "c19 child: write:", err)
		return 2
	}
	return 0
}

var raceFrame = regexp.MustCompile(`^\s+([^\s(]+)\(`)

// raceReports counts race-detector reports (diagnostics only) and
// deduplicates them by the innermost function of each of the two accesses.
func raceReports(dir string) (int, map[string]int) {
	files, _ := filepath.Glob(filepath.Join(dir, "race*"))
	total := 0
	dedup := map[string]int{}
	for _, f := range files {
		b, err := os.ReadFile(f)
		if err != nil {
			continue
		}
		for _, blk := range strings.Split(string(b), "==================") {
			if !strings.Contains(blk, "WARNING: DATA RACE") {
				continue
			}
			total++
			var tops []string
			lines := strings.Split(blk, "\n")
			for i, ln := range lines {
				if strings.Contains(ln, " at 0x") && (strings.Contains(ln, "ead") || strings.Contains(ln, "rite")) && i+1 < len(lines) {
					if m := raceFrame.FindStringSubmatch(lines[i+1]); m != nil {
						tops = append(tops, m[1])
					}
				}
			}
			sort.Strings(tops)
			dedup[strings.Join(tops, " <-> ")]++
		}
	}
	return total, dedup
}
