package c19

// Stage "svc": indexing as the node does it -- a real txindex.IndexerService
// (terminateOnError=false, as in node.go) fed by a real EventBus with
// PublishEventNewBlockHeader + PublishEventTx per tx (state/execution.go
// fireEvents), kv tx indexer and kv block indexer on one store like
// node.createAndStartIndexerService -- including blocks whose BLOCK-event
// indexing fails while the node keeps running:
//
//	(a) the application emits a BeginBlock/EndBlock event whose composite key
//	    is the reserved block.height;
//	(b) the block-events DB fails the n-th batch write (wrapped dbm.DB).
//
// Blocks are published back to back, some with 0 txs, and the service is
// stopped and replaced by a new one (same stores; same or new event bus) at
// block boundaries.
//
// Oracle: every transaction of EVERY published block -- also of blocks whose
// block-event indexing failed -- is afterwards found by hash (Get), by
// `tx.height = H` (exactly the txs of H, each once) and by each of its indexed
// attributes, exactly once; every block whose event indexing succeeded is
// found by Has, by `block.height = H` and by its indexed attributes.
//
// No wall-clock decides.  Barrier: both subscriptions of the service are
// unbuffered and the service takes the next header only after it has finished
// the previous block (Index + AddBatch), and the pubsub loop takes the next
// command only after it has handed over the previous one; so once two empty
// blocks E1, E2 have been accepted after block k, the service has received E1
// and therefore finished block k.  Watchdogs only yield "inconclusive",
// except that a service found stopped by itself (IsRunning()==false although
// nobody stopped it and terminateOnError is false) is a finding.

import (
	"context"
	"encoding/hex"
	"errors"
	"fmt"
	"math/rand"
	"sort"
	"strings"
	"sync"
	"sync/atomic"
	"time"

	"github.com/gogo/protobuf/proto"
	dbm "github.com/tendermint/tm-db"

	abci "github.com/tendermint/tendermint/abci/types"
	"github.com/tendermint/tendermint/libs/pubsub/query"
	"github.com/tendermint/tendermint/state/indexer"
	blockidxkv "github.com/tendermint/tendermint/state/indexer/block/kv"
	"github.com/tendermint/tendermint/state/txindex"
	txkv "github.com/tendermint/tendermint/state/txindex/kv"
	"github.com/tendermint/tendermint/types"

	"verif/verdict"
)

// ---------------------------------------------------------------------------
// fault-injecting DB: fails the n-th batch write (Write or WriteSync)

var errInjected = errors.New("injected store error")

type failDB struct {
	dbm.DB
	mu     sync.Mutex
	writes int
	failAt int // 1-based; 0 = never
	failed int
}

func (d *failDB) NewBatch() dbm.Batch { return &failBatch{Batch: d.DB.NewBatch(), db: d} }

func (d *failDB) hit() bool {
	d.mu.Lock()
	defer d.mu.Unlock()
	d.writes++
	if d.failAt != 0 && d.writes == d.failAt {
		d.failed++
		return true
	}
	return false
}

type failBatch struct {
	dbm.Batch
	db *failDB
}

func (b *failBatch) Write() error {
	if b.db.hit() {
		return errInjected
	}
	return b.Batch.Write()
}

func (b *failBatch) WriteSync() error {
	if b.db.hit() {
		return errInjected
	}
	return b.Batch.WriteSync()
}

// ---------------------------------------------------------------------------
// observers at the indexer interfaces

type svTxIdx struct {
	txindex.TxIndexer
	mu      sync.Mutex
	batches int
	errs    []string
}

func (w *svTxIdx) AddBatch(b *txindex.Batch) error {
	err := w.TxIndexer.AddBatch(b)
	w.mu.Lock()
	w.batches++
	if err != nil {
		w.errs = append(w.errs, err.Error())
	}
	w.mu.Unlock()
	return err
}

type svBlockIdx struct {
	indexer.BlockIndexer
	mu     sync.Mutex
	calls  int
	failed map[int64]string
}

func (w *svBlockIdx) Index(bh types.EventDataNewBlockHeader) error {
	err := w.BlockIndexer.Index(bh)
	w.mu.Lock()
	w.calls++
	if err != nil {
		w.failed[bh.Header.Height] = err.Error()
	}
	w.mu.Unlock()
	return err
}

// ---------------------------------------------------------------------------
// run descriptor

type svSpec struct {
	Blocks    []*ixBlock `json:"blocks"`
	Reserved  []int64    `json:"heights_with_reserved_block_height_event"`
	FailWrite int        `json:"block_events_db_fails_batch_write_no"`
	Restart   []int64    `json:"service_replaced_before_height"`
	NewBus    bool       `json:"restart_with_new_event_bus"`
}

func genSvcSpec(r *rand.Rand, idx int) *svSpec {
	sp := &svSpec{NewBus: r.Intn(2) == 0}
	h0 := int64(1 + r.Intn(3))
	nBlocks := 3 + r.Intn(6)
	for b := 0; b < nBlocks; b++ {
		blk := &ixBlock{Height: h0 + int64(b)}
		blk.Begin = genIxEvents(r, blockKeys, r.Intn(3), "")
		blk.End = genIxEvents(r, blockKeys, r.Intn(3), "")
		nTx := r.Intn(6)
		switch r.Intn(10) {
		case 0, 1, 2:
			nTx = 0
		case 3:
			nTx = 8 + r.Intn(10)
		}
		for i := 0; i < nTx; i++ {
			tx := &ixTx{Height: blk.Height, Index: uint32(i)}
			tx.Bytes = fmt.Sprintf("sv-%d-%d-%d-%x", idx, blk.Height, i, r.Uint32())
			if r.Intn(8) == 0 {
				tx.Code = 1 + uint32(r.Intn(3))
			}
			tx.Events = genIxEvents(r, txKeys, r.Intn(4), "")
			blk.Txs = append(blk.Txs, tx)
		}
		sp.Blocks = append(sp.Blocks, blk)
	}
	// (a) reserved composite key in a BeginBlock or EndBlock event
	if r.Intn(4) != 0 {
		n := 1 + r.Intn(2)
		for i := 0; i < n; i++ {
			blk := sp.Blocks[r.Intn(len(sp.Blocks))]
			ev := ixEvent{Type: "block", Attrs: []ixAttr{{Key: "height", Value: fmt.Sprint(blk.Height), Index: r.Intn(3) != 0}}}
			pos := func(list []ixEvent) []ixEvent {
				p := r.Intn(len(list) + 1)
				return append(list[:p:p], append([]ixEvent{ev}, list[p:]...)...)
			}
			if r.Intn(2) == 0 {
				blk.Begin = pos(blk.Begin)
			} else {
				blk.End = pos(blk.End)
			}
			sp.Reserved = append(sp.Reserved, blk.Height)
		}
	}
	// (b) injected write error in the block-events DB
	if r.Intn(3) != 0 {
		sp.FailWrite = 1 + r.Intn(len(sp.Blocks))
	}
	// service replaced at a block boundary
	if r.Intn(2) == 0 {
		sp.Restart = append(sp.Restart, sp.Blocks[1+r.Intn(len(sp.Blocks)-1)].Height)
	}
	for _, blk := range sp.Blocks {
		blk.ref = refIndexed(blk.Begin, blk.End)
		blk.ref[types.BlockHeightKey] = []string{fmt.Sprint(blk.Height)}
		for _, tx := range blk.Txs {
			tx.Hash = fmt.Sprintf("%X", types.Tx(tx.Bytes).Hash())
			tx.result = &abci.TxResult{Height: tx.Height, Index: tx.Index, Tx: []byte(tx.Bytes),
				Result: abci.ResponseDeliverTx{Code: tx.Code, Data: []byte(fmt.Sprintf("r%d", tx.Index)), Events: toABCI(tx.Events)}}
			tx.ref = refIndexed(tx.Events)
			tx.ref[types.TxHeightKey] = []string{fmt.Sprint(tx.Height)}
			tx.ref[types.TxHashKey] = []string{tx.Hash}
		}
	}
	return sp
}

// ---------------------------------------------------------------------------

var svStallSeen int32

type svNode struct {
	bus *types.EventBus
	svc *txindex.IndexerService
}

func svStart(txw txindex.TxIndexer, blw indexer.BlockIndexer, bus *types.EventBus) (*svNode, error) {
	if bus == nil {
		bus = types.NewEventBus()
		if err := bus.Start(); err != nil {
			return nil, err
		}
	}
	svc := txindex.NewIndexerService(txw, blw, bus, false) // node.go: terminateOnError = false
	if err := svc.Start(); err != nil {
		return nil, err
	}
	return &svNode{bus: bus, svc: svc}, nil
}

func svPublishBlock(bus *types.EventBus, blk *ixBlock) {
	txs := make(types.Txs, len(blk.Txs))
	for i, tx := range blk.Txs {
		txs[i] = types.Tx(tx.Bytes)
	}
	block := types.MakeBlock(blk.Height, txs, nil, nil)
	rb := abci.ResponseBeginBlock{Events: toABCI(blk.Begin)}
	re := abci.ResponseEndBlock{Events: toABCI(blk.End)}
	_ = bus.PublishEventNewBlock(types.EventDataNewBlock{Block: block, ResultBeginBlock: rb, ResultEndBlock: re})
	_ = bus.PublishEventNewBlockHeader(types.EventDataNewBlockHeader{Header: block.Header, NumTxs: int64(len(blk.Txs)), ResultBeginBlock: rb, ResultEndBlock: re})
	for _, tx := range blk.Txs {
		_ = bus.PublishEventTx(types.EventDataTx{TxResult: *tx.result})
	}
}

func svcCase(c *verdict.Ctx, s sink, idx int) {
	r := c.Rand("svc", idx)
	sp := genSvcSpec(r, idx)
	s.Eval()
	ctx := context.Background()

	store := dbm.NewMemDB()
	fdb := &failDB{DB: dbm.NewPrefixDB(store, []byte("block_events")), failAt: sp.FailWrite}
	txw := &svTxIdx{TxIndexer: txkv.NewTxIndex(store)}
	blw := &svBlockIdx{BlockIndexer: blockidxkv.New(fdb), failed: map[int64]string{}}

	node, err := svStart(txw, blw, nil)
	if err != nil {
		s.HarnessError("svc: start: %v", err)
		return
	}
	var mu sync.Mutex
	var nodes []*svNode
	nodes = append(nodes, node)
	abandon := false // after a stall the bus loop may be blocked for good: Stop would block too
	defer func() {
		if abandon {
			return
		}
		mu.Lock()
		all := append([]*svNode(nil), nodes...)
		mu.Unlock()
		go func() { // never wait for the code under test to shut down: a stuck bus loop would block Stop
			for _, n := range all {
				_ = n.svc.Stop()
				if n.bus.IsRunning() {
					_ = n.bus.Stop()
				}
			}
		}()
	}()

	// barrier heights: two empty blocks after the last real block / before a restart
	next := sp.Blocks[len(sp.Blocks)-1].Height + 1000
	var published []*ixBlock // everything handed to the bus, in order
	var obliged []*ixBlock   // blocks known to be finished by the service (barrier passed)
	var phase string
	setPhase := func(p string) { mu.Lock(); phase = p; mu.Unlock() }
	selfStopped := false
	var restartErr error

	finished := make(chan struct{})
	go func() {
		defer close(finished)
		barrier := func(n *svNode) {
			for i := 0; i < 2; i++ {
				e := &ixBlock{Height: next, ref: map[string][]string{types.BlockHeightKey: {fmt.Sprint(next)}}}
				next++
				setPhase(fmt.Sprintf("publishing barrier block %d", e.Height))
				svPublishBlock(n.bus, e)
				published = append(published, e)
			}
			// everything before the two barrier blocks has been finished by the service
			obliged = append(obliged[:0], published[:len(published)-2]...)
		}
		cur := node
		for _, blk := range sp.Blocks {
			for _, h := range sp.Restart {
				if h == blk.Height {
					barrier(cur)
					setPhase("replacing the service")
					if !cur.svc.IsRunning() {
						selfStopped = true // nobody has stopped it yet
					}
					_ = cur.svc.Stop()
					var bus *types.EventBus
					if sp.NewBus {
						_ = cur.bus.Stop()
					} else {
						bus = cur.bus
					}
					n, err := svStart(txw, blw, bus)
					if err != nil {
						restartErr = err
						return
					}
					mu.Lock()
					nodes = append(nodes, n)
					mu.Unlock()
					cur = n
				}
			}
			setPhase(fmt.Sprintf("publishing block %d", blk.Height))
			svPublishBlock(cur.bus, blk)
			published = append(published, blk)
		}
		barrier(cur)
	}()
	timedOut := false
	limit := 30 * time.Second
	if atomic.LoadInt32(&svStallSeen) != 0 {
		limit = 3 * time.Second // a stall was already seen in this process: do not wait long for each further one
	}
	select {
	case <-finished:
	case <-time.After(limit):
		timedOut = true
		atomic.StoreInt32(&svStallSeen, 1)
	}
	if timedOut {
		abandon = true
		mu.Lock()
		ph := phase
		last := nodes[len(nodes)-1]
		mu.Unlock()
		if !last.svc.IsRunning() {
			selfStopped = true
		}
		blw.mu.Lock()
		nFailed := len(blw.failed)
		blw.mu.Unlock()
		if selfStopped {
			s.Violation("indexer-service-stops-itself-after-index-error",
				fmt.Sprintf("the IndexerService (terminateOnError=false) is no longer running although nobody stopped it; publication is stuck while %s; block-event index errors so far: %d", ph, nFailed),
				map[string]interface{}{"stream": "svc", "case": idx, "spec": sp, "stuck_while": ph})
			return
		}
		s.Inconclusive(fmt.Sprintf("svc: watchdog fired while %s (block-event index errors so far: %d)", ph, nFailed))
		return
	}
	if last := nodes[len(nodes)-1]; !last.svc.IsRunning() {
		selfStopped = true
	}
	if selfStopped {
		blw.mu.Lock()
		nFailed := len(blw.failed)
		blw.mu.Unlock()
		s.Violation("indexer-service-stops-itself-after-index-error",
			fmt.Sprintf("the IndexerService (terminateOnError=false) is no longer running although nobody stopped it; block-event index errors so far: %d", nFailed),
			map[string]interface{}{"stream": "svc", "case": idx, "spec": sp})
		abandon = true
		return
	}
	if restartErr != nil {
		s.HarnessError("svc: restart: %v", restartErr)
		return
	}
	s.Count("svc.runs", 1)
	s.Count("svc.blocks_published", int64(len(published)))
	s.Count("svc.service_replacements", int64(len(nodes)-1))

	failed := map[int64]string{}
	blw.mu.Lock()
	for h, e := range blw.failed {
		failed[h] = e
	}
	blw.mu.Unlock()
	reserved := map[int64]bool{}
	for _, h := range sp.Reserved {
		reserved[h] = true
	}
	s.Count("svc.blocks_with_failed_block_events", int64(len(failed)))
	s.Count("svc.injected_store_errors_hit", int64(fdb.failed))

	witness := func(extra map[string]interface{}) map[string]interface{} {
		w := map[string]interface{}{"stream": "svc", "case": idx, "spec": sp, "block_event_index_errors": failed}
		for k, v := range extra {
			w[k] = v
		}
		return w
	}
	reported := map[string]bool{}
	report := func(key, what string, extra map[string]interface{}) {
		s.Count("svc.finding."+key, 1)
		if reported[key] {
			return
		}
		reported[key] = true
		s.Violation(key, what, witness(extra))
	}
	if len(txw.errs) > 0 {
		report("indexer-service-tx-batch-error", fmt.Sprintf("TxIndexer.AddBatch returned errors on clean transactions: %v", txw.errs), nil)
	}

	txi, bli := txw.TxIndexer, blw.BlockIndexer
	search := func(q Query) (map[string]int, error) {
		rq, err := query.New(q.String())
		if err != nil {
			return nil, err
		}
		got := map[string]int{}
		var serr error
		func() {
			defer func() {
				if rec := recover(); rec != nil {
					serr = fmt.Errorf("panic: %v", rec)
				}
			}()
			res, err := txi.Search(ctx, rq)
			serr = err
			for _, tr := range res {
				if tr != nil {
					got[fmt.Sprintf("%X", types.Tx(tr.Tx).Hash())]++
				}
			}
		}()
		return got, serr
	}
	blockSearch := func(q Query) (map[int64]int, error) {
		rq, err := query.New(q.String())
		if err != nil {
			return nil, err
		}
		got := map[int64]int{}
		var serr error
		func() {
			defer func() {
				if rec := recover(); rec != nil {
					serr = fmt.Errorf("panic: %v", rec)
				}
			}()
			res, err := bli.Search(ctx, rq)
			serr = err
			for _, h := range res {
				got[h]++
			}
		}()
		return got, serr
	}
	missKey := func(h int64) (string, string) {
		if _, bad := failed[h]; bad {
			return "indexer-service-drops-txs-of-block-with-failed-block-events", fmt.Sprintf(" (indexing the block events of height %d had failed: %s)", h, failed[h])
		}
		return "indexer-service-tx-missing", ""
	}

	var allTxs []*ixTx
	for _, blk := range obliged {
		allTxs = append(allTxs, blk.Txs...)
	}
	// --- every tx by hash
	for _, tx := range allTxs {
		hb, _ := hex.DecodeString(tx.Hash)
		res, err := txi.Get(hb)
		s.Count("svc.tx_by_hash", 1)
		if _, bad := failed[tx.Height]; bad {
			s.Count("svc.tx_checked_in_block_with_failed_block_events", 1)
		}
		if err != nil || res == nil {
			key, why := missKey(tx.Height)
			report(key, fmt.Sprintf("tx %s (height %d, index %d) is not found by hash after its block was handed to the IndexerService: Get = %v, %v%s", tx.Hash, tx.Height, tx.Index, res, err, why),
				map[string]interface{}{"hash": tx.Hash, "height": tx.Height})
		} else if !proto.Equal(res, tx.result) {
			report("indexer-service-tx-indexed-differently", fmt.Sprintf("tx %s: Get returns %v, committed %v", tx.Hash, res, tx.result), map[string]interface{}{"hash": tx.Hash})
		}
	}
	// --- every block's txs by tx.height: exactly those, once each
	for _, blk := range obliged {
		q := Query{{Tag: types.TxHeightKey, Op: OpEq, Kind: KInt, I: blk.Height}}
		got, err := search(q)
		s.Count("svc.tx_search_by_height", 1)
		s.Eval()
		if len(blk.Txs) == 0 {
			s.Count("svc.empty_blocks_checked", 1)
		}
		want := map[string]bool{}
		for _, tx := range blk.Txs {
			want[tx.Hash] = true
		}
		var missing, extra, dups []string
		for h := range want {
			if got[h] == 0 {
				missing = append(missing, h)
			}
		}
		for h, n := range got {
			if !want[h] {
				extra = append(extra, h)
			}
			if n > 1 {
				dups = append(dups, h)
			}
		}
		sort.Strings(missing)
		sort.Strings(extra)
		if len(blk.Txs) > 0 {
			s.Distinct(fmt.Sprintf("svc|%d|%d|%v", idx, blk.Height, failed[blk.Height] != ""))
		}
		det := map[string]interface{}{"height": blk.Height, "query": q.String(), "missing": missing, "extra": extra, "duplicates": dups, "error": fmt.Sprint(err)}
		switch {
		case err != nil:
			report("indexer-service-tx-search-error", fmt.Sprintf("tx Search %q failed: %v", q.String(), err), det)
		case len(missing) > 0:
			key, why := missKey(blk.Height)
			report(key, fmt.Sprintf("tx Search %q does not return %d of the %d txs of that block%s", q.String(), len(missing), len(blk.Txs), why), det)
		case len(extra) > 0:
			report("indexer-service-tx-under-wrong-height", fmt.Sprintf("tx Search %q returns txs that were not committed at that height: %v", q.String(), extra), det)
		case len(dups) > 0:
			report("indexer-service-tx-indexed-twice", fmt.Sprintf("tx Search %q returns a tx more than once: %v", q.String(), dups), det)
		}
	}
	// --- every tx by each of its indexed attributes
	byAttr := map[string]map[string]bool{} // "key\x00value" -> hashes
	for _, tx := range allTxs {
		for k, vals := range tx.ref {
			if k == types.TxHeightKey || k == types.TxHashKey {
				continue
			}
			for _, v := range vals {
				id := k + "\x00" + v
				if byAttr[id] == nil {
					byAttr[id] = map[string]bool{}
				}
				byAttr[id][tx.Hash] = true
			}
		}
	}
	attrIDs := make([]string, 0, len(byAttr))
	for id := range byAttr {
		attrIDs = append(attrIDs, id)
	}
	sort.Strings(attrIDs)
	heightOf := map[string]int64{}
	for _, tx := range allTxs {
		heightOf[tx.Hash] = tx.Height
	}
	for _, id := range attrIDs {
		var k, v string
		for i := 0; i < len(id); i++ {
			if id[i] == 0 {
				k, v = id[:i], id[i+1:]
			}
		}
		q := Query{{Tag: k, Op: OpEq, Kind: KStr, S: v}}
		got, err := search(q)
		s.Count("svc.tx_search_by_attribute", 1)
		s.Eval()
		for h := range byAttr[id] {
			if got[h] == 0 {
				key, why := missKey(heightOf[h])
				report(key, fmt.Sprintf("tx %s (height %d) is not returned by tx Search %q although it carries that indexed attribute (err %v)%s", h, heightOf[h], q.String(), err, why),
					map[string]interface{}{"hash": h, "query": q.String()})
			} else if got[h] > 1 {
				report("indexer-service-tx-indexed-twice", fmt.Sprintf("tx Search %q returns %s %d times", q.String(), h, got[h]), map[string]interface{}{"hash": h, "query": q.String()})
			}
		}
		for h := range got {
			if !byAttr[id][h] {
				report("indexer-service-tx-under-wrong-attribute", fmt.Sprintf("tx Search %q returns %s which does not carry that indexed attribute", q.String(), h), map[string]interface{}{"hash": h, "query": q.String()})
			}
		}
	}
	// --- blocks
	okBlocks := map[int64]*ixBlock{}
	for _, blk := range obliged {
		cause := "none"
		if reserved[blk.Height] {
			cause = "reserved-key"
		}
		if e, bad := failed[blk.Height]; bad {
			if strings.HasSuffix(e, errInjected.Error()) {
				cause = "injected-store-error"
			}
			s.Count("svc.block_events_failed."+cause, 1)
			if cause == "none" {
				report("blockindex-index-fails-on-clean-block", fmt.Sprintf("BlockIndexer.Index(%d) failed without a reserved key or an injected store error: %s", blk.Height, e), map[string]interface{}{"height": blk.Height})
			}
			continue
		}
		if cause == "reserved-key" {
			s.Count("svc.reserved_key_block_indexed_anyway", 1)
		}
		okBlocks[blk.Height] = blk
	}
	for h, blk := range okBlocks {
		has, err := bli.Has(h)
		s.Count("svc.block_by_height", 1)
		if err != nil || !has {
			report("indexer-service-block-missing", fmt.Sprintf("block %d (event indexing succeeded) is not found: Has = %v, %v", h, has, err), map[string]interface{}{"height": h})
			continue
		}
		q := Query{{Tag: types.BlockHeightKey, Op: OpEq, Kind: KInt, I: h}}
		got, err := blockSearch(q)
		s.Eval()
		if err != nil || got[h] != 1 || len(got) != 1 {
			report("indexer-service-block-missing", fmt.Sprintf("block Search %q = %v, %v", q.String(), got, err), map[string]interface{}{"height": h})
		}
		for k, vals := range blk.ref {
			if k == types.BlockHeightKey {
				continue
			}
			for _, v := range vals {
				q := Query{{Tag: k, Op: OpEq, Kind: KStr, S: v}}
				got, err := blockSearch(q)
				s.Count("svc.block_search_by_attribute", 1)
				s.Eval()
				if err != nil || got[h] != 1 {
					report("indexer-service-block-missing", fmt.Sprintf("block %d is returned %d times by block Search %q although it carries that indexed attribute (err %v)", h, got[h], q.String(), err),
						map[string]interface{}{"height": h, "query": q.String()})
				}
				for gh := range got {
					if ob, ok := okBlocks[gh]; ok {
						found := false
						for _, ov := range ob.ref[k] {
							if ov == v {
								found = true
							}
						}
						if !found {
							report("indexer-service-block-under-wrong-attribute", fmt.Sprintf("block Search %q returns %d which does not carry that indexed attribute", q.String(), gh), map[string]interface{}{"height": gh, "query": q.String()})
						}
					}
				}
			}
		}
	}
	if len(reported) == 0 && len(failed) > 0 && s.WantSample() && r.Intn(20) == 0 {
		s.Sample(map[string]interface{}{"stream": "svc", "case": idx, "blocks": len(sp.Blocks), "txs_checked": len(allTxs),
			"block_event_index_errors": failed, "service_replaced_before": sp.Restart, "new_bus": sp.NewBus})
	}
}

func runSvc(c *verdict.Ctx, s sink, from, to int) {
	parallel(from, to, func(i int) { svcCase(c, s, i) })
}
