package c19

import (
	"fmt"
	"math/rand"
	"runtime"
	"sync"
	"time"

	"github.com/tendermint/tendermint/libs/pubsub/query"

	"verif/verdict"
)

// exploratory bookkeeping: disagreements in the exploratory classes are
// counted and a first example per class is kept; they are never violations.
type exploreLog struct {
	mu       sync.Mutex
	examples map[string]interface{}
}

var explore = &exploreLog{examples: map[string]interface{}{}}

func (e *exploreLog) note(s sink, stage, class string, agree bool, example func() interface{}) {
	if agree {
		s.Count("explore."+stage+"."+class+".agree", 1)
		return
	}
	s.Count("explore."+stage+"."+class+".disagree", 1)
	e.mu.Lock()
	defer e.mu.Unlock()
	k := stage + "/" + class
	if _, ok := e.examples[k]; !ok {
		e.examples[k] = example()
	}
}

func (e *exploreLog) merge(m map[string]interface{}) {
	e.mu.Lock()
	defer e.mu.Unlock()
	for k, v := range m {
		if _, ok := e.examples[k]; !ok {
			e.examples[k] = v
		}
	}
}

func (e *exploreLog) snapshot() map[string]interface{} {
	e.mu.Lock()
	defer e.mu.Unlock()
	out := map[string]interface{}{}
	for k, v := range e.examples {
		out[k] = v
	}
	return out
}

var exploreValues = []string{"-5", "-1", "007", "4.0", "8.045", "8stake", "+3", "", "1e3", "5/7", "0x10", "3.5.1"}

func realOp(o Op) query.Operator {
	switch o {
	case OpEq:
		return query.OpEqual
	case OpLt:
		return query.OpLess
	case OpLe:
		return query.OpLessEqual
	case OpGt:
		return query.OpGreater
	case OpGe:
		return query.OpGreaterEqual
	case OpContains:
		return query.OpContains
	}
	return query.OpExists
}

// sameConditions: does the implementation read the generated query text as the structure it was rendered from?
func sameConditions(q Query, conds []query.Condition) bool {
	if len(q) != len(conds) {
		return false
	}
	for i, c := range q {
		rc := conds[i]
		if rc.CompositeKey != c.Tag || rc.Op != realOp(c.Op) {
			return false
		}
		switch c.Kind {
		case KNone:
			if rc.Operand != nil {
				return false
			}
		case KStr:
			if s, ok := rc.Operand.(string); !ok || s != c.S {
				return false
			}
		case KInt:
			if v, ok := rc.Operand.(int64); !ok || v != c.I {
				return false
			}
		case KFloat:
			if v, ok := rc.Operand.(float64); !ok || v != c.F {
				return false
			}
		case KTime, KDate:
			if v, ok := rc.Operand.(time.Time); !ok || !v.Equal(c.T) {
				return false
			}
		}
	}
	return true
}

func parseChecked(s sink, q Query, stream string, idx int) *query.Query {
	qs := q.String()
	rq, err := query.New(qs)
	if err != nil {
		s.Violation("query-parse-rejects-generated-query", fmt.Sprintf("query.New rejected %q: %v", qs, err),
			map[string]interface{}{"stream": stream, "case": idx, "query": qs, "structure": q})
		return nil
	}
	conds, err := rq.Conditions()
	if err != nil || !sameConditions(q, conds) {
		s.Violation("query-conditions-differ-from-text", fmt.Sprintf("Conditions() of %q are %v (err %v), generated from %v", qs, conds, err, q),
			map[string]interface{}{"stream": stream, "case": idx, "query": qs, "structure": q, "conditions": fmt.Sprint(conds)})
		return nil
	}
	return rq
}

func genExploreQuery(r *rand.Rand) Query {
	q := genQuery(r, pubsubKeys, 0.2)
	for i := range q {
		switch r.Intn(6) {
		case 0: // float operand
			if q[i].Kind == KInt {
				whole := 1 + r.Intn(9)
				frac := r.Intn(10)
				q[i].Kind = KFloat
				q[i].S = fmt.Sprintf("%d.%d", whole, frac)
				q[i].F = float64(whole) + float64(frac)/10
			}
		case 1: // bare event type EXISTS
			if r.Intn(3) == 0 {
				q[i] = Cond{Tag: []string{"app", "acc", "a", "tm"}[r.Intn(4)], Op: OpExists, Kind: KNone}
			}
		}
	}
	return q
}

// qdiffCase: one generated query, parsed once, evaluated on many generated event maps.
func qdiffCase(c *verdict.Ctx, s sink, idx int) {
	r := c.Rand("qdiff", idx)
	exploratory := r.Intn(5) == 0
	var q Query
	if exploratory {
		q = genExploreQuery(r)
	} else {
		q = genQuery(r, pubsubKeys, 0.15)
	}
	rq := parseChecked(s, q, "qdiff", idx)
	if rq == nil {
		return
	}
	nMaps := c.N(30, 100)
	for m := 0; m < nMaps; m++ {
		var ev map[string][]string
		if exploratory {
			ev = genEvents(r, pubsubKeys, 0.1)
			for k, vs := range ev {
				for i := range vs {
					if r.Intn(3) == 0 {
						ev[k][i] = pick(r, exploreValues)
					}
				}
			}
		} else {
			ev = genEvents(r, pubsubKeys, 0.12)
			if r.Intn(40) == 0 {
				ev = map[string][]string{}
			}
		}
		qdiffPair(s, r, idx, m, q, rq, ev)
	}
}

func qdiffPair(s sink, r *rand.Rand, idx, m int, q Query, rq *query.Query, ev map[string][]string) {
	s.Eval()
	s.Count("qdiff.pairs", 1)
	var got bool
	var gerr error
	panicked := false
	func() {
		defer func() {
			if rec := recover(); rec != nil {
				panicked = true
				gerr = fmt.Errorf("panic: %v", rec)
			}
		}()
		got, gerr = rq.Matches(cloneEvents(ev))
	}()
	strict := q.Eval(ev)
	w := func() map[string]interface{} {
		return map[string]interface{}{"stream": "qdiff", "case": idx, "event_map_no": m, "query": q.String(), "events": ev,
			"real_match": got, "real_err": fmt.Sprint(gerr), "reference": strict.String()}
	}
	if panicked {
		s.Violation("query-matches-panics", fmt.Sprintf("Matches panicked on %q: %v", q.String(), gerr), w())
		return
	}
	s.Count("qdiff.ref."+strict.String(), 1)
	switch strict {
	case True, False:
		keyed := false
		for _, cnd := range q {
			if _, ok := ev[cnd.Tag]; ok {
				keyed = true
			}
		}
		if keyed {
			s.Distinct(fmt.Sprintf("qdiff|%s|%v", q.String(), ev))
		}
		if gerr != nil || got != (strict == True) {
			s.Violation("query-matches-differs-from-reference",
				fmt.Sprintf("query %q on %v: implementation says (%v, %v), reference says %v", q.String(), ev, got, gerr, strict), w())
		} else if s.WantSample() && r.Intn(2000) == 0 {
			s.Sample(w())
		}
	case Err:
		switch {
		case gerr != nil:
			s.Count("qdiff.ref_error.impl_error", 1)
		case got:
			s.Count("qdiff.ref_error.impl_true", 1)
		default:
			s.Count("qdiff.ref_error.impl_false", 1)
		}
		loose, class := q.EvalLoose(ev)
		if class != "" && loose != Err {
			agree := gerr == nil && got == (loose == True)
			explore.note(s, "qdiff", class, agree, func() interface{} {
				m := w()
				m["loose_reference"] = loose.String()
				return m
			})
		}
	}
}

func runQdiff(c *verdict.Ctx, s sink, from, to int) {
	before := runtime.NumGoroutine()
	parallel(from, to, func(i int) { qdiffCase(c, s, i) })
	time.Sleep(100 * time.Millisecond)
	// diagnostic, not part of C19: query.Matches iterates a producer goroutine (parser.Tokens()) and
	// returns early on the first false condition; with more than 16 tokens left the producer blocks forever
	if left := runtime.NumGoroutine() - before; left > 0 {
		s.Count("qdiff.goroutines_left_blocked_by_query_Matches", int64(left))
	}
}
