package c19

// Stage "bignum": numeric conditions whose operand and/or attribute value are
// large integers (above 2^53, around MaxInt64, overflowing int64), negative,
// carry a decimal point or a unit suffix ("8.045stake").  The same query text
// and the same events go through
//
//	(a) the subscription path: real types.EventBus / pubsub.Server routing
//	    PublishEventTx / PublishEventNewBlockHeader to subscribers, and
//	(b) the kv tx indexer and kv block indexer (AddBatch / Index, then Search),
//
// and both are compared with an exact oracle (math/big) and with each other.
//
// Oracle = the number semantics the query language defines (deliberate and documented in
// libs/pubsub/query and query_test.go), computed independently with math/big:
//
// subscription side
//   - the number of an attribute value is its FIRST RUN of [0-9.] characters ("8.045stake" is
//     8.045; a leading '-' or a unit is not part of it); no such run => MISTYPED;
//   - integer operand, run without '.': the run is a decimal integer; it must fit int64
//     (<= 2^63-1), otherwise MISTYPED; compared as integers (exact above 2^53);
//   - integer operand, run with '.': "if value looks like float, we try to parse it as float":
//     the run is rounded to the nearest float64 (53-bit mantissa, ties to even; more than one
//     '.' or no digit => MISTYPED), truncated toward zero, and the truncated integer must fit
//     int64, otherwise MISTYPED (a number that is not an int64 cannot be the left side of an
//     int64 comparison -- no reading of the language makes it satisfy `< 5`);
//   - operand with a decimal point: operand and run are both rounded to the nearest float64 and
//     compared as float64;
//   - an integer operand >= 2^63 cannot be evaluated: MISTYPED for every event.
//
// search side (kv): only values that, as a whole, are decimal integers fitting int64 (optional
// sign) take part in numeric comparisons; values with a decimal point or a unit and conditions
// with a decimal-point operand simply do not match (equality with a decimal-point operand is a
// text comparison of the key and is not claimed either way); an integer operand >= 2^63 makes
// the query unevaluable: nothing is returned.  A panic is never an answer.
//
// MISTYPED => not delivered (an evaluation error on the unchanged tree).  Because the two sides
// define numbers differently, "delivered but not returned" or the reverse for the same text and
// event is expected in places; it is only counted (bignum.sub_vs_search.not_claimed).
// One value per key per item, all conditions of a query on one key.

import (
	"context"
	"fmt"
	"math/big"
	"math/rand"
	"regexp"
	"sort"
	"strings"
	"time"

	dbm "github.com/tendermint/tm-db"

	abci "github.com/tendermint/tendermint/abci/types"
	"github.com/tendermint/tendermint/libs/pubsub/query"
	blockidxkv "github.com/tendermint/tendermint/state/indexer/block/kv"
	"github.com/tendermint/tendermint/state/txindex"
	txkv "github.com/tendermint/tendermint/state/txindex/kv"
	"github.com/tendermint/tendermint/types"

	"verif/verdict"
)

type bnCond struct {
	Tag     string `json:"tag"`
	Op      Op     `json:"op"`
	Operand string `json:"operand"` // literal as written in the query
	Decimal bool   `json:"decimal_operand,omitempty"`
	rat     *big.Rat
}

type bnQuery []bnCond

func (q bnQuery) String() string {
	parts := make([]string, len(q))
	for i, c := range q {
		parts[i] = fmt.Sprintf("%s %s %s", c.Tag, c.Op, c.Operand)
	}
	return strings.Join(parts, " AND ")
}

var (
	two53    = new(big.Int).Lsh(big.NewInt(1), 53)
	two63    = new(big.Int).Lsh(big.NewInt(1), 63)
	maxInt64 = new(big.Int).Sub(two63, big.NewInt(1))
	ten18    = new(big.Int).Exp(big.NewInt(10), big.NewInt(18), nil)
	ten19    = new(big.Int).Exp(big.NewInt(10), big.NewInt(19), nil)
)

func bigs(s string) *big.Int {
	n, ok := new(big.Int).SetString(s, 10)
	if !ok {
		panic(s)
	}
	return n
}

func bi(x *big.Int, d int64) *big.Int { return new(big.Int).Add(x, big.NewInt(d)) }

// anchors: the integers the family is about
func bnAnchors() []*big.Int {
	return []*big.Int{
		big.NewInt(0), big.NewInt(5), big.NewInt(7), big.NewInt(8), big.NewInt(1000),
		bi(two53, -1), two53, bi(two53, 1), bi(two53, 2),
		ten18, bi(ten18, 1), bi(ten18, -1),
		bigs("1500000000000000000"), bigs("1234567890123456789"), bigs("12345678901234567890"), // 18-decimal token amounts
		bi(maxInt64, -1), maxInt64, two63, bi(two63, 1), ten19, new(big.Int).Mul(ten19, big.NewInt(3)),
	}
}

const (
	bnMatch = iota
	bnNoMatch
	bnMistyped
	bnUnclaimed
)

var bnVerdictName = []string{"match", "no-match", "mistyped", "unclaimed"}

// bnRun: the first run of [0-9.] characters of v ("" if there is none).
func bnRun(v string) string {
	start := strings.IndexAny(v, "0123456789.")
	if start < 0 {
		return ""
	}
	end := start
	for end < len(v) && (v[end] == '.' || (v[end] >= '0' && v[end] <= '9')) {
		end++
	}
	return v[start:end]
}

// bnFloat64: the run as the nearest float64 (big.Rat.Float64 rounds to nearest, ties to even).
func bnFloat64(run string) (float64, bool) {
	if strings.Count(run, ".") > 1 || strings.Trim(run, ".") == "" {
		return 0, false
	}
	num := run
	if strings.HasPrefix(num, ".") {
		num = "0" + num
	}
	num = strings.TrimSuffix(num, ".")
	r, ok := new(big.Rat).SetString(num)
	if !ok {
		return 0, false
	}
	f, _ := r.Float64()
	return f, true
}

// bnSubNumber: the integer an integer-operand comparison sees on the subscription side.
func bnSubNumber(run string) (*big.Int, bool) {
	if run == "" {
		return nil, false
	}
	var n *big.Int
	if strings.Contains(run, ".") {
		f, ok := bnFloat64(run)
		if !ok {
			return nil, false
		}
		n, _ = new(big.Float).SetFloat64(f).Int(nil) // truncation toward zero
	} else {
		var ok bool
		if n, ok = new(big.Int).SetString(run, 10); !ok {
			return nil, false
		}
	}
	if n.Cmp(maxInt64) > 0 {
		return n, false // not an int64
	}
	return n, true
}

func cmpOK(cmp int, op Op) bool {
	switch op {
	case OpEq:
		return cmp == 0
	case OpLt:
		return cmp < 0
	case OpLe:
		return cmp <= 0
	case OpGt:
		return cmp > 0
	case OpGe:
		return cmp >= 0
	}
	return false
}

func (c bnCond) operandOverflows() bool {
	return !c.Decimal && c.rat.IsInt() && new(big.Int).Abs(c.rat.Num()).Cmp(two63) >= 0
}

// subVerdict: one condition on the subscription side.
func (c bnCond) subVerdict(vals []string, present bool) int {
	if c.operandOverflows() {
		return bnMistyped
	}
	if !present || len(vals) == 0 {
		return bnNoMatch
	}
	run := bnRun(vals[0])
	if run == "" {
		return bnMistyped
	}
	cmp := 0
	if c.Decimal {
		vf, ok := bnFloat64(run)
		if !ok {
			return bnMistyped
		}
		of, _ := c.rat.Float64()
		switch {
		case vf < of:
			cmp = -1
		case vf > of:
			cmp = 1
		}
	} else {
		n, ok := bnSubNumber(run)
		if !ok {
			return bnMistyped
		}
		cmp = n.Cmp(c.rat.Num())
	}
	if cmpOK(cmp, c.Op) {
		return bnMatch
	}
	return bnNoMatch
}

var strictInt = regexp.MustCompile(`^[+-]?[0-9]+$`)

// searchVerdict: one condition on the kv search side.
func (c bnCond) searchVerdict(vals []string, present bool) int {
	if c.operandOverflows() {
		return bnMistyped
	}
	if c.Decimal {
		if c.Op == OpEq {
			return bnUnclaimed
		}
		return bnNoMatch
	}
	if !present || len(vals) == 0 || !strictInt.MatchString(vals[0]) {
		return bnNoMatch
	}
	n, ok := new(big.Int).SetString(strings.TrimPrefix(vals[0], "+"), 10)
	if !ok || n.Cmp(maxInt64) > 0 || n.Cmp(new(big.Int).Neg(two63)) < 0 {
		return bnNoMatch
	}
	if cmpOK(n.Cmp(c.rat.Num()), c.Op) {
		return bnMatch
	}
	return bnNoMatch
}

// verdict of the conjunction: match iff every condition matches; mistyped and false both mean "must not".
func (q bnQuery) verdict(ev map[string][]string, search bool) int {
	res := bnMatch
	for _, c := range q {
		vals, present := ev[c.Tag]
		v := 0
		if search {
			v = c.searchVerdict(vals, present)
		} else {
			v = c.subVerdict(vals, present)
		}
		switch v {
		case bnMistyped:
			return bnMistyped
		case bnUnclaimed:
			if res == bnMatch {
				res = bnUnclaimed
			}
		case bnNoMatch:
			res = bnNoMatch
		}
	}
	return res
}

// opClass: an operand that is not a plain int64 below MaxInt64 names the class by itself.
func (q bnQuery) opClass(search bool) string {
	over, dec, max := false, false, false
	for _, c := range q {
		switch {
		case c.operandOverflows():
			over = true
		case c.Decimal:
			dec = true
		case search && c.Op == OpGt && c.rat.IsInt() && c.rat.Num().Cmp(maxInt64) == 0:
			max = true // exclusive lower bound at the top of the int64 range: a search-side path of its own
		}
	}
	switch {
	case over:
		return "overflowing-int-operand"
	case dec:
		return "decimal-operand"
	case max:
		return "greater-than-maxint64-operand"
	}
	return "int-operand"
}

// class names the input class of (query, item) for the finding key: the operand class if it is
// special, otherwise the kind of the value under the query's key.
func (q bnQuery) class(ev map[string][]string, search bool) string {
	oc := q.opClass(search)
	if !search && oc == "decimal-operand" {
		// an interval of one integer and one decimal-point bound: the integer comparison still sees
		// the truncated value, so a value that cannot be an int64 keeps its own class
		hasInt := false
		for _, c := range q {
			if !c.Decimal {
				hasInt = true
			}
		}
		if vals := ev[q[0].Tag]; hasInt && len(vals) > 0 {
			run := bnRun(vals[0])
			if n, fits := bnSubNumber(run); n != nil && !fits && strings.Contains(run, ".") {
				return "int-operand-decimal-value-outside-int64"
			}
		}
	}
	if oc != "int-operand" {
		return oc
	}
	vals, ok := ev[q[0].Tag]
	if !ok || len(vals) == 0 {
		return "int-operand-absent-value"
	}
	v := vals[0]
	run := bnRun(v)
	n, fits := bnSubNumber(run)
	switch {
	case n == nil:
		return "int-operand-unparsable-value"
	case !fits && strings.Contains(run, "."):
		return "int-operand-decimal-value-outside-int64"
	case !fits:
		return "int-operand-integer-value-outside-int64"
	case strings.Contains(run, "."):
		return "int-operand-decimal-value"
	case strings.HasPrefix(v, "-"):
		return "int-operand-negative-value"
	case run != v:
		return "int-operand-unit-suffixed-value"
	}
	return "int-operand-integer-value"
}

// ---------------------------------------------------------------------------
// generation

var bnTags = []string{"tok.amount", "tok.fee"}

func bnRenderValue(r *rand.Rand, n *big.Int) string {
	s := n.String()
	switch r.Intn(12) {
	case 0:
		if n.Sign() == 0 {
			return s // "-0" is not a negative number
		}
		return "-" + s
	case 1:
		return s + ".0"
	case 2:
		return s + ".5"
	case 3:
		return s + "stake"
	case 4:
		return s + "." + []string{"045", "000000000000000001", "999999999999999999"}[r.Intn(3)] + "stake"
	case 5:
		return []string{"abc", "none", ""}[r.Intn(3)]
	}
	return s
}

func bnGenCond(r *rand.Rand, anchors []*big.Int, tag string, ops []Op) bnCond {
	c := bnCond{Tag: tag, Op: ops[r.Intn(len(ops))]}
	n := new(big.Int).Set(anchors[r.Intn(len(anchors))])
	if r.Intn(3) == 0 {
		n.Add(n, big.NewInt(int64(r.Intn(3)-1)))
		if n.Sign() < 0 {
			n.SetInt64(0)
		}
	}
	c.Operand = n.String()
	if r.Intn(8) == 0 && n.Sign() > 0 { // the grammar has no "0.x"
		c.Decimal = true
		c.Operand += []string{".0", ".5", "."}[r.Intn(3)]
	}
	num := strings.TrimSuffix(c.Operand, ".")
	c.rat, _ = new(big.Rat).SetString(num)
	return c
}

// bnGenQuery: one condition, or an interval (one lower and one upper bound) on the same key.
// Two bounds of the same direction are left to the index stage (LookForRanges finding).
func bnGenQuery(r *rand.Rand, anchors []*big.Int) bnQuery {
	tag := bnTags[0]
	if r.Intn(5) == 0 {
		tag = bnTags[1]
	}
	if r.Intn(4) != 0 {
		return bnQuery{bnGenCond(r, anchors, tag, []Op{OpEq, OpLt, OpLe, OpGt, OpGe})}
	}
	lo := bnGenCond(r, anchors, tag, []Op{OpGt, OpGe})
	hi := bnGenCond(r, anchors, tag, []Op{OpLt, OpLe})
	if r.Intn(2) == 0 {
		return bnQuery{hi, lo}
	}
	return bnQuery{lo, hi}
}

type bnItem struct {
	Kind   string              `json:"kind"` // tx | block
	ID     string              `json:"id"`   // tx hash | height
	Attrs  map[string][]string `json:"attributes"`
	result *abci.TxResult
	height int64
}

type bnSpec struct {
	Queries []string  `json:"queries"`
	Items   []*bnItem `json:"items"`
	queries []bnQuery
}

func genBignumSpec(r *rand.Rand, idx int) *bnSpec {
	anchors := bnAnchors()
	sp := &bnSpec{}
	nQ := 3 + r.Intn(3)
	for i := 0; i < nQ; i++ {
		q := bnGenQuery(r, anchors)
		dup := false
		for _, o := range sp.queries {
			if o.String() == q.String() {
				dup = true
			}
		}
		if dup {
			continue
		}
		sp.queries = append(sp.queries, q)
		sp.Queries = append(sp.Queries, q.String())
	}
	// values: anchors and the neighbourhood of the queries' operands
	pool := append([]*big.Int{}, anchors...)
	for _, q := range sp.queries {
		for _, c := range q {
			n := new(big.Int).Quo(c.rat.Num(), c.rat.Denom())
			pool = append(pool, bi(n, -1), n, bi(n, 1), n, bi(n, 2))
		}
	}
	genAttrs := func() map[string][]string {
		m := map[string][]string{}
		for _, t := range bnTags {
			if t == bnTags[1] && r.Intn(2) == 0 {
				continue
			}
			n := pool[r.Intn(len(pool))]
			if n.Sign() < 0 {
				n = big.NewInt(0)
			}
			m[t] = []string{bnRenderValue(r, n)}
		}
		return m
	}
	h0 := int64(1 + r.Intn(3))
	nBlocks := 2 + r.Intn(2)
	for b := 0; b < nBlocks; b++ {
		h := h0 + int64(b)
		sp.Items = append(sp.Items, &bnItem{Kind: "block", ID: fmt.Sprint(h), Attrs: genAttrs(), height: h})
		nTx := 2 + r.Intn(4)
		for i := 0; i < nTx; i++ {
			it := &bnItem{Kind: "tx", Attrs: genAttrs(), height: h}
			tx := []byte(fmt.Sprintf("bn-%d-%d-%d-%x", idx, h, i, r.Uint32()))
			it.ID = fmt.Sprintf("%X", types.Tx(tx).Hash())
			it.result = &abci.TxResult{Height: h, Index: uint32(i), Tx: tx, Result: abci.ResponseDeliverTx{Events: bnEvents(it.Attrs)}}
			sp.Items = append(sp.Items, it)
		}
	}
	return sp
}

func bnEvents(attrs map[string][]string) []abci.Event {
	ev := abci.Event{Type: "tok"}
	for _, t := range bnTags {
		for _, v := range attrs[t] {
			ev.Attributes = append(ev.Attributes, abci.EventAttribute{Key: []byte(strings.TrimPrefix(t, "tok.")), Value: []byte(v), Index: true})
		}
	}
	if len(ev.Attributes) == 0 {
		return nil
	}
	return []abci.Event{ev}
}

// ---------------------------------------------------------------------------

type bnSub struct {
	sub  types.Subscription
	got  map[string]int
	done chan struct{}
}

func (b *bnSub) read() {
	defer close(b.done)
	for {
		select {
		case m := <-b.sub.Out():
			switch d := m.Data().(type) {
			case types.EventDataTx:
				b.got[fmt.Sprintf("%X", types.Tx(d.Tx).Hash())]++
			case types.EventDataNewBlockHeader:
				b.got[fmt.Sprint(d.Header.Height)]++
			default:
				b.got[fmt.Sprintf("unexpected %T", d)]++
			}
		case <-b.sub.Cancelled():
			return
		}
	}
}

func bignumCase(c *verdict.Ctx, s sink, idx int) {
	r := c.Rand("bignum", idx)
	sp := genBignumSpec(r, idx)
	s.Eval()
	ctx := context.Background()

	// the implementation's reading of every query text
	real := make([]*query.Query, len(sp.queries))
	for i, q := range sp.queries {
		rq, err := query.New(q.String())
		if err != nil {
			s.Violation("query-parse-rejects-generated-query", fmt.Sprintf("query.New rejected %q: %v", q.String(), err),
				map[string]interface{}{"stream": "bignum", "case": idx, "query": q.String()})
			return
		}
		real[i] = rq
	}

	// (a) subscription path: one event bus per query (so that no other subscription can matter here;
	// interference between subscriptions is the pubsub stage's business), one unbuffered
	// always-reading subscriber, every item published through PublishEventNewBlockHeader / PublishEventTx
	subs := make([]*bnSub, len(sp.queries))
	buses := make([]*types.EventBus, len(sp.queries))
	for i := range sp.queries {
		bus := types.NewEventBus()
		if err := bus.Start(); err != nil {
			s.HarnessError("bignum: event bus start: %v", err)
			return
		}
		defer bus.Stop() //nolint:errcheck
		buses[i] = bus
		sub, err := bus.SubscribeUnbuffered(ctx, "bn", real[i])
		if err != nil {
			s.HarnessError("bignum: subscribe: %v", err)
			return
		}
		subs[i] = &bnSub{sub: sub, got: map[string]int{}, done: make(chan struct{})}
		go subs[i].read()
	}
	finished := make(chan struct{})
	go func() {
		defer close(finished)
		for i, bus := range buses {
			for _, it := range sp.Items {
				if it.Kind == "block" {
					hdr := types.Header{Height: it.height}
					_ = bus.PublishEventNewBlockHeader(types.EventDataNewBlockHeader{Header: hdr,
						ResultBeginBlock: abci.ResponseBeginBlock{Events: bnEvents(it.Attrs)}})
				} else {
					_ = bus.PublishEventTx(types.EventDataTx{TxResult: *it.result})
				}
			}
			// Unsubscribe is taken by the server loop only after the last publication was handled
			_ = bus.Unsubscribe(ctx, "bn", real[i])
			<-subs[i].done
		}
	}()
	select {
	case <-finished:
	case <-time.After(60 * time.Second):
		s.Inconclusive("bignum: watchdog fired in the subscription path")
		return
	}

	// (b) the same events into the kv indexers
	store := dbm.NewMemDB()
	txi := txkv.NewTxIndex(store)
	bli := blockidxkv.New(dbm.NewPrefixDB(store, []byte("block_events")))
	var batch *txindex.Batch
	var batchTxs []*abci.TxResult
	flush := func() bool {
		if batchTxs == nil {
			return true
		}
		batch = txindex.NewBatch(int64(len(batchTxs)))
		for _, tr := range batchTxs {
			_ = batch.Add(tr)
		}
		batchTxs = nil
		if err := txi.AddBatch(batch); err != nil {
			s.Violation("indexer-service-index-error", "AddBatch failed: "+err.Error(), map[string]interface{}{"stream": "bignum", "case": idx, "spec": sp})
			return false
		}
		return true
	}
	for _, it := range sp.Items {
		if it.Kind == "block" {
			if !flush() {
				return
			}
			batchTxs = []*abci.TxResult{}
			if err := bli.Index(types.EventDataNewBlockHeader{Header: types.Header{Height: it.height},
				ResultBeginBlock: abci.ResponseBeginBlock{Events: bnEvents(it.Attrs)}}); err != nil {
				s.Violation("indexer-service-index-error", "block Index failed: "+err.Error(), map[string]interface{}{"stream": "bignum", "case": idx, "spec": sp})
				return
			}
		} else {
			batchTxs = append(batchTxs, it.result)
		}
	}
	if !flush() {
		return
	}
	s.Count("bignum.runs", 1)

	reported := map[string]bool{}
	for qi, q := range sp.queries {
		// searches
		found := map[string]int{}
		searchErr := map[string]string{}
		func() {
			defer func() {
				if rec := recover(); rec != nil {
					searchErr["tx"] = fmt.Sprintf("panic: %v", rec)
				}
			}()
			res, err := txi.Search(ctx, real[qi])
			if err != nil {
				searchErr["tx"] = err.Error()
			}
			for _, tr := range res {
				if tr != nil {
					found[fmt.Sprintf("%X", types.Tx(tr.Tx).Hash())]++
				}
			}
		}()
		func() {
			defer func() {
				if rec := recover(); rec != nil {
					searchErr["block"] = fmt.Sprintf("panic: %v", rec)
				}
			}()
			res, err := bli.Search(ctx, real[qi])
			if err != nil {
				searchErr["block"] = err.Error()
			}
			for _, h := range res {
				found[fmt.Sprint(h)]++
			}
		}()
		s.Eval()
		s.Count("bignum.queries", 1)
		for k := range searchErr {
			s.Count("bignum.search_error."+k, 1)
		}

		nMatch := 0
		type finding struct {
			key, what string
			item      *bnItem
		}
		var finds []finding
		// a panic is never an answer, whatever the items are
		for _, kind := range []string{"tx", "block"} {
			if strings.HasPrefix(searchErr[kind], "panic:") {
				finds = append(finds, finding{kind + "search-panics-bigint-" + q.opClass(true),
					fmt.Sprintf("%s Search of %q panicked: %s", kind, q.String(), searchErr[kind]), nil})
				s.Count("bignum.search_panics."+kind, 1)
			}
		}
		for _, it := range sp.Items {
			v := q.verdict(it.Attrs, false)
			sv := q.verdict(it.Attrs, true)
			cl := q.class(it.Attrs, false)
			scl := q.class(it.Attrs, true)
			s.Count("bignum.pairs", 1)
			s.Count("bignum.sub_oracle."+bnVerdictName[v], 1)
			s.Count("bignum.search_oracle."+bnVerdictName[sv], 1)
			s.Count("bignum.class."+cl, 1)
			if v == bnMatch {
				nMatch++
			}
			delivered := subs[qi].got[it.ID] > 0
			returned := found[it.ID] > 0
			side := "txsearch"
			if it.Kind == "block" {
				side = "blocksearch"
			}
			desc := fmt.Sprintf("%s %s %v, query %q: subscription oracle %s, search oracle %s", it.Kind, it.ID, it.Attrs, q.String(), bnVerdictName[v], bnVerdictName[sv])
			if subs[qi].got[it.ID] > 1 {
				finds = append(finds, finding{"pubsub-duplicate-delivery", desc + "; delivered twice", it})
			}
			switch {
			case delivered && v != bnMatch:
				finds = append(finds, finding{"pubsub-delivers-nonmatching-bigint-" + cl, desc + "; the subscriber received it", it})
				s.Count("bignum.sub_vs_oracle.delivers_nonmatching", 1)
			case !delivered && v == bnMatch:
				finds = append(finds, finding{"pubsub-withholds-matching-bigint-" + cl, desc + "; the subscriber never received it", it})
				s.Count("bignum.sub_vs_oracle.withholds_matching", 1)
			default:
				s.Count("bignum.sub_vs_oracle.agree", 1)
			}
			panicked := strings.HasPrefix(searchErr[it.Kind], "panic:")
			switch {
			case sv == bnUnclaimed:
				s.Count("bignum.search_vs_oracle.unclaimed", 1)
			case returned && sv != bnMatch:
				finds = append(finds, finding{side + "-returns-nonmatching-bigint-" + scl, desc + "; Search returned it", it})
				s.Count("bignum.search_vs_oracle.returns_nonmatching", 1)
			case !returned && sv == bnMatch && !panicked:
				finds = append(finds, finding{side + "-misses-matching-bigint-" + scl, desc + "; Search did not return it (search error: " + searchErr[it.Kind] + ")", it})
				s.Count("bignum.search_vs_oracle.misses_matching", 1)
			case !returned && sv == bnMatch:
				s.Count("bignum.search_vs_oracle.lost_to_panic", 1) // reported once per query above
			default:
				s.Count("bignum.search_vs_oracle.agree", 1)
			}
			if delivered != returned {
				s.Count("bignum.sub_vs_search.not_claimed", 1) // the two sides define numbers differently
			} else {
				s.Count("bignum.sub_vs_search.same", 1)
			}
			if found[it.ID] > 1 {
				finds = append(finds, finding{side + "-search-duplicates", desc + "; returned twice", it})
			}
		}
		// items nobody published
		for id := range subs[qi].got {
			if !bnKnown(sp, id) {
				finds = append(finds, finding{"pubsub-delivered-unpublished-message", fmt.Sprintf("query %q received %s", q.String(), id), nil})
			}
		}
		for id := range found {
			if !bnKnown(sp, id) {
				finds = append(finds, finding{"search-returns-unknown-item", fmt.Sprintf("query %q returned %s", q.String(), id), nil})
			}
		}
		if nMatch > 0 && nMatch < len(sp.Items) {
			s.Distinct(fmt.Sprintf("bignum|%d|%s", idx, q.String()))
		}
		for _, f := range finds {
			s.Count("bignum.finding."+f.key, 1)
			if reported[f.key] {
				continue
			}
			reported[f.key] = true
			w := map[string]interface{}{"stream": "bignum", "case": idx, "query": q.String(),
				"search_errors": searchErr}
			if f.item != nil {
				w["item"] = f.item
				w["subscription_oracle"] = bnVerdictName[q.verdict(f.item.Attrs, false)]
				w["search_oracle"] = bnVerdictName[q.verdict(f.item.Attrs, true)]
				w["subscription_delivered"] = subs[qi].got[f.item.ID] > 0
				w["search_returned"] = found[f.item.ID] > 0
			}
			s.Violation(f.key, f.what, w)
		}
		if len(finds) == 0 && s.WantSample() && nMatch > 0 && r.Intn(30) == 0 {
			ids := []string{}
			for id := range found {
				ids = append(ids, id)
			}
			sort.Strings(ids)
			s.Sample(map[string]interface{}{"stream": "bignum", "case": idx, "query": q.String(), "items": len(sp.Items), "matching": nMatch, "returned": ids})
		}
	}
}

func bnKnown(sp *bnSpec, id string) bool {
	for _, it := range sp.Items {
		if it.ID == id {
			return true
		}
	}
	return false
}

func runBignum(c *verdict.Ctx, s sink, from, to int) {
	parallel(from, to, func(i int) { bignumCase(c, s, i) })
}
