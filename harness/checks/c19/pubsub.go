package c19

import (
	"context"
	"fmt"
	"math/rand"
	"sort"
	"sync"
	"sync/atomic"
	"time"

	"github.com/tendermint/tendermint/libs/pubsub"
	"github.com/tendermint/tendermint/libs/pubsub/query"

	"verif/verdict"
)

// ---------------------------------------------------------------------------
// run descriptor

type psSlot struct {
	Q      Query  `json:"-"`
	Empty  bool   `json:"empty_query,omitempty"` // query.Empty{}: matches everything
	QStr   string `json:"query"`
	Cap    int    `json:"capacity"` // 0 = SubscribeUnbuffered
	Reader string `json:"reader"`   // fast | never (reads only after cancellation) | gate (starts reading at publication GateAt)
	GateAt int    `json:"gate_at,omitempty"`
	real   pubsub.Query
}

type psAction struct {
	At   int    `json:"at"`   // runs once the publisher reached this publication index; -1 = before publishing starts
	Kind string `json:"kind"` // sub | unsub | unsuball
	Slot int    `json:"slot"`
}

type psClient struct {
	ID     string     `json:"id"`
	Slots  []psSlot   `json:"slots"`
	Script []psAction `json:"script"`
}

type psEvent struct {
	Events   map[string][]string `json:"events"`
	NoEvents bool                `json:"publish_without_events,omitempty"`
	s0, s1   int64
}

type psSpec struct {
	ServerCap int        `json:"server_queue_capacity"`
	NMain     int        `json:"publications_before_final_unsubscribes"`
	Clients   []psClient `json:"clients"`
	Events    []psEvent  `json:"publications"`
}

func genSlot(r *rand.Rand, prev []psSlot) psSlot {
	var s psSlot
	switch {
	case r.Intn(12) == 0:
		s.Empty = true
		s.QStr = query.Empty{}.String()
	case len(prev) > 0 && r.Intn(5) == 0:
		p := prev[r.Intn(len(prev))]
		s.Q, s.Empty, s.QStr = p.Q, p.Empty, p.QStr
	default:
		s.Q = genQuery(r, pubsubKeys, 0.15)
		s.QStr = s.Q.String()
	}
	if r.Intn(10) < 3 {
		s.Cap = 0
		s.Reader = "fast"
		return s
	}
	s.Cap = []int{1, 1, 2, 3, 5, 10, 20, 50, 100}[r.Intn(9)]
	switch x := r.Intn(10); {
	case x < 6:
		s.Reader = "fast"
	case x < 8:
		s.Reader = "never"
	default:
		s.Reader = "gate"
	}
	return s
}

func genPubsubSpec(r *rand.Rand) *psSpec {
	sp := &psSpec{}
	if r.Intn(2) == 0 {
		sp.ServerCap = []int{1, 2, 8, 64}[r.Intn(4)]
	}
	nEv := 8 + r.Intn(40)
	pMis := []float64{0, 0.1, 0.3}[r.Intn(3)]
	for i := 0; i < nEv; i++ {
		var e psEvent
		if r.Intn(20) == 0 {
			e.NoEvents = true
			e.Events = map[string][]string{}
		} else {
			e.Events = genEvents(r, pubsubKeys, pMis)
			if _, ok := e.Events["tm.event"]; !ok {
				e.Events["tm.event"] = []string{pick(r, strEvents)}
			}
			e.Events["ev.id"] = []string{fmt.Sprint(i)}
		}
		sp.Events = append(sp.Events, e)
	}
	// Barrier: the server loop takes a command from its queue (capacity C) only after it has
	// completely handled the previous one, so once C+1 further commands have been accepted,
	// everything before them has been handled.  The barrier commands are ordinary publications
	// (key zz.barrier, asked for by nobody except match-everything subscriptions).
	flush := func() {
		for i := 0; i <= sp.ServerCap; i++ {
			sp.Events = append(sp.Events, psEvent{Events: map[string][]string{"zz.barrier": {"1"}}})
		}
	}
	flush()
	sp.NMain = len(sp.Events)
	total := sp.NMain // scripts and gates refer to the publisher's list
	defer flush()     // second barrier, published after the final unsubscribes

	var all []psSlot
	nClients := 2 + r.Intn(5)
	for ci := 0; ci < nClients; ci++ {
		cl := psClient{ID: fmt.Sprintf("client-%d", ci)}
		nSlots := 1 + r.Intn(2)
		for len(cl.Slots) < nSlots {
			s := genSlot(r, all)
			dup := false
			for _, o := range cl.Slots {
				if o.QStr == s.QStr {
					dup = true
				}
			}
			if dup {
				continue
			}
			if s.Reader == "gate" {
				s.GateAt = r.Intn(total)
			}
			cl.Slots = append(cl.Slots, s)
			all = append(all, s)
		}
		// script: per slot sub [unsub [sub [unsub]]], optionally one unsuball for the client
		for si := range cl.Slots {
			at := -1
			if r.Intn(10) < 3 {
				at = r.Intn(total)
			}
			cl.Script = append(cl.Script, psAction{At: at, Kind: "sub", Slot: si})
			for rounds := 0; rounds < 2 && r.Intn(10) < 4; rounds++ {
				lo := at + 1
				if lo >= total {
					break
				}
				at = lo + r.Intn(total-lo)
				cl.Script = append(cl.Script, psAction{At: at, Kind: "unsub", Slot: si})
				if r.Intn(2) == 0 || at+1 >= total {
					break
				}
				at = at + 1 + r.Intn(total-at-1)
				cl.Script = append(cl.Script, psAction{At: at, Kind: "sub", Slot: si})
			}
		}
		if r.Intn(8) == 0 {
			cl.Script = append(cl.Script, psAction{At: total/2 + r.Intn(total/2), Kind: "unsuball"})
		}
		sort.SliceStable(cl.Script, func(i, j int) bool { return cl.Script[i].At < cl.Script[j].At })
		sp.Clients = append(sp.Clients, cl)
	}
	return sp
}

// ---------------------------------------------------------------------------
// execution

type psRecv struct {
	ID      int  `json:"id"`
	Payload bool `json:"payload_intact"`
}

type psInst struct {
	client, slot int
	sp           *psSlot
	sub          *pubsub.Subscription
	a0, a1       int64 // monitor clock before Subscribe was called / after it returned
	u0, u1       int64 // before Unsubscribe[All] was called / after it returned; 0 = not yet
	endUnsub     bool  // unsubscribed by the harness at the end of the run
	notCancelled bool  // Cancelled() still open after the server processed the unsubscribe
	recv         []psRecv
	done         chan struct{}
}

type psRun struct {
	spec  *psSpec
	srv   *pubsub.Server
	clk   int64
	mu    sync.Mutex
	insts []*psInst
	errs  map[string]int
}

func (p *psRun) tick() int64 { return atomic.AddInt64(&p.clk, 1) }

func (p *psRun) noteErr(what string, err error) {
	p.mu.Lock()
	p.errs[what+": "+err.Error()]++
	p.mu.Unlock()
}

func (in *psInst) record(m pubsub.Message, spec *psSpec) {
	id, ok := m.Data().(int)
	intact := ok && id >= 0 && id < len(spec.Events) && eventsEqual(m.Events(), spec.Events[id].Events)
	if !ok {
		id = -1
	}
	in.recv = append(in.recv, psRecv{ID: id, Payload: intact})
}

func (in *psInst) read(spec *psSpec, gate <-chan struct{}) {
	defer close(in.done)
	drain := func() {
		for {
			select {
			case m := <-in.sub.Out():
				in.record(m, spec)
			default:
				return
			}
		}
	}
	if gate != nil {
		select {
		case <-gate:
		case <-in.sub.Cancelled():
			drain()
			return
		}
	}
	for {
		select {
		case m := <-in.sub.Out():
			in.record(m, spec)
		case <-in.sub.Cancelled():
			drain()
			return
		}
	}
}

// realQuery: the implementation's query object of a slot, parsed once per run (a parser holds ~400 KB).
func realQuery(s *psSlot) pubsub.Query {
	if s.real == nil {
		if s.Empty {
			s.real = query.Empty{}
		} else {
			s.real = query.MustParse(s.QStr)
		}
	}
	return s.real
}

// execute runs the schedule against a real pubsub.Server; returns false if the watchdog fired.
func (p *psRun) execute() (ok bool, stuck string) {
	spec := p.spec
	nPub := spec.NMain
	ctx := context.Background()
	p.srv = pubsub.NewServer(pubsub.BufferCapacity(spec.ServerCap))
	if err := p.srv.Start(); err != nil {
		return false, "server start: " + err.Error()
	}
	for ci := range spec.Clients {
		for si := range spec.Clients[ci].Slots {
			realQuery(&spec.Clients[ci].Slots[si]) // parse before any goroutine starts
		}
	}
	reached := make([]chan struct{}, nPub)
	for i := range reached {
		reached[i] = make(chan struct{})
	}
	never := make(chan struct{})
	finished := make(chan struct{})
	var phase atomic.Value
	phase.Store("static subscriptions")

	go func() {
		defer close(finished)
		var ctl, static sync.WaitGroup
		for ci := range spec.Clients {
			ci := ci
			cl := &spec.Clients[ci]
			ctl.Add(1)
			static.Add(1)
			go func() {
				defer ctl.Done()
				active := map[int]*psInst{}
				staticDone := false
				for _, a := range cl.Script {
					if a.At >= 0 {
						if !staticDone {
							staticDone = true
							static.Done()
						}
						<-reached[a.At]
					}
					switch a.Kind {
					case "sub":
						sl := &cl.Slots[a.Slot]
						in := &psInst{client: ci, slot: a.Slot, sp: sl, done: make(chan struct{})}
						q := realQuery(sl)
						in.a0 = p.tick()
						var sub *pubsub.Subscription
						var err error
						if sl.Cap == 0 {
							sub, err = p.srv.SubscribeUnbuffered(ctx, cl.ID, q)
						} else {
							sub, err = p.srv.Subscribe(ctx, cl.ID, q, sl.Cap)
						}
						in.a1 = p.tick()
						if err != nil {
							p.noteErr("subscribe", err)
							continue
						}
						in.sub = sub
						var gate <-chan struct{}
						switch sl.Reader {
						case "never":
							gate = never
						case "gate":
							gate = reached[sl.GateAt]
						}
						go in.read(spec, gate)
						p.mu.Lock()
						p.insts = append(p.insts, in)
						p.mu.Unlock()
						active[a.Slot] = in
					case "unsub":
						in := active[a.Slot]
						if in == nil {
							continue
						}
						u0 := p.tick()
						err := p.srv.Unsubscribe(ctx, cl.ID, realQuery(in.sp))
						u1 := p.tick()
						if err != nil {
							p.noteErr("unsubscribe", err)
							continue
						}
						p.mu.Lock()
						in.u0, in.u1 = u0, u1
						p.mu.Unlock()
						delete(active, a.Slot)
					case "unsuball":
						if len(active) == 0 {
							continue
						}
						u0 := p.tick()
						err := p.srv.UnsubscribeAll(ctx, cl.ID)
						u1 := p.tick()
						if err != nil {
							p.noteErr("unsubscribeall", err)
							continue
						}
						p.mu.Lock()
						for k, in := range active {
							in.u0, in.u1 = u0, u1
							delete(active, k)
						}
						p.mu.Unlock()
					}
				}
				if !staticDone {
					static.Done()
				}
			}()
		}
		static.Wait()

		// the single publisher
		phase.Store("publishing")
		publish := func(i int) {
			e := &spec.Events[i]
			e.s0 = p.tick()
			var err error
			if e.NoEvents {
				err = p.srv.Publish(ctx, i)
			} else {
				err = p.srv.PublishWithEvents(ctx, i, cloneEvents(e.Events))
			}
			e.s1 = p.tick()
			if err != nil {
				p.noteErr("publish", err)
			}
		}
		for i := 0; i < nPub; i++ {
			close(reached[i])
			publish(i)
		}
		phase.Store("waiting for subscribe/unsubscribe scripts")
		ctl.Wait()

		// end of run: unsubscribe whatever is still subscribed
		phase.Store("final unsubscribes")
		p.mu.Lock()
		insts := append([]*psInst(nil), p.insts...)
		p.mu.Unlock()
		finalUnsub := func(in *psInst) {
			id := spec.Clients[in.client].ID
			in.endUnsub = true
			u0 := p.tick()
			err := p.srv.Unsubscribe(ctx, id, realQuery(in.sp))
			u1 := p.tick()
			in.u0, in.u1 = u0, u1
			if err != nil {
				p.noteErr("final unsubscribe", err)
			}
		}
		for _, in := range insts {
			if in.u0 == 0 {
				finalUnsub(in)
			}
		}
		// barrier 2: afterwards the server loop has handled every unsubscribe,
		// so every subscription must have been cancelled by now
		phase.Store("second barrier")
		for i := nPub; i < len(spec.Events); i++ {
			publish(i)
		}
		for _, in := range insts {
			select {
			case <-in.sub.Cancelled():
			default:
				in.notCancelled = true
			}
		}
		phase.Store("waiting for readers")
		for _, in := range insts {
			if !in.notCancelled {
				<-in.done
			}
		}
	}()

	select {
	case <-finished:
		if stuck != "" {
			return false, stuck
		}
		return true, ""
	case <-time.After(90 * time.Second):
		return false, "watchdog fired while " + phase.Load().(string)
	}
}

// ---------------------------------------------------------------------------
// oracle

const (
	clMust = iota
	clMay
	clNoMatch
	clOutside
)

func (in *psInst) classify(e *psEvent) int {
	if e.s1 < in.a0 || (in.u1 != 0 && e.s0 > in.u1) {
		return clOutside
	}
	v := True
	if !in.sp.Empty {
		v = in.sp.Q.Eval(e.Events)
	}
	switch v {
	case False:
		return clNoMatch
	case Err:
		return clMay
	}
	if e.s0 > in.a1 && (in.u0 == 0 || e.s1 < in.u0) {
		return clMust
	}
	return clMay
}

type psObs struct {
	Client    string   `json:"client"`
	Query     string   `json:"query"`
	Capacity  int      `json:"capacity"`
	Reader    string   `json:"reader"`
	Window    [4]int64 `json:"clock_sub_call_ret_unsub_call_ret"`
	Received  []int    `json:"received_ids"`
	Must      []int    `json:"obliged_ids"`
	Cancelled bool     `json:"cancelled"`
	Err       string   `json:"err"`
}

func pubsubCase(c *verdict.Ctx, s sink, idx int) {
	r := c.Rand("pubsub", idx)
	spec := genPubsubSpec(r)
	s.Eval()
	run := &psRun{spec: spec, errs: map[string]int{}}
	ok, why := run.execute()
	if !ok {
		s.Inconclusive("pubsub: " + why)
		return
	}
	s.Count("pubsub.runs", 1)
	for k, n := range run.errs {
		s.Count("pubsub.call_error."+k, int64(n))
	}

	pubClock := make([][2]int64, len(spec.Events))
	for i := range spec.Events {
		pubClock[i] = [2]int64{spec.Events[i].s0, spec.Events[i].s1}
	}
	var observations []psObs
	reported := map[string]bool{}
	withMust := 0
	errEvents := map[int]bool{}

	witness := func(extra map[string]interface{}) map[string]interface{} {
		w := map[string]interface{}{"stream": "pubsub", "case": idx, "spec": spec, "publication_clock": pubClock,
			"subscriptions": observations}
		for k, v := range extra {
			w[k] = v
		}
		return w
	}
	report := func(key, what string, extra map[string]interface{}) {
		if reported[key] {
			return
		}
		reported[key] = true
		s.Violation(key, what, witness(extra))
	}

	type pending struct {
		key, what string
		extra     map[string]interface{}
	}
	var pend []pending

	for _, in := range run.insts {
		cancelled := !in.notCancelled
		err := in.sub.Err()
		if in.notCancelled {
			in.recv = nil // the reader is still running; its list must not be read
		}
		class := make([]int, len(spec.Events))
		var must []int
		for i := range spec.Events {
			class[i] = in.classify(&spec.Events[i])
			switch class[i] {
			case clMust:
				must = append(must, i)
			case clMay:
				s.Count("pubsub.events.no_obligation", 1)
			}
		}
		s.Count("pubsub.events.obliged", int64(len(must)))
		if len(must) > 0 {
			withMust++
		}
		clientID := spec.Clients[in.client].ID
		ids := make([]int, len(in.recv))
		for i, m := range in.recv {
			ids[i] = m.ID
		}
		obs := psObs{Client: clientID, Query: in.sp.QStr, Capacity: in.sp.Cap, Reader: in.sp.Reader,
			Window: [4]int64{in.a0, in.a1, in.u0, in.u1}, Received: ids, Must: must, Cancelled: cancelled, Err: fmt.Sprint(err)}
		observations = append(observations, obs)
		me := len(observations) - 1
		s.Count("pubsub.subscriptions", 1)
		s.Count("pubsub.delivered", int64(len(ids)))
		if in.sp.Cap == 0 {
			s.Count("pubsub.subscriptions.unbuffered", 1)
		}
		s.Count("pubsub.subscriptions.reader_"+in.sp.Reader, 1)
		switch {
		case err == pubsub.ErrOutOfCapacity:
			s.Count("pubsub.cancel.out_of_capacity", 1)
			if in.sp.Cap == 0 || in.sp.Cap >= len(spec.Events) {
				s.Count("pubsub.cancel.out_of_capacity_though_buffer_could_not_fill", 1)
			}
		case err == pubsub.ErrUnsubscribed && !in.endUnsub:
			s.Count("pubsub.cancel.unsubscribed_midrun", 1)
		}

		// told explicitly: a closed Cancelled() comes with a reason
		if !cancelled {
			pend = append(pend, pending{"pubsub-subscription-not-cancelled-after-unsubscribe",
				fmt.Sprintf("%s %q: Unsubscribe returned nil but Cancelled() never closed", clientID, in.sp.QStr), map[string]interface{}{"subscription": me}})
		} else if err == nil {
			pend = append(pend, pending{"pubsub-cancelled-without-reason",
				fmt.Sprintf("%s %q: Cancelled() closed while Err() is nil", clientID, in.sp.QStr), map[string]interface{}{"subscription": me}})
		}

		// exactly once, in publication order, intact
		seen := map[int]bool{}
		last := -1
		for _, m := range in.recv {
			if m.ID < 0 || !m.Payload {
				pend = append(pend, pending{"pubsub-message-payload-altered",
					fmt.Sprintf("%s %q received a message whose data/events differ from what was published (id %d)", clientID, in.sp.QStr, m.ID), map[string]interface{}{"subscription": me, "event": m.ID}})
				continue
			}
			if seen[m.ID] {
				pend = append(pend, pending{"pubsub-duplicate-delivery",
					fmt.Sprintf("%s %q received publication %d twice", clientID, in.sp.QStr, m.ID), map[string]interface{}{"subscription": me, "event": m.ID}})
			} else if m.ID < last {
				pend = append(pend, pending{"pubsub-out-of-order-delivery",
					fmt.Sprintf("%s %q received publication %d after %d", clientID, in.sp.QStr, m.ID, last), map[string]interface{}{"subscription": me, "event": m.ID}})
			}
			seen[m.ID] = true
			if m.ID > last {
				last = m.ID
			}
			switch class[m.ID] {
			case clNoMatch:
				pend = append(pend, pending{"pubsub-delivered-nonmatching-event",
					fmt.Sprintf("%s %q received publication %d %v which does not satisfy the query", clientID, in.sp.QStr, m.ID, spec.Events[m.ID].Events), map[string]interface{}{"subscription": me, "event": m.ID}})
			case clOutside:
				pend = append(pend, pending{"pubsub-delivered-outside-subscription",
					fmt.Sprintf("%s %q received publication %d published entirely before Subscribe was called or after Unsubscribe returned", clientID, in.sp.QStr, m.ID), map[string]interface{}{"subscription": me, "event": m.ID}})
			}
		}

		// completeness: every obliged event, unless told that the buffer overflowed (then a prefix)
		for _, i := range must {
			if seen[i] || in.notCancelled { // not cancelled: the reader still runs, its list cannot be read
				continue
			}
			if i > last && cancelled && err == pubsub.ErrOutOfCapacity && in.sp.Cap > 0 {
				s.Count("pubsub.events.lost_after_announced_overflow", 1)
				continue
			}
			// name the class: did another subscriber's query fail on this event?
			culprit := ""
			for _, o := range run.insts {
				if o == in || o.sp.Empty || o.classifyWindowOutside(&spec.Events[i]) {
					continue
				}
				if o.sp.Q.MayFail(spec.Events[i].Events) {
					culprit = o.sp.QStr
					break
				}
			}
			where := "tail (nothing later was delivered)"
			if i < last {
				where = "gap (later publications were delivered)"
			}
			extra := map[string]interface{}{"subscription": me, "event": i, "event_attributes": spec.Events[i].Events, "position": where}
			if culprit != "" {
				extra["other_query_failing_on_event"] = culprit
				errEvents[i] = true
				pend = append(pend, pending{"pubsub-send-aborts-on-query-error",
					fmt.Sprintf("%s %q (Err()=%v) never received publication %d %v which satisfies its query; another subscription %q cannot be evaluated on that event (type mismatch) and state.send returns at the first evaluation error; %s",
						clientID, in.sp.QStr, err, i, spec.Events[i].Events, culprit, where), extra})
			} else {
				pend = append(pend, pending{"pubsub-missed-matching-event",
					fmt.Sprintf("%s %q (cancelled=%v Err()=%v) never received publication %d %v which satisfies its query; %s",
						clientID, in.sp.QStr, cancelled, err, i, spec.Events[i].Events, where), extra})
			}
		}
	}
	for _, pv := range pend {
		report(pv.key, pv.what, pv.extra)
	}

	// how many publications could not be evaluated by some subscription (the S8 input class)
	for i := range spec.Events {
		for _, o := range run.insts {
			if !o.sp.Empty && !o.classifyWindowOutside(&spec.Events[i]) && o.sp.Q.MayFail(spec.Events[i].Events) {
				s.Count("pubsub.publications_some_query_cannot_evaluate", 1)
				break
			}
		}
	}
	if withMust >= 2 {
		s.Distinct(fmt.Sprintf("pubsub|%d|%d|%d|%v", idx, len(spec.Clients), len(spec.Events), specDigest(spec)))
		s.Count("pubsub.runs_nontrivial", 1)
	}
	if len(pend) == 0 && s.WantSample() && idx%97 == 3 {
		s.Sample(map[string]interface{}{"stream": "pubsub", "case": idx, "server_queue_capacity": spec.ServerCap,
			"publications": len(spec.Events), "first_publication": spec.Events[0].Events, "subscriptions": observations})
	}
	_ = run.srv.Stop()
}

func (in *psInst) classifyWindowOutside(e *psEvent) bool {
	return e.s1 < in.a0 || (in.u1 != 0 && e.s0 > in.u1)
}

func specDigest(sp *psSpec) string {
	out := ""
	for _, cl := range sp.Clients {
		for _, sl := range cl.Slots {
			out += fmt.Sprintf("%s/%d/%s;", sl.QStr, sl.Cap, sl.Reader)
		}
	}
	return out
}

func runPubsub(c *verdict.Ctx, s sink, from, to int) {
	parallel(from, to, func(i int) { pubsubCase(c, s, i) })
}
