package c19

import (
	"fmt"
	"math/rand"
	"sort"
	"time"
)

// keySpec: one composite key of the small universe, with the type of the
// values an honest application stores under it.
type keySpec struct {
	tag  string
	typ  string // "str" | "int" | "time" | "date"
	strs []string
	max  int // ints 0..max
}

var (
	strOwners = []string{"alice", "bob", "carol", "al", "ali", "bo", "alicebob"}
	strTags   = []string{"red", "green", "redgreen", "r", "blue"}
	strEvents = []string{"Tx", "NewBlock", "Vote", "NewBlockHeader"}
	// values that contain no digit at all: every numeric comparison against them is a type mismatch
	nonNumeric = []string{"abc", "xyz", "none", "NaN", "stake"}
	nonTime    = []string{"Tuesday", "monday", "soon"}
	timeVals   = []string{"2018-05-03T14:45:00Z", "2019-01-01T00:00:00Z", "2017-06-30T23:59:59Z", "2018-05-03T16:45:00+02:00"}
	dateVals   = []string{"2017-01-01", "2018-05-03", "2019-12-31"}
)

var pubsubKeys = []keySpec{
	{tag: "tm.event", typ: "str", strs: strEvents},
	{tag: "app.n", typ: "int", max: 9},
	{tag: "acc.bal", typ: "int", max: 200},
	{tag: "acc.owner", typ: "str", strs: strOwners},
	{tag: "app.tag", typ: "str", strs: strTags},
	{tag: "tx.height", typ: "int", max: 6},
	{tag: "app.time", typ: "time"},
	{tag: "app.date", typ: "date"},
}

func pick(r *rand.Rand, xs []string) string { return xs[r.Intn(len(xs))] }

func mustTime(s string) time.Time {
	t, err := time.Parse(time.RFC3339, s)
	if err != nil {
		panic(err)
	}
	return t
}
func mustDate(s string) time.Time {
	t, err := time.Parse("2006-01-02", s)
	if err != nil {
		panic(err)
	}
	return t
}

// genValue draws an honest value for k, or (with probability pMismatch) a value of the wrong type.
func genValue(r *rand.Rand, k keySpec, pMismatch float64) string {
	mis := r.Float64() < pMismatch
	switch k.typ {
	case "int":
		if mis {
			return pick(r, nonNumeric)
		}
		return fmt.Sprint(r.Intn(k.max + 1))
	case "time":
		if mis {
			return pick(r, nonTime)
		}
		return pick(r, timeVals)
	case "date":
		if mis {
			return pick(r, nonTime)
		}
		return pick(r, dateVals)
	}
	return pick(r, k.strs)
}

var rangeOps = []Op{OpLt, OpLe, OpGt, OpGe}

// genCond draws a condition on key k.  pCross is the probability of a
// comparison that does not fit the key's value type (numeric test on a string
// key, time test on a number key ...).
func genCond(r *rand.Rand, k keySpec, pCross float64) Cond {
	if r.Intn(8) == 0 {
		return Cond{Tag: k.tag, Op: OpExists, Kind: KNone}
	}
	typ := k.typ
	if r.Float64() < pCross {
		typ = []string{"str", "int", "time", "date"}[r.Intn(4)]
	}
	switch typ {
	case "int":
		op := OpEq
		if r.Intn(3) > 0 {
			op = rangeOps[r.Intn(4)]
		}
		max := k.max
		if max == 0 {
			max = 9
		}
		return Cond{Tag: k.tag, Op: op, Kind: KInt, I: int64(r.Intn(max + 2))}
	case "time":
		op := OpEq
		if r.Intn(3) > 0 {
			op = rangeOps[r.Intn(4)]
		}
		return Cond{Tag: k.tag, Op: op, Kind: KTime, T: mustTime(pick(r, timeVals[:3]))}
	case "date":
		op := OpEq
		if r.Intn(3) > 0 {
			op = rangeOps[r.Intn(4)]
		}
		return Cond{Tag: k.tag, Op: op, Kind: KDate, T: mustDate(pick(r, dateVals))}
	}
	// string operand
	op := OpEq
	if r.Intn(3) == 0 {
		op = OpContains
	}
	var s string
	switch {
	case k.typ == "str":
		s = pick(r, k.strs)
		if op == OpContains && r.Intn(2) == 0 && len(s) > 1 {
			a := r.Intn(len(s))
			b := a + 1 + r.Intn(len(s)-a)
			s = s[a:b]
		}
	case k.typ == "int":
		s = fmt.Sprint(r.Intn(k.max + 1))
	default:
		s = "2018"
	}
	if r.Intn(10) == 0 {
		s = "nosuch"
	}
	return Cond{Tag: k.tag, Op: op, Kind: KStr, S: s}
}

func genQuery(r *rand.Rand, keys []keySpec, pCross float64) Query {
	n := 1 + r.Intn(3)
	if r.Intn(3) == 0 {
		n = 1
	}
	q := make(Query, 0, n)
	for i := 0; i < n; i++ {
		q = append(q, genCond(r, keys[r.Intn(len(keys))], pCross))
	}
	return q
}

func genEvents(r *rand.Rand, keys []keySpec, pMismatch float64) map[string][]string {
	ev := map[string][]string{}
	for _, k := range keys {
		if r.Intn(5) < 2 {
			continue
		}
		n := 1
		if r.Intn(4) == 0 {
			n = 2 + r.Intn(2)
		}
		for i := 0; i < n; i++ {
			ev[k.tag] = append(ev[k.tag], genValue(r, k, pMismatch))
		}
	}
	return ev
}

func cloneEvents(ev map[string][]string) map[string][]string {
	out := make(map[string][]string, len(ev))
	for k, v := range ev {
		out[k] = append([]string(nil), v...)
	}
	return out
}

func eventsEqual(a, b map[string][]string) bool {
	if len(a) != len(b) {
		return false
	}
	for k, va := range a {
		vb, ok := b[k]
		if !ok || len(va) != len(vb) {
			return false
		}
		for i := range va {
			if va[i] != vb[i] {
				return false
			}
		}
	}
	return true
}

func sortedKeys(m map[string][]string) []string {
	ks := make([]string, 0, len(m))
	for k := range m {
		ks = append(ks, k)
	}
	sort.Strings(ks)
	return ks
}
