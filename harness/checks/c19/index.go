package c19

import (
	"context"
	"encoding/hex"
	"fmt"
	"math/rand"
	"sort"
	"strings"
	"sync"
	"time"

	"github.com/gogo/protobuf/proto"
	dbm "github.com/tendermint/tm-db"

	abci "github.com/tendermint/tendermint/abci/types"
	"github.com/tendermint/tendermint/libs/pubsub/query"
	"github.com/tendermint/tendermint/state/indexer"
	blockidxkv "github.com/tendermint/tendermint/state/indexer/block/kv"
	"github.com/tendermint/tendermint/state/txindex"
	txkv "github.com/tendermint/tendermint/state/txindex/kv"
	"github.com/tendermint/tendermint/types"

	"verif/verdict"
)

// ---------------------------------------------------------------------------
// run descriptor

type ixAttr struct {
	Key   string `json:"k"`
	Value string `json:"v"`
	Index bool   `json:"index"`
}

type ixEvent struct {
	Type  string   `json:"type"`
	Attrs []ixAttr `json:"attrs"`
}

type ixTx struct {
	Bytes  string    `json:"tx"`
	Code   uint32    `json:"code"`
	Events []ixEvent `json:"events"`
	Height int64     `json:"height"`
	Index  uint32    `json:"index"`
	Hash   string    `json:"hash"`
	result *abci.TxResult
	ref    map[string][]string // what the documents say is searchable
}

type ixBlock struct {
	Height int64     `json:"height"`
	Begin  []ixEvent `json:"begin_block_events"`
	End    []ixEvent `json:"end_block_events"`
	Txs    []*ixTx   `json:"txs"`
	ref    map[string][]string
}

type ixSpec struct {
	Blocks  []*ixBlock `json:"blocks"`
	Hostile bool       `json:"hostile_subscriber_on_bus,omitempty"`
	Explore string     `json:"exploratory_feature,omitempty"`
}

var txKeys = []keySpec{
	{tag: "transfer.sender", typ: "str", strs: strOwners},
	{tag: "transfer.recipient", typ: "str", strs: strOwners},
	{tag: "transfer.amount", typ: "int", max: 30},
	{tag: "app.n", typ: "int", max: 9},
	{tag: "app.tag", typ: "str", strs: strTags},
}

var blockKeys = []keySpec{
	{tag: "val.power", typ: "int", max: 30},
	{tag: "val.name", typ: "str", strs: strOwners},
	{tag: "app.n", typ: "int", max: 9},
}

var exploreFeatures = []string{"slash-in-value", "empty-value", "decimal-value", "negative-value", "leading-zeros",
	"reserved-key-as-app-event", "cross-typed-reserved-key-query", "lowercase-hash-query", "time-operand-query", "bare-type-exists"}

func exploreValue(r *rand.Rand, feature string, honest string) string {
	switch feature {
	case "slash-in-value":
		return []string{"a/b", "1/2", "alice/bob", "/", "3/"}[r.Intn(5)]
	case "empty-value":
		return ""
	case "decimal-value":
		return []string{"4.0", "8.5", "12.25"}[r.Intn(3)]
	case "negative-value":
		return []string{"-5", "-1", "-12"}[r.Intn(3)]
	case "leading-zeros":
		return []string{"007", "05", "00"}[r.Intn(3)]
	}
	return honest
}

func genIxEvents(r *rand.Rand, keys []keySpec, n int, feature string) []ixEvent {
	var out []ixEvent
	for i := 0; i < n; i++ {
		k := keys[r.Intn(len(keys))]
		dot := strings.Index(k.tag, ".")
		ev := ixEvent{Type: k.tag[:dot]}
		nAttr := 1 + r.Intn(3)
		for j := 0; j < nAttr; j++ {
			// attributes of the same event type; the same key may repeat inside one event and across events
			var kk keySpec
			for {
				kk = keys[r.Intn(len(keys))]
				if strings.HasPrefix(kk.tag, ev.Type+".") {
					break
				}
			}
			v := genValue(r, kk, 0)
			if feature != "" && r.Intn(3) == 0 {
				v = exploreValue(r, feature, v)
			}
			ev.Attrs = append(ev.Attrs, ixAttr{Key: kk.tag[len(ev.Type)+1:], Value: v, Index: r.Intn(7) != 0})
		}
		switch r.Intn(30) {
		case 0:
			ev.Type = "" // must not be indexed at all
		case 1:
			ev.Attrs = append(ev.Attrs, ixAttr{Key: "", Value: "x", Index: true})
		}
		out = append(out, ev)
	}
	return out
}

func toABCI(evs []ixEvent) []abci.Event {
	out := make([]abci.Event, 0, len(evs))
	for _, e := range evs {
		ae := abci.Event{Type: e.Type}
		for _, a := range e.Attrs {
			ae.Attributes = append(ae.Attributes, abci.EventAttribute{Key: []byte(a.Key), Value: []byte(a.Value), Index: a.Index})
		}
		out = append(out, ae)
	}
	return out
}

// refIndexed: the searchable attribute map according to the documents:
// attributes with Index=true of events with a non-empty type and key.
func refIndexed(evs ...[]ixEvent) map[string][]string {
	m := map[string][]string{}
	for _, list := range evs {
		for _, e := range list {
			if e.Type == "" {
				continue
			}
			for _, a := range e.Attrs {
				if a.Key == "" || !a.Index {
					continue
				}
				k := e.Type + "." + a.Key
				m[k] = append(m[k], a.Value)
			}
		}
	}
	return m
}

func genIndexSpec(r *rand.Rand, idx int) *ixSpec {
	sp := &ixSpec{}
	switch x := r.Intn(20); {
	case x < 3:
		sp.Hostile = true
	case x < 5:
		sp.Explore = exploreFeatures[r.Intn(len(exploreFeatures))]
	}
	h0 := int64(1 + r.Intn(4))
	nBlocks := 1 + r.Intn(6)
	for b := 0; b < nBlocks; b++ {
		blk := &ixBlock{Height: h0 + int64(b)}
		blk.Begin = genIxEvents(r, blockKeys, r.Intn(3), sp.Explore)
		blk.End = genIxEvents(r, blockKeys, r.Intn(3), sp.Explore)
		nTx := r.Intn(7)
		if r.Intn(12) == 0 {
			nTx = 10 + r.Intn(11)
		}
		for i := 0; i < nTx; i++ {
			tx := &ixTx{Height: blk.Height, Index: uint32(i)}
			tx.Bytes = fmt.Sprintf("tx-%d-%d-%d-%x", idx, blk.Height, i, r.Uint32())
			if r.Intn(8) == 0 {
				tx.Code = 1 + uint32(r.Intn(3))
			}
			tx.Events = genIxEvents(r, txKeys, r.Intn(4), sp.Explore)
			if sp.Explore == "reserved-key-as-app-event" && r.Intn(3) == 0 {
				tx.Events = append(tx.Events, ixEvent{Type: "tx", Attrs: []ixAttr{{Key: "height", Value: fmt.Sprint(1 + r.Intn(8)), Index: true}}})
			}
			if sp.Hostile && b == nBlocks-1 && r.Intn(2) == 0 {
				// a value the hostile subscriber's numeric query cannot be evaluated on
				tx.Events = append(tx.Events, ixEvent{Type: "hx", Attrs: []ixAttr{{Key: "amount", Value: pick(r, nonNumeric), Index: r.Intn(2) == 0}}})
			}
			blk.Txs = append(blk.Txs, tx)
		}
		sp.Blocks = append(sp.Blocks, blk)
	}
	for _, blk := range sp.Blocks {
		blk.ref = refIndexed(blk.Begin, blk.End)
		blk.ref[types.BlockHeightKey] = []string{fmt.Sprint(blk.Height)}
		for _, tx := range blk.Txs {
			h := types.Tx(tx.Bytes).Hash()
			tx.Hash = fmt.Sprintf("%X", h)
			tx.result = &abci.TxResult{Height: tx.Height, Index: tx.Index, Tx: []byte(tx.Bytes),
				Result: abci.ResponseDeliverTx{Code: tx.Code, Data: []byte(fmt.Sprintf("r%d", tx.Index)), Events: toABCI(tx.Events)}}
			tx.ref = refIndexed(tx.Events)
			if sp.Explore == "reserved-key-as-app-event" {
				// the implicit key: exploratory, both sources
				tx.ref[types.TxHeightKey] = append(tx.ref[types.TxHeightKey], fmt.Sprint(tx.Height))
			} else {
				tx.ref[types.TxHeightKey] = []string{fmt.Sprint(tx.Height)}
			}
			tx.ref[types.TxHashKey] = []string{tx.Hash}
		}
	}
	return sp
}

// ---------------------------------------------------------------------------
// query generation for searches

func genSearchQuery(r *rand.Rand, sp *ixSpec, kind string) Query {
	keys := txKeys
	hkey := types.TxHeightKey
	if kind == "block" {
		keys = blockKeys
		hkey = types.BlockHeightKey
	}
	lo, hi := sp.Blocks[0].Height, sp.Blocks[len(sp.Blocks)-1].Height
	heightCond := func() Cond {
		h := lo - 1 + int64(r.Intn(int(hi-lo)+3))
		switch r.Intn(7) {
		case 0, 1, 2:
			return Cond{Tag: hkey, Op: OpEq, Kind: KInt, I: h}
		case 3:
			return Cond{Tag: hkey, Op: OpExists, Kind: KNone}
		}
		return Cond{Tag: hkey, Op: rangeOps[r.Intn(4)], Kind: KInt, I: h}
	}
	n := 1 + r.Intn(3)
	var q Query
	for i := 0; i < n; i++ {
		switch x := r.Intn(10); {
		case x < 3:
			q = append(q, heightCond())
		case x < 4 && len(q) > 0 && q[len(q)-1].Op.isRange():
			// a second bound on the same key (interval, or same direction)
			p := q[len(q)-1]
			q = append(q, Cond{Tag: p.Tag, Op: rangeOps[r.Intn(4)], Kind: KInt, I: p.I - 3 + int64(r.Intn(7))})
			if q[len(q)-1].I < 0 {
				q[len(q)-1].I = 0
			}
		default:
			q = append(q, genCond(r, keys[r.Intn(len(keys))], 0.04))
		}
	}
	// no time/date operands in deciding searches (not implemented by the kv indexers: exploratory)
	for i := range q {
		if q[i].Kind == KTime || q[i].Kind == KDate {
			q[i] = Cond{Tag: q[i].Tag, Op: OpExists, Kind: KNone}
		}
	}
	if kind == "tx" && r.Intn(6) == 0 {
		// tx.hash condition on an existing (or, rarely, unknown) transaction
		var all []*ixTx
		for _, b := range sp.Blocks {
			all = append(all, b.Txs...)
		}
		hx := fmt.Sprintf("%X", types.Tx("unknown").Hash())
		if len(all) > 0 && r.Intn(8) != 0 {
			hx = all[r.Intn(len(all))].Hash
		}
		c := Cond{Tag: types.TxHashKey, Op: OpEq, Kind: KStr, S: hx}
		pos := r.Intn(len(q) + 1)
		q = append(q[:pos], append(Query{c}, q[pos:]...)...)
		if len(q) > 3 {
			q = q[:3]
		}
	}
	return q
}

func genExploreSearchQuery(r *rand.Rand, sp *ixSpec, kind string) Query {
	q := genSearchQuery(r, sp, kind)
	hkey := types.TxHeightKey
	if kind == "block" {
		hkey = types.BlockHeightKey
	}
	i := r.Intn(len(q))
	switch sp.Explore {
	case "cross-typed-reserved-key-query":
		switch r.Intn(4) {
		case 0:
			q[i] = Cond{Tag: hkey, Op: OpEq, Kind: KStr, S: fmt.Sprint(sp.Blocks[0].Height)}
		case 1:
			q[i] = Cond{Tag: hkey, Op: OpContains, Kind: KStr, S: "1"}
		case 2:
			if kind == "tx" {
				q[i] = Cond{Tag: types.TxHashKey, Op: OpExists, Kind: KNone}
			}
		case 3:
			if kind == "tx" {
				q[i] = Cond{Tag: types.TxHashKey, Op: OpEq, Kind: KInt, I: 5}
			}
		}
	case "lowercase-hash-query":
		if kind == "tx" && len(sp.Blocks[0].Txs) > 0 {
			q[i] = Cond{Tag: types.TxHashKey, Op: OpEq, Kind: KStr, S: strings.ToLower(sp.Blocks[0].Txs[0].Hash)}
		}
	case "time-operand-query":
		q[i] = Cond{Tag: q[i].Tag, Op: rangeOps[r.Intn(4)], Kind: KDate, T: mustDate("2018-05-03")}
	case "bare-type-exists":
		q[i] = Cond{Tag: []string{"transfer", "app", "val", "tx"}[r.Intn(4)], Op: OpExists, Kind: KNone}
	case "decimal-value", "negative-value", "leading-zeros":
		// make numeric conditions likely
		k := txKeys[2]
		if kind == "block" {
			k = blockKeys[0]
		}
		op := rangeOps[r.Intn(4)]
		if r.Intn(3) == 0 {
			op = OpEq
		}
		q[i] = Cond{Tag: k.tag, Op: op, Kind: KInt, I: int64(r.Intn(13))}
	}
	return q
}

// ---------------------------------------------------------------------------
// wrappers at the component boundary: count finished batches, release the DB afterwards

type txIdxWrap struct {
	mu      sync.Mutex
	inner   txindex.TxIndexer
	batches int
	want    int
	done    chan struct{}
	errs    []string
}

func (w *txIdxWrap) get() txindex.TxIndexer { w.mu.Lock(); defer w.mu.Unlock(); return w.inner }
func (w *txIdxWrap) AddBatch(b *txindex.Batch) error {
	err := w.get().AddBatch(b)
	w.mu.Lock()
	if err != nil {
		w.errs = append(w.errs, err.Error())
	}
	w.batches++
	if w.batches == w.want {
		close(w.done)
	}
	w.mu.Unlock()
	return err
}
func (w *txIdxWrap) Index(r *abci.TxResult) error         { return w.get().Index(r) }
func (w *txIdxWrap) Get(h []byte) (*abci.TxResult, error) { return w.get().Get(h) }
func (w *txIdxWrap) Search(ctx context.Context, q *query.Query) ([]*abci.TxResult, error) {
	return w.get().Search(ctx, q)
}

type blockIdxWrap struct {
	mu    sync.Mutex
	inner indexer.BlockIndexer
	errs  []string
}

func (w *blockIdxWrap) get() indexer.BlockIndexer { w.mu.Lock(); defer w.mu.Unlock(); return w.inner }
func (w *blockIdxWrap) Has(h int64) (bool, error) { return w.get().Has(h) }
func (w *blockIdxWrap) Index(bh types.EventDataNewBlockHeader) error {
	err := w.get().Index(bh)
	if err != nil {
		w.mu.Lock()
		w.errs = append(w.errs, err.Error())
		w.mu.Unlock()
	}
	return err
}
func (w *blockIdxWrap) Search(ctx context.Context, q *query.Query) ([]int64, error) {
	return w.get().Search(ctx, q)
}

// ---------------------------------------------------------------------------

type observer struct {
	sub    types.Subscription
	hashes []string
	done   chan struct{}
}

func (o *observer) read() {
	defer close(o.done)
	for {
		select {
		case m := <-o.sub.Out():
			if d, ok := m.Data().(types.EventDataTx); ok {
				o.hashes = append(o.hashes, fmt.Sprintf("%X", types.Tx(d.Tx).Hash()))
			}
		case <-o.sub.Cancelled():
			return
		}
	}
}

func sameDirectionBounds(q Query) bool {
	lower, upper := map[string]int{}, map[string]int{}
	for _, c := range q {
		switch c.Op {
		case OpGt, OpGe:
			lower[c.Tag]++
		case OpLt, OpLe:
			upper[c.Tag]++
		}
	}
	for _, n := range lower {
		if n > 1 {
			return true
		}
	}
	for _, n := range upper {
		if n > 1 {
			return true
		}
	}
	return false
}

// rangePairOnMultiValue: two range conditions on a key under which the item carries several values.
func rangePairOnMultiValue(q Query, ref map[string][]string) bool {
	n := map[string]int{}
	for _, c := range q {
		if c.Op.isRange() {
			n[c.Tag]++
		}
	}
	for k, cnt := range n {
		if cnt > 1 && len(ref[k]) > 1 {
			return true
		}
	}
	return false
}

func hasEqWithOthers(q Query, tag string) bool {
	if len(q) < 2 {
		return false
	}
	for _, c := range q {
		if c.Tag == tag && c.Op == OpEq {
			return true
		}
	}
	return false
}

// itemVerdict: the deciding reference verdict of one indexed item, or "undecided".
func itemVerdict(q Query, ref map[string][]string) (v Verdict, decided bool, why string) {
	v = q.Eval(ref)
	if v == Err {
		return v, false, "type-mismatch"
	}
	if q.EvalRangeJoined(ref) != v {
		return v, false, "multi-value-range"
	}
	return v, true, ""
}

func indexCase(c *verdict.Ctx, s sink, idx int) {
	r := c.Rand("index", idx)
	sp := genIndexSpec(r, idx)
	s.Eval()

	store := dbm.NewMemDB()
	txw := &txIdxWrap{inner: txkv.NewTxIndex(store), want: len(sp.Blocks), done: make(chan struct{})}
	blw := &blockIdxWrap{inner: blockidxkv.New(dbm.NewPrefixDB(store, []byte("block_events")))} // as in node.createAndStartIndexerService
	bus := types.NewEventBus()
	if err := bus.Start(); err != nil {
		s.HarnessError("event bus start: %v", err)
		return
	}
	svc := txindex.NewIndexerService(txw, blw, bus, false)
	if err := svc.Start(); err != nil {
		s.HarnessError("indexer service start: %v", err)
		return
	}
	defer func() {
		_ = svc.Stop()
		_ = bus.Stop()
		txw.mu.Lock()
		txw.inner = nil
		txw.mu.Unlock()
		blw.mu.Lock()
		blw.inner = nil
		blw.mu.Unlock()
	}()

	ctx := context.Background()
	var obs *observer
	if sp.Hostile {
		// a subscriber whose query cannot be evaluated on some tx events, and an observer with the indexer's own tx query
		hq := query.MustParse("hx.amount > 5")
		hs, err := bus.SubscribeUnbuffered(ctx, "hostile", hq)
		if err != nil {
			s.HarnessError("hostile subscribe: %v", err)
			return
		}
		go func() {
			for {
				select {
				case <-hs.Out():
				case <-hs.Cancelled():
					return
				}
			}
		}()
		os, err := bus.SubscribeUnbuffered(ctx, "observer", types.EventQueryTx)
		if err != nil {
			s.HarnessError("observer subscribe: %v", err)
			return
		}
		obs = &observer{sub: os, done: make(chan struct{})}
		go obs.read()
	}

	// publish like state/execution.go fireEvents
	published := make(chan struct{})
	go func() {
		defer close(published)
		for _, blk := range sp.Blocks {
			txs := make(types.Txs, len(blk.Txs))
			for i, tx := range blk.Txs {
				txs[i] = types.Tx(tx.Bytes)
			}
			block := types.MakeBlock(blk.Height, txs, nil, nil)
			rb := abci.ResponseBeginBlock{Events: toABCI(blk.Begin)}
			re := abci.ResponseEndBlock{Events: toABCI(blk.End)}
			_ = bus.PublishEventNewBlock(types.EventDataNewBlock{Block: block, ResultBeginBlock: rb, ResultEndBlock: re})
			_ = bus.PublishEventNewBlockHeader(types.EventDataNewBlockHeader{Header: block.Header, NumTxs: int64(len(blk.Txs)), ResultBeginBlock: rb, ResultEndBlock: re})
			for _, tx := range blk.Txs {
				_ = bus.PublishEventTx(types.EventDataTx{TxResult: *tx.result})
			}
		}
		if obs != nil {
			// Unsubscribe is taken by the server loop only after the last tx event was handled
			_ = bus.Unsubscribe(ctx, "observer", types.EventQueryTx)
			<-obs.done
		}
	}()
	select {
	case <-published:
	case <-time.After(60 * time.Second):
		s.Inconclusive("index: watchdog fired while publishing blocks")
		return
	}

	witness := func(extra map[string]interface{}) map[string]interface{} {
		w := map[string]interface{}{"stream": "index", "case": idx, "spec": sp}
		for k, v := range extra {
			w[k] = v
		}
		return w
	}

	if obs != nil {
		s.Count("index.hostile_runs", 1)
		var all []*ixTx
		for _, b := range sp.Blocks {
			all = append(all, b.Txs...)
		}
		seen := map[string]bool{}
		for _, h := range obs.hashes {
			seen[h] = true
		}
		var lost []string
		for _, tx := range all {
			if !seen[tx.Hash] {
				lost = append(lost, tx.Hash)
			}
		}
		if len(lost) > 0 {
			// deterministic observation: a subscriber with the indexer's own query ("tm.event='Tx'") missed tx events
			indexed := 0
			select {
			case <-txw.done:
				indexed = 1
			case <-time.After(300 * time.Millisecond): // diagnostic only
			}
			var unindexed []string
			for _, h := range lost {
				hb, _ := hex.DecodeString(h)
				if res, _ := txw.Get(hb); res == nil {
					unindexed = append(unindexed, h)
				}
			}
			s.Count("index.hostile_runs_tx_event_lost", 1)
			s.Violation("pubsub-send-aborts-on-query-error",
				fmt.Sprintf("with a subscriber `hx.amount > 5` on the event bus, a subscriber with the indexer's query tm.event='Tx' missed %d of %d tx events (those with a non-numeric hx.amount); the IndexerService shares that query: last batch finished=%v, lost txs absent from the index=%d",
					len(lost), len(all), indexed == 1, len(unindexed)),
				witness(map[string]interface{}{"lost_tx_hashes": lost, "absent_from_index_300ms_later": unindexed}))
			return
		}
	}

	select {
	case <-txw.done:
	case <-time.After(60 * time.Second):
		s.Inconclusive("index: watchdog fired waiting for the indexer service to finish the last block")
		return
	}
	s.Count("index.runs", 1)
	if len(txw.errs)+len(blw.errs) > 0 && sp.Explore == "" {
		s.Violation("indexer-service-index-error", fmt.Sprintf("indexing clean events returned errors: %v %v", txw.errs, blw.errs), witness(nil))
	}
	exploratory := sp.Explore != ""

	// --- retrieval by hash / height
	var all []*ixTx
	byHash := map[string]*ixTx{}
	for _, b := range sp.Blocks {
		for _, tx := range b.Txs {
			all = append(all, tx)
			byHash[tx.Hash] = tx
		}
	}
	for _, tx := range all {
		hb, _ := hex.DecodeString(tx.Hash)
		res, err := txw.Get(hb)
		s.Count("index.get", 1)
		if err != nil || res == nil || !proto.Equal(res, tx.result) {
			s.Violation("txindex-get-missing-or-different", fmt.Sprintf("Get(%s) = %v, %v; committed at height %d index %d", tx.Hash, res, err, tx.Height, tx.Index),
				witness(map[string]interface{}{"hash": tx.Hash}))
		}
	}
	if res, err := txw.Get(types.Tx(fmt.Sprintf("never-%d", idx)).Hash()); res != nil || err != nil {
		s.Violation("txindex-get-returns-uncommitted", fmt.Sprintf("Get(hash of a tx never committed) = %v, %v", res, err), witness(nil))
	}
	lo, hi := sp.Blocks[0].Height, sp.Blocks[len(sp.Blocks)-1].Height
	for h := lo - 1; h <= hi+2; h++ {
		if h < 1 {
			continue
		}
		has, err := blw.Has(h)
		s.Count("index.has", 1)
		want := h >= lo && h <= hi
		if exploratory {
			continue
		}
		if err != nil || has != want {
			s.Violation("blockindex-has-wrong", fmt.Sprintf("Has(%d) = %v, %v; indexed heights %d..%d", h, has, err, lo, hi), witness(map[string]interface{}{"height": h}))
		}
	}

	// --- searches
	nTxQ, nBlQ := 25, 15
	reported := map[string]bool{}
	for qi := 0; qi < nTxQ+nBlQ; qi++ {
		kind := "tx"
		if qi >= nTxQ {
			kind = "block"
		}
		var q Query
		if exploratory {
			q = genExploreSearchQuery(r, sp, kind)
		} else {
			q = genSearchQuery(r, sp, kind)
		}
		rq := parseChecked(s, q, "index", idx)
		if rq == nil {
			continue
		}
		s.Eval()
		s.Count("index.searches", 1)
		s.Count("index.searches."+kind, 1)

		// run the real search
		got := map[string]int{} // item id -> times returned
		var serr error
		var damaged []string
		func() {
			defer func() {
				if rec := recover(); rec != nil {
					serr = fmt.Errorf("panic: %v", rec)
				}
			}()
			if kind == "tx" {
				res, err := txw.Search(ctx, rq)
				serr = err
				for _, tr := range res {
					if tr == nil {
						damaged = append(damaged, "nil result")
						continue
					}
					h := fmt.Sprintf("%X", types.Tx(tr.Tx).Hash())
					got[h]++
					if o, ok := byHash[h]; !ok || !proto.Equal(tr, o.result) {
						damaged = append(damaged, h)
					}
				}
			} else {
				res, err := blw.Search(ctx, rq)
				serr = err
				for _, h := range res {
					got[fmt.Sprint(h)]++
				}
			}
		}()

		// brute force over what was committed
		type item struct {
			id  string
			ref map[string][]string
		}
		var items []item
		if kind == "tx" {
			for _, tx := range all {
				items = append(items, item{tx.Hash, tx.ref})
			}
		} else {
			for _, b := range sp.Blocks {
				items = append(items, item{fmt.Sprint(b.Height), b.ref})
			}
		}
		var extra, missing, wantIDs []string
		undecided := 0
		known := map[string]bool{}
		for _, it := range items {
			known[it.id] = true
			v, decided, why := itemVerdict(q, it.ref)
			if exploratory && !decided && why == "type-mismatch" && !rangePairOnMultiValue(q, it.ref) {
				if lv, _ := q.EvalLoose(it.ref); lv != Err {
					v, decided = lv, true
				}
			}
			if !decided {
				undecided++
				s.Count("index.items_undecided."+why, 1)
				continue
			}
			if v == True {
				wantIDs = append(wantIDs, it.id)
				if got[it.id] == 0 {
					missing = append(missing, it.id)
				}
			} else if got[it.id] > 0 {
				extra = append(extra, it.id)
			}
		}
		var dups, unknown []string
		for id, n := range got {
			if n > 1 {
				dups = append(dups, id)
			}
			if !known[id] {
				unknown = append(unknown, id)
			}
		}
		sort.Strings(dups)
		sort.Strings(unknown)
		ok := serr == nil && len(extra)+len(missing)+len(dups)+len(unknown)+len(damaged) == 0
		if len(q) >= 2 || (len(wantIDs) > 0 && len(wantIDs) < len(items)) {
			s.Distinct(fmt.Sprintf("index|%d|%s|%s", idx, kind, q.String()))
		}
		gotIDs := make([]string, 0, len(got))
		for id := range got {
			gotIDs = append(gotIDs, id)
		}
		sort.Strings(gotIDs)
		detail := map[string]interface{}{"kind": kind, "query": q.String(), "returned": gotIDs, "reference_result": wantIDs,
			"returned_but_not_satisfying": extra, "satisfying_but_not_returned": missing, "duplicates": dups,
			"returned_unknown_items": unknown, "returned_with_wrong_content": damaged, "error": fmt.Sprint(serr), "items_undecided": undecided}

		if exploratory {
			// disagreements already explained by a deciding-class finding are not attributed to the exploratory feature
			explained := !ok && serr == nil && len(missing)+len(dups)+len(unknown)+len(damaged) == 0 &&
				(sameDirectionBounds(q) || (kind == "tx" && hasEqWithOthers(q, types.TxHashKey)) || (kind == "block" && hasEqWithOthers(q, types.BlockHeightKey)))
			if explained {
				s.Count("explore.index.explained_by_deciding_class_finding", 1)
				continue
			}
			explore.note(s, "index", sp.Explore, ok, func() interface{} {
				detail["stream"], detail["case"] = "index", idx
				if len(wantIDs) > 4 {
					detail["reference_result"] = append(append([]string{}, wantIDs[:4]...), fmt.Sprintf("... %d in all", len(wantIDs)))
				}
				if len(missing) > 2 {
					missing = missing[:2]
				}
				if len(extra) > 2 {
					extra = extra[:2]
				}
				detail["returned_but_not_satisfying"], detail["satisfying_but_not_returned"] = extra, missing
				attrs := map[string]interface{}{}
				for _, it := range items {
					for _, id := range append(append([]string{}, extra...), missing...) {
						if it.id == id {
							attrs[id] = it.ref
						}
					}
				}
				detail["searchable_attributes_of_disputed_items"] = attrs
				return detail
			})
			continue
		}
		if ok {
			s.Count("index.searches_exact", 1)
			if len(wantIDs) > 0 {
				s.Count("index.searches_exact_nonempty", 1)
			}
			if s.WantSample() && len(q) >= 2 && len(wantIDs) > 0 && r.Intn(40) == 0 {
				s.Sample(map[string]interface{}{"stream": "index", "case": idx, "kind": kind, "query": q.String(), "result": gotIDs, "items": len(items)})
			}
			continue
		}
		var key, what string
		pfx := "txindex"
		if kind == "block" {
			pfx = "blockindex"
		}
		switch {
		case serr != nil && strings.HasPrefix(serr.Error(), "panic:"):
			key, what = pfx+"-search-panics", "Search panicked"
		case serr != nil:
			key, what = pfx+"-search-error", "Search returned an error for a well-formed query"
		case len(extra) > 0 && kind == "tx" && hasEqWithOthers(q, types.TxHashKey):
			key, what = "txindex-search-hash-condition-ignores-other-conditions", "a tx.hash condition makes Search return that tx although it does not satisfy the other conditions"
		case len(extra) > 0 && kind == "block" && hasEqWithOthers(q, types.BlockHeightKey):
			key, what = "blockindex-search-height-condition-ignores-other-conditions", "a block.height = H condition makes Search return H although the block does not satisfy the other conditions"
		case len(extra) > 0 && sameDirectionBounds(q):
			key, what = "indexer-lookforranges-same-direction-bound-overwritten", "two bounds of the same direction on one key: the later one replaces the earlier instead of intersecting"
		case len(extra) > 0:
			key, what = pfx+"-search-returns-nonmatching", "Search returned items that do not satisfy the query"
		case len(missing) > 0:
			key, what = pfx+"-search-misses-matching", "Search did not return items that satisfy the query"
		case len(dups) > 0:
			key, what = pfx+"-search-duplicates", "Search returned an item more than once"
		case len(unknown) > 0:
			key, what = pfx+"-search-returns-unknown-item", "Search returned an item that was never committed"
		default:
			key, what = pfx+"-search-wrong-content", "Search returned an item whose content differs from what was committed"
		}
		s.Count("index.searches_inexact."+key, 1)
		if !reported[key] {
			reported[key] = true
			s.Violation(key, fmt.Sprintf("%s search %q: %s; returned %v, reference %v (extra %v, missing %v, err %v)", kind, q.String(), what, gotIDs, wantIDs, extra, missing, serr), witness(detail))
		}
	}
}

func runIndex(c *verdict.Ctx, s sink, from, to int) {
	parallel(from, to, func(i int) { indexCase(c, s, i) })
}
