package c19

// Reference evaluator of the event query language, written from the documented
// semantics (rpc/openapi "subscribe", docs/app-dev/indexing-transactions.md,
// libs/pubsub/query package comment):
//
//   query      = condition { " AND " condition }
//   condition  = key op operand | key " EXISTS"
//   op         = "=" "<" "<=" ">" ">=" "CONTAINS"
//   operand    = 'string' | number | "TIME " rfc3339 | "DATE " yyyy-mm-dd
//
// An event set is map[compositeKey][]value.  A condition holds iff ANY value
// stored under its key satisfies it; the query holds iff every condition holds.
//
// The evaluator never parses a query string: queries are generated as
// structures (Cond) and rendered to a string for the code under test.
//
// Verdicts are three-valued.  Err means "a value under the condition's key is
// not of the operand's type" (e.g. `app.n > 5` against "abc"): the documents
// do not say what such a comparison yields, so Err never creates an
// obligation for the owner of the query.  Err dominates (any condition / any
// value that cannot be compared makes the whole verdict Err), which makes the
// strict verdict independent of evaluation order.

import (
	"fmt"
	"regexp"
	"strconv"
	"strings"
	"time"
)

type Op int

const (
	OpEq Op = iota
	OpLt
	OpLe
	OpGt
	OpGe
	OpContains
	OpExists
)

var opText = map[Op]string{OpEq: "=", OpLt: "<", OpLe: "<=", OpGt: ">", OpGe: ">=", OpContains: "CONTAINS", OpExists: "EXISTS"}

func (o Op) String() string { return opText[o] }
func (o Op) isRange() bool  { return o == OpLt || o == OpLe || o == OpGt || o == OpGe }

type Kind int

const (
	KNone Kind = iota // EXISTS
	KStr
	KInt
	KFloat
	KTime // TIME rfc3339
	KDate // DATE yyyy-mm-dd
)

type Cond struct {
	Tag  string    `json:"tag"`
	Op   Op        `json:"op"`
	Kind Kind      `json:"kind"`
	S    string    `json:"s,omitempty"` // KStr operand; for KFloat the literal text
	I    int64     `json:"i,omitempty"`
	F    float64   `json:"f,omitempty"`
	T    time.Time `json:"t,omitempty"`
}

type Query []Cond

func (c Cond) String() string {
	switch c.Kind {
	case KNone:
		return c.Tag + " EXISTS"
	case KStr:
		return fmt.Sprintf("%s %s '%s'", c.Tag, c.Op, c.S)
	case KInt:
		return fmt.Sprintf("%s %s %d", c.Tag, c.Op, c.I)
	case KFloat:
		return fmt.Sprintf("%s %s %s", c.Tag, c.Op, c.S)
	case KTime:
		return fmt.Sprintf("%s %s TIME %s", c.Tag, c.Op, c.T.Format(time.RFC3339))
	case KDate:
		return fmt.Sprintf("%s %s DATE %s", c.Tag, c.Op, c.T.Format("2006-01-02"))
	}
	panic("bad kind")
}

func (q Query) String() string {
	parts := make([]string, len(q))
	for i, c := range q {
		parts[i] = c.String()
	}
	return strings.Join(parts, " AND ")
}

type Verdict int

const (
	False Verdict = iota
	True
	Err
)

func (v Verdict) String() string { return [...]string{"false", "true", "error"}[v] }

var canonInt = regexp.MustCompile(`^(0|[1-9][0-9]*)$`)
var hasDigit = regexp.MustCompile(`[0-9]`)

func cmpInt(a, b int64, op Op) bool {
	switch op {
	case OpEq:
		return a == b
	case OpLt:
		return a < b
	case OpLe:
		return a <= b
	case OpGt:
		return a > b
	case OpGe:
		return a >= b
	}
	return false
}

func cmpFloat(a, b float64, op Op) bool {
	switch op {
	case OpEq:
		return a == b
	case OpLt:
		return a < b
	case OpLe:
		return a <= b
	case OpGt:
		return a > b
	case OpGe:
		return a >= b
	}
	return false
}

func parseTimeValue(v string) (time.Time, bool) {
	if t, err := time.Parse(time.RFC3339, v); err == nil {
		return t, true
	}
	if t, err := time.Parse("2006-01-02", v); err == nil {
		return t, true
	}
	return time.Time{}, false
}

// value: one condition against one value, strict classes only.
//   - string operand: = and CONTAINS are plain string operations, never Err
//   - integer operand: the value must be a canonical non-negative decimal
//     integer (the deciding class), anything else is Err
//   - float operand: exploratory only, always Err in the strict evaluator
//   - time/date operand: the value must be RFC 3339 or yyyy-mm-dd, else Err
func (c Cond) value(v string) Verdict {
	b := func(x bool) Verdict {
		if x {
			return True
		}
		return False
	}
	switch c.Kind {
	case KStr:
		switch c.Op {
		case OpEq:
			return b(v == c.S)
		case OpContains:
			return b(strings.Contains(v, c.S))
		}
		return Err
	case KInt:
		if !canonInt.MatchString(v) {
			return Err
		}
		x, err := strconv.ParseInt(v, 10, 64)
		if err != nil {
			return Err
		}
		return b(cmpInt(x, c.I, c.Op))
	case KFloat:
		return Err
	case KTime, KDate:
		t, ok := parseTimeValue(v)
		if !ok {
			return Err
		}
		switch c.Op {
		case OpEq:
			return b(t.Equal(c.T))
		case OpLt:
			return b(t.Before(c.T))
		case OpLe:
			return b(!t.After(c.T))
		case OpGt:
			return b(t.After(c.T))
		case OpGe:
			return b(!t.Before(c.T))
		}
	}
	return Err
}

// Eval: strict, order-independent verdict of one condition.
func (c Cond) Eval(ev map[string][]string) Verdict {
	if c.Op == OpExists {
		if !strings.Contains(c.Tag, ".") {
			return Err // bare event-type EXISTS: exploratory class only
		}
		if _, ok := ev[c.Tag]; ok {
			return True
		}
		return False
	}
	vals, ok := ev[c.Tag]
	if !ok {
		return False
	}
	res := False
	for _, v := range vals {
		switch c.value(v) {
		case Err:
			return Err
		case True:
			res = True
		}
	}
	return res
}

func (q Query) Eval(ev map[string][]string) Verdict {
	res := True
	for _, c := range q {
		switch c.Eval(ev) {
		case Err:
			return Err
		case False:
			res = False
		}
	}
	return res
}

// MayFail answers: can a left-to-right, first-value-first evaluation ("an
// error is returned if any attempted match returns an error") reach a
// comparison that fails?  Conditions in order, stopping at the first false;
// values in order, stopping at the first true.  A value with digits inside
// other text under an integer operand ("2017-01-01", "8stake") is treated as
// unknown (best-effort conversions may make it anything).  It is used ONLY to
// name the finding class of an already established violation (did another
// subscriber's query fail on this event?), never to decide.
func (q Query) MayFail(ev map[string][]string) bool {
	for _, c := range q {
		if c.Op == OpExists {
			if c.Eval(ev) != True {
				return false
			}
			continue
		}
		vals, ok := ev[c.Tag]
		if !ok {
			return false
		}
		canBeTrue := false
		for _, v := range vals {
			r := c.value(v)
			if r == Err {
				if c.Kind == KInt && hasDigit.MatchString(v) {
					canBeTrue = true // unknown: true, false or failing
					continue
				}
				return true // reached a comparison that cannot be made
			}
			if r == True {
				canBeTrue = true
				break
			}
		}
		if !canBeTrue {
			return false
		}
	}
	return false
}

// ---------------------------------------------------------------------------
// Loose evaluation for the exploratory classes (never decides anything): the
// "mathematical" reading of values that are numbers but not canonical
// non-negative integers.  class names the first exploratory feature met.

var looseNum = regexp.MustCompile(`^[+-]?([0-9]+(\.[0-9]*)?|\.[0-9]+)$`)

func (c Cond) looseValue(v string) (Verdict, string) {
	switch c.Kind {
	case KInt, KFloat:
		if !looseNum.MatchString(v) {
			if hasDigit.MatchString(v) {
				return Err, "digits-inside-text"
			}
			return Err, ""
		}
		class := ""
		switch {
		case strings.HasPrefix(v, "-"):
			class = "negative-number"
		case strings.HasPrefix(v, "+"):
			class = "plus-sign"
		case strings.Contains(v, "."):
			class = "decimal-value"
		case !canonInt.MatchString(v):
			class = "leading-zeros"
		}
		if c.Kind == KFloat && class == "" {
			class = "float-operand"
		}
		x, err := strconv.ParseFloat(v, 64)
		if err != nil {
			return Err, class
		}
		opnd := c.F
		if c.Kind == KInt {
			opnd = float64(c.I)
		}
		if cmpFloat(x, opnd, c.Op) {
			return True, class
		}
		return False, class
	}
	return c.value(v), ""
}

// EvalLoose returns the loose verdict and the exploratory class that made the
// strict verdict Err ("" if none applies).
func (q Query) EvalLoose(ev map[string][]string) (Verdict, string) {
	res := True
	class := ""
	for _, c := range q {
		if c.Op == OpExists {
			if !strings.Contains(c.Tag, ".") {
				class = "bare-type-exists"
				found := false
				for k := range ev {
					if strings.HasPrefix(k, c.Tag) {
						found = true
					}
				}
				if !found {
					res = False
				}
				continue
			}
			if c.Eval(ev) == False {
				res = False
			}
			continue
		}
		vals, ok := ev[c.Tag]
		if !ok {
			res = False
			continue
		}
		cres := False
		for _, v := range vals {
			r, cl := c.looseValue(v)
			if cl != "" && class == "" {
				class = cl
			}
			if r == Err {
				return Err, class
			}
			if r == True {
				cres = True
			}
		}
		if cres == False {
			res = False
		}
	}
	return res, class
}

// EvalRangeJoined is the other defensible reading of several range conditions
// on the same key: ONE value must lie inside all of them (an interval), while
// Eval lets each condition be satisfied by a different value.  The two differ
// only for keys that carry several values.  Search results are decided only
// where both readings agree.
func (q Query) EvalRangeJoined(ev map[string][]string) Verdict {
	if v := q.Eval(ev); v != True {
		return v
	}
	byKey := map[string][]Cond{}
	for _, c := range q {
		if c.Op.isRange() {
			byKey[c.Tag] = append(byKey[c.Tag], c)
		}
	}
	for k, cs := range byKey {
		if len(cs) < 2 {
			continue
		}
		ok := false
		for _, v := range ev[k] {
			all := true
			for _, c := range cs {
				if c.value(v) != True {
					all = false
				}
			}
			if all {
				ok = true
			}
		}
		if !ok {
			return False
		}
	}
	return True
}
