package c19

// Stage "unsub": Unsubscribe / UnsubscribeAll that FAIL (context cancelled or
// expired before the busy server loop takes the command) and Unsubscribe /
// Subscribe racing from several goroutines.  Real pubsub.Server, -race build.
//
// Scenario A (deterministic, no timing): the server is wedged on purpose -- a
// subscriber with an UNBUFFERED channel stops reading, the loop blocks handing
// it a message, and (capacity C > 0) C further publications fill the command
// queue.  While it is wedged nothing can be accepted, so Unsubscribe with a
// cancelled / 1 ms context must return that context's error: the client has
// been told it is STILL subscribed.  Then the slow reader resumes and
//
//	(a) the original handle keeps receiving every matching message, in
//	    order, once (or is cancelled explicitly);
//	(b) Subscribe with the same id and query returns ErrAlreadySubscribed;
//	(c) a retried Unsubscribe with a good context returns nil and the handle
//	    is cancelled with ErrUnsubscribed;
//
// and NumClientSubscriptions / NumClients agree with what is served at every
// checkpoint.
//
// Scenario B (racing, many repetitions): goroutines call Unsubscribe[All] and
// Subscribe for one client concurrently while a publisher publishes matching
// messages.  Afterwards the client is unsubscribed through the API until the
// API says nothing is left; after a barrier EVERY handle ever returned by
// Subscribe must have been cancelled with a reason.  A handle that is not
// cancelled is probed with further matching publications: fed => it is served
// although the server says the client has no subscription; not fed => it was
// silently orphaned.  While it lived, every handle must have received the
// matching messages of a conservatively computed window without gaps.
//
// Barrier as in pubsub.go: C+1 further commands accepted => everything before
// them has been handled.

import (
	"context"
	"fmt"
	"math/rand"
	"sync"
	"sync/atomic"
	"time"

	"github.com/tendermint/tendermint/libs/pubsub"
	"github.com/tendermint/tendermint/libs/pubsub/query"

	"verif/verdict"
)

type ucHandle struct {
	sub    *pubsub.Subscription
	query  string
	a0, a1 int64
	mu     sync.Mutex
	ids    []int
	done   chan struct{}
}

func (h *ucHandle) read(pauseAfter int, gate <-chan struct{}) {
	defer close(h.done)
	n := 0
	for {
		if gate != nil && n == pauseAfter {
			select {
			case <-gate:
				gate = nil
			case <-h.sub.Cancelled():
				return
			}
		}
		select {
		case m := <-h.sub.Out():
			id, _ := m.Data().(int)
			h.mu.Lock()
			h.ids = append(h.ids, id)
			h.mu.Unlock()
			n++
		case <-h.sub.Cancelled():
			for {
				select {
				case m := <-h.sub.Out():
					id, _ := m.Data().(int)
					h.mu.Lock()
					h.ids = append(h.ids, id)
					h.mu.Unlock()
				default:
					return
				}
			}
		}
	}
}

func (h *ucHandle) snapshot() []int {
	h.mu.Lock()
	defer h.mu.Unlock()
	return append([]int(nil), h.ids...)
}

func (h *ucHandle) cancelled() bool {
	select {
	case <-h.sub.Cancelled():
		return true
	default:
		return false
	}
}

type ucPub struct {
	s0, s1 int64
	match  bool // matches the target queries (k = 'v' / k EXISTS)
}

type ucRun struct {
	srv  *pubsub.Server
	cap  int
	clk  int64
	mu   sync.Mutex
	pubs []ucPub
}

func (u *ucRun) tick() int64 { return atomic.AddInt64(&u.clk, 1) }

var ucMatchEvents = map[string][]string{"k": {"v"}}

// publish one message; id = index in u.pubs.  Only one goroutine publishes.
func (u *ucRun) publish(match bool) int {
	u.mu.Lock()
	id := len(u.pubs)
	u.pubs = append(u.pubs, ucPub{match: match})
	u.mu.Unlock()
	s0 := u.tick()
	ev := map[string][]string{"zz.barrier": {"1"}}
	if match {
		ev = map[string][]string{"k": {"v"}}
	}
	_ = u.srv.PublishWithEvents(context.Background(), id, ev)
	s1 := u.tick()
	u.mu.Lock()
	u.pubs[id].s0, u.pubs[id].s1 = s0, s1
	u.mu.Unlock()
	return id
}

func (u *ucRun) barrier() {
	for i := 0; i <= u.cap; i++ {
		u.publish(false)
	}
}

// missing: matching publications entirely inside (from, to) that are not in got; also order / duplicates.
func (u *ucRun) judge(got []int, from, to int64) (missing []int, gap bool, disorder bool) {
	seen := map[int]bool{}
	last := -1
	for _, id := range got {
		if seen[id] || id < last {
			disorder = true
		}
		seen[id] = true
		if id > last {
			last = id
		}
	}
	u.mu.Lock()
	defer u.mu.Unlock()
	for id, p := range u.pubs {
		if p.match && p.s0 > from && p.s1 != 0 && p.s1 < to && !seen[id] {
			missing = append(missing, id)
			if id < last {
				gap = true
			}
		}
	}
	return
}

// ---------------------------------------------------------------------------
// scenario A

type ucSpecA struct {
	Cap        int    `json:"server_queue_capacity"`
	All        bool   `json:"use_unsubscribe_all"`
	Ctx        string `json:"failing_context"` // cancelled | deadline-1ms
	TargetCap  int    `json:"target_subscription_capacity"`
	NBefore    int    `json:"publications_before_wedge"`
	NAfter1    int    `json:"publications_after_failed_unsubscribe"`
	NAfter2    int    `json:"publications_after_refused_resubscribe"`
	FailedTrys int    `json:"failing_unsubscribe_calls"`
}

func unsubCaseA(c *verdict.Ctx, s sink, idx int) {
	r := c.Rand("unsub", idx)
	sp := ucSpecA{Cap: []int{0, 0, 1, 2, 8}[r.Intn(5)], All: r.Intn(2) == 0, Ctx: []string{"cancelled", "deadline-1ms"}[r.Intn(2)],
		TargetCap: []int{0, 64, 256}[r.Intn(3)], NBefore: r.Intn(4), NAfter1: 1 + r.Intn(6), NAfter2: 1 + r.Intn(6), FailedTrys: 1 + r.Intn(3)}
	s.Eval()
	type result struct {
		viol  [][2]string
		notes map[string]int64
		w     map[string]interface{}
	}
	resCh := make(chan result, 1)
	go func() {
		res := result{notes: map[string]int64{}, w: map[string]interface{}{"stream": "unsub", "case": idx, "scenario": "A", "spec": sp}}
		fail := func(key, what string) { res.viol = append(res.viol, [2]string{key, what}) }
		bg := context.Background()
		u := &ucRun{cap: sp.Cap}
		u.srv = pubsub.NewServer(pubsub.BufferCapacity(sp.Cap))
		if err := u.srv.Start(); err != nil {
			fail("harness", "server start: "+err.Error())
			resCh <- res
			return
		}
		defer func() { go u.srv.Stop() }() //nolint:errcheck
		qT := query.MustParse("k = 'v'")
		qS := query.MustParse("k EXISTS")
		counts := func(at string, wantC, wantClients int) {
			nc, ncl := u.srv.NumClientSubscriptions("c"), u.srv.NumClients()
			res.w["counts_"+at] = [2]int{nc, ncl}
			if nc != wantC || ncl != wantClients {
				fail("pubsub-subscription-count-disagrees-after-failed-unsubscribe",
					fmt.Sprintf("%s: NumClientSubscriptions(c)=%d NumClients=%d, served: %d subscription(s) of c, %d clients", at, nc, ncl, wantC, wantClients))
			}
		}

		gate := make(chan struct{})
		slow := &ucHandle{done: make(chan struct{}), query: "k EXISTS"}
		sub, err := u.srv.SubscribeUnbuffered(bg, "slow", qS)
		if err != nil {
			fail("harness", "slow subscribe: "+err.Error())
			resCh <- res
			return
		}
		slow.sub = sub
		go slow.read(sp.NBefore, gate)

		T := &ucHandle{done: make(chan struct{}), query: "k = 'v'"}
		T.a0 = u.tick()
		if sp.TargetCap == 0 {
			sub, err = u.srv.SubscribeUnbuffered(bg, "c", qT)
		} else {
			sub, err = u.srv.Subscribe(bg, "c", qT, sp.TargetCap)
		}
		T.a1 = u.tick()
		if err != nil {
			fail("harness", "target subscribe: "+err.Error())
			resCh <- res
			return
		}
		T.sub = sub
		go T.read(0, nil)

		for i := 0; i < sp.NBefore; i++ {
			u.publish(true)
		}
		// wedge: the loop blocks handing this one to the slow unbuffered subscriber; then fill the queue
		u.publish(true)
		for i := 0; i < sp.Cap; i++ {
			u.publish(true)
		}
		// failing Unsubscribe / UnsubscribeAll
		accepted := false
		for i := 0; i < sp.FailedTrys && !accepted; i++ {
			var ctx context.Context
			var cancel context.CancelFunc
			if sp.Ctx == "cancelled" {
				ctx, cancel = context.WithCancel(bg)
				cancel()
			} else {
				ctx, cancel = context.WithTimeout(bg, time.Millisecond)
			}
			var uerr error
			if sp.All {
				uerr = u.srv.UnsubscribeAll(ctx, "c")
			} else {
				uerr = u.srv.Unsubscribe(ctx, "c", qT)
			}
			cancel()
			res.w["failed_unsubscribe_error"] = fmt.Sprint(uerr)
			if uerr == nil {
				accepted = true
				res.notes["unsub.A.unsubscribe_accepted_by_wedged_server"]++
			} else {
				res.notes["unsub.A.unsubscribe_failed_as_intended"]++
			}
		}
		if accepted {
			// cannot happen while the server is wedged; if it does the scenario is void
			close(gate)
			res.notes["unsub.A.void"]++
			resCh <- res
			return
		}
		counts("while wedged after the failed unsubscribe", 1, 2)
		// (b) while still wedged: the presence check precedes the queue, so even a dead context gets the answer
		{
			ctx, cancel := context.WithCancel(bg)
			cancel()
			h, err := u.srv.Subscribe(ctx, "c", qT, 8)
			res.w["resubscribe_while_wedged"] = fmt.Sprint(err)
			if err == nil && h != nil {
				fail("pubsub-resubscribe-accepted-while-still-subscribed", "Subscribe(c, k = 'v') returned a new handle although the failed Unsubscribe left the client subscribed (server wedged)")
			} else if err != pubsub.ErrAlreadySubscribed {
				fail("pubsub-resubscribe-not-refused-while-still-subscribed", fmt.Sprintf("Subscribe(c, k = 'v') after a failed Unsubscribe returned %v, not ErrAlreadySubscribed", err))
			}
		}
		// the slow reader resumes
		close(gate)
		for i := 0; i < sp.NAfter1; i++ {
			u.publish(true)
		}
		u.barrier()
		counts("after the slow reader resumed", 1, 2)
		var H2 *ucHandle
		{
			h, err := u.srv.Subscribe(bg, "c", qT, 64)
			res.w["resubscribe_after_resume"] = fmt.Sprint(err)
			if err == nil && h != nil {
				H2 = &ucHandle{sub: h, done: make(chan struct{})}
				go H2.read(0, nil)
				fail("pubsub-resubscribe-accepted-while-still-subscribed", "Subscribe(c, k = 'v') returned a new handle although the failed Unsubscribe left the client subscribed")
			} else if err != pubsub.ErrAlreadySubscribed {
				fail("pubsub-resubscribe-not-refused-while-still-subscribed", fmt.Sprintf("Subscribe(c, k = 'v') after a failed Unsubscribe returned %v, not ErrAlreadySubscribed", err))
			}
		}
		for i := 0; i < sp.NAfter2; i++ {
			u.publish(true)
		}
		// (c) retry with a good context
		u0 := u.tick()
		var uerr error
		if sp.All {
			uerr = u.srv.UnsubscribeAll(bg, "c")
		} else {
			uerr = u.srv.Unsubscribe(bg, "c", qT)
		}
		u.tick()
		if uerr != nil {
			fail("pubsub-retried-unsubscribe-fails", fmt.Sprintf("the retried Unsubscribe with a good context returned %v", uerr))
		}
		u.barrier()
		counts("after the retried unsubscribe", 0, 1)
		tErr := T.sub.Err()
		res.w["target_err"] = fmt.Sprint(tErr)
		if !T.cancelled() {
			fail("pubsub-subscription-not-cancelled-after-unsubscribe", "the retried Unsubscribe returned but the handle's Cancelled() is still open after the barrier")
		} else {
			<-T.done
			if tErr != pubsub.ErrUnsubscribed && tErr != pubsub.ErrOutOfCapacity {
				fail("pubsub-cancelled-without-reason", fmt.Sprintf("handle cancelled with Err()=%v", tErr))
			}
			got := T.snapshot()
			missing, gap, disorder := u.judge(got, T.a1, u0)
			res.w["target_received"] = got
			res.w["target_missing"] = missing
			res.notes["unsub.A.target_messages_obliged"] += int64(len(got) + len(missing))
			if disorder {
				fail("pubsub-out-of-order-delivery", fmt.Sprintf("handle received %v", got))
			}
			if len(missing) > 0 && !(tErr == pubsub.ErrOutOfCapacity && !gap) {
				fail("pubsub-handle-orphaned-after-failed-unsubscribe",
					fmt.Sprintf("Unsubscribe returned %v (client told it is still subscribed), but the handle did not receive matching publications %v published before the successful Unsubscribe (received %v, Err()=%v)",
						res.w["failed_unsubscribe_error"], missing, got, tErr))
			}
		}
		if H2 != nil {
			_ = H2
		}
		_ = u.srv.Unsubscribe(bg, "slow", qS)
		res.notes["unsub.A.runs"]++
		resCh <- res
	}()
	select {
	case res := <-resCh:
		for k, n := range res.notes {
			s.Count(k, n)
		}
		seen := map[string]bool{}
		for _, v := range res.viol {
			if v[0] == "harness" {
				s.HarnessError("unsub A: %s", v[1])
				continue
			}
			if !seen[v[0]] {
				seen[v[0]] = true
				s.Violation(v[0], v[1], res.w)
			}
		}
		if len(res.viol) == 0 && res.notes["unsub.A.runs"] > 0 {
			s.Distinct(fmt.Sprintf("unsubA|%d|%+v", idx, sp))
			if s.WantSample() && idx%50 == 0 {
				s.Sample(res.w)
			}
		}
	case <-time.After(60 * time.Second):
		s.Inconclusive("unsub A: watchdog fired")
	}
}

// ---------------------------------------------------------------------------
// scenario B

type ucSpecB struct {
	Variant string `json:"variant"`
	Cap     int    `json:"server_queue_capacity"`
	Reps    int    `json:"repetitions_per_goroutine"`
	SubCap  int    `json:"subscription_capacity"`
}

var ucVariants = []string{"unsubscribe-vs-subscribe", "unsubscribeall-vs-subscribe", "unsubscribeall-vs-subscribe-two-queries", "unsubscribe-vs-two-concurrent-subscribes"}

func unsubCaseB(c *verdict.Ctx, s sink, idx int) {
	r := c.Rand("unsub", idx)
	sp := ucSpecB{Variant: ucVariants[r.Intn(len(ucVariants))], Cap: []int{0, 0, 1, 4}[r.Intn(4)], Reps: 40 + r.Intn(80), SubCap: []int{0, 4, 64}[r.Intn(3)]}
	s.Eval()
	type result struct {
		viol  [][2]string
		notes map[string]int64
		w     map[string]interface{}
	}
	resCh := make(chan result, 1)
	go func() {
		res := result{notes: map[string]int64{}, w: map[string]interface{}{"stream": "unsub", "case": idx, "scenario": "B", "spec": sp}}
		fail := func(key, what string) { res.viol = append(res.viol, [2]string{key, what}) }
		bg := context.Background()
		u := &ucRun{cap: sp.Cap}
		u.srv = pubsub.NewServer(pubsub.BufferCapacity(sp.Cap))
		if err := u.srv.Start(); err != nil {
			fail("harness", "server start: "+err.Error())
			resCh <- res
			return
		}
		defer func() { go u.srv.Stop() }() //nolint:errcheck
		qs := []*query.Query{query.MustParse("k = 'v'"), query.MustParse("k EXISTS")}

		var hmu sync.Mutex
		var handles []*ucHandle
		type unsubCall struct {
			u0, u1 int64
			ok     bool
		}
		var unsubs []unsubCall
		subscribe := func(qi int) {
			h := &ucHandle{done: make(chan struct{}), query: qs[qi].String()}
			h.a0 = u.tick()
			var sub *pubsub.Subscription
			var err error
			if sp.SubCap == 0 {
				sub, err = u.srv.SubscribeUnbuffered(bg, "c", qs[qi])
			} else {
				sub, err = u.srv.Subscribe(bg, "c", qs[qi], sp.SubCap)
			}
			h.a1 = u.tick()
			if err != nil {
				hmu.Lock()
				res.notes["unsub.B.subscribe_refused"]++
				hmu.Unlock()
				return
			}
			h.sub = sub
			go h.read(0, nil)
			hmu.Lock()
			handles = append(handles, h)
			res.notes["unsub.B.handles"]++
			hmu.Unlock()
		}
		unsubscribe := func(all bool, qi int) {
			u0 := u.tick()
			var err error
			if all {
				err = u.srv.UnsubscribeAll(bg, "c")
			} else {
				err = u.srv.Unsubscribe(bg, "c", qs[qi])
			}
			u1 := u.tick()
			hmu.Lock()
			unsubs = append(unsubs, unsubCall{u0, u1, err == nil})
			if err == nil {
				res.notes["unsub.B.unsubscribe_ok"]++
			} else {
				res.notes["unsub.B.unsubscribe_not_found"]++
			}
			hmu.Unlock()
		}

		stop := make(chan struct{})
		var pubDone sync.WaitGroup
		pubDone.Add(1)
		go func() { // the single publisher
			defer pubDone.Done()
			for i := 0; i < 400; i++ {
				select {
				case <-stop:
					return
				default:
				}
				u.publish(true)
			}
		}()
		// rounds: in every round all actors are released at the same instant, so that the calls collide
		var actors []func(i int)
		switch sp.Variant {
		case "unsubscribe-vs-subscribe":
			actors = []func(int){func(int) { subscribe(0) }, func(int) { unsubscribe(false, 0) }}
		case "unsubscribeall-vs-subscribe":
			actors = []func(int){func(int) { subscribe(0) }, func(int) { unsubscribe(true, 0) }}
		case "unsubscribeall-vs-subscribe-two-queries":
			actors = []func(int){func(i int) { subscribe(i % 2) }, func(int) { unsubscribe(true, 0) }}
		case "unsubscribe-vs-two-concurrent-subscribes":
			actors = []func(int){func(int) { subscribe(0) }, func(int) { subscribe(0) }, func(int) { unsubscribe(false, 0) }}
		}
		for round := 0; round < sp.Reps; round++ {
			start := make(chan struct{})
			var wg sync.WaitGroup
			for _, f := range actors {
				f := f
				wg.Add(1)
				go func() {
					defer wg.Done()
					<-start
					f(round)
				}()
			}
			close(start)
			wg.Wait()
		}
		close(stop)
		pubDone.Wait()

		// unsubscribe through the API until the API says nothing is left
		for i := 0; i < 4; i++ {
			u0 := u.tick()
			err := u.srv.UnsubscribeAll(bg, "c")
			u1 := u.tick()
			unsubs = append(unsubs, unsubCall{u0, u1, err == nil})
			if err != nil {
				break
			}
		}
		endClock := u.tick()
		u.barrier()
		if n := u.srv.NumClientSubscriptions("c"); n != 0 {
			fail("pubsub-subscription-count-disagrees-after-race", fmt.Sprintf("after UnsubscribeAll returned ErrSubscriptionNotFound, NumClientSubscriptions(c) = %d", n))
		}
		// every handle ever returned must be cancelled now
		var open []*ucHandle
		for _, h := range handles {
			if !h.cancelled() {
				open = append(open, h)
			}
		}
		if len(open) > 0 {
			// received so far = noted by the reader + still in the channel (a message being moved
			// from one to the other is in neither for an instant, hence the threshold below)
			seenBy := func(h *ucHandle) int { return len(h.snapshot()) + len(h.sub.Out()) }
			before := make([]int, len(open))
			for i, h := range open {
				before[i] = seenBy(h)
			}
			for i := 0; i < 5; i++ {
				u.publish(true)
			}
			u.barrier()
			for i, h := range open {
				fed := seenBy(h) - before[i]
				if fed >= 2 {
					fail("pubsub-handle-served-but-unregistered-after-racing-"+sp.Variant,
						fmt.Sprintf("a handle for %q returned by Subscribe (clock %d..%d) is still fed (%d of 5 probe messages) and not cancelled although UnsubscribeAll reports ErrSubscriptionNotFound and NumClientSubscriptions(c)=%d: the client can no longer unsubscribe it",
							h.query, h.a0, h.a1, fed, u.srv.NumClientSubscriptions("c")))
				} else {
					fail("pubsub-handle-orphaned-after-racing-"+sp.Variant,
						fmt.Sprintf("a handle for %q returned by Subscribe with a nil error (clock %d..%d) was neither cancelled nor fed any of 5 matching probe messages: silently orphaned", h.query, h.a0, h.a1))
				}
			}
		}
		// while it lived: no gaps inside a conservative window
		for _, h := range handles {
			if !h.cancelled() {
				continue
			}
			<-h.done
			err := h.sub.Err()
			if err == nil {
				fail("pubsub-cancelled-without-reason", "a handle was cancelled with Err() == nil")
			}
			// the handle certainly lived until the first successful unsubscribe call that returned after Subscribe was called
			to := endClock
			for _, uc := range unsubs {
				if uc.ok && uc.u1 > h.a0 && uc.u0 < to {
					to = uc.u0
				}
			}
			got := h.snapshot()
			missing, gap, disorder := u.judge(got, h.a1, to)
			res.notes["unsub.B.messages_delivered"] += int64(len(got))
			res.notes["unsub.B.messages_obliged"] += int64(len(missing))
			for _, id := range got {
				u.mu.Lock()
				p := u.pubs[id]
				u.mu.Unlock()
				if p.s0 > h.a1 && p.s1 < to {
					res.notes["unsub.B.messages_obliged"]++
				}
				if p.s1 != 0 && p.s1 < h.a0 {
					fail("pubsub-delivered-outside-subscription", fmt.Sprintf("a handle received publication %d published entirely before Subscribe was called", id))
				}
			}
			if disorder {
				fail("pubsub-out-of-order-delivery", fmt.Sprintf("a handle received %v", got))
			}
			if len(missing) > 0 && !(err == pubsub.ErrOutOfCapacity && !gap) {
				fail("pubsub-missed-matching-event", fmt.Sprintf("a handle (clock %d..%d, Err()=%v) did not receive matching publications %v published while it was the live subscription (received %v)", h.a0, h.a1, err, missing, got))
			}
		}
		res.w["handles"] = len(handles)
		res.w["open_handles_after_final_unsubscribe"] = len(open)
		res.notes["unsub.B.runs"]++
		res.notes["unsub.B.runs."+sp.Variant]++
		resCh <- res
	}()
	select {
	case res := <-resCh:
		for k, n := range res.notes {
			s.Count(k, n)
		}
		seen := map[string]bool{}
		for _, v := range res.viol {
			if v[0] == "harness" {
				s.HarnessError("unsub B: %s", v[1])
				continue
			}
			s.Count("unsub.finding."+v[0], 1)
			if !seen[v[0]] {
				seen[v[0]] = true
				s.Violation(v[0], v[1], res.w)
			}
		}
		if res.notes["unsub.B.handles"] >= 2 {
			s.Distinct(fmt.Sprintf("unsubB|%d|%+v", idx, sp))
		}
	case <-time.After(90 * time.Second):
		s.Inconclusive("unsub B: watchdog fired (" + sp.Variant + ")")
	}
}

func unsubCase(c *verdict.Ctx, s sink, idx int) {
	if idx%2 == 0 {
		unsubCaseA(c, s, idx)
	} else {
		unsubCaseB(c, s, idx)
	}
}

func runUnsub(c *verdict.Ctx, s sink, from, to int) {
	parallel(from, to, func(i int) { unsubCase(c, s, i) })
}

var _ = rand.Intn
