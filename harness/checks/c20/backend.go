package c20

import (
	"context"
	"errors"
	"fmt"
	"strings"
	"sync"

	abci "github.com/tendermint/tendermint/abci/types"
	"github.com/tendermint/tendermint/consensus"
	tmbytes "github.com/tendermint/tendermint/libs/bytes"
	tmjson "github.com/tendermint/tendermint/libs/json"
	"github.com/tendermint/tendermint/libs/log"
	rpcclient "github.com/tendermint/tendermint/rpc/client"
	rpccore "github.com/tendermint/tendermint/rpc/core"
	ctypes "github.com/tendermint/tendermint/rpc/core/types"
	rpctypes "github.com/tendermint/tendermint/rpc/jsonrpc/types"
	"github.com/tendermint/tendermint/types"
)

// setEnv points the process-global rpc/core environment at one generated chain:
// the full node whose RPC functions answer is the real rpc/core code reading
// the stores that the real executor filled.  One chain at a time per process.
func setEnv(cc *chainCtx) {
	rpccore.SetEnvironment(&rpccore.Environment{
		BlockStore: cc.ch.BlockStore, StateStore: cc.ch.StateStore, TxIndexer: cc.indexer,
		ConsensusReactor: &consensus.Reactor{}, // WaitSync() == false: the node is caught up
		GenDoc:           cc.ch.GenDoc, Logger: log.NewNopLogger(), ProxyAppQuery: cc.ch.Conns.Query(),
	})
}

var rctx = &rpctypes.Context{}

// backend is the rpcclient.Client handed to light/rpc as `next`.  Every answer
// is produced by the real rpc/core function (what rpc/client/local does), then
// optionally falsified in exactly one place, then passed through the JSON
// encoding of the RPC wire (tmjson), so that the verifying client sees what a
// remote server could have put on the wire: no cached hashes, no shared pointers.
type backend struct {
	rpcclient.Client // nil: any method not overridden below panics (and is reported)
	cc               *chainCtx
	name             string

	mu       sync.Mutex
	method   string                      // the method whose response is falsified ("" = honest)
	targetH  int64                       // if != 0, only responses about this height are falsified
	mutate   func(resp interface{}) bool // applied to the honest response; true = a falsification was applied
	calls    map[string]int
	applied  int               // falsified answers served
	declined int               // answers of `method` to which the falsification did not apply
	wire     map[string][]byte // canonical JSON of the last answer served, per method
	// cutoff != 0: as a light provider the node claims that `cutoff` is its latest height: signed headers and
	// validator sets above it are "not there yet" (rpc/core's own too-high error).  Its other answers are unaffected.
	cutoff int64
}

func newBackend(cc *chainCtx, name string) *backend {
	return &backend{cc: cc, name: name, calls: map[string]int{}, wire: map[string][]byte{}}
}

func (b *backend) IsRunning() bool { return true }
func (b *backend) Remote() string  { return b.name }
func (b *backend) BroadcastEvidence(context.Context, types.Evidence) (*ctypes.ResultBroadcastEvidence, error) {
	return &ctypes.ResultBroadcastEvidence{}, nil
}

func (b *backend) set(method string, targetH int64, mutate func(resp interface{}) bool) {
	b.mu.Lock()
	b.method, b.targetH, b.mutate, b.applied, b.declined = method, targetH, mutate, 0, 0
	b.mu.Unlock()
}

func respHeight(resp interface{}) int64 {
	switch v := resp.(type) {
	case *ctypes.ResultCommit:
		if v.Header != nil {
			return v.Height
		}
	case *ctypes.ResultValidators:
		return v.BlockHeight
	}
	return 0
}

// serve: falsify (if this is the targeted method / height) and wire-roundtrip into out.
func (b *backend) serve(method string, resp interface{}, out interface{}) error {
	b.mu.Lock()
	defer b.mu.Unlock()
	b.calls[method]++
	if b.mutate != nil && (method == b.method || strings.Contains(","+b.method+",", ","+method+",")) && (b.targetH == 0 || respHeight(resp) == b.targetH) {
		if b.mutate(resp) {
			b.applied++
		} else {
			b.declined++
		}
	}
	bz, err := tmjson.Marshal(resp)
	if err != nil {
		return fmt.Errorf("harness: cannot encode %s response: %w", method, err)
	}
	if err := tmjson.Unmarshal(bz, out); err != nil {
		return fmt.Errorf("harness: cannot decode %s response: %w", method, err)
	}
	// what the receiver holds, in canonical form (nil and empty lists encode differently before and after a decode)
	b.wire[method], _ = tmjson.Marshal(out)
	return nil
}

func (b *backend) Status(ctx context.Context) (*ctypes.ResultStatus, error) {
	// rpc/core Status needs a p2p transport; only the latest height is read by light/rpc.
	st := &ctypes.ResultStatus{}
	st.SyncInfo.LatestBlockHeight = b.cc.ch.BlockStore.Height()
	return st, nil
}

func (b *backend) Block(ctx context.Context, height *int64) (*ctypes.ResultBlock, error) {
	res, err := rpccore.Block(rctx, height)
	if err != nil {
		return nil, err
	}
	out := new(ctypes.ResultBlock)
	return out, b.serve("Block", res, out)
}

func (b *backend) BlockByHash(ctx context.Context, hash []byte) (*ctypes.ResultBlock, error) {
	res, err := rpccore.BlockByHash(rctx, hash)
	if err != nil {
		return nil, err
	}
	out := new(ctypes.ResultBlock)
	return out, b.serve("BlockByHash", res, out)
}

func (b *backend) BlockResults(ctx context.Context, height *int64) (*ctypes.ResultBlockResults, error) {
	res, err := rpccore.BlockResults(rctx, height)
	if err != nil {
		return nil, err
	}
	out := new(ctypes.ResultBlockResults)
	return out, b.serve("BlockResults", res, out)
}

func (b *backend) withheld(height *int64) (*int64, error) {
	if b.cutoff == 0 {
		return height, nil
	}
	if height == nil {
		h := b.cutoff
		return &h, nil
	}
	if *height > b.cutoff {
		return nil, fmt.Errorf("height %d must be less than or equal to the current blockchain height %d", *height, b.cutoff)
	}
	return height, nil
}

func (b *backend) Commit(ctx context.Context, height *int64) (*ctypes.ResultCommit, error) {
	height, werr := b.withheld(height)
	if werr != nil {
		return nil, werr
	}
	res, err := rpccore.Commit(rctx, height)
	if err != nil {
		return nil, err
	}
	if res == nil {
		return nil, errors.New("no commit")
	}
	out := new(ctypes.ResultCommit)
	return out, b.serve("Commit", res, out)
}

func (b *backend) Validators(ctx context.Context, height *int64, page, perPage *int) (*ctypes.ResultValidators, error) {
	height, werr := b.withheld(height)
	if werr != nil {
		return nil, werr
	}
	res, err := rpccore.Validators(rctx, height, page, perPage)
	if err != nil {
		return nil, err
	}
	out := new(ctypes.ResultValidators)
	return out, b.serve("Validators", res, out)
}

func (b *backend) ConsensusParams(ctx context.Context, height *int64) (*ctypes.ResultConsensusParams, error) {
	res, err := rpccore.ConsensusParams(rctx, height)
	if err != nil {
		return nil, err
	}
	out := new(ctypes.ResultConsensusParams)
	return out, b.serve("ConsensusParams", res, out)
}

func (b *backend) BlockchainInfo(ctx context.Context, minHeight, maxHeight int64) (*ctypes.ResultBlockchainInfo, error) {
	res, err := rpccore.BlockchainInfo(rctx, minHeight, maxHeight)
	if err != nil {
		return nil, err
	}
	out := new(ctypes.ResultBlockchainInfo)
	return out, b.serve("BlockchainInfo", res, out)
}

func (b *backend) Tx(ctx context.Context, hash []byte, prove bool) (*ctypes.ResultTx, error) {
	res, err := rpccore.Tx(rctx, hash, prove)
	if err != nil {
		b.mu.Lock()
		lying := b.mutate != nil && b.method == "Tx"
		b.mu.Unlock()
		if !lying {
			return nil, err
		}
		// a lying node need not admit that it does not know the tx: the falsification fills this empty record
		res = &ctypes.ResultTx{}
	}
	out := new(ctypes.ResultTx)
	return out, b.serve("Tx", res, out)
}

func (b *backend) TxSearch(ctx context.Context, query string, prove bool, page, perPage *int, orderBy string) (*ctypes.ResultTxSearch, error) {
	res, err := rpccore.TxSearch(rctx, query, prove, page, perPage, orderBy)
	if err != nil {
		return nil, err
	}
	out := new(ctypes.ResultTxSearch)
	return out, b.serve("TxSearch", res, out)
}

// provableQueryHeight: the application's state after height h is committed to
// by header h+1, so the newest state a light client can check is last-1.
func (b *backend) provableQueryHeight() int64 { return b.cc.last - 1 }

func (b *backend) ABCIQuery(ctx context.Context, path string, data tmbytes.HexBytes) (*ctypes.ResultABCIQuery, error) {
	return b.ABCIQueryWithOptions(ctx, path, data, rpcclient.DefaultABCIQueryOptions)
}

// ABCIQueryWithOptions answers with what the real application (through the real
// proxy connection, as rpc/core ABCIQuery does) said when it was at the
// requested height; recapp serves only its latest state, so the answers were
// recorded while the chain was built.
func (b *backend) ABCIQueryWithOptions(ctx context.Context, path string, data tmbytes.HexBytes, opts rpcclient.ABCIQueryOptions) (*ctypes.ResultABCIQuery, error) {
	h := opts.Height
	if h == 0 {
		h = b.provableQueryHeight()
	}
	ht := b.cc.truth[h]
	if ht == nil {
		return nil, fmt.Errorf("no state for height %d", h)
	}
	if !opts.Prove {
		return nil, errors.New("harness: only proven queries are served")
	}
	if strings.HasPrefix(path, "/store/") && strings.HasSuffix(path, "/key") && len(path) >= len("/store//key") {
		// the two-level store: [ValueOp(key), ValueOp(store name)] up to the mini-store root, then the application's
		// own recorded proof that the root is the value of k/ms at this height
		store := path[len("/store/") : len(path)-len("/key")]
		q := b.cc.msAnswer(store, string(data), h)
		out := new(ctypes.ResultABCIQuery)
		return out, b.serve("ABCIQuery", &ctypes.ResultABCIQuery{Response: *q}, out)
	}
	if path != "/key" {
		return nil, errors.New("harness: unknown query path")
	}
	var q abci.ResponseQuery
	bz, ok := ht.QueryAnsPB["k/"+string(data)]
	if !ok {
		q = abci.ResponseQuery{Key: []byte("k/" + string(data)), Height: h, Log: "does not exist"}
	} else if err := q.Unmarshal(bz); err != nil {
		return nil, err
	}
	out := new(ctypes.ResultABCIQuery)
	return out, b.serve("ABCIQuery", &ctypes.ResultABCIQuery{Response: q}, out)
}
