package c20

import (
	"bytes"
	"encoding/binary"
	"fmt"
	"math/rand"
	"time"

	abci "github.com/tendermint/tendermint/abci/types"
	"github.com/tendermint/tendermint/crypto/ed25519"
	"github.com/tendermint/tendermint/crypto/merkle"
	tmcrypto "github.com/tendermint/tendermint/proto/tendermint/crypto"
	tmproto "github.com/tendermint/tendermint/proto/tendermint/types"
	rpccore "github.com/tendermint/tendermint/rpc/core"
	ctypes "github.com/tendermint/tendermint/rpc/core/types"
	"github.com/tendermint/tendermint/types"

	"verif/ref"
)

// A falsification changes exactly one thing of an honest response (plus, for
// the "consistent" variants, the hashes a careful liar would recompute so that
// the response is self-consistent and only the comparison with the verified
// header can expose it).  Whether the result contradicts the verified headers
// is decided by the oracle (oracle.go), not by the name.
type fals struct {
	Name  string
	Class string // finding-key class: method + class name the call site / input class
	// Apply mutates resp (a response of the method, or *types.LightBlock for
	// provider-level falsifications); false = not applicable to this response.
	// For the classes clsSubst / clsRelabel (whole-record substitution, subst.go) the lie depends on what
	// was asked: resp is then a reqResp carrying the request next to the response.
	Apply func(r *rand.Rand, cc *chainCtx, resp interface{}) bool
}

type reqResp struct {
	rq   *request
	resp interface{}
}

func cpb(b []byte) []byte { return append([]byte{}, b...) }

// flipped returns b with one bit flipped (or 32 non-zero bytes if b is empty).
func flipped(r *rand.Rand, b []byte) []byte {
	if len(b) == 0 {
		out := make([]byte, 32)
		for i := range out {
			out[i] = byte(1 + r.Intn(255))
		}
		return out
	}
	out := cpb(b)
	out[r.Intn(len(out))] ^= 1 << uint(r.Intn(8))
	return out
}

type headerMut struct {
	name string
	f    func(r *rand.Rand, h *types.Header)
}

var headerMuts = []headerMut{
	{"Version.App+1", func(r *rand.Rand, h *types.Header) { h.Version.App++ }},
	{"Version.Block+1", func(r *rand.Rand, h *types.Header) { h.Version.Block++ }},
	{"ChainID", func(r *rand.Rand, h *types.Header) { h.ChainID += "x" }},
	{"Time+1ns", func(r *rand.Rand, h *types.Header) { h.Time = h.Time.Add(time.Nanosecond) }},
	{"LastBlockID.Hash", func(r *rand.Rand, h *types.Header) {
		if len(h.LastBlockID.Hash) == 0 {
			h.LastBlockID = types.BlockID{Hash: flipped(r, nil), PartSetHeader: types.PartSetHeader{Total: 1, Hash: flipped(r, nil)}}
			return
		}
		h.LastBlockID.Hash = flipped(r, h.LastBlockID.Hash)
	}},
	{"LastBlockID.PartSetHeader.Total+1", func(r *rand.Rand, h *types.Header) {
		if len(h.LastBlockID.Hash) == 0 {
			h.LastBlockID = types.BlockID{Hash: flipped(r, nil), PartSetHeader: types.PartSetHeader{Total: 2, Hash: flipped(r, nil)}}
			return
		}
		h.LastBlockID.PartSetHeader.Total++
	}},
	{"LastCommitHash", func(r *rand.Rand, h *types.Header) { h.LastCommitHash = flipped(r, h.LastCommitHash) }},
	{"DataHash", func(r *rand.Rand, h *types.Header) { h.DataHash = flipped(r, h.DataHash) }},
	{"ValidatorsHash", func(r *rand.Rand, h *types.Header) { h.ValidatorsHash = flipped(r, h.ValidatorsHash) }},
	{"NextValidatorsHash", func(r *rand.Rand, h *types.Header) { h.NextValidatorsHash = flipped(r, h.NextValidatorsHash) }},
	{"ConsensusHash", func(r *rand.Rand, h *types.Header) { h.ConsensusHash = flipped(r, h.ConsensusHash) }},
	{"AppHash", func(r *rand.Rand, h *types.Header) { h.AppHash = flipped(r, h.AppHash) }},
	{"LastResultsHash", func(r *rand.Rand, h *types.Header) { h.LastResultsHash = flipped(r, h.LastResultsHash) }},
	{"EvidenceHash", func(r *rand.Rand, h *types.Header) { h.EvidenceHash = flipped(r, h.EvidenceHash) }},
	{"ProposerAddress", func(r *rand.Rand, h *types.Header) { h.ProposerAddress = flipped(r, h.ProposerAddress) }},
}

// otherHeight picks a generated height != h satisfying pred (0 if none).
func (cc *chainCtx) otherHeight(r *rand.Rand, h int64, pred func(ht *heightTruth) bool) int64 {
	var c []int64
	for _, x := range cc.heights() {
		if x != h && (pred == nil || pred(cc.truth[x])) {
			c = append(c, x)
		}
	}
	if len(c) == 0 {
		return 0
	}
	return c[r.Intn(len(c))]
}

// ---------------------------------------------------------------- Block / BlockByHash

// the liar's bookkeeping: recompute what depends on the block body, then the block id hash
func rehashData(b *types.Block) {
	hs := make([][]byte, len(b.Data.Txs))
	for i, tx := range b.Data.Txs {
		hs[i] = ref.Sha256(tx)
	}
	b.DataHash = ref.MerkleRoot(hs)
}
func rehashID(res *ctypes.ResultBlock) { res.BlockID.Hash = res.Block.Header.Hash() }

func blockFals() []fals {
	var out []fals
	rb := func(resp interface{}) *ctypes.ResultBlock { return resp.(*ctypes.ResultBlock) }
	for _, hm := range headerMuts {
		hm := hm
		out = append(out, fals{"header " + hm.name + " (block id untouched)", "header-field", func(r *rand.Rand, cc *chainCtx, resp interface{}) bool {
			hm.f(r, &rb(resp).Block.Header)
			return true
		}})
		out = append(out, fals{"header " + hm.name + ", block id hash recomputed", "header-field", func(r *rand.Rand, cc *chainCtx, resp interface{}) bool {
			hm.f(r, &rb(resp).Block.Header)
			rehashID(rb(resp))
			return true
		}})
	}
	out = append(out,
		fals{"header Height -> another height, block id hash recomputed", "header-field", func(r *rand.Rand, cc *chainCtx, resp interface{}) bool {
			h2 := cc.otherHeight(r, rb(resp).Block.Height, nil)
			if h2 == 0 {
				return false
			}
			rb(resp).Block.Header.Height = h2
			rehashID(rb(resp))
			return true
		}},
		fals{"tx byte flipped (hashes untouched)", "tx-bytes", func(r *rand.Rand, cc *chainCtx, resp interface{}) bool {
			b := rb(resp).Block
			if len(b.Data.Txs) == 0 {
				return false
			}
			i := r.Intn(len(b.Data.Txs))
			b.Data.Txs[i] = flipped(r, b.Data.Txs[i])
			return true
		}},
		fals{"tx byte flipped, data hash and block id hash recomputed", "tx-bytes", func(r *rand.Rand, cc *chainCtx, resp interface{}) bool {
			b := rb(resp).Block
			if len(b.Data.Txs) == 0 {
				return false
			}
			i := r.Intn(len(b.Data.Txs))
			b.Data.Txs[i] = flipped(r, b.Data.Txs[i])
			rehashData(b)
			rehashID(rb(resp))
			return true
		}},
		fals{"tx byte flipped, data hash omitted, block id hash recomputed", "tx-bytes", func(r *rand.Rand, cc *chainCtx, resp interface{}) bool {
			b := rb(resp).Block
			if len(b.Data.Txs) == 0 {
				return false
			}
			i := r.Intn(len(b.Data.Txs))
			b.Data.Txs[i] = flipped(r, b.Data.Txs[i])
			rehashData(b)
			rehashID(rb(resp))
			b.DataHash = nil
			return true
		}},
		fals{"tx appended, hashes recomputed", "tx-bytes", func(r *rand.Rand, cc *chainCtx, resp interface{}) bool {
			b := rb(resp).Block
			b.Data.Txs = append(b.Data.Txs, types.Tx(fmt.Sprintf("forged-%d", r.Intn(1000))))
			rehashData(b)
			rehashID(rb(resp))
			return true
		}},
		fals{"tx appended (hashes untouched)", "tx-bytes", func(r *rand.Rand, cc *chainCtx, resp interface{}) bool {
			b := rb(resp).Block
			b.Data.Txs = append(b.Data.Txs, types.Tx(fmt.Sprintf("forged-%d", r.Intn(1000))))
			return true
		}},
		fals{"last tx removed, hashes recomputed", "tx-bytes", func(r *rand.Rand, cc *chainCtx, resp interface{}) bool {
			b := rb(resp).Block
			if len(b.Data.Txs) == 0 {
				return false
			}
			b.Data.Txs = b.Data.Txs[:len(b.Data.Txs)-1]
			rehashData(b)
			rehashID(rb(resp))
			return true
		}},
		fals{"two txs swapped, hashes recomputed", "tx-bytes", func(r *rand.Rand, cc *chainCtx, resp interface{}) bool {
			b := rb(resp).Block
			if len(b.Data.Txs) < 2 {
				return false
			}
			i := r.Intn(len(b.Data.Txs) - 1)
			b.Data.Txs[i], b.Data.Txs[i+1] = b.Data.Txs[i+1], b.Data.Txs[i]
			rehashData(b)
			rehashID(rb(resp))
			return true
		}},
		fals{"LastCommit signature flipped (hashes untouched)", "last-commit", func(r *rand.Rand, cc *chainCtx, resp interface{}) bool {
			return mutCommitSig(r, rb(resp).Block.LastCommit)
		}},
		fals{"LastCommit signature flipped, hashes recomputed", "last-commit", func(r *rand.Rand, cc *chainCtx, resp interface{}) bool {
			b := rb(resp).Block
			if !mutCommitSig(r, b.LastCommit) {
				return false
			}
			b.LastCommitHash = freshCommitHash(b.LastCommit)
			rehashID(rb(resp))
			return true
		}},
		fals{"LastCommit slot made absent, hashes recomputed", "last-commit", func(r *rand.Rand, cc *chainCtx, resp interface{}) bool {
			b := rb(resp).Block
			if b.LastCommit == nil || len(b.LastCommit.Signatures) == 0 {
				return false
			}
			i := r.Intn(len(b.LastCommit.Signatures))
			if b.LastCommit.Signatures[i].BlockIDFlag == types.BlockIDFlagAbsent {
				return false
			}
			b.LastCommit.Signatures[i] = types.NewCommitSigAbsent()
			b.LastCommitHash = freshCommitHash(b.LastCommit)
			rehashID(rb(resp))
			return true
		}},
		fals{"LastCommit timestamp +1ms, hashes recomputed", "last-commit", func(r *rand.Rand, cc *chainCtx, resp interface{}) bool {
			b := rb(resp).Block
			if b.LastCommit == nil || len(b.LastCommit.Signatures) == 0 {
				return false
			}
			i := r.Intn(len(b.LastCommit.Signatures))
			if b.LastCommit.Signatures[i].BlockIDFlag == types.BlockIDFlagAbsent {
				return false
			}
			b.LastCommit.Signatures[i].Timestamp = b.LastCommit.Signatures[i].Timestamp.Add(time.Millisecond)
			b.LastCommitHash = freshCommitHash(b.LastCommit)
			rehashID(rb(resp))
			return true
		}},
		fals{"LastCommit round +1 (hashes untouched)", "not-claimed", func(r *rand.Rand, cc *chainCtx, resp interface{}) bool {
			b := rb(resp).Block
			if b.LastCommit == nil || len(b.LastCommit.Signatures) == 0 {
				return false
			}
			b.LastCommit.Round++
			return true
		}},
		fals{"LastCommit block id hash flipped (header.LastBlockID untouched)", "last-commit-blockid", func(r *rand.Rand, cc *chainCtx, resp interface{}) bool {
			b := rb(resp).Block
			if b.LastCommit == nil || len(b.LastCommit.Signatures) == 0 {
				return false
			}
			b.LastCommit.BlockID.Hash = flipped(r, b.LastCommit.BlockID.Hash)
			return true
		}},
		fals{"LastCommit height +1", "last-commit-blockid", func(r *rand.Rand, cc *chainCtx, resp interface{}) bool {
			b := rb(resp).Block
			if b.LastCommit == nil || len(b.LastCommit.Signatures) == 0 {
				return false
			}
			b.LastCommit.Height++
			return true
		}},
		fals{"evidence dropped (hashes untouched)", "evidence", func(r *rand.Rand, cc *chainCtx, resp interface{}) bool {
			b := rb(resp).Block
			if len(b.Evidence.Evidence) == 0 {
				return false
			}
			b.Evidence = types.EvidenceData{Evidence: b.Evidence.Evidence[1:]}
			return true
		}},
		fals{"evidence dropped, hashes recomputed", "evidence", func(r *rand.Rand, cc *chainCtx, resp interface{}) bool {
			b := rb(resp).Block
			if len(b.Evidence.Evidence) == 0 {
				return false
			}
			b.Evidence = types.EvidenceData{Evidence: b.Evidence.Evidence[1:]}
			b.EvidenceHash = b.Evidence.Hash()
			rehashID(rb(resp))
			return true
		}},
		fals{"evidence validator power +1, hashes recomputed", "evidence", func(r *rand.Rand, cc *chainCtx, resp interface{}) bool {
			b := rb(resp).Block
			if len(b.Evidence.Evidence) == 0 {
				return false
			}
			dve, ok := b.Evidence.Evidence[0].(*types.DuplicateVoteEvidence)
			if !ok {
				return false
			}
			dve.ValidatorPower++
			dve.TotalVotingPower++
			b.Evidence = types.EvidenceData{Evidence: b.Evidence.Evidence}
			b.EvidenceHash = b.Evidence.Hash()
			rehashID(rb(resp))
			return true
		}},
		fals{"evidence of another block added, hashes recomputed", "evidence", func(r *rand.Rand, cc *chainCtx, resp interface{}) bool {
			b := rb(resp).Block
			h2 := cc.otherHeight(r, b.Height, func(ht *heightTruth) bool { return len(ht.Block.Evidence.Evidence) > 0 })
			if h2 == 0 {
				return false
			}
			b.Evidence = types.EvidenceData{Evidence: append(append(types.EvidenceList{}, b.Evidence.Evidence...), cc.truth[h2].Block.Evidence.Evidence[0])}
			b.EvidenceHash = b.Evidence.Hash()
			rehashID(rb(resp))
			return true
		}},
		fals{"block id hash flipped (block genuine)", "blockid-hash", func(r *rand.Rand, cc *chainCtx, resp interface{}) bool {
			rb(resp).BlockID.Hash = flipped(r, rb(resp).BlockID.Hash)
			return true
		}},
		fals{"block id hash of another block (block genuine)", "blockid-hash", func(r *rand.Rand, cc *chainCtx, resp interface{}) bool {
			h2 := cc.otherHeight(r, rb(resp).Block.Height, nil)
			if h2 == 0 {
				return false
			}
			rb(resp).BlockID.Hash = cpb(cc.truth[h2].BlockID.Hash)
			return true
		}},
		fals{"block id part-set total +1", "blockid-parts", func(r *rand.Rand, cc *chainCtx, resp interface{}) bool {
			rb(resp).BlockID.PartSetHeader.Total++
			return true
		}},
		fals{"block id part-set hash flipped", "blockid-parts", func(r *rand.Rand, cc *chainCtx, resp interface{}) bool {
			rb(resp).BlockID.PartSetHeader.Hash = flipped(r, rb(resp).BlockID.PartSetHeader.Hash)
			return true
		}},
		fals{"block missing", "nil-block", func(r *rand.Rand, cc *chainCtx, resp interface{}) bool {
			rb(resp).Block = nil
			return true
		}},
		fals{"genuine block of another height instead", "other-genuine", func(r *rand.Rand, cc *chainCtx, resp interface{}) bool {
			h2 := cc.otherHeight(r, rb(resp).Block.Height, nil)
			if h2 == 0 {
				return false
			}
			o, err := rpccore.Block(rctx, &h2)
			if err != nil {
				return false
			}
			*rb(resp) = *o
			return true
		}},
	)
	return out
}

func mutCommitSig(r *rand.Rand, c *types.Commit) bool {
	if c == nil {
		return false
	}
	var idx []int
	for i, s := range c.Signatures {
		if len(s.Signature) > 0 {
			idx = append(idx, i)
		}
	}
	if len(idx) == 0 {
		return false
	}
	i := idx[r.Intn(len(idx))]
	c.Signatures[i].Signature = flipped(r, c.Signatures[i].Signature)
	return true
}

// freshCommitHash: Commit.Hash() memoises, so hash a copy.
func freshCommitHash(c *types.Commit) []byte {
	cp := types.NewCommit(c.Height, c.Round, c.BlockID, append([]types.CommitSig{}, c.Signatures...))
	return cp.Hash()
}

// ---------------------------------------------------------------- BlockchainInfo

func infoFals() []fals {
	ri := func(resp interface{}) *ctypes.ResultBlockchainInfo { return resp.(*ctypes.ResultBlockchainInfo) }
	pick := func(r *rand.Rand, resp interface{}) *types.BlockMeta {
		ms := ri(resp).BlockMetas
		if len(ms) == 0 {
			return nil
		}
		return ms[r.Intn(len(ms))]
	}
	var out []fals
	for _, name := range []string{"AppHash", "Time+1ns", "NextValidatorsHash", "LastResultsHash", "DataHash"} {
		var hm headerMut
		for _, x := range headerMuts {
			if x.name == name {
				hm = x
			}
		}
		out = append(out, fals{"meta header " + name + " (block id untouched)", "meta-header-field", func(r *rand.Rand, cc *chainCtx, resp interface{}) bool {
			m := pick(r, resp)
			if m == nil {
				return false
			}
			hm.f(r, &m.Header)
			return true
		}}, fals{"meta header " + name + ", block id hash recomputed", "meta-header-field", func(r *rand.Rand, cc *chainCtx, resp interface{}) bool {
			m := pick(r, resp)
			if m == nil {
				return false
			}
			hm.f(r, &m.Header)
			m.BlockID.Hash = m.Header.Hash()
			return true
		}})
	}
	out = append(out,
		fals{"meta header Height -> another height, block id hash recomputed", "meta-header-field", func(r *rand.Rand, cc *chainCtx, resp interface{}) bool {
			m := pick(r, resp)
			if m == nil {
				return false
			}
			h2 := cc.otherHeight(r, m.Header.Height, nil)
			if h2 == 0 {
				return false
			}
			m.Header.Height = h2
			m.BlockID.Hash = m.Header.Hash()
			return true
		}},
		fals{"meta block id hash flipped", "meta-blockid-hash", func(r *rand.Rand, cc *chainCtx, resp interface{}) bool {
			m := pick(r, resp)
			if m == nil {
				return false
			}
			m.BlockID.Hash = flipped(r, m.BlockID.Hash)
			return true
		}},
		fals{"meta block id part-set total +1", "meta-blockid-parts", func(r *rand.Rand, cc *chainCtx, resp interface{}) bool {
			m := pick(r, resp)
			if m == nil {
				return false
			}
			m.BlockID.PartSetHeader.Total++
			return true
		}},
		fals{"meta block id part-set hash flipped", "meta-blockid-parts", func(r *rand.Rand, cc *chainCtx, resp interface{}) bool {
			m := pick(r, resp)
			if m == nil {
				return false
			}
			m.BlockID.PartSetHeader.Hash = flipped(r, m.BlockID.PartSetHeader.Hash)
			return true
		}},
		fals{"meta missing (null)", "meta-nil", func(r *rand.Rand, cc *chainCtx, resp interface{}) bool {
			ms := ri(resp).BlockMetas
			if len(ms) == 0 {
				return false
			}
			ms[r.Intn(len(ms))] = nil
			return true
		}},
		fals{"meta num_txs +1, block_size +1, last_height +5", "not-claimed", func(r *rand.Rand, cc *chainCtx, resp interface{}) bool {
			m := pick(r, resp)
			if m == nil {
				return false
			}
			m.NumTxs++
			m.BlockSize++
			ri(resp).LastHeight += 5
			return true
		}},
	)
	return out
}

// ---------------------------------------------------------------- Tx / TxSearch

func txFalsOn(get func(resp interface{}) *ctypes.ResultTx) []fals {
	otherTxSameBlock := func(r *rand.Rand, cc *chainCtx, t *ctypes.ResultTx) int {
		ht := cc.truth[t.Height]
		var c []int
		for i, tx := range ht.Block.Data.Txs {
			if i != int(t.Index) && string(tx) != string(t.Tx) {
				c = append(c, i)
			}
		}
		if len(c) == 0 {
			return -1
		}
		return c[r.Intn(len(c))]
	}
	return []fals{
		{"tx bytes flipped (proof untouched)", "tx-bytes", func(r *rand.Rand, cc *chainCtx, resp interface{}) bool {
			t := get(resp)
			t.Tx = flipped(r, t.Tx)
			return true
		}},
		{"tx bytes replaced by a forged tx (proof untouched)", "tx-bytes", func(r *rand.Rand, cc *chainCtx, resp interface{}) bool {
			t := get(resp)
			t.Tx = types.Tx(fmt.Sprintf("forged=%d", r.Intn(1000)))
			return true
		}},
		{"tx bytes and hash of a forged tx (proof untouched)", "tx-bytes", func(r *rand.Rand, cc *chainCtx, resp interface{}) bool {
			t := get(resp)
			t.Tx = types.Tx(fmt.Sprintf("forged=%d", r.Intn(1000)))
			t.Hash = ref.Sha256(t.Tx)
			return true
		}},
		{"proof replaced by the genuine proof of another tx of the block", "tx-bytes", func(r *rand.Rand, cc *chainCtx, resp interface{}) bool {
			t := get(resp)
			j := otherTxSameBlock(r, cc, t)
			if j < 0 {
				return false
			}
			t.Proof = cc.truth[t.Height].Block.Data.Txs.Proof(j)
			return true
		}},
		{"tx bytes and proof data flipped alike", "proof-data", func(r *rand.Rand, cc *chainCtx, resp interface{}) bool {
			t := get(resp)
			t.Tx = flipped(r, t.Tx)
			t.Proof.Data = cpb(t.Tx)
			return true
		}},
		{"tx bytes, hash, proof data and leaf hash of a forged tx", "proof-data", func(r *rand.Rand, cc *chainCtx, resp interface{}) bool {
			t := get(resp)
			t.Tx = types.Tx(fmt.Sprintf("forged=%d", r.Intn(1000)))
			t.Hash = ref.Sha256(t.Tx)
			t.Proof.Data = cpb(t.Tx)
			t.Proof.Proof.LeafHash = ref.LeafHash(ref.Sha256(t.Tx))
			return true
		}},
		{"proof data flipped", "proof-data", func(r *rand.Rand, cc *chainCtx, resp interface{}) bool {
			t := get(resp)
			t.Proof.Data = flipped(r, t.Proof.Data)
			return true
		}},
		{"proof root flipped", "proof-root", func(r *rand.Rand, cc *chainCtx, resp interface{}) bool {
			t := get(resp)
			t.Proof.RootHash = flipped(r, t.Proof.RootHash)
			return true
		}},
		{"forged tx with a self-made one-leaf proof (own root)", "proof-root", func(r *rand.Rand, cc *chainCtx, resp interface{}) bool {
			t := get(resp)
			t.Tx = types.Tx(fmt.Sprintf("forged=%d", r.Intn(1000)))
			t.Hash = ref.Sha256(t.Tx)
			t.Index = 0
			t.Proof = types.Txs{t.Tx}.Proof(0)
			return true
		}},
		{"proof aunt flipped", "proof-aunts", func(r *rand.Rand, cc *chainCtx, resp interface{}) bool {
			t := get(resp)
			if len(t.Proof.Proof.Aunts) == 0 {
				return false
			}
			i := r.Intn(len(t.Proof.Proof.Aunts))
			t.Proof.Proof.Aunts[i] = flipped(r, t.Proof.Proof.Aunts[i])
			return true
		}},
		{"proof aunts truncated", "proof-aunts", func(r *rand.Rand, cc *chainCtx, resp interface{}) bool {
			t := get(resp)
			if len(t.Proof.Proof.Aunts) == 0 {
				return false
			}
			t.Proof.Proof.Aunts = t.Proof.Proof.Aunts[:len(t.Proof.Proof.Aunts)-1]
			return true
		}},
		{"proof aunt appended", "proof-aunts", func(r *rand.Rand, cc *chainCtx, resp interface{}) bool {
			t := get(resp)
			t.Proof.Proof.Aunts = append(t.Proof.Proof.Aunts, flipped(r, nil))
			return true
		}},
		{"proof leaf hash flipped", "proof-leafhash", func(r *rand.Rand, cc *chainCtx, resp interface{}) bool {
			t := get(resp)
			t.Proof.Proof.LeafHash = flipped(r, t.Proof.Proof.LeafHash)
			return true
		}},
		{"proof index +1", "proof-position", func(r *rand.Rand, cc *chainCtx, resp interface{}) bool {
			get(resp).Proof.Proof.Index++
			return true
		}},
		{"proof index -1", "proof-position", func(r *rand.Rand, cc *chainCtx, resp interface{}) bool {
			get(resp).Proof.Proof.Index--
			return true
		}},
		{"proof total +1", "proof-position", func(r *rand.Rand, cc *chainCtx, resp interface{}) bool {
			get(resp).Proof.Proof.Total++
			return true
		}},
		{"proof index +1 and total +1", "proof-position", func(r *rand.Rand, cc *chainCtx, resp interface{}) bool {
			get(resp).Proof.Proof.Index++
			get(resp).Proof.Proof.Total++
			return true
		}},
		{"proof (index,total) -> a pair with the same path shape", "proof-position", func(r *rand.Rand, cc *chainCtx, resp interface{}) bool {
			p := &get(resp).Proof.Proof
			sh, ok := ref.PathShape(p.Index, p.Total)
			if !ok {
				return false
			}
			for t := int64(1); t <= p.Total+8; t++ {
				for ix := int64(0); ix < t; ix++ {
					if s, _ := ref.PathShape(ix, t); s == sh && !(ix == p.Index && t == p.Total) {
						p.Index, p.Total = ix, t
						return true
					}
				}
			}
			return false
		}},
		{"height -> another height", "height", func(r *rand.Rand, cc *chainCtx, resp interface{}) bool {
			t := get(resp)
			h2 := cc.otherHeight(r, t.Height, func(ht *heightTruth) bool { return len(ht.Block.Data.Txs) > 0 })
			if h2 == 0 {
				return false
			}
			t.Height = h2
			return true
		}},
		{"height -> another height and proof root -> that block's data hash", "height", func(r *rand.Rand, cc *chainCtx, resp interface{}) bool {
			t := get(resp)
			h2 := cc.otherHeight(r, t.Height, func(ht *heightTruth) bool { return len(ht.Block.Data.Txs) > 0 })
			if h2 == 0 {
				return false
			}
			t.Height = h2
			t.Proof.RootHash = cpb(cc.truth[h2].Block.DataHash)
			return true
		}},
		{"hash flipped", "hash", func(r *rand.Rand, cc *chainCtx, resp interface{}) bool {
			t := get(resp)
			t.Hash = flipped(r, t.Hash)
			return true
		}},
		{"index +1 (proof untouched)", "index", func(r *rand.Rand, cc *chainCtx, resp interface{}) bool {
			get(resp).Index++
			return true
		}},
		{"tx_result code, data, log changed", "not-claimed", func(r *rand.Rand, cc *chainCtx, resp interface{}) bool {
			t := get(resp)
			t.TxResult.Code ^= 1
			t.TxResult.Data = flipped(r, t.TxResult.Data)
			t.TxResult.Log = "forged"
			return true
		}},
		{"genuine answer about another tx instead", "other-genuine", func(r *rand.Rand, cc *chainCtx, resp interface{}) bool {
			t := get(resp)
			if len(cc.txList) < 2 {
				return false
			}
			for try := 0; try < 10; try++ {
				l := cc.txList[r.Intn(len(cc.txList))]
				tx := cc.truth[l.H].Block.Data.Txs[l.I]
				if string(tx) == string(t.Tx) {
					continue
				}
				o, err := rpccore.Tx(rctx, ref.Sha256(tx), true)
				if err != nil {
					return false
				}
				*t = *o
				return true
			}
			return false
		}},
	}
}

// txPositionFals: the node moves the transaction to another position and keeps
// its lie self-consistent: ResultTx.Index and Proof.Proof.Index are changed
// alike (so a client that ties the two agrees), to every value from -1 to
// total+2, with the proof's total unchanged, -1 or +1; tx bytes, hash, height,
// root, leaf hash and aunts stay genuine.  Only the (tx, height, index) triples
// that are really in the verified block may be relayed.
func txPositionFals(get func(resp interface{}) *ctypes.ResultTx) []fals {
	var out []fals
	for v := int64(-1); v <= 11; v++ {
		for _, dt := range []int64{0, -1, 1} {
			v, dt := v, dt
			out = append(out, fals{fmt.Sprintf("index and proof index -> %d alike, proof total %+d", v, dt), "index",
				func(r *rand.Rand, cc *chainCtx, resp interface{}) bool {
					t := get(resp)
					if t == nil {
						return false
					}
					n := t.Proof.Proof.Total
					if v > n+2 || (v == int64(t.Index) && dt == 0) {
						return false
					}
					t.Index = uint32(v) // -1 wraps to 2^32-1: the field cannot say -1
					t.Proof.Proof.Index, t.Proof.Proof.Total = v, n+dt
					return true
				}})
		}
	}
	out = append(out, fals{"index and proof index -> 2^32-1 alike", "index", func(r *rand.Rand, cc *chainCtx, resp interface{}) bool {
		t := get(resp)
		if t == nil {
			return false
		}
		t.Index, t.Proof.Proof.Index = ^uint32(0), int64(^uint32(0))
		return true
	}}, fals{"index and proof index -> total alike, proof total -> 2*total", "index", func(r *rand.Rand, cc *chainCtx, resp interface{}) bool {
		t := get(resp)
		if t == nil {
			return false
		}
		n := t.Proof.Proof.Total
		t.Index, t.Proof.Proof.Index, t.Proof.Proof.Total = uint32(n), n, 2*n
		return true
	}})
	return out
}

func txPositionFalsTx() []fals {
	return txPositionFals(func(resp interface{}) *ctypes.ResultTx { return resp.(*ctypes.ResultTx) })
}

// in a TxSearch answer: the result at position `at` of the list (-1 = the last one)
func txPositionFalsSearch(at int) []fals {
	fs := txPositionFals(func(resp interface{}) *ctypes.ResultTx {
		ts := resp.(*ctypes.ResultTxSearch).Txs
		i := at
		if i < 0 {
			i = len(ts) - 1
		}
		if i < 0 || i >= len(ts) {
			return nil
		}
		return ts[i]
	})
	for i := range fs {
		fs[i].Name = "a result: " + fs[i].Name
	}
	return fs
}

func txFals() []fals {
	return txFalsOn(func(resp interface{}) *ctypes.ResultTx { return resp.(*ctypes.ResultTx) })
}

func txSearchFals() []fals {
	all := txFalsOn(func(resp interface{}) *ctypes.ResultTx { return resp.(*ctypes.ResultTxSearch).Txs[0] })
	var out []fals
	for _, f := range all {
		f := f
		switch f.Name {
		case "tx bytes flipped (proof untouched)", "proof root flipped", "proof aunt flipped", "proof data flipped", "height -> another height", "hash flipped",
			"tx bytes, hash, proof data and leaf hash of a forged tx", "forged tx with a self-made one-leaf proof (own root)":
			inner := f.Apply
			f.Apply = func(r *rand.Rand, cc *chainCtx, resp interface{}) bool {
				if len(resp.(*ctypes.ResultTxSearch).Txs) == 0 {
					return false
				}
				return inner(r, cc, resp)
			}
			f.Name = "first result: " + f.Name
			out = append(out, f)
		}
	}
	return out
}

// ---------------------------------------------------------------- BlockResults

func resultsFals() []fals {
	rr := func(resp interface{}) *ctypes.ResultBlockResults { return resp.(*ctypes.ResultBlockResults) }
	pick := func(r *rand.Rand, resp interface{}) *abci.ResponseDeliverTx {
		ts := rr(resp).TxsResults
		if len(ts) == 0 {
			return nil
		}
		return ts[r.Intn(len(ts))]
	}
	return append(resultsStrippedFals(), []fals{
		{"a DeliverTx code changed", "result-code", func(r *rand.Rand, cc *chainCtx, resp interface{}) bool {
			d := pick(r, resp)
			if d == nil {
				return false
			}
			d.Code ^= 1
			return true
		}},
		{"a DeliverTx data changed", "result-data", func(r *rand.Rand, cc *chainCtx, resp interface{}) bool {
			d := pick(r, resp)
			if d == nil {
				return false
			}
			d.Data = flipped(r, d.Data)
			return true
		}},
		{"a DeliverTx gas_wanted +1", "result-gas", func(r *rand.Rand, cc *chainCtx, resp interface{}) bool {
			d := pick(r, resp)
			if d == nil {
				return false
			}
			d.GasWanted++
			return true
		}},
		{"a DeliverTx gas_used +1", "result-gas", func(r *rand.Rand, cc *chainCtx, resp interface{}) bool {
			d := pick(r, resp)
			if d == nil {
				return false
			}
			d.GasUsed++
			return true
		}},
		{"two results swapped", "result-order", func(r *rand.Rand, cc *chainCtx, resp interface{}) bool {
			ts := rr(resp).TxsResults
			if len(ts) < 2 {
				return false
			}
			i := r.Intn(len(ts) - 1)
			ts[i], ts[i+1] = ts[i+1], ts[i]
			return true
		}},
		{"last result dropped", "result-count", func(r *rand.Rand, cc *chainCtx, resp interface{}) bool {
			ts := rr(resp).TxsResults
			if len(ts) == 0 {
				return false
			}
			rr(resp).TxsResults = ts[:len(ts)-1]
			return true
		}},
		{"a result appended", "result-count", func(r *rand.Rand, cc *chainCtx, resp interface{}) bool {
			rr(resp).TxsResults = append(rr(resp).TxsResults, &abci.ResponseDeliverTx{GasWanted: 1, GasUsed: 1})
			return true
		}},
		{"height field -> another height", "height", func(r *rand.Rand, cc *chainCtx, resp interface{}) bool {
			h2 := cc.otherHeight(r, rr(resp).Height, func(ht *heightTruth) bool { return len(ht.Results) > 0 })
			if h2 == 0 {
				return false
			}
			rr(resp).Height = h2
			return true
		}},
		{"results of another height (height field kept)", "result-count", func(r *rand.Rand, cc *chainCtx, resp interface{}) bool {
			h2 := cc.otherHeight(r, rr(resp).Height, func(ht *heightTruth) bool { return len(ht.Results) > 0 })
			if h2 == 0 {
				return false
			}
			o, err := rpccore.BlockResults(rctx, &h2)
			if err != nil {
				return false
			}
			rr(resp).TxsResults = o.TxsResults
			return true
		}},
		{"a DeliverTx log, info, codespace, events changed", "not-claimed", func(r *rand.Rand, cc *chainCtx, resp interface{}) bool {
			d := pick(r, resp)
			if d == nil {
				return false
			}
			d.Log, d.Info, d.Codespace = "forged", "forged", "forged"
			d.Events = append(d.Events, abci.Event{Type: "forged"})
			return true
		}},
		{"begin/end block events, validator updates changed", "not-claimed", func(r *rand.Rand, cc *chainCtx, resp interface{}) bool {
			rr(resp).BeginBlockEvents = append(rr(resp).BeginBlockEvents, abci.Event{Type: "forged"})
			rr(resp).EndBlockEvents = nil
			rr(resp).ValidatorUpdates = append(rr(resp).ValidatorUpdates, abci.UpdateValidator(ed25519.GenPrivKeyFromSecret([]byte("forged")).PubKey().Bytes(), 5, ""))
			return true
		}},
	}...)
}

// resultsStrippedFals: the node withholds results instead of altering them.
func resultsStrippedFals() []fals {
	rr := func(resp interface{}) *ctypes.ResultBlockResults { return resp.(*ctypes.ResultBlockResults) }
	forgeRest := func(res *ctypes.ResultBlockResults) {
		res.BeginBlockEvents = append(res.BeginBlockEvents, abci.Event{Type: "forged"})
		res.EndBlockEvents = nil
		res.ValidatorUpdates = append(res.ValidatorUpdates, abci.UpdateValidator(ed25519.GenPrivKeyFromSecret([]byte("forged")).PubKey().Bytes(), 5, ""))
	}
	return []fals{
		{"every DeliverTx result stripped (empty list)", "result-count", func(r *rand.Rand, cc *chainCtx, resp interface{}) bool {
			if len(rr(resp).TxsResults) == 0 {
				return false
			}
			rr(resp).TxsResults = []*abci.ResponseDeliverTx{}
			return true
		}},
		{"every DeliverTx result stripped (list omitted)", "result-count", func(r *rand.Rand, cc *chainCtx, resp interface{}) bool {
			if len(rr(resp).TxsResults) == 0 {
				return false
			}
			rr(resp).TxsResults = nil
			return true
		}},
		{"every DeliverTx result stripped; begin/end-block events and validator updates altered", "result-count", func(r *rand.Rand, cc *chainCtx, resp interface{}) bool {
			if len(rr(resp).TxsResults) == 0 {
				return false
			}
			rr(resp).TxsResults = nil
			forgeRest(rr(resp))
			return true
		}},
		{"first half of the DeliverTx results stripped", "result-count", func(r *rand.Rand, cc *chainCtx, resp interface{}) bool {
			ts := rr(resp).TxsResults
			if len(ts) < 2 {
				return false
			}
			rr(resp).TxsResults = ts[len(ts)/2:]
			return true
		}},
		{"all but the first DeliverTx result stripped", "result-count", func(r *rand.Rand, cc *chainCtx, resp interface{}) bool {
			ts := rr(resp).TxsResults
			if len(ts) < 2 {
				return false
			}
			rr(resp).TxsResults = ts[:1]
			return true
		}},
	}
}

// unchangedFals: the honest answer as it is, for requests whose honest answer no verified header can
// commit to (the tip, a withheld successor): relaying even that is relaying something unverified.
func unchangedFals() []fals {
	return []fals{{"nothing changed (the honest answer)", "unchanged", func(r *rand.Rand, cc *chainCtx, resp interface{}) bool { return true }}}
}

// ---------------------------------------------------------------- ConsensusParams

func paramsFals() []fals {
	rp := func(resp interface{}) *ctypes.ResultConsensusParams { return resp.(*ctypes.ResultConsensusParams) }
	return []fals{
		{"block.max_bytes +1", "params-maxbytes", func(r *rand.Rand, cc *chainCtx, resp interface{}) bool {
			rp(resp).ConsensusParams.Block.MaxBytes++
			return true
		}},
		{"block.max_gas changed", "params-maxgas", func(r *rand.Rand, cc *chainCtx, resp interface{}) bool {
			rp(resp).ConsensusParams.Block.MaxGas += 7
			return true
		}},
		{"height -> a height with other params", "height", func(r *rand.Rand, cc *chainCtx, resp interface{}) bool {
			mb, mg := rp(resp).ConsensusParams.Block.MaxBytes, rp(resp).ConsensusParams.Block.MaxGas
			h2 := cc.otherHeight(r, rp(resp).BlockHeight, func(ht *heightTruth) bool { return ht.MaxBytes != mb || ht.MaxGas != mg })
			if h2 == 0 {
				return false
			}
			rp(resp).BlockHeight = h2
			return true
		}},
		{"params of another height (height kept)", "params-maxbytes", func(r *rand.Rand, cc *chainCtx, resp interface{}) bool {
			mb, mg := rp(resp).ConsensusParams.Block.MaxBytes, rp(resp).ConsensusParams.Block.MaxGas
			h2 := cc.otherHeight(r, rp(resp).BlockHeight, func(ht *heightTruth) bool { return ht.MaxBytes != mb || ht.MaxGas != mg })
			if h2 == 0 {
				return false
			}
			rp(resp).ConsensusParams.Block.MaxBytes, rp(resp).ConsensusParams.Block.MaxGas = cc.truth[h2].MaxBytes, cc.truth[h2].MaxGas
			return true
		}},
		{"evidence.max_age_num_blocks +1, validator key types, version.app, time_iota changed", "not-claimed", func(r *rand.Rand, cc *chainCtx, resp interface{}) bool {
			p := &rp(resp).ConsensusParams
			p.Evidence.MaxAgeNumBlocks++
			p.Validator.PubKeyTypes = append(p.Validator.PubKeyTypes, "secp256k1")
			p.Version.AppVersion++
			p.Block.TimeIotaMs++
			return true
		}},
	}
}

// ---------------------------------------------------------------- ABCIQuery

func queryFals() []fals {
	rq := func(resp interface{}) *abci.ResponseQuery { return &resp.(*ctypes.ResultABCIQuery).Response }
	hasOps := func(q *abci.ResponseQuery) bool { return q.ProofOps != nil && len(q.ProofOps.Ops) > 0 }
	otherKey := func(r *rand.Rand, cc *chainCtx, q *abci.ResponseQuery) string {
		var c []string
		for k, v := range cc.truth[q.Height].KV {
			if k != string(q.Key) && v != string(q.Value) {
				c = append(c, k)
			}
		}
		if len(c) == 0 {
			return ""
		}
		// map order is random: sort for determinism
		for i := range c {
			for j := i + 1; j < len(c); j++ {
				if c[j] < c[i] {
					c[i], c[j] = c[j], c[i]
				}
			}
		}
		return c[r.Intn(len(c))]
	}
	return []fals{
		{"value byte flipped", "value", func(r *rand.Rand, cc *chainCtx, resp interface{}) bool {
			q := rq(resp)
			if len(q.Value) == 0 {
				return false
			}
			q.Value = flipped(r, q.Value)
			return true
		}},
		{"value extended", "value", func(r *rand.Rand, cc *chainCtx, resp interface{}) bool {
			q := rq(resp)
			q.Value = append(cpb(q.Value), 'x')
			return true
		}},
		{"value of another key (key and proof kept)", "value", func(r *rand.Rand, cc *chainCtx, resp interface{}) bool {
			q := rq(resp)
			k := otherKey(r, cc, q)
			if k == "" {
				return false
			}
			q.Value = []byte(cc.truth[q.Height].KV[k])
			return len(q.Value) > 0
		}},
		{"value omitted (absence claimed, proof kept)", "value-nil", func(r *rand.Rand, cc *chainCtx, resp interface{}) bool {
			rq(resp).Value = nil
			return true
		}},
		{"key -> another existing key (value and proof kept)", "key", func(r *rand.Rand, cc *chainCtx, resp interface{}) bool {
			q := rq(resp)
			k := otherKey(r, cc, q)
			if k == "" {
				return false
			}
			q.Key = []byte(k)
			return true
		}},
		{"key and proof-op key -> another existing key (value kept)", "key", func(r *rand.Rand, cc *chainCtx, resp interface{}) bool {
			q := rq(resp)
			k := otherKey(r, cc, q)
			if k == "" || !hasOps(q) {
				return false
			}
			q.Key = []byte(k)
			q.ProofOps.Ops[0].Key = []byte(k)
			return true
		}},
		{"height -1", "height", func(r *rand.Rand, cc *chainCtx, resp interface{}) bool {
			q := rq(resp)
			ht := cc.truth[q.Height-1]
			if ht == nil || ht.KV[string(q.Key)] == string(q.Value) {
				return false
			}
			q.Height--
			return true
		}},
		{"height +1", "height", func(r *rand.Rand, cc *chainCtx, resp interface{}) bool {
			q := rq(resp)
			ht := cc.truth[q.Height+1]
			if ht == nil || q.Height+2 > cc.last || ht.KV[string(q.Key)] == string(q.Value) {
				return false
			}
			q.Height++
			return true
		}},
		{"value and proof of an older state (height kept)", "value", func(r *rand.Rand, cc *chainCtx, resp interface{}) bool {
			q := rq(resp)
			for h := q.Height - 1; h >= cc.first; h-- {
				bz, ok := cc.truth[h].QueryAnsPB[string(q.Key)]
				if !ok {
					return false
				}
				var o abci.ResponseQuery
				if o.Unmarshal(bz) != nil {
					return false
				}
				if string(o.Value) != string(q.Value) {
					q.Value, q.ProofOps = o.Value, o.ProofOps
					return true
				}
			}
			return false
		}},
		{"value changed and proof-op data rebuilt for a one-leaf tree", "value", func(r *rand.Rand, cc *chainCtx, resp interface{}) bool {
			q := rq(resp)
			if !hasOps(q) {
				return false
			}
			q.Value = []byte("forged")
			// a ValueOp whose proof is the one-leaf tree of (key, forged value): self-consistent, wrong root
			q.ProofOps.Ops[0] = forgedValueOp(q.Key, q.Value)
			return true
		}},
		{"proof-op data flipped", "proof-op", func(r *rand.Rand, cc *chainCtx, resp interface{}) bool {
			q := rq(resp)
			if !hasOps(q) {
				return false
			}
			q.ProofOps.Ops[0].Data = flipped(r, q.ProofOps.Ops[0].Data)
			return true
		}},
		{"proof-op key changed", "proof-op", func(r *rand.Rand, cc *chainCtx, resp interface{}) bool {
			q := rq(resp)
			if !hasOps(q) {
				return false
			}
			q.ProofOps.Ops[0].Key = append(cpb(q.ProofOps.Ops[0].Key), 'x')
			return true
		}},
		{"proof-op type unknown", "proof-op", func(r *rand.Rand, cc *chainCtx, resp interface{}) bool {
			q := rq(resp)
			if !hasOps(q) {
				return false
			}
			q.ProofOps.Ops[0].Type = "iavl:v"
			return true
		}},
		{"proof-op duplicated", "proof-op", func(r *rand.Rand, cc *chainCtx, resp interface{}) bool {
			q := rq(resp)
			if !hasOps(q) {
				return false
			}
			q.ProofOps.Ops = append(q.ProofOps.Ops, q.ProofOps.Ops[0])
			return true
		}},
		{"value flipped, proof missing", "proof-missing", func(r *rand.Rand, cc *chainCtx, resp interface{}) bool {
			q := rq(resp)
			q.Value = flipped(r, q.Value)
			q.ProofOps = nil
			return true
		}},
		{"value flipped, proof ops empty", "proof-missing", func(r *rand.Rand, cc *chainCtx, resp interface{}) bool {
			q := rq(resp)
			q.Value = flipped(r, q.Value)
			q.ProofOps = &tmcrypto.ProofOps{}
			return true
		}},
		{"value flipped, error code set", "code", func(r *rand.Rand, cc *chainCtx, resp interface{}) bool {
			q := rq(resp)
			q.Value = flipped(r, q.Value)
			q.Code = 7
			return true
		}},
		{"log, info, index, codespace changed", "not-claimed", func(r *rand.Rand, cc *chainCtx, resp interface{}) bool {
			q := rq(resp)
			q.Log, q.Info, q.Index, q.Codespace = "forged", "forged", 99, "forged"
			return true
		}},
		{"genuine answer about another key instead", "other-genuine", func(r *rand.Rand, cc *chainCtx, resp interface{}) bool {
			q := rq(resp)
			k := otherKey(r, cc, q)
			if k == "" {
				return false
			}
			var o abci.ResponseQuery
			if o.Unmarshal(cc.truth[q.Height].QueryAnsPB[k]) != nil {
				return false
			}
			*q = o
			return true
		}},
	}
}

// ---------------------------------------------------------------- Commit / Validators answers of the node
//
// light/rpc answers Commit and Validators from the light store; the node's own
// Commit / Validators answers reach the light client through the light
// provider (light/provider/http over the same RPC client), so that is where a
// lying node falsifies them.

func commitFals() []fals {
	rc := func(resp interface{}) *ctypes.ResultCommit { return resp.(*ctypes.ResultCommit) }
	var out []fals
	for _, name := range []string{"AppHash", "Time+1ns", "ValidatorsHash", "NextValidatorsHash", "LastBlockID.Hash", "DataHash", "LastResultsHash", "ProposerAddress"} {
		var hm headerMut
		for _, x := range headerMuts {
			if x.name == name {
				hm = x
			}
		}
		out = append(out, fals{"node commit answer: header " + name, "header-field", func(r *rand.Rand, cc *chainCtx, resp interface{}) bool {
			hm.f(r, rc(resp).Header)
			return true
		}}, fals{"node commit answer: header " + name + ", commit block id hash recomputed", "header-field", func(r *rand.Rand, cc *chainCtx, resp interface{}) bool {
			hm.f(r, rc(resp).Header)
			rc(resp).Commit.BlockID.Hash = rc(resp).Header.Hash()
			return true
		}})
	}
	out = append(out,
		fals{"node commit answer: one signature flipped", "commit-sig", func(r *rand.Rand, cc *chainCtx, resp interface{}) bool {
			return mutCommitSig(r, rc(resp).Commit)
		}},
		fals{"node commit answer: every signature flipped", "commit-sig", func(r *rand.Rand, cc *chainCtx, resp interface{}) bool {
			c := rc(resp).Commit
			n := 0
			for i := range c.Signatures {
				if len(c.Signatures[i].Signature) > 0 {
					c.Signatures[i].Signature = flipped(r, c.Signatures[i].Signature)
					n++
				}
			}
			return n > 0
		}},
		fals{"node commit answer: every signature replaced by 64 zero bytes", "commit-sig", func(r *rand.Rand, cc *chainCtx, resp interface{}) bool {
			c := rc(resp).Commit
			n := 0
			for i := range c.Signatures {
				if len(c.Signatures[i].Signature) > 0 {
					c.Signatures[i].Signature = make([]byte, 64)
					n++
				}
			}
			return n > 0
		}},
		fals{"node commit answer: timestamp +1ms in every signed slot", "commit-sig", func(r *rand.Rand, cc *chainCtx, resp interface{}) bool {
			c := rc(resp).Commit
			n := 0
			for i := range c.Signatures {
				if len(c.Signatures[i].Signature) > 0 {
					c.Signatures[i].Timestamp = c.Signatures[i].Timestamp.Add(time.Millisecond)
					n++
				}
			}
			return n > 0
		}},
		fals{"node commit answer: round +1", "commit-sig", func(r *rand.Rand, cc *chainCtx, resp interface{}) bool {
			rc(resp).Commit.Round++
			return true
		}},
		fals{"node commit answer: all slots absent", "commit-sig", func(r *rand.Rand, cc *chainCtx, resp interface{}) bool {
			c := rc(resp).Commit
			for i := range c.Signatures {
				c.Signatures[i] = types.NewCommitSigAbsent()
			}
			return len(c.Signatures) > 0
		}},
		fals{"node commit answer: commit block id hash flipped", "commit-blockid", func(r *rand.Rand, cc *chainCtx, resp interface{}) bool {
			rc(resp).Commit.BlockID.Hash = flipped(r, rc(resp).Commit.BlockID.Hash)
			return true
		}},
		fals{"node commit answer: commit block id part-set total +1", "commit-blockid", func(r *rand.Rand, cc *chainCtx, resp interface{}) bool {
			rc(resp).Commit.BlockID.PartSetHeader.Total++
			return true
		}},
		fals{"node commit answer: commit block id part-set hash flipped", "commit-blockid", func(r *rand.Rand, cc *chainCtx, resp interface{}) bool {
			rc(resp).Commit.BlockID.PartSetHeader.Hash = flipped(r, rc(resp).Commit.BlockID.PartSetHeader.Hash)
			return true
		}},
		fals{"node commit answer: genuine signed header of another height", "other-genuine", func(r *rand.Rand, cc *chainCtx, resp interface{}) bool {
			h2 := cc.otherHeight(r, rc(resp).Height, nil)
			if h2 == 0 {
				return false
			}
			o, err := rpccore.Commit(rctx, &h2)
			if err != nil || o == nil {
				return false
			}
			*rc(resp) = *o
			return true
		}},
	)
	return out
}

func validatorsFals() []fals {
	rv := func(resp interface{}) *ctypes.ResultValidators { return resp.(*ctypes.ResultValidators) }
	forgedKey := func(r *rand.Rand) ed25519.PrivKey {
		return ed25519.GenPrivKeyFromSecret([]byte(fmt.Sprint("forged", r.Intn(1000))))
	}
	return []fals{
		{"node validators answer: a power +1", "val-power", func(r *rand.Rand, cc *chainCtx, resp interface{}) bool {
			vs := rv(resp).Validators
			vs[r.Intn(len(vs))].VotingPower++
			return true
		}},
		{"node validators answer: a key replaced", "val-member", func(r *rand.Rand, cc *chainCtx, resp interface{}) bool {
			vs := rv(resp).Validators
			vs[r.Intn(len(vs))].PubKey = forgedKey(r).PubKey()
			return true
		}},
		{"node validators answer: a key and its address replaced", "val-member", func(r *rand.Rand, cc *chainCtx, resp interface{}) bool {
			vs := rv(resp).Validators
			v := vs[r.Intn(len(vs))]
			v.PubKey = forgedKey(r).PubKey()
			v.Address = v.PubKey.Address()
			return true
		}},
		{"node validators answer: a member added", "val-member", func(r *rand.Rand, cc *chainCtx, resp interface{}) bool {
			rv(resp).Validators = append(rv(resp).Validators, types.NewValidator(forgedKey(r).PubKey(), 1))
			rv(resp).Count++
			rv(resp).Total++
			return true
		}},
		{"node validators answer: a member removed", "val-member", func(r *rand.Rand, cc *chainCtx, resp interface{}) bool {
			vs := rv(resp).Validators
			if len(vs) < 2 {
				return false
			}
			i := r.Intn(len(vs))
			rv(resp).Validators = append(append([]*types.Validator{}, vs[:i]...), vs[i+1:]...)
			rv(resp).Count--
			rv(resp).Total--
			return true
		}},
		{"node validators answer: two members swapped", "val-member", func(r *rand.Rand, cc *chainCtx, resp interface{}) bool {
			vs := rv(resp).Validators
			if len(vs) < 2 {
				return false
			}
			i := r.Intn(len(vs) - 1)
			vs[i], vs[i+1] = vs[i+1], vs[i]
			return true
		}},
		{"node validators answer: genuine set of another height", "val-member", func(r *rand.Rand, cc *chainCtx, resp interface{}) bool {
			cur := cc.truth[rv(resp).BlockHeight]
			if cur == nil {
				return false
			}
			h2 := cc.otherHeight(r, rv(resp).BlockHeight, func(ht *heightTruth) bool { return !bytes.Equal(ht.Block.ValidatorsHash, cur.Block.ValidatorsHash) })
			if h2 == 0 {
				return false
			}
			per := 100
			o, err := rpccore.Validators(rctx, &h2, nil, &per)
			if err != nil {
				return false
			}
			o.BlockHeight = rv(resp).BlockHeight
			*rv(resp) = *o
			return true
		}},
		{"node validators answer: total +1", "val-total", func(r *rand.Rand, cc *chainCtx, resp interface{}) bool {
			rv(resp).Total++
			return true
		}},
		{"node validators answer: proposer priorities changed", "not-claimed", func(r *rand.Rand, cc *chainCtx, resp interface{}) bool {
			for _, v := range rv(resp).Validators {
				v.ProposerPriority += int64(1 + r.Intn(5))
			}
			return true
		}},
	}
}

// consistentNodeFals: a careful liar changes the validator set in its
// validators answer AND, in its commit answer, the header's ValidatorsHash and
// the commit's block id hash, so that the light block is self-consistent
// (LightBlock.ValidateBasic passes) and only the signatures / the hash chain
// expose it.  Applied to both answers of the node (method "Commit,Validators").
func consistentNodeFals() []fals {
	change := func(kind string, r *rand.Rand, vals []*types.Validator) {
		i := r.Intn(len(vals))
		switch kind {
		case "power":
			vals[i].VotingPower++
		case "key":
			vals[i].PubKey = ed25519.GenPrivKeyFromSecret([]byte("forged-consistent")).PubKey()
			vals[i].Address = vals[i].PubKey.Address()
		}
	}
	mk := func(kind, class string) fals {
		return fals{"node lies consistently: a validator's " + kind + " changed in the validators answer; header ValidatorsHash and commit block id hash recomputed in the commit answer", class,
			func(r *rand.Rand, cc *chainCtx, resp interface{}) bool {
				switch v := resp.(type) {
				case *ctypes.ResultValidators:
					if v.Total != len(v.Validators) { // a partial page: not used by the light provider
						return false
					}
					change(kind, r, v.Validators)
					return true
				case *ctypes.ResultCommit:
					ht := cc.truth[v.Height]
					if ht == nil {
						return false
					}
					cp := ht.Vals.Copy()
					change(kind, r, cp.Validators)
					v.Header.ValidatorsHash = (&types.ValidatorSet{Validators: cp.Validators}).Hash()
					v.Commit.BlockID.Hash = v.Header.Hash()
					return true
				}
				return false
			}}
	}
	return []fals{mk("power", "val-power"), mk("key", "val-member")}
}

// forgedTipFals: the node forges the block of a height outright: a header of
// its choosing, a validator set of its own (one key it holds) in the validators
// answer, ValidatorsHash set to that set, and a commit signed by that key.  The
// light block is fully self-consistent (LightBlock.ValidateBasic and even a
// commit check against its OWN validator set pass); only verification from the
// trusted state, or the comparison with the already trusted block of that
// height, exposes it.  Applied to both answers (method "Commit,Validators").
func forgedTipFals() []fals {
	attacker := ed25519.GenPrivKeyFromSecret([]byte("c20-attacker"))
	aval := func() *types.Validator { return types.NewValidator(attacker.PubKey(), 10) }
	mk := func(name string, hdrMut func(r *rand.Rand, h *types.Header)) fals {
		return fals{"node forges the block: " + name + ", own validator set, commit signed by its own key", "forged-block",
			func(r *rand.Rand, cc *chainCtx, resp interface{}) bool {
				switch v := resp.(type) {
				case *ctypes.ResultValidators:
					v.Validators, v.Count, v.Total = []*types.Validator{aval()}, 1, 1
					return true
				case *ctypes.ResultCommit:
					vs := types.NewValidatorSet([]*types.Validator{aval()})
					hdrMut(r, v.Header)
					v.Header.ValidatorsHash = vs.Hash()
					v.Header.ProposerAddress = attacker.PubKey().Address()
					bid := types.BlockID{Hash: v.Header.Hash(), PartSetHeader: v.Commit.BlockID.PartSetHeader}
					vote := &types.Vote{Type: tmproto.PrecommitType, Height: v.Header.Height, Round: 0, BlockID: bid,
						Timestamp: v.Header.Time.Add(time.Second), ValidatorAddress: attacker.PubKey().Address(), ValidatorIndex: 0}
					sig, err := attacker.Sign(types.VoteSignBytes(v.Header.ChainID, vote.ToProto()))
					if err != nil {
						return false
					}
					vote.Signature = sig
					v.SignedHeader.Commit = types.NewCommit(v.Header.Height, 0, bid, []types.CommitSig{vote.CommitSig()})
					return true
				}
				return false
			}}
	}
	return []fals{
		mk("app hash of its choosing", func(r *rand.Rand, h *types.Header) { h.AppHash = flipped(r, h.AppHash) }),
		mk("header otherwise genuine", func(r *rand.Rand, h *types.Header) {}),
		mk("next validators hash and data hash of its choosing", func(r *rand.Rand, h *types.Header) {
			h.NextValidatorsHash = flipped(r, h.NextValidatorsHash)
			h.DataHash = flipped(r, h.DataHash)
		}),
	}
}

// forgedValueOp: a ValueOp that is internally consistent for (key, value) in a
// tree of its own (one leaf), i.e. it proves the forged value against a root
// that is not the application hash.
func forgedValueOp(key, value []byte) tmcrypto.ProofOp {
	vh := ref.Sha256(value)
	var leaf []byte
	leaf = appendUvarintBytes(leaf, key)
	leaf = appendUvarintBytes(leaf, vh)
	_, proofs := merkle.ProofsFromByteSlices([][]byte{leaf})
	return merkle.NewValueOp(key, proofs[0]).ProofOp()
}

func appendUvarintBytes(dst, b []byte) []byte {
	var l [binary.MaxVarintLen64]byte
	n := binary.PutUvarint(l[:], uint64(len(b)))
	return append(append(dst, l[:n]...), b...)
}
