package c20

import (
	"bytes"
	"fmt"
	"math/rand"
	"sort"
	"strings"
	"time"

	dbm "github.com/tendermint/tm-db"

	abci "github.com/tendermint/tendermint/abci/types"
	"github.com/tendermint/tendermint/crypto/ed25519"
	tmproto "github.com/tendermint/tendermint/proto/tendermint/types"
	"github.com/tendermint/tendermint/state/txindex"
	txkv "github.com/tendermint/tendermint/state/txindex/kv"
	"github.com/tendermint/tendermint/types"

	"verif/chaingen"
	"verif/ref"
)

// chainSpec is the seed-derived description of one generated chain.
type chainSpec struct {
	Idx     int     `json:"chain"`
	Seed    int64   `json:"chain_seed"`
	Powers  []int64 `json:"genesis_powers"`
	Initial int64   `json:"initial_height"`
	N       int     `json:"heights"`
}

type txLoc struct {
	H int64
	I int
}

// committedResult is what a header commits to of one DeliverTx response
// (spec/core/data_structures.md: LastResultsHash = root of (code, data, gas_wanted, gas_used)).
type committedResult struct {
	Code      uint32
	Data      []byte
	GasWanted int64
	GasUsed   int64
}

// heightTruth is the canonical content of one height, taken from what chaingen
// built and signed (never from what the RPC layer returned).
type heightTruth struct {
	Block      *types.Block
	BlockPB    []byte // protobuf encoding of the block
	HeaderPB   []byte
	BlockID    types.BlockID
	Commit     *types.Commit
	Vals       *types.ValidatorSet
	MaxBytes   int64
	MaxGas     int64
	Results    []committedResult
	TxHashes   [][]byte          // SHA-256 of each tx (leaves of the data hash)
	KV         map[string]string // app store (namespaced keys) after this height was committed
	QueryAnsPB map[string][]byte // recorded honest ResponseQuery (protobuf) per namespaced key, Prove=true
}

type chainCtx struct {
	spec    chainSpec
	ch      *chaingen.Chain
	first   int64
	last    int64
	truth   map[int64]*heightTruth
	byHash  map[string]int64   // block hash -> height
	txs     map[string][]txLoc // tx bytes -> positions
	txList  []txLoc            // every tx position in order
	indexer *txkv.TxIndex
	keys    []string   // user keys ever written (without namespace)
	ms      *miniStore // two-level proven store whose root is the value of recapp key "ms" (ministore.go)
	msFrom  int64      // first height whose state holds it
	sigs    *ref.SigCache
}

// chainEpoch: block times must be real, recent and in the past because
// light/rpc passes time.Now() to the light client (DESIGN 8).  The epoch is
// derived from the wall clock only at day granularity, so that two runs on the
// same UTC day produce byte-identical chains; no oracle reads the clock.
func chainEpoch() time.Time {
	return time.Now().UTC().Truncate(24 * time.Hour).Add(-48 * time.Hour)
}

const trustPeriod = 5000 * time.Hour

func genSpec(r *rand.Rand, idx int, seed int64, thorough bool) chainSpec {
	nv := 1 + r.Intn(5)
	if r.Intn(5) == 0 {
		nv = 1
	}
	powers := make([]int64, nv)
	for i := range powers {
		powers[i] = int64(1 + r.Intn(20))
	}
	n := 14 + r.Intn(10)
	if thorough {
		n = 18 + r.Intn(24)
	}
	initial := int64(1)
	if r.Intn(5) == 0 {
		initial = int64(2 + r.Intn(6))
	}
	return chainSpec{Idx: idx, Seed: seed, Powers: powers, Initial: initial, N: n}
}

func buildChain(spec chainSpec) (cc *chainCtx, err error) {
	defer func() {
		if rec := recover(); rec != nil {
			err = fmt.Errorf("chain generation panicked: %v", rec)
		}
	}()
	r := rand.New(rand.NewSource(spec.Seed))
	ch := chaingen.New(chaingen.Options{
		ChainID: fmt.Sprintf("c20-chain-%d", spec.Idx), Seed: spec.Seed, Powers: spec.Powers,
		InitialHeight: spec.Initial, GenesisTime: chainEpoch(), BlockInterval: time.Second,
	})
	cc = &chainCtx{spec: spec, ch: ch, first: spec.Initial, truth: map[int64]*heightTruth{}, byHash: map[string]int64{},
		txs: map[string][]txLoc{}, indexer: txkv.NewTxIndex(dbm.NewMemDB()), sigs: ref.NewSigCache()}
	keyPool := []string{"a", "b", "cc", "key3", "k4", "x5", "y6", "z7"}
	keySeen := map[string]bool{}
	maxBytesChoices := []int64{1048576, 2097152, 22020096}
	maxGasChoices := []int64{-1, 1000000, 5000000}
	var allTxs []types.Tx
	ctr := 0
	model := map[string]string{} // the application's key/value state, modelled from the tx grammar
	// every chain has a block of each size 1..9 (all the tree shapes of small blocks), at seed-chosen heights
	forced := map[int]int{}
	for s, n := range rand.New(rand.NewSource(spec.Seed ^ 0x5eed)).Perm(spec.N - 1)[:9] {
		forced[n+1] = s + 1 // never the first block: it carries the special-key set-up txs
	}
	cc.ms, cc.msFrom = buildMiniStore(), spec.Initial
	for n := 0; n < spec.N; n++ {
		h := ch.NextHeight()
		var plan chaingen.StepPlan
		ntx := r.Intn(8)
		if r.Intn(4) == 0 {
			ntx = 0
		}
		if f, ok := forced[n]; ok {
			ntx = f
		} else if n == spec.N-1 && ntx == 0 {
			ntx = 1 + r.Intn(3) // the tip carries txs: its results are what header tip+1 would commit to
		}
		if n == 0 {
			// set-up: the mini-store root, and every special key (twins with different values) in the plain store
			setup := []types.Tx{types.Tx("ms=" + string(cc.ms.root))}
			cc.keys = append(cc.keys, "ms")
			keySeen["ms"] = true
			for i, k := range specialPlainKeys {
				setup = append(setup, types.Tx(fmt.Sprintf("%s=special-%d", k, i)))
				cc.keys = append(cc.keys, k)
				keySeen[k] = true
			}
			for _, tx := range setup {
				plan.Txs = append(plan.Txs, tx)
				applyModel(model, tx)
			}
			ntx += len(plan.Txs)
		}
		valTouched := map[string]bool{}
		removals := 0
		for tries := 0; len(plan.Txs) < ntx && tries < 10*ntx+10; tries++ {
			ctr++
			switch k := r.Intn(20); {
			case k < 11:
				key := keyPool[r.Intn(len(keyPool))]
				val := fmt.Sprintf("v%d-%d", h, ctr)
				if r.Intn(12) == 0 {
					val = string(make([]byte, 40+r.Intn(100))) + val // long value with NULs
				}
				plan.Txs = append(plan.Txs, types.Tx(key+"="+val))
				applyModel(model, plan.Txs[len(plan.Txs)-1])
				if !keySeen[key] {
					keySeen[key] = true
					cc.keys = append(cc.keys, key)
				}
			case k < 13:
				plan.Txs = append(plan.Txs, types.Tx(fmt.Sprintf("bad-%d", ctr)))
			case k < 14 && len(allTxs) > 0:
				// an identical tx committed again (same or earlier block): the tx index keeps one position per hash
				d := allTxs[r.Intn(len(allTxs))]
				if bytes.HasPrefix(d, []byte("val:")) || bytes.HasPrefix(d, []byte("param:")) {
					continue
				}
				plan.Txs = append(plan.Txs, append(types.Tx{}, d...))
				applyModel(model, d)
			case k < 17:
				// validator churn: change power / add / remove, valid against the set the update applies to
				next := ch.State.NextValidators
				var key ed25519.PrivKey
				var power int64
				switch r.Intn(3) {
				case 0: // new validator
					if next.Size() >= 7 {
						continue
					}
					key = ch.NewKey()
					power = int64(1 + r.Intn(20))
				case 1: // change power of a member
					v := next.Validators[r.Intn(next.Size())]
					key = keyOf(ch, v.Address)
					power = int64(1 + r.Intn(20))
				default: // remove a member, never the last one
					if next.Size() < 2 {
						continue
					}
					v := next.Validators[r.Intn(next.Size())]
					key = keyOf(ch, v.Address)
					power = 0
				}
				a := string(key.PubKey().Address())
				if valTouched[a] {
					continue
				}
				if power == 0 {
					if next.Size()-removals < 2 { // never remove the last member
						continue
					}
					removals++
				}
				valTouched[a] = true
				plan.Txs = append(plan.Txs, chaingen.ValTx(key, power))
			case k < 18:
				plan.Txs = append(plan.Txs, types.Tx(fmt.Sprintf("param:maxbytes=%d", maxBytesChoices[r.Intn(3)])))
			case k < 19:
				plan.Txs = append(plan.Txs, types.Tx(fmt.Sprintf("param:maxgas=%d", maxGasChoices[r.Intn(3)])))
			default:
				plan.Txs = append(plan.Txs, types.Tx(fmt.Sprintf("plain-%d", ctr)))
				applyModel(model, plan.Txs[len(plan.Txs)-1])
				if k := fmt.Sprintf("plain-%d", ctr); !keySeen[k] && len(cc.keys) < 22 {
					keySeen[k] = true
					cc.keys = append(cc.keys, k)
				}
			}
		}
		// duplicate-vote evidence about an earlier height, in some blocks
		if h > cc.first+1 && r.Intn(7) == 0 {
			eh := cc.first + r.Int63n(h-cc.first)
			plan.Evidence = append(plan.Evidence, makeDVE(r, ch, eh))
		}
		if r.Intn(6) == 0 {
			plan.Round = int32(1 + r.Intn(3))
		}
		// some absent / nil precommits, keeping more than 2/3 for the block
		vals := ch.State.Validators
		total := vals.TotalVotingPower()
		flags := make([]types.BlockIDFlag, vals.Size())
		remaining := total
		for i, v := range vals.Validators {
			flags[i] = types.BlockIDFlagCommit
			if r.Intn(5) == 0 && (remaining-v.VotingPower)*3 > total*2 {
				remaining -= v.VotingPower
				flags[i] = types.BlockIDFlagAbsent
				if r.Intn(2) == 0 {
					flags[i] = types.BlockIDFlagNil
				}
			}
		}
		plan.Flag = func(idx int, _ *types.Validator) types.BlockIDFlag { return flags[idx] }
		rec := ch.MustStep(plan)
		allTxs = append(allTxs, plan.Txs...)
		cc.last = h

		// --- record the truth of this height from what was built
		resp, e := ch.StateStore.LoadABCIResponses(h)
		if e != nil {
			return nil, fmt.Errorf("LoadABCIResponses(%d): %v", h, e)
		}
		if len(resp.DeliverTxs) != len(rec.Block.Txs) {
			return nil, fmt.Errorf("height %d: %d results for %d txs", h, len(resp.DeliverTxs), len(rec.Block.Txs))
		}
		ht := &heightTruth{Block: rec.Block, BlockID: rec.BlockID, Commit: rec.Commit, Vals: rec.StateBefore.Validators.Copy(),
			MaxBytes: rec.StateBefore.ConsensusParams.Block.MaxBytes, MaxGas: rec.StateBefore.ConsensusParams.Block.MaxGas,
			KV: map[string]string{}, QueryAnsPB: map[string][]byte{}}
		pb, e := rec.Block.ToProto()
		if e != nil {
			return nil, e
		}
		if ht.BlockPB, e = pb.Marshal(); e != nil {
			return nil, e
		}
		if ht.HeaderPB, e = rec.Block.Header.ToProto().Marshal(); e != nil {
			return nil, e
		}
		batch := txindex.NewBatch(int64(len(rec.Block.Txs)))
		for i, tx := range rec.Block.Txs {
			d := resp.DeliverTxs[i]
			ht.Results = append(ht.Results, committedResult{d.Code, append([]byte{}, d.Data...), d.GasWanted, d.GasUsed})
			ht.TxHashes = append(ht.TxHashes, ref.Sha256(tx))
			cc.txs[string(tx)] = append(cc.txs[string(tx)], txLoc{h, i})
			cc.txList = append(cc.txList, txLoc{h, i})
			_ = batch.Add(&abci.TxResult{Height: h, Index: uint32(i), Tx: tx, Result: *d})
		}
		if e := cc.indexer.AddBatch(batch); e != nil {
			return nil, fmt.Errorf("index height %d: %v", h, e)
		}
		// honest proven answers of the application as of this height (the app only serves its latest state)
		for _, k := range cc.keys {
			q, e := ch.Conns.Query().QuerySync(abci.RequestQuery{Path: "/key", Data: []byte(k), Prove: true})
			if e != nil {
				return nil, e
			}
			if q.Value == nil && q.ProofOps == nil {
				continue // key not set yet
			}
			if q.Height != h {
				return nil, fmt.Errorf("app answered for height %d at %d", q.Height, h)
			}
			bz, e := q.Marshal()
			if e != nil {
				return nil, e
			}
			ht.QueryAnsPB[string(q.Key)] = bz
			if mv, ok := model[string(q.Key)]; !ok || mv != string(q.Value) {
				return nil, fmt.Errorf("height %d: application answers %q for key %q, the model says %q (present %v)", h, q.Value, q.Key, mv, ok)
			}
		}
		for k, v := range model {
			ht.KV[k] = v
		}
		cc.truth[h] = ht
		cc.byHash[string(rec.BlockID.Hash)] = h
	}
	return cc, nil
}

func keyOf(ch *chaingen.Chain, addr []byte) ed25519.PrivKey {
	for _, k := range ch.KeyList {
		if string(k.PubKey().Address()) == string(addr) {
			return k
		}
	}
	panic("no key for validator")
}

// makeDVE builds structurally valid duplicate-vote evidence about height eh.
func makeDVE(r *rand.Rand, ch *chaingen.Chain, eh int64) types.Evidence {
	rec := ch.Hist[eh]
	vals := rec.StateBefore.Validators
	idx := r.Intn(vals.Size())
	mkID := func(tag byte) types.BlockID {
		h := make([]byte, 32)
		p := make([]byte, 32)
		for i := range h {
			h[i], p[i] = tag, tag+1
		}
		return types.BlockID{Hash: h, PartSetHeader: types.PartSetHeader{Total: 1, Hash: p}}
	}
	ts := rec.Block.Time
	v1 := ch.SignVote(vals, idx, tmproto.PrecommitType, eh, 0, mkID(byte(1+r.Intn(100))), ts)
	v2 := ch.SignVote(vals, idx, tmproto.PrecommitType, eh, 0, mkID(byte(120+r.Intn(100))), ts)
	return types.NewDuplicateVoteEvidence(v1, v2, ts, vals)
}

func (cc *chainCtx) heights() []int64 {
	hs := make([]int64, 0, len(cc.truth))
	for h := range cc.truth {
		hs = append(hs, h)
	}
	sort.Slice(hs, func(i, j int) bool { return hs[i] < hs[j] })
	return hs
}

func (cc *chainCtx) close() { cc.ch.Close() }

// applyModel: the documented effect of a key/value tx of recapp on its store
// ("<key>=<value>" sets k/<key>; any other plain tx sets k/<tx> to <tx>).
func applyModel(model map[string]string, tx []byte) {
	s := string(tx)
	if strings.HasPrefix(s, "bad") || strings.HasPrefix(s, "val:") || strings.HasPrefix(s, "param:") {
		return
	}
	k, v := s, s
	if i := strings.IndexByte(s, '='); i >= 0 {
		k, v = s[:i], s[i+1:]
	}
	model["k/"+k] = v
}
