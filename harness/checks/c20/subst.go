package c20

import (
	"bytes"
	"fmt"
	"math/rand"
	"strings"

	abci "github.com/tendermint/tendermint/abci/types"
	rpccore "github.com/tendermint/tendermint/rpc/core"
	ctypes "github.com/tendermint/tendermint/rpc/core/types"

	"verif/ref"
)

// Whole-record substitution.  The lying node answers a query about item X with
// the complete, internally consistent, genuinely provable record of ANOTHER
// committed item Y -- either as it is, or with the fields that echo the request
// (hash, height, key) relabelled so that it looks like an answer about X.
// Nothing in such a record contradicts the chain (oracle.go judges it true of
// the position it names) unless the relabelling broke it; what is wrong is that
// it is not the item that was asked for.  That is the second half of the oracle:

// answers: is the relayed response about the item the caller asked for?
// Only requests that name their item are bound (a query without a height asks
// for "the latest", which has no referent the oracle could hold the node to).
func (cc *chainCtx) answers(rq *request, resp interface{}) (ok bool, item, why string) {
	switch v := resp.(type) {
	case *ctypes.ResultBlock:
		if v.Block == nil {
			return true, "", ""
		}
		switch rq.Method {
		case "Block":
			if rq.Height != 0 && v.Block.Height != rq.Height {
				return false, "height", fmt.Sprintf("block of height %d relayed for a request about height %d", v.Block.Height, rq.Height)
			}
		case "BlockByHash":
			ht := cc.truth[v.Block.Height]
			if ht == nil || !bytes.Equal(ht.BlockID.Hash, rq.hash) {
				return false, "block", fmt.Sprintf("block of height %d relayed for a request about the block with hash %X", v.Block.Height, rq.hash)
			}
		}
	case *ctypes.ResultCommit:
		if rq.Height != 0 && v.Header != nil && v.Header.Height != rq.Height {
			return false, "height", fmt.Sprintf("commit of height %d relayed for a request about height %d", v.Header.Height, rq.Height)
		}
	case *ctypes.ResultValidators:
		if rq.Height != 0 && v.BlockHeight != rq.Height {
			return false, "height", fmt.Sprintf("validators of height %d relayed for a request about height %d", v.BlockHeight, rq.Height)
		}
	case *ctypes.ResultBlockResults:
		if rq.Height != 0 && v.Height != rq.Height {
			return false, "height", fmt.Sprintf("results of height %d relayed for a request about height %d", v.Height, rq.Height)
		}
	case *ctypes.ResultConsensusParams:
		if rq.Height != 0 && v.BlockHeight != rq.Height {
			return false, "height", fmt.Sprintf("params of height %d relayed for a request about height %d", v.BlockHeight, rq.Height)
		}
	case *ctypes.ResultBlockchainInfo:
		for _, m := range v.BlockMetas {
			if m != nil && ((rq.Min != 0 && m.Header.Height < rq.Min) || (rq.Max != 0 && m.Header.Height > rq.Max)) {
				return false, "height", fmt.Sprintf("meta of height %d relayed for a request about heights %d..%d", m.Header.Height, rq.Min, rq.Max)
			}
		}
	case *ctypes.ResultTx:
		if !bytes.Equal(ref.Sha256(v.Tx), rq.hash) {
			return false, "tx", fmt.Sprintf("tx with hash %X relayed for a request about the tx with hash %X", ref.Sha256(v.Tx), rq.hash)
		}
	case *ctypes.ResultTxSearch:
		// the only query the client-side groups use: tx.height=H.  A result must be a tx of block H (identical
		// bytes committed again later are served from their latest position: the bytes still are a tx of block H).
		var h int64
		if n, _ := fmt.Sscanf(rq.Query, "tx.height=%d", &h); n == 1 {
			ht := cc.truth[h]
			for i, t := range v.Txs {
				found := false
				if ht != nil && t != nil {
					for _, tx := range ht.Block.Data.Txs {
						if bytes.Equal(tx, t.Tx) {
							found = true
						}
					}
				}
				if !found {
					return false, "query", fmt.Sprintf("result %d is not a tx of block %d, which the query %q asks for", i, h, rq.Query)
				}
			}
		}
	case *ctypes.ResultABCIQuery:
		// recapp's documented mapping: path /key, data K reads the store key k/K; the two-level store answers with K itself
		want := "k/" + rq.Key
		if rq.StoreQuery {
			want = rq.Key
		}
		if string(v.Response.Key) != want {
			return false, "key", fmt.Sprintf("value of key %q relayed for a request about key %q", v.Response.Key, want)
		}
		if rq.Height != 0 && v.Response.Height != rq.Height {
			return false, "query-height", fmt.Sprintf("value as of height %d relayed for a request about height %d", v.Response.Height, rq.Height)
		}
	}
	return true, "", ""
}

// otherThan picks a generated height different from every height in `not` satisfying pred.
func (cc *chainCtx) otherThan(r *rand.Rand, pred func(h int64, ht *heightTruth) bool, not ...int64) int64 {
	var c []int64
next:
	for _, x := range cc.heights() {
		for _, n := range not {
			if x == n {
				continue next
			}
		}
		if pred == nil || pred(x, cc.truth[x]) {
			c = append(c, x)
		}
	}
	if len(c) == 0 {
		return 0
	}
	return c[r.Intn(len(c))]
}

const (
	clsSubst       = "substitution"            // Y's record as it is
	clsRelabel     = "substitution-relabelled" // Y's record with the request-echoing fields set to X
	clsNodeSubst   = "node-substitution"       // the same in the node's Commit / Validators answers
	clsNodeRelabel = "node-substitution-relabelled"
)

func substFals(method string) []fals {
	mk := func(name, class string, f func(r *rand.Rand, cc *chainCtx, rq *request, resp interface{}) bool) fals {
		return fals{Name: name, Class: class, Apply: func(r *rand.Rand, cc *chainCtx, resp interface{}) bool {
			rr := resp.(reqResp)
			return f(r, cc, rr.rq, rr.resp)
		}}
	}
	switch method {
	case "Tx":
		other := func(r *rand.Rand, cc *chainCtx, rq *request) *ctypes.ResultTx {
			for try := 0; try < 20 && len(cc.txList) > 0; try++ {
				l := cc.txList[r.Intn(len(cc.txList))]
				tx := cc.truth[l.H].Block.Data.Txs[l.I]
				if bytes.Equal(ref.Sha256(tx), rq.hash) {
					continue
				}
				if o, err := rpccore.Tx(rctx, ref.Sha256(tx), true); err == nil {
					return o
				}
			}
			return nil
		}
		return []fals{
			mk("complete genuine record of another committed tx (hash its own)", clsSubst, func(r *rand.Rand, cc *chainCtx, rq *request, resp interface{}) bool {
				o := other(r, cc, rq)
				if o == nil {
					return false
				}
				*resp.(*ctypes.ResultTx) = *o
				return true
			}),
			mk("complete genuine record of another committed tx, hash field set to the requested hash", clsRelabel, func(r *rand.Rand, cc *chainCtx, rq *request, resp interface{}) bool {
				o := other(r, cc, rq)
				if o == nil {
					return false
				}
				*resp.(*ctypes.ResultTx) = *o
				resp.(*ctypes.ResultTx).Hash = cpb(rq.hash)
				return true
			}),
		}
	case "Block", "BlockByHash":
		other := func(r *rand.Rand, cc *chainCtx, rq *request) *ctypes.ResultBlock {
			h2 := cc.otherThan(r, func(h int64, ht *heightTruth) bool { return !bytes.Equal(ht.BlockID.Hash, rq.hash) }, rq.Height)
			if h2 == 0 {
				return nil
			}
			o, err := rpccore.Block(rctx, &h2)
			if err != nil {
				return nil
			}
			return o
		}
		fs := []fals{
			mk("complete genuine record of another block (block id its own)", clsSubst, func(r *rand.Rand, cc *chainCtx, rq *request, resp interface{}) bool {
				o := other(r, cc, rq)
				if o == nil {
					return false
				}
				*resp.(*ctypes.ResultBlock) = *o
				return true
			}),
		}
		if method == "BlockByHash" {
			fs = append(fs, mk("complete genuine record of another block, block id hash set to the requested hash", clsRelabel, func(r *rand.Rand, cc *chainCtx, rq *request, resp interface{}) bool {
				o := other(r, cc, rq)
				if o == nil {
					return false
				}
				*resp.(*ctypes.ResultBlock) = *o
				resp.(*ctypes.ResultBlock).BlockID.Hash = cpb(rq.hash)
				return true
			}))
		} else {
			fs = append(fs, mk("complete genuine record of another block, header height set to the requested height, block id hash recomputed", clsRelabel, func(r *rand.Rand, cc *chainCtx, rq *request, resp interface{}) bool {
				o := other(r, cc, rq)
				if o == nil || rq.Height == 0 {
					return false
				}
				*resp.(*ctypes.ResultBlock) = *o
				resp.(*ctypes.ResultBlock).Block.Header.Height = rq.Height
				rehashID(resp.(*ctypes.ResultBlock))
				return true
			}), mk("complete genuine record of another block, header height set to the requested height (block id untouched)", clsRelabel, func(r *rand.Rand, cc *chainCtx, rq *request, resp interface{}) bool {
				o := other(r, cc, rq)
				if o == nil || rq.Height == 0 {
					return false
				}
				*resp.(*ctypes.ResultBlock) = *o
				resp.(*ctypes.ResultBlock).Block.Header.Height = rq.Height
				return true
			}))
		}
		return fs
	case "BlockResults":
		other := func(r *rand.Rand, cc *chainCtx, rq *request, resp interface{}) *ctypes.ResultBlockResults {
			cur := resp.(*ctypes.ResultBlockResults).Height
			h2 := cc.otherThan(r, func(h int64, ht *heightTruth) bool { return h < cc.last }, cur, rq.Height)
			if h2 == 0 {
				return nil
			}
			o, err := rpccore.BlockResults(rctx, &h2)
			if err != nil {
				return nil
			}
			return o
		}
		return []fals{
			mk("complete genuine results of another height (height its own)", clsSubst, func(r *rand.Rand, cc *chainCtx, rq *request, resp interface{}) bool {
				o := other(r, cc, rq, resp)
				if o == nil {
					return false
				}
				*resp.(*ctypes.ResultBlockResults) = *o
				return true
			}),
			mk("complete genuine results of another height, height field set to the requested height", clsRelabel, func(r *rand.Rand, cc *chainCtx, rq *request, resp interface{}) bool {
				o := other(r, cc, rq, resp)
				if o == nil {
					return false
				}
				o.Height = resp.(*ctypes.ResultBlockResults).Height
				*resp.(*ctypes.ResultBlockResults) = *o
				return true
			}),
		}
	case "ConsensusParams":
		other := func(r *rand.Rand, cc *chainCtx, rq *request, resp interface{}) *ctypes.ResultConsensusParams {
			cur := resp.(*ctypes.ResultConsensusParams).BlockHeight
			h2 := cc.otherThan(r, nil, cur, rq.Height)
			if h2 == 0 {
				return nil
			}
			o, err := rpccore.ConsensusParams(rctx, &h2)
			if err != nil {
				return nil
			}
			return o
		}
		return []fals{
			mk("complete genuine params record of another height (height its own)", clsSubst, func(r *rand.Rand, cc *chainCtx, rq *request, resp interface{}) bool {
				o := other(r, cc, rq, resp)
				if o == nil {
					return false
				}
				*resp.(*ctypes.ResultConsensusParams) = *o
				return true
			}),
			mk("complete genuine params record of another height, height field set to the requested height", clsRelabel, func(r *rand.Rand, cc *chainCtx, rq *request, resp interface{}) bool {
				o := other(r, cc, rq, resp)
				if o == nil {
					return false
				}
				o.BlockHeight = resp.(*ctypes.ResultConsensusParams).BlockHeight
				*resp.(*ctypes.ResultConsensusParams) = *o
				return true
			}),
		}
	case "BlockchainInfo":
		return []fals{
			mk("complete genuine answer about a height outside the requested range", clsSubst, func(r *rand.Rand, cc *chainCtx, rq *request, resp interface{}) bool {
				h2 := cc.otherThan(r, func(h int64, ht *heightTruth) bool { return h < rq.Min || h > rq.Max })
				if h2 == 0 {
					return false
				}
				o, err := rpccore.BlockchainInfo(rctx, h2, h2)
				if err != nil {
					return false
				}
				*resp.(*ctypes.ResultBlockchainInfo) = *o
				return true
			}),
		}
	case "TxSearch":
		return []fals{
			mk("complete genuine answer to another query (the txs of another height)", clsSubst, func(r *rand.Rand, cc *chainCtx, rq *request, resp interface{}) bool {
				var h int64
				fmt.Sscanf(rq.Query, "tx.height=%d", &h)
				mine := map[string]bool{}
				if ht := cc.truth[h]; ht != nil {
					for _, tx := range ht.Block.Data.Txs {
						mine[string(tx)] = true
					}
				}
				h2 := cc.otherThan(r, func(x int64, ht *heightTruth) bool {
					for _, tx := range ht.Block.Data.Txs {
						if mine[string(tx)] {
							return false
						}
					}
					return len(ht.Block.Data.Txs) > 0
				}, h)
				if h2 == 0 {
					return false
				}
				per := 100
				o, err := rpccore.TxSearch(rctx, fmt.Sprintf("tx.height=%d", h2), true, nil, &per, "asc")
				if err != nil || len(o.Txs) == 0 {
					return false
				}
				*resp.(*ctypes.ResultTxSearch) = *o
				return true
			}),
		}
	case "ABCIQuery":
		q := func(resp interface{}) *abci.ResponseQuery { return &resp.(*ctypes.ResultABCIQuery).Response }
		otherKeyAns := func(r *rand.Rand, cc *chainCtx, cur *abci.ResponseQuery) *abci.ResponseQuery {
			ht := cc.truth[cur.Height]
			if ht == nil {
				return nil
			}
			var ks []string
			for k := range ht.QueryAnsPB {
				if k != string(cur.Key) {
					ks = append(ks, k)
				}
			}
			if len(ks) == 0 {
				return nil
			}
			sortStrings(ks)
			var o abci.ResponseQuery
			if o.Unmarshal(ht.QueryAnsPB[ks[r.Intn(len(ks))]]) != nil {
				return nil
			}
			return &o
		}
		otherHeightAns := func(r *rand.Rand, cc *chainCtx, cur *abci.ResponseQuery) *abci.ResponseQuery {
			h2 := cc.otherThan(r, func(h int64, ht *heightTruth) bool {
				_, ok := ht.QueryAnsPB[string(cur.Key)]
				return ok && h < cc.last
			}, cur.Height)
			if h2 == 0 {
				return nil
			}
			var o abci.ResponseQuery
			if o.Unmarshal(cc.truth[h2].QueryAnsPB[string(cur.Key)]) != nil {
				return nil
			}
			return &o
		}
		return []fals{
			mk("complete genuine answer about another key (key its own)", clsSubst, func(r *rand.Rand, cc *chainCtx, rq *request, resp interface{}) bool {
				o := otherKeyAns(r, cc, q(resp))
				if o == nil {
					return false
				}
				*q(resp) = *o
				return true
			}),
			mk("complete genuine answer about another key, key field set to the requested key", clsRelabel, func(r *rand.Rand, cc *chainCtx, rq *request, resp interface{}) bool {
				o := otherKeyAns(r, cc, q(resp))
				if o == nil {
					return false
				}
				o.Key = cpb(q(resp).Key)
				*q(resp) = *o
				return true
			}),
			mk("complete genuine answer about another key, key field and proof-op key set to the requested key", clsRelabel, func(r *rand.Rand, cc *chainCtx, rq *request, resp interface{}) bool {
				o := otherKeyAns(r, cc, q(resp))
				if o == nil || o.ProofOps == nil || len(o.ProofOps.Ops) == 0 {
					return false
				}
				o.Key = cpb(q(resp).Key)
				o.ProofOps.Ops[0].Key = cpb(q(resp).Key)
				*q(resp) = *o
				return true
			}),
			mk("complete genuine answer about the same key as of another height (height its own)", clsSubst, func(r *rand.Rand, cc *chainCtx, rq *request, resp interface{}) bool {
				o := otherHeightAns(r, cc, q(resp))
				if o == nil {
					return false
				}
				*q(resp) = *o
				return true
			}),
			mk("complete genuine answer about the same key as of another height, height field set to the requested one", clsRelabel, func(r *rand.Rand, cc *chainCtx, rq *request, resp interface{}) bool {
				o := otherHeightAns(r, cc, q(resp))
				if o == nil || bytes.Equal(o.Value, q(resp).Value) {
					return false
				}
				o.Height = q(resp).Height
				*q(resp) = *o
				return true
			}),
		}
	}
	return nil
}

// substNodeFals: the node's Commit / Validators answers (fetched by the light
// provider) about the target height are replaced by another height's complete
// record, as it is or relabelled as the target height.
func substNodeFals(of string) []fals {
	mk := func(name, class string, f func(r *rand.Rand, cc *chainCtx, resp interface{}) bool) fals {
		return fals{Name: name, Class: class, Apply: f}
	}
	commitOf := func(r *rand.Rand, cc *chainCtx, cur int64) *ctypes.ResultCommit {
		h2 := cc.otherThan(r, nil, cur)
		if h2 == 0 {
			return nil
		}
		o, err := rpccore.Commit(rctx, &h2)
		if err != nil || o == nil {
			return nil
		}
		return o
	}
	valsOf := func(r *rand.Rand, cc *chainCtx, cur int64, differ bool) *ctypes.ResultValidators {
		h2 := cc.otherThan(r, func(h int64, ht *heightTruth) bool {
			return !differ || !bytes.Equal(ht.Block.ValidatorsHash, cc.truth[cur].Block.ValidatorsHash)
		}, cur)
		if h2 == 0 {
			return nil
		}
		per := 100
		o, err := rpccore.Validators(rctx, &h2, nil, &per)
		if err != nil {
			return nil
		}
		return o
	}
	relabelCommit := func(o *ctypes.ResultCommit, h int64) {
		o.Header.Height = h
		o.Commit.Height = h
		o.Commit.BlockID.Hash = o.Header.Hash()
	}
	var out []fals
	if strings.Contains(of, "Commit") && !strings.Contains(of, ",") {
		out = append(out,
			mk("node commit answer: complete signed header of another height (height its own)", clsNodeSubst, func(r *rand.Rand, cc *chainCtx, resp interface{}) bool {
				v := resp.(*ctypes.ResultCommit)
				o := commitOf(r, cc, v.Height)
				if o == nil {
					return false
				}
				*v = *o
				return true
			}),
			mk("node commit answer: complete signed header of another height, header and commit height set to the requested one, commit block id hash recomputed", clsNodeRelabel, func(r *rand.Rand, cc *chainCtx, resp interface{}) bool {
				v := resp.(*ctypes.ResultCommit)
				h := v.Height
				o := commitOf(r, cc, h)
				if o == nil {
					return false
				}
				relabelCommit(o, h)
				*v = *o
				return true
			}))
	}
	if strings.Contains(of, "Validators") && !strings.Contains(of, ",") {
		out = append(out,
			mk("node validators answer: complete record of another height (height its own)", clsNodeSubst, func(r *rand.Rand, cc *chainCtx, resp interface{}) bool {
				v := resp.(*ctypes.ResultValidators)
				if cc.truth[v.BlockHeight] == nil {
					return false
				}
				o := valsOf(r, cc, v.BlockHeight, true)
				if o == nil {
					return false
				}
				*v = *o
				return true
			}),
			mk("node validators answer: complete record of another height, height field set to the requested one", clsNodeRelabel, func(r *rand.Rand, cc *chainCtx, resp interface{}) bool {
				v := resp.(*ctypes.ResultValidators)
				if cc.truth[v.BlockHeight] == nil {
					return false
				}
				o := valsOf(r, cc, v.BlockHeight, true)
				if o == nil {
					return false
				}
				o.BlockHeight = v.BlockHeight
				*v = *o
				return true
			}))
	}
	if strings.Contains(of, ",") {
		// both answers: another height's complete light block relabelled as the requested height (the same other
		// height for both answers: the PRNG handed in is re-seeded identically for every answer of one case)
		out = append(out, mk("node answers with another height's complete light block (signed header and validators) relabelled as the requested height", clsNodeRelabel,
			func(r *rand.Rand, cc *chainCtx, resp interface{}) bool {
				switch v := resp.(type) {
				case *ctypes.ResultCommit:
					h := v.Height
					h2 := cc.otherThan(r, nil, h)
					if h2 == 0 {
						return false
					}
					o, err := rpccore.Commit(rctx, &h2)
					if err != nil || o == nil {
						return false
					}
					relabelCommit(o, h)
					*v = *o
					return true
				case *ctypes.ResultValidators:
					h := v.BlockHeight
					if cc.truth[h] == nil {
						return false
					}
					h2 := cc.otherThan(r, nil, h)
					if h2 == 0 {
						return false
					}
					per := 100
					o, err := rpccore.Validators(rctx, &h2, nil, &per)
					if err != nil {
						return false
					}
					o.BlockHeight = h
					*v = *o
					return true
				}
				return false
			}))
	}
	return out
}

func sortStrings(c []string) {
	for i := range c {
		for j := i + 1; j < len(c); j++ {
			if c[j] < c[i] {
				c[i], c[j] = c[j], c[i]
			}
		}
	}
}
