// Package c20: the verifying RPC client (light/rpc) relays an answer iff it is
// consistent with light-verified headers, and inclusion proofs served by a full
// node's RPC verify against the data hash of the block they refer to
// (DESIGN.md C20, suspicions S9 and S10).
//
// Setup per generated chain (chaingen: real MakeBlock / ApplyBlock, recapp with
// Merkle-proved queries, kv tx index filled from the stored ABCI responses):
//   - the *full node* is the real rpc/core code reading those stores
//     (rpccore.SetEnvironment, one chain at a time per process);
//   - `next` of the verifying client is a thin rpcclient.Client calling those
//     rpc/core functions (what rpc/client/local does), optionally falsifying one
//     field of one response, and always passing the answer through the tmjson
//     wire encoding;
//   - the light client is the real light.Client over two providers backed by
//     the chain (primary + one witness); for Commit and Validators, which
//     light/rpc answers from the light store without consulting `next`, the
//     falsification is applied to the primary's light block instead.
//
// Monitors: completeness (honest backend => no error and the backend's answer),
// soundness (whatever is relayed without error is true of the canonical chain
// in every header-committed field: oracle.go), server side (every proof served
// by rpc/core Tx / TxSearch is the reference audit path against the block's
// data hash: ref.Merkle).
package c20

import (
	"bytes"
	"context"
	"encoding/hex"
	"fmt"
	"math/rand"
	"reflect"
	"strings"
	"sync"
	"time"

	dbm "github.com/tendermint/tm-db"

	"github.com/tendermint/tendermint/crypto/merkle"
	tmjson "github.com/tendermint/tendermint/libs/json"
	"github.com/tendermint/tendermint/libs/log"
	"github.com/tendermint/tendermint/light"
	"github.com/tendermint/tendermint/light/provider"
	lhttp "github.com/tendermint/tendermint/light/provider/http"
	lrpc "github.com/tendermint/tendermint/light/rpc"
	dbs "github.com/tendermint/tendermint/light/store/db"
	rpcclient "github.com/tendermint/tendermint/rpc/client"
	rpccore "github.com/tendermint/tendermint/rpc/core"
	ctypes "github.com/tendermint/tendermint/rpc/core/types"
	rpctypes "github.com/tendermint/tendermint/rpc/jsonrpc/types"

	"verif/ref"
	"verif/verdict"
)

type request struct {
	Method  string `json:"method"`
	Height  int64  `json:"height,omitempty"` // 0 = no height given
	HashHex string `json:"hash_hex,omitempty"`
	Page    int    `json:"page,omitempty"`
	PerPage int    `json:"per_page,omitempty"`
	Min     int64  `json:"min_height,omitempty"`
	Max     int64  `json:"max_height,omitempty"`
	Key     string `json:"key,omitempty"`
	KeyHex  string `json:"key_hex,omitempty"`
	// StoreQuery: path /store/<Store>/key into the two-level store (ministore.go) instead of /key
	StoreQuery bool   `json:"store_query,omitempty"`
	Store      string `json:"store,omitempty"`
	StoreHex   string `json:"store_hex,omitempty"`
	Query      string `json:"query,omitempty"`
	hash       []byte
}

func hp(h int64) *int64 {
	if h == 0 {
		return nil
	}
	return &h
}
func ip(i int) *int {
	if i == 0 {
		return nil
	}
	return &i
}

func isNil(v interface{}) bool {
	if v == nil {
		return true
	}
	rv := reflect.ValueOf(v)
	return rv.Kind() == reflect.Ptr && rv.IsNil()
}

// invoke calls one method of the verifying client; a panic is turned into an error.
func invoke(cl rpcclient.Client, rq *request) (resp interface{}, err error, panicked bool) {
	defer func() {
		if rec := recover(); rec != nil {
			resp, err, panicked = nil, fmt.Errorf("panic: %v", rec), true
		}
	}()
	ctx := context.Background()
	switch rq.Method {
	case "Block":
		resp, err = cl.Block(ctx, hp(rq.Height))
	case "BlockByHash":
		resp, err = cl.BlockByHash(ctx, rq.hash)
	case "BlockResults":
		resp, err = cl.BlockResults(ctx, hp(rq.Height))
	case "Commit":
		resp, err = cl.Commit(ctx, hp(rq.Height))
	case "Validators":
		resp, err = cl.Validators(ctx, hp(rq.Height), ip(rq.Page), ip(rq.PerPage))
	case "Tx":
		resp, err = cl.Tx(ctx, rq.hash, true)
	case "TxSearch":
		resp, err = cl.TxSearch(ctx, rq.Query, true, nil, ip(100), "asc")
	case "ConsensusParams":
		resp, err = cl.ConsensusParams(ctx, hp(rq.Height))
	case "BlockchainInfo":
		resp, err = cl.BlockchainInfo(ctx, rq.Min, rq.Max)
	case "ABCIQuery":
		path := "/key"
		if rq.StoreQuery {
			path = "/store/" + rq.Store + "/key"
		}
		resp, err = cl.ABCIQueryWithOptions(ctx, path, []byte(rq.Key), rpcclient.ABCIQueryOptions{Height: rq.Height, Prove: true})
	default:
		panic("unknown method " + rq.Method)
	}
	if err == nil && isNil(resp) {
		err = fmt.Errorf("nil response without error")
	}
	return
}

func (cc *chainCtx) judge(rq *request, resp interface{}) (j judgement, extraInvalidSig bool) {
	switch v := resp.(type) {
	case *ctypes.ResultBlock:
		return cc.judgeBlock(v), false
	case *ctypes.ResultCommit:
		return cc.judgeCommit(v)
	case *ctypes.ResultValidators:
		return cc.judgeValidators(v, pageReq{rq.Page, rq.PerPage}), false
	case *ctypes.ResultTx:
		return cc.judgeTx(v, true), false
	case *ctypes.ResultTxSearch:
		return cc.judgeTxSearch(v, true), false
	case *ctypes.ResultBlockResults:
		return cc.judgeBlockResults(v), false
	case *ctypes.ResultConsensusParams:
		return cc.judgeParams(v), false
	case *ctypes.ResultBlockchainInfo:
		return cc.judgeBlockchainInfo(v), false
	case *ctypes.ResultABCIQuery:
		return cc.judgeQuery(rq, v), false
	}
	return bad("type", "unexpected response type %T", resp), false
}

// ---------------------------------------------------------------- verifier

type verifier struct {
	cl *lrpc.Client
	lc *light.Client
	be *backend // the node: `next` of the verifying client and the primary light provider's RPC client
}

// keyPathFn builds the key path the way light/rpc.DefaultMerkleKeyPathFn does (URL encoding at every
// level), for this application's proof layout: /key -> [key]; /store/<name>/key -> [k/ms, name, key].
func keyPathFn(path string, key []byte) (merkle.KeyPath, error) {
	kp := merkle.KeyPath{}
	if strings.HasPrefix(path, "/store/") && strings.HasSuffix(path, "/key") && len(path) >= len("/store//key") {
		kp = kp.AppendKey([]byte("k/ms"), merkle.KeyEncodingURL)
		kp = kp.AppendKey([]byte(path[len("/store/"):len(path)-len("/key")]), merkle.KeyEncodingURL)
	}
	return kp.AppendKey(key, merkle.KeyEncodingURL), nil
}

// newVerifier wires the deployment of the light proxy: one (possibly lying)
// node serves both the RPC requests and, through the real light/provider/http,
// the primary's light blocks; an honest node is the witness.
func (cc *chainCtx) newVerifier(be *backend, trustH int64, seq bool) (*verifier, error) {
	prim := lhttp.NewWithClient(cc.ch.ChainID, be)
	wb := newBackend(cc, "witness")
	wb.cutoff = be.cutoff // the witnesses do not have the withheld heights either
	wit := lhttp.NewWithClient(cc.ch.ChainID, wb)
	opts := []light.Option{light.Logger(log.NewNopLogger())}
	if seq {
		opts = append(opts, light.SequentialVerification())
	}
	lc, err := light.NewClient(context.Background(), cc.ch.ChainID,
		light.TrustOptions{Period: trustPeriod, Height: trustH, Hash: cpb(cc.truth[trustH].BlockID.Hash)},
		prim, []provider.Provider{wit}, dbs.New(dbm.NewMemDB(), ""), opts...)
	if err != nil {
		return nil, err
	}
	return &verifier{cl: lrpc.NewClient(be, lc, lrpc.KeyPathFn(keyPathFn)), lc: lc, be: be}, nil
}

// ---------------------------------------------------------------- groups

type group struct {
	Idx        int     `json:"group"`
	Req        request `json:"request"`
	TrustH     int64   `json:"trust_height"`
	Seq        bool    `json:"sequential_verification"`
	fals       []fals
	falsOf     string // the node method whose answer is falsified ("" = the request's own method)
	skipHonest bool   // the honest calls of this request are made by a sibling group
	Never      bool   `json:"item_never_committed,omitempty"`
	Special    bool   `json:"special_key_family,omitempty"`
	// Cutoff != 0: the light providers (primary and witness) claim this is their latest height
	Cutoff int64 `json:"providers_latest_height,omitempty"`
	// Unverifiable: the check of this request needs the header after the one asked about, and no provider has it
	// (the tip, or a withheld successor): no verified header can commit to any answer, an error is the only sound reply
	Unverifiable bool `json:"successor_header_unobtainable,omitempty"`
	AtTip        bool `json:"repeat_at_tip,omitempty"` // the node starts lying only after the light client has reached its latest height
}

type caseWitness struct {
	Stream    string    `json:"stream"`
	Chain     chainSpec `json:"chain"`
	Group     group     `json:"case"`
	Falsified string    `json:"falsification"`
	Warm      bool      `json:"light_client_reused_within_group"`
	Err       string    `json:"client_error,omitempty"`
	Oracle    string    `json:"oracle,omitempty"`
	Relayed   string    `json:"relayed_response_json,omitempty"`
	Note      string    `json:"note,omitempty"`
}

func trunc(b []byte, n int) string {
	if len(b) > n {
		return string(b[:n]) + fmt.Sprintf("…(%d bytes)", len(b))
	}
	return string(b)
}

func relayedJSON(resp interface{}) []byte {
	if isNil(resp) {
		return nil
	}
	bz, err := tmjson.Marshal(resp)
	if err != nil {
		return []byte("unencodable: " + err.Error())
	}
	return bz
}

var relayedKinds = map[string]bool{"Block": true, "BlockByHash": true, "BlockResults": true, "Tx": true, "TxSearch": true,
	"ConsensusParams": true, "BlockchainInfo": true, "ABCIQuery": true}

func lower(s string) string { return strings.ToLower(s) }

// inputClass: the input class of an application query (for finding keys): keys / store names that the
// key-path encoding treats in a way of its own.
func inputClass(rq *request) string {
	if rq.Method != "ABCIQuery" {
		return ""
	}
	// one class per request: the key is checked first (innermost proof op), the store name after it
	if c := keyClass(rq.Key); c != "" {
		return "-key" + c
	}
	if rq.StoreQuery {
		if c := keyClass(rq.Store); c != "" {
			return "-store-name" + c
		}
	}
	return ""
}

// reqVariant: the methods for which "no height given" is a code path of its own in light/rpc
// (Update() instead of VerifyLightBlockAtHeight; the node answering for the uncommitted height).
func reqVariant(rq *request) string {
	switch rq.Method {
	case "Commit", "Validators", "ConsensusParams":
		if rq.Height == 0 {
			return "-no-height"
		}
	}
	return ""
}

func (cc *chainCtx) buildGroups(c *verdict.Ctx, r *rand.Rand, nTargets int, gidx *int) []*group {
	var gs []*group
	hs := cc.heights()
	add := func(rq request, f []fals, falsOf string) {
		if falsOf == "" {
			f = append(f, substFals(rq.Method)...)
		} else {
			f = append(f, substNodeFals(falsOf)...)
		}
		g := &group{Idx: *gidx, Req: rq, fals: f, falsOf: falsOf}
		*gidx++
		g.TrustH = hs[r.Intn(len(hs))]
		if r.Intn(4) == 0 {
			g.TrustH = cc.last
		}
		g.Seq = r.Intn(3) == 0
		gs = append(gs, g)
	}
	// position family: for one block of each size 1..9, the last tx (and one other) moved to every position
	// from -1 to total+2 with index and proof index changed alike
	bySize := map[int][]int64{}
	for _, h := range hs {
		bySize[len(cc.truth[h].Block.Data.Txs)] = append(bySize[len(cc.truth[h].Block.Data.Txs)], h)
	}
	unique := func(tx []byte) bool { return len(cc.txs[string(tx)]) == 1 }
	for size := 1; size <= 9; size++ {
		cands := bySize[size]
		for _, k := range r.Perm(len(cands)) {
			h := cands[k]
			txs := cc.truth[h].Block.Data.Txs
			if !unique(txs[size-1]) {
				continue
			}
			c.Count(fmt.Sprintf("position_family.blocks_of_size_%d", size), 1)
			last := txs[size-1]
			add(request{Method: "Tx", HashHex: hex.EncodeToString(ref.Sha256(last)), hash: ref.Sha256(last)}, txPositionFalsTx(), "")
			if o := r.Intn(size); o != size-1 && unique(txs[o]) {
				add(request{Method: "Tx", HashHex: hex.EncodeToString(ref.Sha256(txs[o])), hash: ref.Sha256(txs[o])}, txPositionFalsTx(), "")
			}
			add(request{Method: "TxSearch", Query: fmt.Sprintf("tx.height=%d", h)}, txPositionFalsSearch(-1), "")
			break
		}
	}
	// special keys: bytes the key-path encoding treats specially, and their twins
	hexs := func(x string) string { return hex.EncodeToString([]byte(x)) }
	if qh := cc.last - 1; qh >= cc.first {
		mid := cc.first + (cc.last-cc.first)/2
		for i, k := range specialPlainKeys {
			rq := request{Method: "ABCIQuery", Height: []int64{qh, mid, 0}[i%3], Key: k, KeyHex: hexs(k)}
			add(rq, append(queryFals(), specialQueryFals(rq, cc)...), "")
			gs[len(gs)-1].Special = true
		}
		var pairs [][2]string
		for _, k := range specialKeys {
			pairs = append(pairs, [2]string{"bank", k})
		}
		for _, st := range specialStores {
			if st != "bank" {
				pairs = append(pairs, [2]string{st, "plain"})
			}
		}
		for n := 0; n < 6; n++ {
			pairs = append(pairs, [2]string{specialStores[r.Intn(len(specialStores))], specialKeys[r.Intn(len(specialKeys))]})
		}
		for i, p := range pairs {
			rq := request{Method: "ABCIQuery", Height: []int64{qh, mid, 0}[i%3], StoreQuery: true, Store: p[0], StoreHex: hexs(p[0]), Key: p[1], KeyHex: hexs(p[1])}
			add(rq, specialQueryFals(rq, cc), "")
			gs[len(gs)-1].Special = true
		}
	}
	// successor-header family: BlockResults(h) is checked against header h+1 (LastResultsHash), ABCIQuery at height h
	// against header h+1 (AppHash).  Ask explicitly for the tip, and for heights whose successor the providers withhold.
	{
		type sc struct{ h, cutoff int64 }
		scs := []sc{{cc.last, 0}}
		for n := 0; n < 3; n++ {
			h := hs[r.Intn(len(hs))]
			if n == 0 {
				if w := cc.nearestWithTxs(h, cc.last-1); w != 0 {
					h = w
				}
			}
			if h < cc.last {
				scs = append(scs, sc{h, h})
			}
		}
		for _, x := range scs {
			mk := func(rq request, f []fals) {
				add(rq, append(unchangedFals(), f...), "")
				g := gs[len(gs)-1]
				g.skipHonest, g.Unverifiable, g.Cutoff = true, true, x.cutoff
				lim := x.h
				if g.TrustH > lim {
					g.TrustH = hs[r.Intn(len(hs))]
					for g.TrustH > lim {
						g.TrustH = hs[r.Intn(len(hs))]
					}
				}
			}
			mk(request{Method: "BlockResults", Height: x.h}, resultsFals())
			if k := cc.someKeyAt(r, x.h); k != "" {
				mk(request{Method: "ABCIQuery", Height: x.h, Key: k, KeyHex: hexs(k)}, queryFals())
			}
			mk(request{Method: "ABCIQuery", Height: x.h, StoreQuery: true, Store: "bank", StoreHex: hexs("bank"), Key: "plain", KeyHex: hexs("plain")},
				specialQueryFals(request{StoreQuery: true, Store: "bank", Key: "plain"}, cc))
		}
	}
	// items that were never committed: the honest node has nothing to say; a lying node answers with the
	// record of a committed item (substFals).  No honest rounds: there is no honest answer to relay.
	for k := 0; k < 2; k++ {
		nx := ref.Sha256([]byte(fmt.Sprintf("never-committed-%d-%d", cc.spec.Idx, k)))
		add(request{Method: "Tx", HashHex: hex.EncodeToString(nx), hash: nx}, nil, "")
		gs[len(gs)-1].skipHonest, gs[len(gs)-1].Never = true, true
		nb := ref.Sha256([]byte(fmt.Sprintf("never-a-block-%d-%d", cc.spec.Idx, k)))
		add(request{Method: "BlockByHash", HashHex: hex.EncodeToString(nb), hash: nb}, nil, "")
		gs[len(gs)-1].skipHonest, gs[len(gs)-1].Never = true, true
	}
	for t := 0; t < nTargets; t++ {
		h := hs[r.Intn(len(hs))]
		noH := func() bool { return r.Intn(4) == 0 }
		// Block
		rq := request{Method: "Block", Height: h}
		if noH() {
			rq.Height = 0
		}
		add(rq, blockFals(), "")
		// BlockByHash
		add(request{Method: "BlockByHash", HashHex: hex.EncodeToString(cc.truth[h].BlockID.Hash), hash: cpb(cc.truth[h].BlockID.Hash)}, blockFals(), "")
		// BlockResults: results of h are committed to by header h+1
		rh := h
		if rh > cc.last-1 {
			rh = cc.last - 1
		}
		if withTx := cc.nearestWithTxs(rh, cc.last-1); withTx != 0 && r.Intn(3) != 0 {
			rh = withTx
		}
		rq = request{Method: "BlockResults", Height: rh}
		if noH() {
			rq.Height = 0
		}
		add(rq, resultsFals(), "")
		// Commit, Validators: answered from the light store
		rq = request{Method: "Commit", Height: h}
		if noH() {
			rq.Height = 0
		}
		add(rq, commitFals(), "Commit")
		add(rq, validatorsFals(), "Validators")
		gs[len(gs)-1].skipHonest = true
		rq = request{Method: "Validators", Height: h}
		if noH() {
			rq.Height = 0
		}
		switch r.Intn(5) {
		case 1:
			rq.Page, rq.PerPage = 1, 2
		case 2:
			rq.PerPage = 1 + r.Intn(3)
			rq.Page = 1 + r.Intn((cc.valCount(rq.Height)-1)/rq.PerPage+1)
		case 3:
			rq.PerPage = 100 + r.Intn(100)
		}
		add(rq, validatorsFals(), "Validators")
		add(rq, commitFals(), "Commit")
		gs[len(gs)-1].skipHonest = true
		add(rq, consistentNodeFals(), "Commit,Validators")
		gs[len(gs)-1].skipHonest = true
		// repeat at the tip: the light client is brought to the node's latest height through an honest node,
		// then the node lies about exactly that height and the no-height methods are asked again
		for _, meth := range []string{"Commit", "Validators"} {
			for _, fl := range []struct {
				of string
				f  []fals
			}{{"Commit", commitFals()}, {"Validators", validatorsFals()}, {"Commit,Validators", append(consistentNodeFals(), forgedTipFals()...)}} {
				add(request{Method: meth}, fl.f, fl.of)
				gs[len(gs)-1].skipHonest, gs[len(gs)-1].AtTip = true, true
			}
		}
		// Tx / TxSearch
		if th := cc.nearestWithTxs(h, cc.last); th != 0 {
			txs := cc.truth[th].Block.Data.Txs
			tx := txs[r.Intn(len(txs))]
			add(request{Method: "Tx", HashHex: hex.EncodeToString(ref.Sha256(tx)), hash: ref.Sha256(tx)}, txFals(), "")
			add(request{Method: "TxSearch", Query: fmt.Sprintf("tx.height=%d", th)}, txSearchFals(), "")
		}
		// ConsensusParams
		rq = request{Method: "ConsensusParams", Height: h}
		if noH() {
			rq.Height = 0
		}
		add(rq, paramsFals(), "")
		// BlockchainInfo
		lo := h - int64(r.Intn(5))
		if lo < cc.first {
			lo = cc.first
		}
		rq = request{Method: "BlockchainInfo", Min: lo, Max: h}
		if r.Intn(4) == 0 {
			rq.Min, rq.Max = h, h
		}
		add(rq, infoFals(), "")
		// ABCIQuery: the state after qh is committed to by header qh+1
		qh := h
		if qh > cc.last-1 {
			qh = cc.last - 1
		}
		if k := cc.someKeyAt(r, qh); k != "" {
			rq = request{Method: "ABCIQuery", Height: qh, Key: k}
			if noH() {
				if k2 := cc.someKeyAt(r, cc.last-1); k2 != "" {
					rq.Height, rq.Key = 0, k2
				}
			}
			add(rq, queryFals(), "")
		}
	}
	return gs
}

func (cc *chainCtx) valCount(h int64) int {
	if h == 0 {
		h = cc.last
	}
	return cc.truth[h].Vals.Size()
}

func (cc *chainCtx) nearestWithTxs(h, max int64) int64 {
	for d := int64(0); d <= cc.last-cc.first; d++ {
		for _, x := range []int64{h - d, h + d} {
			if ht := cc.truth[x]; ht != nil && x <= max && len(ht.Block.Data.Txs) > 0 {
				return x
			}
		}
	}
	return 0
}

func (cc *chainCtx) someKeyAt(r *rand.Rand, h int64) string {
	ht := cc.truth[h]
	if ht == nil {
		return ""
	}
	var ks []string
	for _, k := range cc.keys {
		if _, ok := ht.KV["k/"+k]; ok {
			ks = append(ks, k)
		}
	}
	if len(ks) == 0 {
		return ""
	}
	return ks[r.Intn(len(ks))]
}

func (cc *chainCtx) runGroup(c *verdict.Ctx, g *group) {
	r := c.Rand("group", g.Idx)
	m := g.Req.Method
	wit := func(f string, warm bool, err error, j judgement, resp interface{}, note string) caseWitness {
		w := caseWitness{Stream: "group", Chain: cc.spec, Group: *g, Falsified: f, Warm: warm, Oracle: j.Why, Note: note, Relayed: trunc(relayedJSON(resp), 3000)}
		if err != nil {
			w.Err = err.Error()
		}
		return w
	}
	node := func() *backend {
		b := newBackend(cc, "node")
		b.cutoff = g.Cutoff
		return b
	}
	warm, err := cc.newVerifier(node(), g.TrustH, g.Seq)
	if err != nil {
		c.Violation("light-client-honest-initialisation-refused", "light.NewClient failed against an honest node: "+err.Error(), wit("none", true, err, judgement{}, nil, ""))
		return
	}

	// ---- completeness: honest node, twice on the same client (the second call finds the light block already verified)
	for round := 1; round <= 2 && !g.skipHonest; round++ {
		c.Eval()
		c.Distinct("honest", cc.spec.Idx, g.Idx, round)
		warm.be.set("", 0, nil)
		resp, err, panicked := invoke(warm.cl, &g.Req)
		tag := "first-call"
		if round == 2 {
			tag = "repeated-call"
		}
		if err != nil {
			c.Count("honest."+m+".REFUSED", 1)
			key := lower(m) + reqVariant(&g.Req) + "-honest-answer-refused"
			if panicked {
				key = lower(m) + reqVariant(&g.Req) + "-honest-answer-panics"
			}
			key += inputClass(&g.Req)
			if g.Special {
				c.Count("special_keys.honest_refused"+inputClass(&g.Req), 1)
			}
			c.Violation(key, fmt.Sprintf("%s%s against an honest full node (%s): %v", m, reqVariant(&g.Req), tag, err),
				wit("none (honest)", true, err, judgement{}, nil, tag))
			continue
		}
		j, _ := cc.judge(&g.Req, resp)
		if !j.OK {
			c.Violation(lower(m)+"-honest-backend-answer-contradicts-chain", "the answer relayed from the honest node is not true of the canonical chain: "+j.Why,
				wit("none (honest)", true, nil, j, resp, tag))
			continue
		}
		if ok, item, _ := cc.answers(&g.Req, resp); !ok {
			c.Count("not_claimed.honest."+lower(m)+"_answer_about_other_"+item+"_than_requested", 1)
		}
		if relayedKinds[m] {
			if got := relayedJSON(resp); !bytes.Equal(got, warm.be.wire[m]) {
				c.Violation(lower(m)+"-honest-answer-altered", "the verifying client returned something else than the node's answer",
					wit("none (honest)", true, nil, j, resp, tag+"; node answered "+trunc(warm.be.wire[m], 1500)))
				continue
			}
		} else if msg := cc.compareWithNode(&g.Req, resp, c); msg != "" {
			c.Violation(lower(m)+reqVariant(&g.Req)+"-differs-from-honest-node", msg, wit("none (honest)", true, nil, j, resp, tag))
			continue
		}
		c.Count("honest."+m+".relayed", 1)
		if round == 1 && c.WantSample() && r.Intn(40) == 0 {
			c.Sample(wit("none (honest)", true, nil, j, resp, "honest answer relayed"))
		}
	}

	// ---- soundness: one falsification per case
	for fi, f := range g.fals {
		f := f
		fseed := c.SubSeed(fmt.Sprintf("fals-%d", g.Idx), fi)
		fr := rand.New(rand.NewSource(fseed))
		// the lie is a function of the honest answer: the same answer asked twice is falsified the same way
		mutate := func(resp interface{}) bool {
			if f.Class == clsSubst || f.Class == clsRelabel {
				return f.Apply(rand.New(rand.NewSource(fseed+1)), cc, reqResp{&g.Req, resp})
			}
			return f.Apply(rand.New(rand.NewSource(fseed+1)), cc, resp)
		}
		var v *verifier
		useWarm := false
		if g.falsOf != "" {
			// the node lies in its Commit / Validators answers, which the light provider fetches:
			// the lie must be in place before the light client is initialised
			target := g.Req.Height
			if target == 0 {
				target = cc.last
			}
			be := node()
			if !g.AtTip {
				be.set(g.falsOf, target, mutate)
			}
			var ierr error
			v, ierr = cc.newVerifier(be, g.TrustH, g.Seq)
			if ierr == nil && g.AtTip {
				// honest warm-up: reach the node's latest height, then the lie starts
				var warmups []request
				switch fr.Intn(3) {
				case 0:
					warmups = []request{g.Req}
				case 1:
					warmups = []request{{Method: "Block"}}
				default:
					warmups = []request{{Method: "Commit"}, {Method: "Validators"}}
				}
				if g.TrustH == cc.last && fr.Intn(2) == 0 {
					warmups = nil // initialised at the tip: the very first no-height call meets the lie
				}
				ok := true
				for i := range warmups {
					if _, werr, _ := invoke(v.cl, &warmups[i]); werr != nil {
						c.Count("at_tip.honest_warmup_refused."+warmups[i].Method, 1)
						ok = false
					}
				}
				if lh, _ := v.lc.LastTrustedHeight(); !ok || lh != cc.last {
					c.Count("at_tip.client_not_at_tip_after_warmup", 1)
					continue
				}
				c.Count("at_tip.cases", 1)
				be.set(g.falsOf, target, mutate)
			}
			if ierr != nil {
				if be.applied == 0 {
					c.HarnessError("chain %d group %d: light client init failed without falsification: %v", cc.spec.Idx, g.Idx, ierr)
					continue
				}
				// the falsified answer was needed to initialise (trust height == target): refused there
				c.Eval()
				c.Distinct("fals", cc.spec.Idx, g.Idx, f.Name)
				c.Count("falsified."+m+"."+g.falsOf+"."+f.Class, 1)
				c.Count("verdict."+m+".refused", 1)
				c.Count("refused_at.light-client-init", 1)
				continue
			}
		} else {
			useWarm = fr.Intn(2) == 0
			if useWarm {
				v = warm
			} else {
				var ierr error
				v, ierr = cc.newVerifier(node(), g.TrustH, g.Seq)
				if ierr != nil {
					c.HarnessError("chain %d group %d: light client init failed: %v", cc.spec.Idx, g.Idx, ierr)
					continue
				}
			}
			v.be.set(m, 0, mutate)
		}
		resp, err, panicked := invoke(v.cl, &g.Req)
		applied, declined := v.be.applied, v.be.declined
		v.be.set("", 0, nil)
		if applied == 0 {
			if declined > 0 {
				c.Count("falsification_not_applicable."+m, 1)
			} else {
				c.Count("falsification_target_never_consulted."+m, 1)
			}
			continue
		}
		c.Eval()
		c.Distinct("fals", cc.spec.Idx, g.Idx, f.Name, useWarm)
		fclass := f.Class
		if g.falsOf != "" {
			fclass = g.falsOf + "." + f.Class
		}
		c.Count("falsified."+m+"."+fclass, 1)
		if panicked {
			c.Count("panics_on_falsified."+m+": "+f.Name+": "+err.Error(), 1)
		}
		if err != nil && g.Unverifiable {
			c.Count("successor_unobtainable."+m+".refused", 1)
			if g.Cutoff == 0 {
				c.Count("successor_unobtainable."+m+".at_tip", 1)
			} else {
				c.Count("successor_unobtainable."+m+".successor_withheld", 1)
			}
		}
		if err != nil {
			c.Count("verdict."+m+".refused", 1)
			if c.WantSample() && fr.Intn(300) == 0 {
				c.Sample(wit(f.Name, useWarm, err, judgement{}, nil, "refused"))
			}
			continue
		}
		j, extra := cc.judge(&g.Req, resp)
		if extra {
			c.Count("not_claimed.commit_relayed_with_an_invalid_signature_beyond_two_thirds", 1)
		}
		// the relayed answer names its own height: its check needs the header after THAT height
		unverifiable := false
		if g.Unverifiable {
			limit := cc.last
			if g.Cutoff != 0 {
				limit = g.Cutoff
			}
			switch v := resp.(type) {
			case *ctypes.ResultBlockResults:
				unverifiable = v.Height+1 > limit
			case *ctypes.ResultABCIQuery:
				unverifiable = v.Response.Height+1 > limit
			}
			if unverifiable {
				c.Count("successor_unobtainable."+m+".RELAYED", 1)
			} else {
				c.Count("successor_unobtainable."+m+".relayed_record_of_a_height_with_obtainable_successor", 1)
			}
		}
		if j.OK && unverifiable {
			// true of the chain, but no header that commits to it was (or could be) verified: not consistent with
			// any VERIFIED header
			c.Violation(lower(m)+"-relays-answer-no-verified-header-commits-to", fmt.Sprintf("%s relayed, without error, an answer about height %d although the header after it, which alone commits to it, is not available from any provider (%s)", m, g.Req.Height, f.Name),
				wit(f.Name, useWarm, nil, j, resp, ""))
			continue
		}
		if j.OK {
			// true of the chain, hence consistent with the verified header.  Whether it is the item that was asked
			// for is not part of the property: counted, never flagged.
			if ok, item, _ := cc.answers(&g.Req, resp); !ok {
				c.Count("not_claimed."+lower(m)+"_relays_true_record_of_other_"+item+"_than_requested", 1)
				if g.Never {
					c.Count("not_claimed."+lower(m)+"_never_committed_item_answered_with_true_record_of_another", 1)
				}
			}
			c.Count("verdict."+m+".relayed-true", 1)
			c.Count("relayed_true."+m+"."+fclass, 1)
			continue
		}
		c.Count("verdict."+m+".RELAYED-FALSIFIED", 1)
		class := f.Class
		if class == clsSubst || class == clsRelabel || class == clsNodeSubst || class == clsNodeRelabel || strings.HasPrefix(class, "twin") {
			class = j.Class
		}
		if class == "not-claimed" || class == "other-genuine" || g.falsOf != "" {
			class = j.Class
		}
		key := lower(m) + "-relays-falsified-" + class
		if g.falsOf != "" && g.Req.Height != 0 && g.Req.Height < g.TrustH {
			// the header was reached by backwards (hash chain) verification from the trusted height
			if m == "Commit" && strings.HasPrefix(class, "commit-") {
				key = "commit-relays-falsified-commit"
			}
			key += "-below-trusted-height"
		}
		if g.AtTip {
			key = lower(m) + "-no-height-relays-falsified-" + class + "-at-tip"
		}
		key += inputClass(&g.Req)
		if j.Class == "nonexistent-position" {
			key = lower(m) + "-relays-nonexistent-position"
		}
		if j.Class == "proof-shape-alias" {
			key = lower(m) + "-relays-proof-index-total-shape-alias"
		}
		if m == "TxSearch" {
			key = "txsearch-relays-results-unverified"
		}
		c.Violation(key, fmt.Sprintf("%s relayed, without error, a response that contradicts the verified chain (%s): %s", m, f.Name, j.Why),
			wit(f.Name, useWarm, nil, j, resp, ""))
	}
}

// compareWithNode: for the kinds light/rpc builds itself (Commit, Validators):
// does the answer agree with what the honest node's rpc/core says?
func (cc *chainCtx) compareWithNode(rq *request, resp interface{}, c *verdict.Ctx) string {
	switch v := resp.(type) {
	case *ctypes.ResultCommit:
		n, err := rpccore.Commit(rctx, hp(rq.Height))
		if err != nil || n == nil {
			return fmt.Sprintf("the honest node does not answer: %v", err)
		}
		a, _ := v.SignedHeader.ToProto().Marshal()
		b, _ := n.SignedHeader.ToProto().Marshal()
		if !bytes.Equal(a, b) {
			return "signed header differs from the honest node's answer"
		}
		if v.CanonicalCommit != n.CanonicalCommit {
			c.Count("not_claimed.commit_canonical_flag_differs_from_node", 1)
		}
	case *ctypes.ResultValidators:
		if rq.Height == 0 {
			// the node answers for the next (uncommitted) height, the light client for the latest verified one
			c.Count("not_claimed.validators_without_height_answered_for_latest_verified_height", 1)
			return ""
		}
		n, err := rpccore.Validators(rctx, hp(rq.Height), ip(rq.Page), ip(rq.PerPage))
		if err != nil {
			return fmt.Sprintf("the honest node does not answer: %v", err)
		}
		if n.BlockHeight != v.BlockHeight || n.Count != v.Count || n.Total != v.Total || len(n.Validators) != len(v.Validators) {
			return "height / count / total differ from the honest node's answer"
		}
		for i := range n.Validators {
			x, y := n.Validators[i], v.Validators[i]
			if !bytes.Equal(x.Address, y.Address) || !x.PubKey.Equals(y.PubKey) || x.VotingPower != y.VotingPower {
				return fmt.Sprintf("member %d differs from the honest node's answer", i)
			}
			if x.ProposerPriority != y.ProposerPriority {
				c.Count("not_claimed.validator_proposer_priority_differs_from_node", 1)
			}
		}
	}
	return ""
}

// ---------------------------------------------------------------- server side

// serverSide: every proof served by the real rpc/core Tx / TxSearch must be
// the reference audit path of that tx against the data hash of its block.
func (cc *chainCtx) serverSide(c *verdict.Ctx) {
	check := func(how string, res *ctypes.ResultTx, wantTx []byte) {
		c.Eval()
		c.Distinct("server", cc.spec.Idx, how, res.Height, res.Index)
		w := map[string]interface{}{"stream": "server", "chain": cc.spec, "call": how, "height": res.Height, "index": res.Index,
			"tx_hex": verdict.Hex(res.Tx), "proof_index": res.Proof.Proof.Index, "proof_total": res.Proof.Proof.Total, "proof_data_hex": verdict.Hex(res.Proof.Data)}
		j := cc.judgeTx(res, true)
		if !j.OK && (j.Class == "nonexistent-position" || j.Class == "proof-shape-alias" || j.Class == "index" || j.Class == "proof-position") {
			c.Violation("server-"+strings.Split(how, " ")[0]+"-serves-wrong-position", "rpc/core served a tx with a position (index / proof index / proof total) that is not its position in the block: "+j.Why, w)
			return
		}
		if !j.OK {
			c.Violation("server-"+strings.Split(how, " ")[0]+"-proof-does-not-verify", "rpc/core served an inclusion proof that is not the audit path of the tx it accompanies against the block's data hash: "+j.Why, w)
			return
		}
		if wantTx != nil && !bytes.Equal(res.Tx, wantTx) {
			c.Violation("server-"+strings.Split(how, " ")[0]+"-wrong-tx", "rpc/core answered about another tx than the one asked for", w)
			return
		}
		// the implementation's own validator must agree (differential, both directions are facts about the server + types)
		if err := res.Proof.Validate(cc.truth[res.Height].Block.DataHash); err != nil {
			c.Violation("txproof-validate-rejects-reference-valid-proof", "TxProof.Validate rejects a proof the reference accepts: "+err.Error(), w)
			return
		}
		c.Count("server.proofs_verified."+strings.Split(how, " ")[0], 1)
		// judged OK: 0 <= index < block size, proof index == index, proof total == block size
		n := len(cc.truth[res.Height].Block.Data.Txs)
		if int(res.Index) == n-1 && n <= 9 {
			c.Count(fmt.Sprintf("server.last_tx_position_exact.block_size_%d", n), 1)
		}
	}
	for _, l := range cc.txList {
		tx := cc.truth[l.H].Block.Data.Txs[l.I]
		res, err := rpccore.Tx(rctx, ref.Sha256(tx), true)
		if err != nil {
			c.Violation("server-tx-not-served", "rpc/core Tx does not find an indexed tx: "+err.Error(), map[string]interface{}{"stream": "server", "chain": cc.spec, "height": l.H, "index": l.I})
			continue
		}
		check("tx by-hash", res, tx)
	}
	for _, h := range cc.heights() {
		n := len(cc.truth[h].Block.Data.Txs)
		for _, order := range []string{"asc", "desc"} {
			per := 100
			res, err := safeTxSearch(c, cc, rctx, fmt.Sprintf("tx.height=%d", h), true, nil, &per, order)
			if err != nil {
				c.Violation("server-txsearch-fails", "rpc/core TxSearch failed: "+err.Error(), map[string]interface{}{"stream": "server", "chain": cc.spec, "height": h})
				continue
			}
			c.Count("server.txsearch_calls", 1)
			if n > 0 && len(res.Txs) == 0 {
				c.Count("server.txsearch_empty_for_nonempty_block", 1)
			}
			for _, t := range res.Txs {
				check("txsearch height "+order, t, nil)
				if t.Height != h {
					// identical bytes committed again later: the index keeps one record per hash (search exactness is C19's subject);
					// the position served is still judged above against the block it names
					c.Count("not_claimed.txsearch_result_of_a_later_height_for_reindexed_duplicate_tx", 1)
				}
			}
		}
	}
	for _, k := range cc.keys {
		per, page := 7, 1
		for {
			res, err := safeTxSearch(c, cc, rctx, fmt.Sprintf("app.key='%s'", k), true, &page, &per, "asc")
			if err != nil {
				break
			}
			for _, t := range res.Txs {
				check("txsearch key", t, nil)
			}
			if page*per >= res.TotalCount {
				break
			}
			page++
		}
	}
}

// ---------------------------------------------------------------- Run

var notClaimed = []string{
	"that the relayed response is about the item that was asked for: the complete, unmodified, provable record of another committed item (other height, hash, tx, key, query height, range) is consistent with a verified header; how often each method relays one is counted under observed.not_claimed.*_relays_true_record_of_other_*",
	"Tx / TxSearch with prove=false (relayed unverified by design)",
	"ResultTx.tx_result (code, data, log, events): not covered by the inclusion proof",
	"DeliverTx log, info, codespace, events; begin/end-block events; validator_updates; consensus_param_updates in BlockResults (LastResultsHash covers code, data, gas_wanted, gas_used only)",
	"ConsensusParams other than block.max_bytes / block.max_gas (ConsensusHash covers HashedParams only)",
	"BlockMeta.block_size, BlockMeta.num_txs, ResultBlockchainInfo.last_height; which metas are present",
	"ResultABCIQuery log, info, index, codespace; absence proofs (recapp serves none)",
	"Validator.proposer_priority (not in the validator-set hash); ResultCommit.canonical",
	"signatures of a commit beyond the +2/3 the light client checks",
	"Block.LastCommit.Round (Commit.Hash covers the signature slots only and no header field fixes the round)",
	"application values that are empty (ResponseQuery cannot tell an empty value from absence on the wire); the generated chains set none",
	"BlockSearch, Status, Genesis, broadcast and mempool routes (relayed unverified by design)",
	"completeness of TxSearch result lists",
}

func Run(c *verdict.Ctx) int {
	c.Level = "exploration"
	c.Rule = "a case is one call of a light/rpc verifying-client method on a generated chain against (a) the honest rpc/core backend and honest providers or (b) the same with exactly one named falsification of the response (or, for Commit/Validators, of the primary's light block), or one proof served by rpc/core Tx/TxSearch; distinct by (chain, request, trust height, verification mode, falsification, fresh-or-reused light client); non-trivial because each one executes the real client / rpc/core code and is decided by the chain-truth oracle; falsifications that did not apply to the response are not counted"
	c.Assume("SHA-256, ed25519, protobuf and tmjson encodings", "ref.Merkle (RFC 6962 tree) and ref.TallyCommit as re-implemented in /verif/harness/ref",
		"chaingen + recapp produce a valid canonical chain (real MakeBlock/ApplyBlock); the canonical values the oracle compares with are taken from what was built and signed, not from RPC answers",
		"the application model (key=value txs set k/<key>) is re-implemented in the check and cross-checked against the app's own answers while the chain is built",
		"block times are derived from the wall clock at day granularity because light/rpc passes time.Now() to the light client; no oracle reads the clock",
		"the light providers are the real light/provider/http over the node's RPC client (primary = the possibly lying node that also serves `next`, witness = an honest node), as in the light proxy deployment")
	c.Set("not_claimed", notClaimed)

	nChains := c.N(8, 40)
	nTargets := c.N(4, 8)
	start := time.Now()
	gidx := 0
	workers := 16
	for ci := 0; ci < nChains; ci++ {
		r := c.Rand("chain", ci)
		spec := genSpec(r, ci, c.SubSeed("chainseed", ci), c.Thorough())
		cc, err := buildChain(spec)
		if err != nil {
			c.HarnessError("chain %d: %v", ci, err)
			continue
		}
		c.Count("chains", 1)
		c.Count("chain.heights", int64(len(cc.truth)))
		c.Count("chain.txs", int64(len(cc.txList)))
		for _, ht := range cc.truth {
			if len(ht.Block.Evidence.Evidence) > 0 {
				c.Count("chain.blocks_with_evidence", 1)
			}
		}
		c.Max("chain.max_validators", int64(cc.maxVals()))
		setEnv(cc)
		cc.serverSide(c)
		groups := cc.buildGroups(c, r, nTargets, &gidx)
		var wg sync.WaitGroup
		ch := make(chan *group)
		for w := 0; w < workers; w++ {
			wg.Add(1)
			go func() {
				defer wg.Done()
				for g := range ch {
					func() {
						defer func() {
							if rec := recover(); rec != nil {
								c.HarnessError("chain %d group %d (%s): harness panic: %v", cc.spec.Idx, g.Idx, g.Req.Method, rec)
							}
						}()
						t0 := time.Now()
						cc.runGroup(c, g)
						if d := time.Since(t0); d > 20*time.Second {
							c.Count("slow_groups_over_20s."+g.Req.Method, 1)
						}
					}()
				}
			}()
		}
		for _, g := range groups {
			ch <- g
		}
		close(ch)
		wg.Wait()
		cc.close()
		if time.Since(start) > 25*time.Minute {
			c.Inconclusive("watchdog: run exceeded 25 minutes, remaining chains skipped")
			break
		}
	}
	return c.Finish(c.N(2500, 30000))
}

func (cc *chainCtx) maxVals() int {
	m := 0
	for _, ht := range cc.truth {
		if ht.Vals.Size() > m {
			m = ht.Vals.Size()
		}
	}
	return m
}

// safeTxSearch calls the real rpc/core TxSearch; a panic inside the handler is
// a finding about the server (the JSON-RPC layer would turn it into an error
// for a query that has an answer), not a reason for the harness to die.
func safeTxSearch(c *verdict.Ctx, cc *chainCtx, rctx *rpctypes.Context, q string, prove bool, page, per *int, order string) (res *ctypes.ResultTxSearch, err error) {
	defer func() {
		if r := recover(); r != nil {
			c.Violation("server-txsearch-panics", fmt.Sprintf("rpc/core TxSearch panicked on query %q: %v", q, r), map[string]interface{}{"stream": "server", "chain": cc.spec, "query": q})
			res, err = nil, fmt.Errorf("panic: %v", r)
		}
	}()
	return rpccore.TxSearch(rctx, q, prove, page, per, order)
}
