package c20

import (
	"fmt"
	"math/rand"
	"sort"
	"strings"

	abci "github.com/tendermint/tendermint/abci/types"
	"github.com/tendermint/tendermint/crypto/merkle"
	tmcrypto "github.com/tendermint/tendermint/proto/tendermint/crypto"
	ctypes "github.com/tendermint/tendermint/rpc/core/types"

	"verif/ref"
)

// Keys and store names whose bytes the key-path encoding (merkle.KeyPath:
// URL escaping, the "x:" hex form, '/' as separator) treats specially, together
// with "twins" that differ only in such a byte.  Every one of them holds a
// different value, so an answer that is right for one twin is wrong for the other.
var specialKeys = []string{
	"alice bob", "alice+bob", "a%20b", "a b", "a/b", "a%2Fb", "q?x#y", "q%3Fx%23y", "c:d", "c%3Ad",
	"x:41", "A", "x:", "", "x:zz", "k=v&w", "k%3Dv%26w", "é€ü", "\x00\xff\x80 \x01", "plain",
}

var specialStores = []string{
	"bank", "alice bob", "alice+bob", "a%20b", "a b", "s/t", "s%2Ft", "x:41", "A", "", "c:d", "k=v&w", "é€", "\x00\xff\x80",
}

// the subset that recapp's tx grammar ("<key>=<value>", split at the first '=') can set as k/<key>
var specialPlainKeys = []string{
	"alice bob", "alice+bob", "a%20b", "a b", "a/b", "a%2Fb", "q?x#y", "q%3Fx%23y", "c:d", "c%3Ad",
	"x:41", "", "amp&er", "é€ü", "\x00\xff\x80 \x01",
}

// keyClass names the input class of a key / store name for finding keys.
func keyClass(s string) string {
	switch {
	case s == "":
		return "-empty"
	case strings.HasPrefix(s, "x:"):
		return "-x-colon-prefix"
	}
	return ""
}

// miniStore is a two-level proven store (store name -> key -> value) in the
// style of the cosmos multistore, built from simple Merkle trees with ValueOp
// leaves: sub-root = root over (key, SHA-256(value)) sorted by key, root = root
// over (store name, SHA-256(sub-root)).  Its root is the value of the recapp key
// "ms", so header h+1 commits to it through the application hash and a proof is
// the chain [ValueOp(key), ValueOp(store name), recapp's ValueOp("k/ms")].
type miniStore struct {
	kv      map[string]map[string]string
	stores  []string            // sorted
	keys    map[string][]string // sorted keys per store
	subRoot map[string][]byte
	root    []byte
}

func msValue(store, key string) string { return fmt.Sprintf("value of [%x] in store [%x]", key, store) }

func leafOf(key string, value []byte) []byte {
	var l []byte
	l = appendUvarintBytes(l, []byte(key))
	return appendUvarintBytes(l, ref.Sha256(value))
}

func buildMiniStore() *miniStore {
	m := &miniStore{kv: map[string]map[string]string{}, keys: map[string][]string{}, subRoot: map[string][]byte{}}
	for _, s := range specialStores {
		m.kv[s] = map[string]string{}
		for _, k := range specialKeys {
			m.kv[s][k] = msValue(s, k)
		}
		m.stores = append(m.stores, s)
	}
	sort.Strings(m.stores)
	var top [][]byte
	for _, s := range m.stores {
		ks := make([]string, 0, len(m.kv[s]))
		for k := range m.kv[s] {
			ks = append(ks, k)
		}
		sort.Strings(ks)
		m.keys[s] = ks
		leaves := make([][]byte, len(ks))
		for i, k := range ks {
			leaves[i] = leafOf(k, []byte(m.kv[s][k]))
		}
		m.subRoot[s] = ref.MerkleRoot(leaves)
		top = append(top, leafOf(s, m.subRoot[s]))
	}
	m.root = ref.MerkleRoot(top)
	return m
}

// prove returns the value of (store, key) and the two proof ops up to the mini-store root.
func (m *miniStore) prove(store, key string) (value []byte, ops []tmcrypto.ProofOp, ok bool) {
	v, ok := m.kv[store][key]
	if !ok {
		return nil, nil, false
	}
	ks := m.keys[store]
	leaves := make([][]byte, len(ks))
	ki := -1
	for i, k := range ks {
		leaves[i] = leafOf(k, []byte(m.kv[store][k]))
		if k == key {
			ki = i
		}
	}
	_, p1 := merkle.ProofsFromByteSlices(leaves)
	top := make([][]byte, len(m.stores))
	si := -1
	for i, s := range m.stores {
		top[i] = leafOf(s, m.subRoot[s])
		if s == store {
			si = i
		}
	}
	_, p2 := merkle.ProofsFromByteSlices(top)
	return []byte(v), []tmcrypto.ProofOp{merkle.NewValueOp([]byte(key), p1[ki]).ProofOp(), merkle.NewValueOp([]byte(store), p2[si]).ProofOp()}, true
}

// msAnswer: the honest proven answer about (store, key) as of height h: the two ops up to the mini-store
// root, then the application's own recorded proof that the root is the value of k/ms at that height.
func (cc *chainCtx) msAnswer(store, key string, h int64) *abci.ResponseQuery {
	q := &abci.ResponseQuery{Key: []byte(key), Height: h}
	val, ops, ok := cc.ms.prove(store, key)
	var top abci.ResponseQuery
	ht := cc.truth[h]
	if ht == nil {
		q.Log = "does not exist"
		return q
	}
	if bz, have := ht.QueryAnsPB["k/ms"]; !ok || !have || top.Unmarshal(bz) != nil || top.ProofOps == nil {
		q.Log = "does not exist"
		return q
	}
	q.Value = val
	q.ProofOps = &tmcrypto.ProofOps{Ops: append(ops, top.ProofOps.Ops...)}
	return q
}

// specialQueryFals: the lies of a node about a query for one of the special keys: the value and genuine
// proof of every OTHER key (its twins among them), relabelled with the requested key or as it is; for
// the two-level store also the record of the same key in every other store.
func specialQueryFals(rq request, cc *chainCtx) []fals {
	qof := func(resp interface{}) *abci.ResponseQuery { return &resp.(*ctypes.ResultABCIQuery).Response }
	var out []fals
	answerOf := func(cc *chainCtx, store, key string, h int64) *abci.ResponseQuery {
		if rq.StoreQuery {
			a := cc.msAnswer(store, key, h)
			if a.Value == nil {
				return nil
			}
			return a
		}
		ht := cc.truth[h]
		if ht == nil {
			return nil
		}
		var o abci.ResponseQuery
		bz, ok := ht.QueryAnsPB["k/"+key]
		if !ok || o.Unmarshal(bz) != nil {
			return nil
		}
		return &o
	}
	keys := specialPlainKeys
	if rq.StoreQuery {
		keys = specialKeys
	}
	for _, o := range keys {
		o := o
		if o == rq.Key {
			continue
		}
		out = append(out,
			fals{fmt.Sprintf("value and genuine proof of the other key %q, key field set to the requested key", o), "twin-relabelled", func(r *rand.Rand, cc *chainCtx, resp interface{}) bool {
				q := qof(resp)
				a := answerOf(cc, rq.Store, o, q.Height)
				if a == nil {
					return false
				}
				a.Key = cpb(q.Key)
				*q = *a
				return true
			}},
			fals{fmt.Sprintf("complete genuine answer about the other key %q (key its own)", o), "twin", func(r *rand.Rand, cc *chainCtx, resp interface{}) bool {
				q := qof(resp)
				a := answerOf(cc, rq.Store, o, q.Height)
				if a == nil {
					return false
				}
				*q = *a
				return true
			}})
	}
	if rq.StoreQuery {
		for _, t := range specialStores {
			t := t
			if t == rq.Store {
				continue
			}
			out = append(out, fals{fmt.Sprintf("complete genuine answer about the same key in the other store %q", t), "twin-store", func(r *rand.Rand, cc *chainCtx, resp interface{}) bool {
				q := qof(resp)
				a := answerOf(cc, t, rq.Key, q.Height)
				if a == nil {
					return false
				}
				*q = *a
				return true
			}})
		}
		out = append(out,
			fals{"value byte flipped", "value", func(r *rand.Rand, cc *chainCtx, resp interface{}) bool {
				q := qof(resp)
				if len(q.Value) == 0 {
					return false
				}
				q.Value = flipped(r, q.Value)
				return true
			}},
			fals{"value changed, key-level proof op rebuilt for a one-leaf tree", "value", func(r *rand.Rand, cc *chainCtx, resp interface{}) bool {
				q := qof(resp)
				if q.ProofOps == nil || len(q.ProofOps.Ops) == 0 {
					return false
				}
				q.Value = []byte("forged")
				q.ProofOps.Ops[0] = forgedValueOp(q.Key, q.Value)
				return true
			}},
			fals{"store-level proof op dropped", "proof-op", func(r *rand.Rand, cc *chainCtx, resp interface{}) bool {
				q := qof(resp)
				if q.ProofOps == nil || len(q.ProofOps.Ops) != 3 {
					return false
				}
				q.Value = flipped(r, q.Value)
				q.ProofOps.Ops = []tmcrypto.ProofOp{q.ProofOps.Ops[0], q.ProofOps.Ops[2]}
				return true
			}},
			fals{"value flipped, proof missing", "proof-missing", func(r *rand.Rand, cc *chainCtx, resp interface{}) bool {
				q := qof(resp)
				q.Value = flipped(r, q.Value)
				q.ProofOps = nil
				return true
			}})
	}
	return out
}
