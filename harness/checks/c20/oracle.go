package c20

import (
	"bytes"
	"fmt"

	ctypes "github.com/tendermint/tendermint/rpc/core/types"
	"github.com/tendermint/tendermint/types"

	"verif/ref"
)

// The oracle of the soundness clause.  A relayed response is *consistent with
// the verified headers* iff every field that the headers of the canonical chain
// commit to has, in the response, the value it has on the canonical chain at the
// height (and position) the response itself claims.  The canonical values come
// from what chaingen built and signed (heightTruth), never from the RPC layer or
// from the light client.  Hashes are recomputed with ref.Merkle / SHA-256.
//
// Fields no header commits to are ignored here and listed in the evidence file
// under "not_claimed".

type judgement struct {
	OK    bool
	Class string // which committed part disagrees (diagnostic)
	Why   string
}

func good() judgement { return judgement{OK: true} }
func bad(class, format string, a ...interface{}) judgement {
	return judgement{Class: class, Why: fmt.Sprintf(format, a...)}
}

func samePSH(a, b types.PartSetHeader) bool { return a.Total == b.Total && bytes.Equal(a.Hash, b.Hash) }

func (cc *chainCtx) judgeBlock(res *ctypes.ResultBlock) judgement {
	if res == nil || res.Block == nil {
		return bad("nil-block", "a response without a block was relayed")
	}
	ht := cc.truth[res.Block.Height]
	if ht == nil {
		return bad("height", "block claims height %d which the chain does not have", res.Block.Height)
	}
	hb, err := res.Block.Header.ToProto().Marshal()
	if err != nil {
		return bad("encoding", "header cannot be encoded: %v", err)
	}
	if !bytes.Equal(hb, ht.HeaderPB) {
		return bad("header-field", "header differs from the canonical header of height %d", res.Block.Height)
	}
	if len(res.Block.Data.Txs) != len(ht.Block.Data.Txs) {
		return bad("tx-bytes", "block has %d txs, canonical block has %d", len(res.Block.Data.Txs), len(ht.Block.Data.Txs))
	}
	for i, tx := range res.Block.Data.Txs {
		if !bytes.Equal(tx, ht.Block.Data.Txs[i]) {
			return bad("tx-bytes", "tx %d differs from the canonical tx", i)
		}
	}
	// last commit: LastCommitHash commits to the slots (flag, address, timestamp, signature); the header's
	// LastBlockID and Height fix the commit's block id and height; the round is not committed by any header.
	lc, wc := res.Block.LastCommit, ht.Block.LastCommit
	if lc == nil {
		return bad("last-commit", "LastCommit missing")
	}
	if len(lc.Signatures) != len(wc.Signatures) {
		return bad("last-commit", "LastCommit has %d slots, canonical %d", len(lc.Signatures), len(wc.Signatures))
	}
	for i := range lc.Signatures {
		a, _ := lc.Signatures[i].ToProto().Marshal()
		b, _ := wc.Signatures[i].ToProto().Marshal()
		if !bytes.Equal(a, b) {
			return bad("last-commit", "LastCommit slot %d differs from the canonical one (committed by LastCommitHash)", i)
		}
	}
	if len(wc.Signatures) > 0 && (lc.Height != wc.Height || !ref.SameBlockID(lc.BlockID, wc.BlockID)) {
		return bad("last-commit-blockid", "LastCommit is for (height %d, block %X), the verified header says (height %d, LastBlockID %X)", lc.Height, lc.BlockID.Hash, wc.Height, wc.BlockID.Hash)
	}
	// evidence: committed by EvidenceHash
	if len(res.Block.Evidence.Evidence) != len(ht.Block.Evidence.Evidence) {
		return bad("evidence", "block has %d evidence items, canonical %d", len(res.Block.Evidence.Evidence), len(ht.Block.Evidence.Evidence))
	}
	for i, ev := range res.Block.Evidence.Evidence {
		if ev == nil || !bytes.Equal(ev.Bytes(), ht.Block.Evidence.Evidence[i].Bytes()) {
			return bad("evidence", "evidence %d differs from the canonical one (committed by EvidenceHash)", i)
		}
	}
	if !bytes.Equal(res.BlockID.Hash, ht.BlockID.Hash) {
		return bad("blockid-hash", "BlockID.Hash differs from the canonical block hash")
	}
	if !samePSH(res.BlockID.PartSetHeader, ht.BlockID.PartSetHeader) {
		return bad("blockid-parts", "BlockID.PartSetHeader %v differs from the one the verified commit signs (%v)", res.BlockID.PartSetHeader, ht.BlockID.PartSetHeader)
	}
	return good()
}

func (cc *chainCtx) judgeCommit(res *ctypes.ResultCommit) (j judgement, extraInvalidSig bool) {
	if res == nil || res.Header == nil || res.Commit == nil {
		return bad("nil", "a commit response without header or commit was relayed"), false
	}
	ht := cc.truth[res.Header.Height]
	if ht == nil {
		return bad("height", "header claims height %d which the chain does not have", res.Header.Height), false
	}
	hb, err := res.Header.ToProto().Marshal()
	if err != nil || !bytes.Equal(hb, ht.HeaderPB) {
		return bad("header-field", "header differs from the canonical header of height %d", res.Header.Height), false
	}
	t := ref.TallyCommitCached(cc.sigs, cc.ch.ChainID, ht.Vals, ht.BlockID, res.Header.Height, res.Commit)
	if t.Structural != nil {
		return bad("commit-blockid", "commit is not for the canonical block of height %d: %v", res.Header.Height, t.Structural), false
	}
	if !t.OK() {
		return bad("commit-signatures", "commit does not carry +2/3 valid precommits for the canonical block id of height %d (structural: %v, for block %v of %v)",
			res.Header.Height, t.Structural, t.ForBlock, t.Total), false
	}
	return good(), !t.AllNonAbsentValid
}

type pageReq struct{ page, perPage int } // 0 = not given

func refPage(p pageReq, total int) (skip, n int, ok bool) {
	per := p.perPage
	if per < 1 {
		per = 30
	} else if per > 100 {
		per = 100
	}
	page := p.page
	if page == 0 {
		page = 1
	}
	pages := (total-1)/per + 1
	if pages == 0 {
		pages = 1
	}
	if page < 1 || page > pages {
		return 0, 0, false
	}
	skip = (page - 1) * per
	n = total - skip
	if n > per {
		n = per
	}
	return skip, n, true
}

// judgeValidators: the members reported for BlockHeight must be the canonical
// set's members of that height (address, key, power, order) for the page asked.
func (cc *chainCtx) judgeValidators(res *ctypes.ResultValidators, p pageReq) judgement {
	if res == nil {
		return bad("nil", "nil response relayed")
	}
	ht := cc.truth[res.BlockHeight]
	if ht == nil {
		return bad("height", "validators claimed for height %d which the chain does not have", res.BlockHeight)
	}
	canon := ht.Vals.Validators
	if res.Total != len(canon) {
		return bad("val-total", "total %d, canonical set has %d members", res.Total, len(canon))
	}
	skip, n, ok := refPage(p, len(canon))
	if !ok {
		return bad("val-page", "a page outside the set was answered")
	}
	if len(res.Validators) != n || res.Count != n {
		return bad("val-count", "page has %d members (count %d), expected %d", len(res.Validators), res.Count, n)
	}
	for i, v := range res.Validators {
		w := canon[skip+i]
		if v == nil || !bytes.Equal(v.Address, w.Address) || v.PubKey == nil || !bytes.Equal(v.PubKey.Bytes(), w.PubKey.Bytes()) || v.PubKey.Type() != w.PubKey.Type() {
			return bad("val-member", "member %d is not the canonical member", skip+i)
		}
		if v.VotingPower != w.VotingPower {
			return bad("val-power", "member %d has power %d, canonical %d", skip+i, v.VotingPower, w.VotingPower)
		}
	}
	return good()
}

// judgeTx: (Height, Index) name a position of the canonical chain; the tx
// bytes, the hash and the proof must all be about that position.
func (cc *chainCtx) judgeTx(res *ctypes.ResultTx, proved bool) judgement {
	if res == nil {
		return bad("nil", "nil response relayed")
	}
	ht := cc.truth[res.Height]
	if ht == nil {
		return bad("height", "tx claimed at height %d which the chain does not have", res.Height)
	}
	if proved {
		// An otherwise exact proof of a genuine position g whose (index,total) were replaced by a pair with
		// the same root-path shape is what merkle.Proof.Verify cannot tell apart (C10 S2): name that
		// mechanism, whatever position the answer then claims (possibly one the block does not have).
		p := res.Proof.Proof
		n := int64(len(ht.TxHashes))
		if bytes.Equal(res.Proof.Data, res.Tx) && bytes.Equal(res.Proof.RootHash, ht.Block.DataHash) {
			for g := int64(0); g < n; g++ {
				if (p.Index != g || p.Total != n) && bytes.Equal(ht.Block.Data.Txs[g], res.Tx) &&
					ref.ProofOK(ht.TxHashes, ref.Sha256(res.Tx), g, n, p.LeafHash, p.Aunts) {
					s1, ok1 := ref.PathShape(g, n)
					s2, ok2 := ref.PathShape(p.Index, p.Total)
					if ok1 && ok2 && s1 == s2 {
						return bad("proof-shape-alias", "proof claims (index,total)=(%d,%d) (answer index %d) for the tx at (%d,%d): same path shape", p.Index, p.Total, res.Index, g, n)
					}
				}
			}
		}
	}
	if int64(res.Index) >= int64(len(ht.Block.Data.Txs)) {
		return bad("nonexistent-position", "tx claimed at index %d of a block with %d txs", res.Index, len(ht.Block.Data.Txs))
	}
	canon := ht.Block.Data.Txs[res.Index]
	if !bytes.Equal(res.Tx, canon) {
		// is it another tx of that block (wrong index) or no tx of the block at all?
		for _, o := range ht.Block.Data.Txs {
			if bytes.Equal(o, res.Tx) {
				return bad("index", "tx bytes are those of another position of block %d, not of index %d", res.Height, res.Index)
			}
		}
		return bad("tx-bytes", "tx bytes are not those at height %d index %d (nor anywhere in that block)", res.Height, res.Index)
	}
	if !bytes.Equal(res.Hash, ref.Sha256(res.Tx)) {
		return bad("hash", "hash is not SHA-256 of the tx")
	}
	if !proved {
		return good()
	}
	if !bytes.Equal(res.Proof.Data, res.Tx) {
		return bad("proof-data", "the proof is about other bytes than the tx returned")
	}
	if !bytes.Equal(res.Proof.RootHash, ht.Block.DataHash) {
		return bad("proof-root", "proof root is not the data hash of block %d", res.Height)
	}
	p := res.Proof.Proof
	if !ref.ProofOK(ht.TxHashes, ref.Sha256(res.Tx), p.Index, p.Total, p.LeafHash, p.Aunts) {
		// the known (index,total) alias of an otherwise exact proof (C10 S2)?
		if ref.ProofOK(ht.TxHashes, ref.Sha256(res.Tx), int64(res.Index), int64(len(ht.TxHashes)), p.LeafHash, p.Aunts) {
			s1, ok1 := ref.PathShape(int64(res.Index), int64(len(ht.TxHashes)))
			s2, ok2 := ref.PathShape(p.Index, p.Total)
			if ok1 && ok2 && s1 == s2 {
				return bad("proof-shape-alias", "proof claims (index,total)=(%d,%d) for the tx at (%d,%d): same path shape", p.Index, p.Total, res.Index, len(ht.TxHashes))
			}
			return bad("proof-position", "proof claims (index,total)=(%d,%d) for the tx at (%d,%d)", p.Index, p.Total, res.Index, len(ht.TxHashes))
		}
		return bad("proof", "proof is not the audit path of index %d among %d leaves", p.Index, p.Total)
	}
	if p.Index != int64(res.Index) {
		return bad("index", "proof index %d differs from the reported index %d", p.Index, res.Index)
	}
	return good()
}

func (cc *chainCtx) judgeTxSearch(res *ctypes.ResultTxSearch, proved bool) judgement {
	if res == nil {
		return bad("nil", "nil response relayed")
	}
	for i, t := range res.Txs {
		if j := cc.judgeTx(t, proved); !j.OK {
			j.Why = fmt.Sprintf("result %d: %s", i, j.Why)
			return j
		}
	}
	return good()
}

func (cc *chainCtx) judgeBlockResults(res *ctypes.ResultBlockResults) judgement {
	if res == nil {
		return bad("nil", "nil response relayed")
	}
	ht := cc.truth[res.Height]
	if ht == nil {
		return bad("height", "results claimed for height %d which the chain does not have", res.Height)
	}
	if len(res.TxsResults) != len(ht.Results) {
		return bad("result-count", "%d results, the block has %d txs", len(res.TxsResults), len(ht.Results))
	}
	for i, d := range res.TxsResults {
		w := ht.Results[i]
		switch {
		case d == nil:
			return bad("result-nil", "result %d is nil", i)
		case d.Code != w.Code:
			return bad("result-code", "result %d code %d, canonical %d", i, d.Code, w.Code)
		case !bytes.Equal(d.Data, w.Data):
			return bad("result-data", "result %d data differs", i)
		case d.GasWanted != w.GasWanted:
			return bad("result-gas-wanted", "result %d gas wanted %d, canonical %d", i, d.GasWanted, w.GasWanted)
		case d.GasUsed != w.GasUsed:
			return bad("result-gas-used", "result %d gas used %d, canonical %d", i, d.GasUsed, w.GasUsed)
		}
	}
	return good()
}

func (cc *chainCtx) paramsAt(h int64) (maxBytes, maxGas int64, ok bool) {
	if ht := cc.truth[h]; ht != nil {
		return ht.MaxBytes, ht.MaxGas, true
	}
	if h == cc.last+1 {
		p := cc.ch.Hist[cc.last].StateAfter.ConsensusParams
		return p.Block.MaxBytes, p.Block.MaxGas, true
	}
	return 0, 0, false
}

// judgeParams: headers commit to (block.max_bytes, block.max_gas) only (ConsensusHash = hash of HashedParams).
func (cc *chainCtx) judgeParams(res *ctypes.ResultConsensusParams) judgement {
	if res == nil {
		return bad("nil", "nil response relayed")
	}
	mb, mg, ok := cc.paramsAt(res.BlockHeight)
	if !ok {
		return bad("height", "params claimed for height %d which the chain does not have", res.BlockHeight)
	}
	if res.ConsensusParams.Block.MaxBytes != mb {
		return bad("params-maxbytes", "max_bytes %d, canonical %d at height %d", res.ConsensusParams.Block.MaxBytes, mb, res.BlockHeight)
	}
	if res.ConsensusParams.Block.MaxGas != mg {
		return bad("params-maxgas", "max_gas %d, canonical %d at height %d", res.ConsensusParams.Block.MaxGas, mg, res.BlockHeight)
	}
	return good()
}

func (cc *chainCtx) judgeBlockchainInfo(res *ctypes.ResultBlockchainInfo) judgement {
	if res == nil {
		return bad("nil", "nil response relayed")
	}
	for i, m := range res.BlockMetas {
		if m == nil {
			return bad("meta-nil", "meta %d is nil", i)
		}
		ht := cc.truth[m.Header.Height]
		if ht == nil {
			return bad("height", "meta %d claims height %d which the chain does not have", i, m.Header.Height)
		}
		hb, err := m.Header.ToProto().Marshal()
		if err != nil || !bytes.Equal(hb, ht.HeaderPB) {
			return bad("meta-header-field", "meta %d: header differs from the canonical header of height %d", i, m.Header.Height)
		}
		if !bytes.Equal(m.BlockID.Hash, ht.BlockID.Hash) {
			return bad("meta-blockid-hash", "meta %d: BlockID.Hash differs from the canonical block hash", i)
		}
		if !samePSH(m.BlockID.PartSetHeader, ht.BlockID.PartSetHeader) {
			return bad("meta-blockid-parts", "meta %d: BlockID.PartSetHeader differs from the one the verified commit signs", i)
		}
	}
	return good()
}

// judgeQuery: the (key, value, height) triple must be true of the application
// state that header height+1 commits to.
func (cc *chainCtx) judgeQuery(rq *request, res *ctypes.ResultABCIQuery) judgement {
	if res == nil {
		return bad("nil", "nil response relayed")
	}
	q := res.Response
	if q.Code != 0 {
		return bad("code", "an error response (code %d) was relayed as proven", q.Code)
	}
	ht := cc.truth[q.Height]
	if ht == nil {
		return bad("height", "value claimed for height %d which the chain does not have", q.Height)
	}
	v, exists := ht.KV[string(q.Key)]
	if rq != nil && rq.StoreQuery {
		// a query into the two-level store: the path names the store, the response the key
		// (the store's content is fixed from the first height on)
		v, exists = cc.ms.kv[rq.Store][string(q.Key)]
		if q.Height < cc.msFrom {
			exists = false
		}
	}
	if q.Value == nil {
		if exists {
			return bad("value-nil", "absence of key %q claimed at height %d where it has a value", q.Key, q.Height)
		}
		return good()
	}
	if !exists {
		return bad("key", "key %q has no value at height %d", q.Key, q.Height)
	}
	if string(q.Value) != v {
		return bad("value", "value of key %q at height %d differs from the application state", q.Key, q.Height)
	}
	return good()
}
