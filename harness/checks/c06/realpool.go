package c06

// Proposer blocks out of a REAL mempool (v0 and v1, cache on / off) that holds
// more bytes than a block can take, with transaction lengths drawn from one
// band around the protobuf varint boundaries.  Many small transactions per
// block make a per-transaction accounting error of one byte add up beyond the
// slack of the MaxHeaderBytes / MaxCommitBytes constants.  The block comes
// from the real BlockExecutor.CreateProposalBlock and the real
// ReapMaxBytesMaxGas; the verdict is judgeProposal's (validity in the
// proposer's own state, protobuf size and part-accumulation rule).

import (
	"crypto/sha256"
	"encoding/binary"
	"fmt"
	"math"
	"math/rand"
	"time"

	abci "github.com/tendermint/tendermint/abci/types"
	cfgpkg "github.com/tendermint/tendermint/config"
	"github.com/tendermint/tendermint/libs/log"
	mempl "github.com/tendermint/tendermint/mempool"
	mempoolv0 "github.com/tendermint/tendermint/mempool/v0"
	mempoolv1 "github.com/tendermint/tendermint/mempool/v1"
	"github.com/tendermint/tendermint/proxy"
	sm "github.com/tendermint/tendermint/state"
	"github.com/tendermint/tendermint/store"
	"github.com/tendermint/tendermint/types"

	"verif/chaingen"
	"verif/recapp"
	"verif/verdict"
)

type lenBand struct {
	name   string
	lens   []int
	lo, hi int64 // range of Block.MaxBytes for this band
}

const kib = 1024

var rpBands = []lenBand{
	{"1", []int{1}, 2 * kib, 16 * kib}, // only 256 distinct ones exist: continues with length 2
	{"2", []int{2}, 2 * kib, 96 * kib},
	{"100", []int{100}, 2 * kib, 1024 * kib},
	{"126-129", []int{126, 127, 128, 129}, 2 * kib, 1024 * kib},
	{"200", []int{200}, 2 * kib, 1024 * kib},
	{"255", []int{255}, 2 * kib, 1024 * kib},
	{"256", []int{256}, 2 * kib, 1024 * kib},
	{"300", []int{300}, 3 * kib, 1024 * kib},
	{"16383-16385", []int{16383, 16384, 16385}, 80 * kib, 1024 * kib},
	{"65535-65536", []int{65535, 65536}, 280 * kib, 1024 * kib},
	{"mixed", []int{1, 2, 100, 126, 127, 128, 129, 200, 255, 256, 300, 16383, 16384, 16385, 65535, 65536}, 2 * kib, 1024 * kib},
	{"mixed-small", []int{1, 2, 100, 126, 127, 128, 129, 200, 255, 256, 300}, 2 * kib, 256 * kib},
}

type rpCfg struct {
	Idx        int    `json:"case"`
	Version    string `json:"mempool_version"`
	Cache      bool   `json:"mempool_cache"`
	Recheck    bool   `json:"mempool_recheck"`
	Band       string `json:"tx_length_band"`
	MaxBytes   int64  `json:"block_max_bytes"`
	EvMaxBytes int64  `json:"evidence_max_bytes"`
	Validators int    `json:"validators"`
	Churn      string `json:"churn"`
	ChainID    string `json:"chain_id"`
	Initial    int64  `json:"initial_height"`
	Proposals  int    `json:"proposals"`
	band       lenBand
}

func genRealPoolCase(r *rand.Rand, idx int) *rpCfg {
	cfg := &rpCfg{Idx: idx, Version: []string{cfgpkg.MempoolV0, cfgpkg.MempoolV1}[idx%2], Cache: (idx/2)%2 == 0,
		band: rpBands[(idx/4)%len(rpBands)], Recheck: r.Intn(2) == 0, ChainID: genChainID(r), Initial: 1, Proposals: 3}
	cfg.Band = cfg.band.name
	if r.Intn(3) == 0 {
		cfg.Initial = 2 + r.Int63n(1<<40)
	}
	// log-uniform Block.MaxBytes within the band's range
	lo, hi := math.Log(float64(cfg.band.lo)), math.Log(float64(cfg.band.hi))
	cfg.MaxBytes = int64(math.Exp(lo + r.Float64()*(hi-lo)))
	if r.Intn(6) == 0 {
		cfg.MaxBytes = []int64{cfg.band.lo, cfg.band.hi}[r.Intn(2)]
	}
	// evidence and validators so that the commit / evidence budget varies but the data budget stays positive
	room := cfg.MaxBytes - minMaxBytes(1, 0) - 300
	if ev := []int64{0, 0, 700, 2000}[r.Intn(4)]; ev < room/2 {
		cfg.EvMaxBytes = ev
		room -= ev
	}
	maxN := int(room / 111 / 2)
	if maxN > 40 {
		maxN = 40
	}
	if maxN < 1 {
		maxN = 1
	}
	cfg.Validators = 1 + r.Intn(maxN)
	cfg.Churn = "none"
	switch r.Intn(4) {
	case 0:
		if cfg.Validators >= 3 {
			cfg.Churn = "shrink"
		}
	case 1:
		if cfg.Validators+3 <= 2*maxN {
			cfg.Churn = "grow"
		}
	}
	return cfg
}

// recMempool records what the executor asked of the real mempool; every call goes to the real one.
type recMempool struct {
	mempl.Mempool
	lastMax, lastGas, lastSz int64
	lastN                    int
}

func (m *recMempool) ReapMaxBytesMaxGas(maxBytes, maxGas int64) types.Txs {
	txs := m.Mempool.ReapMaxBytesMaxGas(maxBytes, maxGas)
	m.lastMax, m.lastGas, m.lastN, m.lastSz = maxBytes, maxGas, len(txs), types.ComputeProtoSizeForTxs(txs)
	return txs
}

// rpTxGen makes pairwise distinct transactions of a requested length that the
// application treats as plain key/value writes.
type rpTxGen struct {
	r      *rand.Rand
	serial map[int]uint64
}

func (g *rpTxGen) next(l int) (types.Tx, bool) {
	s := g.serial[l]
	if l < 8 && s >= uint64(1)<<uint(8*l) {
		return nil, false
	}
	g.serial[l] = s + 1
	b := make([]byte, l)
	if l >= 10 {
		g.r.Read(b[9:])
		b[0] = 0xA7 // never the prefix of a validator / parameter / rejected transaction
		binary.BigEndian.PutUint64(b[1:9], s)
		return b, true
	}
	for i := l - 1; i >= 0; i-- {
		b[i] = byte(s)
		s >>= 8
	}
	return b, true
}

func runRealPool(c *verdict.Ctx, idx int) {
	r := c.Rand("realpool", idx)
	cfg := genRealPoolCase(r, idx)
	params := types.DefaultConsensusParams()
	params.Block.MaxBytes = cfg.MaxBytes
	params.Evidence.MaxBytes = cfg.EvMaxBytes
	evp := &stubEvPool{}
	rec := &recMempool{}
	powers := genPowers(r, cfg.Validators)
	mcfg := cfgpkg.DefaultMempoolConfig()
	mcfg.Version = cfg.Version
	mcfg.Size = 3_000_000
	mcfg.MaxTxsBytes = 1 << 31
	mcfg.Recheck = cfg.Recheck
	mcfg.CacheSize = 0
	if cfg.Cache {
		mcfg.CacheSize = 10000
	}
	opts := chaingen.Options{ChainID: cfg.ChainID, Seed: c.SubSeed("realpool-keys", idx), Powers: powers, InitialHeight: cfg.Initial,
		Params: params,
		EvPool: func(sm.Store, *store.BlockStore) sm.EvidencePool { return evp },
		AppOptions: recapp.Options{CheckTxFn: func(tx []byte, _ int64) abci.ResponseCheckTx {
			// distinct priorities make the v1 order a function of the content only
			h := sha256.Sum256(tx)
			return abci.ResponseCheckTx{GasWanted: 1, Priority: int64(binary.BigEndian.Uint64(h[:8]) >> 1)}
		}},
		MempoolFactory: func(conns proxy.AppConns, st sm.State) mempl.Mempool {
			// constructed as node.createMempoolAndMempoolReactor does
			if cfg.Version == cfgpkg.MempoolV1 {
				rec.Mempool = mempoolv1.NewTxMempool(log.NewNopLogger(), mcfg, conns.Mempool(), st.LastBlockHeight,
					mempoolv1.WithPreCheck(sm.TxPreCheck(st)), mempoolv1.WithPostCheck(sm.TxPostCheck(st)))
			} else {
				rec.Mempool = mempoolv0.NewCListMempool(mcfg, conns.Mempool(), st.LastBlockHeight,
					mempoolv0.WithPreCheck(sm.TxPreCheck(st)), mempoolv0.WithPostCheck(sm.TxPostCheck(st)))
			}
			return rec
		}}
	ch := chaingen.New(opts)
	defer ch.Close()
	if cfg.EvMaxBytes > 0 {
		evp.items = makeEvidence(ch, r, 8)
	}
	k := &chainRun{c: c, r: r, c1: ch, cache: newSigCache()}
	gen := &rpTxGen{r: r, serial: map[int]uint64{}}
	c.Count(fmt.Sprintf("realpool.scenarios %s cache=%v", cfg.Version, cfg.Cache), 1)
	c.Count("realpool.scenarios band "+cfg.Band, 1)

	plan := func(st sm.State, height int64, txs []types.Tx) chaingen.StepPlan {
		flags, times := genCommitShape(r, st.Validators, ch.VoteTime(height, 0))
		return chaingen.StepPlan{Txs: txs, Round: int32(r.Intn(3)),
			Flag: func(i int, _ *types.Validator) types.BlockIDFlag { return flags[i] },
			Time: func(i int) time.Time { return times[i] }}
	}
	// first height: an honest block that carries the validator churn, so that the
	// commit of a later proposal has more / fewer slots than the current set
	{
		st := ch.State.Copy()
		var txs []types.Tx
		switch cfg.Churn {
		case "shrink":
			drop := 1 + r.Intn(cfg.Validators-1)
			for _, i := range r.Perm(cfg.Validators)[:drop] {
				txs = append(txs, valTx(st.Validators.Validators[i].PubKey.Bytes(), 0))
			}
		case "grow":
			for n := 1 + r.Intn(3); n > 0; n-- {
				txs = append(txs, valTx(ch.NewKey().PubKey().Bytes(), genPowers(r, 1)[0]))
			}
		}
		if _, err := ch.Step(plan(st, ch.NextHeight(), txs)); err != nil {
			c.HarnessError("realpool case %d: first block: %v", idx, err)
			return
		}
	}
	lens := cfg.band.lens
	maxCost := txCost(lens[len(lens)-1])
	for p := 0; p < cfg.Proposals; p++ {
		st := ch.State.Copy()
		height := ch.NextHeight()
		maxB := st.ConsensusParams.Block.MaxBytes
		// fill the pool beyond what any block can take
		want := maxB + maxB/4 + 2*maxCost
		have := rec.SizeBytes() + 2*int64(rec.Size())
		added, refused := 0, 0
		for have < want {
			l := lens[r.Intn(len(lens))]
			if cfg.Band == "mixed" && txCost(l) > maxB/4 && r.Intn(10) != 0 {
				continue // mostly lengths of which several fit; now and then one that blocks the head of the queue
			}
			tx, ok := gen.next(l)
			if !ok {
				if tx, ok = gen.next(2); !ok {
					if tx, ok = gen.next(3); !ok {
						break
					}
				}
			}
			if err := rec.CheckTx(tx, nil, mempl.TxInfo{}); err != nil {
				if _, ok := err.(mempl.ErrPreCheck); ok && refused < 2000 {
					// larger than the data budget of the current state: a correct mempool does not keep it
					refused++
					continue
				}
				c.HarnessError("realpool case %d: CheckTx of a fresh %d-byte transaction: %v", idx, len(tx), err)
				return
			}
			have += txCost(len(tx))
			added++
		}
		pending, pendingBytes := rec.Size(), rec.SizeBytes()
		poolCost := types.ComputeProtoSizeForTxs(rec.Mempool.ReapMaxBytesMaxGas(-1, -1)) // everything pending, as the block encoding accounts it
		evp.full = len(evp.items) > 0
		var offered int64
		if evp.full {
			_, offered = evp.PendingEvidence(st.ConsensusParams.Evidence.MaxBytes)
		}
		proposer := st.Validators.Validators[r.Intn(len(st.Validators.Validators))].Address
		lastCommit := ch.LastCommit()
		absent := 0
		for _, s := range lastCommit.Signatures {
			if s.BlockIDFlag == types.BlockIDFlagAbsent {
				absent++
			}
		}
		var blk *types.Block
		var ps *types.PartSet
		var pan interface{}
		func() {
			defer func() { pan = recover() }()
			blk, ps = ch.Exec.CreateProposalBlock(height, st, lastCommit, proposer)
		}()
		evp.full = false
		c.Eval()
		desc := map[string]interface{}{"stream": "realpool", "case": idx, "config": cfg, "height": height, "proposal_no": p,
			"pool_txs": pending, "pool_bytes": pendingBytes, "pool_accounted_bytes": poolCost, "evidence_bytes_offered": offered, "block_max_bytes": maxB,
			"validators": len(st.Validators.Validators), "last_commit_slots": len(lastCommit.Signatures), "absent_slots": absent}
		if pan != nil {
			desc["panic"] = fmt.Sprint(pan)
			c.Violation("proposal-panics", fmt.Sprintf("CreateProposalBlock panicked: %v", pan), desc)
			return
		}
		desc["data_budget_offered"], desc["data_bytes_returned"], desc["txs"] = rec.lastMax, rec.lastSz, rec.lastN
		c.Distinct("realpool", idx, p)
		c.Count("realpool.blocks", 1)
		c.Count("realpool.txs refused by the mempool's size pre-check", int64(refused))
		c.Count("realpool.txs in blocks", int64(len(blk.Data.Txs)))
		c.Max("realpool.max txs in one block", int64(len(blk.Data.Txs)))
		if len(blk.Evidence.Evidence) > 0 {
			c.Count("realpool.blocks with evidence", 1)
		}
		if absent > 0 {
			c.Count("realpool.blocks with absent commit slots", 1)
		}
		if poolCost > maxB {
			c.Count("realpool.pool held more accounted bytes than Block.MaxBytes", 1)
		}
		// (c) coverage only: is the block needlessly empty / is the budget used up to the next pending tx?
		minCost := txCost(lens[0])
		switch {
		case len(blk.Data.Txs) > 0 && rec.lastMax-rec.lastSz < minCost:
			c.Count("realpool.data budget used up to less than the smallest pending tx", 1)
		case len(blk.Data.Txs) > 0:
			c.Count("realpool.data budget left room for a smaller pending tx (queue order decides)", 1)
		case rec.lastMax >= minCost:
			c.Count("realpool.block empty although a pending tx would fit (queue order decides)", 1)
		default:
			c.Count("realpool.block empty: no pending tx fits the data budget", 1)
		}
		if !k.judgeProposal("realpool", st, lastCommit, blk, ps, desc) {
			return
		}
		if (idx == 3 || idx == 20) && p == 1 {
			c.Sample(desc)
		}
		// the proposal is decided: apply it, the real mempool drops its transactions (and rechecks the rest)
		if _, err := ch.Apply(blk, ps, plan(st, height, nil)); err != nil {
			c.HarnessError("realpool case %d: the proposer's block does not apply: %v", idx, err)
			return
		}
		if left := rec.Size(); left != pending-len(blk.Data.Txs) {
			c.Count("realpool.pool size after commit differs from pending minus included", 1)
		}
	}
}
