package c06

// Proposer blocks on a LastCommit built the way consensus builds it: a real
// types.VoteSet of the commit round is fed, in a random arrival order, with
// +2/3 precommits for the decided block id and, from the remaining < 1/3 of
// the power, anything a faulty validator can send: nothing, nil, another
// hash, the SAME hash under another part-set header, a second (equivocating)
// vote, the decided block with another timestamp, and conflicting votes that a
// peer-majority claim lets into the set.  VoteSet.MakeCommit() is what the
// next proposer hands to CreateProposalBlock.  Decided from the statement:
// that commit is a valid two-thirds commit of the set (reference tally, real
// VerifyCommit and VerifyCommitLight, CommitToVoteSet reconstructs it), and
// the proposer's block on top of it passes validation on every replica, fits
// the size limits and applies.

import (
	"bytes"
	"fmt"
	"math/big"
	"math/rand"
	"time"

	tmproto "github.com/tendermint/tendermint/proto/tendermint/types"
	sm "github.com/tendermint/tendermint/state"
	"github.com/tendermint/tendermint/store"
	"github.com/tendermint/tendermint/types"

	"verif/chaingen"
	"verif/verdict"
)

type vsCfg struct {
	Idx        int     `json:"case"`
	ChainID    string  `json:"chain_id"`
	Initial    int64   `json:"initial_height"`
	Powers     []int64 `json:"powers"`
	MaxBytes   int64   `json:"block_max_bytes"`
	EvMaxBytes int64   `json:"evidence_max_bytes"`
	Heights    int     `json:"heights"`
}

type vsEvent struct {
	Kind  string `json:"kind"`
	Val   int    `json:"validator"`
	vote  *types.Vote
	claim *types.BlockID
	peer  string
}

var vsFaultKinds = []string{"absent", "nil", "other-hash", "same-hash-total+1", "same-hash-total-1", "same-hash-other-parts-hash",
	"equivocate:decided+other", "equivocate:same-hash-other-parts+decided", "equivocate:nil+decided", "decided-other-timestamp",
	"claimed-other-block", "claimed-same-hash-other-parts"}

func sameHashVariant(r *rand.Rand, id types.BlockID, kind string) types.BlockID {
	v := cloneBlockID(id)
	switch kind {
	case "total+1":
		v.PartSetHeader.Total++
	case "total-1":
		if v.PartSetHeader.Total > 1 {
			v.PartSetHeader.Total--
		} else {
			v.PartSetHeader.Total += 2
		}
	default:
		v.PartSetHeader.Hash = flipBit(r, v.PartSetHeader.Hash)
	}
	return v
}

func randomBlockID(r *rand.Rand) types.BlockID {
	return types.BlockID{Hash: randBytes(r, 32), PartSetHeader: types.PartSetHeader{Total: 1 + uint32(r.Intn(4)), Hash: randBytes(r, 32)}}
}

// consensusCommit builds the precommit vote set of (height, round) for block
// id over vals as a node would have collected it and returns MakeCommit().
func consensusCommit(c *verdict.Ctx, r *rand.Rand, ch *chaingen.Chain, vals *types.ValidatorSet, height int64, round int32,
	id types.BlockID, base time.Time, desc map[string]interface{}) (*types.Commit, bool) {
	n := vals.Size()
	total := new(big.Int)
	for _, v := range vals.Validators {
		total.Add(total, big.NewInt(v.VotingPower))
	}
	// faulty validators: strictly less than one third of the power
	faulty := map[int]bool{}
	fsum := new(big.Int)
	for _, i := range r.Perm(n) {
		w := big.NewInt(vals.Validators[i].VotingPower)
		if s := new(big.Int).Add(fsum, w); new(big.Int).Mul(s, big.NewInt(3)).Cmp(total) < 0 && r.Intn(4) != 0 {
			faulty[i] = true
			fsum = s
		}
	}
	ts := func() time.Time { return base.Add(time.Duration(r.Int63n(4e8))) }
	sign := func(i int, b types.BlockID, t time.Time) *types.Vote {
		return ch.SignVote(vals, i, tmproto.PrecommitType, height, round, b, t)
	}
	var honest, hostile []vsEvent // hostile events of one validator keep their relative order
	var claims []vsEvent
	for i := 0; i < n; i++ {
		if !faulty[i] {
			honest = append(honest, vsEvent{Kind: "decided", Val: i, vote: sign(i, id, ts())})
			continue
		}
		kind := vsFaultKinds[r.Intn(len(vsFaultKinds))]
		c.Count("votesetcommit.faulty validator: "+kind, 1)
		ev := func(k string, b types.BlockID, t time.Time) vsEvent {
			return vsEvent{Kind: k, Val: i, vote: sign(i, b, t)}
		}
		switch kind {
		case "absent":
		case "nil":
			hostile = append(hostile, ev(kind, types.BlockID{}, ts()))
		case "other-hash":
			hostile = append(hostile, ev(kind, randomBlockID(r), ts()))
		case "same-hash-total+1":
			hostile = append(hostile, ev(kind, sameHashVariant(r, id, "total+1"), ts()))
		case "same-hash-total-1":
			hostile = append(hostile, ev(kind, sameHashVariant(r, id, "total-1"), ts()))
		case "same-hash-other-parts-hash":
			hostile = append(hostile, ev(kind, sameHashVariant(r, id, "hash"), ts()))
		case "equivocate:decided+other":
			hostile = append(hostile, ev(kind+"#1", id, ts()), ev(kind+"#2", randomBlockID(r), ts()))
		case "equivocate:same-hash-other-parts+decided":
			hostile = append(hostile, ev(kind+"#1", sameHashVariant(r, id, []string{"total+1", "hash"}[r.Intn(2)]), ts()), ev(kind+"#2", id, ts()))
		case "equivocate:nil+decided":
			hostile = append(hostile, ev(kind+"#1", types.BlockID{}, ts()), ev(kind+"#2", id, ts()))
		case "decided-other-timestamp":
			t := ts()
			hostile = append(hostile, ev(kind+"#1", id, t), ev(kind+"#2", id, t.Add(1)))
		case "claimed-other-block", "claimed-same-hash-other-parts":
			// a peer claims +2/3 for another block id; then this validator's conflicting vote for it is admitted
			other := randomBlockID(r)
			if kind == "claimed-same-hash-other-parts" {
				other = sameHashVariant(r, id, []string{"total+1", "total-1", "hash"}[r.Intn(3)])
			}
			first := id
			if r.Intn(2) == 0 {
				first = types.BlockID{}
			}
			claims = append(claims, vsEvent{Kind: "peer-claim", Val: i, claim: &other, peer: fmt.Sprintf("peer%d", i)})
			if r.Intn(2) == 0 {
				hostile = append(hostile, ev(kind+"#1", first, ts()), ev(kind+"#2", other, ts()))
			} else {
				hostile = append(hostile, ev(kind+"#1", other, ts()), ev(kind+"#2", first, ts()))
			}
		}
	}
	if r.Intn(3) == 0 {
		claims = append(claims, vsEvent{Kind: "peer-claim-decided", Val: -1, claim: &id, peer: "peer-honest"})
	}
	// arrival order: a random interleaving that keeps each list's own order
	r.Shuffle(len(honest), func(a, b int) { honest[a], honest[b] = honest[b], honest[a] })
	{ // hostile validators in a random order, each one's own votes in the order it sent them
		var groups [][]vsEvent
		for _, e := range hostile {
			if g := len(groups) - 1; g >= 0 && groups[g][0].Val == e.Val {
				groups[g] = append(groups[g], e)
			} else {
				groups = append(groups, []vsEvent{e})
			}
		}
		r.Shuffle(len(groups), func(a, b int) { groups[a], groups[b] = groups[b], groups[a] })
		hostile = hostile[:0:0]
		for _, g := range groups {
			hostile = append(hostile, g...)
		}
		r.Shuffle(len(claims), func(a, b int) { claims[a], claims[b] = claims[b], claims[a] })
	}
	var order []vsEvent
	lists := [][]vsEvent{claims, hostile, honest}
	switch r.Intn(4) {
	case 0: // hostile traffic first
		order = append(append(append(order, claims...), hostile...), honest...)
	case 1: // hostile traffic last
		order = append(append(append(order, honest...), claims...), hostile...)
	default:
		for len(lists[0])+len(lists[1])+len(lists[2]) > 0 {
			k := r.Intn(3)
			if len(lists[k]) == 0 {
				continue
			}
			order = append(order, lists[k][0])
			lists[k] = lists[k][1:]
		}
	}
	vs := types.NewVoteSet(ch.ChainID, height, round, tmproto.PrecommitType, vals)
	log := make([]string, 0, len(order))
	var pan interface{}
	func() {
		defer func() { pan = recover() }()
		for _, e := range order {
			if e.claim != nil {
				err := vs.SetPeerMaj23(types.P2PID(e.peer), *e.claim)
				log = append(log, fmt.Sprintf("%s by %s for %v: err=%v", e.Kind, e.peer, *e.claim, err))
				continue
			}
			added, err := vs.AddVote(e.vote)
			log = append(log, fmt.Sprintf("%s val=%d block=%v added=%v err=%v", e.Kind, e.Val, e.vote.BlockID, added, err != nil))
			if e.Kind != "decided" {
				c.Count(fmt.Sprintf("votesetcommit.hostile vote added=%v", added), 1)
			} else if !added || err != nil {
				c.HarnessError("an honest precommit was not added: %v", err)
			}
		}
	}()
	desc["vote_arrival"] = log
	if pan != nil {
		desc["panic"] = fmt.Sprint(pan)
		c.Violation("voteset-addvote-panics", fmt.Sprintf("VoteSet.AddVote / SetPeerMaj23 panicked: %v", pan), desc)
		return nil, false
	}
	if got, ok := vs.TwoThirdsMajority(); !ok || !got.Equals(id) {
		desc["majority"] = fmt.Sprintf("%v %v", got, ok)
		c.Violation("voteset-no-majority", "the vote set holds +2/3 precommits for the decided block but does not report that majority", desc)
		return nil, false
	}
	var mc *types.Commit
	func() {
		defer func() { pan = recover() }()
		mc = vs.MakeCommit()
	}()
	if pan != nil {
		desc["panic"] = fmt.Sprint(pan)
		c.Violation("makecommit-panics", fmt.Sprintf("VoteSet.MakeCommit panicked: %v", pan), desc)
		return nil, false
	}
	return mc, true
}

func runVoteSet(c *verdict.Ctx, idx int) {
	r := c.Rand("voteset", idx)
	n := 4 + r.Intn(10)
	if r.Intn(5) == 0 {
		n = 1 + r.Intn(25)
	}
	cfg := &vsCfg{Idx: idx, ChainID: genChainID(r), Initial: 1, Powers: genPowers(r, n), Heights: 6,
		EvMaxBytes: []int64{0, 0, 700}[r.Intn(3)]}
	if r.Intn(3) == 0 {
		cfg.Initial = 2 + r.Int63n(1<<40)
	}
	nmax := n + 3
	cfg.MaxBytes = minMaxBytes(nmax, cfg.EvMaxBytes) + []int64{0, int64(r.Intn(300)), int64(r.Intn(6000))}[r.Intn(3)]
	params := types.DefaultConsensusParams()
	params.Block.MaxBytes = cfg.MaxBytes
	params.Evidence.MaxBytes = cfg.EvMaxBytes
	mp := &fillMempool{mode: -1, r: rand.New(rand.NewSource(c.SubSeed("voteset-fill", idx)))}
	evp := &stubEvPool{}
	seed := c.SubSeed("voteset-keys", idx)
	mkopts := func(first bool) chaingen.Options {
		o := chaingen.Options{ChainID: cfg.ChainID, Seed: seed, Powers: cfg.Powers, InitialHeight: cfg.Initial, Params: params}
		if first {
			o.Mempool = mp
			o.EvPool = func(sm.Store, *store.BlockStore) sm.EvidencePool { return evp }
		}
		return o
	}
	c1 := chaingen.New(mkopts(true))
	defer c1.Close()
	c2 := chaingen.New(mkopts(false))
	defer c2.Close()
	if cfg.EvMaxBytes > 0 {
		evp.items = makeEvidence(c1, r, 4)
	}
	k := &chainRun{c: c, r: r, c1: c1, c2: c2, cache: newSigCache()}
	for hRel := 0; hRel < cfg.Heights; hRel++ {
		st := c1.State.Copy()
		height := c1.NextHeight()
		lastCommit := c1.LastCommit() // from the second height on: VoteSet.MakeCommit() of the previous height
		desc := map[string]interface{}{"stream": "voteset", "case": idx, "config": cfg, "height": height,
			"validators": valsSummary(st.Validators), "last_commit": commitSummary(lastCommit)}
		// validator churn queued ahead of the filler transactions
		mp.prefix = nil
		next := st.NextValidators
		switch r.Intn(4) {
		case 0:
			if next.Size() < nmax {
				key := c1.NewKey()
				c2.NewKey()
				mp.prefix = []types.Tx{valTx(key.PubKey().Bytes(), genPowers(r, 1)[0])}
			}
		case 1:
			if next.Size() > 2 {
				mp.prefix = []types.Tx{valTx(next.Validators[r.Intn(next.Size())].PubKey.Bytes(), 0)}
			}
		}
		mp.mode = r.Intn(4)
		evp.full = len(evp.items) > 0 && r.Intn(2) == 0
		proposer := st.Validators.Validators[r.Intn(len(st.Validators.Validators))].Address
		var blk *types.Block
		var ps *types.PartSet
		var pan interface{}
		func() {
			defer func() { pan = recover() }()
			blk, ps = c1.Exec.CreateProposalBlock(height, st, lastCommit, proposer)
		}()
		mp.mode, evp.full = -1, false
		c.Eval()
		if pan != nil {
			desc["panic"] = fmt.Sprint(pan)
			c.Violation("proposal-panics", fmt.Sprintf("CreateProposalBlock panicked: %v", pan), desc)
			return
		}
		c.Distinct("voteset", idx, height)
		c.Count("votesetcommit.proposals", 1)
		if !k.judgeProposal("votesetcommit", st, lastCommit, blk, ps, desc) {
			return
		}
		// every other correct node: receives the block as parts, validates it on its own state, applies it
		b2, ps2, err := trip(r, ps)
		if err != nil {
			c.Violation("block-roundtrip-fails", "the proposer's block does not survive serialise -> parts -> reassemble -> deserialise: "+err.Error(), desc)
			return
		}
		if verr, vpan := safeValidate(c2.Exec, c2.State, b2); verr != nil || vpan != nil {
			desc["real_verdict"], desc["validate_panic"] = fmt.Sprint(verr), fmt.Sprint(vpan)
			c.Violation("proposal-invalid: on another node", "the proposer's block is rejected by another correct node", desc)
			return
		}
		plan := chaingen.StepPlan{Round: int32(r.Intn(4))}
		rec1, err1 := c1.Apply(blk, ps, plan)
		_, err2 := c2.Apply(b2, ps2, plan)
		if err1 != nil || err2 != nil {
			desc["apply_errors"] = fmt.Sprintf("%v / %v", err1, err2)
			c.Violation("proposal-does-not-apply", "the proposer's block passes validation but ApplyBlock fails", desc)
			return
		}
		if !bytes.Equal(c1.State.Bytes(), c2.State.Bytes()) {
			c.Violation("replica-state-diverges", "two replicas applying the same block to the same state reached different State.Bytes()", desc)
			return
		}
		c.Count("votesetcommit.blocks applied on two replicas", 1)

		// the commit of this height as consensus collects it
		cdesc := map[string]interface{}{"stream": "voteset", "case": idx, "config": cfg, "height": height, "round": plan.Round,
			"block_id": rec1.BlockID.String(), "validators": valsSummary(st.Validators)}
		mc, ok := consensusCommit(c, r, c1, st.Validators, height, plan.Round, rec1.BlockID, c1.VoteTime(height, 0), cdesc)
		c.Eval()
		if !ok {
			return
		}
		c.Count("votesetcommit.commits made", 1)
		cdesc["commit"] = commitSummary(mc)
		bad := false
		if why := refCommitOK(k.cache, st.ChainID, st.Validators, rec1.BlockID, height, mc); why != "" {
			cdesc["ref_verdict"] = why
			bad = true
		}
		if err := st.Validators.VerifyCommit(st.ChainID, rec1.BlockID, height, mc); err != nil {
			cdesc["verify_commit"] = err.Error()
			bad = true
		}
		if err := st.Validators.VerifyCommitLight(st.ChainID, rec1.BlockID, height, mc); err != nil {
			cdesc["verify_commit_light"] = err.Error()
			bad = true
		}
		if bad {
			c.Violation("makecommit-commit-invalid", "the commit VoteSet.MakeCommit built from +2/3 precommits for the decided block plus < 1/3 hostile votes is not a valid commit of the validator set", cdesc)
		}
		func() {
			defer func() {
				if p := recover(); p != nil {
					cdesc["panic"] = fmt.Sprint(p)
					c.Violation("makecommit-commit-not-reconstructible", fmt.Sprintf("CommitToVoteSet panicked on the commit MakeCommit built: %v", p), cdesc)
					bad = true
				}
			}()
			back := types.CommitToVoteSet(st.ChainID, mc, st.Validators)
			if id, ok := back.TwoThirdsMajority(); !ok || !id.Equals(rec1.BlockID) {
				c.Violation("makecommit-commit-not-reconstructible", "the vote set rebuilt from the commit has no +2/3 for the decided block", cdesc)
				bad = true
			}
		}()
		for _, s := range mc.Signatures {
			c.Count(fmt.Sprintf("votesetcommit.commit slots flag=%d", s.BlockIDFlag), 1)
		}
		// this is the LastCommit the next proposer uses (even if it was judged invalid: the proposer has nothing else)
		c1.Hist[height].Commit = mc
		c2.Hist[height].Commit = mc
		if bad {
			c.Count("votesetcommit.continued on a commit judged invalid", 1)
		}
	}
}
