package c06

// Workload generation: chain configurations, per-height plans (transactions,
// validator churn, parameter changes, commit flags and timestamps) and the
// adversarial-but-legal mempool / evidence-pool stubs for proposer blocks.

import (
	"encoding/hex"
	"fmt"
	"math"
	"math/big"
	"math/rand"
	"time"

	"github.com/tendermint/tendermint/mempool/mock"
	tmproto "github.com/tendermint/tendermint/proto/tendermint/types"
	sm "github.com/tendermint/tendermint/state"
	"github.com/tendermint/tendermint/store"
	"github.com/tendermint/tendermint/types"

	"verif/chaingen"
)

type caseCfg struct {
	Idx           int     `json:"case"`
	Class         string  `json:"class"`
	ChainID       string  `json:"chain_id"`
	InitialHeight int64   `json:"initial_height"`
	Powers        []int64 `json:"powers"`
	NMax          int     `json:"max_validators"`
	MaxBytes      int64   `json:"block_max_bytes"`
	EvMaxBytes    int64   `json:"evidence_max_bytes"`
	AppVersion    uint64  `json:"app_version"`
	InitAppHash   string  `json:"initial_app_hash_hex"`
	GenesisTime   string  `json:"genesis_time"`
	Heights       int     `json:"heights"`
	BigRound      bool    `json:"max_round"`
	genesisTime   time.Time
	initAppHash   []byte
}

// minMaxBytes: smallest Block.MaxBytes for which the data budget of a proposer
// with n validators and evBytes of evidence is not negative
// (overhead 11 + header 626 + commit 94 + 111 per validator).
func minMaxBytes(n int, evBytes int64) int64 {
	return 11 + 626 + 94 + 111*int64(n) + evBytes
}

func genPowers(r *rand.Rand, n int) []int64 {
	p := make([]int64, n)
	switch r.Intn(6) {
	case 0: // equal
		v := int64(1 + r.Intn(100))
		for i := range p {
			p[i] = v
		}
	case 1: // geometric
		for i := range p {
			p[i] = int64(1) << uint(i%40)
		}
	case 2: // one whale
		for i := range p {
			p[i] = int64(1 + r.Intn(10))
		}
		p[r.Intn(n)] = 1_000_000_000_000
	case 3: // large
		for i := range p {
			p[i] = 1_000_000_000_000_000 - int64(r.Intn(1000))
		}
	default:
		for i := range p {
			p[i] = int64(1 + r.Intn(1000))
		}
	}
	return p
}

const idChars = "abcdefghijklmnopqrstuvwxyz0123456789-_."

func genChainID(r *rand.Rand) string {
	l := 1 + r.Intn(50)
	switch r.Intn(5) {
	case 0:
		l = 1
	case 1:
		l = 50
	}
	b := make([]byte, l)
	for i := range b {
		b[i] = idChars[r.Intn(len(idChars))]
	}
	return string(b)
}

func genCase(r *rand.Rand, idx int, heights int) *caseCfg {
	cfg := &caseCfg{Idx: idx, Heights: heights, ChainID: genChainID(r), InitialHeight: 1}
	switch r.Intn(4) {
	case 0:
		cfg.InitialHeight = 2 + r.Int63n(1000)
	case 1:
		cfg.InitialHeight = 1<<40 + r.Int63n(1000)
	}
	n := 1 + r.Intn(7)
	nmax := n + r.Intn(6)
	ev := []int64{0, 0, 700, 2000}[r.Intn(4)]
	slack := []int64{0, int64(r.Intn(40)), int64(r.Intn(400)), 3000 + int64(r.Intn(60000)), 1 << 20}[r.Intn(5)]
	cfg.Class = "churn"
	switch idx % 10 {
	case 0, 5:
		cfg.Class = "shrink"
		n = 5 + r.Intn(8)
		nmax = n
		slack = []int64{0, int64(r.Intn(100)), int64(r.Intn(800))}[r.Intn(3)]
	case 1:
		cfg.Class = "grow"
		n = 1 + r.Intn(3)
		nmax = n + 3 + r.Intn(12)
	case 2:
		cfg.Class = "extreme-varints"
		cfg.InitialHeight = 1<<62 + r.Int63n(1<<20)
		cfg.AppVersion = math.MaxUint64 - uint64(r.Intn(3))
		cfg.BigRound = true
		cfg.ChainID = cfg.ChainID + "xxxxxxxxxxxxxxxxxxxxxxxxxxxxxxxxxxxxxxxxxxxxxxxxxx"[:50-len(cfg.ChainID)]
		slack = int64(r.Intn(30))
	case 3:
		cfg.Class = "static-min"
		nmax = n
		slack = 0
		ev = []int64{0, 700}[r.Intn(2)]
	case 4:
		if idx%40 == 4 {
			cfg.Class = "big-set"
			n = 50 + r.Intn(101)
			nmax = n
			if r.Intn(2) == 0 {
				nmax = n + r.Intn(5)
			}
			if nmax > 150 {
				nmax = 150
			}
		}
	}
	if cfg.AppVersion == 0 && r.Intn(3) == 0 {
		cfg.AppVersion = uint64(r.Intn(1000))
	}
	if r.Intn(3) == 0 {
		cfg.initAppHash = make([]byte, 1+r.Intn(32))
		r.Read(cfg.initAppHash)
		cfg.InitAppHash = hex.EncodeToString(cfg.initAppHash)
	}
	cfg.Powers = genPowers(r, n)
	cfg.NMax = nmax
	cfg.EvMaxBytes = ev
	cfg.MaxBytes = minMaxBytes(nmax, ev) + slack
	cfg.genesisTime = time.Date(2024, 1, 1, 0, 0, 0, 0, time.UTC).Add(time.Duration(r.Int63n(int64(1000 * 24 * time.Hour)))).Add(time.Duration(r.Intn(1e9)))
	if cfg.Class == "extreme-varints" {
		cfg.genesisTime = cfg.genesisTime.Truncate(time.Second).Add(987654321)
	}
	cfg.GenesisTime = cfg.genesisTime.Format(time.RFC3339Nano)
	return cfg
}

func (cfg *caseCfg) options(seed int64, mp *fillMempool, evp *stubEvPool) chaingen.Options {
	params := types.DefaultConsensusParams()
	params.Block.MaxBytes = cfg.MaxBytes
	params.Evidence.MaxBytes = cfg.EvMaxBytes
	o := chaingen.Options{ChainID: cfg.ChainID, Seed: seed, Powers: cfg.Powers, InitialHeight: cfg.InitialHeight,
		GenesisTime: cfg.genesisTime, Params: params}
	if mp != nil {
		o.Mempool = mp
	}
	if evp != nil {
		o.EvPool = func(sm.Store, *store.BlockStore) sm.EvidencePool { return evp }
	}
	return o
}

// ---------------------------------------------------------------- per-height plan

type planDesc struct {
	Txs      []string `json:"txs"`
	Round    int32    `json:"round"`
	Flags    []int    `json:"commit_flags"`
	TimesNs  []int64  `json:"commit_times_unix_ns"`
	Proposer int      `json:"proposer_index"`
}

// genCommitShape chooses flags (> 2/3 for the block) and timestamps for the
// commit of a block of validator set vals; base is the canonical vote time.
func genCommitShape(r *rand.Rand, vals *types.ValidatorSet, base time.Time) ([]types.BlockIDFlag, []time.Time) {
	n := vals.Size()
	flags := make([]types.BlockIDFlag, n)
	total := new(big.Int)
	for _, v := range vals.Validators {
		total.Add(total, big.NewInt(v.VotingPower))
	}
	style := r.Intn(10)
	perm := r.Perm(n)
	sum := new(big.Int)
	enough := func() bool {
		return new(big.Int).Mul(big.NewInt(3), sum).Cmp(new(big.Int).Mul(big.NewInt(2), total)) > 0
	}
	for _, i := range perm {
		switch {
		case style < 3: // everybody
			flags[i] = types.BlockIDFlagCommit
		case !enough():
			flags[i] = types.BlockIDFlagCommit
		case style < 6: // minimal
			flags[i] = []types.BlockIDFlag{types.BlockIDFlagAbsent, types.BlockIDFlagNil}[r.Intn(2)]
		default:
			flags[i] = []types.BlockIDFlag{types.BlockIDFlagAbsent, types.BlockIDFlagNil, types.BlockIDFlagCommit}[r.Intn(3)]
		}
		if flags[i] == types.BlockIDFlagCommit {
			sum.Add(sum, big.NewInt(vals.Validators[i].VotingPower))
		}
	}
	mk := func(tstyle int) []time.Time {
		ts := make([]time.Time, n)
		pool := []time.Duration{time.Duration(r.Int63n(4e8)), time.Duration(r.Int63n(4e8)), time.Duration(r.Int63n(4e8))}
		for i := range ts {
			var d time.Duration
			switch tstyle {
			case 0: // distinct, ns resolution
				d = time.Duration(r.Int63n(4e8))
			case 1: // ties
				d = pool[r.Intn(len(pool))]
			case 2: // outliers in the past / future
				d = time.Duration(r.Int63n(4e8))
				if r.Intn(3) == 0 {
					d = -time.Duration(r.Int63n(3e9))
				} else if r.Intn(5) == 0 {
					d = time.Duration(r.Int63n(4e8)) + 300*time.Millisecond
				}
			default: // 1 ns apart
				d = time.Duration(r.Intn(4))
			}
			ts[i] = base.Add(d)
		}
		return ts
	}
	tstyle := r.Intn(4)
	ts := mk(tstyle)
	// the honest chain must stay valid: the median must not precede base
	// (every block time is below the next base by construction)
	tmp := &types.Commit{Signatures: make([]types.CommitSig, n)}
	for i := range tmp.Signatures {
		tmp.Signatures[i] = types.CommitSig{BlockIDFlag: flags[i], Timestamp: ts[i]}
	}
	if med, ok := refMedian(tmp, vals); !ok || med.Before(base) || med.After(base.Add(700*time.Millisecond)) {
		ts = mk(0)
	}
	return flags, ts
}

type stepGen struct {
	cfg    *caseCfg
	r      *rand.Rand
	newKey func() []byte // creates the next key on every replica, returns the public key bytes
	curMax int64
}

func valTx(pub []byte, power int64) types.Tx {
	return types.Tx(fmt.Sprintf("val:%s:%d", hex.EncodeToString(pub), power))
}

// txsFor chooses the transactions of the block at relative height hRel in state st.
func (g *stepGen) txsFor(st sm.State, hRel int, serial *int) []types.Tx {
	r := g.r
	var txs []types.Tx
	for i, k := 0, r.Intn(4); i < k; i++ {
		*serial++
		switch r.Intn(6) {
		case 0:
			txs = append(txs, types.Tx(fmt.Sprintf("bad%d", *serial)))
		case 1:
			b := make([]byte, 1+r.Intn(200))
			r.Read(b)
			txs = append(txs, types.Tx(fmt.Sprintf("k%d=%x", *serial, b)))
		default:
			txs = append(txs, types.Tx(fmt.Sprintf("k%d=v%d", *serial, r.Intn(1000))))
		}
	}
	next := st.NextValidators
	size := next.Size()
	used := map[int]bool{}
	pick := func() *types.Validator {
		for tries := 0; tries < 10; tries++ {
			i := r.Intn(next.Size())
			if !used[i] {
				used[i] = true
				return next.Validators[i]
			}
		}
		return nil
	}
	power := func() int64 { return genPowers(r, 1)[0] }
	switch g.cfg.Class {
	case "shrink":
		if hRel == 2 && size >= 4 {
			keep := 1 + r.Intn(size-3) // removes at least 3
			if keep > 3 && r.Intn(2) == 0 {
				keep = 1 + r.Intn(3)
			}
			for _, i := range r.Perm(size)[keep:] {
				txs = append(txs, valTx(next.Validators[i].PubKey.Bytes(), 0))
			}
		}
	case "grow":
		if size < g.cfg.NMax && r.Intn(2) == 0 {
			for k := 1 + r.Intn(4); k > 0 && size < g.cfg.NMax; k-- {
				txs = append(txs, valTx(g.newKey(), power()))
				size++
			}
		}
	case "static-min":
	default:
		if r.Intn(5) < 2 {
			removed := 0
			for k := 1 + r.Intn(3); k > 0; k-- {
				switch r.Intn(3) {
				case 0:
					if size < g.cfg.NMax {
						txs = append(txs, valTx(g.newKey(), power()))
						size++
					}
				case 1:
					if next.Size()-removed > 1 {
						if v := pick(); v != nil {
							txs = append(txs, valTx(v.PubKey.Bytes(), 0))
							removed++
						}
					}
				default:
					if v := pick(); v != nil {
						txs = append(txs, valTx(v.PubKey.Bytes(), power()))
					}
				}
			}
		}
	}
	if g.cfg.Class != "static-min" && r.Intn(7) == 0 {
		floor := minMaxBytes(g.cfg.NMax, g.cfg.EvMaxBytes)
		nb := floor + []int64{0, int64(r.Intn(50)), int64(r.Intn(5000)), 1 << 20}[r.Intn(4)]
		txs = append(txs, types.Tx(fmt.Sprintf("param:maxbytes=%d", nb)))
	}
	r.Shuffle(len(txs), func(i, j int) { txs[i], txs[j] = txs[j], txs[i] })
	return txs
}

// ---------------------------------------------------------------- mempool stub

// fillMempool is a mempool that, when asked for at most maxBytes of
// transactions, returns a set of distinct transactions whose accounted size
// (types.ComputeProtoSizeForTxs) is as close to maxBytes as the encoding
// allows and never above it - what a correct mempool may legally return.
type fillMempool struct {
	mock.Mempool
	mode    int
	r       *rand.Rand
	lastMax int64
	lastGas int64
	lastN   int
	lastSz  int64
	prefix  []types.Tx
}

func txCost(l int) int64 { return int64(1 + uvarintLen(uint64(l)) + l) }

// exactOne: length L >= 1 with txCost(L) == rem, or -1.
func exactOne(rem int64) int {
	for k := int64(1); k <= 5; k++ {
		l := rem - 1 - k
		if l >= 1 && int64(uvarintLen(uint64(l))) == k {
			return int(l)
		}
	}
	return -1
}

type txMaker struct {
	r      *rand.Rand
	serial uint64
}

// make returns a transaction of length l distinct from all earlier ones of this maker.
func (m *txMaker) make(l int) types.Tx {
	m.serial++
	b := make([]byte, l)
	if l > 12 {
		m.r.Read(b[8:])
	}
	s := m.serial
	for i := 0; i < l && i < 8; i++ {
		b[i] = byte(s)
		s >>= 8
	}
	return b
}

// capacity of distinct transactions of length l from one maker
func distinctCap(l int) uint64 {
	if l >= 8 {
		return math.MaxUint64
	}
	return uint64(1) << uint(8*l)
}

func fillTxs(r *rand.Rand, mode int, maxBytes int64) types.Txs {
	if maxBytes < 3 {
		return types.Txs{}
	}
	var txs types.Txs
	rem := maxBytes
	makers := map[int]*txMaker{}
	add := func(l int) bool {
		m := makers[l]
		if m == nil {
			m = &txMaker{r: r}
			makers[l] = m
		}
		if l < 8 && m.serial+1 >= distinctCap(l) {
			return false
		}
		if txCost(l) > rem {
			return false
		}
		txs = append(txs, m.make(l))
		rem -= txCost(l)
		return true
	}
	switch mode {
	case 0: // one transaction as large as possible
	case 1: // as many tiny distinct transactions as possible
		l := 1
		for rem >= 16 {
			if !add(l) {
				l++
			}
		}
	case 2: // random sizes
		for rem >= 16 {
			hi := rem / 2
			if hi > 70000 {
				hi = 70000
			}
			l := 1 + int(r.Int63n(hi))
			if r.Intn(3) == 0 && l > 300 {
				l = 1 + r.Intn(300)
			}
			if !add(l) {
				break
			}
		}
	case 3: // lengths around the varint boundaries
		ls := []int{127, 128, 126, 129, 16383, 16384, 16382}
		for rem >= 16 {
			l := ls[r.Intn(len(ls))]
			if txCost(l) > rem-3 {
				l = ls[r.Intn(4)]
			}
			if txCost(l) > rem-3 {
				break
			}
			add(l)
		}
	}
	// finish exactly
	for rem >= 3 {
		if l := exactOne(rem); l >= 1 && add(l) {
			break
		}
		// no single length fits (varint boundary) or no distinct tx left: split
		if !add(1) && !add(2) && !add(3) {
			break
		}
	}
	return txs
}

func (m *fillMempool) ReapMaxBytesMaxGas(maxBytes, maxGas int64) types.Txs {
	m.lastMax, m.lastGas = maxBytes, maxGas
	if m.mode < 0 || maxBytes < 0 {
		m.lastN, m.lastSz = 0, 0
		return types.Txs{}
	}
	// transactions queued ahead of the filler (validator churn), as far as they fit
	var txs types.Txs
	for _, tx := range m.prefix {
		if c := txCost(len(tx)); c <= maxBytes {
			txs = append(txs, tx)
			maxBytes -= c
		}
	}
	txs = append(txs, fillTxs(m.r, m.mode, maxBytes)...)
	m.lastN, m.lastSz = len(txs), types.ComputeProtoSizeForTxs(txs)
	return txs
}

// ---------------------------------------------------------------- evidence pool stub

// stubEvPool: admits everything (admissibility is C11's business); when full
// it offers the longest prefix of its items that fits the byte limit, with the
// size accounted as the protobuf size of the list - what the real pool does.
type stubEvPool struct {
	items []types.Evidence
	full  bool
}

func (p *stubEvPool) PendingEvidence(maxBytes int64) ([]types.Evidence, int64) {
	if !p.full {
		return nil, 0
	}
	var out []types.Evidence
	var list tmproto.EvidenceList
	var size int64
	for _, ev := range p.items {
		pb, err := types.EvidenceToProto(ev)
		if err != nil {
			panic(err)
		}
		list.Evidence = append(list.Evidence, *pb)
		if s := int64(list.Size()); maxBytes != -1 && s > maxBytes {
			break
		} else {
			size = s
		}
		out = append(out, ev)
	}
	return out, size
}
func (p *stubEvPool) AddEvidence(types.Evidence) error       { return nil }
func (p *stubEvPool) Update(sm.State, types.EvidenceList)    {}
func (p *stubEvPool) CheckEvidence(types.EvidenceList) error { return nil }

// makeEvidence builds k well-formed, pairwise distinct duplicate-vote evidence
// items against the genesis validators of ch.
func makeEvidence(ch *chaingen.Chain, r *rand.Rand, k int) []types.Evidence {
	vals := ch.Genesis.Validators
	out := make([]types.Evidence, 0, k)
	for i := 0; i < k; i++ {
		id := func() types.BlockID {
			h, p := make([]byte, 32), make([]byte, 32)
			r.Read(h)
			r.Read(p)
			return types.BlockID{Hash: h, PartSetHeader: types.PartSetHeader{Total: 1 + uint32(r.Intn(3)), Hash: p}}
		}
		vi := i % vals.Size()
		height := ch.Opt.InitialHeight
		ts := ch.Opt.GenesisTime.Add(time.Duration(i) * time.Millisecond)
		v1 := ch.SignVote(vals, vi, tmproto.PrecommitType, height, int32(i), id(), ts)
		v2 := ch.SignVote(vals, vi, tmproto.PrecommitType, height, int32(i), id(), ts)
		ev := types.NewDuplicateVoteEvidence(v1, v2, ch.Opt.GenesisTime, vals)
		if ev == nil || ev.ValidateBasic() != nil {
			panic("c06: cannot build evidence")
		}
		out = append(out, ev)
	}
	return out
}
