// Package c06: block validation is exact and the state transition is a
// deterministic function (DESIGN.md section 3, C06; section 4, S14).
//
// Three monitors over chains generated through the real executor:
//
//  1. differential: BlockExecutor.ValidateBlock(state, B') against the
//     reference predicate refValidBlock for the honest next block and for
//     every single-field perturbation of it;
//  2. determinism: a second replica (own stores, own application) is fed every
//     block after a serialise -> parts -> reassemble -> deserialise trip and
//     must reach byte-identical states, block ids, app hashes and ABCI
//     responses;
//  3. proposer blocks: BlockExecutor.CreateProposalBlock over a mempool that
//     fills the offered byte budget exactly (and an evidence pool that fills
//     its limit) must yield a block that both validators accept and that fits
//     Block.MaxBytes, also when fed part by part as consensus does.
package c06

import (
	"bytes"
	"encoding/hex"
	"fmt"
	"io"
	"math"
	"math/rand"
	"regexp"
	"runtime"
	"strings"
	"sync"
	"time"

	"github.com/gogo/protobuf/proto"

	tmproto "github.com/tendermint/tendermint/proto/tendermint/types"
	sm "github.com/tendermint/tendermint/state"
	"github.com/tendermint/tendermint/types"

	"verif/chaingen"
	"verif/verdict"
)

type chainRun struct {
	c     *verdict.Ctx
	cfg   *caseCfg
	r     *rand.Rand
	c1    *chaingen.Chain
	c2    *chaingen.Chain
	mp    *fillMempool
	evp   *stubEvPool
	cache *sigCache
	evs   []types.Evidence
	sr    *rand.Rand // sampling only: must not disturb the case stream
}

var slotIdx = regexp.MustCompile(`#\d+`)

func classOf(name string) string { return slotIdx.ReplaceAllString(name, "") }

func reasonClass(why string) string {
	if why == "" {
		return "valid"
	}
	if i := strings.Index(why, ": slot "); i >= 0 {
		// "last commit: slot 3: signature invalid" -> "last commit: slot: signature invalid"
		rest := why[i+len(": slot "):]
		if j := strings.Index(rest, ": "); j >= 0 {
			return why[:i] + ": slot: " + rest[j+2:]
		}
	}
	return why
}

func safeValidate(ex *sm.BlockExecutor, st sm.State, b *types.Block) (err error, panicked interface{}) {
	defer func() {
		if rec := recover(); rec != nil {
			panicked = rec
		}
	}()
	return ex.ValidateBlock(st, b), nil
}

func commitSummary(c *types.Commit) map[string]interface{} {
	if c == nil {
		return nil
	}
	slots := make([]string, 0, len(c.Signatures))
	for i, s := range c.Signatures {
		if i >= 24 {
			slots = append(slots, fmt.Sprintf("... %d more", len(c.Signatures)-i))
			break
		}
		slots = append(slots, fmt.Sprintf("%d:flag=%d addr=%X ts=%s sig=%X..(%d)", i, s.BlockIDFlag, []byte(s.ValidatorAddress),
			s.Timestamp.Format(time.RFC3339Nano), fingerprint(s.Signature), len(s.Signature)))
	}
	return map[string]interface{}{"height": c.Height, "round": c.Round, "block_id": c.BlockID.String(), "slots": slots}
}

func fingerprint(b []byte) []byte {
	if len(b) > 6 {
		return b[:6]
	}
	return b
}

func valsSummary(v *types.ValidatorSet) []string {
	out := []string{}
	if v == nil {
		return out
	}
	for i, x := range v.Validators {
		if i >= 24 {
			out = append(out, fmt.Sprintf("... %d more", len(v.Validators)-i))
			break
		}
		out = append(out, fmt.Sprintf("%X:%d", []byte(x.Address), x.VotingPower))
	}
	return out
}

func (k *chainRun) witness(height int64, name string, st sm.State, b *types.Block) map[string]interface{} {
	w := map[string]interface{}{"stream": "chain", "case": k.cfg.Idx, "config": k.cfg, "height": height, "perturbation": name,
		"state": map[string]interface{}{"last_block_height": st.LastBlockHeight, "last_block_time": st.LastBlockTime.Format(time.RFC3339Nano),
			"last_block_id": st.LastBlockID.String(), "validators": valsSummary(st.Validators), "last_validators": valsSummary(st.LastValidators),
			"next_validators": len(st.NextValidators.Validators), "block_max_bytes": st.ConsensusParams.Block.MaxBytes,
			"evidence_max_bytes": st.ConsensusParams.Evidence.MaxBytes, "app_hash": hex.EncodeToString(st.AppHash),
			"last_results_hash": hex.EncodeToString(st.LastResultsHash), "version": fmt.Sprint(st.Version.Consensus)}}
	if b != nil {
		w["block_header"] = fmt.Sprintf("%+v", b.Header)
		w["block_time"] = b.Time.Format(time.RFC3339Nano)
		w["txs"] = len(b.Data.Txs)
		w["evidence_items"] = len(b.Evidence.Evidence)
		w["last_commit"] = commitSummary(b.LastCommit)
	}
	return w
}

// compare runs both validators on (st, b) and reports a disagreement.
// Returns (real accepts, ref accepts).
func (k *chainRun) compare(height int64, name string, st sm.State, b *types.Block, explore bool) (bool, bool) {
	c := k.c
	if st.LastBlockHeight != 0 && b.LastCommit != nil && len(b.LastCommit.Signatures) == len(st.LastValidators.Validators) &&
		!wellFormedAddresses(b.LastCommit, st.LastValidators) {
		// a non-absent slot names somebody else than the validator at its
		// index: the statement does not say which of the two defines the
		// commit (DESIGN.md, note on MedianTime) - unless the address is not
		// an address at all
		wrongLen := false
		for _, s := range b.LastCommit.Signatures {
			if s.BlockIDFlag != flagAbsent && len(s.ValidatorAddress) != 20 {
				wrongLen = true
			}
		}
		if !wrongLen {
			explore = true
		}
	}
	realErr, pan := safeValidate(k.c1.Exec, st, b)
	if pan != nil {
		c.Violation("validate-panics", fmt.Sprintf("ValidateBlock panicked on perturbation %s: %v", classOf(name), pan), k.witness(height, name, st, b))
		return false, false
	}
	why := refValidBlock(k.cache, st, b, func(types.Evidence) bool { return true })
	realOK, refOK := realErr == nil, why == ""
	c.Eval()
	cls := classOf(name)
	if explore {
		c.Count(fmt.Sprintf("explore.%s.real_accepts=%v", cls, realOK), 1)
		return realOK, refOK
	}
	c.Distinct("case", k.cfg.Idx, height, name)
	if c.Distinct("branch", cls, reasonClass(why), realOK) {
		c.Count("distinct (perturbation class, reference clause) pairs", 1)
	}
	c.Count(fmt.Sprintf("verdict.real=%v.ref=%v", realOK, refOK), 1)
	c.Count("ref.clause: "+reasonClass(why), 1)
	c.Count(fmt.Sprintf("pert.%s.valid=%v", cls, refOK), 1)
	if realOK == refOK {
		if cls != "honest" && st.LastBlockHeight != 0 && k.sr.Intn(3000) == 0 && c.WantSample() {
			c.Sample(map[string]interface{}{"case": k.cfg.Idx, "class": k.cfg.Class, "height": height, "validators": len(st.Validators.Validators),
				"last_validators": len(st.LastValidators.Validators), "perturbation": name, "real": fmt.Sprint(realErr), "ref": why})
		}
		return realOK, refOK
	}
	w := k.witness(height, name, st, b)
	w["real_verdict"], w["ref_verdict"] = fmt.Sprint(realErr), why
	if realOK {
		c.Violation("accepts-invalid: "+reasonClass(why),
			fmt.Sprintf("ValidateBlock accepted a block the reference rejects (%s); perturbation %s", why, cls), w)
	} else {
		c.Violation("rejects-valid: "+cls,
			fmt.Sprintf("ValidateBlock rejected (%v) a block the reference accepts; perturbation %s", realErr, cls), w)
	}
	return realOK, refOK
}

// ---------------------------------------------------------------- proposer blocks

func (k *chainRun) probe(st sm.State, height int64, hRel int) {
	c, r := k.c, k.r
	maxB := st.ConsensusParams.Block.MaxBytes
	modes := []int{0, 1 + r.Intn(3)}
	if hRel%4 == 1 {
		modes = append(modes, -1)
	}
	for mi, mode := range modes {
		if mode == 1 && maxB > 150_000 {
			mode = 2
		}
		evFull := len(k.evp.items) > 0 && (mi+hRel)%2 == 0
		var offered int64
		if evFull {
			k.evp.full = true
			_, offered = k.evp.PendingEvidence(st.ConsensusParams.Evidence.MaxBytes)
		}
		k.mp.mode = mode
		k.evp.full = evFull
		proposer := st.Validators.Validators[r.Intn(len(st.Validators.Validators))].Address
		lastCommit := k.c1.LastCommit()
		var blk *types.Block
		var ps *types.PartSet
		var pan interface{}
		func() {
			defer func() { pan = recover() }()
			blk, ps = k.c1.Exec.CreateProposalBlock(height, st, lastCommit, proposer)
		}()
		k.mp.mode = -1
		k.evp.full = false
		c.Eval()
		desc := map[string]interface{}{"stream": "chain", "case": k.cfg.Idx, "config": k.cfg, "height": height, "mempool_mode": mode,
			"evidence_pool_full": evFull, "evidence_bytes_offered": offered, "block_max_bytes": maxB, "validators": len(st.Validators.Validators),
			"last_validators": len(st.LastValidators.Validators), "last_commit_slots": len(lastCommit.Signatures)}
		if pan != nil {
			if maxB < minMaxBytes(len(st.Validators.Validators), offered) {
				c.Count("explore.proposal-panic.block-max-bytes-below-budget-minimum", 1)
			} else {
				desc["panic"] = fmt.Sprint(pan)
				c.Violation("proposal-panics", fmt.Sprintf("CreateProposalBlock panicked: %v", pan), desc)
			}
			continue
		}
		desc["data_budget_offered"], desc["data_bytes_returned"], desc["txs"] = k.mp.lastMax, k.mp.lastSz, k.mp.lastN
		c.Distinct("proposal", k.cfg.Idx, height, mode, evFull)
		c.Count("proposal.blocks", 1)
		if k.mp.lastSz == k.mp.lastMax && k.mp.lastMax > 0 {
			c.Count("proposal.data-budget-filled-exactly", 1)
		}
		if len(blk.Evidence.Evidence) > 0 {
			c.Count("proposal.with-evidence", 1)
		}
		if k.mp.lastSz > k.mp.lastMax {
			c.HarnessError("mempool stub returned %d bytes for a budget of %d", k.mp.lastSz, k.mp.lastMax)
			continue
		}
		k.judgeProposal("proposal", st, lastCommit, blk, ps, desc)
	}
}

// judgeProposal decides a block returned by CreateProposalBlock: (a) both
// validators accept it in the proposer's own state, (b) its protobuf size is
// within Block.MaxBytes and the part set passes the accumulation rule of
// consensus (addProposalBlockPart).  Counters are prefixed with pfx.
func (k *chainRun) judgeProposal(pfx string, st sm.State, lastCommit *types.Commit, blk *types.Block, ps *types.PartSet, desc map[string]interface{}) bool {
	c := k.c
	maxB := st.ConsensusParams.Block.MaxBytes
	realErr, vpan := safeValidate(k.c1.Exec, st, blk)
	why := refValidBlock(k.cache, st, blk, func(types.Evidence) bool { return true })
	if vpan != nil || realErr != nil || why != "" {
		desc["real_verdict"], desc["ref_verdict"], desc["validate_panic"] = fmt.Sprint(realErr), why, fmt.Sprint(vpan)
		c.Violation("proposal-invalid: "+reasonClass(why), "the proposer's own block does not pass validation", desc)
		return false
	}
	pb, err := blk.ToProto()
	if err != nil {
		c.HarnessError("proposal block ToProto: %v", err)
		return false
	}
	size := int64(pb.Size())
	// the consensus rule: parts are accumulated and the running byte size is compared with MaxBytes
	acc := types.NewPartSetFromHeader(ps.Header())
	partsOver := int64(0)
	for i := 0; i < int(ps.Total()); i++ {
		if _, err := acc.AddPart(ps.GetPart(i)); err != nil {
			c.HarnessError("AddPart of the proposer's own part: %v", err)
		}
		if acc.ByteSize() > maxB {
			partsOver = acc.ByteSize()
		}
	}
	c.Max(pfx+".max block size / MaxBytes (permille)", size*1000/maxB)
	if len(lastCommit.Signatures) <= len(st.Validators.Validators) {
		c.Max(pfx+".max block size / MaxBytes (permille), commit not larger than budgeted", size*1000/maxB)
		if maxB-size < 1000 {
			c.Count(fmt.Sprintf("%s.slack below MaxBytes: %d..%d bytes", pfx, (maxB-size)/50*50, (maxB-size)/50*50+49), 1)
		}
	}
	if lc, nv := len(lastCommit.Signatures), len(st.Validators.Validators); lc > nv {
		c.Count(pfx+".after-valset-shrink", 1)
	} else if lc < nv {
		c.Count(pfx+".after-valset-growth", 1)
	}
	if size > maxB || partsOver > 0 {
		desc["block_size"], desc["parts_byte_size"], desc["excess"] = size, acc.ByteSize(), size-maxB
		// attributed to the shrink only if the commit slots that the budget did not count explain the excess
		if unbudgeted := int64(len(lastCommit.Signatures)-len(st.Validators.Validators)) * 111; unbudgeted > 0 && size-maxB <= unbudgeted {
			c.Violation("proposal-oversize-after-valset-shrink",
				fmt.Sprintf("CreateProposalBlock budgets the commit for %d validators (Validators) but the block carries the %d-slot commit of LastValidators: block of %d bytes > MaxBytes %d (and the part-size rule of addProposalBlockPart rejects it)",
					len(st.Validators.Validators), len(lastCommit.Signatures), size, maxB), desc)
		} else {
			c.Violation("proposal-oversize", fmt.Sprintf("proposer block of %d bytes exceeds Block.MaxBytes %d", size, maxB), desc)
		}
		return false
	}
	c.Count(pfx+".fits", 1)
	return true
}

// ---------------------------------------------------------------- replica trip

// trip serialises the block into parts, delivers them in random order into a
// fresh part set, reassembles and deserialises.
func trip(r *rand.Rand, parts *types.PartSet) (*types.Block, *types.PartSet, error) {
	ps := types.NewPartSetFromHeader(parts.Header())
	for _, i := range r.Perm(int(parts.Total())) {
		p := parts.GetPart(i)
		// through the wire encoding of a part
		pp, err := p.ToProto()
		if err != nil {
			return nil, nil, err
		}
		bz, err := proto.Marshal(pp)
		if err != nil {
			return nil, nil, err
		}
		var back tmproto.Part
		if err := proto.Unmarshal(bz, &back); err != nil {
			return nil, nil, err
		}
		p2, err := types.PartFromProto(&back)
		if err != nil {
			return nil, nil, err
		}
		if ok, err := ps.AddPart(p2); !ok || err != nil {
			return nil, nil, fmt.Errorf("AddPart(%d): added=%v err=%v", i, ok, err)
		}
	}
	if !ps.IsComplete() {
		return nil, nil, fmt.Errorf("part set incomplete")
	}
	bz, err := io.ReadAll(ps.GetReader())
	if err != nil {
		return nil, nil, err
	}
	var pb tmproto.Block
	if err := proto.Unmarshal(bz, &pb); err != nil {
		return nil, nil, err
	}
	b, err := types.BlockFromProto(&pb)
	return b, ps, err
}

func (k *chainRun) handshake(ch *chaingen.Chain) {
	// what the ABCI handshake does before the first block: app version from
	// Info, app hash from InitChain
	ch.State.Version.Consensus.App = k.cfg.AppVersion
	if len(k.cfg.initAppHash) > 0 {
		ch.State.AppHash = cpb(k.cfg.initAppHash)
	}
	if err := ch.StateStore.Save(ch.State); err != nil {
		panic(err)
	}
	ch.Genesis = ch.State.Copy()
}

func (k *chainRun) run() {
	c, r, cfg := k.c, k.r, k.cfg
	keySeed := c.SubSeed("keys", cfg.Idx)
	k.mp = &fillMempool{mode: -1, r: rand.New(rand.NewSource(c.SubSeed("fill", cfg.Idx)))}
	k.evp = &stubEvPool{}
	k.c1 = chaingen.New(cfg.options(keySeed, k.mp, k.evp))
	defer k.c1.Close()
	k.c2 = chaingen.New(cfg.options(keySeed, nil, nil))
	defer k.c2.Close()
	k.handshake(k.c1)
	k.handshake(k.c2)
	k.cache = newSigCache()
	k.sr = rand.New(rand.NewSource(c.SubSeed("sample", cfg.Idx)))
	k.evs = makeEvidence(k.c1, r, 6)
	if cfg.EvMaxBytes > 0 {
		k.evp.items = makeEvidence(k.c1, r, 8)
	}
	gen := &stepGen{cfg: cfg, r: r, newKey: func() []byte {
		key := k.c1.NewKey()
		k.c2.NewKey()
		return key.PubKey().Bytes()
	}}
	serial := 0
	c1, c2 := k.c1, k.c2
	for hRel := 0; hRel < cfg.Heights; hRel++ {
		st := c1.State.Copy()
		height := c1.NextHeight()
		nv := len(st.Validators.Validators)

		// (3) proposer blocks from this state
		k.probe(st, height, hRel)

		// the honest next block
		plan := chaingen.StepPlan{Txs: gen.txsFor(st, hRel, &serial)}
		pidx := -1
		if r.Intn(2) == 0 {
			pidx = r.Intn(nv)
			plan.Proposer = st.Validators.Validators[pidx].Address
		}
		plan.Round = int32(r.Intn(3))
		if cfg.BigRound {
			plan.Round = math.MaxInt32 - int32(r.Intn(2))
		}
		block, parts := c1.Propose(plan)
		flags, times := genCommitShape(r, st.Validators, c1.VoteTime(height, 0))
		plan.Flag = func(i int, _ *types.Validator) types.BlockIDFlag { return flags[i] }
		plan.Time = func(i int) time.Time { return times[i] }

		// (1) differential validation
		realOK, refOK := k.compare(height, "honest", st, block, false)
		if !realOK || !refOK {
			return // reported; the chain cannot continue
		}
		k.compare(height, "honest.copy", st, cloneBlock(block), false)
		slots := 3
		switch {
		case nv <= 8:
			slots = 8
		case nv > 40:
			slots = 2
		}
		if cfg.Class != "big-set" || hRel%3 == 1 || hRel == 0 {
			for _, p := range perturbations(r, c1, st, block, k.evs, slots) {
				s := st
				if p.state != nil {
					s = *p.state
				}
				k.compare(height, p.name, s, p.block, p.explore)
			}
		}

		// (2) two replicas
		b2, parts2, err := trip(r, parts)
		if err != nil {
			c.Violation("block-roundtrip-fails", "an honest block does not survive serialise -> parts -> reassemble -> deserialise: "+err.Error(),
				k.witness(height, "roundtrip", st, block))
			return
		}
		if !bytes.Equal(b2.Hash(), block.Hash()) || !b2.MakePartSet(types.BlockPartSizeBytes).Header().Equals(parts.Header()) {
			c.Violation("block-roundtrip-changes-hash", "block hash or part-set header differs after the serialisation trip", k.witness(height, "roundtrip", st, block))
			return
		}
		loaded, err := c2.StateStore.Load()
		if err != nil || !bytes.Equal(loaded.Bytes(), c2.State.Bytes()) {
			c.Violation("state-store-roundtrip-differs", fmt.Sprintf("the state loaded from the store differs from the state that was saved (err=%v)", err),
				k.witness(height, "state reload", st, nil))
			return
		}
		c2.State = loaded
		rec1, err1 := c1.Apply(block, parts, plan)
		rec2, err2 := c2.Apply(b2, parts2, plan)
		c.Eval()
		if err1 != nil || err2 != nil {
			if (err1 == nil) != (err2 == nil) {
				c.Violation("replica-apply-differs", fmt.Sprintf("ApplyBlock: replica 1 err=%v, replica 2 err=%v", err1, err2), k.witness(height, "apply", st, block))
			} else {
				c.HarnessError("case %d height %d: honest block does not apply: %v", cfg.Idx, height, err1)
			}
			return
		}
		k.compareReplicas(height, st, block, rec1, rec2)
		c.Distinct("replica", cfg.Idx, height)
		c.Count("replica.heights compared", 1)
		if len(c1.State.LastValidators.Validators) != len(c1.State.Validators.Validators) {
			c.Count("states with |LastValidators| != |Validators|", 1)
		}
	}
	c.Count("chains."+cfg.Class, 1)
}

func (k *chainRun) compareReplicas(height int64, before sm.State, block *types.Block, rec1, rec2 *chaingen.HeightRec) {
	c, c1, c2 := k.c, k.c1, k.c2
	w := func() map[string]interface{} { return k.witness(height, "replicas", before, block) }
	s1, s2 := c1.State, c2.State
	if !bytes.Equal(s1.Bytes(), s2.Bytes()) {
		ww := w()
		ww["state1"], ww["state2"] = hex.EncodeToString(s1.Bytes()), hex.EncodeToString(s2.Bytes())
		ww["last_block_time_1"], ww["last_block_time_2"] = s1.LastBlockTime.Format(time.RFC3339Nano), s2.LastBlockTime.Format(time.RFC3339Nano)
		c.Violation("replica-state-diverges", "two replicas applying the same block to the same state reached different State.Bytes()", ww)
	}
	if !rec1.BlockID.Equals(rec2.BlockID) {
		c.Violation("replica-block-id-diverges", "block ids differ between replicas", w())
	}
	if !bytes.Equal(s1.AppHash, s2.AppHash) || !bytes.Equal(c1.App.AppHash(), c2.App.AppHash()) {
		c.Violation("replica-app-hash-diverges", "app hashes differ between replicas", w())
	}
	r1, e1 := c1.StateStore.LoadABCIResponses(height)
	r2, e2 := c2.StateStore.LoadABCIResponses(height)
	if e1 != nil || e2 != nil {
		c.HarnessError("LoadABCIResponses: %v %v", e1, e2)
		return
	}
	b1, _ := r1.Marshal()
	b2, _ := r2.Marshal()
	if !bytes.Equal(b1, b2) {
		c.Violation("replica-abci-responses-diverge", "stored ABCI responses differ between replicas", w())
	}
	if !bytes.Equal(rec1.Commit.Hash(), rec2.Commit.Hash()) {
		c.HarnessError("harness commits differ between replicas (case %d height %d)", k.cfg.Idx, height)
	}
	// the next state is a function of (state, header, ABCI results): the parts the statement names
	n := len(r1.DeliverTxs)
	codes, datas, gw, gu := make([]uint32, n), make([][]byte, n), make([]int64, n), make([]int64, n)
	for i, d := range r1.DeliverTxs {
		codes[i], datas[i], gw[i], gu[i] = d.Code, d.Data, d.GasWanted, d.GasUsed
	}
	bad := ""
	switch {
	case s1.LastBlockHeight != height:
		bad = "LastBlockHeight"
	case !s1.LastBlockID.Equals(rec1.BlockID):
		bad = "LastBlockID"
	case !s1.LastBlockTime.Equal(block.Time):
		bad = "LastBlockTime"
	case !bytes.Equal(s1.AppHash, c1.App.AppHash()):
		bad = "AppHash"
	case !bytes.Equal(s1.LastResultsHash, refResultsHash(codes, datas, gw, gu)):
		bad = "LastResultsHash"
	case !bytes.Equal(refValsHash(s1.Validators), refValsHash(before.NextValidators)):
		bad = "Validators"
	case !bytes.Equal(refValsHash(s1.LastValidators), refValsHash(before.Validators)):
		bad = "LastValidators"
	case s1.ChainID != before.ChainID || s1.InitialHeight != before.InitialHeight:
		bad = "ChainID/InitialHeight"
	}
	if bad != "" {
		c.Violation("next-state-"+bad, "the state after ApplyBlock does not carry the "+bad+" given by (previous state, block, ABCI results)", w())
	}
}

// evidencePanicProbe records (exploratory, not a verdict) what the proposer
// does when valid parameters let the evidence limit approach the block limit.
func evidencePanicProbe(c *verdict.Ctx) {
	cfg := &caseCfg{Idx: -1, Class: "explore", ChainID: "c06-explore", InitialHeight: 1, Powers: []int64{1, 1, 1, 1}, NMax: 4,
		MaxBytes: 3000, EvMaxBytes: 3000, genesisTime: time.Date(2024, 1, 1, 0, 0, 0, 0, time.UTC)}
	evp := &stubEvPool{}
	mp := &fillMempool{mode: 0, r: rand.New(rand.NewSource(1))}
	ch := chaingen.New(cfg.options(1, mp, evp))
	defer ch.Close()
	evp.items = makeEvidence(ch, rand.New(rand.NewSource(2)), 8)
	evp.full = true
	var pan interface{}
	func() {
		defer func() { pan = recover() }()
		ch.Exec.CreateProposalBlock(1, ch.State, ch.LastCommit(), ch.State.Validators.Validators[0].Address)
	}()
	c.Count(fmt.Sprintf("explore.proposal with Evidence.MaxBytes = Block.MaxBytes and a full evidence pool: panicked=%v", pan != nil), 1)
}

type replayCase struct {
	Stream string `json:"stream"`
	Case   int    `json:"case"`
}

type job struct {
	stream string
	idx    int
}

func Run(c *verdict.Ctx) int {
	c.Level = "exploration"
	c.Rule = "a case is (chain index, height, perturbation | proposal mode | replica step) or (real-mempool scenario, proposal number) or (vote-set scenario, height): a call of the real ValidateBlock / CreateProposalBlock / ApplyBlock whose outcome is compared with the reference predicate, the size limits or the second replica; distinct by that triple; non-trivial because every chain has its own validator set, powers, commit flags and timestamps, parameters and churn"
	c.Assume("SHA-256, ed25519 (standard library) and the generated protobuf marshallers are shared with the implementation",
		"the weighted-median convention is the one stated in DESIGN.md C06 (earliest time reaching floor(T'/2) of the signed power, nil votes included)",
		"evidence admissibility is not judged here: the installed evidence pool admits everything, only the hash binding and the byte limit are compared",
		"evidence size = protobuf size of the evidence list as embedded in the block",
		"commits whose slot addresses differ from the validator at that index, absent slots that keep other fields, and non-signature fields of the empty first commit are recorded as exploratory only",
		"app hashes <= 32 bytes and chain ids <= 50 bytes (header size budget)",
		"real-mempool stage: the application accepts every generated transaction with gas 1 and Block.MaxGas = -1, so only the byte budget limits a reap")
	heights := 12
	var jobsList []job
	if p := c.Replay(); p != "" {
		var rc replayCase
		if err := verdict.LoadReplay(p, &rc); err != nil {
			c.HarnessError("cannot load replay file: %v", err)
			return c.Finish(0)
		}
		if rc.Stream == "" {
			rc.Stream = "chain"
		}
		jobsList = []job{{rc.Stream, rc.Case}}
	} else {
		n := c.N(150, 5000)
		// the few long cases first, so that they do not form the tail
		for i := 0; i < n; i++ {
			if i%40 == 4 {
				jobsList = append(jobsList, job{"chain", i})
			}
		}
		for i, m := 0, c.N(144, 3000); i < m; i++ {
			jobsList = append(jobsList, job{"realpool", i})
		}
		for i, m := 0, c.N(120, 4000); i < m; i++ {
			jobsList = append(jobsList, job{"voteset", i})
		}
		for i := 0; i < n; i++ {
			if i%40 != 4 {
				jobsList = append(jobsList, job{"chain", i})
			}
		}
	}
	workers := runtime.NumCPU()
	if workers > 16 {
		workers = 16
	}
	jobs := make(chan job)
	var wg sync.WaitGroup
	for w := 0; w < workers; w++ {
		wg.Add(1)
		go func() {
			defer wg.Done()
			for j := range jobs {
				func() {
					defer func() {
						if rec := recover(); rec != nil {
							buf := make([]byte, 4096)
							buf = buf[:runtime.Stack(buf, false)]
							c.HarnessError("%s case %d panicked: %v\n%s", j.stream, j.idx, rec, buf)
						}
					}()
					switch j.stream {
					case "realpool":
						runRealPool(c, j.idx)
						return
					case "voteset":
						runVoteSet(c, j.idx)
						return
					}
					r := c.Rand("chain", j.idx)
					k := &chainRun{c: c, r: r, cfg: genCase(r, j.idx, heights)}
					k.run()
				}()
			}
		}()
	}
	for _, j := range jobsList {
		jobs <- j
	}
	close(jobs)
	wg.Wait()
	if c.Replay() == "" {
		evidencePanicProbe(c)
		if c.Counter("realpool.blocks") == 0 {
			c.HarnessError("the real-mempool stage produced no proposer block")
		}
		if c.Counter("votesetcommit.commits made") == 0 {
			c.HarnessError("the vote-set commit stage made no commit")
		}
	}
	min := 10000
	if c.Replay() != "" {
		min = 0
	}
	return c.Finish(min)
}
