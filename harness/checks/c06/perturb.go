package c06

// Single-field perturbations of an honest block.  Every perturbation is built
// on a deep copy with fresh (un-memoised) Data / EvidenceData / Commit values.
// "fixed" variants re-derive the dependent hashes (and, where stated, the
// median time) so that the perturbed field is the only inconsistency; "raw"
// variants leave them stale.

import (
	"fmt"
	"math/big"
	"math/rand"
	"time"

	tmproto "github.com/tendermint/tendermint/proto/tendermint/types"
	sm "github.com/tendermint/tendermint/state"
	"github.com/tendermint/tendermint/types"

	"verif/chaingen"
)

type pert struct {
	name    string
	block   *types.Block
	state   *sm.State // nil: the chain state
	explore bool      // outcome recorded, not compared (statement does not decide)
}

func cpb(b []byte) []byte {
	if b == nil {
		return nil
	}
	return append([]byte{}, b...)
}

func cloneCommit(c *types.Commit) *types.Commit {
	if c == nil {
		return nil
	}
	sigs := make([]types.CommitSig, len(c.Signatures))
	for i, s := range c.Signatures {
		sigs[i] = types.CommitSig{BlockIDFlag: s.BlockIDFlag, ValidatorAddress: cpb(s.ValidatorAddress), Timestamp: s.Timestamp, Signature: cpb(s.Signature)}
	}
	if len(sigs) == 0 {
		sigs = nil
	}
	return types.NewCommit(c.Height, c.Round, cloneBlockID(c.BlockID), sigs)
}

func cloneBlockID(id types.BlockID) types.BlockID {
	return types.BlockID{Hash: cpb(id.Hash), PartSetHeader: types.PartSetHeader{Total: id.PartSetHeader.Total, Hash: cpb(id.PartSetHeader.Hash)}}
}

func cloneBlock(b *types.Block) *types.Block {
	h := b.Header
	h.LastBlockID = cloneBlockID(h.LastBlockID)
	h.LastCommitHash, h.DataHash, h.ValidatorsHash = cpb(h.LastCommitHash), cpb(h.DataHash), cpb(h.ValidatorsHash)
	h.NextValidatorsHash, h.ConsensusHash, h.AppHash = cpb(h.NextValidatorsHash), cpb(h.ConsensusHash), cpb(h.AppHash)
	h.LastResultsHash, h.EvidenceHash, h.ProposerAddress = cpb(h.LastResultsHash), cpb(h.EvidenceHash), cpb(h.ProposerAddress)
	txs := make(types.Txs, len(b.Data.Txs))
	for i, tx := range b.Data.Txs {
		txs[i] = cpb(tx)
	}
	evs := append(types.EvidenceList{}, b.Evidence.Evidence...)
	return &types.Block{Header: h, Data: types.Data{Txs: txs}, Evidence: types.EvidenceData{Evidence: evs}, LastCommit: cloneCommit(b.LastCommit)}
}

// fixHashes re-derives the three content hashes.
func fixHashes(b *types.Block) {
	b.DataHash = refTxsHash(b.Data.Txs)
	b.EvidenceHash = refEvidenceHash(b.Evidence.Evidence)
	b.LastCommitHash = refCommitHash(b.LastCommit)
}

func flipBit(r *rand.Rand, b []byte) []byte {
	out := cpb(b)
	if len(out) == 0 {
		out = make([]byte, 32)
		r.Read(out)
		return out
	}
	out[r.Intn(len(out))] ^= 1 << uint(r.Intn(8))
	return out
}

func randBytes(r *rand.Rand, n int) []byte {
	b := make([]byte, n)
	r.Read(b)
	return b
}

// unweighted median (same convention, all weights 1) and mean of the non-absent timestamps
func altTimes(c *types.Commit) (unweighted, mean time.Time, ok bool) {
	var ts []time.Time
	for _, s := range c.Signatures {
		if s.BlockIDFlag != flagAbsent {
			ts = append(ts, s.Timestamp)
		}
	}
	if len(ts) == 0 {
		return
	}
	one := &types.Commit{Signatures: make([]types.CommitSig, len(ts))}
	vals := &types.ValidatorSet{Validators: make([]*types.Validator, len(ts))}
	sum := new(big.Int)
	for i, t := range ts {
		one.Signatures[i] = types.CommitSig{BlockIDFlag: flagCommit, Timestamp: t}
		vals.Validators[i] = &types.Validator{VotingPower: 1}
		sum.Add(sum, big.NewInt(t.UnixNano()))
	}
	unweighted, _ = refMedian(one, vals)
	mean = time.Unix(0, sum.Quo(sum, big.NewInt(int64(len(ts)))).Int64()).UTC()
	return unweighted, mean, true
}

type pertGen struct {
	r     *rand.Rand
	ch    *chaingen.Chain
	st    sm.State
	base  *types.Block
	first bool
	evs   []types.Evidence
	out   []pert
	slots int // how many commit slots to perturb individually
}

func (g *pertGen) add(name string, explore bool, f func(b *types.Block)) {
	b := cloneBlock(g.base)
	f(b)
	g.out = append(g.out, pert{name: name, block: b, explore: explore})
}

func (g *pertGen) header() {
	r, st := g.r, g.st
	g.add("version.block+1", false, func(b *types.Block) { b.Version.Block++ })
	g.add("version.block=0", false, func(b *types.Block) { b.Version.Block = 0 })
	g.add("version.app+1", false, func(b *types.Block) { b.Version.App++ })
	g.add("version.app-1", false, func(b *types.Block) { b.Version.App-- })
	g.add("chainid+char", false, func(b *types.Block) { b.ChainID += "x" })
	g.add("chainid.flip", false, func(b *types.Block) {
		c := []byte(b.ChainID)
		c[r.Intn(len(c))] ^= 1
		b.ChainID = string(c)
	})
	g.add("chainid.empty", false, func(b *types.Block) { b.ChainID = "" })
	g.add("chainid.51bytes", false, func(b *types.Block) { b.ChainID = fmt.Sprintf("%-51s", b.ChainID) })
	g.add("chainid.truncated", false, func(b *types.Block) { b.ChainID = b.ChainID[:len(b.ChainID)-1] })
	for _, d := range []int64{-1, 1, 2} {
		d := d
		g.add(fmt.Sprintf("height%+d", d), false, func(b *types.Block) { b.Height += d })
	}
	g.add("height=0", false, func(b *types.Block) { b.Height = 0 })
	g.add("height=-height", false, func(b *types.Block) { b.Height = -b.Height })
	g.add("height=initial", false, func(b *types.Block) { b.Height = st.InitialHeight })
	g.add("height=1", false, func(b *types.Block) { b.Height = 1 })
	// time
	for _, d := range []time.Duration{-1, 1, -time.Second, time.Second} {
		d := d
		g.add(fmt.Sprintf("time%+dns", int64(d)), false, func(b *types.Block) { b.Time = b.Time.Add(d) })
	}
	for _, d := range []time.Duration{-1, 0, 1} {
		d := d
		g.add(fmt.Sprintf("time=prevblock%+dns", int64(d)), false, func(b *types.Block) { b.Time = st.LastBlockTime.Add(d) })
	}
	g.add("time=zero", false, func(b *types.Block) { b.Time = time.Time{} })
	g.add("time.other-zone", true, func(b *types.Block) { b.Time = b.Time.In(time.FixedZone("x", 3600)) }) // same instant, not representable on the wire
	if !g.first {
		if uw, mean, ok := altTimes(g.base.LastCommit); ok {
			g.add("time=unweighted-median", false, func(b *types.Block) { b.Time = uw })
			g.add("time=mean", false, func(b *types.Block) { b.Time = mean })
		}
		// earliest / latest vote time
		var lo, hi time.Time
		for _, s := range g.base.LastCommit.Signatures {
			if s.BlockIDFlag == flagAbsent {
				continue
			}
			if lo.IsZero() || s.Timestamp.Before(lo) {
				lo = s.Timestamp
			}
			if s.Timestamp.After(hi) {
				hi = s.Timestamp
			}
		}
		g.add("time=earliest-vote", false, func(b *types.Block) { b.Time = lo })
		g.add("time=latest-vote", false, func(b *types.Block) { b.Time = hi })
	}
	// last block id
	g.add("lastblockid.hash-flip", false, func(b *types.Block) { b.LastBlockID.Hash = flipBit(r, b.LastBlockID.Hash) })
	g.add("lastblockid.total+1", false, func(b *types.Block) { b.LastBlockID.PartSetHeader.Total++ })
	g.add("lastblockid.partshash-flip", false, func(b *types.Block) {
		b.LastBlockID.PartSetHeader.Hash = flipBit(r, b.LastBlockID.PartSetHeader.Hash)
	})
	g.add("lastblockid=zero", false, func(b *types.Block) { b.LastBlockID = types.BlockID{} })
	g.add("lastblockid=random", false, func(b *types.Block) {
		b.LastBlockID = types.BlockID{Hash: randBytes(r, 32), PartSetHeader: types.PartSetHeader{Total: 1, Hash: randBytes(r, 32)}}
	})
	// hash fields
	type hf struct {
		name string
		get  func(b *types.Block) *[]byte
	}
	hb := func(p *[]byte) *[]byte { return p }
	fields := []hf{
		{"lastcommithash", func(b *types.Block) *[]byte { return hb((*[]byte)(&b.LastCommitHash)) }},
		{"datahash", func(b *types.Block) *[]byte { return hb((*[]byte)(&b.DataHash)) }},
		{"validatorshash", func(b *types.Block) *[]byte { return hb((*[]byte)(&b.ValidatorsHash)) }},
		{"nextvalidatorshash", func(b *types.Block) *[]byte { return hb((*[]byte)(&b.NextValidatorsHash)) }},
		{"consensushash", func(b *types.Block) *[]byte { return hb((*[]byte)(&b.ConsensusHash)) }},
		{"apphash", func(b *types.Block) *[]byte { return hb((*[]byte)(&b.AppHash)) }},
		{"lastresultshash", func(b *types.Block) *[]byte { return hb((*[]byte)(&b.LastResultsHash)) }},
		{"evidencehash", func(b *types.Block) *[]byte { return hb((*[]byte)(&b.EvidenceHash)) }},
	}
	for _, f := range fields {
		f := f
		g.add(f.name+".flip", false, func(b *types.Block) { p := f.get(b); *p = flipBit(r, *p) })
		g.add(f.name+".empty", false, func(b *types.Block) { *f.get(b) = []byte{} })
		g.add(f.name+".random32", false, func(b *types.Block) { *f.get(b) = randBytes(r, 32) })
		g.add(f.name+".truncated", false, func(b *types.Block) {
			p := f.get(b)
			if len(*p) > 0 {
				*p = (*p)[:len(*p)-1]
			} else {
				*p = randBytes(r, 31)
			}
		})
		g.add(f.name+".extended", false, func(b *types.Block) { p := f.get(b); *p = append(cpb(*p), byte(r.Intn(256))) })
	}
	g.add("datahash.nil", true, func(b *types.Block) { b.DataHash = nil })
	g.add("validatorshash=nextvalidatorshash", false, func(b *types.Block) { b.ValidatorsHash = cpb(b.NextValidatorsHash) })
	g.add("nextvalidatorshash=validatorshash", false, func(b *types.Block) { b.NextValidatorsHash = cpb(b.ValidatorsHash) })
	g.add("validatorshash=lastvalidators", false, func(b *types.Block) { b.ValidatorsHash = refValsHash(st.LastValidators) })
	g.add("consensushash=other-params", false, func(b *types.Block) {
		p := st.ConsensusParams
		p.Block.MaxBytes++
		b.ConsensusHash = refParamsHash(p)
	})
	g.add("consensushash=other-gas", false, func(b *types.Block) {
		p := st.ConsensusParams
		p.Block.MaxGas++
		b.ConsensusHash = refParamsHash(p)
	})
	g.add("apphash.random-len", false, func(b *types.Block) { b.AppHash = randBytes(r, r.Intn(41)) })
	// proposer
	vals := st.Validators.Validators
	for k, i := range r.Perm(len(vals)) {
		if k >= 4 {
			break
		}
		i := i
		g.add("proposer=another-member", false, func(b *types.Block) { b.ProposerAddress = cpb(vals[i].Address) })
	}
	g.add("proposer=random", false, func(b *types.Block) { b.ProposerAddress = randBytes(r, 20) })
	g.add("proposer.flip", false, func(b *types.Block) { b.ProposerAddress = flipBit(r, b.ProposerAddress) })
	g.add("proposer.19bytes", false, func(b *types.Block) { b.ProposerAddress = b.ProposerAddress[:19] })
	g.add("proposer.21bytes", false, func(b *types.Block) { b.ProposerAddress = append(b.ProposerAddress, 0) })
	g.add("proposer.empty", false, func(b *types.Block) { b.ProposerAddress = []byte{} })
	inCur := map[string]bool{}
	for _, v := range vals {
		inCur[string(v.Address)] = true
	}
	for _, v := range st.LastValidators.Validators {
		if !inCur[string(v.Address)] {
			v := v
			g.add("proposer=member-of-last-set-only", false, func(b *types.Block) { b.ProposerAddress = cpb(v.Address) })
			break
		}
	}
	for _, v := range st.NextValidators.Validators {
		if !inCur[string(v.Address)] {
			v := v
			g.add("proposer=member-of-next-set-only", false, func(b *types.Block) { b.ProposerAddress = cpb(v.Address) })
			break
		}
	}
}

func (g *pertGen) data() {
	r := g.r
	for _, fixed := range []bool{false, true} {
		fixed := fixed
		sfx := ".raw"
		if fixed {
			sfx = ".fixed"
		}
		fin := func(b *types.Block) {
			if fixed {
				fixHashes(b)
			}
		}
		g.add("txs.add"+sfx, false, func(b *types.Block) {
			b.Data.Txs = append(b.Data.Txs, types.Tx(fmt.Sprintf("extra%d", r.Int())))
			fin(b)
		})
		g.add("txs.add-front"+sfx, false, func(b *types.Block) {
			b.Data.Txs = append(types.Txs{types.Tx("front")}, b.Data.Txs...)
			fin(b)
		})
		if n := len(g.base.Data.Txs); n > 0 {
			g.add("txs.drop"+sfx, false, func(b *types.Block) {
				i := r.Intn(n)
				b.Data.Txs = append(b.Data.Txs[:i:i], b.Data.Txs[i+1:]...)
				fin(b)
			})
			g.add("txs.flip"+sfx, false, func(b *types.Block) {
				i := r.Intn(n)
				b.Data.Txs[i] = flipBit(r, b.Data.Txs[i])
				fin(b)
			})
			g.add("txs.duplicate"+sfx, false, func(b *types.Block) {
				b.Data.Txs = append(b.Data.Txs, cpb(b.Data.Txs[r.Intn(n)]))
				fin(b)
			})
			g.add("txs.clear"+sfx, false, func(b *types.Block) { b.Data.Txs = nil; fin(b) })
		}
		if n := len(g.base.Data.Txs); n > 1 {
			g.add("txs.swap"+sfx, false, func(b *types.Block) {
				i := r.Intn(n - 1)
				b.Data.Txs[i], b.Data.Txs[i+1] = b.Data.Txs[i+1], b.Data.Txs[i]
				fin(b)
			})
		}
	}
}

// evidence: the pool installed by the harness admits everything, so only the
// hash binding and the byte limit decide.
func (g *pertGen) evidence() {
	if len(g.evs) == 0 {
		return
	}
	st := g.st
	g.add("evidence.add.raw", false, func(b *types.Block) { b.Evidence.Evidence = append(b.Evidence.Evidence, g.evs[0]) })
	limit := st.ConsensusParams.Evidence.MaxBytes
	// longest prefix within the limit, and one more
	var within types.EvidenceList
	for _, ev := range g.evs {
		if sz, _ := refEvidenceSize(append(within[:len(within):len(within)], ev)); sz > limit {
			break
		}
		within = append(within, ev)
	}
	if len(within) > 0 {
		g.add("evidence.within-limit.fixed", false, func(b *types.Block) { b.Evidence.Evidence = within; fixHashes(b) })
	}
	if len(within) < len(g.evs) {
		over := append(within[:len(within):len(within)], g.evs[len(within)])
		g.add("evidence.over-limit.fixed", false, func(b *types.Block) { b.Evidence.Evidence = over; fixHashes(b) })
		g.add("evidence.over-limit.raw", false, func(b *types.Block) { b.Evidence.Evidence = over })
	}
	// exact boundary: the same blocks are reachable on the sibling chain whose
	// genesis sets Evidence.MaxBytes to any other value (no block commits to it)
	k := 1 + g.r.Intn(len(g.evs))
	list := append(types.EvidenceList{}, g.evs[:k]...)
	sz, _ := refEvidenceSize(list)
	if sz <= st.ConsensusParams.Block.MaxBytes {
		for _, d := range []int64{-1, 0, 1} {
			s2 := st.Copy()
			s2.ConsensusParams.Evidence.MaxBytes = sz + d
			b := cloneBlock(g.base)
			b.Evidence.Evidence = list
			fixHashes(b)
			g.out = append(g.out, pert{name: fmt.Sprintf("evidence.size=limit%+d.fixed", -d), block: b, state: &s2})
		}
	}
}

func (g *pertGen) resign(vals *types.ValidatorSet, height int64, round int32, id types.BlockID, flags []types.BlockIDFlag, ts []time.Time) *types.Commit {
	return g.ch.SignCommit(vals, height, round, id, func(i int, _ *types.Validator) types.BlockIDFlag { return flags[i] },
		func(i int) time.Time { return ts[i] })
}

func (g *pertGen) commitFirst() {
	r, st := g.r, g.st
	vals := st.Validators
	g.add("first.commit+absent-slot.fixed", false, func(b *types.Block) {
		b.LastCommit = types.NewCommit(0, 0, types.BlockID{}, []types.CommitSig{types.NewCommitSigAbsent()})
		fixHashes(b)
	})
	g.add("first.commit+signed-slot.fixed", false, func(b *types.Block) {
		id := types.BlockID{Hash: randBytes(r, 32), PartSetHeader: types.PartSetHeader{Total: 1, Hash: randBytes(r, 32)}}
		v := g.ch.SignVote(vals, 0, tmproto.PrecommitType, 0, 0, id, st.LastBlockTime)
		b.LastCommit = types.NewCommit(0, 0, id, []types.CommitSig{v.CommitSig()})
		fixHashes(b)
	})
	if b0 := g.base; b0.Height > 1 {
		g.add("first.commit=full-commit-of-current-set.fixed", false, func(b *types.Block) {
			id := types.BlockID{Hash: randBytes(r, 32), PartSetHeader: types.PartSetHeader{Total: 1, Hash: randBytes(r, 32)}}
			b.LastCommit = g.ch.SignCommit(vals, b.Height-1, 0, id, nil, func(int) time.Time { return st.LastBlockTime })
			fixHashes(b)
		})
	}
	// fields of the empty commit that no hash commits to: statement silent
	g.add("first.commit.round=3", true, func(b *types.Block) { b.LastCommit = types.NewCommit(0, 3, types.BlockID{}, nil) })
	g.add("first.commit.blockid-set", true, func(b *types.Block) {
		b.LastCommit = types.NewCommit(0, 0, types.BlockID{Hash: randBytes(r, 32), PartSetHeader: types.PartSetHeader{Total: 1, Hash: randBytes(r, 32)}}, nil)
	})
}

func (g *pertGen) commit() {
	r, st := g.r, g.st
	lv := st.LastValidators
	lc := g.base.LastCommit
	n := len(lc.Signatures)
	hPrev := g.base.Height - 1
	withMedian := func(b *types.Block) {
		if m, ok := refMedian(b.LastCommit, lv); ok {
			b.Time = m
		}
	}
	sign := func(i int, flag types.BlockIDFlag, round int32, id types.BlockID, ts time.Time) types.CommitSig {
		if flag == types.BlockIDFlagNil {
			id = types.BlockID{}
		}
		v := g.ch.SignVote(lv, i, tmproto.PrecommitType, hPrev, round, id, ts)
		cs := v.CommitSig()
		cs.BlockIDFlag = flag
		return cs
	}
	// ---- per slot
	slots := r.Perm(n)
	if len(slots) > g.slots {
		slots = slots[:g.slots]
	}
	for _, i := range slots {
		i := i
		s := lc.Signatures[i]
		p := fmt.Sprintf("slot#%d[%s].", i, map[types.BlockIDFlag]string{1: "absent", 2: "commit", 3: "nil"}[s.BlockIDFlag])
		if s.BlockIDFlag == types.BlockIDFlagAbsent {
			g.add(p+"flag=commit-unsigned.fixed", false, func(b *types.Block) {
				b.LastCommit.Signatures[i].BlockIDFlag = types.BlockIDFlagCommit
				fixHashes(b)
			})
			g.add(p+"flag=commit+addr+garbage-sig.fixed", false, func(b *types.Block) {
				b.LastCommit.Signatures[i] = types.CommitSig{BlockIDFlag: types.BlockIDFlagCommit, ValidatorAddress: cpb(lv.Validators[i].Address),
					Timestamp: b.Time, Signature: randBytes(r, 64)}
				fixHashes(b)
			})
			for _, fl := range []types.BlockIDFlag{types.BlockIDFlagCommit, types.BlockIDFlagNil} {
				fl := fl
				g.add(fmt.Sprintf("%snow-signed(flag %d).fixed+median", p, fl), false, func(b *types.Block) {
					b.LastCommit.Signatures[i] = sign(i, fl, lc.Round, lc.BlockID, b.Time.Add(time.Duration(r.Intn(1000))))
					fixHashes(b)
					withMedian(b)
				})
			}
			g.add(p+"timestamp-set.fixed", true, func(b *types.Block) {
				b.LastCommit.Signatures[i].Timestamp = b.Time
				fixHashes(b)
			})
			continue
		}
		g.add(p+"sig.flip.raw", false, func(b *types.Block) {
			b.LastCommit.Signatures[i].Signature = flipBit(r, b.LastCommit.Signatures[i].Signature)
		})
		g.add(p+"sig.flip.fixed", false, func(b *types.Block) {
			b.LastCommit.Signatures[i].Signature = flipBit(r, b.LastCommit.Signatures[i].Signature)
			fixHashes(b)
		})
		g.add(p+"sig.empty.fixed", false, func(b *types.Block) { b.LastCommit.Signatures[i].Signature = nil; fixHashes(b) })
		g.add(p+"sig.63bytes.fixed", false, func(b *types.Block) {
			b.LastCommit.Signatures[i].Signature = b.LastCommit.Signatures[i].Signature[:63]
			fixHashes(b)
		})
		g.add(p+"sig.65bytes.fixed", false, func(b *types.Block) {
			b.LastCommit.Signatures[i].Signature = append(b.LastCommit.Signatures[i].Signature, 0)
			fixHashes(b)
		})
		if n > 1 {
			g.add(p+"sig.by-another-validator.fixed", false, func(b *types.Block) {
				j := (i + 1 + r.Intn(n-1)) % n
				o := sign(j, s.BlockIDFlag, lc.Round, lc.BlockID, s.Timestamp)
				b.LastCommit.Signatures[i].Signature = o.Signature
				fixHashes(b)
			})
		}
		for _, d := range []time.Duration{-1, 1} {
			d := d
			g.add(fmt.Sprintf("%stimestamp%+dns.fixed", p, int64(d)), false, func(b *types.Block) {
				b.LastCommit.Signatures[i].Timestamp = s.Timestamp.Add(d)
				fixHashes(b)
			})
		}
		for _, d := range []time.Duration{-1, 1, -2 * time.Second, 2 * time.Second} {
			d := d
			g.add(fmt.Sprintf("%sresigned-timestamp%+dns.fixed", p, int64(d)), false, func(b *types.Block) {
				b.LastCommit.Signatures[i] = sign(i, s.BlockIDFlag, lc.Round, lc.BlockID, s.Timestamp.Add(d))
				fixHashes(b)
			})
			g.add(fmt.Sprintf("%sresigned-timestamp%+dns.fixed+median", p, int64(d)), false, func(b *types.Block) {
				b.LastCommit.Signatures[i] = sign(i, s.BlockIDFlag, lc.Round, lc.BlockID, s.Timestamp.Add(d))
				fixHashes(b)
				withMedian(b)
			})
		}
		other := types.BlockIDFlagNil
		if s.BlockIDFlag == types.BlockIDFlagNil {
			other = types.BlockIDFlagCommit
		}
		g.add(p+"flag-switched-commit/nil.fixed", false, func(b *types.Block) { b.LastCommit.Signatures[i].BlockIDFlag = other; fixHashes(b) })
		g.add(p+"flag-switched-commit/nil-resigned.fixed", false, func(b *types.Block) {
			b.LastCommit.Signatures[i] = sign(i, other, lc.Round, lc.BlockID, s.Timestamp)
			fixHashes(b)
		})
		g.add(p+"flag=0.fixed", false, func(b *types.Block) { b.LastCommit.Signatures[i].BlockIDFlag = 0; fixHashes(b) })
		g.add(p+"flag=4.fixed", false, func(b *types.Block) { b.LastCommit.Signatures[i].BlockIDFlag = 4; fixHashes(b) })
		g.add(p+"made-absent.fixed", false, func(b *types.Block) {
			b.LastCommit.Signatures[i] = types.NewCommitSigAbsent()
			fixHashes(b)
		})
		g.add(p+"made-absent.fixed+median", false, func(b *types.Block) {
			b.LastCommit.Signatures[i] = types.NewCommitSigAbsent()
			fixHashes(b)
			withMedian(b)
		})
		g.add(p+"flag=absent-fields-kept.fixed", true, func(b *types.Block) {
			b.LastCommit.Signatures[i].BlockIDFlag = types.BlockIDFlagAbsent
			fixHashes(b)
		})
		g.add(p+"addr.19bytes.fixed", false, func(b *types.Block) {
			b.LastCommit.Signatures[i].ValidatorAddress = b.LastCommit.Signatures[i].ValidatorAddress[:19]
			fixHashes(b)
		})
		g.add(p+"addr.empty.fixed", false, func(b *types.Block) { b.LastCommit.Signatures[i].ValidatorAddress = nil; fixHashes(b) })
		// address-vs-index: exploratory
		if n > 1 {
			g.add(p+"addr=another-validator.fixed", true, func(b *types.Block) {
				j := (i + 1 + r.Intn(n-1)) % n
				b.LastCommit.Signatures[i].ValidatorAddress = cpb(lv.Validators[j].Address)
				fixHashes(b)
			})
		}
		g.add(p+"addr=unknown.fixed", true, func(b *types.Block) {
			b.LastCommit.Signatures[i].ValidatorAddress = randBytes(r, 20)
			fixHashes(b)
		})
	}
	// ---- whole commit
	g.add("commit.height+1", false, func(b *types.Block) { b.LastCommit.Height++ })
	g.add("commit.height-1", false, func(b *types.Block) { b.LastCommit.Height-- })
	g.add("commit.height=0", false, func(b *types.Block) { b.LastCommit.Height = 0 })
	g.add("commit.round+1", false, func(b *types.Block) { b.LastCommit.Round++ })
	g.add("commit.round=-1", false, func(b *types.Block) { b.LastCommit.Round = -1 })
	g.add("commit.blockid.hash-flip", false, func(b *types.Block) { b.LastCommit.BlockID.Hash = flipBit(r, b.LastCommit.BlockID.Hash) })
	g.add("commit.blockid.total+1", false, func(b *types.Block) { b.LastCommit.BlockID.PartSetHeader.Total++ })
	g.add("commit.blockid.partshash-flip", false, func(b *types.Block) {
		b.LastCommit.BlockID.PartSetHeader.Hash = flipBit(r, b.LastCommit.BlockID.PartSetHeader.Hash)
	})
	g.add("commit.blockid=zero", false, func(b *types.Block) { b.LastCommit.BlockID = types.BlockID{} })
	g.add("commit=empty.fixed", false, func(b *types.Block) { b.LastCommit = types.NewCommit(0, 0, types.BlockID{}, nil); fixHashes(b) })
	g.add("commit.slots-truncated.fixed", false, func(b *types.Block) {
		b.LastCommit.Signatures = b.LastCommit.Signatures[:n-1]
		fixHashes(b)
	})
	g.add("commit.slots+absent.fixed", false, func(b *types.Block) {
		b.LastCommit.Signatures = append(b.LastCommit.Signatures, types.NewCommitSigAbsent())
		fixHashes(b)
	})
	g.add("commit.slots+duplicate.fixed", false, func(b *types.Block) {
		b.LastCommit.Signatures = append(b.LastCommit.Signatures, b.LastCommit.Signatures[r.Intn(n)])
		fixHashes(b)
	})
	if n > 1 {
		g.add("commit.slots-swapped.fixed", true, func(b *types.Block) {
			i := r.Intn(n - 1)
			s := b.LastCommit.Signatures
			s[i], s[i+1] = s[i+1], s[i]
			fixHashes(b)
		})
	}
	g.add("commit.all-absent.fixed", false, func(b *types.Block) {
		for i := range b.LastCommit.Signatures {
			b.LastCommit.Signatures[i] = types.NewCommitSigAbsent()
		}
		fixHashes(b)
	})
	// a whole new commit for the same block in another round: valid (no hash commits to the round)
	flags := make([]types.BlockIDFlag, n)
	ts := make([]time.Time, n)
	for i, s := range lc.Signatures {
		flags[i], ts[i] = s.BlockIDFlag, s.Timestamp
		if s.BlockIDFlag == types.BlockIDFlagAbsent {
			ts[i] = g.base.Time // used only when a variant makes the slot sign
		}
	}
	otherRound := lc.Round + 1
	if otherRound < 0 {
		otherRound = lc.Round - 1
	}
	g.add("commit.resigned-other-round.fixed", false, func(b *types.Block) {
		b.LastCommit = g.resign(lv, hPrev, otherRound, lc.BlockID, flags, ts)
		fixHashes(b)
	})
	g.add("commit.resigned-other-height.fixed", false, func(b *types.Block) {
		b.LastCommit = g.resign(lv, hPrev+1, lc.Round, lc.BlockID, flags, ts)
		fixHashes(b)
	})
	g.add("commit.resigned-other-block.fixed", false, func(b *types.Block) {
		id := cloneBlockID(lc.BlockID)
		id.Hash = flipBit(r, id.Hash)
		b.LastCommit = g.resign(lv, hPrev, lc.Round, id, flags, ts)
		fixHashes(b)
	})
	g.add("commit.resigned-other-chain.fixed", false, func(b *types.Block) {
		saved := g.ch.ChainID
		g.ch.ChainID = saved + "x"
		b.LastCommit = g.resign(lv, hPrev, lc.Round, lc.BlockID, flags, ts)
		g.ch.ChainID = saved
		fixHashes(b)
	})
	// tally boundary: for-block power just above / at-or-below two thirds
	total := new(big.Int)
	for _, v := range lv.Validators {
		total.Add(total, big.NewInt(v.VotingPower))
	}
	perm := r.Perm(n)
	sum := new(big.Int)
	var chosen []int
	for _, i := range perm {
		if new(big.Int).Mul(big.NewInt(3), sum).Cmp(new(big.Int).Mul(big.NewInt(2), total)) > 0 {
			break
		}
		chosen = append(chosen, i)
		sum.Add(sum, big.NewInt(lv.Validators[i].VotingPower))
	}
	for _, drop := range []int{0, 1} {
		drop := drop
		rest := types.BlockIDFlag(types.BlockIDFlagAbsent + types.BlockIDFlag(2*r.Intn(2))) // absent or nil
		g.add(fmt.Sprintf("commit.tally-minimal-majority-minus-%d(rest flag %d).fixed+median", drop, rest), false, func(b *types.Block) {
			fl := make([]types.BlockIDFlag, n)
			for i := range fl {
				fl[i] = rest
			}
			for _, i := range chosen[:len(chosen)-drop] {
				fl[i] = types.BlockIDFlagCommit
			}
			b.LastCommit = g.resign(lv, hPrev, lc.Round, lc.BlockID, fl, ts)
			fixHashes(b)
			withMedian(b)
		})
	}
	// median placed at the previous block time -1, 0, +1 ns
	for _, d := range []time.Duration{-1, 0, 1} {
		d := d
		target := st.LastBlockTime.Add(d)
		g.add(fmt.Sprintf("commit.resigned-all-times=prevblock%+dns.fixed+median", int64(d)), false, func(b *types.Block) {
			t2 := make([]time.Time, n)
			for i := range t2 {
				t2[i] = target
			}
			b.LastCommit = g.resign(lv, hPrev, lc.Round, lc.BlockID, flags, t2)
			fixHashes(b)
			b.Time = target
		})
		g.add(fmt.Sprintf("commit.resigned-spread-median=prevblock%+dns.fixed+median", int64(d)), false, func(b *types.Block) {
			// keep the order of the honest timestamps, shift them so that the honest median lands on target
			m, _ := refMedian(lc, lv)
			shift := target.Sub(m)
			t2 := make([]time.Time, n)
			for i := range t2 {
				t2[i] = ts[i].Add(shift)
			}
			b.LastCommit = g.resign(lv, hPrev, lc.Round, lc.BlockID, flags, t2)
			fixHashes(b)
			withMedian(b)
		})
	}
}

func perturbations(r *rand.Rand, ch *chaingen.Chain, st sm.State, base *types.Block, evs []types.Evidence, slots int) []pert {
	g := &pertGen{r: r, ch: ch, st: st, base: base, first: st.LastBlockHeight == 0, evs: evs, slots: slots}
	g.header()
	g.data()
	g.evidence()
	if g.first {
		g.commitFirst()
	} else {
		g.commit()
	}
	return g.out
}
