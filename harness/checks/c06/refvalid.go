package c06

// Reference block-validity predicate, written field by field from the
// statement of C06 and spec/core/data_structures.md.  It reads sm.State,
// types.Block, types.Commit and types.ValidatorSet as plain data (exported
// fields only) and shares with the implementation only: SHA-256, ed25519
// (standard library), the generated protobuf marshallers of plain messages
// (CommitSig, SimpleValidator, HashedParams, evidence) and
// cryptoenc.PubKeyToProto.  It does not call Block/Header/Commit.ValidateBasic,
// Commit.Hash, Data.Hash, ValidatorSet.Hash/VerifyCommit/GetByAddress/
// HasAddress/TotalVotingPower, types.VoteSignBytes, sm.MedianTime or
// tmtime.WeightedMedian.  The vote sign-bytes are encoded by hand.

import (
	"bytes"
	stded "crypto/ed25519"
	"crypto/sha256"
	"encoding/binary"
	"fmt"
	"math/big"
	"sort"
	"sync"
	"time"

	tmed "github.com/tendermint/tendermint/crypto/ed25519"
	cryptoenc "github.com/tendermint/tendermint/crypto/encoding"
	tmproto "github.com/tendermint/tendermint/proto/tendermint/types"
	sm "github.com/tendermint/tendermint/state"
	"github.com/tendermint/tendermint/types"
)

// ---------------------------------------------------------------- hashing

func sha(b []byte) []byte { h := sha256.Sum256(b); return h[:] }

// RFC 6962 Merkle tree: leaf = H(0x00||item), inner = H(0x01||l||r), split at
// the largest power of two strictly below n, empty tree = H("").
func merkleRoot(items [][]byte) []byte {
	switch len(items) {
	case 0:
		return sha(nil)
	case 1:
		return sha(append([]byte{0}, items[0]...))
	}
	k := 1
	for k*2 < len(items) {
		k *= 2
	}
	l, r := merkleRoot(items[:k]), merkleRoot(items[k:])
	return sha(append(append([]byte{1}, l...), r...))
}

func refTxsHash(txs types.Txs) []byte {
	leaves := make([][]byte, len(txs))
	for i, tx := range txs {
		leaves[i] = sha(tx)
	}
	return merkleRoot(leaves)
}

func refValsHash(vals *types.ValidatorSet) []byte {
	if vals == nil {
		return merkleRoot(nil)
	}
	leaves := make([][]byte, len(vals.Validators))
	for i, v := range vals.Validators {
		pk, err := cryptoenc.PubKeyToProto(v.PubKey)
		if err != nil {
			panic(err)
		}
		sv := tmproto.SimpleValidator{PubKey: &pk, VotingPower: v.VotingPower}
		bz, err := sv.Marshal()
		if err != nil {
			panic(err)
		}
		leaves[i] = bz
	}
	return merkleRoot(leaves)
}

func refParamsHash(p tmproto.ConsensusParams) []byte {
	hp := tmproto.HashedParams{BlockMaxBytes: p.Block.MaxBytes, BlockMaxGas: p.Block.MaxGas}
	bz, err := hp.Marshal()
	if err != nil {
		panic(err)
	}
	return sha(bz)
}

func refCommitHash(c *types.Commit) []byte {
	leaves := make([][]byte, len(c.Signatures))
	for i, s := range c.Signatures {
		pb := tmproto.CommitSig{BlockIdFlag: tmproto.BlockIDFlag(s.BlockIDFlag), ValidatorAddress: s.ValidatorAddress,
			Timestamp: s.Timestamp, Signature: s.Signature}
		bz, err := pb.Marshal()
		if err != nil {
			return nil // timestamp outside the protobuf range: no hash can match
		}
		leaves[i] = bz
	}
	return merkleRoot(leaves)
}

func refEvidenceHash(evs types.EvidenceList) []byte {
	leaves := make([][]byte, len(evs))
	for i, ev := range evs {
		leaves[i] = ev.Bytes()
	}
	return merkleRoot(leaves)
}

func uvarintLen(x uint64) int {
	n := 1
	for x >= 0x80 {
		x >>= 7
		n++
	}
	return n
}

// refEvidenceSize: bytes the evidence list occupies in the block encoding
// (repeated field: tag + length + body per item).
func refEvidenceSize(evs types.EvidenceList) (int64, error) {
	var total int64
	for _, ev := range evs {
		pb, err := types.EvidenceToProto(ev)
		if err != nil {
			return 0, err
		}
		n := pb.Size()
		total += int64(1 + uvarintLen(uint64(n)) + n)
	}
	return total, nil
}

// ---------------------------------------------------------------- sign bytes (hand encoded)

func putTag(b []byte, field, wire int) []byte { return append(b, byte(field<<3|wire)) }
func putUvarint(b []byte, x uint64) []byte {
	var t [binary.MaxVarintLen64]byte
	n := binary.PutUvarint(t[:], x)
	return append(b, t[:n]...)
}
func putBytes(b []byte, field int, v []byte) []byte {
	b = putTag(b, field, 2)
	b = putUvarint(b, uint64(len(v)))
	return append(b, v...)
}
func putFixed64(b []byte, field int, v int64) []byte {
	b = putTag(b, field, 1)
	var t [8]byte
	binary.LittleEndian.PutUint64(t[:], uint64(v))
	return append(b, t[:]...)
}

func isNilBlockID(id types.BlockID) bool {
	return len(id.Hash) == 0 && id.PartSetHeader.Total == 0 && len(id.PartSetHeader.Hash) == 0
}

func sameBlockID(a, b types.BlockID) bool {
	return bytes.Equal(a.Hash, b.Hash) && a.PartSetHeader.Total == b.PartSetHeader.Total &&
		bytes.Equal(a.PartSetHeader.Hash, b.PartSetHeader.Hash)
}

// refPrecommitSignBytes: uvarint(len) || CanonicalVote{1:type=2 (varint),
// 2:height (sfixed64), 3:round (sfixed64), 4:block id {1:hash, 2:{1:total,
// 2:hash}} (omitted for nil), 5:timestamp {1:seconds, 2:nanos}, 6:chain id};
// proto3: zero scalars omitted, embedded non-nullable messages always present.
func refPrecommitSignBytes(chainID string, height int64, round int32, id types.BlockID, ts time.Time) []byte {
	var m []byte
	m = putTag(m, 1, 0)
	m = putUvarint(m, 2) // SIGNED_MSG_TYPE_PRECOMMIT
	if height != 0 {
		m = putFixed64(m, 2, height)
	}
	if round != 0 {
		m = putFixed64(m, 3, int64(round))
	}
	if !isNilBlockID(id) {
		var psh []byte
		if id.PartSetHeader.Total != 0 {
			psh = putTag(psh, 1, 0)
			psh = putUvarint(psh, uint64(id.PartSetHeader.Total))
		}
		if len(id.PartSetHeader.Hash) > 0 {
			psh = putBytes(psh, 2, id.PartSetHeader.Hash)
		}
		var bid []byte
		if len(id.Hash) > 0 {
			bid = putBytes(bid, 1, id.Hash)
		}
		bid = putBytes(bid, 2, psh)
		m = putBytes(m, 4, bid)
	}
	var t []byte
	if s := ts.Unix(); s != 0 {
		t = putTag(t, 1, 0)
		t = putUvarint(t, uint64(s))
	}
	if n := ts.Nanosecond(); n != 0 {
		t = putTag(t, 2, 0)
		t = putUvarint(t, uint64(n))
	}
	m = putBytes(m, 5, t)
	if chainID != "" {
		m = putBytes(m, 6, []byte(chainID))
	}
	return append(putUvarint(nil, uint64(len(m))), m...)
}

// sigCache memoises ed25519 verification (the same honest signatures are
// checked for every perturbation of a block).
type sigCache struct {
	mu sync.Mutex
	m  map[[32]byte]bool
}

func newSigCache() *sigCache { return &sigCache{m: map[[32]byte]bool{}} }

func (c *sigCache) verify(pk []byte, msg, sig []byte) bool {
	if len(pk) != stded.PublicKeySize || len(sig) != stded.SignatureSize {
		return false
	}
	h := sha256.New()
	h.Write(pk)
	h.Write(sig)
	h.Write(msg)
	var k [32]byte
	copy(k[:], h.Sum(nil))
	if c != nil {
		c.mu.Lock()
		v, ok := c.m[k]
		c.mu.Unlock()
		if ok {
			return v
		}
	}
	v := stded.Verify(stded.PublicKey(pk), msg, sig)
	if c != nil {
		c.mu.Lock()
		c.m[k] = v
		c.mu.Unlock()
	}
	return v
}

// ---------------------------------------------------------------- commit and median

const (
	flagAbsent = 1
	flagCommit = 2
	flagNil    = 3
)

// refCommitOK: commit is a valid > 2/3 commit of vals for (height, id): one
// slot per validator, every non-absent slot carries the signature of the
// validator at that index over what its flag says, and the power flagged for
// the block exceeds two thirds of the total.
func refCommitOK(cache *sigCache, chainID string, vals *types.ValidatorSet, id types.BlockID, height int64, c *types.Commit) string {
	if c == nil {
		return "no last commit"
	}
	if len(c.Signatures) != len(vals.Validators) {
		return "commit size differs from the validator set size"
	}
	if c.Height != height {
		return "commit height"
	}
	if !sameBlockID(c.BlockID, id) {
		return "commit block id"
	}
	total, forBlock := new(big.Int), new(big.Int)
	for _, v := range vals.Validators {
		total.Add(total, big.NewInt(v.VotingPower))
	}
	for i, s := range c.Signatures {
		v := vals.Validators[i]
		var signed types.BlockID
		switch s.BlockIDFlag {
		case flagAbsent:
			continue
		case flagCommit:
			signed = id
		case flagNil:
		default:
			return fmt.Sprintf("slot %d: unknown flag", i)
		}
		if len(s.ValidatorAddress) != 20 {
			return fmt.Sprintf("slot %d: address length", i)
		}
		pk, ok := v.PubKey.(tmed.PubKey)
		if !ok {
			return "unsupported key type"
		}
		if s.Timestamp.Year() < 1 || s.Timestamp.Year() > 9999 {
			return fmt.Sprintf("slot %d: timestamp not encodable", i)
		}
		if !cache.verify(pk, refPrecommitSignBytes(chainID, height, c.Round, signed, s.Timestamp), s.Signature) {
			return fmt.Sprintf("slot %d: signature invalid", i)
		}
		if s.BlockIDFlag == flagCommit {
			forBlock.Add(forBlock, big.NewInt(v.VotingPower))
		}
	}
	l := new(big.Int).Mul(big.NewInt(3), forBlock)
	r := new(big.Int).Mul(big.NewInt(2), total)
	if l.Cmp(r) <= 0 {
		return "not more than two thirds for the block"
	}
	return ""
}

// refMedian: convention of DESIGN.md C06: over every non-absent slot (nil
// votes included), weighted by the power of the validator of that slot, the
// earliest timestamp t such that the slots with timestamp <= t carry at least
// floor(T'/2) of the signed power T'.  Slots are attributed by index; the
// callers use it only on commits whose slot addresses equal the validator at
// that index.
func refMedian(c *types.Commit, vals *types.ValidatorSet) (time.Time, bool) {
	type wt struct {
		t time.Time
		w *big.Int
	}
	var ws []wt
	total := new(big.Int)
	for i, s := range c.Signatures {
		if s.BlockIDFlag == flagAbsent || i >= len(vals.Validators) {
			continue
		}
		w := big.NewInt(vals.Validators[i].VotingPower)
		ws = append(ws, wt{s.Timestamp, w})
		total.Add(total, w)
	}
	if len(ws) == 0 {
		return time.Time{}, false
	}
	sort.SliceStable(ws, func(i, j int) bool { return ws[i].t.Before(ws[j].t) })
	half := new(big.Int).Quo(total, big.NewInt(2))
	cum := new(big.Int)
	for _, x := range ws {
		cum.Add(cum, x.w)
		if cum.Cmp(half) >= 0 {
			return x.t, true
		}
	}
	return time.Time{}, false
}

// wellFormedAddresses: every non-absent slot names the validator at its index.
func wellFormedAddresses(c *types.Commit, vals *types.ValidatorSet) bool {
	if len(c.Signatures) != len(vals.Validators) {
		return false
	}
	for i, s := range c.Signatures {
		if s.BlockIDFlag == flagAbsent {
			continue
		}
		if !bytes.Equal(s.ValidatorAddress, vals.Validators[i].Address) {
			return false
		}
	}
	return true
}

// ---------------------------------------------------------------- the predicate

// refValidBlock returns "" iff the block is acceptable in state st; otherwise
// the first clause of the statement that fails.  admissible decides the
// admissibility of one evidence item (C11's business; the harness passes the
// verdict of the evidence pool it installed).
func refValidBlock(cache *sigCache, st sm.State, b *types.Block, admissible func(types.Evidence) bool) string {
	// version, chain, height
	if b.Version.Block != st.Version.Consensus.Block || b.Version.App != st.Version.Consensus.App {
		return "version"
	}
	if b.ChainID != st.ChainID {
		return "chain id"
	}
	first := st.LastBlockHeight == 0
	want := st.LastBlockHeight + 1
	if first {
		want = st.InitialHeight
	}
	if b.Height != want {
		return "height"
	}
	// previous block
	if !sameBlockID(b.LastBlockID, st.LastBlockID) {
		return "last block id"
	}
	// hashes derived from the state
	if !bytes.Equal(b.ValidatorsHash, refValsHash(st.Validators)) {
		return "validators hash"
	}
	if !bytes.Equal(b.NextValidatorsHash, refValsHash(st.NextValidators)) {
		return "next validators hash"
	}
	if !bytes.Equal(b.ConsensusHash, refParamsHash(st.ConsensusParams)) {
		return "consensus hash"
	}
	if !bytes.Equal(b.AppHash, st.AppHash) {
		return "app hash"
	}
	if !bytes.Equal(b.LastResultsHash, st.LastResultsHash) {
		return "last results hash"
	}
	// content hashes
	if b.LastCommit == nil {
		return "no last commit"
	}
	if !bytes.Equal(b.DataHash, refTxsHash(b.Data.Txs)) {
		return "data hash"
	}
	if !bytes.Equal(b.EvidenceHash, refEvidenceHash(b.Evidence.Evidence)) {
		return "evidence hash"
	}
	if h := refCommitHash(b.LastCommit); h == nil || !bytes.Equal(b.LastCommitHash, h) {
		return "last commit hash"
	}
	// proposer is a member of the current set
	member := false
	for _, v := range st.Validators.Validators {
		if len(b.ProposerAddress) == 20 && bytes.Equal(v.Address, b.ProposerAddress) {
			member = true
		}
	}
	if !member {
		return "proposer not a validator"
	}
	// last commit and time
	if first {
		if len(b.LastCommit.Signatures) != 0 {
			return "first block carries commit signatures"
		}
		if !b.Time.Equal(st.LastBlockTime) {
			return "first block time is not the genesis time"
		}
	} else {
		if why := refCommitOK(cache, st.ChainID, st.LastValidators, st.LastBlockID, b.Height-1, b.LastCommit); why != "" {
			return "last commit: " + why
		}
		med, ok := refMedian(b.LastCommit, st.LastValidators)
		if !ok || !b.Time.Equal(med) {
			return "time is not the weighted median of the last commit"
		}
		if !b.Time.After(st.LastBlockTime) {
			return "time not later than the previous block"
		}
	}
	// evidence: size limit and admissibility
	sz, err := refEvidenceSize(b.Evidence.Evidence)
	if err != nil {
		return "evidence not encodable"
	}
	if sz > st.ConsensusParams.Evidence.MaxBytes {
		return "evidence exceeds the byte limit"
	}
	for _, ev := range b.Evidence.Evidence {
		if admissible == nil || !admissible(ev) {
			return "evidence not admissible"
		}
	}
	return ""
}

// refResultsHash: Merkle root over the deterministic part (code, data,
// gas wanted, gas used) of the DeliverTx results.
func refResultsHash(codes []uint32, datas [][]byte, gasWanted, gasUsed []int64) []byte {
	leaves := make([][]byte, len(codes))
	for i := range codes {
		var m []byte
		if codes[i] != 0 {
			m = putTag(m, 1, 0)
			m = putUvarint(m, uint64(codes[i]))
		}
		if len(datas[i]) > 0 {
			m = putBytes(m, 2, datas[i])
		}
		if gasWanted[i] != 0 {
			m = putTag(m, 5, 0)
			m = putUvarint(m, uint64(gasWanted[i]))
		}
		if gasUsed[i] != 0 {
			m = putTag(m, 6, 0)
			m = putUvarint(m, uint64(gasUsed[i]))
		}
		leaves[i] = m
	}
	return merkleRoot(leaves)
}
