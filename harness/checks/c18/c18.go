// Package c18: stored chain data stays contiguous and consistent through
// pruning and crashes (DESIGN.md section 3 "C18", section 4 row S12).
//
// Engine: the real store.BlockStore and state.Store over journaling in-memory
// databases (jdb.go), fed by the real executor (chaingen) in the order a node
// uses them: SaveBlock(h), ApplyBlock(h) [SaveABCIResponses + Save], and, when
// the application asks for it, PruneBlocks(r) followed by PruneStates(base, r).
// Every database write of every operation is a crash point: the full audit of
// audit.go is run on the database as it is right after that write (in place,
// with freshly opened stores), and - for every operation of a small store, for
// every prune and for a sample of the other operations of a big store - again on
// "base snapshot + journal prefix" materialised into a fresh MemDB, where the
// interrupted operation is then redone the way a restarted node would.
package c18

import (
	"bytes"
	"fmt"
	"math/rand"
	"os"
	"runtime"
	"runtime/pprof"
	"sync"
	"time"

	tmstate "github.com/tendermint/tendermint/proto/tendermint/state"
	tmstore "github.com/tendermint/tendermint/proto/tendermint/store"
	sm "github.com/tendermint/tendermint/state"
	"github.com/tendermint/tendermint/store"
	"github.com/tendermint/tendermint/types"

	"verif/chaingen"
	"verif/verdict"
)

// pruneBatch is the number of blocks after which PruneBlocks / PruneStates flush
// an intermediate batch (store/store.go, state/store.go: "pruned%1000 == 0").
const pruneBatch = 1000

type caseSpec struct {
	Stream string `json:"stream"`
	Index  int    `json:"case"`
}

// shape of a history, drawn from the case PRNG
type shape struct {
	NVals         int     `json:"validators"`
	InitialHeight int64   `json:"initial_height"`
	Heights       int     `json:"heights"`
	TxMode        string  `json:"tx_mode"` // empty | mixed
	ValChangeP    float64 `json:"p_valset_change"`
	ParamChangeP  float64 `json:"p_param_change"`
	PruneP        float64 `json:"p_prune"`
	FlagP         float64 `json:"p_partial_commit"`
	Discard       bool    `json:"discard_abci_responses"`
	EnumP         float64 `json:"p_enumerate_height"`   // per-write crash audits for this fraction of heights (prunes: always)
	MatP          float64 `json:"p_materialise_height"` // fresh-DB materialisation + redo for this fraction of heights (prunes: always)
	ForcePruneAt  int64   `json:"force_batch_prune_at,omitempty"`
	ForceExtra    int64   `json:"force_batch_prune_extra,omitempty"`
}

type opCtx struct {
	before    map[string]bool // failures standing when the operation began
	name      string          // saveblock | applyblock | pruneblocks | prunestates
	arg       int64           // height saved / retain height
	db        *jdb
	k         int // elements written so far
	enumerate bool
	insitu    []string // audit digest after each element
	retain    int64    // for prunes
}

type runner struct {
	c     *verdict.Ctx
	spec  caseSpec
	sh    shape
	r     *rand.Rand
	bdb   *jdb
	sdb   *jdb
	ch    *chaingen.Chain
	t     *truth
	a     *auditor
	prev  tmstore.BlockStoreState
	op    *opCtx
	opIdx int
	log   []string

	crashAudits map[string]int64
	opsDone     map[string]int64
	prunes      int
	batchPrunes int
	valChanges  int
	parChanges  int
	multiPart   int
	matPrefixes int64
	redos       int64
	lastDigest  string
	forceDone   bool
	standing    map[string]bool // failures present at the last audit of the live databases
	fired       int             // violations (not known findings) reported by this case
}

func Run(c *verdict.Ctx) int {
	c.Level = "fault_enumeration"
	c.Rule = "a history (chain + save/prune sequence) in which at least one PruneBlocks+PruneStates pair completed and at least one crash prefix was audited; distinct by (stream, shape, digest of the operation sequence); stream cons: a chain committed by a real consensus state in which at least one retain height led to a completed prune and at least one crash was injected before a prune write, distinct by (shape, sequence of retain-height kinds)"
	c.Assume(
		"a crash leaves exactly a prefix of the sequence of DB write calls of the running operation; a Batch.Write/WriteSync is atomic (tm-db backends write a batch as one unit); block DB and state DB are separate and a crash interrupts one operation on one of them",
		"MemDB stands in for the on-disk backend: no write reordering, no torn values",
		"truth (block ids, validator sets, consensus params per height) is recorded from the real executor's returned states (chaingen), commits are judged by ref.TallyCommit",
		"C:<first-1>, the empty last-commit record of the first block ever saved, is not counted as a leftover of pruning (it belongs to no height that was ever in the store)",
		"stream cons: the writes of consensus.pruneBlocks are recognised as the block/state DB writes after the state save that follows the application's Commit, up to the end of the height; a crash is a panic raised before such a write (the simulator halts the node like receiveRoutine's recover), after which fresh stores and a fresh node are opened on the same databases; the forked chain replays the same transactions per height, so its validator/parameter history equals the main line's",
		"not demanded: that state-store records below the retain height disappear (PruneStates documents that it may leave some), nor that leftovers of a crashed prune are ever collected",
	)

	var cases []caseSpec
	add := func(stream string, n int) {
		for i := 0; i < n; i++ {
			cases = append(cases, caseSpec{stream, i})
		}
	}
	// big ones first so that the workers finish together
	add("cons", c.N(40, 300)) // pruning through the real consensus path (consensus.go); cases 0 and 1 are the long ones
	add("batch", c.N(6, 20))
	if c.Thorough() {
		add("large", 20)
	}
	add("medium", c.N(20, 120))
	add("small", c.N(120, 1200))

	if only := os.Getenv("VERIF_C18_ONLY"); only != "" { // development aid: "stream" or "stream/index"
		var sel []caseSpec
		for _, cs := range cases {
			if cs.Stream == only || fmt.Sprintf("%s/%d", cs.Stream, cs.Index) == only {
				sel = append(sel, cs)
			}
		}
		cases = sel
	}
	if rp := c.Replay(); rp != "" {
		var w struct {
			Stream string `json:"stream"`
			Case   int    `json:"case"`
			Seed   *int64 `json:"seed"`
		}
		if err := verdict.LoadReplay(rp, &w); err != nil || w.Stream == "" {
			c.HarnessError("cannot read replay file %s: %v", rp, err)
			return c.Finish(0)
		}
		if w.Seed != nil {
			c.Seed = *w.Seed
		}
		cases = []caseSpec{{w.Stream, w.Case}}
	}

	if pf := os.Getenv("VERIF_C18_PROF"); pf != "" { // diagnostics only
		if f, err := os.Create(pf); err == nil {
			_ = pprof.StartCPUProfile(f)
			defer pprof.StopCPUProfile()
		}
	}
	workers := runtime.GOMAXPROCS(0)
	if workers > 16 {
		workers = 16
	}
	var wg sync.WaitGroup
	jobs := make(chan caseSpec)
	for w := 0; w < workers; w++ {
		wg.Add(1)
		go func() {
			defer wg.Done()
			for cs := range jobs {
				runCase(c, cs)
			}
		}()
	}
	for _, cs := range cases {
		jobs <- cs
	}
	close(jobs)
	wg.Wait()

	partial := c.Replay() != "" || os.Getenv("VERIF_C18_ONLY") != ""
	if !partial && (c.Counter("crash_prefixes_audited") == 0 || c.Counter("op.pruneblocks") == 0) {
		c.HarnessError("observed nothing: crash prefixes=%d prunes=%d", c.Counter("crash_prefixes_audited"), c.Counter("op.pruneblocks"))
	}
	if !partial && (c.Counter("cons.crashes_injected") == 0 || c.Counter("cons.prunes_crossing_batch_boundary") == 0 || c.Counter("cons.retain.above-height") == 0) {
		c.HarnessError("consensus stage observed too little: crashes=%d batch prunes=%d refused retain heights=%d",
			c.Counter("cons.crashes_injected"), c.Counter("cons.prunes_crossing_batch_boundary"), c.Counter("cons.retain.above-height"))
	}
	if !partial && c.Counter("prunes_crossing_batch_boundary") == 0 {
		c.HarnessError("no prune crossed the %d-block batch boundary", pruneBatch)
	}
	if partial {
		return c.Finish(0)
	}
	return c.Finish(c.N(60, 500))
}

func drawShape(stream string, r *rand.Rand, thorough bool) shape {
	sh := shape{NVals: 1 + r.Intn(7), InitialHeight: 1, TxMode: "mixed",
		ValChangeP: 0.12, ParamChangeP: 0.08, PruneP: 0.1, FlagP: 0.3, Discard: r.Intn(4) == 0, EnumP: 1, MatP: 1}
	if r.Intn(4) == 0 {
		sh.InitialHeight = 2 + r.Int63n(60)
	}
	switch stream {
	case "small":
		sh.Heights = 20 + r.Intn(100)
		sh.PruneP = []float64{0.05, 0.1, 0.25}[r.Intn(3)]
	case "medium":
		sh.Heights = 200 + r.Intn(400)
		sh.PruneP = []float64{0.01, 0.03, 0.08}[r.Intn(3)]
		sh.MatP = 0.04
	case "batch":
		// the dedicated case for S12: a prune of more than 1000 blocks; empty blocks keep it cheap
		sh.NVals = 1 + r.Intn(3)
		sh.TxMode = "empty"
		sh.ValChangeP, sh.ParamChangeP, sh.FlagP = 0.004, 0.003, 0.02
		sh.PruneP = 0 // until the forced prune
		sh.ForcePruneAt = sh.InitialHeight + pruneBatch + 20 + r.Int63n(260)
		sh.ForceExtra = r.Int63n(sh.ForcePruneAt - sh.InitialHeight - pruneBatch)
		sh.Heights = int(sh.ForcePruneAt-sh.InitialHeight) + 20 + r.Intn(60)
		if thorough && r.Intn(2) == 0 { // two intermediate batches
			sh.ForcePruneAt = sh.InitialHeight + 2*pruneBatch + 20 + r.Int63n(440)
			sh.ForceExtra = r.Int63n(sh.ForcePruneAt - sh.InitialHeight - 2*pruneBatch)
			if r.Intn(2) == 0 {
				sh.ForceExtra += pruneBatch
			}
			sh.Heights = int(sh.ForcePruneAt-sh.InitialHeight) + 20 + r.Intn(60)
		}
		sh.EnumP, sh.MatP = 0.05, 0.004
	case "large":
		sh.Heights = 1000 + r.Intn(1500)
		sh.PruneP = []float64{0.002, 0.005, 0.01}[r.Intn(3)]
		sh.ValChangeP, sh.ParamChangeP = 0.03, 0.02
		sh.EnumP, sh.MatP = 0.05, 0.003
	}
	return sh
}

func runCase(c *verdict.Ctx, cs caseSpec) {
	if cs.Stream == "cons" {
		t0 := time.Now()
		runConsCase(c, cs)
		if os.Getenv("VERIF_C18_TIMING") != "" {
			fmt.Fprintf(os.Stderr, "timing %s/%d %.2fs\n", cs.Stream, cs.Index, time.Since(t0).Seconds())
		}
		return
	}
	r := c.Rand(cs.Stream, cs.Index)
	rn := &runner{c: c, spec: cs, r: r, sh: drawShape(cs.Stream, r, c.Thorough()),
		crashAudits: map[string]int64{}, opsDone: map[string]int64{}}
	defer func() {
		if p := recover(); p != nil {
			buf := make([]byte, 4096)
			buf = buf[:runtime.Stack(buf, false)]
			if rn.fired > 0 {
				// the stores are already known to be broken; the real code giving up on them is a consequence
				c.Count("cases_aborted_after_violation", 1)
				rn.flush()
				return
			}
			c.HarnessError("case %s/%d panicked: %v\n%s", cs.Stream, cs.Index, p, buf)
		}
	}()
	t0 := time.Now()
	rn.run()
	if os.Getenv("VERIF_C18_TIMING") != "" {
		fmt.Fprintf(os.Stderr, "timing %s/%d heights=%d audits=%d memohit=%d memomiss=%d mat=%d %.2fs\n", cs.Stream, cs.Index, rn.sh.Heights, rn.a.st.audits, rn.a.st.memoHits, rn.a.st.memoMiss, rn.matPrefixes, time.Since(t0).Seconds())
	}
}

func (rn *runner) run() {
	c, sh := rn.c, rn.sh
	c.Eval()
	powers := make([]int64, sh.NVals)
	for i := range powers {
		powers[i] = 1 + rn.r.Int63n(100)
	}
	rn.bdb, rn.sdb = newJDB("block"), newJDB("state")
	rn.bdb.live, rn.sdb.live = true, true
	opts := sm.StoreOptions{DiscardABCIResponses: sh.Discard}
	rn.ch = chaingen.New(chaingen.Options{Seed: rn.r.Int63(), Powers: powers, InitialHeight: sh.InitialHeight,
		StateDB: rn.sdb, BlockDB: rn.bdb, StoreOptions: opts, NoBlockStore: true})
	defer rn.ch.Close()
	ch := rn.ch
	rn.t = newTruth(ch.ChainID, opts)
	rn.a = newAuditor(rn.t)
	g := ch.Genesis
	rn.t.vals[sh.InitialHeight] = g.Validators.Copy()
	rn.t.vals[sh.InitialHeight+1] = g.NextValidators.Copy()
	rn.t.params[sh.InitialHeight] = g.ConsensusParams
	rn.bdb.onWrite, rn.sdb.onWrite = rn.onWrite, rn.onWrite

	// the state store right after genesis, with an empty block store
	rn.postAudit("genesis", 0)

	for i := 0; i < sh.Heights; i++ {
		h := ch.NextHeight()
		enum := rn.r.Float64() < sh.EnumP
		mat := rn.r.Float64() < sh.MatP
		rn.doHeight(h, enum, mat)
		base, height := ch.BlockStore.Base(), ch.BlockStore.Height()
		switch {
		case sh.ForcePruneAt > 0 && !rn.forceDone && height >= sh.ForcePruneAt:
			rn.forceDone = true
			rn.sh.PruneP = 0.06
			sh.PruneP = 0.06
			retain := base + pruneBatch + 1 + sh.ForceExtra
			if retain > height {
				retain = height
			}
			rn.doPrune(retain)
		case height > base && rn.r.Float64() < sh.PruneP:
			var retain int64
			switch rn.r.Intn(12) {
			case 0:
				retain = height // keep only the tip
			case 1:
				retain = base + 1
			case 2:
				retain = base // PruneBlocks accepts it; consensus would not call it
			case 3:
				if rn.r.Intn(2) == 0 {
					retain = height + 1 + rn.r.Int63n(3) // refused
				} else {
					retain = base - 1 - rn.r.Int63n(3) // refused (or <= 0)
				}
			default:
				retain = base + 1 + rn.r.Int63n(height-base)
			}
			rn.doPrune(retain)
		}
	}

	// cross-check of the memoisation: the same audit from scratch, on fresh copies
	scratch := newAuditor(rn.t)
	scratch.useMemo = false
	res := scratch.audit(rn.bdb.snapshot("block-final"), rn.sdb.snapshot("state-final"), nil)
	if res.digest() != rn.lastDigest {
		c.HarnessError("case %s/%d: memoised audit %q and from-scratch audit %q of the final state disagree", rn.spec.Stream, rn.spec.Index, rn.lastDigest, res.digest())
	}

	crash := rn.flush()
	if rn.prunes > 0 && crash > 0 {
		if c.Distinct(rn.spec.Stream, fmt.Sprintf("%+v", rn.sh), rn.opDigest()) {
			c.Count("histories_nontrivial", 1)
		}
	}
	if c.WantSample() && rn.prunes > 0 {
		c.Sample(map[string]interface{}{"stream": rn.spec.Stream, "case": rn.spec.Index, "shape": rn.sh,
			"final_base": rn.prev.Base, "final_height": rn.prev.Height, "prunes": rn.prunes,
			"crash_prefixes": rn.crashAudits, "last_ops": rn.tail(12)})
	}
}

// flush adds the case's counters to the run's.
func (rn *runner) flush() int64 {
	c := rn.c
	var crash int64
	for k, v := range rn.crashAudits {
		c.Count("crash_prefixes."+k, v)
		crash += v
	}
	c.Count("crash_prefixes_audited", crash)
	for k, v := range rn.opsDone {
		c.Count("op."+k, v)
	}
	c.Count("audits", rn.a.st.audits)
	c.Count("heights_audited", rn.a.st.heights)
	c.Count("heights_audited_from_memo", rn.a.st.memoHits)
	c.Count("materialised_prefixes", rn.matPrefixes)
	c.Count("redo_after_crash", rn.redos)
	c.Count("prunes_crossing_batch_boundary", int64(rn.batchPrunes))
	c.Count("valset_changes", int64(rn.valChanges))
	c.Count("param_changes", int64(rn.parChanges))
	c.Count("multi_part_blocks", int64(rn.multiPart))
	c.Count("blocks_saved", int64(rn.sh.Heights))
	c.Max("largest_store_blocks", rn.maxSize())
	return crash
}

func (rn *runner) maxSize() int64 { return int64(rn.sh.Heights) }

func (rn *runner) opDigest() string {
	return fmt.Sprintf("%d|%d|%v|%d-%d", rn.opIdx, rn.prunes, rn.tail(30), rn.prev.Base, rn.prev.Height)
}

func (rn *runner) tail(n int) []string {
	if len(rn.log) <= n {
		return rn.log
	}
	return rn.log[len(rn.log)-n:]
}

func (rn *runner) note(format string, a ...interface{}) {
	rn.log = append(rn.log, fmt.Sprintf(format, a...))
	if len(rn.log) > 200 {
		rn.log = append([]string{}, rn.log[100:]...)
	}
}

// ---------------------------------------------------------------- operations

// bracket runs one store operation with journaling (and crash audits on every
// write when enumerate is set).  With mat set it returns the snapshot of the
// operation's database from before it.
func (rn *runner) bracket(name string, arg int64, db *jdb, enumerate, mat bool, f func()) (pre *jdb, journal []elem, op *opCtx) {
	if mat {
		pre = db.snapshot(db.name + "-pre")
	}
	rn.opIdx++
	rn.op = &opCtx{name: name, arg: arg, db: db, enumerate: enumerate, retain: arg, before: rn.standing}
	db.startRecording()
	defer func() {
		journal = db.stopRecording()
		op = rn.op
		rn.op = nil
	}()
	f()
	rn.opsDone[name]++
	return
}

func (rn *runner) onWrite(db *jdb, _ int) {
	op := rn.op
	if op == nil {
		rn.c.HarnessError("case %s/%d: write to %s DB outside any bracketed operation", rn.spec.Stream, rn.spec.Index, db.name)
		return
	}
	if db != op.db {
		rn.c.HarnessError("case %s/%d: operation %s wrote to the %s DB", rn.spec.Stream, rn.spec.Index, op.name, db.name)
		return
	}
	op.k++
	if !op.enumerate {
		return
	}
	res := rn.a.audit(rn.bdb, rn.sdb, &rn.prev)
	rn.prev = res.Desc
	op.insitu = append(op.insitu, res.digest())
	rn.crashAudits[op.name]++
	if nf := fresh(res, rn.standing); !nf.clean() {
		rn.report(op, "crash", op.k, db.journal, nf, "in place")
	}
	rn.standing = setOf(res)
}

// postAudit is the audit after a completed operation.
func (rn *runner) postAudit(opName string, arg int64) auditResult {
	res := rn.a.audit(rn.bdb, rn.sdb, &rn.prev)
	rn.prev = res.Desc
	rn.lastDigest = res.digest()
	if nf := fresh(res, rn.standing); !nf.clean() {
		rn.report(&opCtx{name: opName, arg: arg, retain: arg}, "done", -1, nil, nf, "live")
	}
	rn.standing = setOf(res)
	if bs := rn.ch.BlockStore; bs.Base() != res.Desc.Base || bs.Height() != res.Desc.Height {
		rn.violation(opName+"-done-live-range-differs-from-persisted",
			fmt.Sprintf("after %s(%d) the running store says base=%d height=%d, the persisted descriptor base=%d height=%d",
				opName, arg, bs.Base(), bs.Height(), res.Desc.Base, res.Desc.Height), opName, arg, "done", -1, nil, res)
	}
	return res
}

func (rn *runner) doHeight(h int64, enum, mat bool) {
	ch := rn.ch
	plan := rn.plan(h)
	block, parts := ch.Propose(plan)
	blockID := types.BlockID{Hash: block.Hash(), PartSetHeader: parts.Header()}
	commit := ch.SignCommit(ch.State.Validators, h, plan.Round, blockID, plan.Flag, func(idx int) time.Time { return ch.VoteTime(h, idx) })
	if parts.Total() > 1 {
		rn.multiPart++
	}
	rn.t.blockID[h] = blockID
	rn.t.maxSaved = h
	if rn.t.first == 0 {
		rn.t.first = h
	}
	rn.note("save %d", h)

	// 1. consensus.finalizeCommit: blockStore.SaveBlock
	pre, journal, op := rn.bracket("saveblock", h, rn.bdb, enum, mat, func() { ch.BlockStore.SaveBlock(block, parts, commit) })
	res := rn.postAudit("saveblock", h)
	if res.Desc.Height != h {
		rn.violation("saveblock-done-height-not-advanced", fmt.Sprintf("after SaveBlock(%d) the persisted height is %d", h, res.Desc.Height), "saveblock", h, "done", -1, journal, res)
	}
	if mat {
		rn.materialised(op, pre, journal, func(k int, m *jdb) (*jdb, *jdb, string) {
			bs2 := store.NewBlockStore(m)
			if bs2.Height() >= h {
				return nil, nil, ""
			}
			bs2.SaveBlock(block, parts, commit)
			return m, rn.sdb, fmt.Sprintf("reopened, SaveBlock(%d) again", h)
		}, func(res auditResult) string {
			if res.Desc.Height != h {
				return "height-not-advanced"
			}
			return ""
		})
	}

	// 2. blockExec.ApplyBlock: SaveABCIResponses, (app commit), Save
	var rec *chaingen.HeightRec
	var err error
	pre, journal, op = rn.bracket("applyblock", h, rn.sdb, enum, mat, func() { rec, err = ch.Apply(block, parts, plan) })
	if err != nil {
		panic(fmt.Sprintf("ApplyBlock(%d): %v", h, err))
	}
	if !bytes.Equal(rec.Commit.Hash(), commit.Hash()) {
		panic("chaingen signed a different commit than the one saved")
	}
	after := rec.StateAfter
	if !bytes.Equal(rn.t.vals[h+1].Hash(), after.Validators.Hash()) {
		panic("recorded validator set of h+1 differs from the executor's")
	}
	if !bytes.Equal(after.NextValidators.Hash(), after.Validators.Hash()) {
		rn.valChanges++
	}
	if !after.ConsensusParams.Equal(&rec.StateBefore.ConsensusParams) {
		rn.parChanges++
	}
	rn.t.vals[h+2] = after.NextValidators.Copy()
	rn.t.params[h+1] = after.ConsensusParams
	rn.postAudit("applyblock", h)
	if mat {
		rn.materialised(op, pre, journal, func(k int, m *jdb) (*jdb, *jdb, string) {
			var resp *tmstate.ABCIResponses
			var err error
			if rn.sh.Discard {
				resp, err = ch.StateStore.LoadLastABCIResponse(h)
			} else {
				resp, err = ch.StateStore.LoadABCIResponses(h)
			}
			if err != nil {
				panic(err)
			}
			ss2 := sm.NewStore(m, rn.t.opts)
			if err := ss2.SaveABCIResponses(h, resp); err != nil {
				panic(err)
			}
			if err := ss2.Save(after); err != nil {
				panic(err)
			}
			return rn.bdb, m, fmt.Sprintf("reopened, SaveABCIResponses(%d) and Save(state after %d) again", h, h)
		}, nil)
	}
}

func (rn *runner) doPrune(retain int64) {
	ch := rn.ch
	oldBase, height := ch.BlockStore.Base(), ch.BlockStore.Height()
	rn.note("prune %d (base %d, height %d)", retain, oldBase, height)
	valid := retain >= oldBase && retain <= height && retain > 0

	var pruned uint64
	var err error
	pre, journal, op := rn.bracket("pruneblocks", retain, rn.bdb, true, valid, func() { pruned, err = ch.BlockStore.PruneBlocks(retain) })
	res := rn.postAudit("pruneblocks", retain)
	if !valid {
		rn.c.Count("prune_refused", 1)
		if err == nil || len(journal) > 0 || res.Desc.Base != oldBase {
			rn.violation("pruneblocks-invalid-retain-height-not-refused",
				fmt.Sprintf("PruneBlocks(%d) with base=%d height=%d: err=%v, %d writes, base now %d", retain, oldBase, height, err, len(journal), res.Desc.Base),
				"pruneblocks", retain, "done", -1, journal, res)
		}
		return
	}
	if err != nil {
		rn.violation("pruneblocks-done-error", fmt.Sprintf("PruneBlocks(%d) with base=%d height=%d failed: %v", retain, oldBase, height, err), "pruneblocks", retain, "done", -1, journal, res)
		return
	}
	rn.prunes++
	if retain-oldBase > pruneBatch {
		rn.batchPrunes++
	}
	if res.Desc.Base != retain || res.Desc.Height != height {
		rn.violation("pruneblocks-done-base-not-retain-height",
			fmt.Sprintf("after PruneBlocks(%d): base=%d height=%d (height was %d)", retain, res.Desc.Base, res.Desc.Height, height), "pruneblocks", retain, "done", -1, journal, res)
	}
	if int64(pruned) != retain-oldBase {
		rn.c.Count("prune_count_differs", 1)
	}
	left, exempt, unknown := rn.a.leftovers(rn.bdb, retain)
	if exempt {
		rn.c.Count("leftover_C_first_minus_1_seen", 1)
	}
	if unknown > 0 {
		rn.c.HarnessError("case %s/%d: %d block DB keys of unknown form", rn.spec.Stream, rn.spec.Index, unknown)
	}
	if len(left) > 0 {
		rn.violation("pruneblocks-done-records-below-retain-height-left",
			fmt.Sprintf("after PruneBlocks(%d) (base was %d) records below %d are still there: %v", retain, oldBase, retain, left), "pruneblocks", retain, "done", -1, journal, res)
	}
	rn.c.Count("leftover_scans", 1)

	// crash prefixes on fresh DBs, then what a restarted node does next
	rn.materialised(op, pre, journal, func(k int, m *jdb) (*jdb, *jdb, string) {
		bs2 := store.NewBlockStore(m)
		base2 := bs2.Base()
		r2 := retain
		if rn.r.Intn(2) == 0 && height > retain {
			r2 = retain + rn.r.Int63n(height-retain+1)
		}
		if r2 <= base2 { // consensus.pruneBlocks: nothing to do
			return nil, nil, ""
		}
		s2 := rn.sdb.snapshot("state-redo")
		if _, err := bs2.PruneBlocks(r2); err != nil {
			panic(fmt.Sprintf("redo PruneBlocks(%d) on base %d: %v", r2, base2, err))
		}
		if err := sm.NewStore(s2, rn.t.opts).PruneStates(base2, r2); err != nil {
			panic(fmt.Sprintf("redo PruneStates(%d,%d): %v", base2, r2, err))
		}
		return m, s2, fmt.Sprintf("reopened with base=%d, PruneBlocks(%d) and PruneStates(%d,%d)", base2, r2, base2, r2)
	}, nil)

	if retain == oldBase { // consensus never calls PruneStates(from == to)
		return
	}
	// consensus.pruneBlocks: PruneStates(base, retainHeight)
	pre, journal, op = rn.bracket("prunestates", retain, rn.sdb, true, true, func() { err = ch.StateStore.PruneStates(oldBase, retain) })
	res = rn.postAudit("prunestates", retain)
	if err != nil {
		rn.violation("prunestates-done-error", fmt.Sprintf("PruneStates(%d,%d) failed: %v", oldBase, retain, err), "prunestates", retain, "done", -1, journal, res)
		return
	}
	rn.materialised(op, pre, journal, func(k int, m *jdb) (*jdb, *jdb, string) {
		// the block store is at base=retain; the next prune the app asks for is higher
		if height <= retain {
			return nil, nil, ""
		}
		r2 := retain + 1 + rn.r.Int63n(height-retain)
		b2 := rn.bdb.snapshot("block-redo")
		if _, err := store.NewBlockStore(b2).PruneBlocks(r2); err != nil {
			panic(fmt.Sprintf("redo PruneBlocks(%d): %v", r2, err))
		}
		if err := sm.NewStore(m, rn.t.opts).PruneStates(retain, r2); err != nil {
			panic(fmt.Sprintf("redo PruneStates(%d,%d): %v", retain, r2, err))
		}
		return b2, m, fmt.Sprintf("reopened (block base %d), next PruneBlocks(%d) and PruneStates(%d,%d)", retain, r2, retain, r2)
	}, nil)
}

// materialised audits every prefix of the journal of a finished operation on a
// fresh DB (base snapshot + prefix), compares with the verdict reached in place,
// and on some prefixes lets redo continue like a restarted node and audits again.
// redo returns the (block, state) databases to audit, or nils to skip.
func (rn *runner) materialised(op *opCtx, pre *jdb, journal []elem, redo func(k int, m *jdb) (*jdb, *jdb, string), extra func(auditResult) string) {
	if pre == nil {
		return
	}
	// the other database did not move during the operation
	var prev *tmstore.BlockStoreState
	baseline := op.before
	redoP := 0.35
	if len(journal) > 12 {
		redoP = 0.1
	}
	for k := 0; k <= len(journal); k++ {
		m := materialise(pre, journal, k, op.db.name+"-prefix")
		bdb, sdb := m, rn.sdb
		if op.db == rn.sdb {
			bdb, sdb = rn.bdb, m
		}
		res := rn.a.audit(bdb, sdb, prev)
		d := res.Desc
		prev = &d
		rn.matPrefixes++
		if k >= 1 && k-1 < len(op.insitu) && op.insitu[k-1] != res.digest() {
			rn.c.HarnessError("case %s/%d: %s(%d) prefix %d: audit in place %q, on the materialised DB %q", rn.spec.Stream, rn.spec.Index, op.name, op.arg, k, op.insitu[k-1], res.digest())
		}
		if nf := fresh(res, baseline); !nf.clean() && k >= 1 && k-1 >= len(op.insitu) { // otherwise already reported in place
			rn.report(op, "crash", k, journal, nf, "materialised")
		}
		baseline = setOf(res)
		if redo == nil || k == len(journal) || rn.r.Float64() >= redoP {
			continue
		}
		b2, s2, what := redo(k, m)
		if b2 == nil {
			continue
		}
		rn.redos++
		res2 := rn.a.audit(b2, s2, prev)
		if nf := fresh(res2, baseline); !nf.clean() {
			rn.report(op, "redo", k, journal, nf, what)
		}
		if extra != nil {
			if cls := extra(res2); cls != "" {
				rn.violation(op.name+"-redo-"+cls, fmt.Sprintf("%s(%d) interrupted after %d of %d writes, %s: %s", op.name, op.arg, k, len(journal), what, cls), op.name, op.arg, "redo", k, journal, res2)
			}
		}
	}
}

// ---------------------------------------------------------------- reporting

func failKey(f failure) string { return fmt.Sprintf("%d/%s", f.H, f.Class) }

func setOf(res auditResult) map[string]bool {
	if len(res.Fails) == 0 {
		return nil
	}
	m := make(map[string]bool, len(res.Fails))
	for _, f := range res.Fails {
		m[failKey(f)] = true
	}
	return m
}

// fresh keeps the failures that were not there in the state this one was
// derived from: a failure is reported where it first appears, i.e. attributed to
// the operation (and write) that produced it, not to every later operation.
func fresh(res auditResult, baseline map[string]bool) auditResult {
	if len(baseline) == 0 || len(res.Fails) == 0 {
		return res
	}
	out := auditResult{Desc: res.Desc}
	for _, f := range res.Fails {
		if !baseline[failKey(f)] {
			out.Fails = append(out.Fails, f)
		}
	}
	return out
}

func (rn *runner) report(op *opCtx, phase string, k int, journal []elem, res auditResult, where string) {
	byKey := map[string][]failure{}
	var order []string
	for _, f := range res.Fails {
		key := op.name + "-" + phase + "-" + f.Class
		// S12: an intermediate flush of PruneBlocks moved base onto a height whose records the same flush deletes
		if op.name == "pruneblocks" && phase == "crash" && f.Class == "meta-missing" && f.H == res.Desc.Base && res.Desc.Base < op.retain {
			key = "pruneblocks-intermediate-base-deleted"
		}
		if _, ok := byKey[key]; !ok {
			order = append(order, key)
		}
		byKey[key] = append(byKey[key], f)
	}
	for _, key := range order {
		fs := byKey[key]
		what := fmt.Sprintf("%s(%d)", op.name, op.arg)
		switch phase {
		case "crash":
			what += fmt.Sprintf(" interrupted after %d of its DB writes", k)
		case "redo":
			what += fmt.Sprintf(" interrupted after %d of its DB writes, then %s", k, where)
		default:
			what += " completed"
		}
		what += fmt.Sprintf(": persisted range base=%d height=%d, but %s", res.Desc.Base, res.Desc.Height, fs[0].String())
		if len(fs) > 1 {
			what += fmt.Sprintf(" (and %d more)", len(fs)-1)
		}
		rn.violationF(key, what, op.name, op.arg, phase, k, journal, res, fs)
	}
}

func (rn *runner) violation(key, what, opName string, arg int64, phase string, k int, journal []elem, res auditResult) {
	rn.violationF(key, what, opName, arg, phase, k, journal, res, res.Fails)
}

func (rn *runner) violationF(key, what, opName string, arg int64, phase string, k int, journal []elem, res auditResult, fs []failure) {
	rn.c.Count("fired."+key, 1)
	var written []string
	if k > 0 && k <= len(journal) {
		from := 0
		if k > 8 {
			from = k - 8
			written = append(written, fmt.Sprintf("… %d earlier writes", from))
		}
		for _, e := range journal[from:k] {
			written = append(written, describeElem(e))
		}
	}
	if len(fs) > 8 {
		fs = fs[:8]
	}
	if rn.c.Violation(key, what, map[string]interface{}{
		"stream": rn.spec.Stream, "case": rn.spec.Index, "seed": rn.c.Seed, "shape": rn.sh,
		"operation_index": rn.opIdx, "operation": fmt.Sprintf("%s(%d)", opName, arg), "phase": phase,
		"writes_applied": k, "writes_applied_detail": written,
		"persisted_base": res.Desc.Base, "persisted_height": res.Desc.Height,
		"failures": fs, "preceding_operations": rn.tail(12),
	}) {
		rn.fired++
	}
}

// ---------------------------------------------------------------- workload

func (rn *runner) plan(h int64) chaingen.StepPlan {
	r, ch, sh := rn.r, rn.ch, rn.sh
	var plan chaingen.StepPlan
	if sh.TxMode == "mixed" {
		for i, n := 0, r.Intn(4); i < n; i++ {
			v := make([]byte, 1+r.Intn(200))
			for j := range v {
				v[j] = byte('a' + r.Intn(26))
			}
			plan.Txs = append(plan.Txs, types.Tx(fmt.Sprintf("k%d-%d=%s", h, i, v)))
		}
		if r.Intn(40) == 0 { // a block of several parts (part size 64 kB)
			v := make([]byte, 66000+r.Intn(140000))
			for j := range v {
				v[j] = byte('a' + r.Intn(26))
			}
			plan.Txs = append(plan.Txs, types.Tx(fmt.Sprintf("big%d=%s", h, v)))
		}
	}
	if r.Float64() < sh.ValChangeP {
		cur := ch.State.NextValidators // what the application's set is before this block
		switch k := r.Intn(3); {
		case k == 0 || cur.Size() == 1:
			if cur.Size() < 12 {
				plan.Txs = append(plan.Txs, chaingen.ValTx(ch.NewKey(), 1+r.Int63n(100)))
			}
		case k == 1:
			v := cur.Validators[r.Intn(cur.Size())]
			np := 1 + r.Int63n(100)
			if np == v.VotingPower {
				np++
			}
			plan.Txs = append(plan.Txs, types.Tx(fmt.Sprintf("val:%x:%d", v.PubKey.Bytes(), np)))
		default:
			v := cur.Validators[r.Intn(cur.Size())]
			plan.Txs = append(plan.Txs, types.Tx(fmt.Sprintf("val:%x:0", v.PubKey.Bytes())))
		}
	}
	if r.Float64() < sh.ParamChangeP {
		plan.Txs = append(plan.Txs, types.Tx(fmt.Sprintf("param:maxbytes=%d", 2000000+r.Int63n(20000000))))
	}
	if r.Float64() < sh.FlagP {
		// some validators absent or voting nil, the rest still more than 2/3 of the power
		vals := ch.State.Validators
		total := vals.TotalVotingPower()
		var off int64
		flags := make([]types.BlockIDFlag, vals.Size())
		for _, i := range r.Perm(vals.Size()) {
			flags[i] = types.BlockIDFlagCommit
			p := vals.Validators[i].VotingPower
			if r.Intn(2) == 0 && 3*(total-off-p) > 2*total {
				off += p
				flags[i] = types.BlockIDFlagAbsent
				if r.Intn(2) == 0 {
					flags[i] = types.BlockIDFlagNil
				}
			}
		}
		plan.Flag = func(idx int, _ *types.Validator) types.BlockIDFlag { return flags[idx] }
	}
	return plan
}
