package c18

// Stage "cons": pruning the way the NODE does it.  A single-validator network of
// the sim engine (real consensus.State, real executor, real BlockStore and state
// store on journaling databases) commits heights; the application (recapp) hands
// back scripted retain heights in ResponseCommit, so the block store and the state
// store are pruned together by consensus.finalizeCommit -> (*State).pruneBlocks.
//
// Retain heights: ordinary, equal to base, far below base, the current height,
// above the last stored height (PruneBlocks refuses), zero, negative, and more
// than 1000 heights in one go (several batches).  Validator-set and consensus-
// parameter changes make the historical lookups non-trivial.
//
// Crash points: the DB writes of both stores between the state save of the
// committing height and the end of finalizeCommit, i.e. everything pruneBlocks
// writes.  Every such write is (a) audited in place right after it is applied,
// and (b) a real injected crash: the chain is forked at the height boundary
// before, the fork's databases panic BEFORE that write, the simulator's guard
// halts the node like receiveRoutine's recover would, the stores are reopened and
// audited, a new node is started on them and commits two more heights (with
// another prune), and the stores are audited again.

import (
	"fmt"
	"math/rand"
	"strings"

	tmstore "github.com/tendermint/tendermint/proto/tendermint/store"
	sm "github.com/tendermint/tendermint/state"
	"github.com/tendermint/tendermint/types"

	"verif/chaingen"
	"verif/recapp"
	"verif/sim"
	"verif/verdict"
)

const crashMarker = "c18 crash injection"

type consShape struct {
	Extras        []int64 `json:"extra_validator_powers"` // silent validators next to the node (power 1000)
	InitialHeight int64   `json:"initial_height"`
	Heights       int     `json:"heights"`
	PruneP        float64 `json:"p_retain_height"`
	ValP          float64 `json:"p_valset_change"`
	ParP          float64 `json:"p_param_change"`
	BatchAt       int64   `json:"batch_prune_at,omitempty"`   // no pruning before this height; there retain = base + BatchSpan
	BatchSpan     int64   `json:"batch_prune_span,omitempty"` // > 1000
	ForkP         float64 `json:"p_crash_forks"`              // fraction of scripted retain heights whose writes are crash-injected in forks
	RestartH      int     `json:"heights_after_restart"`      // heights committed by the restarted node
	KeySeed       int64   `json:"key_seed"`
}

// retain-height script entry of one height
type armed struct {
	Kind   string `json:"kind"`
	Retain int64  `json:"retain_height"`
}

// pruneWindow recognises the DB writes that belong to consensus.pruneBlocks: those
// after the state save ("stateKey") that follows the application's Commit.
type pruneWindow struct {
	afterCommit bool
	pending     bool
	open        bool
	writes      int      // window writes begun
	perDB       [2]int   // block, state
	descr       []string // the window writes
	crashAt     int      // > 0: panic before this window write
	closedBy    string
	onApplied   func(db *jdb) // called after every applied window write
}

func (w *pruneWindow) reset(crashAt int) {
	*w = pruneWindow{crashAt: crashAt, onApplied: w.onApplied}
}

func (w *pruneWindow) appHook(ev recapp.Event) {
	if ev.Method == "Commit" && ev.Phase == "ret" {
		w.afterCommit = true
	}
}

func isSaveBlockWrite(e elem) bool {
	if len(e.Ops) != 1 || e.Ops[0].Del {
		return false
	}
	k := string(e.Ops[0].Key)
	return strings.HasPrefix(k, "P:") || strings.HasPrefix(k, "H:")
}

func (w *pruneWindow) before(db *jdb, e elem) {
	if !w.open {
		if w.afterCommit && db.name == "state" && len(e.Ops) == 1 && string(e.Ops[0].Key) == "stateKey" {
			w.pending = true
		}
		return
	}
	if db.name == "block" && isSaveBlockWrite(e) { // the next height is being saved: the prune is over
		w.open = false
		w.closedBy = "saveblock"
		return
	}
	w.writes++
	if w.crashAt > 0 && w.writes == w.crashAt {
		panic(fmt.Sprintf("%s: before write %d of the prune (%s DB, %s)", crashMarker, w.writes, db.name, describeElem(e)))
	}
	if db.name == "block" {
		w.perDB[0]++
	} else {
		w.perDB[1]++
	}
	w.descr = append(w.descr, db.name+": "+describeElem(e))
}

func (w *pruneWindow) after(db *jdb, _ int) {
	if w.pending {
		w.pending, w.afterCommit, w.open = false, false, true
		return
	}
	if w.open && w.onApplied != nil {
		w.onApplied(db)
	}
}

// one chain (main line or fork)
type consChain struct {
	bdb, sdb *jdb
	evdb     *jdb
	app      *recapp.App
	net      *sim.Net
	nd       *sim.Node
	win      *pruneWindow
	script   map[int64]armed
}

type consRunner struct {
	c    *verdict.Ctx
	spec caseSpec
	sh   consShape
	r    *rand.Rand
	t    *truth
	a    *auditor
	main *consChain
	prev tmstore.BlockStoreState
	log  []string
	cnt  map[string]int64

	standing map[string]bool
	fired    int
	prunes   int
	crashes  int
	kinds    []string
}

func drawConsShape(r *rand.Rand, idx int, thorough bool) consShape {
	sh := consShape{InitialHeight: 1, PruneP: []float64{0.08, 0.15, 0.3}[r.Intn(3)], ValP: 0.15, ParP: 0.1, ForkP: 1, RestartH: 2, KeySeed: r.Int63()}
	for i, n := 0, 1+r.Intn(4); i < n; i++ {
		sh.Extras = append(sh.Extras, 1+r.Int63n(3))
	}
	if r.Intn(5) == 0 {
		sh.InitialHeight = 2 + r.Int63n(40)
	}
	sh.Heights = 25 + r.Intn(70)
	// cases 0 and 1 (and a tenth of the others in the thorough tier) prune more than 1000 heights at once
	if idx < 2 || (thorough && r.Intn(10) == 0) {
		sh.BatchSpan = pruneBatch + 1 + r.Int63n(40)
		if idx == 1 || (thorough && r.Intn(3) == 0) {
			sh.BatchSpan = 2*pruneBatch + 1 + r.Int63n(40) // three batches
		}
		sh.BatchAt = sh.InitialHeight + sh.BatchSpan + r.Int63n(30)
		sh.Heights = int(sh.BatchAt-sh.InitialHeight) + 8 + r.Intn(12)
		sh.ValP, sh.ParP = 0.01, 0.008
	}
	return sh
}

func (cr *consRunner) powers() ([]int64, []int) {
	p := []int64{1000}
	var faulty []int
	for i, e := range cr.sh.Extras {
		p = append(p, e)
		faulty = append(faulty, i+1)
	}
	return p, faulty
}

// txs of height h: a pure function of (seed, case, h), so that a fork builds the same validator and parameter history
func (cr *consRunner) txsFor(h int64) types.Txs {
	r := cr.c.Rand(fmt.Sprintf("cons-tx/%d", cr.spec.Index), int(h))
	txs := types.Txs{types.Tx(fmt.Sprintf("h%d=%d", h, r.Intn(1000)))}
	if r.Float64() < cr.sh.ValP {
		i := 1 + r.Intn(len(cr.sh.Extras))
		txs = append(txs, chaingen.ValTx(chaingen.Key(cr.sh.KeySeed, i), r.Int63n(4))) // 0 removes, otherwise (re-)adds / re-powers
	}
	if r.Float64() < cr.sh.ParP {
		txs = append(txs, types.Tx(fmt.Sprintf("param:maxbytes=%d", 2000000+r.Int63n(20000000))))
	}
	return txs
}

// open builds a single-node network on the given databases and application.
func (cr *consRunner) open(ch *consChain) {
	powers, faulty := cr.powers()
	ch.bdb.beforeWrite, ch.sdb.beforeWrite = ch.win.before, ch.win.before
	ch.bdb.onWrite, ch.sdb.onWrite = ch.win.after, ch.win.after
	script := ch.script
	appOpt := recapp.Options{Hook: ch.win.appHook, RetainHeight: func(h int64) int64 { return script[h].Retain }}
	var net *sim.Net
	no := sim.NodeOpt{SkipTimeoutCommit: false, BlockDB: ch.bdb, StateDB: ch.sdb, EvDB: ch.evdb,
		Txs: func(node, call int) types.Txs {
			// the height being proposed, read without touching the consensus lock (held by the caller)
			h := net.Nodes[0].Blocks.Height() + 1
			if h == 1 {
				h = cr.sh.InitialHeight
			}
			return cr.txsFor(h)
		}}
	if ch.app == nil {
		no.AppOptions = &appOpt
	} else {
		ch.app = ch.app.Clone(appOpt)
		no.App = ch.app
	}
	net = sim.NewNet(rand.New(rand.NewSource(cr.r.Int63())), sim.NetOpt{Seed: cr.sh.KeySeed, Powers: powers, Faulty: faulty,
		SkipTimeoutCommit: false, InitialHeight: cr.sh.InitialHeight, NodeOpt: func(int) sim.NodeOpt { return no }})
	ch.net, ch.nd = net, net.Nodes[0]
	ch.app = ch.nd.App
	net.Start()
}

func runConsCase(c *verdict.Ctx, cs caseSpec) {
	r := c.Rand(cs.Stream, cs.Index)
	cr := &consRunner{c: c, spec: cs, r: r, sh: drawConsShape(r, cs.Index, c.Thorough()), cnt: map[string]int64{}}
	defer func() {
		if p := recover(); p != nil {
			if cr.fired > 0 {
				c.Count("cases_aborted_after_violation", 1)
			} else {
				c.HarnessError("case %s/%d panicked: %v", cs.Stream, cs.Index, p)
			}
		}
		for k, v := range cr.cnt {
			c.Count("cons."+k, v)
		}
	}()
	cr.run()
}

func (cr *consRunner) run() {
	c, sh := cr.c, cr.sh
	c.Eval()
	m := &consChain{bdb: newJDB("block"), sdb: newJDB("state"), evdb: newJDB("evidence"), win: &pruneWindow{}, script: map[int64]armed{}}
	m.bdb.live, m.sdb.live = true, true
	cr.main = m
	m.win.onApplied = func(db *jdb) { cr.inPlace(db) }
	cr.open(m)
	defer m.net.Close()
	cr.t = newTruth(m.net.ChainID, sm.StoreOptions{})
	cr.a = newAuditor(cr.t)
	g := m.nd.CS.GetState()
	cr.t.vals[sh.InitialHeight] = g.Validators.Copy()
	cr.t.vals[sh.InitialHeight+1] = g.NextValidators.Copy()
	cr.t.params[sh.InitialHeight] = g.ConsensusParams

	for i := 0; i < sh.Heights; i++ {
		h := sh.InitialHeight + int64(i)
		base0 := m.nd.Blocks.Base()
		if base0 == 0 {
			base0 = h // the block store is empty until this height is saved
		}
		arm := cr.draw(h, base0)
		var snap *consChain
		standing0 := cr.standing
		if arm.Kind != "" {
			m.script[h] = arm
			cr.kinds = append(cr.kinds, arm.Kind)
			cr.note("h=%d retain=%d (%s, base %d)", h, arm.Retain, arm.Kind, base0)
			cr.cnt["retain."+arm.Kind]++
			if cr.r.Float64() < sh.ForkP {
				snap = &consChain{bdb: m.bdb.snapshot("block"), sdb: m.sdb.snapshot("state"), evdb: m.evdb.snapshot("evidence"), app: m.app.Clone(recapp.Options{})}
			}
		}
		m.win.reset(0)
		if !cr.commitHeight(m, cr.t, h) {
			if m.nd.Halted != "" {
				if cr.fired > 0 {
					c.Count("cases_aborted_after_violation", 1)
				} else {
					c.HarnessError("case %s/%d: the node halted at height %d: %s", cr.spec.Stream, cr.spec.Index, h, m.nd.Halted)
				}
			}
			return
		}
		m.win.open = false
		cr.cnt["heights"]++
		cr.cnt["window_writes.block"] += int64(m.win.perDB[0])
		cr.cnt["window_writes.state"] += int64(m.win.perDB[1])
		if m.win.closedBy != "" {
			c.HarnessError("case %s/%d: height %d: the next SaveBlock began inside the observed height", cr.spec.Stream, cr.spec.Index, h)
		}
		cr.postAudit(h, base0, arm)
		if snap != nil && m.win.writes > 0 {
			cr.forks(snap, standing0, h, base0, arm, m.win.writes)
		}
	}
	if cr.prunes > 0 && cr.crashes > 0 {
		c.Distinct("cons", fmt.Sprintf("%+v", cr.sh), strings.Join(cr.kinds, ","))
	}
	if c.WantSample() && cr.crashes > 0 {
		c.Sample(map[string]interface{}{"stream": "cons", "case": cr.spec.Index, "shape": cr.sh, "retain_heights": cr.tail(10),
			"completed_prunes": cr.prunes, "crashes_injected": cr.crashes, "final_base": cr.prev.Base, "final_height": cr.prev.Height})
	}
}

// draw scripts the retain height the application returns when it commits h.
func (cr *consRunner) draw(h, base0 int64) armed {
	sh, r := cr.sh, cr.r
	if sh.BatchAt > 0 && h < sh.BatchAt {
		return armed{}
	}
	if sh.BatchAt > 0 && h == sh.BatchAt {
		return armed{"batches", base0 + sh.BatchSpan}
	}
	if r.Float64() >= sh.PruneP {
		return armed{}
	}
	switch r.Intn(14) {
	case 0:
		return armed{"equal-base", base0}
	case 1:
		if base0 <= 1 {
			return armed{"equal-base", base0}
		}
		return armed{"far-back", 1 + r.Int63n(base0-1)}
	case 2:
		return armed{"current-height", h}
	case 3:
		return armed{"above-height", h + 1}
	case 4:
		return armed{"above-height", h + 5 + 1000*int64(r.Intn(2))}
	case 5:
		return armed{"negative", -1 - r.Int63n(50)}
	case 6:
		return armed{"zero", 0}
	default:
		if h == base0 {
			return armed{"current-height", h}
		}
		return armed{"ordinary", base0 + 1 + r.Int63n(h-base0)}
	}
}

// commitHeight lets the node of ch decide height h and records the truth from the executor's state.
func (cr *consRunner) commitHeight(ch *consChain, t *truth, h int64) bool {
	res := ch.net.RunSync(h, 200, 4000, nil)
	if ch.nd.Halted != "" {
		return false
	}
	if !res.Decided {
		cr.c.Inconclusive(fmt.Sprintf("cons: height not decided (wedged=%v budget=%v round=%d)", res.Wedged, res.Budget, res.MaxRound))
		return false
	}
	st := ch.nd.CS.GetState()
	if st.LastBlockHeight != h {
		cr.c.HarnessError("case %s/%d: after deciding %d the node's state is at %d", cr.spec.Stream, cr.spec.Index, h, st.LastBlockHeight)
		return false
	}
	cr.learn(ch, t, h)
	if !st.LastBlockID.Equals(t.blockID[h]) {
		cr.c.HarnessError("case %s/%d: block id of %d: proposal on the wire %v, executor state %v", cr.spec.Stream, cr.spec.Index, h, t.blockID[h], st.LastBlockID)
		return false
	}
	if want := t.vals[h+1]; want == nil || string(want.Hash()) != string(st.Validators.Hash()) {
		cr.c.HarnessError("case %s/%d: validator set of %d differs from the one recorded a height earlier", cr.spec.Stream, cr.spec.Index, h+1)
		return false
	}
	if string(st.NextValidators.Hash()) != string(st.Validators.Hash()) {
		cr.cnt["valset_changes"]++
	}
	if old, ok := t.params[h]; ok && !old.Equal(&st.ConsensusParams) {
		cr.cnt["param_changes"]++
	}
	t.vals[h+2] = st.NextValidators.Copy()
	t.params[h+1] = st.ConsensusParams
	return true
}

// learn records the identity of block h from the proposal the node put on the wire (not from a store).
func (cr *consRunner) learn(ch *consChain, t *truth, h int64) {
	if kbs := ch.net.KnownAt[h]; len(kbs) > 0 {
		t.blockID[h] = kbs[len(kbs)-1].BlockID
		if t.first == 0 {
			t.first = h
		}
		if h > t.maxSaved {
			t.maxSaved = h
		}
	}
}

func classTag(phase, class string) string {
	stateMissing := class == "valset-missing" || class == "params-missing"
	if phase == "none" { // a height committed without any retain height
		if stateMissing {
			return "consensus-commit-state-missing-for-stored-block"
		}
		return "consensus-commit-" + class
	}
	switch {
	case stateMissing && phase == "rejected-retain-height":
		return "consensus-prune-rejected-retain-height-lost-state"
	case stateMissing:
		return "consensus-prune-" + phase + "-state-missing-for-stored-block"
	}
	return "consensus-prune-" + phase + "-" + class
}

// inPlace audits the live databases right after a write of the prune was applied.
func (cr *consRunner) inPlace(db *jdb) {
	m := cr.main
	h := m.nd.Blocks.Height() // the committing height is already saved; no consensus lock (the caller holds it)
	cr.learn(m, cr.t, h)
	res := cr.a.audit(m.bdb, m.sdb, &cr.prev)
	cr.prev = res.Desc
	cr.cnt["crash_prefixes_in_place"]++
	if nf := fresh(res, cr.standing); !nf.clean() {
		cr.report("crash", h, m.script[h], m.win.writes, m.win.descr, nf, "in place, after write "+itoa(m.win.writes)+" of the prune")
	}
	cr.standing = setOf(res)
}

func (cr *consRunner) postAudit(h, base0 int64, arm armed) {
	m := cr.main
	res := cr.a.audit(m.bdb, m.sdb, &cr.prev)
	cr.prev = res.Desc
	phase := "done"
	valid := arm.Kind != "" && arm.Retain > base0 && arm.Retain <= h
	switch {
	case arm.Kind == "":
		phase = "none"
	case arm.Retain > h:
		phase = "rejected-retain-height"
	case !valid:
		phase = "noop-retain-height"
	}
	if nf := fresh(res, cr.standing); !nf.clean() {
		cr.report(phase, h, arm, -1, m.win.descr, nf, "the height completed")
	}
	cr.standing = setOf(res)
	if res.Desc.Height != h {
		cr.violation("consensus-commit-height-not-persisted", fmt.Sprintf("after committing %d the persisted height is %d", h, res.Desc.Height), phase, h, arm, -1, m.win.descr, res, res.Fails)
	}
	wantBase := base0
	if valid {
		wantBase = arm.Retain
		cr.prunes++
		cr.cnt["prunes_completed"]++
		if arm.Retain-base0 > pruneBatch {
			cr.cnt["prunes_crossing_batch_boundary"]++
		}
	}
	if res.Desc.Base != wantBase {
		cr.violation("consensus-prune-"+phase+"-wrong-base", fmt.Sprintf("height %d committed with retain height %d (%s), base was %d: base is now %d, want %d",
			h, arm.Retain, arm.Kind, base0, res.Desc.Base, wantBase), phase, h, arm, -1, m.win.descr, res, nil)
	}
	if arm.Kind != "" && !valid && m.win.writes > 0 {
		// nothing may be removed: a refused / pointless retain height that still writes is suspicious, the audit above decides
		cr.cnt["writes_on_refused_or_noop_retain_height"] += int64(m.win.writes)
	}
	if valid {
		left, _, unknown := cr.a.leftovers(m.bdb, arm.Retain)
		if unknown > 0 {
			cr.c.HarnessError("case %s/%d: %d block DB keys of unknown form", cr.spec.Stream, cr.spec.Index, unknown)
		}
		if len(left) > 0 {
			cr.violation("consensus-prune-done-records-below-retain-height-left", fmt.Sprintf("retain height %d (base was %d): still there: %v", arm.Retain, base0, left), phase, h, arm, -1, m.win.descr, res, nil)
		}
		// observation only (not in the statement): results of the retained heights
		ss := sm.NewStore(m.sdb, sm.StoreOptions{})
		for x := res.Desc.Base; x <= res.Desc.Height; x++ {
			if _, err := ss.LoadABCIResponses(x); err != nil {
				cr.cnt["abci_responses_missing_for_retained_height"]++
			} else {
				cr.cnt["abci_responses_present_for_retained_height"]++
			}
		}
	}
	if bs := m.nd.Blocks; bs.Base() != res.Desc.Base || bs.Height() != res.Desc.Height {
		cr.violation("consensus-prune-"+phase+"-live-range-differs-from-persisted", fmt.Sprintf("running store base=%d height=%d, persisted base=%d height=%d",
			bs.Base(), bs.Height(), res.Desc.Base, res.Desc.Height), phase, h, arm, -1, m.win.descr, res, nil)
	}
}

// forks injects a real crash before each of the W prune writes of height h, on copies taken at the boundary before h.
func (cr *consRunner) forks(snap *consChain, standing0 map[string]bool, h, base0 int64, arm armed, W int) {
	for n := 1; n <= W; n++ {
		f := &consChain{bdb: snap.bdb.snapshot("block"), sdb: snap.sdb.snapshot("state"), evdb: snap.evdb.snapshot("evidence"),
			app: snap.app, win: &pruneWindow{}, script: map[int64]armed{h: arm}}
		f.win.reset(n)
		cr.open(f)
		ft := cr.forkTruth(h)
		fa := &auditor{t: ft, sig: cr.a.sig, memo: cr.a.memo, useMemo: true}
		f.net.RunSync(h, 200, 4000, nil)
		halted := f.nd.Halted
		descr := append([]string{}, f.win.descr...)
		if !strings.Contains(halted, crashMarker) {
			f.net.Close()
			if halted != "" {
				cr.c.HarnessError("case %s/%d: fork of height %d halted on its own: %s", cr.spec.Stream, cr.spec.Index, h, halted)
			} else {
				cr.c.HarnessError("case %s/%d: height %d: the main line made %d prune writes, the fork finished before write %d", cr.spec.Stream, cr.spec.Index, h, W, n)
			}
			return
		}
		cr.crashes++
		cr.cnt["crashes_injected"]++
		if strings.Contains(halted, "(block DB") {
			cr.cnt["crashes_injected.before_block_store_write"]++
		} else {
			cr.cnt["crashes_injected.before_state_store_write"]++
		}
		cr.learn(f, ft, h)
		f.net.Close()
		if _, ok := ft.blockID[h]; !ok {
			cr.c.HarnessError("case %s/%d: fork of height %d crashed in the prune but no proposal for %d was seen", cr.spec.Stream, cr.spec.Index, h, h)
			return
		}
		// reopen what is on disk
		f.bdb.beforeWrite, f.sdb.beforeWrite, f.bdb.onWrite, f.sdb.onWrite = nil, nil, nil, nil
		res := fa.audit(f.bdb, f.sdb, nil)
		if res.Desc.Height != h {
			cr.violation("consensus-prune-crash-height-not-persisted", fmt.Sprintf("crash before write %d of the prune after height %d: persisted height %d", n, h, res.Desc.Height), "crash", h, arm, n, descr, res, nil)
		}
		if nf := fresh(res, standing0); !nf.clean() { // failures already standing at the fork point were reported there
			cr.report("crash", h, arm, n, descr, nf, fmt.Sprintf("node halted by a crash before write %d of %d of the prune, stores reopened", n, W))
		}
		baseline := setOf(res)
		// restart a node on these databases and go on
		f.win = &pruneWindow{}
		base1 := res.Desc.Base
		for k := 1; k <= cr.sh.RestartH; k++ {
			x := h + int64(k)
			if k == 1 {
				switch cr.r.Intn(4) {
				case 0: // no pruning asked
				case 1:
					f.script[x] = armed{"restart-same", arm.Retain}
				default:
					if base1 > 0 && x > base1 {
						f.script[x] = armed{"restart-ordinary", base1 + 1 + cr.r.Int63n(x-base1)}
					}
				}
			}
		}
		cr.open(f)
		ok := true
		for k := 1; k <= cr.sh.RestartH && ok; k++ {
			x := h + int64(k)
			f.win.reset(0)
			if !cr.commitHeight(f, ft, x) {
				ok = false
				if f.nd.Halted != "" {
					r2 := fa.audit(f.bdb, f.sdb, nil)
					cr.violation("consensus-prune-restart-node-halted", fmt.Sprintf("crash before write %d of the prune after height %d, restarted: the node halted at height %d: %s", n, h, x, f.nd.Halted),
						"restart", x, f.script[x], n, descr, r2, r2.Fails)
				}
				break
			}
			f.win.open = false
			cr.cnt["heights_after_restart"]++
			r2 := fa.audit(f.bdb, f.sdb, nil)
			if nf := fresh(r2, baseline); !nf.clean() {
				cr.report("restart", x, f.script[x], n, descr, nf, fmt.Sprintf("crash before write %d of the prune after height %d (retain %d), restarted and committed %d with retain height %d",
					n, h, arm.Retain, x, f.script[x].Retain))
			}
			if r2.Desc.Height != x {
				cr.violation("consensus-prune-restart-height-not-persisted", fmt.Sprintf("restarted node committed %d, persisted height %d", x, r2.Desc.Height), "restart", x, f.script[x], n, descr, r2, nil)
			}
			baseline = setOf(r2)
		}
		if ok {
			cr.cnt["restarts_completed"]++
		}
		f.net.Close()
	}
}

// forkTruth: the main line's truth up to the boundary; heights from h on are learnt from the fork itself.
// Validator sets and parameters of later heights are those of the main line (same transactions by height).
func (cr *consRunner) forkTruth(h int64) *truth {
	t := cr.t
	ft := newTruth(t.chainID, t.opts)
	ft.first, ft.maxSaved = t.first, h-1
	if ft.first == h {
		ft.first = 0
	}
	for k, v := range t.blockID {
		if k < h {
			ft.blockID[k] = v
		}
	}
	for k, v := range t.vals {
		ft.vals[k] = v
	}
	for k, v := range t.params {
		ft.params[k] = v
	}
	return ft
}

// ---------------------------------------------------------------- reporting

func (cr *consRunner) note(format string, a ...interface{}) {
	cr.log = append(cr.log, fmt.Sprintf(format, a...))
}

func (cr *consRunner) tail(n int) []string {
	if len(cr.log) <= n {
		return cr.log
	}
	return cr.log[len(cr.log)-n:]
}

func (cr *consRunner) report(phase string, h int64, arm armed, n int, descr []string, res auditResult, where string) {
	byKey := map[string][]failure{}
	var order []string
	keyPhase := phase
	if arm.Kind == "above-height" && phase != "restart" {
		keyPhase = "rejected-retain-height" // whatever is lost here is lost although PruneBlocks refused the retain height
	}
	for _, f := range res.Fails {
		key := classTag(keyPhase, f.Class)
		if _, ok := byKey[key]; !ok {
			order = append(order, key)
		}
		byKey[key] = append(byKey[key], f)
	}
	for _, key := range order {
		fs := byKey[key]
		what := fmt.Sprintf("consensus committed height %d, application returned retain height %d (%s); %s: persisted range base=%d height=%d, but %s",
			h, arm.Retain, arm.Kind, where, res.Desc.Base, res.Desc.Height, fs[0].String())
		if len(fs) > 1 {
			what += fmt.Sprintf(" (and %d more)", len(fs)-1)
		}
		cr.violation(key, what, phase, h, arm, n, descr, res, fs)
	}
}

func (cr *consRunner) violation(key, what, phase string, h int64, arm armed, n int, descr []string, res auditResult, fs []failure) {
	cr.cnt["fired."+key]++
	if len(fs) > 8 {
		fs = fs[:8]
	}
	if cr.c.Violation(key, what, map[string]interface{}{
		"stream": cr.spec.Stream, "case": cr.spec.Index, "seed": cr.c.Seed, "shape": cr.sh,
		"height": h, "retain_height": arm, "phase": phase, "crash_before_prune_write": n, "prune_writes": descr,
		"persisted_base": res.Desc.Base, "persisted_height": res.Desc.Height, "failures": fs, "retain_heights_so_far": cr.tail(12),
	}) {
		cr.fired++
	}
}
