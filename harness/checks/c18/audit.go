package c18

// The oracle of C18: a full audit of what a freshly opened block store and
// state store can produce for every height in [base, height] of the persisted
// range descriptor, against the recorded truth of the generated chain.
//
// Written from the property statement: "Between the block store's base and
// height every block, its parts, its metadata, the commit for it (for the tip,
// the locally seen commit) and its hash index entry can be loaded and agree
// with each other (the block hashes to its id, the commit verifies for it), and
// the state store can produce the validator set and consensus parameters of
// every height in that range."
//
// The real Load* functions are the thing under observation (they are how a
// restarted node reads its disk); what they return is judged here with
// types.PartSet (Merkle proofs of the parts), Block.Hash and ref.TallyCommit.

import (
	"bytes"
	"fmt"
	"io"
	"sort"
	"strconv"
	"strings"

	"github.com/gogo/protobuf/proto"

	tmstore "github.com/tendermint/tendermint/proto/tendermint/store"
	tmproto "github.com/tendermint/tendermint/proto/tendermint/types"
	sm "github.com/tendermint/tendermint/state"
	"github.com/tendermint/tendermint/store"
	"github.com/tendermint/tendermint/types"

	"verif/ref"
)

// truth is what the generated chain really is (recorded from the executor's
// states and the blocks handed to SaveBlock, never read back from a store).
type truth struct {
	chainID  string
	first    int64 // first height ever handed to SaveBlock (0 = none yet)
	maxSaved int64 // highest height ever handed to SaveBlock
	blockID  map[int64]types.BlockID
	vals     map[int64]*types.ValidatorSet // the set that signs height h
	params   map[int64]tmproto.ConsensusParams
	opts     sm.StoreOptions
}

func newTruth(chainID string, opts sm.StoreOptions) *truth {
	return &truth{chainID: chainID, blockID: map[int64]types.BlockID{}, vals: map[int64]*types.ValidatorSet{},
		params: map[int64]tmproto.ConsensusParams{}, opts: opts}
}

type failure struct {
	H      int64  `json:"height"`
	Class  string `json:"class"`
	Detail string `json:"detail,omitempty"`
}

func (f failure) String() string { return fmt.Sprintf("h=%d %s %s", f.H, f.Class, f.Detail) }

// memoKey names one step of the audit: kind 'b' = block data of h (tip or not),
// 's' = validator set and params of h, 'n' = validator set of h only.
type memoKey struct {
	kind byte
	h    int64
	tip  bool
}

// memoEntry is the remembered result of one audit step together with the
// records it read.  On the database it was computed on it is invalidated by
// any later write to one of those keys (jdb.applied); on any other database
// (materialised prefixes, redo copies) it is reused only if every record it
// read has the same bytes there.
type memoEntry struct {
	db    *jdb
	valid bool
	reads []readRec
	fails []failure
}

type auditStats struct {
	audits, heights, memoHits, memoMiss int64
}

type auditor struct {
	t       *truth
	sig     *ref.SigCache
	memo    map[memoKey]*memoEntry
	useMemo bool
	st      auditStats
}

func newAuditor(t *truth) *auditor {
	return &auditor{t: t, sig: ref.NewSigCache(), memo: map[memoKey]*memoEntry{}, useMemo: true}
}

type auditResult struct {
	Desc  tmstore.BlockStoreState
	Fails []failure
}

func (r auditResult) clean() bool { return len(r.Fails) == 0 }

func (r auditResult) digest() string {
	s := make([]string, 0, len(r.Fails)+1)
	for _, f := range r.Fails {
		s = append(s, fmt.Sprintf("%d/%s", f.H, f.Class))
	}
	sort.Strings(s)
	return fmt.Sprintf("%d-%d|%s", r.Desc.Base, r.Desc.Height, strings.Join(s, ","))
}

func guard(fails *[]failure, h int64, what string, f func()) {
	defer func() {
		if r := recover(); r != nil {
			*fails = append(*fails, failure{h, "load-panic", fmt.Sprintf("%s: %v", what, r)})
		}
	}()
	f()
}

// memoised runs compute (a deterministic function of the records it reads from
// db) unless a previous run read exactly the records that are there now.
func (a *auditor) memoised(db *jdb, key memoKey, compute func() []failure) []failure {
	if a.useMemo {
		if e, ok := a.memo[key]; ok {
			if (e.db == db && e.valid) || db.unchanged(e.reads) {
				a.st.memoHits++
				return e.fails
			}
		}
	}
	a.st.memoMiss++
	var fails []failure
	reads := db.trace(func() { fails = compute() })
	if a.useMemo && reads != nil && db.live {
		e := &memoEntry{db: db, valid: true, reads: reads, fails: fails}
		a.memo[key] = e
		db.depend(e)
	}
	return fails
}

// audit opens fresh stores on the two databases and checks everything the
// statement promises for [base, height].  prev (optional) is the descriptor of
// an earlier state of the same database: the range may only move forward.
func (a *auditor) audit(bdb, sdb *jdb, prev *tmstore.BlockStoreState) auditResult {
	a.st.audits++
	var res auditResult
	var bs *store.BlockStore
	guard(&res.Fails, 0, "NewBlockStore", func() {
		bs = store.NewBlockStore(bdb)
		res.Desc = tmstore.BlockStoreState{Base: bs.Base(), Height: bs.Height()}
	})
	if bs == nil {
		return res
	}
	base, height := res.Desc.Base, res.Desc.Height
	if prev != nil && (base < prev.Base || height < prev.Height) {
		res.Fails = append(res.Fails, failure{0, "descriptor-regressed",
			fmt.Sprintf("was base=%d height=%d, now base=%d height=%d", prev.Base, prev.Height, base, height)})
	}
	if base == 0 && height == 0 {
		return res // empty store: nothing is promised
	}
	if base <= 0 || base > height {
		res.Fails = append(res.Fails, failure{0, "descriptor-invalid", fmt.Sprintf("base=%d height=%d", base, height)})
		return res
	}
	if height > a.t.maxSaved || base < a.t.first {
		res.Fails = append(res.Fails, failure{0, "descriptor-beyond-saved",
			fmt.Sprintf("base=%d height=%d but only %d..%d were ever saved", base, height, a.t.first, a.t.maxSaved)})
		return res
	}
	ss := sm.NewStore(sdb, a.t.opts)
	for h := base; h <= height; h++ {
		h := h
		tip := h == height
		a.st.heights++
		res.Fails = append(res.Fails, a.memoised(bdb, memoKey{'b', h, tip}, func() []failure { return a.blockAudit(bs, h, tip) })...)
		res.Fails = append(res.Fails, a.memoised(sdb, memoKey{'s', h, false}, func() []failure { return a.stateAudit(ss, h, true) })...)
	}
	// the validator set of the next height, which consensus needs to go on
	res.Fails = append(res.Fails, a.memoised(sdb, memoKey{'n', height + 1, false}, func() []failure { return a.stateAudit(ss, height+1, false) })...)
	return res
}

func (a *auditor) blockAudit(bs *store.BlockStore, h int64, tip bool) (fails []failure) {
	add := func(class, format string, args ...interface{}) {
		fails = append(fails, failure{h, class, fmt.Sprintf(format, args...)})
	}
	want, known := a.t.blockID[h]
	if !known {
		add("height-never-saved", "")
		return
	}
	var meta *types.BlockMeta
	guard(&fails, h, "LoadBlockMeta", func() { meta = bs.LoadBlockMeta(h) })
	if len(fails) > 0 {
		return
	}
	if meta == nil {
		add("meta-missing", "LoadBlockMeta(%d) = nil", h)
		return
	}
	if meta.Header.Height != h {
		add("meta-wrong-height", "meta of %d has header height %d", h, meta.Header.Height)
		return
	}
	if !ref.SameBlockID(meta.BlockID, want) {
		add("meta-not-the-saved-block", "meta.BlockID=%v saved=%v", meta.BlockID, want)
		return
	}
	if !bytes.Equal(meta.Header.Hash(), meta.BlockID.Hash) {
		add("meta-inconsistent", "meta.Header hashes to %X, meta.BlockID.Hash=%X", meta.Header.Hash(), meta.BlockID.Hash)
	}
	// parts: each loads, sits at its index and proves itself against the part-set header
	ps := types.NewPartSetFromHeader(meta.BlockID.PartSetHeader)
	partsOK := true
	for i := 0; i < int(meta.BlockID.PartSetHeader.Total); i++ {
		var part *types.Part
		n := len(fails)
		guard(&fails, h, "LoadBlockPart", func() { part = bs.LoadBlockPart(h, i) })
		if len(fails) > n {
			partsOK = false
			continue
		}
		if part == nil {
			add("part-missing", "LoadBlockPart(%d,%d) = nil", h, i)
			partsOK = false
			continue
		}
		if int(part.Index) != i {
			add("part-wrong-index", "LoadBlockPart(%d,%d) has index %d", h, i, part.Index)
			partsOK = false
			continue
		}
		if added, err := ps.AddPart(part); err != nil || !added {
			add("part-invalid", "part %d of %d does not fit the part-set header: added=%v err=%v", i, h, added, err)
			partsOK = false
		}
	}
	if partsOK && ps.IsComplete() {
		bz, err := io.ReadAll(ps.GetReader())
		var block *types.Block
		if err == nil {
			pbb := new(tmproto.Block)
			if err = proto.Unmarshal(bz, pbb); err == nil {
				block, err = types.BlockFromProto(pbb)
			}
		}
		switch {
		case err != nil:
			add("block-undecodable", "parts of %d do not decode to a block: %v", h, err)
		case !bytes.Equal(block.Hash(), meta.BlockID.Hash):
			add("block-hash-mismatch", "parts of %d reassemble to block %X, meta says %X", h, block.Hash(), meta.BlockID.Hash)
		default:
			if len(bz) != meta.BlockSize || len(block.Txs) != meta.NumTxs {
				add("meta-inconsistent", "size/numtxs: block %d bytes %d txs, meta %d / %d", len(bz), len(block.Txs), meta.BlockSize, meta.NumTxs)
			}
		}
	}
	// the store's own reassembly and the hash index
	guard(&fails, h, "LoadBlock", func() {
		b := bs.LoadBlock(h)
		if b == nil {
			add("loadblock-nil", "LoadBlock(%d) = nil although its meta exists", h)
		} else if !bytes.Equal(b.Hash(), meta.BlockID.Hash) || b.Height != h {
			add("block-hash-mismatch", "LoadBlock(%d) returns block %X at height %d", h, b.Hash(), b.Height)
		}
	})
	guard(&fails, h, "LoadBlockByHash", func() {
		b := bs.LoadBlockByHash(meta.BlockID.Hash)
		if b == nil {
			add("hashindex-missing", "LoadBlockByHash(%X) = nil, it is block %d", meta.BlockID.Hash, h)
		} else if b.Height != h || !bytes.Equal(b.Hash(), meta.BlockID.Hash) {
			add("hashindex-wrong", "LoadBlockByHash(%X) returns height %d, want %d", meta.BlockID.Hash, b.Height, h)
		}
	})
	// the commit for h: the seen commit at the tip, the canonical one below
	var commit *types.Commit
	kind := "commit"
	if tip {
		kind = "seen-commit"
		guard(&fails, h, "LoadSeenCommit", func() { commit = bs.LoadSeenCommit(h) })
	} else {
		guard(&fails, h, "LoadBlockCommit", func() { commit = bs.LoadBlockCommit(h) })
	}
	if commit == nil {
		add(kind+"-missing", "no %s for block %d", kind, h)
		return
	}
	vals := a.t.vals[h]
	if vals == nil {
		add("height-never-saved", "no recorded validator set")
		return
	}
	tr := ref.TallyCommitCached(a.sig, a.t.chainID, vals, meta.BlockID, h, commit)
	if !tr.OK() {
		add(kind+"-invalid", "%s of %d does not verify for the block: structural=%v forBlock=%v total=%v", kind, h, tr.Structural, tr.ForBlock, tr.Total)
	}
	return
}

func (a *auditor) stateAudit(ss sm.Store, h int64, withParams bool) (fails []failure) {
	add := func(class, format string, args ...interface{}) {
		fails = append(fails, failure{h, class, fmt.Sprintf(format, args...)})
	}
	if want := a.t.vals[h]; want == nil {
		add("height-never-saved", "no recorded validator set for %d", h)
	} else {
		guard(&fails, h, "LoadValidators", func() {
			vs, err := ss.LoadValidators(h)
			switch {
			case err != nil:
				add("valset-missing", "LoadValidators(%d): %v", h, err)
			case vs == nil || !bytes.Equal(vs.Hash(), want.Hash()):
				add("valset-mismatch", "LoadValidators(%d) hash %X, chain has %X", h, vs.Hash(), want.Hash())
			}
		})
	}
	if !withParams {
		return
	}
	if want, ok := a.t.params[h]; !ok {
		add("height-never-saved", "no recorded consensus params for %d", h)
	} else {
		guard(&fails, h, "LoadConsensusParams", func() {
			p, err := ss.LoadConsensusParams(h)
			switch {
			case err != nil:
				add("params-missing", "LoadConsensusParams(%d): %v", h, err)
			case !p.Equal(&want):
				add("params-mismatch", "LoadConsensusParams(%d) = %v, chain has %v", h, p, want)
			}
		})
	}
	return
}

// leftovers scans the raw block DB for records of heights below r (after a
// completed, never crashed PruneBlocks(r) nothing below r may be left).
// C:<first-1> is exempt: it is the (empty) last-commit of the first block ever
// saved, a record of a height that never was in the store.
func (a *auditor) leftovers(bdb *jdb, r int64) (left []string, exemptSeen bool, unknown int) {
	it, err := bdb.inner.Iterator(nil, nil)
	if err != nil {
		panic(err)
	}
	defer it.Close()
	for ; it.Valid(); it.Next() {
		k := string(it.Key())
		var h int64 = -1
		switch {
		case k == "blockStore":
			continue
		case strings.HasPrefix(k, "H:"):
			h = atoi64(k[2:])
		case strings.HasPrefix(k, "P:"):
			rest := k[2:]
			if i := strings.IndexByte(rest, ':'); i >= 0 {
				h = atoi64(rest[:i])
			}
		case strings.HasPrefix(k, "SC:"):
			h = atoi64(k[3:])
		case strings.HasPrefix(k, "C:"):
			h = atoi64(k[2:])
			if h == a.t.first-1 {
				exemptSeen = true
				continue
			}
		case strings.HasPrefix(k, "BH:"):
			h = atoi64(string(it.Value()))
		default:
			unknown++
			continue
		}
		if h < 0 {
			unknown++
			continue
		}
		if h < r {
			if len(left) < 12 {
				left = append(left, k)
			} else if len(left) == 12 {
				left = append(left, "…")
			}
		}
	}
	return
}

func atoi64(s string) int64 {
	v, err := strconv.ParseInt(s, 10, 64)
	if err != nil {
		return -1
	}
	return v
}
