package c18

// jdb ("journaling DB", the countingDB of DESIGN.md C18): a tm-db DB over a
// MemDB that
//   - journals every mutating call while recording is on; a Batch.Write /
//     WriteSync is ONE atomic journal element holding all its operations,
//   - calls onWrite after every applied element (the DB at that instant IS the
//     database after that prefix of the write sequence),
//   - can log which keys a computation read, with a fingerprint of the value
//     (used to memoise audit results soundly: an audit step is a deterministic
//     function of the records it reads).
//
// One jdb is used by one goroutine at a time (one case = one goroutine).

import (
	"errors"
	"hash/maphash"

	dbm "github.com/tendermint/tm-db"
)

type opRec struct {
	Del bool
	Key []byte
	Val []byte
}

// elem is one atomic element of the write sequence.
type elem struct {
	Kind string // set | setsync | delete | deletesync | batch | batchsync
	Ops  []opRec
}

type readRec struct {
	key string
	fp  uint64
	n   int // len(value), -1 = absent
}

type readLog struct {
	recs      []readRec
	seen      map[string]struct{}
	untraced  bool // an iterator was opened: the computation cannot be memoised
	keysTotal int
}

type jdb struct {
	name      string
	inner     *dbm.MemDB
	recording bool
	journal   []elem
	onWrite   func(db *jdb, idx int) // idx = index of the element just applied
	// beforeWrite is called with every element before it is applied; a crash is injected by panicking here
	// (the element and everything after it never reach the database)
	beforeWrite func(db *jdb, e elem)
	rd          *readLog
	writes      int64 // elements applied over the lifetime
	live        bool  // one of the two databases of the running chain: memo entries are kept for it
	deps        map[string][]*memoEntry
}

var fpSeed = maphash.MakeSeed()

func fingerprint(v []byte) (uint64, int) {
	if v == nil {
		return 0, -1
	}
	return maphash.Bytes(fpSeed, v), len(v)
}

func newJDB(name string) *jdb { return &jdb{name: name, inner: dbm.NewMemDB()} }

var _ dbm.DB = (*jdb)(nil)

func cpb(b []byte) []byte {
	if b == nil {
		return nil
	}
	return append([]byte{}, b...)
}

func (d *jdb) note(key, val []byte) {
	if d.rd == nil {
		return
	}
	k := string(key)
	if _, ok := d.rd.seen[k]; ok {
		return
	}
	d.rd.seen[k] = struct{}{}
	fp, n := fingerprint(val)
	d.rd.recs = append(d.rd.recs, readRec{k, fp, n})
}

func (d *jdb) Get(key []byte) ([]byte, error) {
	v, err := d.inner.Get(key)
	if err == nil {
		d.note(key, v)
	}
	return v, err
}

func (d *jdb) Has(key []byte) (bool, error) {
	v, err := d.inner.Get(key)
	if err != nil {
		return false, err
	}
	d.note(key, v)
	return v != nil, nil
}

// depend registers a memo entry under every key it read.
func (d *jdb) depend(e *memoEntry) {
	if d.deps == nil {
		d.deps = map[string][]*memoEntry{}
	}
	for _, r := range e.reads {
		lst := d.deps[r.key]
		keep := lst[:0]
		for _, o := range lst {
			if o.valid {
				keep = append(keep, o)
			}
		}
		d.deps[r.key] = append(keep, e)
	}
}

func (d *jdb) applied(e elem) {
	d.writes++
	if d.deps != nil {
		for _, o := range e.Ops {
			if lst, ok := d.deps[string(o.Key)]; ok {
				for _, me := range lst {
					me.valid = false
				}
				delete(d.deps, string(o.Key))
			}
		}
	}
	if d.recording {
		d.journal = append(d.journal, e)
	}
	if d.onWrite != nil {
		d.onWrite(d, len(d.journal)-1)
	}
}

func (d *jdb) set(kind string, key, val []byte) error {
	if d.beforeWrite != nil {
		d.beforeWrite(d, elem{Kind: kind, Ops: []opRec{{Key: key, Val: val}}})
	}
	if err := d.inner.Set(key, val); err != nil {
		return err
	}
	d.applied(elem{Kind: kind, Ops: []opRec{{Key: cpb(key), Val: cpb(val)}}})
	return nil
}

func (d *jdb) del(kind string, key []byte) error {
	if d.beforeWrite != nil {
		d.beforeWrite(d, elem{Kind: kind, Ops: []opRec{{Del: true, Key: key}}})
	}
	if err := d.inner.Delete(key); err != nil {
		return err
	}
	d.applied(elem{Kind: kind, Ops: []opRec{{Del: true, Key: cpb(key)}}})
	return nil
}

func (d *jdb) Set(key, val []byte) error     { return d.set("set", key, val) }
func (d *jdb) SetSync(key, val []byte) error { return d.set("setsync", key, val) }
func (d *jdb) Delete(key []byte) error       { return d.del("delete", key) }
func (d *jdb) DeleteSync(key []byte) error   { return d.del("deletesync", key) }

func (d *jdb) Iterator(start, end []byte) (dbm.Iterator, error) {
	if d.rd != nil {
		d.rd.untraced = true
	}
	return d.inner.Iterator(start, end)
}

func (d *jdb) ReverseIterator(start, end []byte) (dbm.Iterator, error) {
	if d.rd != nil {
		d.rd.untraced = true
	}
	return d.inner.ReverseIterator(start, end)
}

func (d *jdb) Close() error             { return nil } // the MemDB stays readable for the audit
func (d *jdb) Print() error             { return d.inner.Print() }
func (d *jdb) Stats() map[string]string { return d.inner.Stats() }
func (d *jdb) NewBatch() dbm.Batch      { return &jbatch{db: d} }

var errBatchClosed = errors.New("batch has been written or closed")

type jbatch struct {
	db     *jdb
	ops    []opRec
	closed bool
}

func (b *jbatch) Set(key, val []byte) error {
	if b.closed {
		return errBatchClosed
	}
	if len(key) == 0 {
		return errors.New("key cannot be empty")
	}
	if val == nil {
		return errors.New("value cannot be nil")
	}
	b.ops = append(b.ops, opRec{Key: cpb(key), Val: cpb(val)})
	return nil
}

func (b *jbatch) Delete(key []byte) error {
	if b.closed {
		return errBatchClosed
	}
	if len(key) == 0 {
		return errors.New("key cannot be empty")
	}
	b.ops = append(b.ops, opRec{Del: true, Key: cpb(key)})
	return nil
}

func (b *jbatch) write(kind string) error {
	if b.closed {
		return errBatchClosed
	}
	if b.db.beforeWrite != nil {
		b.db.beforeWrite(b.db, elem{Kind: kind, Ops: b.ops})
	}
	ib := b.db.inner.NewBatch() // applied under the MemDB lock in one go
	for _, o := range b.ops {
		var err error
		if o.Del {
			err = ib.Delete(o.Key)
		} else {
			err = ib.Set(o.Key, o.Val)
		}
		if err != nil {
			return err
		}
	}
	if err := ib.Write(); err != nil {
		return err
	}
	_ = ib.Close()
	ops := b.ops
	b.ops, b.closed = nil, true
	b.db.applied(elem{Kind: kind, Ops: ops})
	return nil
}

func (b *jbatch) Write() error     { return b.write("batch") }
func (b *jbatch) WriteSync() error { return b.write("batchsync") }
func (b *jbatch) Close() error     { b.ops, b.closed = nil, true; return nil }

// startRecording clears the journal and records from now on.
func (d *jdb) startRecording() { d.journal, d.recording = nil, true }

// stopRecording returns the journal of the bracketed operation.
func (d *jdb) stopRecording() []elem {
	j := d.journal
	d.journal, d.recording = nil, false
	return j
}

// snapshot copies the current contents into a fresh jdb (values are shared,
// nobody mutates them).
func (d *jdb) snapshot(name string) *jdb {
	n := newJDB(name)
	it, err := d.inner.Iterator(nil, nil)
	if err != nil {
		panic(err)
	}
	defer it.Close()
	for ; it.Valid(); it.Next() {
		if err := n.inner.Set(it.Key(), it.Value()); err != nil {
			panic(err)
		}
	}
	return n
}

// apply replays journal elements onto the DB without journaling or callbacks.
func (d *jdb) apply(els []elem) {
	for _, e := range els {
		for _, o := range e.Ops {
			var err error
			if o.Del {
				err = d.inner.Delete(o.Key)
			} else {
				err = d.inner.Set(o.Key, o.Val)
			}
			if err != nil {
				panic(err)
			}
		}
	}
}

// materialise = base snapshot + the first k elements of a journal, in a fresh DB.
func materialise(base *jdb, journal []elem, k int, name string) *jdb {
	n := base.snapshot(name)
	n.apply(journal[:k])
	return n
}

// trace runs f with read logging on and returns the reads (nil if f used an
// iterator and therefore cannot be memoised).
func (d *jdb) trace(f func()) []readRec {
	old := d.rd
	d.rd = &readLog{seen: map[string]struct{}{}}
	defer func() { d.rd = old }()
	f()
	if d.rd.untraced {
		return nil
	}
	return d.rd.recs
}

// unchanged reports whether every recorded read would return the same bytes now.
func (d *jdb) unchanged(recs []readRec) bool {
	for _, r := range recs {
		v, err := d.inner.Get([]byte(r.key))
		if err != nil {
			return false
		}
		fp, n := fingerprint(v)
		if fp != r.fp || n != r.n {
			return false
		}
	}
	return true
}

func describeElem(e elem) string {
	s := e.Kind + "["
	for i, o := range e.Ops {
		if i == 6 && len(e.Ops) > 8 {
			s += "…(" + itoa(len(e.Ops)) + " ops) "
			o = e.Ops[len(e.Ops)-1]
			if o.Del {
				s += "del " + string(o.Key)
			} else {
				s += "set " + string(o.Key)
			}
			break
		}
		if i > 0 {
			s += " "
		}
		if o.Del {
			s += "del " + string(o.Key)
		} else {
			s += "set " + string(o.Key)
		}
	}
	return s + "]"
}

func itoa(i int) string {
	if i == 0 {
		return "0"
	}
	neg := i < 0
	if neg {
		i = -i
	}
	var b [20]byte
	p := len(b)
	for i > 0 {
		p--
		b[p] = byte('0' + i%10)
		i /= 10
	}
	if neg {
		p--
		b[p] = '-'
	}
	return string(b[p:])
}
