package c07

// Stream "alias": pairs of block ids (B, B') that differ field-wise but are
// built so that some simple serialisation of them coincides - the boundary
// between Hash and the (encoded) PartSetHeader shifted, protobuf tag/length
// bytes hidden inside hash bytes, hash and parts hash swapped or moved, an
// all-zero field versus an absent one.  Both ids always pass
// BlockID.ValidateBasic (hash lengths 0 or 32).
//
// Every pair is presented
//
//	(a) to the commit entry points, with ALL signatures genuinely over B':
//	    v0  asked for B,  commit.BlockID = B'   (the id comparison is what protects)
//	    v1  asked for B', commit.BlockID = B    (same, other direction)
//	    v2  asked for B,  commit.BlockID = B    (the sign bytes are what protects;
//	                                            also VerifyCommitLightTrusting)
//	    v3  control: asked for a field-wise equal copy of B' (nil <-> empty
//	        slices flipped), commit.BlockID = B': must be accepted
//	    judged by evaluate() against ref.TallyCommit: signatures over any other
//	    block id never count, "exactly that block id";
//	(b) directly to BlockID.Equals / PartSetHeader.Equals against the field-wise
//	    reference ref.SameBlockID (keys BlockID.Equals-true-for-different-ids,
//	    BlockID.Equals-false-for-identical-ids).

import (
	"bytes"
	"encoding/binary"
	"fmt"
	"math/rand"
	"time"

	"github.com/tendermint/tendermint/types"

	"verif/ref"
)

const (
	aliasStream   = "alias"
	aliasVariants = 4
)

var aliasFamilies = []string{
	"tagged-concat-shift:{-,{0,p}}~{h,{t,-}}",
	"tagged-concat-shift,empty-slices",
	"fixed32be-concat-shift:{h,{t,-}}~{-,{t2,p}}",
	"fixed32le-concat-shift:{h,{t,-}}~{-,{t2,p}}",
	"varint-concat-shift:{h,{t,-}}~{-,{t2,p}}",
	"hash-and-parts-hash-swapped:{h,{t,p}}~{p,{t,h}}",
	"hash-moved-to-parts-hash:{h,{0,-}}~{-,{0,h}}",
	"hash-moved-to-parts-hash,total-kept:{h,{t,-}}~{-,{t,h}}",
	"zero-hash-vs-absent:{0^32,{t,p}}~{-,{t,p}}",
	"zero-parts-hash-vs-absent:{h,{t,0^32}}~{h,{t,-}}",
	"total-as-proto-tail-of-hash:{h,{t,-}}~{h[2:]|08 t,{0,-}}",
	"total-zero-vs-hash-tail:{h,{0,p}}~{h,{p[31],p'}}",
}

// aliasPair builds the pair of the given family.
func aliasPair(r *rand.Rand, fam int) (a, b types.BlockID) {
	h, p := rnd(r, 32), rnd(r, 32)
	t := uint32(1 + r.Intn(127))
	switch fam {
	case 0, 1:
		// hash || proto(parts): 12 20 p  ==  h || 08 t
		p[30], p[31] = 0x08, byte(t)
		hh := append([]byte{0x12, 0x20}, p[:30]...)
		a = types.BlockID{PartSetHeader: types.PartSetHeader{Hash: p}}
		b = types.BlockID{Hash: hh, PartSetHeader: types.PartSetHeader{Total: t}}
		if fam == 1 {
			a.Hash = []byte{}
			b.PartSetHeader.Hash = []byte{}
		}
	case 2, 3:
		// hash || fixed32(total) || parts hash
		t = 1 + uint32(r.Int63n(1<<32-1))
		var t2 uint32
		var tb [4]byte
		if fam == 2 {
			t2 = binary.BigEndian.Uint32(h[:4])
			binary.BigEndian.PutUint32(tb[:], t)
		} else {
			t2 = binary.LittleEndian.Uint32(h[:4])
			binary.LittleEndian.PutUint32(tb[:], t)
		}
		if t2 == 0 {
			h[0], t2 = 1, t2|1
			if fam == 2 {
				t2 = binary.BigEndian.Uint32(h[:4])
			} else {
				t2 = binary.LittleEndian.Uint32(h[:4])
			}
		}
		copy(p[:28], h[4:])
		copy(p[28:], tb[:])
		a = types.BlockID{Hash: h, PartSetHeader: types.PartSetHeader{Total: t}}
		b = types.BlockID{PartSetHeader: types.PartSetHeader{Total: t2, Hash: p}}
	case 4:
		// hash || uvarint(total) || parts hash
		t2 := uint32(1 + r.Intn(127))
		h[0] = byte(t2)
		copy(p[:31], h[1:])
		p[31] = byte(t)
		a = types.BlockID{Hash: h, PartSetHeader: types.PartSetHeader{Total: t}}
		b = types.BlockID{PartSetHeader: types.PartSetHeader{Total: t2, Hash: p}}
	case 5:
		a = types.BlockID{Hash: h, PartSetHeader: types.PartSetHeader{Total: t, Hash: p}}
		b = types.BlockID{Hash: cpb(p), PartSetHeader: types.PartSetHeader{Total: t, Hash: cpb(h)}}
	case 6:
		a = types.BlockID{Hash: h}
		b = types.BlockID{PartSetHeader: types.PartSetHeader{Hash: cpb(h)}}
	case 7:
		a = types.BlockID{Hash: h, PartSetHeader: types.PartSetHeader{Total: t}}
		b = types.BlockID{PartSetHeader: types.PartSetHeader{Total: t, Hash: cpb(h)}}
	case 8:
		a = types.BlockID{Hash: make([]byte, 32), PartSetHeader: types.PartSetHeader{Total: t, Hash: p}}
		b = types.BlockID{PartSetHeader: types.PartSetHeader{Total: t, Hash: cpb(p)}}
	case 9:
		a = types.BlockID{Hash: h, PartSetHeader: types.PartSetHeader{Total: t, Hash: make([]byte, 32)}}
		b = types.BlockID{Hash: cpb(h), PartSetHeader: types.PartSetHeader{Total: t}}
	case 10:
		// h || 08 t, read as a 32-byte hash two bytes further on
		hh := append(cpb(h[2:]), 0x08, byte(t))
		a = types.BlockID{Hash: h, PartSetHeader: types.PartSetHeader{Total: t}}
		b = types.BlockID{Hash: hh}
	default:
		// total 0 is omitted from an encoding; the last byte of the parts hash plays the total
		p2 := append([]byte{0}, p[:31]...)
		a = types.BlockID{Hash: h, PartSetHeader: types.PartSetHeader{Hash: p}}
		b = types.BlockID{Hash: cpb(h), PartSetHeader: types.PartSetHeader{Total: uint32(p[31]) | 1, Hash: p2}}
	}
	return a, b
}

// flipEmpties returns a field-wise equal copy in which nil and empty slices are exchanged.
func flipEmpties(b types.BlockID) types.BlockID {
	f := func(x []byte) []byte {
		switch {
		case x == nil:
			return []byte{}
		case len(x) == 0:
			return nil
		}
		return cpb(x)
	}
	return types.BlockID{Hash: f(b.Hash), PartSetHeader: types.PartSetHeader{Total: b.PartSetHeader.Total, Hash: f(b.PartSetHeader.Hash)}}
}

func bidS(b types.BlockID) string {
	return fmt.Sprintf("{hash:%x parts:{total:%d hash:%x}}", b.Hash, b.PartSetHeader.Total, b.PartSetHeader.Hash)
}

func (g *gen) checkEquals(x, y types.BlockID, what string, id map[string]interface{}, st stats) {
	want := ref.SameBlockID(x, y)
	var got, gotP bool
	_, desc, panicked := call(func() error {
		got = x.Equals(y)
		gotP = x.PartSetHeader.Equals(y.PartSetHeader)
		return nil
	})
	st[fmt.Sprintf("Equals.checked.reference=%v", want)]++
	wantP := x.PartSetHeader.Total == y.PartSetHeader.Total && bytes.Equal(x.PartSetHeader.Hash, y.PartSetHeader.Hash)
	w := func() map[string]interface{} {
		m := map[string]interface{}{"x": bidS(x), "y": bidS(y), "pair": what, "BlockID.Equals": got, "PartSetHeader.Equals": gotP, "field_wise_equal": want, "panic": desc}
		for k, v := range id {
			m[k] = v
		}
		return m
	}
	switch {
	case panicked:
		g.c.Violation("BlockID.Equals-panics", "BlockID.Equals panicked on two ids that pass ValidateBasic: "+desc, w())
	case got && !want:
		g.c.Violation("BlockID.Equals-true-for-different-ids", fmt.Sprintf("BlockID.Equals(%s, %s) = true although the ids differ field by field (%s)", bidS(x), bidS(y), what), w())
	case !got && want:
		g.c.Violation("BlockID.Equals-false-for-identical-ids", fmt.Sprintf("BlockID.Equals(%s, %s) = false although every field is equal (%s)", bidS(x), bidS(y), what), w())
	}
	if !panicked && gotP != wantP {
		g.c.Violation("PartSetHeader.Equals-differs-from-field-wise-comparison", fmt.Sprintf("PartSetHeader.Equals of %s and %s = %v (%s)", bidS(x), bidS(y), gotP, what), w())
	}
}

func (g *gen) runAlias(idx int, st stats) {
	c := g.c
	r := c.Rand(aliasStream, idx)
	loc := stats{}
	defer func() {
		for k, v := range loc {
			st["alias/"+k] += v
		}
	}()
	fi := idx % len(aliasFamilies)
	fam := aliasFamilies[fi]
	B, B2 := aliasPair(r, fi)
	if r.Intn(2) == 0 {
		B, B2 = B2, B
	}
	id := map[string]interface{}{"stream": aliasStream, "case": idx, "seed": c.Seed, "family": fam}
	if ref.SameBlockID(B, B2) || ref.IsNilBlockID(B) || ref.IsNilBlockID(B2) || B.ValidateBasic() != nil || B2.ValidateBasic() != nil {
		c.HarnessError("alias case %d (%s): generator produced an unusable pair %s / %s", idx, fam, bidS(B), bidS(B2))
		return
	}
	loc["family."+fam]++

	// ---- (b) the comparison itself
	g.checkEquals(B, B2, "aliasing pair", id, loc)
	g.checkEquals(B2, B, "aliasing pair", id, loc)
	g.checkEquals(B, copyBlockID(B), "copy", id, loc)
	g.checkEquals(B2, flipEmpties(B2), "copy with nil/empty slices exchanged", id, loc)
	g.checkEquals(flipEmpties(B), B, "copy with nil/empty slices exchanged", id, loc)
	o, _ := otherBlockID(r, randBlockID(r), r.Intn(4))
	g.checkEquals(o, randBlockID(r), "unrelated ids", id, loc)
	one := randBlockID(r)
	oneOff, what := otherBlockID(r, one, r.Intn(4))
	g.checkEquals(one, oneOff, "one field changed: "+what, id, loc)

	// ---- (a) a commit genuinely signed over B2
	n := 1 + r.Intn(6)
	perm := r.Perm(poolSize)
	valz := make([]*types.Validator, n)
	keyByAddr := map[string]int{}
	for i := 0; i < n; i++ {
		valz[i] = types.NewValidator(g.pool[perm[i]].pub, 1+r.Int63n(100))
		keyByAddr[string(valz[i].Address)] = perm[i]
	}
	vals := types.NewValidatorSet(valz)
	b := &base{stream: aliasStream, idx: idx, sample: -1, dist: "random-small", tuned: "none", vals: vals, outside: perm[n:],
		chainID: fmt.Sprintf("chain-%x", r.Int63n(1<<20)), height: 1 + r.Int63n(1000000), round: int32(r.Intn(3)), blockID: B2,
		tl: stdLevels[r.Intn(len(stdLevels))]}
	b.keyOf = make([]int, n)
	t0 := time.Unix(1600000000+r.Int63n(100000000), r.Int63n(1000000000)).UTC()
	sigs := make([]types.CommitSig, n)
	for i, v := range vals.Validators {
		b.keyOf[i] = keyByAddr[string(v.Address)]
		ts := t0.Add(time.Duration(r.Int63n(int64(10 * time.Second))))
		sigs[i] = types.CommitSig{BlockIDFlag: types.BlockIDFlagCommit, ValidatorAddress: cpb(v.Address), Timestamp: ts,
			Signature: g.sign(b.keyOf[i], b.chainID, ref.MsgPrecommit, b.height, b.round, B2, ts)}
	}
	b.commit = &types.Commit{Height: b.height, Round: b.round, BlockID: copyBlockID(B2), Signatures: sigs}

	cache := ref.NewSigCache()
	for vi := 0; vi < aliasVariants; vi++ {
		v := b.newVariant()
		switch vi {
		case 0:
			v.blockID = copyBlockID(B)
			v.muts = []string{"alias:" + fam, "asked=B,commit=B',signed=B'"}
		case 1:
			v.commit.BlockID = copyBlockID(B)
			v.muts = []string{"alias:" + fam, "asked=B',commit=B,signed=B'"}
		case 2:
			v.blockID = copyBlockID(B)
			v.commit.BlockID = copyBlockID(B)
			v.muts = []string{"alias:" + fam, "asked=B,commit=B,signed=B'"}
		default:
			v.blockID = flipEmpties(B2)
			v.muts = []string{"alias:" + fam, "control:asked=copy-of-B'(nil/empty exchanged),commit=B',signed=B'"}
		}
		fullBefore, lightBefore, trustBefore := loc["VerifyCommit.accept=true"], loc["VerifyCommitLight.accept=true"], loc["VerifyCommitLightTrusting.accept=true"]
		g.evaluate(b, vi, v, cache, loc)
		loc[fmt.Sprintf("presentation.%s: full=%v light=%v trusting=%v", v.muts[1], loc["VerifyCommit.accept=true"] > fullBefore,
			loc["VerifyCommitLight.accept=true"] > lightBefore, loc["VerifyCommitLightTrusting.accept=true"] > trustBefore)]++
	}
}
