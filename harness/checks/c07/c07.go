// Package c07: a commit is accepted only with enough distinct valid signatures
// for that block (DESIGN.md C07).
//
// Differential monitor.  The three real entry points
//
//	(*types.ValidatorSet).VerifyCommit(chainID, blockID, height, commit)
//	(*types.ValidatorSet).VerifyCommitLight(chainID, blockID, height, commit)
//	(*types.ValidatorSet).VerifyCommitLightTrusting(chainID, commit, trustLevel)
//
// are run on generated validator sets / commits / call parameters (genuine,
// tuned to the threshold, and mutated) and every verdict is compared with the
// big-integer reference tally ref.TallyCommit / ref.TallyCommitTrustingDetail.
//
// Statement-level contract of each entry point, as read from
// types/validator_set.go and the property statement (this is ALL the monitor
// demands; nothing is inferred from how the code happens to be written):
//
// VerifyCommit  ("full"; walks every slot, slot i <-> validator i)
//
//	soundness:    returns nil  =>  len(sigs)==len(vals), commit.Height==height,
//	              commit.BlockID==blockID, and the power of the distinct
//	              validators i whose slot i is flagged commit and carries a
//	              signature of validator i over (chainID, height, commit.Round,
//	              blockID, slot timestamp) satisfies 3*sum > 2*total.
//	completeness: those preconditions hold, 3*sum > 2*total AND every
//	              non-absent slot (commit or nil flag) carries a valid
//	              signature for what its flag says  =>  returns nil.
//	              (One invalid non-absent signature anywhere entitles it to
//	              reject; the property does not oblige it to, so "accepted
//	              although a nil-flagged signature is invalid" is only counted.)
//
// VerifyCommitLight  ("early exit"; same indexing, skips nil/absent slots,
//
//	returns as soon as the tally exceeds 2/3)
//	soundness:    exactly as VerifyCommit.
//	completeness: only on commits ALL of whose signatures are valid: then it
//	              must accept iff the reference accepts, i.e. agree with
//	              VerifyCommit.  On a commit with enough valid for-block power
//	              that also contains an invalid signature it may accept (the
//	              bad slot lies after the exit point) or reject (before it):
//	              neither is demanded.
//
// VerifyCommitLightTrusting  (signers looked up BY ADDRESS in a possibly
//
//	different set; no blockID/height parameter: the block is commit.BlockID)
//	soundness:    returns nil  =>  den*sum > num*total in big integers, where
//	              sum is the power of distinct members of vals owning a
//	              commit-flagged slot with their valid signature over (chainID,
//	              commit.Height, commit.Round, commit.BlockID, slot timestamp).
//	              This holds for EVERY fraction, including ones whose fields
//	              do not fit an int64.
//	completeness: den*sum > num*total, every commit-flagged slot of a known
//	              address is valid, no member owns two commit-flagged slots,
//	              and num, den, num*total all fit an int64  =>  returns nil.
//	              A double signer or an arithmetic overflow entitles it to an
//	              error whatever the tally.
//
// A panic of an entry point is treated as "did not accept".
package c07

import (
	stded "crypto/ed25519"
	"crypto/sha256"
	"encoding/binary"
	"encoding/hex"
	"fmt"
	"math"
	"math/big"
	"math/rand"
	"runtime"
	"sort"
	"strings"
	"sync"
	"sync/atomic"
	"time"

	tmed "github.com/tendermint/tendermint/crypto/ed25519"
	tmmath "github.com/tendermint/tendermint/libs/math"
	tmproto "github.com/tendermint/tendermint/proto/tendermint/types"
	"github.com/tendermint/tendermint/types"

	"verif/ref"
	"verif/verdict"
)

const (
	stream      = "commit"
	poolSize    = 320
	variantsPer = 8
	maxTotal    = int64(math.MaxInt64) / 8 // spec: MaxTotalVotingPower
)

// ------------------------------------------------------------------ key pool

type keyEntry struct {
	priv stded.PrivateKey
	pub  tmed.PubKey
	addr []byte
}

func buildPool(c *verdict.Ctx) []keyEntry {
	pool := make([]keyEntry, poolSize)
	for i := range pool {
		var b [8]byte
		binary.LittleEndian.PutUint64(b[:], uint64(c.SubSeed("key", i)))
		seed := sha256.Sum256(b[:])
		priv := stded.NewKeyFromSeed(seed[:])
		pub := tmed.PubKey(append([]byte{}, priv.Public().(stded.PublicKey)...))
		pool[i] = keyEntry{priv: priv, pub: pub, addr: pub.Address()}
	}
	return pool
}

type gen struct {
	c    *verdict.Ctx
	pool []keyEntry
}

func (g *gen) sign(key int, chainID string, msgType int32, height int64, round int32, bid types.BlockID, ts time.Time) []byte {
	msg := ref.CanonicalVoteSignBytes(chainID, msgType, height, round, bid, ts)
	return stded.Sign(g.pool[key].priv, msg)
}

// ------------------------------------------------------------------ base case

type base struct {
	stream  string
	idx     int
	sample  int // variant to write out as a sample, -1 none
	chainID string
	height  int64
	round   int32
	blockID types.BlockID
	vals    *types.ValidatorSet
	keyOf   []int // pool index of validator i
	outside []int // pool indexes not in the set
	commit  *types.Commit
	dist    string
	tuned   string
	tl      tmmath.Fraction
}

func sizeN(r *rand.Rand, thorough bool) int {
	if r.Intn(500) == 0 {
		return 0
	}
	x := r.Intn(100)
	a, b, cc := 30, 65, 88
	if thorough {
		a, b, cc = 55, 85, 96
	}
	switch {
	case x < a:
		return 1 + r.Intn(7)
	case x < b:
		return 8 + r.Intn(33)
	case x < cc:
		return 41 + r.Intn(60)
	default:
		return 101 + r.Intn(100)
	}
}

var stdLevels = []tmmath.Fraction{{Numerator: 1, Denominator: 3}, {Numerator: 1, Denominator: 2}, {Numerator: 2, Denominator: 3}, {Numerator: 1, Denominator: 1}}
var oddLevels = []tmmath.Fraction{{Numerator: 3, Denominator: 7}, {Numerator: 0, Denominator: 1}, {Numerator: 1, Denominator: 0}, {Numerator: 5, Denominator: 4},
	{Numerator: 2, Denominator: 2}, {Numerator: 99, Denominator: 100}, {Numerator: 1, Denominator: 1000}, {Numerator: 0, Denominator: 0}, {Numerator: 4, Denominator: 6}}

func pickLevel(r *rand.Rand, total int64) tmmath.Fraction {
	switch x := r.Intn(100); {
	case x < 68:
		return stdLevels[r.Intn(len(stdLevels))]
	case x < 82:
		return oddLevels[r.Intn(len(oddLevels))]
	}
	if total < 1 {
		total = 1
	}
	edge := uint64(math.MaxInt64 / total) // largest numerator whose product with total fits an int64
	big := []tmmath.Fraction{
		{Numerator: edge, Denominator: edge/2*3 + 2},         // just fits
		{Numerator: edge + 1, Denominator: (edge+1)/2*3 + 2}, // just overflows
		{Numerator: edge, Denominator: edge},
		{Numerator: edge/3 + 1, Denominator: edge},
		{Numerator: math.MaxInt64, Denominator: math.MaxInt64},
		{Numerator: math.MaxInt64 / 3, Denominator: math.MaxInt64},
		{Numerator: 1 << 62, Denominator: 3 << 61},
		{Numerator: 1 << 63, Denominator: 3},
		{Numerator: 1<<63 + 1, Denominator: 1<<63 + 3},
		{Numerator: math.MaxUint64, Denominator: 3},
		{Numerator: math.MaxUint64, Denominator: math.MaxUint64},
		{Numerator: math.MaxUint64, Denominator: math.MaxUint64 - 2},
		{Numerator: math.MaxUint64 - 1, Denominator: math.MaxUint64 - 2},
		{Numerator: 1, Denominator: math.MaxUint64},
		{Numerator: 1, Denominator: 1 << 63},
		{Numerator: 1<<63 - 1, Denominator: 1 << 63},
		{Numerator: 1 << 63, Denominator: 1 << 63},
		{Numerator: uint64(r.Int63())<<1 | 1, Denominator: uint64(r.Int63())<<1 | 1},
		{Numerator: uint64(r.Int63()), Denominator: uint64(r.Int63())},
	}
	return big[r.Intn(len(big))]
}

func genPowers(r *rand.Rand, n int) ([]int64, string) {
	p := make([]int64, n)
	var name string
	switch r.Intn(8) {
	case 0:
		name = "equal"
		v := []int64{1, 1, 10, 1 + r.Int63n(1000000)}[r.Intn(4)]
		for i := range p {
			p[i] = v
		}
	case 1:
		name = "geometric"
		k := 1 + r.Intn(50)
		for i := range p {
			p[i] = int64(1) << uint(i%k)
		}
	case 2:
		name = "whale"
		for i := range p {
			p[i] = 1 + r.Int63n(100)
		}
		w := int64(1000)
		for e := r.Intn(13); e > 0; e-- {
			w *= 10
		}
		p[r.Intn(n)] = w
	case 3:
		name = "max/n"
		t := maxTotal - int64(r.Intn(3))
		for i := range p {
			p[i] = t / int64(n)
		}
		p[r.Intn(n)] += t % int64(n)
	case 4:
		name = "random-small"
		for i := range p {
			p[i] = 1 + r.Int63n(1000)
		}
	case 5:
		name = "random-wide"
		for i := range p {
			p[i] = 1 + r.Int63n(1<<40)
		}
	case 6:
		name = "total-mod3"
		var t int64
		for i := range p {
			p[i] = 1 + r.Int63n(20)
			t += p[i]
		}
		p[r.Intn(n)] += (int64(r.Intn(3)) - t%3 + 3) % 3
	default:
		name = "ones-and-twos"
		for i := range p {
			p[i] = 1 + int64(r.Intn(2))
		}
	}
	r.Shuffle(n, func(i, j int) { p[i], p[j] = p[j], p[i] })
	return p, name
}

func bi(v int64) *big.Int { return big.NewInt(v) }

func sums(p []int64, signer []bool) (s, o *big.Int) {
	s, o = new(big.Int), new(big.Int)
	for i, v := range p {
		if signer[i] {
			s.Add(s, bi(v))
		} else {
			o.Add(o, bi(v))
		}
	}
	return
}

// dist(s, T) = s - floor(num*T/den)
func distance(s, total *big.Int, num, den uint64) *big.Int {
	f := new(big.Int).Mul(new(big.Int).SetUint64(num), total)
	f.Div(f, new(big.Int).SetUint64(den))
	return new(big.Int).Sub(s, f)
}

// tune changes one or two powers so that the for-block power lands exactly at
// floor(num*T/den)+d.  Returns false (powers untouched) if it cannot.
func tune(r *rand.Rand, p []int64, signer []bool, num, den uint64, d int64) bool {
	if den == 0 || num >= den {
		return false
	}
	var sg, ns []int
	for i := range p {
		if signer[i] {
			sg = append(sg, i)
		} else {
			ns = append(ns, i)
		}
	}
	N, D := new(big.Int).SetUint64(num), new(big.Int).SetUint64(den)
	fits := func(x *big.Int) bool { return x.IsInt64() }
	check := func() bool {
		s, o := sums(p, signer)
		t := new(big.Int).Add(s, o)
		if t.Cmp(bi(maxTotal)) > 0 {
			return false
		}
		for _, v := range p {
			if v < 1 {
				return false
			}
		}
		return distance(s, t, num, den).Cmp(bi(d)) == 0
	}
	for _, m := range r.Perm(3) {
		saved := append([]int64{}, p...)
		s, o := sums(p, signer)
		ok := false
		switch m {
		case 0: // move power between a signer and a non-signer: total unchanged
			if len(sg) == 0 || len(ns) == 0 {
				break
			}
			t := new(big.Int).Add(s, o)
			target := new(big.Int).Mul(N, t)
			target.Div(target, D).Add(target, bi(d))
			x := new(big.Int).Sub(target, s)
			if !fits(x) {
				break
			}
			xv := x.Int64()
			from, to := ns, sg
			if xv < 0 {
				from, to, xv = sg, ns, -xv
			}
			var cand []int
			for _, j := range from {
				if p[j]-xv >= 1 {
					cand = append(cand, j)
				}
			}
			if len(cand) == 0 {
				break
			}
			j := cand[r.Intn(len(cand))]
			k := to[r.Intn(len(to))]
			p[j] -= xv
			p[k] += xv
			ok = true
		case 1: // change one signer's power: s = floor((num*o + den*d)/(den-num))
			if len(sg) == 0 {
				break
			}
			st := new(big.Int).Mul(N, o)
			st.Add(st, new(big.Int).Mul(D, bi(d)))
			st.Div(st, new(big.Int).Sub(D, N)) // Euclidean: floor for a positive divisor
			delta := new(big.Int).Sub(st, s)
			if !fits(delta) {
				break
			}
			var cand []int
			for _, j := range sg {
				if nv := new(big.Int).Add(bi(p[j]), delta); nv.Sign() > 0 && nv.Cmp(bi(maxTotal)) <= 0 {
					cand = append(cand, j)
				}
			}
			if len(cand) == 0 {
				break
			}
			p[cand[r.Intn(len(cand))]] += delta.Int64()
			ok = true
		case 2: // change one non-signer's power: o = ceil(((den-num)*s - den*d)/num)
			if len(ns) == 0 || num == 0 {
				break
			}
			ot := new(big.Int).Mul(new(big.Int).Sub(D, N), s)
			ot.Sub(ot, new(big.Int).Mul(D, bi(d)))
			ot.Add(ot, new(big.Int).Sub(N, bi(1)))
			ot.Div(ot, N)
			delta := new(big.Int).Sub(ot, o)
			if !fits(delta) {
				break
			}
			var cand []int
			for _, j := range ns {
				if nv := new(big.Int).Add(bi(p[j]), delta); nv.Sign() > 0 && nv.Cmp(bi(maxTotal)) <= 0 {
					cand = append(cand, j)
				}
			}
			if len(cand) == 0 {
				break
			}
			p[cand[r.Intn(len(cand))]] += delta.Int64()
			ok = true
		}
		if ok && check() {
			return true
		}
		copy(p, saved)
	}
	return false
}

func randBlockID(r *rand.Rand) types.BlockID {
	h, ph := make([]byte, 32), make([]byte, 32)
	r.Read(h)
	r.Read(ph)
	return types.BlockID{Hash: h, PartSetHeader: types.PartSetHeader{Total: uint32(1 + r.Intn(100)), Hash: ph}}
}

func (g *gen) makeBase(r *rand.Rand, idx int) *base {
	c := g.c
	b := &base{stream: stream, idx: idx, sample: -1}
	if idx < 3 {
		b.sample = 1
	}
	n := sizeN(r, c.Thorough())
	b.chainID = fmt.Sprintf("chain-%x", r.Int63n(1<<uint(4+r.Intn(40))))
	if r.Intn(30) == 0 {
		b.chainID = ""
	}
	switch x := r.Intn(100); {
	case x < 90:
		b.height = 1 + r.Int63n(1000000)
	case x < 95:
		b.height = math.MaxInt64 - 5 - r.Int63n(100)
	case x < 97:
		b.height = 1
	default:
		b.height = r.Int63()
	}
	b.round = int32(r.Intn(3))
	if r.Intn(20) == 0 {
		b.round = math.MaxInt32 - 1 - int32(r.Intn(5))
	}
	b.blockID = randBlockID(r)

	perm := r.Perm(poolSize)
	keys := perm[:n]
	b.outside = perm[n:]

	var powers []int64
	b.dist, b.tuned = "empty", "none"
	signer := make([]bool, n)
	if n > 0 {
		powers, b.dist = genPowers(r, n)
	}
	var total int64
	for _, v := range powers {
		total += v
	}
	b.tl = pickLevel(r, total)

	// how many sign for the block
	k := 0
	if n > 0 {
		switch x := r.Intn(10); {
		case x < 6:
			k = (2*n+2)/3 + r.Intn(3) - 1
		case x < 8:
			k = r.Intn(n + 1)
		case x < 9:
			k = n
		default:
			if b.tl.Denominator != 0 && b.tl.Numerator <= b.tl.Denominator {
				f := new(big.Int).Mul(new(big.Int).SetUint64(b.tl.Numerator), bi(int64(n)))
				f.Div(f, new(big.Int).SetUint64(b.tl.Denominator))
				k = int(f.Int64()) + r.Intn(3) - 1
			} else {
				k = r.Intn(n + 1)
			}
		}
		if k < 0 {
			k = 0
		}
		if k > n {
			k = n
		}
		for _, i := range r.Perm(n)[:k] {
			signer[i] = true
		}
	}
	// tune the for-block power to the threshold
	if n > 0 && r.Intn(10) < 7 {
		num, den := uint64(2), uint64(3)
		if r.Intn(5) < 2 && b.tl.Denominator != 0 && b.tl.Numerator > 0 && b.tl.Numerator < b.tl.Denominator && b.tl.Denominator < 1<<40 {
			num, den = b.tl.Numerator, b.tl.Denominator
		}
		d := int64(r.Intn(3) - 1)
		if tune(r, powers, signer, num, den, d) {
			b.tuned = fmt.Sprintf("%d/%d%+d", num, den, d)
		}
	}
	// the rest: nil or absent
	pNil := []int{0, 50, 50, 100}[r.Intn(4)]
	flags := make([]byte, n)
	for i := range flags {
		switch {
		case signer[i]:
			flags[i] = ref.FlagCommit
		case r.Intn(100) < pNil:
			flags[i] = ref.FlagNil
		default:
			flags[i] = ref.FlagAbsent
		}
	}

	valz := make([]*types.Validator, n)
	flagOf := map[string]byte{}
	keyByAddr := map[string]int{}
	for i := 0; i < n; i++ {
		valz[i] = types.NewValidator(g.pool[keys[i]].pub, powers[i])
		flagOf[string(valz[i].Address)] = flags[i]
		keyByAddr[string(valz[i].Address)] = keys[i]
	}
	b.vals = types.NewValidatorSet(valz) // sorts by power, address; copies

	t0 := time.Unix(1600000000+r.Int63n(100000000), r.Int63n(1000000000)).UTC()
	sameTS := r.Intn(10) == 0
	sigs := make([]types.CommitSig, n)
	b.keyOf = make([]int, n)
	for i, v := range b.vals.Validators {
		key := keyByAddr[string(v.Address)]
		b.keyOf[i] = key
		ts := t0
		if !sameTS {
			ts = t0.Add(time.Duration(r.Int63n(int64(10 * time.Second))))
		}
		if r.Intn(60) == 0 {
			ts = time.Time{}
		}
		switch flagOf[string(v.Address)] {
		case ref.FlagCommit:
			sigs[i] = types.CommitSig{BlockIDFlag: types.BlockIDFlagCommit, ValidatorAddress: append([]byte{}, v.Address...), Timestamp: ts,
				Signature: g.sign(key, b.chainID, ref.MsgPrecommit, b.height, b.round, b.blockID, ts)}
		case ref.FlagNil:
			sigs[i] = types.CommitSig{BlockIDFlag: types.BlockIDFlagNil, ValidatorAddress: append([]byte{}, v.Address...), Timestamp: ts,
				Signature: g.sign(key, b.chainID, ref.MsgPrecommit, b.height, b.round, types.BlockID{}, ts)}
		default:
			sigs[i] = types.CommitSig{BlockIDFlag: types.BlockIDFlagAbsent}
		}
	}
	b.commit = &types.Commit{Height: b.height, Round: b.round, BlockID: b.blockID, Signatures: sigs}
	return b
}

// ------------------------------------------------------------------ variants

type variant struct {
	muts    []string
	commit  *types.Commit
	chainID string
	blockID types.BlockID
	height  int64
	vals    *types.ValidatorSet // by-index entry points
	tvals   *types.ValidatorSet // trusting entry point
	keyOf   []int               // pool key of slot owner (follows list surgery; -1 = none)

	// wire mode (wire.go): vals / tvals are decoder output; the reference tallies on these plain-data views instead
	ovals, otvals *types.ValidatorSet
	wireVP        *tmproto.ValidatorSet // the forged message vals was decoded from
	tl            tmmath.Fraction
}

func cpb(b []byte) []byte {
	if b == nil {
		return nil
	}
	return append([]byte{}, b...)
}

func copyBlockID(b types.BlockID) types.BlockID {
	return types.BlockID{Hash: cpb(b.Hash), PartSetHeader: types.PartSetHeader{Total: b.PartSetHeader.Total, Hash: cpb(b.PartSetHeader.Hash)}}
}

func copySig(s types.CommitSig) types.CommitSig {
	return types.CommitSig{BlockIDFlag: s.BlockIDFlag, ValidatorAddress: cpb(s.ValidatorAddress), Timestamp: s.Timestamp, Signature: cpb(s.Signature)}
}

func copyCommit(cm *types.Commit) *types.Commit {
	out := &types.Commit{Height: cm.Height, Round: cm.Round, BlockID: copyBlockID(cm.BlockID), Signatures: make([]types.CommitSig, len(cm.Signatures))}
	for i, s := range cm.Signatures {
		out.Signatures[i] = copySig(s)
	}
	return out
}

func (b *base) newVariant() *variant {
	return &variant{commit: copyCommit(b.commit), chainID: b.chainID, blockID: copyBlockID(b.blockID), height: b.height,
		vals: b.vals, tvals: b.vals, keyOf: append([]int{}, b.keyOf...), tl: b.tl}
}

func otherBlockID(r *rand.Rand, bid types.BlockID, what int) (types.BlockID, string) {
	if len(bid.Hash) == 0 || len(bid.PartSetHeader.Hash) == 0 {
		return randBlockID(r), "random"
	}
	o := copyBlockID(bid)
	switch what % 4 {
	case 0:
		o.Hash[r.Intn(len(o.Hash))] ^= 1 << uint(r.Intn(8))
		return o, "hash-bit"
	case 1:
		r.Read(o.Hash)
		return o, "hash"
	case 2:
		o.PartSetHeader.Total += uint32(1 + r.Intn(2))
		return o, "psh.total"
	default:
		o.PartSetHeader.Hash[r.Intn(len(o.PartSetHeader.Hash))] ^= 1 << uint(r.Intn(8))
		return o, "psh.hash"
	}
}

// pickSlot returns a slot that has an owner key; prefers slots with the wanted flag.
func (v *variant) pickSlot(r *rand.Rand, want types.BlockIDFlag, strict bool) int {
	var pref, any []int
	for i, s := range v.commit.Signatures {
		if i >= len(v.keyOf) || v.keyOf[i] < 0 {
			continue
		}
		any = append(any, i)
		if s.BlockIDFlag == want {
			pref = append(pref, i)
		}
	}
	if len(pref) > 0 && (strict || r.Intn(4) != 0) {
		return pref[r.Intn(len(pref))]
	}
	if strict || len(any) == 0 {
		return -1
	}
	return any[r.Intn(len(any))]
}

// blockIDFor: what a slot with this flag is supposed to sign.
func (v *variant) targetOf(flag types.BlockIDFlag) types.BlockID {
	if flag == types.BlockIDFlagCommit {
		return v.commit.BlockID
	}
	return types.BlockID{}
}

const nMutations = 30

// mutate applies one mutation; returns its name ("" if not applicable).
func (g *gen) mutate(r *rand.Rand, b *base, v *variant) string {
	cm := v.commit
	n := len(cm.Signatures)
	resign := func(i int, chain string, typ int32, h int64, rd int32, bid types.BlockID, ts time.Time) {
		cm.Signatures[i].Signature = g.sign(v.keyOf[i], chain, typ, h, rd, bid, ts)
	}
	m := r.Intn(nMutations)
	switch m {
	case 0, 1, 2, 3, 4, 5, 6, 7, 8: // slot signed over something else
		i := v.pickSlot(r, types.BlockIDFlagCommit, false)
		if i < 0 || cm.Signatures[i].BlockIDFlag == types.BlockIDFlagAbsent {
			return ""
		}
		s := cm.Signatures[i]
		tgt := v.targetOf(s.BlockIDFlag)
		switch m {
		case 0:
			ch := v.chainID + "x"
			if len(v.chainID) > 0 && r.Intn(2) == 0 {
				ch = v.chainID[:len(v.chainID)-1]
			}
			resign(i, ch, ref.MsgPrecommit, cm.Height, cm.Round, tgt, s.Timestamp)
			return "sign:other-chain"
		case 1:
			d := int64(1 - 2*r.Intn(2))
			resign(i, v.chainID, ref.MsgPrecommit, cm.Height+d, cm.Round, tgt, s.Timestamp)
			return fmt.Sprintf("sign:height%+d", d)
		case 2:
			d := int32(1 - 2*r.Intn(2))
			resign(i, v.chainID, ref.MsgPrecommit, cm.Height, cm.Round+d, tgt, s.Timestamp)
			return fmt.Sprintf("sign:round%+d", d)
		case 3, 4, 5:
			if s.BlockIDFlag != types.BlockIDFlagCommit {
				o := randBlockID(r)
				resign(i, v.chainID, ref.MsgPrecommit, cm.Height, cm.Round, o, s.Timestamp)
				return "sign:nil-slot-signed-for-a-block"
			}
			o, what := otherBlockID(r, tgt, r.Intn(4))
			resign(i, v.chainID, ref.MsgPrecommit, cm.Height, cm.Round, o, s.Timestamp)
			return "sign:other-block-" + what
		case 6:
			if s.BlockIDFlag != types.BlockIDFlagCommit {
				return ""
			}
			resign(i, v.chainID, ref.MsgPrecommit, cm.Height, cm.Round, types.BlockID{}, s.Timestamp)
			return "sign:commit-slot-signed-for-nil"
		case 7:
			resign(i, v.chainID, ref.MsgPrevote, cm.Height, cm.Round, tgt, s.Timestamp)
			return "sign:prevote"
		default:
			resign(i, v.chainID, ref.MsgPrecommit, cm.Height, cm.Round, tgt, s.Timestamp.Add(time.Duration(1+r.Intn(1000))))
			return "sign:other-timestamp"
		}
	case 9, 10: // signature of another member
		i := v.pickSlot(r, types.BlockIDFlagCommit, false)
		if i < 0 || n < 2 || cm.Signatures[i].BlockIDFlag == types.BlockIDFlagAbsent {
			return ""
		}
		j := (i + 1 + r.Intn(n-1)) % n
		if j >= len(v.keyOf) || v.keyOf[j] < 0 {
			return ""
		}
		s := cm.Signatures[i]
		cm.Signatures[i].Signature = g.sign(v.keyOf[j], v.chainID, ref.MsgPrecommit, cm.Height, cm.Round, v.targetOf(s.BlockIDFlag), s.Timestamp)
		if m == 10 {
			cm.Signatures[i].ValidatorAddress = cpb(g.pool[v.keyOf[j]].addr)
			return "slot:signature+address-of-other-member"
		}
		return "slot:signature-of-other-member"
	case 11: // unknown signer
		i := v.pickSlot(r, types.BlockIDFlagCommit, false)
		if i < 0 || len(b.outside) == 0 {
			return ""
		}
		k := b.outside[r.Intn(len(b.outside))]
		s := &cm.Signatures[i]
		if s.BlockIDFlag == types.BlockIDFlagAbsent {
			s.BlockIDFlag = types.BlockIDFlagCommit
			s.Timestamp = time.Unix(1700000000, 0).UTC()
		}
		s.ValidatorAddress = cpb(g.pool[k].addr)
		s.Signature = g.sign(k, v.chainID, ref.MsgPrecommit, cm.Height, cm.Round, v.targetOf(s.BlockIDFlag), s.Timestamp)
		return "slot:unknown-signer"
	case 12: // swap
		if n < 2 {
			return ""
		}
		i := v.pickSlot(r, types.BlockIDFlagCommit, false)
		if i < 0 {
			return ""
		}
		j := (i + 1 + r.Intn(n-1)) % n
		cm.Signatures[i], cm.Signatures[j] = cm.Signatures[j], cm.Signatures[i]
		return "slot:swapped"
	case 13, 14: // duplicated signer: slot i copied over slot j (prefer a non-signer j)
		if n < 2 {
			return ""
		}
		i := v.pickSlot(r, types.BlockIDFlagCommit, true)
		if i < 0 {
			return ""
		}
		var ns []int
		for j, s := range cm.Signatures {
			if j != i && s.BlockIDFlag != types.BlockIDFlagCommit {
				ns = append(ns, j)
			}
		}
		j := (i + 1 + r.Intn(n-1)) % n
		if len(ns) > 0 && r.Intn(4) != 0 {
			j = ns[r.Intn(len(ns))]
		}
		cm.Signatures[j] = copySig(cm.Signatures[i])
		return "slot:duplicated-signer"
	case 15: // flag flips, fields untouched
		i := v.pickSlot(r, types.BlockIDFlag(1+r.Intn(3)), true)
		if i < 0 {
			i = v.pickSlot(r, types.BlockIDFlagCommit, false)
		}
		if i < 0 {
			return ""
		}
		s := &cm.Signatures[i]
		switch s.BlockIDFlag {
		case types.BlockIDFlagCommit:
			switch r.Intn(4) {
			case 0:
				s.BlockIDFlag = types.BlockIDFlagAbsent
				return "flag:commit->absent(fields-kept)"
			case 1:
				s.BlockIDFlag = types.BlockIDFlag([]byte{0, 4, 255}[r.Intn(3)])
				return "flag:commit->unknown"
			default:
				s.BlockIDFlag = types.BlockIDFlagNil
				return "flag:commit->nil"
			}
		case types.BlockIDFlagNil:
			if r.Intn(5) == 0 {
				s.BlockIDFlag = types.BlockIDFlag([]byte{0, 4, 255}[r.Intn(3)])
				return "flag:nil->unknown"
			}
			s.BlockIDFlag = types.BlockIDFlagCommit
			return "flag:nil->commit"
		default:
			s.BlockIDFlag = types.BlockIDFlagCommit
			s.ValidatorAddress = cpb(g.pool[v.keyOf[i]].addr)
			switch r.Intn(3) {
			case 0:
				s.Signature = nil
			case 1:
				s.Signature = make([]byte, 64)
			default:
				s.Signature = make([]byte, 64)
				r.Read(s.Signature)
			}
			return "flag:absent->commit(garbage-signature)"
		}
	case 16: // signature bytes
		i := v.pickSlot(r, types.BlockIDFlagCommit, false)
		if i < 0 || len(cm.Signatures[i].Signature) == 0 {
			return ""
		}
		s := &cm.Signatures[i]
		switch r.Intn(5) {
		case 0:
			s.Signature = s.Signature[:len(s.Signature)-1]
			return "sig:truncated"
		case 1:
			s.Signature = append(s.Signature, 0)
			return "sig:extended"
		case 2:
			s.Signature = nil
			return "sig:empty"
		default:
			s.Signature[r.Intn(len(s.Signature))] ^= 1 << uint(r.Intn(8))
			return "sig:bitflip"
		}
	case 17: // address only (not signed over)
		i := v.pickSlot(r, types.BlockIDFlagCommit, false)
		if i < 0 || cm.Signatures[i].BlockIDFlag == types.BlockIDFlagAbsent {
			return ""
		}
		s := &cm.Signatures[i]
		switch r.Intn(3) {
		case 0:
			if n < 2 {
				return ""
			}
			j := (i + 1 + r.Intn(n-1)) % n
			if j >= len(v.keyOf) || v.keyOf[j] < 0 {
				return ""
			}
			s.ValidatorAddress = cpb(g.pool[v.keyOf[j]].addr)
			return "addr:of-other-member"
		case 1:
			s.ValidatorAddress = make([]byte, 20)
			r.Read(s.ValidatorAddress)
			return "addr:random"
		default:
			s.ValidatorAddress = nil
			return "addr:empty"
		}
	case 18: // timestamp after signing
		i := v.pickSlot(r, types.BlockIDFlagCommit, false)
		if i < 0 || cm.Signatures[i].BlockIDFlag == types.BlockIDFlagAbsent {
			return ""
		}
		cm.Signatures[i].Timestamp = cm.Signatures[i].Timestamp.Add(time.Duration(1 + r.Intn(1000000)))
		return "ts:changed-after-signing"
	case 19: // list surgery
		switch r.Intn(5) {
		case 0:
			if n == 0 {
				return ""
			}
			k := 1
			if r.Intn(3) == 0 {
				k = 1 + r.Intn(n)
			}
			cm.Signatures = cm.Signatures[:n-k]
			v.keyOf = v.keyOf[:len(cm.Signatures)]
			return "list:truncated"
		case 1:
			cm.Signatures = append(cm.Signatures, types.CommitSig{BlockIDFlag: types.BlockIDFlagAbsent})
			v.keyOf = append(v.keyOf, -1)
			return "list:extended-absent"
		case 2:
			if n == 0 {
				return ""
			}
			cm.Signatures = append(cm.Signatures, copySig(cm.Signatures[r.Intn(n)]))
			v.keyOf = append(v.keyOf, -1)
			return "list:extended-duplicate"
		case 3:
			if len(b.outside) == 0 {
				return ""
			}
			k := b.outside[r.Intn(len(b.outside))]
			ts := time.Unix(1700000000, 0).UTC()
			cm.Signatures = append(cm.Signatures, types.CommitSig{BlockIDFlag: types.BlockIDFlagCommit, ValidatorAddress: cpb(g.pool[k].addr), Timestamp: ts,
				Signature: g.sign(k, v.chainID, ref.MsgPrecommit, cm.Height, cm.Round, cm.BlockID, ts)})
			v.keyOf = append(v.keyOf, -1)
			return "list:extended-outsider"
		default:
			if n < 2 {
				return ""
			}
			i := r.Intn(n)
			cm.Signatures = append(cm.Signatures[:i], cm.Signatures[i+1:]...)
			v.keyOf = append(v.keyOf[:i], v.keyOf[i+1:]...)
			return "list:slot-removed"
		}
	case 20: // commit header fields, signatures untouched
		switch r.Intn(3) {
		case 0:
			d := int64(1 - 2*r.Intn(2))
			cm.Height += d
			return fmt.Sprintf("commit.height%+d", d)
		case 1:
			d := int32(1 - 2*r.Intn(2))
			cm.Round += d
			return fmt.Sprintf("commit.round%+d", d)
		default:
			var what string
			cm.BlockID, what = otherBlockID(r, cm.BlockID, r.Intn(4))
			return "commit.blockid-" + what
		}
	case 21: // call parameters
		switch r.Intn(4) {
		case 0:
			v.chainID += "y"
			return "call:other-chain"
		case 1:
			d := int64(1 - 2*r.Intn(2))
			v.height += d
			return fmt.Sprintf("call:height%+d", d)
		case 2:
			v.blockID = types.BlockID{}
			return "call:blockid-nil"
		default:
			var what string
			v.blockID, what = otherBlockID(r, v.blockID, r.Intn(4))
			return "call:blockid-" + what
		}
	case 22: // commit and caller agree on another block / height, signatures are for the original
		if r.Intn(3) == 0 {
			d := int64(1 - 2*r.Intn(2))
			cm.Height += d
			v.height += d
			return fmt.Sprintf("both:height%+d", d)
		}
		nb, what := otherBlockID(r, cm.BlockID, r.Intn(4))
		cm.BlockID = nb
		v.blockID = copyBlockID(nb)
		return "both:blockid-" + what
	case 23, 24, 25: // valid re-votes: the tally moves, every signature stays valid
		var want types.BlockIDFlag
		switch r.Intn(3) {
		case 0:
			want = types.BlockIDFlagCommit
		case 1:
			want = types.BlockIDFlagNil
		default:
			want = types.BlockIDFlagAbsent
		}
		i := v.pickSlot(r, want, true)
		if i < 0 {
			return ""
		}
		s := &cm.Signatures[i]
		from := s.BlockIDFlag
		var to types.BlockIDFlag
		for {
			to = types.BlockIDFlag(1 + r.Intn(3))
			if to != from {
				break
			}
		}
		if to == types.BlockIDFlagAbsent {
			*s = types.CommitSig{BlockIDFlag: types.BlockIDFlagAbsent}
		} else {
			if from == types.BlockIDFlagAbsent {
				s.Timestamp = time.Unix(1700000000+int64(r.Intn(1000)), 0).UTC()
				s.ValidatorAddress = cpb(g.pool[v.keyOf[i]].addr)
			}
			s.BlockIDFlag = to
			resign(i, v.chainID, ref.MsgPrecommit, cm.Height, cm.Round, v.targetOf(to), s.Timestamp)
		}
		return fmt.Sprintf("valid:revote:%d->%d", from, to)
	case 26: // by-index set differs from the signing set
		nv := len(b.vals.Validators)
		if nv == 0 {
			return ""
		}
		valz := make([]*types.Validator, nv)
		for i, x := range b.vals.Validators {
			valz[i] = types.NewValidator(x.PubKey, x.VotingPower)
		}
		name := "vals:member-replaced"
		if r.Intn(2) == 0 && nv >= 2 {
			i, j := r.Intn(nv), r.Intn(nv)
			valz[i].VotingPower, valz[j].VotingPower = valz[j].VotingPower, valz[i].VotingPower
			name = "vals:two-powers-swapped"
		} else {
			if len(b.outside) == 0 {
				return ""
			}
			i := r.Intn(nv)
			valz[i] = types.NewValidator(g.pool[b.outside[r.Intn(len(b.outside))]].pub, valz[i].VotingPower)
		}
		v.vals = types.NewValidatorSet(valz)
		return name
	case 27, 28: // trusting set differs from the signing set
		nv := len(b.vals.Validators)
		if nv == 0 {
			return ""
		}
		var valz []*types.Validator
		var name string
		switch r.Intn(5) {
		case 0:
			name = "tvals:subset"
			for _, x := range b.vals.Validators {
				if r.Intn(2) == 0 {
					valz = append(valz, types.NewValidator(x.PubKey, x.VotingPower))
				}
			}
		case 1:
			name = "tvals:superset"
			var add int64
			for _, x := range b.vals.Validators {
				valz = append(valz, types.NewValidator(x.PubKey, x.VotingPower))
			}
			room := maxTotal - b.totalInt64()
			for k := 0; k < 1+r.Intn(5) && k < len(b.outside); k++ {
				p := 1 + r.Int63n(1+b.totalInt64()/int64(nv))
				if add+p > room {
					break
				}
				add += p
				valz = append(valz, types.NewValidator(g.pool[b.outside[k]].pub, p))
			}
		case 2:
			name = "tvals:disjoint"
			for k := 0; k < 1+r.Intn(5) && k < len(b.outside); k++ {
				valz = append(valz, types.NewValidator(g.pool[b.outside[k]].pub, 1+r.Int63n(100)))
			}
		case 3:
			name = "tvals:repowered"
			for _, x := range b.vals.Validators {
				valz = append(valz, types.NewValidator(x.PubKey, 1+r.Int63n(1000)))
			}
		default:
			name = "tvals:overlap"
			for _, x := range b.vals.Validators {
				if r.Intn(3) != 0 {
					valz = append(valz, types.NewValidator(x.PubKey, 1+r.Int63n(1000)))
				}
			}
			for k := 0; k < 1+r.Intn(5) && k < len(b.outside); k++ {
				valz = append(valz, types.NewValidator(g.pool[b.outside[k]].pub, 1+r.Int63n(1000)))
			}
		}
		if len(valz) == 0 {
			return ""
		}
		v.tvals = types.NewValidatorSet(valz)
		return name
	default: // another trust level
		v.tl = pickLevel(r, b.totalInt64())
		return "tl:other"
	}
}

func (b *base) totalInt64() int64 {
	var t int64
	for _, x := range b.vals.Validators {
		t += x.VotingPower
	}
	return t
}

// ------------------------------------------------------------------ evaluation

func call(f func() error) (accepted bool, desc string, panicked bool) {
	defer func() {
		if rec := recover(); rec != nil {
			accepted, panicked = false, true
			desc = fmt.Sprintf("panic: %v", rec)
		}
	}()
	err := f()
	if err == nil {
		return true, "nil", false
	}
	s := err.Error()
	if len(s) > 160 {
		s = s[:160] + "…"
	}
	return false, "err: " + s, false
}

func dClass(d *big.Int) string {
	switch {
	case d.Cmp(bi(-1)) < 0:
		return "<-1"
	case d.Cmp(bi(1)) > 0:
		return ">+1"
	default:
		return fmt.Sprintf("%+d", d.Int64())
	}
}

func nBucket(n int) string {
	switch {
	case n == 0:
		return "0"
	case n == 1:
		return "1"
	case n <= 7:
		return "2-7"
	case n <= 40:
		return "8-40"
	case n <= 100:
		return "41-100"
	default:
		return "101-200"
	}
}

type stats map[string]int64

func (g *gen) witness(b *base, vi int, v *variant, extra map[string]interface{}) map[string]interface{} {
	valsJ := func(vs *types.ValidatorSet) []map[string]interface{} {
		out := make([]map[string]interface{}, len(vs.Validators))
		for i, x := range vs.Validators {
			out[i] = map[string]interface{}{"i": i, "address": hex.EncodeToString(x.Address), "pubkey_ed25519": hex.EncodeToString(x.PubKey.Bytes()), "power": x.VotingPower}
		}
		return out
	}
	bidJ := func(id types.BlockID) map[string]interface{} {
		return map[string]interface{}{"hash": hex.EncodeToString(id.Hash), "parts_total": id.PartSetHeader.Total, "parts_hash": hex.EncodeToString(id.PartSetHeader.Hash)}
	}
	slots := make([]map[string]interface{}, len(v.commit.Signatures))
	for i, s := range v.commit.Signatures {
		slots[i] = map[string]interface{}{"i": i, "flag": int(s.BlockIDFlag), "address": hex.EncodeToString(s.ValidatorAddress),
			"timestamp": s.Timestamp.UTC().Format(time.RFC3339Nano), "signature": hex.EncodeToString(s.Signature)}
	}
	w := map[string]interface{}{
		"stream": b.stream, "case": b.idx, "variant": vi, "seed": g.c.Seed, "mutations": v.muts,
		"power_distribution": b.dist, "tuned_to": b.tuned,
		"call": map[string]interface{}{"chain_id": v.chainID, "height": v.height, "block_id": bidJ(v.blockID),
			"trust_level": fmt.Sprintf("%d/%d", v.tl.Numerator, v.tl.Denominator)},
		"validators": valsJ(v.vals),
		"commit":     map[string]interface{}{"height": v.commit.Height, "round": v.commit.Round, "block_id": bidJ(v.commit.BlockID), "signatures": slots},
	}
	if v.tvals != v.vals {
		w["trusting_validators"] = valsJ(v.tvals)
	}
	if v.wireVP != nil {
		w["validators_decoded_from_forged_message"] = forgedJ(v.wireVP)
	}
	for k, x := range extra {
		w[k] = x
	}
	return w
}

func fitsInt64(u uint64) bool { return u <= math.MaxInt64 }

// wellFormedID: hash lengths a block id may have (types.ValidateHash: empty or 32
// bytes).  The implementation panics when asked for the sign bytes of any other
// id; completeness is not demanded there (a panic is "did not accept").
func wellFormedID(b types.BlockID) bool {
	ok := func(h []byte) bool { return len(h) == 0 || len(h) == 32 }
	return ok(b.Hash) && ok(b.PartSetHeader.Hash)
}

func (g *gen) evaluate(b *base, vi int, v *variant, cache *ref.SigCache, st stats) {
	c := g.c
	c.Eval()
	wf := wellFormedID(v.blockID) && wellFormedID(v.commit.BlockID)
	if !wf {
		st["info.block-id-with-malformed-hash-length(soundness only)"]++
	}
	mutName := strings.Join(v.muts, " + ")
	if mutName == "" {
		mutName = "genuine"
	}
	st["variants."+map[bool]string{true: "genuine", false: "mutated"}[len(v.muts) == 0]]++
	for _, m := range v.muts {
		st["mutation."+m]++
	}

	// ---- by index: VerifyCommit / VerifyCommitLight
	ov, otv := v.vals, v.tvals
	if v.ovals != nil {
		ov = v.ovals
		st["variants.vals-decoded-from-forged-wire-message"]++
	}
	if v.otvals != nil {
		otv = v.otvals
		st["variants.tvals-decoded-from-forged-wire-message"]++
	}
	tr := ref.TallyCommitCached(cache, v.chainID, ov, v.blockID, v.height, v.commit)
	want := tr.OK()
	fullOK, fullDesc, fullPanic := call(func() error { return v.vals.VerifyCommit(v.chainID, v.blockID, v.height, v.commit) })
	lightOK, lightDesc, lightPanic := call(func() error { return v.vals.VerifyCommitLight(v.chainID, v.blockID, v.height, v.commit) })

	d23 := distance(tr.ForBlock, tr.Total, 2, 3)
	dc := dClass(d23)
	st["byindex.forblock_minus_floor(2T/3)="+dc]++
	switch {
	case tr.Structural != nil:
		st["oracle.byindex.reject.structural"]++
	case !ref.TwoThirds(tr):
		st["oracle.byindex.reject.tally"]++
	case tr.AllNonAbsentValid:
		st["oracle.byindex.accept.all-valid"]++
	default:
		st["oracle.byindex.accept.some-invalid"]++
	}
	st[fmt.Sprintf("VerifyCommit.accept=%v", fullOK)]++
	st[fmt.Sprintf("VerifyCommitLight.accept=%v", lightOK)]++
	if fullPanic {
		st["VerifyCommit.panic"]++
	}
	if lightPanic {
		st["VerifyCommitLight.panic"]++
	}
	if tr.Structural == nil && want && !tr.AllNonAbsentValid {
		st[fmt.Sprintf("info.enough-power-but-invalid-signature.light-accepts=%v", lightOK)]++
	}
	if fullOK && !tr.AllNonAbsentValid {
		st["info.VerifyCommit-accepted-with-an-invalid-non-absent-signature"]++
	}

	byIdx := func() map[string]interface{} {
		return map[string]interface{}{"oracle": map[string]interface{}{"total": tr.Total.String(), "for_block": tr.ForBlock.String(),
			"for_block_minus_floor_2T_3": d23.String(), "all_non_absent_valid": tr.AllNonAbsentValid, "structural": fmt.Sprint(tr.Structural), "accepts": want},
			"VerifyCommit": fullDesc, "VerifyCommitLight": lightDesc}
	}
	check := func(name string, ok bool) {
		if ok && !want {
			key := name + "-accepts-insufficient-valid-power"
			what := fmt.Sprintf("%s returned nil but valid for-block power is %s of %s (needs 3*sum > 2*total); mutation: %s", name, tr.ForBlock, tr.Total, mutName)
			if tr.Structural != nil && ref.TwoThirds(tr) {
				key = name + "-accepts-structural-mismatch"
				what = fmt.Sprintf("%s returned nil although %v; mutation: %s", name, tr.Structural, mutName)
			}
			c.Violation(key, what, g.witness(b, vi, v, byIdx()))
		}
		if !ok && want && tr.AllNonAbsentValid && wf {
			c.Violation(name+"-rejects-valid-commit", fmt.Sprintf("%s rejected a commit all of whose signatures are valid and whose for-block power %s of %s exceeds 2/3; mutation: %s",
				name, tr.ForBlock, tr.Total, mutName), g.witness(b, vi, v, byIdx()))
		}
	}
	check("VerifyCommit", fullOK)
	check("VerifyCommitLight", lightOK)
	if tr.Structural == nil && tr.AllNonAbsentValid && wf && fullOK != lightOK {
		c.Violation("full-and-light-disagree-on-all-valid-commit", "VerifyCommit and VerifyCommitLight disagree on a commit all of whose signatures are valid; mutation: "+mutName,
			g.witness(b, vi, v, byIdx()))
	}

	// ---- by address: VerifyCommitLightTrusting
	tt := ref.TallyCommitTrustingDetail(cache, v.chainID, otv, v.commit)
	num, den := v.tl.Numerator, v.tl.Denominator
	twant := ref.FractionExceeded(tt.ForBlock, tt.Total, num, den)
	trustOK, trustDesc, trustPanic := call(func() error { return v.tvals.VerifyCommitLightTrusting(v.chainID, v.commit, v.tl) })
	prod := new(big.Int).Mul(new(big.Int).SetUint64(num), tt.Total)
	overflow := !fitsInt64(num) || !fitsInt64(den) || !prod.IsInt64()
	var tdc string
	switch {
	case den == 0:
		tdc = "den=0"
	default:
		tdc = dClass(distance(tt.ForBlock, tt.Total, num, den))
	}
	lvl := "other"
	switch {
	case overflow:
		lvl = "beyond-int64"
	case den != 0 && num < 1<<60 && den < 1<<60 && (num*3 == den || num*2 == den || num*3 == den*2 || num == den):
		lvl = map[bool]string{true: "1/3", false: map[bool]string{true: "1/2", false: map[bool]string{true: "2/3", false: "1/1"}[num*3 == den*2]}[num*2 == den]}[num*3 == den]
	}
	st["trusting.level."+lvl]++
	st["trusting.forblock_minus_floor(num*T/den)="+tdc]++
	st[fmt.Sprintf("VerifyCommitLightTrusting.accept=%v", trustOK)]++
	if trustPanic {
		st["VerifyCommitLightTrusting.panic"]++
	}
	switch {
	case twant && tt.AllValid && !tt.DoubleSigner && !overflow:
		st["oracle.trusting.accept.must"]++
	case twant:
		st["oracle.trusting.accept.may-reject(double-signer|invalid-sig|overflow)"]++
	default:
		st["oracle.trusting.reject"]++
	}
	if tt.DoubleSigner {
		st["trusting.double-signer-present"]++
	}
	byAddr := func() map[string]interface{} {
		return map[string]interface{}{"oracle": map[string]interface{}{"total": tt.Total.String(), "for_block": tt.ForBlock.String(), "double_signer": tt.DoubleSigner,
			"all_known_for_block_valid": tt.AllValid, "known_for_block_slots": tt.Known, "num_times_total_fits_int64": !overflow, "accepts": twant},
			"VerifyCommitLightTrusting": trustDesc}
	}
	if trustOK && !twant {
		key := "VerifyCommitLightTrusting-accepts-below-trust-level"
		if !fitsInt64(num) || !fitsInt64(den) {
			key = "VerifyCommitLightTrusting-accepts-below-trust-level-fraction-field-above-MaxInt64"
		}
		c.Violation(key, fmt.Sprintf("VerifyCommitLightTrusting(%d/%d) returned nil but distinct valid for-block power is %s of %s (needs den*sum > num*total); mutation: %s",
			num, den, tt.ForBlock, tt.Total, mutName), g.witness(b, vi, v, byAddr()))
	}
	if !trustOK && twant && tt.AllValid && !tt.DoubleSigner && !overflow && wf {
		c.Violation("VerifyCommitLightTrusting-rejects-valid-commit", fmt.Sprintf("VerifyCommitLightTrusting(%d/%d) rejected a commit with valid signatures only, no repeated signer, and for-block power %s of %s; mutation: %s",
			num, den, tt.ForBlock, tt.Total, mutName), g.witness(b, vi, v, byAddr()))
	}

	// ---- coverage bookkeeping
	nonTrivial := tr.NonAbsent > 0
	if nonTrivial {
		c.Distinct("case", b.stream, b.idx, vi)
		n := len(v.vals.Validators)
		if c.Distinct("class", "byindex", mutName, dc, nBucket(n), b.dist, want, tr.AllNonAbsentValid, fullOK, lightOK) {
			st["classes.byindex"]++
		}
		if c.Distinct("class", "trusting", mutName, tdc, lvl, nBucket(len(v.tvals.Validators)), twant, tt.AllValid, tt.DoubleSigner, trustOK) {
			st["classes.trusting"]++
		}
	} else {
		st["variants.trivial(no non-absent slot)"]++
	}
	if b.sample == vi {
		w := g.witness(b, vi, v, byIdx())
		for k, x := range byAddr() {
			if k == "oracle" {
				k = "oracle_trusting"
			}
			w[k] = x
		}
		// keep samples readable: at most 6 validators / slots written out
		if vs, ok := w["validators"].([]map[string]interface{}); ok && len(vs) > 6 {
			w["validators"] = vs[:6]
			w["validators_total"] = len(vs)
		}
		if cm, ok := w["commit"].(map[string]interface{}); ok {
			if sl, ok := cm["signatures"].([]map[string]interface{}); ok && len(sl) > 6 {
				cm["signatures"] = sl[:6]
				cm["signatures_total"] = len(sl)
			}
		}
		delete(w, "trusting_validators")
		c.Sample(w)
	}
}

func (g *gen) runBase(idx int, st stats) {
	r := g.c.Rand(stream, idx)
	b := g.makeBase(r, idx)
	st["bases.dist."+b.dist]++
	if b.tuned != "none" {
		st["bases.tuned-to-threshold"]++
		st["bases.tuned-to-threshold.dist."+b.dist]++
		st[fmt.Sprintf("bases.tuned-to-threshold.total-mod-3=%d", b.totalInt64()%3)]++
	}
	st["bases.n="+nBucket(len(b.vals.Validators))]++
	cache := ref.NewSigCache()
	for vi := 0; vi < variantsPer; vi++ {
		v := b.newVariant()
		if vi > 0 {
			k := 1
			switch x := r.Intn(100); {
			case x >= 95:
				k = 3
			case x >= 70:
				k = 2
			}
			for tries := 0; len(v.muts) < k && tries < 20; tries++ {
				if name := g.mutate(r, b, v); name != "" {
					v.muts = append(v.muts, name)
				}
			}
		}
		if wr := g.c.Rand("wire", idx*variantsPer+vi); wr.Intn(4) == 0 {
			g.applyWire(wr, b, vi, v, st)
		}
		g.evaluate(b, vi, v, cache, st)
	}
}

func Run(c *verdict.Ctx) int {
	c.Level = "exploration"
	c.Rule = "a case is (validator set, commit, call parameters, trust level) = base #i of the seeded stream, variant j (0 genuine, 1..7 with 1-3 mutations); all three entry points are called on it and compared with the big-integer reference. Counted as distinct non-trivial: (a) each (i,j) whose commit has at least one non-absent slot (so at least one signature was verified by the reference), (b) each new class (entry-point family, mutation names, distance of the valid for-block power from the threshold in {<-1,-1,0,+1,>+1}, size bucket, power distribution / trust-level class, reference verdict and validity flags, real verdicts). Second stream \"relabel\": case #i = a commit whose commit-flagged slots carry genuine signatures of the right validators over ANOTHER message (nil precommit / block id differing in one field / other round, height, chain, vote type, timestamp) for every shape of commit.BlockID that Commit.ValidateBasic admits, the forged share of power spread over 0..100%, evaluated as 3 variants (trust levels, trusted sets) by the same comparison and additionally wrapped in a header with arbitrary AppHash for light.VerifyAdjacent / VerifyNonAdjacent; distinct by (stream, i, variant) and by (family, id shape, forged-power class, genuine-power class, verdicts)"
	c.Assume("ed25519 (Go standard library) and the generated protobuf marshaller of tmproto.CanonicalVote are shared with the implementation",
		"sign bytes = uvarint length prefix + CanonicalVote{type,height,round,block_id,timestamp,chain_id} as re-built in ref/tally.go from spec/core/encoding.md",
		"types.ValidatorSet / types.Commit are used as plain data; sets are built with types.NewValidatorSet (sorting, total <= MaxTotalVotingPower)",
		"the marshaller-based reference sign bytes are cross-examined in every relabel case against ref.CanonicalVoteSignBytesByHand (written from canonical.proto: block_id absent iff the id is the zero id)",
		"light.Verify* stage: Header.Hash(), ValidatorSet.Hash() and the header/time checks of light.verifyNewHeaderAndVals are trusted; only the commit decision is judged")
	if rp := c.Replay(); rp != "" {
		// re-run the one base case (all its variants) named by the witness, under the witness's seed
		var w struct {
			Stream string `json:"stream"`
			Case   int    `json:"case"`
			Seed   *int64 `json:"seed"`
		}
		if err := verdict.LoadReplay(rp, &w); err != nil {
			c.HarnessError("cannot load replay file: %v", err)
			return c.Finish(0)
		}
		if w.Seed != nil {
			c.Seed = *w.Seed
		}
		g := &gen{c: c, pool: buildPool(c)}
		st := stats{}
		if w.Stream == relabelStream {
			g.runRelabel(w.Case, st)
		} else if w.Stream == aliasStream {
			g.runAlias(w.Case, st)
		} else {
			g.runBase(w.Case, st)
		}
		for k, v := range st {
			c.Count(k, v)
		}
		return c.Finish(0)
	}

	g := &gen{c: c, pool: buildPool(c)}
	nBases := c.N(2500, 187500)
	nRelabel := c.N(3000, 150000)
	workers := 16
	if p := runtime.GOMAXPROCS(0); p < workers {
		workers = p
	}
	all := make([]stats, workers)
	for w := range all {
		all[w] = stats{}
	}
	parallel := func(what string, n int, fn func(i int, st stats)) {
		var next int64 = -1
		var wg sync.WaitGroup
		for w := 0; w < workers; w++ {
			wg.Add(1)
			go func(st stats) {
				defer wg.Done()
				for {
					i := int(atomic.AddInt64(&next, 1))
					if i >= n {
						return
					}
					func() {
						defer func() {
							if rec := recover(); rec != nil {
								c.HarnessError("%s case %d: harness panic: %v", what, i, rec)
							}
						}()
						fn(i, st)
					}()
				}
			}(all[w])
		}
		wg.Wait()
	}
	parallel(stream, nBases, g.runBase)
	parallel(relabelStream, nRelabel, g.runRelabel)
	nAlias := c.N(1200, 60000)
	parallel(aliasStream, nAlias, g.runAlias)
	c.Set("alias_cases", nAlias)
	merged := stats{}
	for _, st := range all {
		for k, v := range st {
			merged[k] += v
		}
	}
	keys := make([]string, 0, len(merged))
	for k := range merged {
		keys = append(keys, k)
	}
	sort.Strings(keys)
	for _, k := range keys {
		c.Count(k, merged[k])
	}
	c.Set("bases", nBases)
	c.Set("variants_per_base", variantsPer)
	c.Set("relabel_cases", nRelabel)
	c.Set("relabel_variants_per_case", relabelVariants)
	// the property is about acceptance decisions: a run in which nothing was ever accepted or nothing ever rejected observed nothing
	for _, k := range []string{"VerifyCommit.accept=true", "VerifyCommit.accept=false", "VerifyCommitLight.accept=true", "VerifyCommitLight.accept=false",
		"VerifyCommitLightTrusting.accept=true", "VerifyCommitLightTrusting.accept=false", "oracle.byindex.accept.all-valid", "oracle.byindex.reject.tally",
		"relabel/VerifyCommit.accept=true", "relabel/VerifyCommit.accept=false", "relabel/VerifyCommitLightTrusting.accept=true", "relabel/VerifyCommitLightTrusting.accept=false",
		"relabel/other-message-power.>2/3", "relabel/other-message-power.(1/3,2/3]", "relabel/light.VerifyAdjacent.accept=true", "relabel/light.VerifyAdjacent.accept=false",
		"relabel/light.VerifyNonAdjacent.accept=true", "relabel/light.VerifyNonAdjacent.accept=false", "relabel/signbytes.by-hand==marshaller",
		"wire.ValidatorSetFromProto.accepted", "wire.ValidatorSetFromProto.rejected", "wire.total-checked", "variants.vals-decoded-from-forged-wire-message",
		"variants.tvals-decoded-from-forged-wire-message", "relabel/wire.LightBlockFromProto.accepted",
		"alias/VerifyCommit.accept=true", "alias/VerifyCommit.accept=false", "alias/Equals.checked.reference=true", "alias/Equals.checked.reference=false"} {
		if merged[k] == 0 {
			c.HarnessError("nothing observed for %q", k)
		}
	}
	return c.Finish(c.N(10000, 500000))
}
