package c07

// Stream "relabel": commits whose slots carry GENUINE signatures of the right
// validators, at the right index and under the right address, but made over a
// message other than (chain id, height, round, commit.BlockID, slot timestamp),
// and relabelled BlockIDFlagCommit:
//
//	(a) genuine nil precommits (same chain / height / round / timestamp),
//	    combined with every shape of commit.BlockID that Commit.ValidateBasic
//	    lets through (anything but the zero id): complete, hash only, hash +
//	    part total, hash + part hash, parts only, total only, part hash only,
//	    and hashes of a malformed length;
//	(b) signatures over a block id that differs from commit.BlockID only in
//	    PartSetHeader.Total, only in PartSetHeader.Hash, only in Hash, or that
//	    is the complete / hash-only twin of it;
//	(c) signatures for another round, height, chain id, vote type (prevote), or
//	    over a timestamp other than the slot's.
//
// The share of power that signed the other message is spread over 0..100 %, the
// rest signs commit.BlockID genuinely, signs nil (flagged nil) or is absent.
//
// Every such commit goes through VerifyCommit, VerifyCommitLight and
// VerifyCommitLightTrusting (several trust levels, same and different trusted
// set) via evaluate(), i.e. against ref.TallyCommit / TallyCommitTrusting whose
// sign bytes canonicalise a block id to "absent" only if it is the zero id;
// that encoding is additionally cross-examined against a byte-by-byte encoder
// written from the .proto definition (ref.CanonicalVoteSignBytesByHand).
//
// Each commit is also wrapped into a header with an arbitrary AppHash whose hash
// is commit.BlockID.Hash and fed to light.VerifyAdjacent / VerifyNonAdjacent:
// nil is allowed only if the reference tally over exactly (chain, header
// height, commit round, commit.BlockID) exceeds 2/3 of the new set (and the
// trust level of the trusted set, non-adjacent).

import (
	"bytes"
	"fmt"
	"math/big"
	"math/rand"
	"strings"
	"time"

	tmmath "github.com/tendermint/tendermint/libs/math"
	"github.com/tendermint/tendermint/light"
	tmproto "github.com/tendermint/tendermint/proto/tendermint/types"
	tmversion "github.com/tendermint/tendermint/proto/tendermint/version"
	"github.com/tendermint/tendermint/types"
	"github.com/tendermint/tendermint/version"

	"verif/ref"
)

const (
	relabelStream   = "relabel"
	relabelVariants = 3
)

var relabelFamilies = []string{
	"a:nil-precommit-relabelled-commit",
	"b:signed-id-differs-only-in-psh.total",
	"a:nil-precommit-relabelled-commit",
	"b:signed-id-differs-only-in-psh.hash",
	"a:nil-precommit-relabelled-commit",
	"b:signed-id-differs-only-in-hash",
	"a:nil-precommit-relabelled-commit",
	"b:signed-complete-id,commit-id-is-hash-only",
	"b:signed-hash-only-id,commit-id-is-complete",
	"c:signed-other-round",
	"c:signed-other-height",
	"c:signed-other-chain",
	"c:signed-prevote",
	"c:signed-other-timestamp",
}

var idShapes = []string{"complete", "hash-only", "hash+total", "hash+parthash", "parts-only", "total-only", "parthash-only",
	"hash-only", "complete", "hash-20-bytes", "hash-33-bytes", "hash+parthash-5-bytes"}

func rnd(r *rand.Rand, n int) []byte {
	b := make([]byte, n)
	r.Read(b)
	return b
}

// shapeID builds a block id of the given shape around the header hash.
func shapeID(r *rand.Rand, shape string, hh []byte) types.BlockID {
	total := uint32(1 + r.Intn(100))
	switch shape {
	case "complete":
		return types.BlockID{Hash: cpb(hh), PartSetHeader: types.PartSetHeader{Total: total, Hash: rnd(r, 32)}}
	case "hash-only":
		return types.BlockID{Hash: cpb(hh)}
	case "hash+total":
		return types.BlockID{Hash: cpb(hh), PartSetHeader: types.PartSetHeader{Total: total}}
	case "hash+parthash":
		return types.BlockID{Hash: cpb(hh), PartSetHeader: types.PartSetHeader{Hash: rnd(r, 32)}}
	case "parts-only":
		return types.BlockID{PartSetHeader: types.PartSetHeader{Total: total, Hash: rnd(r, 32)}}
	case "total-only":
		return types.BlockID{PartSetHeader: types.PartSetHeader{Total: total}}
	case "parthash-only":
		return types.BlockID{PartSetHeader: types.PartSetHeader{Hash: rnd(r, 32)}}
	case "hash-20-bytes":
		return types.BlockID{Hash: cpb(hh[:20])}
	case "hash-33-bytes":
		return types.BlockID{Hash: append(cpb(hh), 7)}
	case "hash+parthash-5-bytes":
		return types.BlockID{Hash: cpb(hh), PartSetHeader: types.PartSetHeader{Total: total, Hash: rnd(r, 5)}}
	}
	panic("unknown shape " + shape)
}

// what the relabelled signatures were really made over
type otherMsg struct {
	chainID string
	typ     int32
	height  int64
	round   int32
	bid     types.BlockID
	tsDelta time.Duration
}

func powerClass(p, total *big.Int) string {
	switch {
	case p.Sign() == 0:
		return "0"
	case ref.FractionExceeded(p, total, 2, 3):
		return ">2/3"
	case ref.FractionExceeded(p, total, 1, 3):
		return "(1/3,2/3]"
	default:
		return "(0,1/3]"
	}
}

func errClass(desc string) string {
	switch {
	case desc == "nil":
		return "nil"
	case strings.HasPrefix(desc, "panic"):
		return "panic"
	case strings.Contains(desc, "wrong signature"):
		return "wrong signature"
	case strings.Contains(desc, "insufficient voting power"):
		return "insufficient voting power"
	case strings.Contains(desc, "ValidateBasic failed"):
		return "header/commit ValidateBasic"
	case strings.Contains(desc, "double vote"):
		return "double vote"
	case strings.Contains(desc, "trustLevel") || strings.Contains(desc, "overflow"):
		return "trust level arithmetic"
	default:
		return "other"
	}
}

func (g *gen) runRelabel(idx int, st stats) {
	c := g.c
	r := c.Rand(relabelStream, idx)
	loc := stats{}
	defer func() {
		for k, v := range loc {
			st["relabel/"+k] += v
		}
	}()

	fam := relabelFamilies[idx%len(relabelFamilies)]
	var shape string
	switch {
	case strings.HasPrefix(fam, "a:"):
		shape = idShapes[(idx/len(relabelFamilies))%len(idShapes)]
	case fam == "b:signed-complete-id,commit-id-is-hash-only":
		shape = "hash-only"
	case fam == "b:signed-hash-only-id,commit-id-is-complete":
		shape = "complete"
	case fam == "b:signed-id-differs-only-in-hash":
		shape = []string{"complete", "hash-only", "hash+total", "hash+parthash"}[r.Intn(4)]
	case strings.HasPrefix(fam, "b:"):
		shape = []string{"complete", "complete", "hash-only", "hash+total", "hash+parthash", "parts-only"}[r.Intn(6)]
	default:
		shape = []string{"complete", "complete", "hash-only", "hash+total"}[r.Intn(4)]
	}

	// ---- validator set
	n := 1 + r.Intn(12)
	switch x := r.Intn(100); {
	case x >= 95:
		n = 41 + r.Intn(60)
	case x >= 80:
		n = 13 + r.Intn(28)
	}
	powers, dist := genPowers(r, n)
	perm := r.Perm(poolSize)
	keys := perm[:n]
	valz := make([]*types.Validator, n)
	keyByAddr := map[string]int{}
	for i := 0; i < n; i++ {
		valz[i] = types.NewValidator(g.pool[keys[i]].pub, powers[i])
		keyByAddr[string(valz[i].Address)] = keys[i]
	}
	vals := types.NewValidatorSet(valz)
	b := &base{stream: relabelStream, idx: idx, sample: -1, dist: dist, tuned: "none", vals: vals, outside: perm[n:]}
	if idx < 2 {
		b.sample = 0
	}
	b.chainID = fmt.Sprintf("chain-%x", r.Int63n(1<<uint(4+r.Intn(40))))
	b.height = 3 + r.Int63n(1000000)
	b.round = int32(r.Intn(3))
	b.keyOf = make([]int, n)
	for i, v := range vals.Validators {
		b.keyOf[i] = keyByAddr[string(v.Address)]
	}
	total := new(big.Int)
	for _, v := range vals.Validators {
		total.Add(total, bi(v.VotingPower))
	}

	// ---- the header the attacker wants accepted: arbitrary application state
	t0 := time.Unix(1600000000+r.Int63n(100000000), r.Int63n(1000000000)).UTC()
	vh := vals.Hash()
	hdr := &types.Header{
		Version: tmversion.Consensus{Block: version.BlockProtocol, App: uint64(r.Intn(3))},
		ChainID: b.chainID, Height: b.height, Time: t0.Add(10 * time.Second),
		LastBlockID:    types.BlockID{Hash: rnd(r, 32), PartSetHeader: types.PartSetHeader{Total: 1, Hash: rnd(r, 32)}},
		LastCommitHash: rnd(r, 32), DataHash: rnd(r, 32), ValidatorsHash: vh, NextValidatorsHash: vh, ConsensusHash: rnd(r, 32),
		AppHash: rnd(r, 1+r.Intn(40)), LastResultsHash: rnd(r, 32), EvidenceHash: rnd(r, 32), ProposerAddress: cpb(vals.Validators[0].Address),
	}
	hh := hdr.Hash()
	b.blockID = shapeID(r, shape, hh)

	// ---- the other message
	om := otherMsg{chainID: b.chainID, typ: ref.MsgPrecommit, height: b.height, round: b.round, bid: copyBlockID(b.blockID)}
	switch fam {
	case "a:nil-precommit-relabelled-commit":
		om.bid = types.BlockID{}
	case "b:signed-id-differs-only-in-psh.total":
		switch {
		case om.bid.PartSetHeader.Total > 0 && len(om.bid.Hash)+len(om.bid.PartSetHeader.Hash) > 0 && r.Intn(3) == 0:
			om.bid.PartSetHeader.Total = 0
		default:
			om.bid.PartSetHeader.Total += uint32(1 + r.Intn(3))
		}
	case "b:signed-id-differs-only-in-psh.hash":
		switch {
		case len(om.bid.PartSetHeader.Hash) == 0:
			om.bid.PartSetHeader.Hash = rnd(r, 32)
		case len(om.bid.Hash) > 0 && r.Intn(3) == 0:
			om.bid.PartSetHeader.Hash = nil
		default:
			om.bid.PartSetHeader.Hash[r.Intn(32)] ^= 1 << uint(r.Intn(8))
		}
	case "b:signed-id-differs-only-in-hash":
		if r.Intn(2) == 0 {
			om.bid.Hash[r.Intn(32)] ^= 1 << uint(r.Intn(8))
		} else {
			om.bid.Hash = rnd(r, 32)
		}
	case "b:signed-complete-id,commit-id-is-hash-only":
		om.bid.PartSetHeader = types.PartSetHeader{Total: uint32(1 + r.Intn(100)), Hash: rnd(r, 32)}
	case "b:signed-hash-only-id,commit-id-is-complete":
		om.bid.PartSetHeader = types.PartSetHeader{}
	case "c:signed-other-round":
		if om.round > 0 && r.Intn(2) == 0 {
			om.round--
		} else {
			om.round++
		}
	case "c:signed-other-height":
		om.height += int64(1 - 2*r.Intn(2))
	case "c:signed-other-chain":
		if r.Intn(2) == 0 {
			om.chainID += "-2"
		} else {
			om.chainID = om.chainID[:len(om.chainID)-1]
		}
	case "c:signed-prevote":
		om.typ = ref.MsgPrevote
	case "c:signed-other-timestamp":
		om.tsDelta = time.Duration(1 + r.Intn(1000000))
	default:
		panic("unknown family " + fam)
	}
	if ref.SameBlockID(om.bid, b.blockID) && om.chainID == b.chainID && om.typ == ref.MsgPrecommit && om.height == b.height && om.round == b.round && om.tsDelta == 0 {
		panic("relabel generator produced the genuine message")
	}

	// ---- who signs what: A = other message relabelled, B = genuine for commit.BlockID, C = nil / absent
	const (
		gA = iota
		gB
		gNil
		gAbsent
	)
	group := make([]int, n)
	modeA, qA := r.Intn(6), r.Float64()
	modeB, qB := r.Intn(4), r.Float64()
	pA, pB := new(big.Int), new(big.Int)
	for i := range group {
		inA := modeA == 1 || (modeA >= 2 && r.Float64() < qA)
		switch {
		case inA:
			group[i] = gA
			pA.Add(pA, bi(vals.Validators[i].VotingPower))
		case modeB == 0 || (modeB >= 2 && r.Float64() < qB):
			group[i] = gB
			pB.Add(pB, bi(vals.Validators[i].VotingPower))
		case r.Intn(2) == 0:
			group[i] = gNil
		default:
			group[i] = gAbsent
		}
	}
	sameTS := r.Intn(8) == 0
	sigs := make([]types.CommitSig, n)
	for i, v := range vals.Validators {
		ts := t0.Add(time.Duration(r.Int63n(int64(10 * time.Second))))
		if sameTS {
			ts = t0
		}
		addr := cpb(v.Address)
		switch group[i] {
		case gA:
			sigs[i] = types.CommitSig{BlockIDFlag: types.BlockIDFlagCommit, ValidatorAddress: addr, Timestamp: ts,
				Signature: g.sign(b.keyOf[i], om.chainID, om.typ, om.height, om.round, om.bid, ts.Add(om.tsDelta))}
		case gB:
			sigs[i] = types.CommitSig{BlockIDFlag: types.BlockIDFlagCommit, ValidatorAddress: addr, Timestamp: ts,
				Signature: g.sign(b.keyOf[i], b.chainID, ref.MsgPrecommit, b.height, b.round, b.blockID, ts)}
		case gNil:
			sigs[i] = types.CommitSig{BlockIDFlag: types.BlockIDFlagNil, ValidatorAddress: addr, Timestamp: ts,
				Signature: g.sign(b.keyOf[i], b.chainID, ref.MsgPrecommit, b.height, b.round, types.BlockID{}, ts)}
		default:
			sigs[i] = types.CommitSig{BlockIDFlag: types.BlockIDFlagAbsent}
		}
	}
	b.commit = &types.Commit{Height: b.height, Round: b.round, BlockID: copyBlockID(b.blockID), Signatures: sigs}

	// ---- the reference encoding, cross-examined byte by byte
	for _, m := range []otherMsg{om, {chainID: b.chainID, typ: ref.MsgPrecommit, height: b.height, round: b.round, bid: b.blockID}} {
		ts := t0.Add(m.tsDelta)
		x, y := ref.CanonicalVoteSignBytes(m.chainID, m.typ, m.height, m.round, m.bid, ts), ref.CanonicalVoteSignBytesByHand(m.chainID, m.typ, m.height, m.round, m.bid, ts)
		if !bytes.Equal(x, y) {
			c.HarnessError("relabel case %d: marshaller and by-hand sign bytes differ: %x vs %x", idx, x, y)
		}
		loc["signbytes.by-hand==marshaller"]++
	}
	if bytes.Equal(ref.PrecommitSignBytes(b.chainID, b.height, b.round, b.blockID, t0), ref.PrecommitSignBytes(b.chainID, b.height, b.round, types.BlockID{}, t0)) {
		c.HarnessError("relabel case %d: reference sign bytes of non-zero block id %v equal those of the nil block", idx, b.blockID)
	}
	loc["signbytes.nonzero-id-differs-from-nil"]++

	// ---- bookkeeping of what was generated
	clsA, clsB := powerClass(pA, total), powerClass(pB, total)
	loc["family."+fam]++
	loc["commit-block-id-shape."+shape]++
	if strings.HasPrefix(fam, "a:") {
		loc["family.a.shape."+shape+".other-message-power."+clsA]++
	}
	loc["other-message-power."+clsA]++
	loc["genuine-for-block-power."+clsB]++
	loc["cases.n="+nBucket(n)]++

	// ---- the three commit entry points, several trust levels / trusted sets
	cache := ref.NewSigCache()
	tls := []tmmath.Fraction{{Numerator: 1, Denominator: 3},
		[]tmmath.Fraction{{Numerator: 1, Denominator: 2}, {Numerator: 2, Denominator: 3}, {Numerator: 1, Denominator: 1}, {Numerator: 3, Denominator: 7}, {Numerator: 1, Denominator: 1000}, {Numerator: 0, Denominator: 1}}[r.Intn(6)],
		pickLevel(r, b.totalInt64())}
	var vs [relabelVariants]*variant
	for vi := 0; vi < relabelVariants; vi++ {
		v := b.newVariant()
		v.muts = []string{fam, "commit-block-id:" + shape}
		v.tl = tls[vi]
		if vi == 2 && r.Intn(2) == 0 { // a different trusted set: part of the signers re-powered, plus strangers
			var tv []*types.Validator
			for _, x := range vals.Validators {
				if r.Intn(4) != 0 {
					tv = append(tv, types.NewValidator(x.PubKey, 1+r.Int63n(1000)))
				}
			}
			for k := 0; k < r.Intn(4) && k < len(b.outside); k++ {
				tv = append(tv, types.NewValidator(g.pool[b.outside[k]].pub, 1+r.Int63n(1000)))
			}
			if len(tv) > 0 {
				v.tvals = types.NewValidatorSet(tv)
				v.muts = append(v.muts, "tvals:overlap")
			}
		}
		if wr := c.Rand("wire-relabel", idx*relabelVariants+vi); wr.Intn(3) == 0 {
			g.applyWire(wr, b, vi, v, loc)
		}
		vs[vi] = v
		fullBefore, lightBefore, trustBefore := loc["VerifyCommit.accept=true"], loc["VerifyCommitLight.accept=true"], loc["VerifyCommitLightTrusting.accept=true"]
		g.evaluate(b, vi, v, cache, loc)
		if clsA != "0" && clsB != ">2/3" {
			// the forged power was needed: genuine power alone is not enough
			acc := fmt.Sprintf("full=%v,light=%v", loc["VerifyCommit.accept=true"] > fullBefore, loc["VerifyCommitLight.accept=true"] > lightBefore)
			loc["forged-power-needed(other="+clsA+").by-index."+acc]++
		}
		if clsA != "0" {
			loc[fmt.Sprintf("forged-power-present(other=%s).trusting(%s).accept=%v", clsA, map[bool]string{true: "same set", false: "other set"}[v.tvals == v.vals], loc["VerifyCommitLightTrusting.accept=true"] > trustBefore)]++
		}
	}

	// ---- light client: the same commit under a header with an attacker-chosen AppHash
	sh := &types.SignedHeader{Header: hdr, Commit: b.commit}
	mkTrusted := func(h int64) *types.SignedHeader {
		th := &types.Header{Version: hdr.Version, ChainID: b.chainID, Height: h, Time: t0,
			LastBlockID:    types.BlockID{Hash: rnd(r, 32), PartSetHeader: types.PartSetHeader{Total: 1, Hash: rnd(r, 32)}},
			ValidatorsHash: vh, NextValidatorsHash: vh, ProposerAddress: cpb(vals.Validators[0].Address)}
		return &types.SignedHeader{Header: th, Commit: &types.Commit{Height: h, BlockID: types.BlockID{Hash: th.Hash()}}}
	}
	now := t0.Add(20 * time.Second)
	hashMatches := bytes.Equal(b.blockID.Hash, hh)
	wf := wellFormedID(b.blockID)
	hdrJ := map[string]interface{}{"height": hdr.Height, "time": hdr.Time.Format(time.RFC3339Nano), "app_hash": fmt.Sprintf("%x", hdr.AppHash),
		"validators_hash": fmt.Sprintf("%x", vh), "header_hash": fmt.Sprintf("%x", hh), "trusted_time": t0.Format(time.RFC3339Nano), "now": now.Format(time.RFC3339Nano)}

	// untrusted: what the light client is handed.  In wire mode the whole light
	// block (signed header + the forged validator-set message) goes through
	// LightBlockFromProto; if that refuses it, the separately decoded set is used.
	untrusted := func(vi int, v *variant) (*types.SignedHeader, *types.ValidatorSet, string) {
		if v.wireVP == nil {
			return sh, v.vals, "local"
		}
		bz, err := (&tmproto.LightBlock{SignedHeader: sh.ToProto(), ValidatorSet: v.wireVP}).Marshal()
		if err != nil {
			panic(err)
		}
		pb := new(tmproto.LightBlock)
		if err := pb.Unmarshal(bz); err != nil {
			panic(err)
		}
		var lb *types.LightBlock
		ok, desc, _ := call(func() error {
			var e error
			lb, e = types.LightBlockFromProto(pb)
			return e
		})
		if !ok || lb.SignedHeader == nil || lb.ValidatorSet == nil {
			loc["wire.LightBlockFromProto.rejected"]++
			if wf {
				loc["wire.LightBlockFromProto.rejected-with-well-formed-block-id: "+errClass(desc)]++
			}
			return sh, v.vals, "ValidatorSetFromProto"
		}
		loc["wire.LightBlockFromProto.accepted"]++
		sum := new(big.Int)
		for _, x := range v.wireVP.Validators {
			sum.Add(sum, bi(x.VotingPower))
		}
		g.checkTotal("LightBlockFromProto", lb.ValidatorSet, v.wireVP, sum, v.muts, map[string]interface{}{"stream": b.stream, "case": b.idx, "variant": vi, "seed": c.Seed}, loc)
		return lb.SignedHeader, lb.ValidatorSet, "LightBlockFromProto"
	}
	tally := func(v *variant) (ref.TallyResult, func(map[string]interface{}) map[string]interface{}) {
		ov := v.vals
		if v.ovals != nil {
			ov = v.ovals
		}
		tr := ref.TallyCommitCached(cache, b.chainID, ov, b.blockID, b.height, b.commit)
		return tr, func(extra map[string]interface{}) map[string]interface{} {
			m := map[string]interface{}{"header": hdrJ, "oracle": map[string]interface{}{"total": tr.Total.String(), "for_block": tr.ForBlock.String(),
				"all_non_absent_valid": tr.AllNonAbsentValid, "structural": fmt.Sprint(tr.Structural), "accepts": tr.OK(), "commit_hash_is_header_hash": hashMatches}}
			for k, x := range extra {
				m[k] = x
			}
			return m
		}
	}

	for _, vi := range []int{0, 1} {
		v := vs[vi]
		tr, oracleJ := tally(v)
		ush, uvals, via := untrusted(vi, v)
		adjOK, adjDesc, _ := call(func() error {
			return light.VerifyAdjacent(mkTrusted(b.height-1), ush, uvals, time.Hour, now, 10*time.Second)
		})
		c.Eval()
		loc[fmt.Sprintf("light.VerifyAdjacent.accept=%v", adjOK)]++
		loc["light.VerifyAdjacent.verdict."+errClass(adjDesc)]++
		loc["light.VerifyAdjacent.untrusted-set-via."+via]++
		if adjOK && !(tr.OK() && hashMatches) {
			key := "light.VerifyAdjacent-accepts-insufficient-valid-power"
			if tr.OK() {
				key = "light.VerifyAdjacent-accepts-commit-for-another-block"
			}
			c.Violation(key, fmt.Sprintf("light.VerifyAdjacent returned nil for a header whose commit has valid for-block power %s of %s over exactly (chain, height, round, commit.BlockID); family: %s, block id shape: %s, set via %s %v",
				tr.ForBlock, tr.Total, fam, shape, via, v.muts), g.witness(b, vi, v, oracleJ(map[string]interface{}{"light.VerifyAdjacent": adjDesc, "untrusted_set_via": via})))
		}
		if !adjOK && tr.OK() && tr.AllNonAbsentValid && hashMatches && wf {
			loc["light.VerifyAdjacent.rejected-although-reference-accepts(expected 0)"]++
		}
		c.Distinct("light-class", "adjacent", fam, shape, clsA, clsB, via, adjOK)
	}

	for _, vi := range []int{0, 2} {
		v := vs[vi]
		tr, oracleJ := tally(v)
		otv := v.tvals
		if v.otvals != nil {
			otv = v.otvals
		}
		tt := ref.TallyCommitTrustingDetail(cache, b.chainID, otv, b.commit)
		twant := ref.FractionExceeded(tt.ForBlock, tt.Total, v.tl.Numerator, v.tl.Denominator)
		ush, uvals, via := untrusted(vi, v)
		nonOK, nonDesc, _ := call(func() error {
			return light.VerifyNonAdjacent(mkTrusted(b.height-2), v.tvals, ush, uvals, time.Hour, now, 10*time.Second, v.tl)
		})
		c.Eval()
		loc[fmt.Sprintf("light.VerifyNonAdjacent.accept=%v", nonOK)]++
		loc["light.VerifyNonAdjacent.verdict."+errClass(nonDesc)]++
		loc["light.VerifyNonAdjacent.untrusted-set-via."+via]++
		if v.otvals != nil {
			loc["light.VerifyNonAdjacent.trusted-set-decoded-from-forged-message"]++
		}
		if nonOK && !(tr.OK() && hashMatches && twant) {
			key := "light.VerifyNonAdjacent-accepts-insufficient-valid-power"
			switch {
			case tr.OK() && hashMatches:
				key = "light.VerifyNonAdjacent-accepts-below-trust-level"
			case tr.OK():
				key = "light.VerifyNonAdjacent-accepts-commit-for-another-block"
			}
			c.Violation(key, fmt.Sprintf("light.VerifyNonAdjacent(%d/%d) returned nil: new set has valid for-block power %s of %s, trusted set %s of %s, over exactly (chain, height, round, commit.BlockID); family: %s, block id shape: %s, set via %s %v",
				v.tl.Numerator, v.tl.Denominator, tr.ForBlock, tr.Total, tt.ForBlock, tt.Total, fam, shape, via, v.muts),
				g.witness(b, vi, v, oracleJ(map[string]interface{}{"light.VerifyNonAdjacent": nonDesc, "untrusted_set_via": via,
					"oracle_trusting": map[string]interface{}{"total": tt.Total.String(), "for_block": tt.ForBlock.String(), "accepts": twant}})))
		}
		prod := new(big.Int).Mul(new(big.Int).SetUint64(v.tl.Numerator), tt.Total)
		if !nonOK && tr.OK() && tr.AllNonAbsentValid && hashMatches && wf && twant && tt.AllValid && !tt.DoubleSigner &&
			fitsInt64(v.tl.Numerator) && fitsInt64(v.tl.Denominator) && prod.IsInt64() {
			loc["light.VerifyNonAdjacent.rejected-although-reference-accepts(expected 0)"]++
		}
		c.Distinct("light-class", "non-adjacent", fam, shape, clsA, clsB, via, twant, nonOK)
	}
}
