package c07

// Validator sets DECODED FROM THE WIRE from a hostile encoder.
//
// For a share of the cases of every stream the validator set handed to
// VerifyCommit / VerifyCommitLight (and, independently or shared, the trusted
// set handed to VerifyCommitLightTrusting) is not the locally built object but
// the result of ToProto -> forge -> Marshal -> Unmarshal -> ValidatorSetFromProto
// (in the relabel stream's light stage: LightBlockFromProto).  The forger only
// touches what ValidatorSet.Hash() does not cover, i.e. what a peer can change
// without being caught by the header's validators hash:
//
//	total_voting_power   1, 2, one member's power, the smallest power, half / a
//	                     third of / 1.5x the real total, real total +-1,
//	                     negative, -total, MaxInt64, MinInt64, 0
//	proposer             nil, a non-member, a copy of a member with another
//	                     power (1, 0, 5x total, MaxInt64, negative), without a
//	                     public key, with extreme priority
//	proposer_priority    of every member: random, MaxInt64, MinInt64, all equal
//	address              of members (derived from the key, not hashed): two
//	                     swapped, one duplicated onto another, random, wrong length
//
// The decoder may reject a forgery (counted).  If it accepts, the set is still
// "the given validator set" of the property: its total power is the sum of its
// members' powers, whatever the wire said.  The reference therefore tallies on
// a plain-data view built by the harness from the forged message itself
// (members' keys, powers and addresses as sent; no decoder, no cached total),
// and evaluate() demands the usual soundness / completeness / agreement of all
// three entry points against it.  In addition TotalVotingPower() of every
// successfully decoded set must equal the big-integer sum of the members' powers
// (key decoded-valset-total-power-forged).

import (
	"fmt"
	"math"
	"math/big"
	"math/rand"

	cryptoproto "github.com/tendermint/tendermint/proto/tendermint/crypto"
	tmproto "github.com/tendermint/tendermint/proto/tendermint/types"
	"github.com/tendermint/tendermint/types"
)

// forge mutates the uncovered fields of vp; returns stable class names.
func (g *gen) forge(r *rand.Rand, vp *tmproto.ValidatorSet, outside []int) []string {
	var names []string
	n := len(vp.Validators)
	sum := new(big.Int)
	minP := int64(math.MaxInt64)
	for _, v := range vp.Validators {
		sum.Add(sum, bi(v.VotingPower))
		if v.VotingPower < minP {
			minP = v.VotingPower
		}
	}
	s := sum.Int64() // sets are built with total <= MaxTotalVotingPower
	k := 1 + r.Intn(2)
	used := map[int]bool{} // at most one forgery per field group, so that the per-forgery decoder verdicts are attributable
	group := func(x int) int {
		switch {
		case x < 50:
			return 0
		case x < 72:
			return 1
		case x < 90:
			return 2
		}
		return 3
	}
	for tries := 0; len(names) < k && tries < 50; tries++ {
		x := r.Intn(100)
		if used[group(x)] {
			continue
		}
		before := len(names)
		switch {
		case x < 50: // total_voting_power
			type tv struct {
				name string
				v    int64
			}
			opts := []tv{{"1", 1}, {"2", 2}, {"negative", -1 - r.Int63n(1000)}, {"-total", -s}, {"MaxInt64", math.MaxInt64}, {"MinInt64", math.MinInt64},
				{"0", 0}, {"total+1", s + 1}, {"total-1", s - 1}, {"total/2", s / 2}, {"total/3", s / 3}, {"total*3/2", s + s/2}, {"total*2", 2 * s}}
			if n > 0 {
				opts = append(opts, tv{"power-of-one-member", vp.Validators[r.Intn(n)].VotingPower}, tv{"smallest-power", minP})
			}
			o := opts[r.Intn(len(opts))]
			vp.TotalVotingPower = o.v
			names = append(names, "total="+o.name)
		case x < 72: // proposer
			member := func() *tmproto.Validator {
				if n == 0 {
					return nil
				}
				m := *vp.Validators[r.Intn(n)]
				m.Address = cpb(m.Address)
				return &m
			}
			switch r.Intn(9) {
			case 0:
				vp.Proposer = nil
				names = append(names, "proposer=nil")
			case 1:
				if len(outside) == 0 {
					continue
				}
				p, err := types.NewValidator(g.pool[outside[r.Intn(len(outside))]].pub, 1+r.Int63n(1+s)).ToProto()
				if err != nil {
					panic(err)
				}
				vp.Proposer = p
				names = append(names, "proposer=non-member")
			case 2, 3, 4:
				m := member()
				if m == nil {
					continue
				}
				pw := []struct {
					name string
					v    int64
				}{{"1", 1}, {"0", 0}, {"5x-total", 5 * s}, {"MaxInt64", math.MaxInt64}, {"total", s}}
				o := pw[r.Intn(len(pw))]
				m.VotingPower = o.v
				vp.Proposer = m
				names = append(names, "proposer=member-with-power-"+o.name)
			case 5:
				m := member()
				if m == nil {
					continue
				}
				m.VotingPower = -1 - r.Int63n(1000)
				vp.Proposer = m
				names = append(names, "proposer=member-with-negative-power")
			case 6:
				m := member()
				if m == nil {
					continue
				}
				m.PubKey = cryptoproto.PublicKey{}
				vp.Proposer = m
				names = append(names, "proposer=without-public-key")
			case 7:
				m := member()
				if m == nil {
					continue
				}
				m.ProposerPriority = []int64{math.MaxInt64, math.MinInt64}[r.Intn(2)]
				vp.Proposer = m
				names = append(names, "proposer=member-with-extreme-priority")
			default:
				m := member()
				if m == nil {
					continue
				}
				m.Address = rnd(r, 20)
				vp.Proposer = m
				names = append(names, "proposer=member-with-other-address")
			}
		case x < 90: // proposer_priority of every member
			if n == 0 {
				continue
			}
			mode := r.Intn(4)
			for _, v := range vp.Validators {
				switch mode {
				case 0:
					v.ProposerPriority = r.Int63() - r.Int63()
				case 1:
					v.ProposerPriority = math.MaxInt64
				case 2:
					v.ProposerPriority = math.MinInt64
				default:
					v.ProposerPriority = 7
				}
			}
			names = append(names, "priorities="+[]string{"random", "MaxInt64", "MinInt64", "equal"}[mode])
		default: // addresses
			if n == 0 {
				continue
			}
			i := r.Intn(n)
			switch r.Intn(4) {
			case 0:
				if n < 2 {
					continue
				}
				j := (i + 1 + r.Intn(n-1)) % n
				vp.Validators[i].Address, vp.Validators[j].Address = vp.Validators[j].Address, vp.Validators[i].Address
				names = append(names, "address=two-swapped")
			case 1:
				if n < 2 {
					continue
				}
				j := (i + 1 + r.Intn(n-1)) % n
				vp.Validators[i].Address = cpb(vp.Validators[j].Address)
				names = append(names, "address=duplicated")
			case 2:
				vp.Validators[i].Address = rnd(r, 20)
				names = append(names, "address=random")
			default:
				vp.Validators[i].Address = rnd(r, []int{0, 19, 21, 32}[r.Intn(4)])
				names = append(names, "address=wrong-length")
			}
		}
		if len(names) > before {
			used[group(x)] = true
		}
	}
	return names
}

type wired struct {
	impl   *types.ValidatorSet   // what ValidatorSetFromProto returned
	oracle *types.ValidatorSet   // plain-data view of the forged message for the reference
	proto  *tmproto.ValidatorSet // the forged message (after the byte round trip)
	names  []string              // forgeries applied
	sum    *big.Int              // real total: sum of the members' powers as sent
}

// oracleView: members exactly as sent (key, power, address), nothing else.
func oracleView(vp *tmproto.ValidatorSet, orig *types.ValidatorSet) *types.ValidatorSet {
	out := &types.ValidatorSet{Validators: make([]*types.Validator, len(vp.Validators))}
	for i, v := range vp.Validators {
		out.Validators[i] = &types.Validator{Address: cpb(v.Address), PubKey: orig.Validators[i].PubKey, VotingPower: v.VotingPower}
	}
	return out
}

func forgedJ(vp *tmproto.ValidatorSet) map[string]interface{} {
	m := map[string]interface{}{"total_voting_power": vp.TotalVotingPower}
	if vp.Proposer == nil {
		m["proposer"] = nil
	} else {
		m["proposer"] = map[string]interface{}{"address": fmt.Sprintf("%x", vp.Proposer.Address), "power": vp.Proposer.VotingPower, "priority": vp.Proposer.ProposerPriority}
	}
	var ms []map[string]interface{}
	for i, v := range vp.Validators {
		if i >= 8 {
			break
		}
		ms = append(ms, map[string]interface{}{"i": i, "address": fmt.Sprintf("%x", v.Address), "power": v.VotingPower, "priority": v.ProposerPriority})
	}
	m["members(first 8)"] = ms
	m["members_total"] = len(vp.Validators)
	return m
}

// checkTotal: TotalVotingPower() of a decoded set is the sum of its members' powers.
func (g *gen) checkTotal(where string, dec *types.ValidatorSet, vp *tmproto.ValidatorSet, sum *big.Int, names []string, id map[string]interface{}, st stats) {
	var got int64
	_, desc, panicked := call(func() error { got = dec.TotalVotingPower(); return nil })
	st["wire.total-checked"]++
	if panicked || sum.Cmp(bi(got)) != 0 {
		w := map[string]interface{}{"decoder": where, "forgeries": names, "forged_message": forgedJ(vp), "sum_of_member_powers": sum.String(), "TotalVotingPower()": got, "panic": desc}
		for k, x := range id {
			w[k] = x
		}
		g.c.Violation("decoded-valset-total-power-forged", fmt.Sprintf("%s accepted a validator set whose TotalVotingPower() is %d while its members' powers sum to %s; forgeries: %v",
			where, got, sum, names), w)
	}
}

// throughWire sends vs through a hostile encoder and the real decoder.
// ok=false: the decoder rejected the message (or vs cannot be encoded).
func (g *gen) throughWire(r *rand.Rand, role string, vs *types.ValidatorSet, outside []int, id map[string]interface{}, st stats) (w wired, ok bool) {
	vp, err := vs.ToProto()
	if err != nil {
		st["wire.ToProto-failed"]++
		return w, false
	}
	names := g.forge(r, vp, outside)
	bz, err := vp.Marshal()
	if err != nil {
		panic(err)
	}
	vp2 := new(tmproto.ValidatorSet)
	if err := vp2.Unmarshal(bz); err != nil {
		panic(err)
	}
	var dec *types.ValidatorSet
	accepted, desc, panicked := call(func() error {
		var e error
		dec, e = types.ValidatorSetFromProto(vp2)
		return e
	})
	for _, nm := range names {
		st[fmt.Sprintf("wire.%s.forged.%s.decoder-accepts=%v", role, nm, accepted)]++
	}
	if panicked {
		st["wire.ValidatorSetFromProto.panic"]++
	}
	if !accepted {
		st["wire.ValidatorSetFromProto.rejected"]++
		_ = desc
		return w, false
	}
	st["wire.ValidatorSetFromProto.accepted"]++
	if len(vp2.Validators) != len(vs.Validators) {
		panic("wire round trip changed the number of members")
	}
	sum := new(big.Int)
	for _, v := range vp2.Validators {
		sum.Add(sum, bi(v.VotingPower))
	}
	w = wired{impl: dec, oracle: oracleView(vp2, vs), proto: vp2, names: names, sum: sum}
	g.checkTotal("ValidatorSetFromProto", dec, vp2, sum, names, id, st)
	return w, true
}

// applyWire replaces the variant's sets by decoded ones (share decided by the caller).
func (g *gen) applyWire(r *rand.Rand, b *base, vi int, v *variant, st stats) {
	id := map[string]interface{}{"stream": b.stream, "case": b.idx, "variant": vi, "seed": g.c.Seed}
	shared := v.tvals == v.vals
	orig := v.vals
	w, ok := g.throughWire(r, "vals", orig, b.outside, id, st)
	if ok {
		v.vals, v.ovals, v.wireVP = w.impl, w.oracle, w.proto
		for _, nm := range w.names {
			v.muts = append(v.muts, "wire:vals:"+nm)
		}
		st["wire.variants-with-decoded-vals"]++
	}
	if shared && r.Intn(2) == 0 {
		if ok {
			v.tvals, v.otvals = w.impl, w.oracle
			st["wire.variants-with-decoded-tvals(same object)"]++
		}
		return
	}
	if tw, tok := g.throughWire(r, "tvals", v.tvals, b.outside, id, st); tok {
		v.tvals, v.otvals = tw.impl, tw.oracle
		for _, nm := range tw.names {
			v.muts = append(v.muts, "wire:tvals:"+nm)
		}
		st["wire.variants-with-decoded-tvals(own forgeries)"]++
	}
}
