// Package c02: a correct validator never equivocates and every vote it casts
// is justified (DESIGN.md C02).  Engine sim in single-node mode (all other
// validators are harness stubs, so histories only a > 1/3 coalition can produce
// are included) and in multi-node mode (the executions of C01 with the
// delivery journals switched on).
package c02

import (
	"fmt"
	"math/rand"
	"os"
	"path/filepath"
	"runtime"
	"sync"
	"time"

	cs "github.com/tendermint/tendermint/consensus"
	cstypes "github.com/tendermint/tendermint/consensus/types"
	"github.com/tendermint/tendermint/p2p"
	"github.com/tendermint/tendermint/privval"
	tmproto "github.com/tendermint/tendermint/proto/tendermint/types"
	"github.com/tendermint/tendermint/types"

	"verif/ref"
	"verif/sim"
	"verif/verdict"
)

type witness struct {
	Stream string         `json:"stream"`
	Case   int            `json:"case"`
	Config sim.Config     `json:"config"`
	Node   int            `json:"node"`
	Signed []string       `json:"signed"`
	Trace  []string       `json:"trace_tail"`
	Stats  map[string]int `json:"stats"`
}

func tail(t []string, k int) []string {
	if len(t) > k {
		return t[len(t)-k:]
	}
	return t
}

func signedLog(nd *sim.Node) []string {
	out := []string{}
	for _, s := range nd.PV.Log {
		out = append(out, fmt.Sprintf("step %d: %s %d/%d %X pol=%d", s.Step, s.Kind, s.Height, s.Round, s.BlockID.Hash, s.POLRound))
	}
	if len(out) > 80 {
		out = out[len(out)-80:]
	}
	return out
}

func audit(c *verdict.Ctx, net *sim.Net, stream string, idx int, cfg sim.Config, cache *ref.SigCache) {
	for _, i := range net.Order {
		nd := net.Nodes[i]
		for _, s := range nd.PV.Log {
			c.Count("signed."+s.Kind, 1)
			if s.Kind == "precommit" && len(s.BlockID.Hash) > 0 {
				c.Count("signed.precommit_for_block", 1)
			}
		}
		for _, f := range net.AuditVotes(nd, cache) {
			c.Violation(f.Key, f.What, witness{stream, idx, cfg, i, signedLog(nd), tail(net.Trace, 150), net.Stats})
		}
	}
}

// ---- multi-node mode

func runMulti(c *verdict.Ctx, idx int) {
	r := c.Rand("multi", idx)
	cfg := sim.DrawConfig(r, false)
	net := sim.NewNet(r, sim.NetOpt{Seed: c.SubSeed("multi-keys", idx), Powers: cfg.Powers, Faulty: cfg.Faulty,
		SkipTimeoutCommit: cfg.Skip, InitialHeight: cfg.InitialH, PowerBumps: cfg.Bumps})
	defer net.Close()
	net.JournalOn = true
	net.TraceOn = c.Replay() != ""
	net.Start()
	net.Pump()
	steps := cfg.Steps / 2
	net.AsyncRun(r.Intn(steps + 1))
	if r.Intn(2) == 0 {
		_, hi0 := net.MinMaxHeight()
		net.RunSync(hi0, 60, 300, nil)
		net.Synchronous = false
		c.Count("multi.recipe.split-lock:"+net.RecipeSplitLock(), 1)
	}
	net.AsyncRun(r.Intn(steps + 1))
	_, hi := net.MinMaxHeight()
	net.RunSync(hi, 60, 2000, func() {
		if len(net.Faulty) > 0 && net.R.Intn(2) == 0 {
			net.ByzStep()
		}
	})
	c.Eval()
	c.Count("multi.executions", 1)
	audit(c, net, "multi", idx, cfg, ref.NewSigCache())
	if net.Stats["decisions"] > 0 {
		c.Distinct("multi", idx, fmt.Sprint(cfg), net.Stats["delivered"])
	}
}

// ---- single-node mode

type solo struct {
	c   *verdict.Ctx
	net *sim.Net
	nd  *sim.Node
	me  int
	r   *rand.Rand
	now time.Time
	cfg sim.Config
}

// stubs returns the genesis indexes of stub validators present in vals, shuffled.
func (s *solo) stubs(vals *types.ValidatorSet) []int {
	out := []int{}
	for _, g := range s.net.Faulty {
		if s.net.ValIndex(vals, g) >= 0 {
			out = append(out, g)
		}
	}
	s.r.Shuffle(len(out), func(i, j int) { out[i], out[j] = out[j], out[i] })
	return out
}

func (s *solo) power(vals *types.ValidatorSet, g int) int64 {
	_, v := vals.GetByAddress(s.net.Keys[g].PubKey().Address())
	if v == nil {
		return 0
	}
	return v.VotingPower
}

// pickBlock returns a block id: a known block of this height, nil, or an unknown one.
func (s *solo) pickBlock(h int64) types.BlockID {
	kbs := s.net.KnownAt[h]
	switch x := s.r.Intn(10); {
	case x < 7 && len(kbs) > 0:
		return kbs[s.r.Intn(len(kbs))].BlockID
	case x < 9:
		return types.BlockID{}
	}
	b := make([]byte, 32)
	s.r.Read(b)
	b2 := make([]byte, 32)
	s.r.Read(b2)
	return types.BlockID{Hash: b, PartSetHeader: types.PartSetHeader{Total: 1, Hash: b2}}
}

// quorum sends votes of type typ for bid at (h, round) from stubs whose power,
// together with the node's own if includeSelf, just exceeds (over=true) or just
// stays at or below (over=false) two thirds.
func (s *solo) quorum(typ tmproto.SignedMsgType, h int64, round int32, bid types.BlockID, over bool) {
	rs := s.nd.CS.GetRoundState()
	vals := rs.Validators
	total := vals.TotalVotingPower()
	sum := int64(0)
	for _, g := range s.stubs(vals) {
		p := s.power(vals, g)
		if !over && 3*(sum+p) > 2*total {
			continue
		}
		v := s.net.SignVote(vals, g, typ, h, round, bid, s.now)
		s.net.Send(g, s.me, &cs.VoteMessage{Vote: v})
		sum += p
		if over && 3*sum > 2*total {
			break
		}
	}
	s.net.Stats[fmt.Sprintf("solo_quorum_%v_over=%v", typ, over)]++
}

func (s *solo) step() {
	net, nd, r := s.net, s.nd, s.r
	rs := nd.CS.GetRoundState()
	h, round := rs.Height, rs.Round
	switch x := r.Intn(100); {
	case x < 14:
		// a stub proposer proposes (valid, invalid, with or without POL round), maybe withholding a part
		pr := round + int32(r.Intn(2))
		g := net.ProposerAt(nd, pr)
		if !net.IsFaulty[g] {
			return
		}
		inv := ""
		if r.Intn(5) == 0 {
			inv = []string{"apphash", "time", "valhash", "lastblockid", "proposer", "results"}[r.Intn(6)]
		}
		kb := net.ByzBlock(nd, g, pr, r.Intn(3), inv)
		if kb == nil {
			return
		}
		pol := int32(-1)
		if pr > 0 && r.Intn(3) == 0 {
			pol = int32(r.Intn(int(pr)))
		}
		// re-propose a known earlier block with a POL round
		if pr > 0 && r.Intn(3) == 0 && len(net.KnownAt[h]) > 0 {
			old := net.KnownAt[h][r.Intn(len(net.KnownAt[h]))]
			if old.Block != nil {
				kb = old
				pol = int32(r.Intn(int(pr)))
			}
		}
		msgs := net.ProposalMsgs(g, kb, h, pr, pol)
		if r.Intn(6) == 0 && len(msgs) > 1 {
			msgs = msgs[:len(msgs)-1]
		}
		net.Send(g, s.me, msgs...)
	case x < 34:
		qr := round + 1 - int32(r.Intn(5)) // late quorums from up to three rounds back are included
		if qr < 0 {
			qr = 0
		}
		s.quorum(tmproto.PrevoteType, h, qr, s.pickBlock(h), r.Intn(4) != 0)
	case x < 46:
		s.quorum(tmproto.PrecommitType, h, round+int32(r.Intn(3))-1, s.pickBlock(h), r.Intn(4) != 0)
	case x < 52:
		// mixed votes: more than 2/3 of the power votes, but split over two targets so that neither has a quorum
		// (drives the wait steps: "2/3 any" without a polka / commit)
		typ := tmproto.PrevoteType
		if r.Intn(2) == 0 {
			typ = tmproto.PrecommitType
		}
		vr := round + int32(r.Intn(2))
		a, b := s.pickBlock(h), s.pickBlock(h)
		for i, g := range s.stubs(rs.Validators) {
			bid := a
			if i%2 == 1 {
				bid = b
			}
			net.Send(g, s.me, &cs.VoteMessage{Vote: net.SignVote(rs.Validators, g, typ, h, vr, bid, s.now)})
		}
		net.Stats["solo_mixed_votes"]++
	case x < 58:
		// single vote, any nearby round (late votes from earlier rounds included)
		vr := round - int32(r.Intn(4)) + int32(r.Intn(3))
		if vr < 0 {
			vr = 0
		}
		st := s.stubs(rs.Validators)
		if len(st) == 0 {
			return
		}
		typ := tmproto.PrevoteType
		if r.Intn(2) == 0 {
			typ = tmproto.PrecommitType
		}
		net.Send(st[0], s.me, &cs.VoteMessage{Vote: net.SignVote(rs.Validators, st[0], typ, h, vr, s.pickBlock(h), s.now)})
	case x < 63:
		// majority claim
		typ := tmproto.PrevoteType
		if r.Intn(2) == 0 {
			typ = tmproto.PrecommitType
		}
		st := s.stubs(rs.Validators)
		if len(st) > 0 {
			_ = nd.CS.VerifVotes().SetPeerMaj23(round, typ, p2p.ID("v"+p2pid(st[0])), s.pickBlock(h))
		}
	case x < 85:
		// deliver something in flight
		if len(net.InFlight) > 0 {
			k := r.Intn(len(net.InFlight))
			e := net.InFlight[k]
			net.InFlight = append(net.InFlight[:k], net.InFlight[k+1:]...)
			if r.Intn(15) == 0 {
				net.InFlight = append(net.InFlight, e) // duplicate
			}
			net.Deliver(e)
		}
	case x < 88:
		if len(net.InFlight) > 0 {
			k := r.Intn(len(net.InFlight))
			net.InFlight = append(net.InFlight[:k], net.InFlight[k+1:]...)
		}
	default:
		net.FireTimeout(s.me)
	}
}

func p2pid(g int) string { return fmt.Sprint(g) }

// deliverAllToMe hands the node everything in flight.
func (s *solo) deliverAllToMe() {
	for guard := 0; len(s.net.InFlight) > 0 && guard < 5000; guard++ {
		e := s.net.InFlight[0]
		s.net.InFlight = s.net.InFlight[1:]
		s.net.Deliver(e)
	}
}

// votesFrom signs votes of the given stubs.
func (s *solo) votesFrom(stubs []int, typ tmproto.SignedMsgType, h int64, round int32, bid types.BlockID) []*types.Vote {
	rs := s.nd.CS.GetRoundState()
	var out []*types.Vote
	for _, g := range stubs {
		out = append(out, s.net.SignVote(rs.Validators, g, typ, h, round, bid, s.now))
	}
	return out
}

func (s *solo) sendVotes(vs []*types.Vote) {
	for _, v := range vs {
		g := s.net.AddrIdx[string(v.ValidatorAddress)]
		s.net.Send(g, s.me, &cs.VoteMessage{Vote: v})
	}
}

// passRound moves the node from round `round` to the next one: all stubs precommit nil, the wait timeout fires.
func (s *solo) passRound(h int64, round int32) {
	rs := s.nd.CS.GetRoundState()
	if rs.Height != h || rs.Round != round {
		return
	}
	if rs.Step == cstypes.RoundStepPropose {
		s.net.FireTimeout(s.me)
	}
	s.sendVotes(s.votesFrom(s.stubs(rs.Validators), tmproto.PrecommitType, h, round, types.BlockID{}))
	s.deliverAllToMe()
	for k := 0; k < 3; k++ {
		cur := s.nd.CS.GetRoundState()
		if cur.Height != h || cur.Round != round {
			return
		}
		s.net.FireTimeout(s.me)
	}
}

// recipeRelockStalePolka: the node locks B, a quorum for another block C in a later round r1 is delivered only
// partially, the node re-locks B in a still later round r2 (with or without a proposal there), then the rest of the
// round-r1 prevotes for C arrives (a polka older than the latest lock), and a fresh proposal comes in round r2+1.
// A correct node keeps prevoting B.
func (s *solo) recipeRelockStalePolka() string {
	net, nd, r := s.net, s.nd, s.r
	rs := nd.CS.GetRoundState()
	h := rs.Height
	if !net.StartRoundOne(s.me, h) {
		return "cannot-start"
	}
	rs = nd.CS.GetRoundState()
	vals := rs.Validators
	stubs := s.stubs(vals)
	var stubPower int64
	for _, g := range stubs {
		stubPower += s.power(vals, g)
	}
	if 3*stubPower <= 2*vals.TotalVotingPower() {
		return "stubs-below-quorum"
	}
	r0 := rs.Round
	// ---- lock B in round r0
	if g := net.ProposerAt(nd, r0); net.IsFaulty[g] {
		kb := net.ByzBlock(nd, g, r0, 21, "")
		if kb == nil {
			return "cannot-build"
		}
		net.Send(g, s.me, net.ProposalMsgs(g, kb, h, r0, -1)...)
	}
	s.deliverAllToMe()
	rs = nd.CS.GetRoundState()
	if rs.ProposalBlock == nil {
		return "no-proposal"
	}
	B := types.BlockID{Hash: rs.ProposalBlock.Hash(), PartSetHeader: rs.ProposalBlockParts.Header()}
	s.sendVotes(s.votesFrom(stubs, tmproto.PrevoteType, h, r0, B))
	s.deliverAllToMe()
	if nd.CS.GetRoundState().LockedBlock == nil {
		return "not-locked"
	}
	s.passRound(h, r0)
	// ---- round r1: partial quorum for C, the rest is held back
	r1 := r0 + 1
	if nd.CS.GetRoundState().Round != r1 {
		return "not-in-r1"
	}
	C := s.pickBlock(h)
	for string(C.Hash) == string(B.Hash) || len(C.Hash) == 0 {
		C = types.BlockID{Hash: randHash(r), PartSetHeader: types.PartSetHeader{Total: 1, Hash: randHash(r)}}
	}
	var early, late []int
	var sum int64
	for _, g := range stubs {
		p := s.power(vals, g)
		if 3*(sum+p) <= 2*vals.TotalVotingPower() && r.Intn(4) != 0 {
			early = append(early, g)
			sum += p
		} else {
			late = append(late, g)
		}
	}
	lateVotes := s.votesFrom(late, tmproto.PrevoteType, h, r1, C)
	s.sendVotes(s.votesFrom(early, tmproto.PrevoteType, h, r1, C))
	s.deliverAllToMe()
	// ---- round r2 (possibly skipping rounds): polka for B again -> re-lock
	r2 := r1 + 1 + int32(r.Intn(2))
	withProposal := r.Intn(2) == 0
	if withProposal {
		if g := net.ProposerAt(nd, r2); net.IsFaulty[g] {
			if kb := net.Known[string(B.Hash)]; kb != nil && kb.Block != nil {
				net.Send(g, s.me, net.ProposalMsgs(g, kb, h, r2, r0)...)
			}
		}
	}
	// a 2/3 quorum of round-r2 prevotes makes the node skip to r2
	s.sendVotes(s.votesFrom(stubs, tmproto.PrevoteType, h, r2, B))
	s.deliverAllToMe()
	for k := 0; k < 4; k++ {
		cur := nd.CS.GetRoundState()
		if cur.Round == r2 && cur.Step >= cstypes.RoundStepPrecommit {
			break
		}
		net.FireTimeout(s.me)
		s.deliverAllToMe()
	}
	relocked := false
	for _, sg := range nd.PV.Log {
		if sg.Kind == "precommit" && sg.Height == h && sg.Round == r2 && string(sg.BlockID.Hash) == string(B.Hash) {
			relocked = true
		}
	}
	// ---- the stale round-r1 prevotes for C arrive now
	s.sendVotes(lateVotes)
	s.deliverAllToMe()
	// ---- next round with a fresh proposal
	s.passRound(h, r2)
	r3 := r2 + 1
	if g := net.ProposerAt(nd, r3); net.IsFaulty[g] {
		if kb := net.ByzBlock(nd, g, r3, 23, ""); kb != nil {
			net.Send(g, s.me, net.ProposalMsgs(g, kb, h, r3, net.ForgedPOL(r0, r3))...)
		}
	}
	s.deliverAllToMe()
	cur := nd.CS.GetRoundState()
	if cur.Height == h && cur.Round == r3 && cur.Step == cstypes.RoundStepPropose {
		net.FireTimeout(s.me)
		s.deliverAllToMe()
	}
	if relocked {
		return "relocked-then-stale-polka"
	}
	return "stale-polka-without-relock"
}

// recipeLaggingCommit: the node precommits B in round r0 (it saw the polka) and stays in that round; the
// network meanwhile decides in a later round R, and the node learns of R through precommits only (what
// peers that are already at the next height send a lagging peer): +2/3 precommits for a block at round R
// (the same block, or another one), or a mix giving 2/3-any.  Whatever it signs next must carry round R
// (or later), never a second precommit for round r0.
func (s *solo) recipeLaggingCommit() string {
	net, nd, r := s.net, s.nd, s.r
	rs := nd.CS.GetRoundState()
	h := rs.Height
	if !net.StartRoundOne(s.me, h) {
		return "cannot-start"
	}
	rs = nd.CS.GetRoundState()
	vals := rs.Validators
	stubs := s.stubs(vals)
	var stubPower int64
	for _, g := range stubs {
		stubPower += s.power(vals, g)
	}
	if 3*stubPower <= 2*vals.TotalVotingPower() {
		return "stubs-below-quorum"
	}
	r0 := rs.Round
	if g := net.ProposerAt(nd, r0); net.IsFaulty[g] {
		kb := net.ByzBlock(nd, g, r0, 41, "")
		if kb == nil {
			return "cannot-build"
		}
		net.Send(g, s.me, net.ProposalMsgs(g, kb, h, r0, -1)...)
	}
	s.deliverAllToMe()
	rs = nd.CS.GetRoundState()
	if rs.ProposalBlock == nil {
		return "no-proposal"
	}
	B := types.BlockID{Hash: rs.ProposalBlock.Hash(), PartSetHeader: rs.ProposalBlockParts.Header()}
	s.sendVotes(s.votesFrom(stubs, tmproto.PrevoteType, h, r0, B))
	s.deliverAllToMe()
	rs = nd.CS.GetRoundState()
	if rs.LockedBlock == nil || rs.Round != r0 {
		return "not-locked-in-r0"
	}
	R := r0 + 1 + int32(r.Intn(3))
	mode := r.Intn(3)
	X := B
	if mode == 1 { // the network decided another block in round R
		var prop int
		for _, g := range stubs {
			prop = g
		}
		if kb := net.ByzBlock(nd, prop, R, 43, ""); kb != nil {
			X = kb.BlockID
		}
	}
	switch mode {
	case 0, 1:
		s.sendVotes(s.votesFrom(stubs, tmproto.PrecommitType, h, R, X))
	default: // 2/3-any at round R: some for the block, some nil
		half := len(stubs) / 2
		s.sendVotes(s.votesFrom(stubs[:half], tmproto.PrecommitType, h, R, X))
		s.sendVotes(s.votesFrom(stubs[half:], tmproto.PrecommitType, h, R, types.BlockID{}))
	}
	s.deliverAllToMe()
	cur := nd.CS.GetRoundState()
	return fmt.Sprintf("done(mode=%d,height-moved=%v,round=%d-of-%d)", mode, cur.Height != h, cur.Round-r0, R-r0)
}

// recipeLatePolkaForLockedBlock: the node locks B in round r0; the prevotes of a later round r1 for the SAME
// block B arrive only after the node has left r1 (nothing to unlock, too late to re-lock: its lock round stays
// r0).  A faulty proposer of a still later round then proposes another valid block C and names r1 as the
// proposal's POL round.  Round r1 did have a polka - for B, not for C: the node must keep prevoting B.
func (s *solo) recipeLatePolkaForLockedBlock() string {
	net, nd, r := s.net, s.nd, s.r
	rs := nd.CS.GetRoundState()
	h := rs.Height
	if !net.StartRoundOne(s.me, h) {
		return "cannot-start"
	}
	rs = nd.CS.GetRoundState()
	vals := rs.Validators
	stubs := s.stubs(vals)
	var stubPower int64
	for _, g := range stubs {
		stubPower += s.power(vals, g)
	}
	if 3*stubPower <= 2*vals.TotalVotingPower() {
		return "stubs-below-quorum"
	}
	r0 := rs.Round
	if g := net.ProposerAt(nd, r0); net.IsFaulty[g] {
		kb := net.ByzBlock(nd, g, r0, 51, "")
		if kb == nil {
			return "cannot-build"
		}
		net.Send(g, s.me, net.ProposalMsgs(g, kb, h, r0, -1)...)
	}
	s.deliverAllToMe()
	rs = nd.CS.GetRoundState()
	if rs.ProposalBlock == nil {
		return "no-proposal"
	}
	B := types.BlockID{Hash: rs.ProposalBlock.Hash(), PartSetHeader: rs.ProposalBlockParts.Header()}
	s.sendVotes(s.votesFrom(stubs, tmproto.PrevoteType, h, r0, B))
	s.deliverAllToMe()
	if nd.CS.GetRoundState().LockedBlock == nil {
		return "not-locked"
	}
	s.passRound(h, r0)
	r1 := r0 + 1
	if nd.CS.GetRoundState().Round != r1 {
		return "not-in-r1"
	}
	late := s.votesFrom(stubs, tmproto.PrevoteType, h, r1, B)
	s.passRound(h, r1)
	cur := nd.CS.GetRoundState()
	if cur.Height != h || cur.Round <= r1 {
		return "not-past-r1"
	}
	// the polka for B of round r1 arrives now
	s.sendVotes(late)
	s.deliverAllToMe()
	if lr := nd.CS.GetRoundState().LockedRound; lr != r0 {
		return fmt.Sprintf("lock-round-moved-to-%d", lr-r0)
	}
	// the next rounds: whenever a stub proposes, it proposes a fresh block C with POL round r1
	for att := 0; att < 4; att++ {
		cur = nd.CS.GetRoundState()
		if cur.Height != h {
			return "decided"
		}
		rr := cur.Round
		if g := net.ProposerAt(nd, rr); net.IsFaulty[g] {
			if kb := net.ByzBlock(nd, g, rr, 53+att, ""); kb != nil && string(kb.BlockID.Hash) != string(B.Hash) {
				pol := r1
				if r.Intn(3) == 0 {
					pol = r0 + int32(r.Intn(int(rr-r0)))
				}
				net.Send(g, s.me, net.ProposalMsgs(g, kb, h, rr, pol)...)
				s.deliverAllToMe()
				if c2 := nd.CS.GetRoundState(); c2.Height == h && c2.Round == rr && c2.Step == cstypes.RoundStepPropose {
					net.FireTimeout(s.me)
				}
				return fmt.Sprintf("proposed-other-block-with-pol(rounds-after-lock=%d,pol-is-late-polka-round=%v)", rr-r0, pol == r1)
			}
		}
		s.passRound(h, rr)
	}
	return "no-faulty-proposer-in-time"
}

func randHash(r *rand.Rand) []byte {
	b := make([]byte, 32)
	r.Read(b)
	return b
}

func runSolo(c *verdict.Ctx, idx int, tmp string) {
	r := c.Rand("solo", idx)
	n := []int{4, 4, 5, 7}[r.Intn(4)]
	cfg := sim.Config{N: n, Powers: make([]int64, n), Skip: r.Intn(2) == 0, Steps: 150 + r.Intn(500), InitialH: 1}
	for i := range cfg.Powers {
		cfg.Powers[i] = int64(1 + r.Intn(10))
	}
	me := r.Intn(n)
	for i := 0; i < n; i++ {
		if i != me {
			cfg.Faulty = append(cfg.Faulty, i)
		}
	}
	useFilePV := r.Intn(3) == 0
	seed := c.SubSeed("solo-keys", idx)
	var pvDir string
	net := sim.NewNet(r, sim.NetOpt{Seed: seed, Powers: cfg.Powers, Faulty: cfg.Faulty, SkipTimeoutCommit: cfg.Skip,
		NodeOpt: func(i int) sim.NodeOpt {
			o := sim.NodeOpt{SkipTimeoutCommit: cfg.Skip}
			if useFilePV {
				pvDir = filepath.Join(tmp, fmt.Sprintf("pv-%d", idx))
				_ = os.MkdirAll(pvDir, 0o755)
				o.PV = privval.NewFilePV(sim.KeyOf(seed, i), filepath.Join(pvDir, "key.json"), filepath.Join(pvDir, "state.json"))
			}
			return o
		}})
	defer func() {
		net.Close()
		if pvDir != "" {
			_ = os.RemoveAll(pvDir)
		}
	}()
	net.JournalOn = true
	net.TraceOn = c.Replay() != ""
	s := &solo{c: c, net: net, nd: net.Nodes[me], me: me, r: r, now: time.Now(), cfg: cfg}
	net.Start()
	net.Pump()
	maxRound := int32(0)
	switch r.Intn(7) {
	case 0:
		c.Count("solo.recipe.relock:"+s.recipeRelockStalePolka(), 1)
	case 1:
		c.Count("solo.recipe.lagging-commit:"+s.recipeLaggingCommit(), 1)
	case 2:
		c.Count("solo.recipe.late-polka-for-locked-block:"+s.recipeLatePolkaForLockedBlock(), 1)
	}
	for k := 0; k < cfg.Steps; k++ {
		if s.nd.Halted != "" {
			// > 2/3 of the power (all stubs) backed an invalid block: the node halts by design
			c.Count("solo.halted_on_consensus_panic", 1)
			break
		}
		s.step()
		rs := s.nd.CS.GetRoundState()
		if rs.Round > maxRound {
			maxRound = rs.Round
		}
		c.Distinct("tuple", rs.Step, rs.LockedRound >= 0, rs.ValidRound >= 0, rs.Proposal != nil, rs.Proposal != nil && rs.Proposal.POLRound >= 0, rs.Step == cstypes.RoundStepCommit)
	}
	c.Eval()
	c.Count("solo.executions", 1)
	if useFilePV {
		c.Count("solo.executions_with_filepv", 1)
	}
	c.Max("solo.max_round", int64(maxRound))
	c.Count("solo.decisions", int64(net.Stats["decisions"]))
	for k, v := range net.Stats {
		if len(k) > 5 && k[:5] == "solo_" {
			c.Count(k, int64(v))
		}
	}
	audit(c, net, "solo", idx, cfg, ref.NewSigCache())
	if len(s.nd.PV.Log) > 2 {
		c.Distinct("solo", idx, fmt.Sprint(cfg), len(s.nd.PV.Log))
	}
	if c.WantSample() {
		c.Sample(map[string]interface{}{"stream": "solo", "case": idx, "config": cfg, "file_pv": useFilePV, "signed": signedLog(s.nd), "max_round": maxRound})
	}
}

func Run(c *verdict.Ctx) int {
	c.Level = "exploration"
	c.Rule = "one case = one message/timeout history delivered to real consensus.State machines: solo = one real validator whose peers are all harness stubs signing arbitrary proposals, quorums and near-quorums for known/unknown/nil blocks in rounds r-1..r+1; multi = the C01 executions; the signer journal (every signature released at the PrivValidator boundary) is joined offline with the delivery journal; non-trivial = the validator released more than two signatures; distinct by (config, signatures) plus distinct (step, locked, valid, proposal, POL) tuples reached"
	c.Assume("quorums are recomputed by the oracle from delivered votes with ref/tally.go sign-bytes and ed25519; votes count only if delivered while the node was at that height; a block counts as held when every part of its part-set header was delivered at that height")
	tmp := verdict.TmpDir("c02-")
	defer os.RemoveAll(tmp)
	nSolo, nMulti := c.N(3000, 150000), c.N(150, 4000)
	var wg sync.WaitGroup
	jobs := make(chan [2]int, 64)
	for w := 0; w < runtime.NumCPU(); w++ {
		wg.Add(1)
		go func() {
			defer wg.Done()
			for j := range jobs {
				if j[0] == 0 {
					runSolo(c, j[1], tmp)
				} else {
					runMulti(c, j[1])
				}
			}
		}()
	}
	for i := 0; i < nSolo; i++ {
		jobs <- [2]int{0, i}
	}
	for i := 0; i < nMulti; i++ {
		jobs <- [2]int{1, i}
	}
	close(jobs)
	wg.Wait()
	if c.Counter("signed.precommit_for_block") == 0 {
		c.HarnessError("no precommit for a block was ever signed: the justification oracle observed nothing")
	}
	return c.Finish(nSolo / 4)
}
