// Package c03: bounded-round termination after synchrony (DESIGN.md C03), engine sim.
//
// Liveness is restated as bounded progress: let H be the highest height a
// correct node works on at the synchrony point and R* the highest round a
// correct node has reached in H.  In the synchronous suffix (idealised gossip,
// timeouts only when nothing is in flight) every correct node must decide H
// before any correct node enters a round beyond R* + W + 2, where W is the
// number of rounds after R* until every correct validator has proposed once
// according to the reference proposer schedule (ref/valset.go, not the node).
package c03

import (
	"fmt"
	tmlog "github.com/tendermint/tendermint/libs/log"
	"os"
	"runtime"
	"strings"
	"sync"
	"time"

	"verif/ref"
	"verif/sim"
	"verif/verdict"
)

type witness struct {
	Stream string         `json:"stream"`
	Case   int            `json:"case"`
	Config sim.Config     `json:"config"`
	H      int64          `json:"height"`
	RStar  int32          `json:"r_star"`
	W      int            `json:"w"`
	Bound  int32          `json:"bound"`
	Result sim.SyncResult `json:"result"`
	Nodes  []string       `json:"nodes"`
	Trace  []string       `json:"trace_tail"`
}

func tail(t []string, k int) []string {
	if len(t) > k {
		return t[len(t)-k:]
	}
	return t
}

func runOne(c *verdict.Ctx, idx int) {
	r := c.Rand("exec", idx)
	cfg := sim.DrawConfig(r, false)
	cfg.Bumps = false // keep power ratios <= 5:1 so that W stays small
	timed := r.Intn(3) == 0
	delta := time.Duration(20+r.Intn(100)) * time.Millisecond // message delay of the timed suffix: 0.5x .. 3x the base propose timeout
	nopt := sim.NetOpt{Seed: c.SubSeed("keys", idx), Powers: cfg.Powers, Faulty: cfg.Faulty,
		SkipTimeoutCommit: cfg.Skip, InitialHeight: cfg.InitialH}
	if timed {
		nopt.NodeOpt = func(i int) sim.NodeOpt { return sim.NodeOpt{Config: sim.TimedConfig(cfg.Skip)} }
	}
	net := sim.NewNet(r, nopt)
	defer net.Close()
	net.TraceOn = c.Replay() != "" || os.Getenv("VERIF_C03_CASE") != ""
	if v := os.Getenv("VERIF_C03_LOGNODE"); v != "" {
		var ln int
		fmt.Sscan(v, &ln)
		if nd := net.Nodes[ln]; nd != nil {
			nd.CS.SetLogger(tmlog.NewTMLogger(tmlog.NewSyncWriter(os.Stdout)))
		}
	}
	net.Start()
	net.Pump()
	// adversarial prefix: random asynchrony, with a scripted strategy in most executions
	steps := cfg.Steps / 2
	recipe := "none"
	switch r.Intn(7) {
	case 0:
		net.AsyncRun(steps)
	case 6:
		net.AsyncRun(r.Intn(steps + 1))
		_, hi0 := net.MinMaxHeight()
		net.RunSync(hi0, 60, 300, nil)
		net.Synchronous = false
		recipe = "stale-valid-block:" + net.RecipeStaleValidBlock()
	case 5:
		net.AsyncRun(r.Intn(steps + 1))
		_, hi0 := net.MinMaxHeight()
		net.RunSync(hi0, 60, 300, nil)
		net.Synchronous = false
		recipe = "polka-before-own-prevote:" + net.RecipePolkaBeforeOwnPrevote()
	case 4:
		net.AsyncRun(r.Intn(steps + 1))
		_, hi0 := net.MinMaxHeight()
		net.RunSync(hi0, 60, 300, nil)
		net.Synchronous = false
		recipe = "commit-then-round-skip:" + net.RecipeCommitThenRoundSkip()
	case 1:
		net.AsyncRun(r.Intn(steps + 1))
		_, hi0 := net.MinMaxHeight()
		net.RunSync(hi0, 60, 300, nil)
		net.Synchronous = false
		recipe = "commit-without-block:" + net.RecipeCommitWithoutBlock()
	default:
		net.AsyncRun(r.Intn(steps + 1))
		_, hi0 := net.MinMaxHeight()
		net.RunSync(hi0, 60, 300, nil)
		net.Synchronous = false
		recipe = "split-lock:" + net.RecipeSplitLock()
		if r.Intn(2) == 0 {
			net.AsyncRun(r.Intn(60))
		}
	}
	c.Count("prefix."+recipe, 1)
	if len(net.HaltedNodes()) > 0 {
		c.Eval()
		c.Violation("correct-node-halted-on-panic", fmt.Sprintf("a correct node stopped with a consensus panic in the prefix while faulty power is below 1/3: %v", net.HaltedNodes()),
			witness{Stream: "exec", Case: idx, Config: cfg, Trace: tail(net.Trace, 150)})
		return
	}
	// ---- synchrony point
	_, H := net.MinMaxHeight()
	var rstar int32
	locked := map[string]bool{}
	behind, commitNoBlock := 0, 0
	for _, i := range net.Order {
		rs := net.Nodes[i].CS.GetRoundState()
		if rs.Height == H {
			if rs.Round > rstar {
				rstar = rs.Round
			}
			if rs.LockedBlock != nil {
				locked[string(rs.LockedBlock.Hash())] = true
			}
			if rs.Step == 8 && rs.ProposalBlock == nil {
				commitNoBlock++
			}
		} else {
			behind++
		}
	}
	// premise of the property: the correct nodes' clocks (the wall clock) are not behind the latest block time
	for _, i := range net.Order {
		if lbt := net.Nodes[i].CS.GetState().LastBlockTime; lbt.After(time.Now()) {
			c.Eval()
			c.Count("premise_not_met.block_time_ahead_of_clock", 1)
			c.Inconclusive("premise not met: the simulated chain's block time is ahead of the wall clock")
			return
		}
	}
	// W from the reference schedule of the validator set of height H
	var valsNode *sim.Node
	for _, i := range net.Order {
		if net.Nodes[i].CS.GetRoundState().Height == H {
			valsNode = net.Nodes[i]
		}
	}
	st := valsNode.CS.GetState()
	rset := ref.NewRSet(st.Validators)
	horizon := int(rstar) + 400
	sched := ref.ProposerSchedule(rset, horizon) // sched[k] = proposer of round k+1
	need := map[string]bool{}
	for _, i := range net.Order {
		need[string(net.Keys[i].PubKey().Address())] = true
	}
	// in timed mode rounds can only succeed once the timeouts have grown past what a round needs
	// (proposal, prevotes, precommits each take delta, plus the gossip period for relayed material)
	gossipEvery := delta / 2
	base := rstar
	var rNeed int32
	if timed {
		rNeed = sim.FirstSufficientRound(3*delta + 2*gossipEvery)
		if rNeed > base {
			base = rNeed
		}
	}
	W := -1
	for k := int(base); k < len(sched); k++ { // round k+1 > base
		delete(need, string(sched[k]))
		if len(need) == 0 {
			W = k + 1 - int(base)
			break
		}
	}
	if W < 0 {
		c.Inconclusive("proposer schedule does not cover every correct validator within 400 rounds")
		return
	}
	// One proposer rotation plus two rounds is what the argument of DESIGN.md C03 gives when every correct node holds
	// the polka behind the highest lock by the time the locked node proposes.  Faulty validators that keep
	// equivocating can hide that polka from the others until the majority-claim exchange has gone through, which can
	// waste the locked node's first turn; its next turn comes one rotation later.  Three exceedances of the tight
	// bound by exactly one round in 3 x 100 000 executions (DESIGN.md section 11, false alarms) showed the tight
	// bound to be marginal, so the decided bound allows one more rotation; the tight one is only counted.
	tight := base + int32(W) + 2
	bound := base + 2*int32(W) + 2
	byz := func() {
		if len(net.Faulty) > 0 && net.R.Intn(2) == 0 {
			net.ByzStep()
		}
	}
	var res sim.SyncResult
	if timed {
		res = net.RunTimed(H, bound, delta, gossipEvery, 400000, byz)
		c.Count("timed.executions", 1)
		c.Max("timed.max_first_sufficient_round", int64(rNeed))
		c.Max("timed.max_round_reached", int64(res.MaxRound))
		if res.MaxRound > rstar {
			c.Count("timed.executions_needing_later_rounds", 1)
		}
	} else {
		res = net.RunSync(H, bound, 20000, byz)
	}
	c.Eval()
	c.Count("suffix.rounds_used_beyond_rstar", int64(res.MaxRound-rstar))
	c.Max("suffix.max_rounds_beyond_rstar", int64(res.MaxRound-rstar))
	c.Max("max_rstar", int64(rstar))
	c.Max("max_W", int64(W))
	if len(locked) >= 2 {
		c.Count("sync_point.locks_on_different_blocks", 1)
	}
	if len(locked) >= 1 {
		c.Count("sync_point.some_lock", 1)
	}
	if behind > 0 {
		c.Count("sync_point.node_behind", 1)
	}
	if commitNoBlock > 0 {
		c.Count("sync_point.commit_without_block", 1)
	}
	if rstar > 0 || len(locked) > 0 || behind > 0 || commitNoBlock > 0 {
		c.Distinct(idx, fmt.Sprint(cfg), rstar, len(locked), behind, recipe)
	}
	nodes := []string{}
	for _, i := range net.Order {
		rs := net.Nodes[i].CS.GetRoundState()
		t, p := net.Nodes[i].Ticker.Pending()
		nodes = append(nodes, fmt.Sprintf("n%d %d/%d/%v locked=%v valid=%v proposal=%v store=%d pending=%v:%d/%d/%v", i, rs.Height, rs.Round, rs.Step,
			rs.LockedRound, rs.ValidRound, rs.Proposal != nil, net.Nodes[i].Blocks.Height(), p, t.Height, t.Round, t.Step))
	}
	if os.Getenv("VERIF_C03_CASE") != "" {
		_ = os.WriteFile(os.Getenv("VERIF_TMP")+"/../c03trace.txt", []byte(strings.Join(net.Trace, "\n")), 0o644)
		nd0 := net.Nodes[net.Order[0]]
		for h := nd0.Blocks.Base(); h <= nd0.Blocks.Height(); h++ {
			b := nd0.Blocks.LoadBlock(h)
			sc := nd0.Blocks.LoadSeenCommit(h)
			if b == nil || sc == nil {
				continue
			}
			ts := ""
			for _, s := range sc.Signatures {
				ts += fmt.Sprintf(" [%d %s]", s.BlockIDFlag, s.Timestamp.Format("05.000"))
			}
			fmt.Printf("DEBUG height %d block time %s proposer %X round %d seen-commit:%s\n", h, b.Time.Format("15:04:05.000"), b.ProposerAddress[:3], sc.Round, ts)
		}
		for _, i := range net.Order {
			nd := net.Nodes[i]
			rs := nd.CS.GetRoundState()
			for r := int32(0); r <= rs.Round; r++ {
				if pc := rs.Votes.Precommits(r); pc != nil {
					fmt.Printf("DEBUG node %d round %d precommits %s\n", i, r, pc.StringShort())
				}
				if pv := rs.Votes.Prevotes(r); pv != nil {
					fmt.Printf("DEBUG node %d round %d prevotes %s\n", i, r, pv.StringShort())
				}
			}
			fmt.Printf("DEBUG node %d commitRound=%d parts=%v\n", i, rs.CommitRound, rs.ProposalBlockParts.StringShort())
			if rs.ProposalBlock != nil {
				err := nd.Exec.ValidateBlock(nd.CS.GetState(), rs.ProposalBlock)
				fmt.Printf("DEBUG node %d proposal block %X evidence=%d validate: %v\n", i, rs.ProposalBlock.Hash(), len(rs.ProposalBlock.Evidence.Evidence), err)
			}
		}
	}
	w := witness{"exec", idx, cfg, H, rstar, W, bound, res, nodes, tail(net.Trace, 400)}
	if timed {
		w.Stream = fmt.Sprintf("exec(timed delta=%v first_sufficient_round=%d)", delta, rNeed)
	}
	switch {
	case res.Decided && res.MaxRound <= bound:
		c.Count("suffix.decided_within_bound", 1)
		if res.MaxRound > tight {
			c.Count("suffix.decided_beyond_one_rotation_plus_two", 1)
		}
	case res.Halted:
		c.Violation("correct-node-halted-on-panic", fmt.Sprintf("a correct node stopped with a consensus panic while faulty power is below 1/3: %v", net.HaltedNodes()), w)
	case res.Wedged:
		c.Violation("wedged-after-synchrony", fmt.Sprintf("nothing in flight, gossip changes nothing and no correct node has a pending timeout, but height %d is undecided", H), w)
	case res.MaxRound > bound && timed:
		c.Violation("round-bound-exceeded-timed", fmt.Sprintf("timed suffix (delay %v): a correct node entered round %d of height %d; bound max(R*, r_delta)+2W+2 = max(%d,%d)+2*%d+2", delta, res.MaxRound, H, rstar, rNeed, W), w)
	case res.MaxRound > bound:
		c.Violation("round-bound-exceeded", fmt.Sprintf("a correct node entered round %d of height %d; bound R*+2W+2 = %d+2*%d+2", res.MaxRound, H, rstar, W), w)
	case res.Budget:
		c.Inconclusive("iteration budget exhausted in the synchronous suffix")
	default:
		c.Inconclusive("suffix ended for an unknown reason")
	}
	if c.WantSample() {
		c.Sample(map[string]interface{}{"case": idx, "config": cfg, "prefix": recipe, "H": H, "r_star": rstar, "W": W, "bound": bound, "result": res, "nodes_at_end": nodes})
	}
}

func Run(c *verdict.Ctx) int {
	c.Level = "exploration"
	c.Rule = "one case = an adversarial asynchronous prefix (random schedule and/or a scripted split-lock / commit-without-block strategy, faulty validators < 1/3) followed by the synchronous suffix; non-trivial = at the synchrony point some correct node is beyond round 0, locked, behind, or knows a commit without the block; distinct by (config, R*, locks, laggards, prefix kind)"
	c.Assume("liveness restated as bounded progress under an idealised gossip layer (sim.Gossip) and logical time: timeouts fire only when nothing is in flight, lowest (height, round, step) first",
		"bound R*+2W+2 (one proposer rotation more than the argument of DESIGN.md C03 needs when the polka behind the highest lock is known everywhere in time); W from ref.ProposerSchedule", "real timers, real reactor gossip and timeout growth are not exercised by this stage")
	n := c.N(600, 100000)
	var wg sync.WaitGroup
	jobs := make(chan int, 64)
	for w := 0; w < runtime.NumCPU(); w++ {
		wg.Add(1)
		go func() {
			defer wg.Done()
			for j := range jobs {
				runOne(c, j)
			}
		}()
	}
	only := -1
	if v := os.Getenv("VERIF_C03_CASE"); v != "" {
		fmt.Sscan(v, &only)
	}
	for i := 0; i < n; i++ {
		if only >= 0 && i != only {
			continue
		}
		jobs <- i
	}
	close(jobs)
	wg.Wait()
	return c.Finish(n / 5)
}
