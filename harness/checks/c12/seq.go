package c12

import (
	"crypto/sha256"
	"encoding/hex"
	"fmt"
	"math/rand"
	"sort"
	"time"

	"github.com/tendermint/tendermint/types"

	"verif/verdict"
)

// ---------------------------------------------------------------------------
// Sequential tier: one goroutine, real mempool + reference model of the pool.
// The model validates outcomes (see DESIGN.md C12): it never predicts the LRU.
// ---------------------------------------------------------------------------

type finding struct {
	Key     string `json:"key"`
	What    string `json:"what"`
	Corrupt bool   `json:"-"` // the real pool and the model no longer correspond: stop this history
}

type mEntry struct {
	id  int
	h   int64 // mempool height when admitted (v1 TTL)
	seq int   // arrival number
}

type seqModel struct {
	cfg        poolCfg
	u          *universe
	pool       []mEntry // arrival order
	height     int64    // mempool height = height of the last Update
	appH       int64
	preMax     int64
	postMaxGas int64
	seq        int

	seen     map[int]bool // submitted or committed since creation / last Flush
	log      []int        // every tx id offered to CheckTx or contained in a block, in order, since creation / last Flush
	commitOK map[int]int  // id -> len(log) just after its last commit with code OK (deleted by a later commit with another code)
	admitAt  map[int]int  // live id -> len(log) just after its admission
}

func newSeqModel(cfg poolCfg, u *universe) *seqModel {
	return &seqModel{cfg: cfg, u: u, height: cfg.InitHeight, appH: cfg.InitHeight,
		preMax: cfg.PreMax, postMaxGas: cfg.PostMaxGas,
		seen: map[int]bool{}, commitOK: map[int]int{}, admitAt: map[int]int{}}
}

func (m *seqModel) has(id int) bool {
	for _, e := range m.pool {
		if e.id == id {
			return true
		}
	}
	return false
}

func (m *seqModel) ids() []int {
	out := make([]int, len(m.pool))
	for i, e := range m.pool {
		out[i] = e.id
	}
	return out
}

func (m *seqModel) bytes() int64 {
	var n int64
	for _, e := range m.pool {
		n += int64(m.u.specs[e.id].Len)
	}
	return n
}

// order is the pool's defined order: arrival (v0), priority descending then arrival (v1).
func (m *seqModel) order() []int {
	es := append([]mEntry{}, m.pool...)
	if m.cfg.Ver == 1 {
		sort.SliceStable(es, func(i, j int) bool {
			pi, pj := m.u.specs[es[i].id].Prio, m.u.specs[es[j].id].Prio
			if pi != pj {
				return pi > pj
			}
			return es[i].seq < es[j].seq
		})
	}
	out := make([]int, len(es))
	for i, e := range es {
		out[i] = e.id
	}
	return out
}

func (m *seqModel) preOK(s *txSpec) bool { return m.preMax < 0 || protoSize(s.Len) <= m.preMax }
func (m *seqModel) postOK(s *txSpec) bool {
	if m.postMaxGas == -2 || m.postMaxGas == -1 {
		return true
	}
	return s.Gas >= 0 && s.Gas <= m.postMaxGas
}

func (m *seqModel) distinctOthersSince(idx, id int) int {
	set := map[int]bool{}
	for _, x := range m.log[idx:] {
		if x != id {
			set[x] = true
		}
	}
	return len(set)
}

func (m *seqModel) wouldExceed(s *txSpec) bool {
	return len(m.pool) >= m.cfg.Size || m.bytes()+int64(s.Len) > m.cfg.MaxTxsBytes
}

func count(xs []int, id int) int {
	n := 0
	for _, x := range xs {
		if x == id {
			n++
		}
	}
	return n
}

func eqInts(a, b []int) bool {
	if len(a) != len(b) {
		return false
	}
	for i := range a {
		if a[i] != b[i] {
			return false
		}
	}
	return true
}

func sameSet(a, b []int) bool {
	if len(a) != len(b) {
		return false
	}
	x := append([]int{}, a...)
	y := append([]int{}, b...)
	sort.Ints(x)
	sort.Ints(y)
	return eqInts(x, y)
}

func firstDup(xs []int) (int, bool) {
	seen := map[int]bool{}
	for _, x := range xs {
		if seen[x] {
			return x, true
		}
		seen[x] = true
	}
	return 0, false
}

// without returns xs minus the ids in rm (all copies), order kept.
func without(xs []int, rm map[int]bool) []int {
	var out []int
	for _, x := range xs {
		if !rm[x] {
			out = append(out, x)
		}
	}
	return out
}

// adopt makes the model pool equal to the real walk (after the step was
// validated): known entries keep their metadata, a new id becomes a new entry.
func (m *seqModel) adopt(walk []int) {
	old := map[int]mEntry{}
	for _, e := range m.pool {
		old[e.id] = e
	}
	var np []mEntry
	for _, id := range walk {
		if e, ok := old[id]; ok {
			np = append(np, e)
		} else {
			m.seq++
			np = append(np, mEntry{id: id, h: m.height, seq: m.seq})
		}
	}
	m.pool = np
	for id := range m.admitAt {
		if !m.has(id) {
			delete(m.admitAt, id)
		}
	}
}

// stepCheckTx validates the observed outcome of CheckTx(id) and moves the model.
// walk is the real TxsFront walk after the call.
func (m *seqModel) stepCheckTx(id int, o ctOutcome, walk []int) (fs []finding, class string) {
	v := vname(m.cfg.Ver)
	s := m.u.specs[id]
	before := m.ids()
	wasIn := m.has(id)
	wasSeen := m.seen[id]
	defer func() {
		m.seen[id] = true
		m.log = append(m.log, id)
		if class == "admitted" || class == "admitted-evicting" {
			m.admitAt[id] = len(m.log)
		}
	}()
	add := func(key, what string, corrupt bool) {
		fs = append(fs, finding{v + "-" + key, what, corrupt})
	}
	unchanged := func() bool {
		if m.cfg.Ver == 0 {
			return eqInts(walk, before)
		}
		return sameSet(walk, before)
	}
	class = o.Class
	switch o.Class {
	case "error":
		add("checktx-unexpected-error", "CheckTx failed in a way the local client cannot cause: "+o.Err, true)
		return
	case "in-cache":
		if m.cfg.CacheSize == 0 {
			add("in-cache-with-cache-disabled", "CheckTx answered 'already in cache' although cache_size is 0", false)
		} else if !wasSeen {
			add("in-cache-never-seen", fmt.Sprintf("CheckTx(tx %d) answered 'already in cache' but the tx was neither submitted nor committed since the mempool was created / flushed", id), false)
		}
	case "full", "mempool-full":
		if !m.wouldExceed(s) {
			add("refused-full-while-room", fmt.Sprintf("CheckTx(tx %d, %d bytes) refused as 'mempool is full' with %d/%d txs and %d/%d bytes in the pool", id, s.Len, len(m.pool), m.cfg.Size, m.bytes(), m.cfg.MaxTxsBytes), false)
		}
	case "too-large":
		if s.Len <= m.cfg.MaxTxBytes {
			add("refused-too-large-within-limit", fmt.Sprintf("CheckTx(tx %d, %d bytes) refused as too large with max_tx_bytes %d", id, s.Len, m.cfg.MaxTxBytes), false)
		}
	case "precheck":
		if m.preOK(s) {
			add("precheck-refused-acceptable-tx", fmt.Sprintf("CheckTx(tx %d, proto size %d) refused by the pre-check filter whose limit is %d", id, protoSize(s.Len), m.preMax), false)
		}
	case "app-rejected":
		if s.valid(m.appH) {
			add("harness-app-verdict-mismatch", fmt.Sprintf("application answered code %d for tx %d at height %d where the verdict function accepts", o.Code, id, m.appH), true)
		}
	case "postcheck":
		if m.postOK(s) {
			add("postcheck-refused-acceptable-tx", fmt.Sprintf("tx %d (gas %d) refused by the post-check filter whose gas limit is %d: %s", id, s.Gas, m.postMaxGas, o.MempoolErr), false)
		}
	case "mempool-sender":
		// not part of the statement: a refusal that leaves the pool alone is always allowed
	case "accepted":
		after := count(walk, id)
		switch {
		case after == count(before, id)+1:
			class = "admitted"
		case after == count(before, id):
			class = "accepted-not-added"
		default:
			add("pool-changed-unexpectedly", fmt.Sprintf("CheckTx(tx %d): copies of the tx in the pool went from %d to %d", id, count(before, id), after), true)
			return
		}
	default:
		add("checktx-unknown-outcome", "outcome class "+o.Class, true)
		return
	}

	if class != "admitted" {
		if !unchanged() {
			add("pool-changed-by-refused-checktx", fmt.Sprintf("CheckTx(tx %d) was refused (%s) but the pool went from %v to %v", id, class, before, walk), true)
			return
		}
		if class == "accepted-not-added" {
			// the application and every filter accepted, nothing was reported: only a
			// (second) fullness check may drop the tx silently
			if !s.valid(m.appH) {
				add("harness-app-verdict-mismatch", fmt.Sprintf("application accepted tx %d at height %d where the verdict function rejects", id, m.appH), true)
			} else if m.postOK(s) && !wasIn && !m.wouldExceed(s) {
				add("accepted-tx-dropped-while-room", fmt.Sprintf("CheckTx(tx %d) was accepted by the application and the filters, is not in the pool, fits (%d/%d txs, %d+%d/%d bytes), and yet was not added", id, len(m.pool), m.cfg.Size, m.bytes(), s.Len, m.cfg.MaxTxsBytes), false)
			}
		}
		return
	}

	// ---- admitted ----
	if wasIn {
		d := m.distinctOthersSince(m.admitAt[id], id)
		if m.cfg.CacheSize == 0 || d >= m.cfg.CacheSize {
			add("duplicate-after-cache-eviction", fmt.Sprintf("tx %d is in the pool and was admitted a second time: %d other distinct txs were submitted since its admission, cache_size is %d, so the cache no longer remembered it and nothing else looks the tx up before inserting; walk now %v", id, d, m.cfg.CacheSize, walk), true)
		} else {
			add("duplicate-while-cached", fmt.Sprintf("tx %d is in the pool and was admitted a second time although only %d other distinct txs were submitted since its admission (cache_size %d); walk now %v", id, d, m.cfg.CacheSize, walk), true)
		}
		return
	}
	if !s.valid(m.appH) {
		add("admitted-app-rejected-tx", fmt.Sprintf("tx %d admitted although the application rejects it at height %d", id, m.appH), false)
	}
	if !m.preOK(s) {
		add("admitted-precheck-failing-tx", fmt.Sprintf("tx %d (proto size %d) admitted although the pre-check limit is %d", id, protoSize(s.Len), m.preMax), false)
	}
	if !m.postOK(s) {
		add("admitted-postcheck-failing-tx", fmt.Sprintf("tx %d (gas %d) admitted although the post-check gas limit is %d", id, s.Gas, m.postMaxGas), false)
	}
	if at, ok := m.commitOK[id]; ok && m.cfg.CacheSize > 0 {
		if d := m.distinctOthersSince(at, id); d < m.cfg.CacheSize {
			add("committed-tx-readmitted-while-remembered", fmt.Sprintf("tx %d was committed with code OK and re-admitted after only %d other distinct txs were submitted or committed (cache_size %d: any LRU of that size still remembers it)", id, d, m.cfg.CacheSize), false)
		}
	}
	// evictions
	var evicted []int
	for _, b := range before {
		if count(walk, b) == 0 {
			evicted = append(evicted, b)
		}
	}
	rm := map[int]bool{}
	for _, e := range evicted {
		rm[e] = true
	}
	expect := append(without(before, rm), id)
	if m.cfg.Ver == 0 {
		if len(evicted) > 0 {
			add("unexplained-removal", fmt.Sprintf("CheckTx(tx %d) removed %v from the pool", id, evicted), true)
			return
		}
		if !eqInts(walk, expect) {
			add("arrival-order-broken", fmt.Sprintf("after admitting tx %d the walk is %v, expected %v", id, walk, expect), true)
			return
		}
	} else {
		if !sameSet(walk, expect) {
			add("pool-changed-unexpectedly", fmt.Sprintf("after admitting tx %d the walk is %v, expected the set %v", id, walk, expect), true)
			return
		}
		if len(evicted) > 0 {
			class = "admitted-evicting"
		}
		for _, e := range evicted {
			if m.u.specs[e].Prio >= s.Prio {
				add("evicted-tx-not-lower-priority", fmt.Sprintf("admitting tx %d (priority %d) evicted tx %d of priority %d", id, s.Prio, e, m.u.specs[e].Prio), false)
			}
		}
	}
	m.adopt(walk)
	if len(m.pool) > m.cfg.Size || m.bytes() > m.cfg.MaxTxsBytes {
		add("limit-exceeded", fmt.Sprintf("after admitting tx %d the pool holds %d txs / %d bytes; limits are %d / %d", id, len(m.pool), m.bytes(), m.cfg.Size, m.cfg.MaxTxsBytes), false)
	}
	return
}

// stepUpdate validates the pool after Update(h, block, codes) and moves the model.
func (m *seqModel) stepUpdate(h int64, block []int, codes []uint32, newPre, newPostGas *int64, walk []int) (fs []finding, info map[string]int) {
	v := vname(m.cfg.Ver)
	info = map[string]int{}
	add := func(key, what string, corrupt bool) {
		fs = append(fs, finding{v + "-" + key, what, corrupt})
	}
	before := m.ids()
	m.height, m.appH = h, h
	if newPre != nil {
		m.preMax = *newPre
	}
	if newPostGas != nil {
		m.postMaxGas = *newPostGas
	}
	committed := map[int]bool{}
	for i, id := range block {
		committed[id] = true
		m.seen[id] = true
		m.log = append(m.log, id)
		if codes[i] == 0 {
			m.commitOK[id] = len(m.log)
		} else {
			delete(m.commitOK, id)
		}
	}
	mustGo := map[int]string{}
	mayGo := map[int]string{}
	for _, e := range m.pool {
		s := m.u.specs[e.id]
		switch {
		case committed[e.id]:
			mustGo[e.id] = "committed"
		case m.cfg.Ver == 1 && m.cfg.TTL > 0 && h-e.h > m.cfg.TTL:
			mustGo[e.id] = "ttl"
		case m.cfg.Recheck && !s.valid(h):
			mustGo[e.id] = "recheck"
		case m.cfg.Recheck && !m.postOK(s):
			mayGo[e.id] = "recheck-postcheck"
		}
	}
	if id, dup := firstDup(walk); dup {
		add("duplicate-in-pool", fmt.Sprintf("after Update the walk holds tx %d twice: %v", id, walk), true)
		return
	}
	gone := map[int]bool{}
	for _, b := range before {
		if count(walk, b) == 0 {
			gone[b] = true
		}
	}
	for _, w := range walk {
		if count(before, w) == 0 {
			add("unexplained-addition", fmt.Sprintf("Update(%d) added tx %d to the pool", h, w), true)
			return
		}
	}
	for _, b := range before {
		why, must := mustGo[b]
		_, may := mayGo[b]
		switch {
		case must && !gone[b]:
			switch why {
			case "committed":
				add("committed-tx-still-present", fmt.Sprintf("tx %d was in the block given to Update(%d) and is still in the pool", b, h), true)
			case "ttl":
				add("ttl-expired-tx-remains", fmt.Sprintf("tx %d is older than ttl_num_blocks=%d at height %d and is still in the pool", b, m.cfg.TTL, h), true)
			default:
				add("recheck-rejected-tx-remains", fmt.Sprintf("recheck is on, the application rejects tx %d at height %d, and it is still in the pool after Update", b, h), true)
			}
			return
		case gone[b] && !must && !may:
			add("unexplained-removal", fmt.Sprintf("Update(%d) removed tx %d, which was not committed, not expired and is still accepted by the application and the filters", h, b), true)
			return
		}
		if gone[b] {
			if must {
				info["removed-"+why]++
			} else {
				info["removed-recheck-postcheck"]++
			}
		}
	}
	if m.cfg.Ver == 0 && !eqInts(walk, without(before, gone)) {
		add("arrival-order-broken", fmt.Sprintf("after Update(%d) the walk is %v, expected %v", h, walk, without(before, gone)), true)
		return
	}
	m.adopt(walk)
	return
}

// ---------------------------------------------------------------------------

type seqOp struct {
	I       int        `json:"i"`
	Kind    string     `json:"op"`
	Tx      int        `json:"tx,omitempty"`
	H       int64      `json:"height,omitempty"`
	Block   []int      `json:"block,omitempty"`
	Codes   []uint32   `json:"codes,omitempty"`
	NewPre  *int64     `json:"new_precheck_max,omitempty"`
	NewPost *int64     `json:"new_postcheck_max_gas,omitempty"`
	N       int        `json:"n,omitempty"`
	B       int64      `json:"max_bytes,omitempty"`
	G       int64      `json:"max_gas,omitempty"`
	Outcome *ctOutcome `json:"outcome,omitempty"`
	Class   string     `json:"class,omitempty"`
	Result  []int      `json:"result,omitempty"`
	Pool    []int      `json:"pool_after,omitempty"`
}

type seqWitness struct {
	Stream   string    `json:"stream"`
	Index    int       `json:"index"`
	Cfg      poolCfg   `json:"config"`
	Universe []*txSpec `json:"universe"`
	Ops      []seqOp   `json:"ops"`
	Finding  finding   `json:"finding"`
	Note     string    `json:"note,omitempty"`
}

func genSeqCfg(r *rand.Rand, idx int) (poolCfg, uniOpts) {
	var cfg poolCfg
	cfg.Ver = idx % 2
	switch r.Intn(5) {
	case 0, 1:
		cfg.Size = 1 + r.Intn(5)
	case 2, 3:
		cfg.Size = 6 + r.Intn(15)
	default:
		cfg.Size = 21 + r.Intn(30)
	}
	uo := uniOpts{n: 5 + r.Intn(36), maxLen: 4 + r.Intn(37), bigLens: r.Intn(3) == 0,
		heightDep: r.Intn(10) < 7, senders: cfg.Ver == 1 && r.Intn(3) == 0, fewPrios: r.Intn(4) != 0}
	if r.Intn(2) == 0 {
		avg := int64(uo.maxLen+2) / 2
		hi := avg * int64(cfg.Size) * 7 / 10
		if hi < avg {
			hi = avg
		}
		cfg.MaxTxsBytes = avg + r.Int63n(hi-avg+1)
	} else {
		cfg.MaxTxsBytes = 1 << 20
	}
	cfg.MaxTxBytes = 1 << 20
	if r.Intn(10) < 3 {
		cfg.MaxTxBytes = uo.maxLen/2 + r.Intn(uo.maxLen/2+1)
	}
	switch x := r.Intn(100); {
	case x < 10:
		cfg.CacheSize = 0
	case x < 35:
		cfg.CacheSize = 1 + r.Intn(cfg.Size)
		if cfg.CacheSize >= cfg.Size && cfg.Size > 1 {
			cfg.CacheSize = cfg.Size - 1
		}
	case x < 55:
		cfg.CacheSize = cfg.Size
	case x < 75:
		cfg.CacheSize = 2 * cfg.Size
	default:
		cfg.CacheSize = 10000
	}
	cfg.KeepInvalid = r.Intn(2) == 0
	cfg.Recheck = r.Intn(10) < 6
	if cfg.Ver == 1 && r.Intn(10) < 6 {
		cfg.TTL = 1 + int64(r.Intn(3))
	}
	cfg.PreMax = -1
	if r.Intn(10) < 4 {
		cfg.PreMax = protoSize(uo.maxLen/2) + r.Int63n(protoSize(uo.maxLen)-protoSize(uo.maxLen/2)+1)
	}
	switch x := r.Intn(10); {
	case x < 4:
		cfg.PostMaxGas = -2
	case x < 6:
		cfg.PostMaxGas = -1
	default:
		cfg.PostMaxGas = 3 + int64(r.Intn(10))
	}
	cfg.InitHeight = int64(r.Intn(3))
	return cfg, uo
}

type seqStats struct {
	classes   map[string]int
	updInfo   map[string]int
	probes    int
	stopped   string
	nOps      int
	maxPool   int
	evictions int
	cfgJSON   string
	sig       string // digest of the sequence of operations and outcomes
}

// runSeqHistory executes history idx; returns the findings (each with its witness).
func runSeqHistory(c *verdict.Ctx, stream string, idx int, nOps int) (ws []seqWitness, st seqStats, inconclusive string) {
	r := c.Rand(stream, idx)
	cfg, uo := genSeqCfg(r, idx)
	u := genUniverse(r, uo)
	st.classes = map[string]int{}
	st.updInfo = map[string]int{}
	st.cfgJSON = jsonStr(cfg)
	rp, err := newRealPool(cfg, u)
	if err != nil {
		return nil, st, "cannot build mempool: " + err.Error()
	}
	m := newSeqModel(cfg, u)
	v := vname(cfg.Ver)
	var ops []seqOp
	reported := map[string]bool{}
	report := func(f finding) {
		if reported[f.Key] && !f.Corrupt {
			return // one witness per key and history is enough
		}
		reported[f.Key] = true
		n := len(ops)
		from := 0
		if n > 400 {
			from = n - 400
		}
		ws = append(ws, seqWitness{Stream: stream, Index: idx, Cfg: cfg, Universe: u.specs,
			Ops: append([]seqOp{}, ops[from:]...), Finding: f})
	}
	var recent []int // recently committed ids
	lastAfter := int64(0)

	// generic comparison of the observable state with the model
	checkState := func(walk []int) bool {
		ok := true
		bad := func(key, what string) {
			report(finding{v + "-" + key, what, true})
			ok = false
		}
		if id, dup := firstDup(walk); dup {
			bad("duplicate-in-pool", fmt.Sprintf("the TxsFront walk holds tx %d twice: %v", id, walk))
			return false
		}
		for _, w := range walk {
			if w < 0 {
				bad("unknown-tx-in-pool", "the pool holds bytes that were never submitted")
				return false
			}
		}
		want := m.ids()
		if cfg.Ver == 0 && !eqInts(walk, want) || cfg.Ver == 1 && !sameSet(walk, want) {
			bad("pool-differs-from-model", fmt.Sprintf("walk %v, model %v", walk, want))
			return false
		}
		if sz := rp.mp.Size(); sz != len(walk) {
			bad("size-differs-from-walk", fmt.Sprintf("Size()=%d but the walk has %d elements", sz, len(walk)))
		}
		if sb := rp.mp.SizeBytes(); sb != m.bytes() {
			bad("sizebytes-differs-from-contents", fmt.Sprintf("SizeBytes()=%d but the txs in the pool total %d bytes", sb, m.bytes()))
		}
		if sz := rp.mp.Size(); sz > cfg.Size {
			bad("limit-exceeded", fmt.Sprintf("Size()=%d > size limit %d", sz, cfg.Size))
		}
		if sb := rp.mp.SizeBytes(); sb > cfg.MaxTxsBytes {
			bad("limit-exceeded", fmt.Sprintf("SizeBytes()=%d > max_txs_bytes %d", sb, cfg.MaxTxsBytes))
		}
		all := rp.ids(rp.mp.ReapMaxTxs(-1))
		if !eqInts(all, m.order()) {
			bad("reap-all-differs-from-pool-order", fmt.Sprintf("ReapMaxTxs(-1)=%v, the pool in its defined order is %v", all, m.order()))
		}
		return ok
	}

	// checkReap validates one reap result against the statement.
	checkReap := func(kind string, n int, b, g int64, got []int) {
		order := m.order()
		// longest prefix within the limits
		k := 0
		var sb, sg int64
		for k < len(order) {
			s := u.specs[order[k]]
			if kind == "reapn" {
				if n >= 0 && k+1 > n {
					break
				}
			} else {
				if b >= 0 && sb+protoSize(s.Len) > b {
					break
				}
				if g >= 0 && sg+s.Gas > g {
					break
				}
				sb += protoSize(s.Len)
				sg += s.Gas
			}
			k++
		}
		if eqInts(got, order[:k]) {
			return
		}
		desc := fmt.Sprintf("ReapMaxTxs(%d)", n)
		if kind != "reapn" {
			desc = fmt.Sprintf("ReapMaxBytesMaxGas(%d,%d)", b, g)
		}
		isPrefix := len(got) <= len(order) && eqInts(got, order[:len(got)])
		switch {
		case !isPrefix:
			report(finding{v + "-reap-not-a-prefix-of-pool-order", fmt.Sprintf("%s=%v is not a prefix of the pool order %v", desc, got, order), false})
		case kind == "reapn" && len(got) > n:
			if cfg.Ver == 0 && len(got) == n+1 {
				report(finding{"v0-reapmaxtxs-off-by-one", fmt.Sprintf("ReapMaxTxs(%d) returned %d txs %v (pool order %v)", n, len(got), got, order), false})
			} else {
				report(finding{v + "-reapmaxtxs-exceeds-count", fmt.Sprintf("ReapMaxTxs(%d) returned %d txs", n, len(got)), false})
			}
		case len(got) > k:
			var tb, tg int64
			for _, id := range got {
				tb += protoSize(u.specs[id].Len)
				tg += u.specs[id].Gas
			}
			if b >= 0 && tb > b {
				report(finding{v + "-reap-exceeds-max-bytes", fmt.Sprintf("%s returned %v: %d bytes as encoded in block data", desc, got, tb), false})
			} else {
				report(finding{v + "-reap-exceeds-max-gas", fmt.Sprintf("%s returned %v: total gas %d", desc, got, tg), false})
			}
		default:
			report(finding{v + "-reap-shorter-than-longest-prefix", fmt.Sprintf("%s returned %d txs %v; %d txs of the pool order %v fit the limits", desc, len(got), got, k, order), false})
		}
	}

	probe := func() {
		order := m.order()
		sz := len(order)
		op := seqOp{I: len(ops)}
		if r.Intn(2) == 0 {
			op.Kind = "reapn"
			switch r.Intn(6) {
			case 0:
				op.N = 0
			case 1:
				op.N = sz
			case 2:
				op.N = sz - 1
			case 3:
				op.N = sz + 1
			case 4:
				op.N = -1 - r.Intn(3)
			default:
				op.N = r.Intn(sz + 2)
			}
			if sz == 0 && op.N < -3 {
				op.N = 0
			}
			op.Result = rp.ids(rp.mp.ReapMaxTxs(op.N))
			checkReap("reapn", op.N, 0, 0, op.Result)
		} else {
			op.Kind = "reapbg"
			k := 0
			if sz > 0 {
				k = r.Intn(sz + 1)
			}
			var pb, pg int64
			for _, id := range order[:k] {
				pb += protoSize(u.specs[id].Len)
				pg += u.specs[id].Gas
			}
			switch r.Intn(7) {
			case 0:
				op.B = -1
			case 1:
				op.B = pb
			case 2:
				op.B = pb - 1
			case 3:
				op.B = pb + 1
			case 4:
				op.B = 0
			case 5:
				op.B = -1 - int64(r.Intn(4))
			default:
				op.B = r.Int63n(pb + 20)
			}
			switch r.Intn(6) {
			case 0, 1:
				op.G = -1
			case 2:
				op.G = pg
			case 3:
				op.G = pg - 1
			case 4:
				op.G = 0
			default:
				op.G = r.Int63n(pg + 10)
			}
			if op.B < -5 {
				op.B = -1
			}
			if op.G < -1 {
				op.G = -1
			}
			op.Result = rp.ids(rp.mp.ReapMaxBytesMaxGas(op.B, op.G))
			checkReap("reapbg", 0, op.B, op.G, op.Result)
		}
		st.probes++
		ops = append(ops, op)
	}

	corrupt := func() bool {
		for _, w := range ws {
			if w.Finding.Corrupt {
				return true
			}
		}
		return false
	}

	// op mix of this history: a third of the histories first fill the pool with distinct
	// txs (long lists, limits reached), and the share of Updates varies
	fill := 0
	if r.Intn(10) < 3 {
		fill = len(u.specs)
		if fill > nOps/2 {
			fill = nOps / 2
		}
	}
	updShare := []int{4, 10, 10, 16}[r.Intn(4)]
	for i := 0; i < nOps; i++ {
		op := seqOp{I: len(ops)}
		x := r.Intn(100)
		if i < fill {
			x = 0
		} else if x >= 76 && x < 86 && x >= 76+updShare*10/10 {
			x = 0 // fewer updates in this history
		} else if updShare == 16 && x >= 90 && x < 96 {
			x = 80 // more updates
		}
		switch {
		case x < 76: // CheckTx
			op.Kind = "checktx"
			switch y := r.Intn(100); {
			case i < fill:
				op.Tx = i
			case y < 15 && len(m.pool) > 0:
				op.Tx = m.pool[r.Intn(len(m.pool))].id
			case y < 27 && len(recent) > 0:
				op.Tx = recent[r.Intn(len(recent))]
			default:
				op.Tx = r.Intn(len(u.specs))
			}
			w0 := time.Now().UnixNano()
			if cfg.Ver == 1 && w0 <= lastAfter {
				return ws, st, "wall clock did not advance between two submissions (v1 orders by wall-clock arrival time)"
			}
			o := rp.checkTx(op.Tx, uint16(1+r.Intn(4)))
			lastAfter = time.Now().UnixNano()
			if cfg.Ver == 1 && lastAfter < w0 {
				return ws, st, "wall clock went backwards during a submission"
			}
			walk := rp.walk()
			fs, class := m.stepCheckTx(op.Tx, o, walk)
			op.Outcome, op.Class, op.Pool = &o, class, walk
			ops = append(ops, op)
			st.classes[class]++
			if class == "admitted-evicting" {
				st.evictions++
			}
			for _, f := range fs {
				report(f)
			}
			if corrupt() {
				break
			}
			checkState(walk)
		case x < 86: // Update
			op.Kind = "update"
			op.H = m.height + 1
			order := m.order()
			if len(order) > 0 && r.Intn(10) < 7 {
				k := 1 + r.Intn(len(order))
				if r.Intn(4) != 0 && k > 3 {
					k = 1 + r.Intn(3)
				}
				op.Block = append(op.Block, order[:k]...)
			}
			for n := r.Intn(3); n > 0; n-- {
				op.Block = append(op.Block, r.Intn(len(u.specs)))
			}
			if len(op.Block) > 0 && r.Intn(12) == 0 {
				op.Block = append(op.Block, op.Block[r.Intn(len(op.Block))])
			}
			if r.Intn(4) == 0 {
				r.Shuffle(len(op.Block), func(a, b int) { op.Block[a], op.Block[b] = op.Block[b], op.Block[a] })
			}
			op.Codes = make([]uint32, len(op.Block))
			for j := range op.Codes {
				if r.Intn(5) == 0 {
					op.Codes[j] = 1 + uint32(r.Intn(3))
				}
			}
			var pre, post = filters(-1, -2)
			if r.Intn(4) == 0 {
				if cfg.PreMax >= 0 && r.Intn(2) == 0 {
					np := protoSize(uo.maxLen/2) + r.Int63n(protoSize(uo.maxLen)-protoSize(uo.maxLen/2)+4)
					op.NewPre = &np
				}
				if cfg.PostMaxGas > -2 && r.Intn(2) == 0 {
					ng := int64(-1)
					if r.Intn(4) != 0 {
						ng = 2 + int64(r.Intn(12))
					}
					op.NewPost = &ng
				}
				a, b := int64(-1), int64(-2)
				if op.NewPre != nil {
					a = *op.NewPre
				}
				if op.NewPost != nil {
					b = *op.NewPost
				}
				pre, post = filters(a, b)
			}
			_, _, _, err := rp.update(op.H, op.Block, op.Codes, pre, post, true)
			if err == errRecheckTimeout {
				return ws, st, err.Error()
			}
			walk := rp.walk()
			op.Pool = walk
			ops = append(ops, op)
			if err != nil {
				report(finding{v + "-update-error", "Update returned " + err.Error(), true})
				break
			}
			fs, info := m.stepUpdate(op.H, op.Block, op.Codes, op.NewPre, op.NewPost, walk)
			for k, n := range info {
				st.updInfo[k] += n
			}
			for _, f := range fs {
				report(f)
			}
			if corrupt() {
				break
			}
			recent = append(recent, op.Block...)
			if len(recent) > 8 {
				recent = recent[len(recent)-8:]
			}
			checkState(walk)
		case x < 88: // Flush
			op.Kind = "flush"
			rp.mp.Flush()
			walk := rp.walk()
			op.Pool = walk
			ops = append(ops, op)
			if len(walk) != 0 {
				report(finding{v + "-flush-left-txs", fmt.Sprintf("after Flush the walk is %v", walk), true})
				break
			}
			m.pool = nil
			m.seen, m.log, m.commitOK, m.admitAt = map[int]bool{}, nil, map[int]int{}, map[int]int{}
			st.classes["flush"]++
			checkState(walk)
		case x < 90: // RemoveTxByKey
			op.Kind = "remove"
			if len(m.pool) > 0 && r.Intn(3) != 0 {
				op.Tx = m.pool[r.Intn(len(m.pool))].id
			} else {
				op.Tx = r.Intn(len(u.specs))
			}
			err := rp.mp.RemoveTxByKey(types.Tx(u.specs[op.Tx].bytes).Key())
			walk := rp.walk()
			op.Pool = walk
			if err == nil {
				op.Class = "removed"
			} else {
				op.Class = "not-removed"
			}
			ops = append(ops, op)
			want := m.ids()
			if err == nil {
				want = without(want, map[int]bool{op.Tx: true})
			}
			if cfg.Ver == 0 && !eqInts(walk, want) || cfg.Ver == 1 && !sameSet(walk, want) {
				report(finding{v + "-removetxbykey-wrong-effect", fmt.Sprintf("RemoveTxByKey(tx %d) returned %v; pool went from %v to %v", op.Tx, err, m.ids(), walk), true})
				break
			}
			m.adopt(walk)
			st.classes[op.Class]++
			checkState(walk)
		default:
			probe()
		}
		if corrupt() {
			break
		}
		probe()
		if len(m.pool) > st.maxPool {
			st.maxPool = len(m.pool)
		}
	}
	st.nOps = len(ops)
	{
		h := sha256.New()
		for _, o := range ops {
			fmt.Fprintf(h, "%s,%d,%s,%d,%d,%d,%v;", o.Kind, o.Tx, o.Class, o.N, o.B, o.G, o.Block)
		}
		st.sig = hex.EncodeToString(h.Sum(nil)[:12])
	}
	for _, w := range ws {
		if w.Finding.Corrupt {
			st.stopped = w.Finding.Key
		}
	}
	// let detached v1 recheck goroutines of an abandoned history drain
	if cfg.Ver == 1 {
		rp.waitRecheck(2 * time.Second)
	}
	if c.WantSample() && idx < 4 {
		n := len(ops)
		if n > 12 {
			n = 12
		}
		c.Sample(map[string]interface{}{"stream": stream, "index": idx, "config": cfg, "universe_size": len(u.specs), "first_ops": ops[:n]})
	}
	return ws, st, ""
}
