package c12

import (
	"fmt"
	"sort"
	"strings"
	"time"

	"github.com/anishathalye/porcupine"
)

// ---------------------------------------------------------------------------
// Sequential specification of the pool for the concurrent tier, as a porcupine
// NondeterministicModel.  It is deliberately loose (see DESIGN.md C12 and the
// builder notes): only what the statement implies is enforced.
//
//   CheckTx   refused in any way            -> no effect, always legal
//             v1 accepted (no MempoolError)  -> no effect if the tx is already in the pool; otherwise the
//                                               tx enters the pool; legal only if it is not a
//                                               remembered committed tx, and the
//                                               limits hold afterwards, possibly after evicting a set of
//                                               strictly-lower-priority txs (any such set: nondeterministic);
//                                               its place among equal priorities is any place after the txs
//                                               whose CheckTx returned before this one was called
//             v0 accepted                    -> either as above without evictions (appended), or dropped
//                                               (v0 may drop silently on its second fullness check)
//   Reap*     must return the longest prefix of the pool order within the limits given
//   Update    removes the block's txs and (v0, recheck inline under the lock) the txs the
//             application rejected during that call
//   Recheck-reject (v1, detached): removes the tx if present, any time after the application
//             answered
//   Flush     empties the pool
// ---------------------------------------------------------------------------

const (
	lkCheckTx = iota
	lkReapN
	lkReapBG
	lkUpdate
	lkFlush
	lkRecheckReject
)

type linIn struct {
	Kind     int
	Tx       int
	N        int
	B, G     int64
	Block    []int
	CodeOK   []bool
	Rejected []int
	Call     int64
	Ret      int64
}

type linOut struct {
	Admit    int // 0 no, 1 yes (v1), 2 maybe (v0)
	ClearRem bool
	Out      []int
}

type lent struct {
	id        int
	call, ret int64
}

type lstate struct {
	pool []lent
	rem  uint64
	orph int // attribution pass allowDup: number of duplicate admissions since the last Flush
	key  string
}

func mkState(pool []lent, rem uint64) *lstate { return mkStateO(pool, rem, 0) }

func mkStateO(pool []lent, rem uint64, orph int) *lstate {
	if orph > 3 {
		orph = 3
	}
	s := mkState0(pool, rem, orph)
	s.orph = orph
	return s
}

func mkState0(pool []lent, rem uint64, orph int) *lstate {
	var sb strings.Builder
	fmt.Fprintf(&sb, "%x|%d|", rem, orph)
	for _, e := range pool {
		fmt.Fprintf(&sb, "%d@%d,", e.id, e.call)
	}
	return &lstate{pool: pool, rem: rem, key: sb.String()}
}

type linSpec struct {
	cfg      poolCfg
	u        *universe
	tolS4    bool // v0 ReapMaxTxs(n) may return n+1 (known finding, reported separately)
	noLimits bool // attribution pass: do not enforce the size / byte limits on admission
	noRem    map[int]bool // attribution pass: for these txs do not enforce "committed with OK is not re-admitted while remembered"
	sticky   map[int]bool // attribution pass (v0): an Update may leave these txs in the pool (a second,
	// unreachable copy left by the concurrent duplicate)
	remRule  bool // the cache can never have evicted anything (cache_size >= universe)
}

func (sp *linSpec) has(s *lstate, id int) bool {
	for _, e := range s.pool {
		if e.id == id {
			return true
		}
	}
	return false
}

func (sp *linSpec) bytes(pool []lent) int64 {
	var n int64
	for _, e := range pool {
		n += int64(sp.u.specs[e.id].Len)
	}
	return n
}

func (sp *linSpec) fits(pool []lent, t *txSpec) bool {
	if sp.noLimits {
		return true
	}
	return len(pool) < sp.cfg.Size && sp.bytes(pool)+int64(t.Len) <= sp.cfg.MaxTxsBytes
}

// insertions returns the pools that result from adding e to pool.
func (sp *linSpec) insertions(pool []lent, e lent) [][]lent {
	if sp.cfg.Ver == 0 {
		return [][]lent{append(append([]lent{}, pool...), e)}
	}
	p := sp.u.specs[e.id].Prio
	lo := 0 // first index of the equal-priority group
	for lo < len(pool) && sp.u.specs[pool[lo].id].Prio > p {
		lo++
	}
	hi := lo
	for hi < len(pool) && sp.u.specs[pool[hi].id].Prio == p {
		hi++
	}
	// must come after every equal-priority tx whose CheckTx returned before ours was called
	min := lo
	for i := lo; i < hi; i++ {
		if pool[i].ret < e.call {
			min = i + 1
		}
	}
	var out [][]lent
	for pos := min; pos <= hi; pos++ {
		np := make([]lent, 0, len(pool)+1)
		np = append(np, pool[:pos]...)
		np = append(np, e)
		np = append(np, pool[pos:]...)
		out = append(out, np)
	}
	return out
}

func (sp *linSpec) prefix(s *lstate, in linIn) (exp []int, expS4 []int) {
	k, kk := 0, -1
	if in.Kind == lkReapN {
		k = len(s.pool)
		if in.N >= 0 && in.N < k {
			k = in.N
			kk = in.N + 1
		}
	} else {
		var sb, sg int64
		for _, e := range s.pool {
			t := sp.u.specs[e.id]
			if in.B >= 0 && sb+protoSize(t.Len) > in.B {
				break
			}
			if in.G >= 0 && sg+t.Gas > in.G {
				break
			}
			sb += protoSize(t.Len)
			sg += t.Gas
			k++
		}
	}
	ids := func(n int) []int {
		out := make([]int, n)
		for i := 0; i < n; i++ {
			out[i] = s.pool[i].id
		}
		return out
	}
	exp = ids(k)
	if kk > k {
		expS4 = ids(kk)
	}
	return
}

func (sp *linSpec) step(st, input, output interface{}) []interface{} {
	s := st.(*lstate)
	in := input.(linIn)
	out := output.(linOut)
	switch in.Kind {
	case lkCheckTx:
		if out.Admit == 0 {
			if out.ClearRem && s.rem&(1<<uint(in.Tx)) != 0 {
				return []interface{}{mkStateO(s.pool, s.rem&^(1<<uint(in.Tx)), s.orph)}
			}
			return []interface{}{s}
		}
		var res []interface{}
		if out.Admit == 2 {
			res = append(res, s) // dropped
		}
		pool := s.pool
		orph := s.orph
		if sp.has(s, in.Tx) {
			// already in the pool: the only legal effect is none (the index lookup before
			// insert refuses the second copy without reporting anything to the caller)
			if out.Admit == 1 {
				res = append(res, s)
			}
			return res
		}
		if sp.remRule && !sp.noRem[in.Tx] && s.rem&(1<<uint(in.Tx)) != 0 {
			return res
		}
		t := sp.u.specs[in.Tx]
		e := lent{id: in.Tx, call: in.Call, ret: in.Ret}
		fits := sp.fits(pool, t)
		if fits {
			for _, np := range sp.insertions(pool, e) {
				res = append(res, mkStateO(np, s.rem, orph))
			}
			if orph == 0 {
				return res
			}
		}
		if sp.cfg.Ver == 0 {
			return res
		}
		// v1: evict any non-empty set of strictly-lower-priority txs such that the limits hold
		var cand []int
		for i, pe := range pool {
			if sp.u.specs[pe.id].Prio < t.Prio {
				cand = append(cand, i)
			}
		}
		if len(cand) > 12 {
			cand = cand[:12]
		}
		for mask := 1; mask < 1<<uint(len(cand)); mask++ {
			drop := map[int]bool{}
			for b, i := range cand {
				if mask&(1<<uint(b)) != 0 {
					drop[i] = true
				}
			}
			var rest []lent
			for i, pe := range pool {
				if !drop[i] {
					rest = append(rest, pe)
				}
			}
			if !sp.fits(rest, t) {
				continue
			}
			for _, np := range sp.insertions(rest, e) {
				res = append(res, mkStateO(np, s.rem, orph))
			}
		}
		return res
	case lkReapN, lkReapBG:
		exp, expS4 := sp.prefix(s, in)
		if eqInts(out.Out, exp) {
			return []interface{}{s}
		}
		if sp.tolS4 && sp.cfg.Ver == 0 && in.Kind == lkReapN && expS4 != nil && eqInts(out.Out, expS4) {
			return []interface{}{s}
		}
		return nil
	case lkUpdate:
		rm := map[int]bool{}
		rem := s.rem
		for i, id := range in.Block {
			rm[id] = true
			if in.CodeOK[i] {
				rem |= 1 << uint(id)
			} else {
				rem &^= 1 << uint(id)
			}
		}
		for _, id := range in.Rejected {
			rm[id] = true
		}
		var np []lent
		var stuck []int
		for i, e := range s.pool {
			if !rm[e.id] {
				np = append(np, e)
			} else if sp.sticky[e.id] {
				stuck = append(stuck, i)
			}
		}
		out := []interface{}{mkStateO(np, rem, s.orph)}
		for mask := 1; mask < 1<<uint(len(stuck)); mask++ {
			keep := map[int]bool{}
			for b, i := range stuck {
				if mask&(1<<uint(b)) != 0 {
					keep[i] = true
				}
			}
			var kp []lent
			for i, e := range s.pool {
				if !rm[e.id] || keep[i] {
					kp = append(kp, e)
				}
			}
			out = append(out, mkStateO(kp, rem, s.orph))
		}
		return out
	case lkRecheckReject:
		if !sp.has(s, in.Tx) {
			return []interface{}{s}
		}
		var np []lent
		for _, e := range s.pool {
			if e.id != in.Tx {
				np = append(np, e)
			}
		}
		return []interface{}{mkStateO(np, s.rem, s.orph)}
	case lkFlush:
		return []interface{}{mkState(nil, 0)}
	}
	return nil
}

func (sp *linSpec) model() porcupine.Model {
	nm := porcupine.NondeterministicModel{
		Init: func() []interface{} { return []interface{}{mkState(nil, 0)} },
		Step: sp.step,
		Equal: func(a, b interface{}) bool {
			return a.(*lstate).key == b.(*lstate).key
		},
	}
	return nm.ToModel()
}

func toLinOps(h *concHistory) []porcupine.Operation {
	var ops []porcupine.Operation
	for _, o := range h.Ops {
		if o.Panic != "" {
			continue
		}
		in := linIn{Tx: o.Tx, N: o.N, B: o.B, G: o.G, Call: o.Call, Ret: o.Ret}
		var out linOut
		switch o.Kind {
		case "checktx":
			in.Kind = lkCheckTx
			switch o.Class {
			case "accepted":
				out.Admit = 2
				if h.Cfg.Ver == 1 {
					out.Admit = 1
				}
			case "app-rejected", "mempool-full", "mempool-sender", "postcheck":
				out.ClearRem = true
			}
		case "reapn":
			in.Kind = lkReapN
			out.Out = o.Out
		case "reapbg":
			in.Kind = lkReapBG
			out.Out = o.Out
		case "update":
			in.Kind = lkUpdate
			in.Block = o.Block
			in.CodeOK = make([]bool, len(o.Codes))
			for i, c := range o.Codes {
				in.CodeOK[i] = c == 0
			}
			in.Rejected = o.Rejected
		case "flush":
			in.Kind = lkFlush
		case "recheck-reject":
			in.Kind = lkRecheckReject
		default:
			continue // size observations are not linearizable operations (see conc.go)
		}
		ops = append(ops, porcupine.Operation{ClientId: o.Client, Input: in, Call: o.Call, Output: out, Return: o.Ret})
	}
	sort.SliceStable(ops, func(i, j int) bool { return ops[i].Call < ops[j].Call })
	return ops
}

// checkLinearizable returns ("", ok) | (key, violation) | ("", unknown=timeout).
func checkLinearizable(h *concHistory, tolS4 bool, timeout time.Duration) (res porcupine.CheckResult, keys []string) {
	v := vname(h.Cfg.Ver)
	base := linSpec{cfg: h.Cfg, u: h.u, tolS4: tolS4, remRule: h.Cfg.CacheSize >= len(h.u.specs)}
	ops := toLinOps(h)
	limKey := v + "-limit-exceeded"
	if h.Cfg.Ver == 0 && h.overlappingAccepted() {
		limKey = "v0-limit-exceeded-concurrent-admission"
	}
	try := func(sp linSpec) porcupine.CheckResult {
		r, _ := porcupine.CheckOperationsVerbose(sp.model(), ops, timeout)
		return r
	}
	r := try(base)
	if r != porcupine.Illegal {
		return r, nil
	}
	// attribution: which smallest set of relaxations explains the history?
	type relax struct {
		key   string
		apply func(*linSpec)
		ok    bool
	}
	// relaxations are restricted to the txs that show the racing pattern in the history
	racingCommit := map[int]bool{}
	for _, t := range h.u.specs {
		if h.racingCommit(t.ID) {
			racingCommit[t.ID] = true
		}
	}
	dupRace := map[int]bool{}
	if h.Cfg.Ver == 0 && h.s5Possible() {
		for _, t := range h.u.specs {
			if h.overlappingAcceptedOf(t.ID) {
				dupRace[t.ID] = true
			}
		}
	}
	rel := []relax{
		{"v0-duplicate-concurrent-checktx-after-cache-eviction", func(sp *linSpec) { sp.sticky = dupRace }, len(dupRace) > 0},
		{v + "-committed-tx-readmitted-while-remembered-concurrent", func(sp *linSpec) { sp.noRem = racingCommit }, base.remRule && len(racingCommit) > 0},
		{limKey, func(sp *linSpec) { sp.noLimits = true }, true},
	}
	unknown := false
	for size := 1; size <= len(rel); size++ {
		for mask := 1; mask < 1<<uint(len(rel)); mask++ {
			n, usable := 0, true
			for i := range rel {
				if mask&(1<<uint(i)) != 0 {
					n++
					usable = usable && rel[i].ok
				}
			}
			if n != size || !usable {
				continue
			}
			sp := base
			var ks []string
			for i := range rel {
				if mask&(1<<uint(i)) != 0 {
					rel[i].apply(&sp)
					ks = append(ks, rel[i].key)
				}
			}
			switch try(sp) {
			case porcupine.Ok:
				return porcupine.Illegal, ks
			case porcupine.Unknown:
				unknown = true
			}
		}
	}
	if unknown {
		return porcupine.Unknown, nil
	}
	return porcupine.Illegal, []string{v + "-concurrent-history-not-linearizable"}
}
