package c12

import (
	"bytes"
	"context"
	"errors"
	"fmt"
	"reflect"
	"runtime"
	"runtime/pprof"
	"strings"
	"sync"
	"sync/atomic"
	"time"

	abcicli "github.com/tendermint/tendermint/abci/client"
	abciserver "github.com/tendermint/tendermint/abci/server"
	abci "github.com/tendermint/tendermint/abci/types"
	"github.com/tendermint/tendermint/config"
	"github.com/tendermint/tendermint/libs/clist"
	"github.com/tendermint/tendermint/libs/log"
	"github.com/tendermint/tendermint/mempool"
	mempoolv0 "github.com/tendermint/tendermint/mempool/v0"
	mempoolv1 "github.com/tendermint/tendermint/mempool/v1"
	"github.com/tendermint/tendermint/proxy"
	sm "github.com/tendermint/tendermint/state"
	tmproto "github.com/tendermint/tendermint/proto/tendermint/types"
	"github.com/tendermint/tendermint/types"
)

// poolCfg is the generated configuration of one history.
type poolCfg struct {
	Ver         int   `json:"mempool_version"`
	Size        int   `json:"size"`
	MaxTxsBytes int64 `json:"max_txs_bytes"`
	MaxTxBytes  int   `json:"max_tx_bytes"`
	CacheSize   int   `json:"cache_size"`
	KeepInvalid bool  `json:"keep_invalid_txs_in_cache"`
	Recheck     bool  `json:"recheck"`
	TTL         int64 `json:"ttl_num_blocks"`
	PreMax      int64 `json:"precheck_max_data_bytes"` // -1: no pre-check filter
	PostMaxGas  int64 `json:"postcheck_max_gas"`       // -2: no post-check filter, -1: filter with unlimited gas
	InitHeight  int64 `json:"init_height"`
}

func vname(ver int) string {
	if ver == 0 {
		return "v0"
	}
	return "v1"
}

// protoSize is the size a tx contributes to the block's Data message:
// one tag byte for field 1, the length as a varint, the bytes.
func protoSize(n int) int64 {
	l := 1
	for v := uint64(n); v >= 0x80; v >>= 7 {
		l++
	}
	return int64(1 + l + n)
}

// blockOverhead is MaxBytes - MaxDataBytesNoEvidence(MaxBytes, 1 validator).
var blockOverhead = func() int64 {
	const big = 1 << 30
	return big - types.MaxDataBytesNoEvidence(big, 1)
}()

// filters builds the real pre/post check filters of state/tx_filter.go for a
// state whose data budget is preMax bytes and whose block gas limit is postMaxGas.
func filters(preMax, postMaxGas int64) (mempool.PreCheckFunc, mempool.PostCheckFunc) {
	st := sm.State{
		Validators: &types.ValidatorSet{Validators: []*types.Validator{{}}},
	}
	var pre mempool.PreCheckFunc
	var post mempool.PostCheckFunc
	if preMax >= 0 {
		st.ConsensusParams = tmproto.ConsensusParams{Block: tmproto.BlockParams{MaxBytes: preMax + blockOverhead, MaxGas: -1}}
		pre = sm.TxPreCheck(st)
	}
	if postMaxGas >= -1 {
		st.ConsensusParams = tmproto.ConsensusParams{Block: tmproto.BlockParams{MaxBytes: 1 << 20, MaxGas: postMaxGas}}
		post = sm.TxPostCheck(st)
	}
	return pre, post
}

type realPool struct {
	cfg   poolCfg
	mcfg  *config.MempoolConfig
	mp    mempool.Mempool
	front func() *clist.CElement
	app   *app
	u     *universe

	postMtx  sync.Mutex
	postSeen map[int]int // Recheck post-check calls per tx id (v1: made under the mempool lock)
	postIn   mempool.PostCheckFunc

	recheckExpected int64 // number of recheck tasks v1 has been made to start
	label           string
	closers         []func()
}

// poolOpt: non-default wiring of a realPool (gated stage).
type poolOpt struct {
	sockPath string               // non-empty: ABCI over a unix socket (abci socket server + socket client)
	pre      mempool.PreCheckFunc // replaces the configured pre-check filter
}

func newRealPool(cfg poolCfg, u *universe) (*realPool, error) { return newRealPoolWith(cfg, u, poolOpt{}) }

func (p *realPool) close() {
	for i := len(p.closers) - 1; i >= 0; i-- {
		p.closers[i]()
	}
	p.closers = nil
}

func newRealPoolWith(cfg poolCfg, u *universe, opt poolOpt) (*realPool, error) {
	p := &realPool{cfg: cfg, u: u, postSeen: map[int]int{}}
	p.label = fmt.Sprintf("p%d", atomic.AddInt64(&poolSerial, 1))
	p.app = newApp(u, cfg.InitHeight)
	mc := config.DefaultMempoolConfig()
	mc.Size = cfg.Size
	mc.MaxTxsBytes = cfg.MaxTxsBytes
	mc.MaxTxBytes = cfg.MaxTxBytes
	mc.CacheSize = cfg.CacheSize
	mc.KeepInvalidTxsInCache = cfg.KeepInvalid
	mc.Recheck = cfg.Recheck
	mc.TTLNumBlocks = cfg.TTL
	mc.TTLDuration = 0
	p.mcfg = mc
	var cli abcicli.Client
	if opt.sockPath == "" {
		c, err := proxy.NewLocalClientCreator(p.app).NewABCIClient()
		if err != nil {
			return nil, err
		}
		cli = c
	} else {
		addr := "unix://" + opt.sockPath
		srv := abciserver.NewSocketServer(addr, p.app)
		if err := srv.Start(); err != nil {
			return nil, err
		}
		c := abcicli.NewSocketClient(addr, true)
		if err := c.Start(); err != nil {
			_ = srv.Stop()
			return nil, err
		}
		// Shut down from the server side: the socket client's own Stop marks the requests
		// still in flight (e.g. the throttled trailing Flush) as done without forgetting them,
		// and panics ("negative WaitGroup counter") if their response still arrives.  When
		// the server closes the connection the client's receive routine stops the client
		// itself, and nothing can arrive afterwards.
		p.closers = append(p.closers, func() {
			_ = srv.Stop()
			for i := 0; i < 400 && c.IsRunning(); i++ {
				time.Sleep(5 * time.Millisecond)
			}
			if c.IsRunning() {
				_ = c.Stop()
			}
		})
		cli = c
	}
	conn := proxy.NewAppConnMempool(cli)
	pre, post := filters(cfg.PreMax, cfg.PostMaxGas)
	if opt.pre != nil {
		pre = opt.pre
	}
	p.postIn = post
	if cfg.Ver == 0 {
		opts := []mempoolv0.CListMempoolOption{mempoolv0.WithPostCheck(p.postCheck)}
		if pre != nil {
			opts = append(opts, mempoolv0.WithPreCheck(pre))
		}
		m := mempoolv0.NewCListMempool(mc, conn, cfg.InitHeight, opts...)
		p.mp, p.front = m, m.TxsFront
	} else {
		opts := []mempoolv1.TxMempoolOption{mempoolv1.WithPostCheck(p.postCheck)}
		if pre != nil {
			opts = append(opts, mempoolv1.WithPreCheck(pre))
		}
		m := mempoolv1.NewTxMempool(log.NewNopLogger(), mc, conn, cfg.InitHeight, opts...)
		p.mp, p.front = m, m.TxsFront
	}
	return p, nil
}

// postCheck wraps the real filter and counts the calls made for rechecks.
func (p *realPool) postCheck(tx types.Tx, res *abci.ResponseCheckTx) error {
	if res.Info == recheckMark {
		if s := p.u.lookup(tx); s != nil {
			p.postMtx.Lock()
			p.postSeen[s.ID]++
			p.postMtx.Unlock()
		}
	}
	p.postMtx.Lock()
	in := p.postIn
	p.postMtx.Unlock()
	if in != nil {
		return in(tx, res)
	}
	return nil
}

// walk follows TxsFront()/Next() and returns the tx ids met (-1 for bytes that
// are not in the universe).  Only called at quiescent points.
func (p *realPool) walk() []int {
	var ids []int
	for e := p.front(); e != nil; e = e.Next() {
		v := reflect.ValueOf(e.Value)
		if v.Kind() == reflect.Ptr {
			v = v.Elem()
		}
		b := v.FieldByName("tx").Bytes()
		if s := p.u.lookup(b); s != nil {
			ids = append(ids, s.ID)
		} else {
			ids = append(ids, -1)
		}
		if len(ids) > 100000 {
			break
		}
	}
	return ids
}

func (p *realPool) ids(txs types.Txs) []int {
	out := make([]int, len(txs))
	for i, tx := range txs {
		if s := p.u.lookup(tx); s != nil {
			out[i] = s.ID
		} else {
			out[i] = -1
		}
	}
	return out
}

// ctOutcome is what a CheckTx call showed at the client boundary.
type ctOutcome struct {
	Class      string `json:"class"` // admitted? decided by the caller from the pool; here: in-cache|full|too-large|precheck|error|app-rejected|mempool-full|mempool-sender|accepted
	Err        string `json:"err,omitempty"`
	Code       uint32 `json:"code,omitempty"`
	MempoolErr string `json:"mempool_error,omitempty"`
	CbCalled   bool   `json:"cb_called"`
}

func (p *realPool) checkTx(id int, peer uint16) ctOutcome {
	var o ctOutcome
	var res *abci.ResponseCheckTx
	tx := types.Tx(append([]byte{}, p.u.specs[id].bytes...))
	err := p.mp.CheckTx(tx, func(r *abci.Response) {
		o.CbCalled = true
		if c := r.GetCheckTx(); c != nil {
			res = c
		}
	}, mempool.TxInfo{SenderID: peer})
	if err != nil {
		o.Err = err.Error()
		var full mempool.ErrMempoolIsFull
		var large mempool.ErrTxTooLarge
		switch {
		case errors.Is(err, mempool.ErrTxInCache):
			o.Class = "in-cache"
		case errors.As(err, &full):
			o.Class = "full"
		case errors.As(err, &large):
			o.Class = "too-large"
		case mempool.IsPreCheckError(err):
			o.Class = "precheck"
		default:
			o.Class = "error"
		}
		return o
	}
	if !o.CbCalled || res == nil {
		o.Class = "error"
		o.Err = "CheckTx returned nil but the callback was not invoked before it returned (local client)"
		return o
	}
	o.Code = res.Code
	o.MempoolErr = res.MempoolError
	switch {
	case res.Code != abci.CodeTypeOK:
		o.Class = "app-rejected"
	case strings.Contains(res.MempoolError, "mempool is full"):
		o.Class = "mempool-full"
	case strings.Contains(res.MempoolError, "already exists for sender"):
		o.Class = "mempool-sender"
	case res.MempoolError != "":
		o.Class = "postcheck" // v1 records the post-check error text here
	default:
		o.Class = "accepted"
	}
	return o
}

// update does what BlockExecutor.Commit does around Mempool.Update: lock,
// flush the app connection, let the application commit (move to height h),
// update, unlock.  For v1 it then waits until the detached recheck has finished.
func (p *realPool) update(h int64, block []int, codes []uint32, pre mempool.PreCheckFunc, post mempool.PostCheckFunc, wait bool) (usedH int64, sizeAfter int, rejected []int, err error) {
	txs := make(types.Txs, len(block))
	rs := make([]*abci.ResponseDeliverTx, len(block))
	for i, id := range block {
		txs[i] = types.Tx(append([]byte{}, p.u.specs[id].bytes...))
		rs[i] = &abci.ResponseDeliverTx{Code: codes[i]}
	}
	pprof.Do(context.Background(), pprof.Labels(poolLabelKey, p.label), func(context.Context) {
		p.mp.Lock()
		defer p.mp.Unlock()
		_ = p.mp.FlushAppConn()
		if h < 0 {
			h = p.app.getHeight() + 1 // concurrent tier: next height, chosen under the lock
		}
		usedH = h
		p.app.setHeight(h)
		var postArg mempool.PostCheckFunc
		if post != nil {
			p.postMtx.Lock()
			p.postIn = post
			p.postMtx.Unlock()
			postArg = p.postCheck
		}
		err = p.mp.Update(h, txs, rs, pre, postArg)
		sizeAfter = p.mp.Size()
		if p.cfg.Ver == 1 && p.cfg.Recheck && sizeAfter > 0 {
			atomic.AddInt64(&p.recheckExpected, int64(sizeAfter))
		}
		if p.cfg.Ver == 0 {
			// v0 + local client: the whole recheck ran inline, under the lock we hold
			for _, rec := range p.app.takeRecheckLog() {
				if !rec.OK {
					rejected = append(rejected, rec.ID)
				}
			}
		}
	})
	if wait && p.cfg.Ver == 1 {
		if !p.waitRecheck(20 * time.Second) {
			return usedH, sizeAfter, rejected, errRecheckTimeout
		}
	}
	return usedH, sizeAfter, rejected, err
}

var errRecheckTimeout = fmt.Errorf("v1 recheck did not finish within the watchdog")

// waitRecheck waits until every recheck task v1 started has had its whole
// effect.  Two sufficient conditions, whichever is seen first:
//
//	A. every Recheck call reached the application and returned, and - seen
//	   while holding the mempool's exclusive lock, i.e. outside every
//	   handleRecheckResult critical section - every one of them had its result
//	   handled (the post-check hook is called inside the critical section that
//	   also removes the tx);
//	B. no goroutine carrying this pool's pprof label exists any more: the
//	   recheck goroutines are started inside Update, which the harness calls
//	   under pprof.Do, and goroutine labels are inherited by children.
//
// A is cheap and is what the sequential tier normally sees; it cannot be
// reached when a handler did not find its tx (removed meanwhile), B covers that.
func (p *realPool) waitRecheck(limit time.Duration) bool {
	if p.cfg.Ver != 1 {
		return true
	}
	start := time.Now()
	deadline := start.Add(limit)
	spins := 0
	nextB := start.Add(2 * time.Millisecond)
	for {
		if atomic.LoadInt64(&p.app.recheckDone) >= atomic.LoadInt64(&p.recheckExpected) {
			p.mp.Lock()
			pending := false
			p.app.mtx.Lock()
			p.postMtx.Lock()
			for id, n := range p.app.recheckIssued {
				if n > p.postSeen[id] {
					pending = true
					break
				}
			}
			p.postMtx.Unlock()
			p.app.mtx.Unlock()
			p.mp.Unlock()
			if !pending {
				return true
			}
		}
		spins++
		if spins < 200 {
			runtime.Gosched()
		} else {
			time.Sleep(50 * time.Microsecond)
		}
		if spins%16 == 0 {
			now := time.Now()
			if now.After(nextB) {
				if p.labelledGoroutines() == 0 {
					return true
				}
				nextB = now.Add(2 * time.Millisecond)
			}
			if now.After(deadline) {
				return false
			}
		}
	}
}

// labelledGoroutines counts the goroutines that carry this pool's pprof label.
func (p *realPool) labelledGoroutines() int {
	var buf bytes.Buffer
	if err := pprof.Lookup("goroutine").WriteTo(&buf, 1); err != nil {
		return 1
	}
	needle := fmt.Sprintf("%q:%q", poolLabelKey, p.label)
	n := 0
	for _, stanza := range strings.Split(buf.String(), "\n\n") {
		if !strings.Contains(stanza, needle) {
			continue
		}
		// first line: "<count> @ 0x..."
		var k int
		if _, err := fmt.Sscanf(stanza, "%d @", &k); err != nil || k < 1 {
			k = 1
		}
		n += k
	}
	return n
}

const poolLabelKey = "c12pool"

var poolSerial int64
