package c12

import (
	"fmt"
	"os"
	"path/filepath"
	"sort"
	"sync"
	"sync/atomic"
	"time"

	abci "github.com/tendermint/tendermint/abci/types"
	"github.com/tendermint/tendermint/mempool"
	"github.com/tendermint/tendermint/types"

	"verif/verdict"
)

// ---------------------------------------------------------------------------
// Gated stage: N first-time CheckTx requests are IN FLIGHT TOGETHER.
//
// The application holds every answer back until all N callers have passed the
// mempool's admission checks (seen through a counting pre-check hook, which the
// mempool calls after its own fullness / size checks) or have been refused
// there.  Then the answers are released.  With the local client and v0 they are
// released one at a time, the next only after the previous caller's callback
// has returned, so that the callbacks (which the local client runs in the
// callers' goroutines) do not overlap: what is observed is then a deterministic
// function of the order of the answers, and is not the known concurrent
// check-then-add race (v0-limit-exceeded-concurrent-admission).  Over a socket
// the client's receive routine serialises the callbacks by itself.
//
// Configurations make one limit the binding one (bytes: small max_txs_bytes,
// large size; or count), with tx sizes such that k of the in-flight txs fit and
// k+1 do not, including exact fits.
//
// Oracle: at every callback and at the quiescent end Size() <= size and
// SizeBytes() <= max_txs_bytes; at the end SizeBytes() equals the bytes of the
// txs in the walk, walk == Size() == reap-all, no tx twice; v0: a refusal at
// admission only if the tx alone does not fit, and (callbacks serial) exactly
// the txs that fit in answer order are in the pool.
// ---------------------------------------------------------------------------

const gatedStream = "gated"

type gate struct {
	mu        sync.Mutex
	cond      *sync.Cond
	need      int
	arrived   map[int]bool
	opened    bool
	serialize bool
	calls     int
	cbDone    int
	abort     bool
	order     []int
}

func newGate(need int, serialize bool) *gate {
	g := &gate{need: need, serialize: serialize, arrived: map[int]bool{}}
	g.cond = sync.NewCond(&g.mu)
	return g
}

func (g *gate) arrive(id int) {
	g.mu.Lock()
	g.arrived[id] = true
	if len(g.arrived) >= g.need {
		g.opened = true
	}
	g.cond.Broadcast()
	g.mu.Unlock()
}

func (g *gate) enter(spec *txSpec) {
	g.mu.Lock()
	defer g.mu.Unlock()
	for !g.opened && !g.abort {
		g.cond.Wait()
	}
	k := g.calls
	g.calls++
	if spec != nil {
		g.order = append(g.order, spec.ID)
	}
	if g.serialize {
		for g.cbDone < k && !g.abort {
			g.cond.Wait()
		}
	}
}

func (g *gate) cb() {
	g.mu.Lock()
	g.cbDone++
	g.cond.Broadcast()
	g.mu.Unlock()
}

func (g *gate) kill() {
	g.mu.Lock()
	g.abort = true
	g.cond.Broadcast()
	g.mu.Unlock()
}

type gatedObs struct {
	Tx         int    `json:"tx"`
	Err        string `json:"err,omitempty"`
	Class      string `json:"class"`
	Size       int    `json:"size_at_callback,omitempty"`
	SizeBytes  int64  `json:"size_bytes_at_callback,omitempty"`
	MempoolErr string `json:"mempool_error,omitempty"`
}

type gatedWitness struct {
	Stream      string     `json:"stream"`
	Index       int        `json:"index"`
	Cfg         poolCfg    `json:"config"`
	Client      string     `json:"abci_client"`
	Binding     string     `json:"binding_limit"`
	Universe    []*txSpec  `json:"universe"`
	Prefill     []int      `json:"prefill"`
	InFlight    []int      `json:"in_flight"`
	AnswerOrder []int      `json:"application_answer_order"`
	Obs         []gatedObs `json:"observations"`
	FinalWalk   []int      `json:"final_walk"`
	FinalSize   int        `json:"final_size"`
	FinalSB     int64      `json:"final_size_bytes"`
	FinalReap   []int      `json:"final_reap_all"`
}

func runGatedCase(c *verdict.Ctx, dir string, idx int) {
	r := c.Rand(gatedStream, idx)
	c.Eval()
	ver := idx % 2
	sock := (idx/2)%2 == 1
	v := vname(ver)
	client := "local"
	if sock {
		client = "socket"
	}
	nIn := 2 + r.Intn(5)
	nPre := r.Intn(4)
	u := &universe{byKey: map[string]*txSpec{}}
	samePrio := r.Intn(10) < 6
	for i := 0; i < nPre+nIn; i++ {
		t := &txSpec{ID: i, Len: 2 + r.Intn(59)}
		if r.Intn(8) == 0 {
			t.Len = 120 + r.Intn(20)
		}
		if !samePrio {
			t.Prio = int64(r.Intn(4))
		}
		if i >= nPre && r.Intn(12) == 0 {
			t.Mode = 1 // the application rejects it
		}
		t.bytes = txBytes(i, t.Len)
		u.specs = append(u.specs, t)
		u.byKey[string(t.bytes)] = t
	}
	var preBytes int64
	var prefill, inflight []int
	for i := 0; i < nPre; i++ {
		prefill = append(prefill, i)
		preBytes += int64(u.specs[i].Len)
	}
	for i := nPre; i < nPre+nIn; i++ {
		inflight = append(inflight, i)
	}
	cfg := poolCfg{Ver: ver, MaxTxBytes: 1 << 20, CacheSize: 10000, PreMax: -1, PostMaxGas: -2, InitHeight: 1}
	binding := "bytes"
	exact := false
	// k of the in-flight txs (in a random order) fit, the next does not
	perm := r.Perm(nIn)
	k := r.Intn(nIn + 1)
	if k == nIn && r.Intn(3) != 0 {
		k = nIn - 1
	}
	if r.Intn(4) == 0 {
		binding = "count"
		cfg.MaxTxsBytes = 1 << 20
		cfg.Size = nPre + k
		if cfg.Size == 0 {
			cfg.Size = 1
		}
	} else {
		cfg.Size = 1000
		lim := preBytes
		for _, j := range perm[:k] {
			lim += int64(u.specs[nPre+j].Len)
		}
		if k < nIn && r.Intn(2) == 0 {
			// some slack, still not enough for the next one
			lim += r.Int63n(int64(u.specs[nPre+perm[k]].Len))
		} else {
			exact = true
		}
		if r.Intn(5) != 0 {
			// make every in-flight tx fit on its own, so that all pass the admission check
			for _, id := range inflight {
				if preBytes+int64(u.specs[id].Len) > lim {
					lim = preBytes + int64(u.specs[id].Len)
				}
			}
		}
		if lim < 1 {
			lim = 1
		}
		cfg.MaxTxsBytes = lim
	}

	g := newGate(nIn, ver == 0 && !sock)
	pre := func(tx types.Tx) error {
		if s := u.lookup(tx); s != nil && s.ID >= nPre {
			g.arrive(s.ID)
		}
		return nil
	}
	opt := poolOpt{pre: pre}
	if sock {
		opt.sockPath = filepath.Join(dir, fmt.Sprintf("s%d.sock", idx))
		defer os.Remove(opt.sockPath)
	}
	rp, err := newRealPoolWith(cfg, u, opt)
	if err != nil {
		c.Inconclusive("gated: cannot build mempool: " + err.Error())
		return
	}
	defer rp.close()

	w := gatedWitness{Stream: gatedStream, Index: idx, Cfg: cfg, Client: client, Binding: binding,
		Universe: u.specs, Prefill: prefill, InFlight: inflight}
	var omu sync.Mutex
	var obs []gatedObs
	var panicked atomic.Value
	submit := func(id int, done func()) {
		tx := types.Tx(append([]byte{}, u.specs[id].bytes...))
		var once sync.Once
		fin := func() { once.Do(done) }
		defer func() {
			if p := recover(); p != nil {
				panicked.Store(fmt.Sprint(p))
				g.kill()
				fin()
			}
		}()
		err := rp.mp.CheckTx(tx, func(res *abci.Response) {
			o := gatedObs{Tx: id, Class: "accepted", Size: rp.mp.Size(), SizeBytes: rp.mp.SizeBytes()}
			if r := res.GetCheckTx(); r != nil {
				o.MempoolErr = r.MempoolError
				if r.Code != abci.CodeTypeOK {
					o.Class = "app-rejected"
				} else if r.MempoolError != "" {
					o.Class = "mempool-refused"
				}
			}
			omu.Lock()
			obs = append(obs, o)
			omu.Unlock()
			if id >= nPre {
				g.cb()
			}
			fin()
		}, mempool.TxInfo{SenderID: uint16(1 + id)})
		if err != nil {
			o := gatedObs{Tx: id, Err: err.Error(), Class: "error"}
			var full mempool.ErrMempoolIsFull
			var large mempool.ErrTxTooLarge
			switch {
			case asErr(err, &full):
				o.Class = "full"
			case asErr(err, &large):
				o.Class = "too-large"
			case err == mempool.ErrTxInCache:
				o.Class = "in-cache"
			}
			omu.Lock()
			obs = append(obs, o)
			omu.Unlock()
			if id >= nPre {
				g.arrive(id)
			}
			fin()
		}
	}
	waitAll := func(wg *sync.WaitGroup) bool {
		ch := make(chan struct{})
		go func() { wg.Wait(); close(ch) }()
		select {
		case <-ch:
			return true
		case <-time.After(20 * time.Second):
			g.kill()
			return false
		}
	}
	// prefill, one at a time (the gate is not installed yet)
	for _, id := range prefill {
		var wg sync.WaitGroup
		wg.Add(1)
		submit(id, wg.Done)
		if !waitAll(&wg) {
			c.Inconclusive("gated: prefill did not complete")
			return
		}
	}
	prefillWalk := rp.walk()
	var poolBytes int64
	for _, id := range prefillWalk {
		if id >= 0 {
			poolBytes += int64(u.specs[id].Len)
		}
	}
	poolCount := len(prefillWalk)
	nObsPre := len(obs)

	rp.app.gate = g
	var wg sync.WaitGroup
	wg.Add(nIn)
	if sock && ver == 0 {
		go func() {
			for _, id := range inflight {
				submit(id, wg.Done)
			}
		}()
	} else {
		for _, id := range inflight {
			go submit(id, wg.Done)
		}
	}
	if !waitAll(&wg) {
		c.Inconclusive("gated: the in-flight requests did not complete within 20 s")
		c.Count("gated.watchdog", 1)
		return
	}
	if p := panicked.Load(); p != nil {
		c.Violation(v+"-panic-inflight", fmt.Sprintf("panic in CheckTx with %d requests in flight (%s client): %v", nIn, client, p), w)
		return
	}
	g.mu.Lock()
	w.AnswerOrder = append([]int{}, g.order...)
	g.mu.Unlock()
	omu.Lock()
	w.Obs = append([]gatedObs{}, obs...)
	omu.Unlock()
	w.FinalWalk = rp.walk()
	w.FinalSize = rp.mp.Size()
	w.FinalSB = rp.mp.SizeBytes()
	w.FinalReap = rp.ids(rp.mp.ReapMaxTxs(-1))

	c.Count("gated.cases", 1)
	c.Count("gated.cases_"+v+"_"+client, 1)
	c.Count("gated.binding_"+binding, 1)
	c.Count("gated.inflight_txs", int64(nIn))
	if exact {
		c.Count("gated.exact_fit_cases", 1)
	}

	bad := func(key, what string) { c.Violation(v+"-"+key, what, w) }
	// ---- every observation ----
	over := false
	for _, o := range w.Obs[nObsPre:] {
		c.Count("gated.outcome."+o.Class, 1)
		if o.Class == "error" {
			bad("checktx-unexpected-error-inflight", "CheckTx failed: "+o.Err)
		}
		if o.Err == "" && (o.Size > cfg.Size || o.SizeBytes > cfg.MaxTxsBytes) && !over {
			over = true
			bad("limit-exceeded-inflight-checktx", fmt.Sprintf("when the callback of tx %d ran (%s client, %d first-time CheckTx in flight together, answers released afterwards) Size()=%d SizeBytes()=%d with limits size=%d max_txs_bytes=%d", o.Tx, client, nIn, o.Size, o.SizeBytes, cfg.Size, cfg.MaxTxsBytes))
		}
		if ver == 0 && o.Class == "full" {
			s := u.specs[o.Tx]
			if poolCount < cfg.Size && poolBytes+int64(s.Len) <= cfg.MaxTxsBytes {
				bad("refused-full-while-room-inflight", fmt.Sprintf("CheckTx(tx %d, %d bytes) was refused as full at admission with %d/%d txs and %d/%d bytes in the pool (nothing in flight had been answered yet)", o.Tx, s.Len, poolCount, cfg.Size, poolBytes, cfg.MaxTxsBytes))
			}
		}
	}
	// ---- quiescent end ----
	walk := w.FinalWalk
	var wb int64
	for _, id := range walk {
		if id >= 0 {
			wb += int64(u.specs[id].Len)
		} else {
			bad("unknown-tx-in-pool", "the pool holds bytes that were never submitted")
		}
	}
	if id, dup := firstDup(walk); dup {
		bad("duplicate-in-pool-inflight", fmt.Sprintf("quiescent: the walk holds tx %d twice: %v", id, walk))
	}
	if !over && (w.FinalSize > cfg.Size || w.FinalSB > cfg.MaxTxsBytes || len(walk) > cfg.Size || wb > cfg.MaxTxsBytes) {
		over = true
		bad("limit-exceeded-inflight-checktx", fmt.Sprintf("quiescent after %d first-time CheckTx in flight together (%s client): Size()=%d SizeBytes()=%d, walk %v = %d bytes; limits size=%d max_txs_bytes=%d", nIn, client, w.FinalSize, w.FinalSB, walk, wb, cfg.Size, cfg.MaxTxsBytes))
	}
	if w.FinalSB != wb {
		bad("sizebytes-differs-from-contents-inflight", fmt.Sprintf("quiescent: SizeBytes()=%d, the txs in the walk total %d bytes", w.FinalSB, wb))
	}
	if w.FinalSize != len(walk) || !sameSet(walk, w.FinalReap) {
		bad("pool-views-disagree-inflight", fmt.Sprintf("quiescent: Size()=%d, walk=%v, ReapMaxTxs(-1)=%v", w.FinalSize, walk, w.FinalReap))
	}
	// ---- v0: callbacks were serial, so the pool is a function of the answer order ----
	dropped := 0
	if ver == 0 && !over {
		n, b := poolCount, poolBytes
		expect := append([]int{}, prefillWalk...)
		for _, id := range w.AnswerOrder {
			s := u.specs[id]
			if !s.valid(cfg.InitHeight) {
				continue
			}
			if n < cfg.Size && b+int64(s.Len) <= cfg.MaxTxsBytes {
				expect = append(expect, id)
				n++
				b += int64(s.Len)
			} else {
				dropped++
			}
		}
		if !eqInts(walk, expect) {
			missing := []int{}
			for _, id := range expect {
				if count(walk, id) == 0 {
					missing = append(missing, id)
				}
			}
			sort.Ints(missing)
			if len(missing) > 0 {
				bad("accepted-tx-dropped-while-room-inflight", fmt.Sprintf("the application answered in the order %v, the callbacks ran one after the other; txs %v fitted when their answer was handled and are not in the pool %v", w.AnswerOrder, missing, walk))
			} else {
				bad("pool-differs-from-answer-order-inflight", fmt.Sprintf("answers in the order %v should give the pool %v, the walk is %v", w.AnswerOrder, expect, walk))
			}
		}
	} else if ver == 1 {
		for _, o := range w.Obs[nObsPre:] {
			if o.Class == "mempool-refused" {
				dropped++
			}
		}
	}
	c.Count("gated.answered_by_app", int64(len(w.AnswerOrder)))
	c.Count("gated.in_pool_at_end", int64(len(walk)-poolCount))
	c.Count("gated.dropped_after_app_accepted", int64(dropped))
	if len(w.AnswerOrder) >= 2 && (dropped > 0 || exact) {
		c.Distinct("gated", jsonStr(cfg), client, fmt.Sprint(w.AnswerOrder), fmt.Sprint(walk), fmt.Sprint(inflight))
	}
	if idx < 2 && c.WantSample() {
		c.Sample(map[string]interface{}{"stream": gatedStream, "index": idx, "config": cfg, "abci_client": client, "binding_limit": binding,
			"in_flight_lens": lens(u, inflight), "answer_order": w.AnswerOrder, "final_walk": walk, "final_size_bytes": w.FinalSB})
	}
}

func lens(u *universe, ids []int) []int {
	out := make([]int, len(ids))
	for i, id := range ids {
		out[i] = u.specs[id].Len
	}
	return out
}

func asErr(err error, target interface{}) bool {
	switch t := target.(type) {
	case *mempool.ErrMempoolIsFull:
		e, ok := err.(mempool.ErrMempoolIsFull)
		if ok {
			*t = e
		}
		return ok
	case *mempool.ErrTxTooLarge:
		e, ok := err.(mempool.ErrTxTooLarge)
		if ok {
			*t = e
		}
		return ok
	}
	return false
}

func runGated(c *verdict.Ctx, n int) {
	dir := verdict.TmpDir("c12g-")
	defer os.RemoveAll(dir)
	var next int64 = -1
	var wg sync.WaitGroup
	for w := 0; w < 16; w++ {
		wg.Add(1)
		go func() {
			defer wg.Done()
			for {
				i := int(atomic.AddInt64(&next, 1))
				if i >= n {
					return
				}
				func() {
					defer func() {
						if r := recover(); r != nil {
							c.Violation(vname(i%2)+"-panic-inflight", fmt.Sprintf("panic in a gated case: %v", r),
								map[string]interface{}{"stream": gatedStream, "index": i, "panic": fmt.Sprint(r)})
						}
					}()
					runGatedCase(c, dir, i)
				}()
			}
		}()
	}
	wg.Wait()
}
