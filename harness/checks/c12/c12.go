// Package c12: mempool contents stay unique, bounded, current and correctly
// ordered (DESIGN.md section 3 "C12").
//
// Sequential tier (deciding): a single goroutine drives the real mempool v0 /
// v1 through a local ABCI client and a reference model of the pool that
// validates every outcome; Size, SizeBytes, the TxsFront walk and ReapMaxTxs(-1)
// are compared with the model after every operation and seeded reaps must be
// the longest prefix of the pool order within their limits.
//
// Concurrent tier: 4-16 client goroutines against one real mempool (race build
// when available); the call/return history is checked with porcupine against a
// nondeterministic sequential pool model, and structural invariants are
// asserted on every observation and at the quiescent end of each history.
package c12

import (
	"encoding/json"
	"fmt"
	"os"
	"sync"
	"sync/atomic"

	tmproto "github.com/tendermint/tendermint/proto/tendermint/types"
	"github.com/tendermint/tendermint/types"

	"verif/verdict"
)

const (
	seqStream  = "seq"
	concStream = "conc"
)

type replayRef struct {
	Stream string `json:"stream"`
	Index  int    `json:"index"`
}

func selfTest(c *verdict.Ctx) bool {
	// the byte accounting of the oracle (documented rule: size of the txs as
	// encoded in the block's Data message) against the protobuf encoder itself;
	// the repository's own size function is then compared with that encoding too:
	// it decides how much a reap returns, so a disagreement is a finding, not a harness error
	enc := func(txs ...[]byte) int64 {
		d := tmproto.Data{Txs: txs}
		b, err := d.Marshal()
		if err != nil {
			return -1
		}
		return int64(len(b))
	}
	ok := true
	for _, n := range []int{0, 1, 2, 126, 127, 128, 129, 200, 255, 256, 300, 16383, 16384, 16385, 65535, 65536, 70000} {
		tx := make([]byte, n)
		if want := enc(tx); n > 0 && want != protoSize(n) {
			c.HarnessError("protoSize(%d)=%d but the protobuf encoding has %d bytes", n, protoSize(n), want)
			return false
		}
		if got := types.ComputeProtoSizeForTxs([]types.Tx{tx}); n > 0 && got != protoSize(n) {
			c.Violation("compute-proto-size-differs-from-encoding", fmt.Sprintf("types.ComputeProtoSizeForTxs reports %d bytes for a %d-byte tx whose encoding in the block's Data message has %d bytes: reaps and pre-checks budget with the wrong size", got, n, protoSize(n)), map[string]interface{}{"stream": "selftest", "tx_len": n})
			ok = false
		}
	}
	a, b := make([]byte, 5), make([]byte, 200)
	if enc(a, b) != protoSize(5)+protoSize(200) {
		c.HarnessError("per-tx proto sizes are not additive: %d", enc(a, b))
		return false
	}
	_ = ok // the run goes on: the reap oracle uses protoSize, so a wrong size function also shows up as an over-full reap
	return true
}

func Run(c *verdict.Ctx) int {
	if os.Getenv("VERIF_C12_STAGE") == "conc" {
		return concChildMain(c)
	}
	c.Level = "exploration"
	c.Rule = "sequential history: >= 3 admissions, refusals of >= 2 different classes and >= 1 Update that removed a committed tx, distinct by (version, configuration, sequence of operation outcomes); " +
		"concurrent history: >= 2 admissions, >= 1 pair of overlapping operations and >= 1 Update, distinct by (version, configuration, recorded history); " +
		"gated case: >= 2 first-time CheckTx answered by the application after all were in flight, and a tx dropped after the application accepted it or an exact fit, distinct by (configuration, client, answer order, final pool)"
	c.Assume(
		"the reference pool model (ordered list, limits, outcome validation) and the interval/linearizability encoding are written from the property statement and are trusted",
		"the application verdict is a deterministic function of (tx, application height); gas, priority and sender are constants of a tx",
		"local ABCI client: every CheckTx callback has run when CheckTx returns (v0 inline, v1 CheckTxSync); v1's detached recheck is awaited through the post-check hook / goroutine labels before the pool is compared",
		"byte accounting of reaps follows the documented rule (size in the block's Data message: tag + length varint + bytes per tx), cross-checked once against the protobuf encoder",
		"pool contents are read with reflection from the TxsFront walk, only at quiescent points",
		"github.com/anishathalye/porcupine v1.3.0 decides linearizability",
		"gated stage: the application holds its answers until every caller has passed (counting pre-check hook) or been refused at the mempool's admission checks; with v0 over the local client the answers are released one per finished callback, so the callbacks do not overlap",
		"v1 arrival order is wall-clock time (time.Now().UTC()): a history in which the wall clock is seen not to advance between two submissions is counted inconclusive",
	)
	if !selfTest(c) {
		return c.Finish(1)
	}

	if rf := c.Replay(); rf != "" {
		var ref replayRef
		if b, err := os.ReadFile(rf); err == nil {
			var top struct {
				Seed *int64 `json:"seed"`
			}
			if json.Unmarshal(b, &top) == nil && top.Seed != nil {
				c.Seed = *top.Seed // the case is a function of (seed, stream, index)
			}
		}
		if err := verdict.LoadReplay(rf, &ref); err != nil {
			c.HarnessError("cannot read replay file: %v", err)
			return c.Finish(0)
		}
		switch ref.Stream {
		case seqStream:
			runSeqCase(c, ref.Index)
		case concStream:
			res := runConcCases(c, []int{ref.Index}, 1)
			mergeConc(c, res)
		case gatedStream:
			dir := verdict.TmpDir("c12g-")
			runGatedCase(c, dir, ref.Index)
			os.RemoveAll(dir)
		default:
			c.HarnessError("unknown stream %q in replay file", ref.Stream)
		}
		return c.Finish(0)
	}

	nSeq := c.N(600, 30000)
	runSeq(c, nSeq)

	nConc := c.N(200, 10000)
	runConcStage(c, nConc)

	runGated(c, c.N(240, 6000))
	if c.Counter("gated.cases") == 0 || c.Counter("gated.dropped_after_app_accepted") == 0 {
		c.HarnessError("the gated stage observed nothing (cases=%d, txs dropped after the application accepted them=%d)", c.Counter("gated.cases"), c.Counter("gated.dropped_after_app_accepted"))
	}

	// inconclusive cases are allowed only below a cap
	if t, n := c.Counter("conc.lin_timeout")+c.Counter("conc.histories_watchdog"), c.Counter("conc.histories"); n > 0 && t*10 > n {
		c.HarnessError("%d of %d concurrent histories were inconclusive (cap 10%%)", t, n)
	}
	if c.Counter("conc.histories") == 0 || c.Counter("conc.lin_ok") == 0 {
		c.HarnessError("the concurrent tier observed nothing (histories=%d, linearizable=%d)", c.Counter("conc.histories"), c.Counter("conc.lin_ok"))
	}
	if c.Counter("seq.histories_completed") == 0 {
		c.HarnessError("no sequential history ran to its end")
	}
	return c.Finish(c.N(150, 3000))
}

const seqOpsPerHistory = 120 // every step is followed by a reap probe: ~240 operations per history

func runSeqCase(c *verdict.Ctx, idx int) {
	ws, st, inc := runSeqHistory(c, seqStream, idx, seqOpsPerHistory)
	c.Eval()
	if inc != "" {
		c.Inconclusive("seq: " + inc)
		c.Count("seq.histories_inconclusive", 1)
		return
	}
	for _, w := range ws {
		c.Violation(w.Finding.Key, w.Finding.What, w)
	}
	c.Count("seq.histories", 1)
	c.Count("seq.histories_"+vname(idx%2), 1)
	c.Count("seq.operations", int64(st.nOps))
	c.Count("seq.reap_probes", int64(st.probes))
	c.Max("seq.max_pool_size_seen", int64(st.maxPool))
	for k, n := range st.classes {
		c.Count("seq.checktx."+k, int64(n))
	}
	for k, n := range st.updInfo {
		c.Count("seq.update."+k, int64(n))
	}
	if st.stopped != "" {
		c.Count("seq.histories_stopped_after_state_corruption", 1)
		c.Count("seq.stopped_by."+st.stopped, 1)
	} else {
		c.Count("seq.histories_completed", 1)
	}
	refusals := 0
	for k, n := range st.classes {
		switch k {
		case "admitted", "admitted-evicting", "flush", "removed", "not-removed":
		default:
			if n > 0 {
				refusals++
			}
		}
	}
	adm := st.classes["admitted"] + st.classes["admitted-evicting"]
	if adm >= 3 && refusals >= 2 && st.updInfo["removed-committed"] >= 1 {
		c.Distinct("seq", st.cfgJSON, st.sig)
	}
}

func runSeq(c *verdict.Ctx, n int) {
	var next int64 = -1
	var wg sync.WaitGroup
	for w := 0; w < 16; w++ {
		wg.Add(1)
		go func() {
			defer wg.Done()
			for {
				i := int(atomic.AddInt64(&next, 1))
				if i >= n {
					return
				}
				func() {
					defer func() {
						if r := recover(); r != nil {
							c.Violation(vname(i%2)+"-panic-sequential", fmt.Sprintf("panic in sequential history: %v", r),
								map[string]interface{}{"stream": seqStream, "index": i, "panic": fmt.Sprint(r)})
						}
					}()
					runSeqCase(c, i)
				}()
			}
		}()
	}
	wg.Wait()
}

func jsonStr(v interface{}) string {
	b, _ := json.Marshal(v)
	return string(b)
}
