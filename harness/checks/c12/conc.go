package c12

import (
	"bufio"
	"crypto/sha256"
	"encoding/hex"
	"encoding/json"
	"fmt"
	"math/rand"
	"os"
	"os/exec"
	"path/filepath"
	"regexp"
	"runtime"
	"sort"
	"strconv"
	"strings"
	"sync"
	"sync/atomic"
	"time"

	"github.com/anishathalye/porcupine"

	"verif/verdict"
)

// ---------------------------------------------------------------------------
// Concurrent tier.
// ---------------------------------------------------------------------------

type cOp struct {
	Client   int      `json:"c"`
	Kind     string   `json:"op"` // checktx reapn reapbg update flush size recheck-reject
	Tx       int      `json:"tx,omitempty"`
	N        int      `json:"n,omitempty"`
	B        int64    `json:"max_bytes,omitempty"`
	G        int64    `json:"max_gas,omitempty"`
	Block    []int    `json:"block,omitempty"`
	Codes    []uint32 `json:"codes,omitempty"`
	Call     int64    `json:"call"`
	Ret      int64    `json:"ret"`
	Class    string   `json:"class,omitempty"`
	Out      []int    `json:"out,omitempty"`
	H        int64    `json:"height,omitempty"`
	Rejected []int    `json:"recheck_rejected,omitempty"`
	Size     int      `json:"size,omitempty"`
	SizeB    int64    `json:"size_bytes,omitempty"`
	Panic    string   `json:"panic,omitempty"`

	wallCall, wallRet int64
}

type concHistory struct {
	Stream    string    `json:"stream"`
	Index     int       `json:"index"`
	Cfg       poolCfg   `json:"config"`
	Clients   int       `json:"clients"`
	ConcFlush bool      `json:"concurrent_flush"`
	Universe  []*txSpec `json:"universe"`
	Ops       []cOp     `json:"ops"`
	FinalWalk []int     `json:"final_walk"`
	FinalSize int       `json:"final_size"`
	FinalSB   int64     `json:"final_size_bytes"`
	FinalReap []int     `json:"final_reap_all"`

	u *universe
}

type concViolation struct {
	Key     string      `json:"key"`
	What    string      `json:"what"`
	Witness interface{} `json:"witness"`
}

type concResult struct {
	Violations   []concViolation  `json:"violations"`
	Counters     map[string]int64 `json:"counters"`
	Maxes        map[string]int64 `json:"maxes"`
	Inconclusive []string         `json:"inconclusive"`
	Evals        int              `json:"evals"`
	Distinct     [][2]string      `json:"distinct"`
	Samples      []interface{}    `json:"samples"`
	RaceBuild    bool             `json:"race_build"`

	mu      sync.Mutex
	perKey  map[string]int
	keyHits map[string]int64
}

func newConcResult() *concResult {
	return &concResult{Counters: map[string]int64{}, Maxes: map[string]int64{}, perKey: map[string]int{}, keyHits: map[string]int64{}}
}

func (r *concResult) count(k string, n int64) {
	r.mu.Lock()
	r.Counters[k] += n
	r.mu.Unlock()
}
func (r *concResult) max(k string, n int64) {
	r.mu.Lock()
	if n > r.Maxes[k] {
		r.Maxes[k] = n
	}
	r.mu.Unlock()
}
func (r *concResult) violation(key, what string, w interface{}) {
	r.mu.Lock()
	defer r.mu.Unlock()
	r.keyHits[key]++
	r.perKey[key]++
	if r.perKey[key] > 4 {
		// keep the count, drop the witness
		r.Violations = append(r.Violations, concViolation{Key: key, What: what})
		return
	}
	r.Violations = append(r.Violations, concViolation{Key: key, What: what, Witness: w})
}

type concPlan struct {
	cfg       poolCfg
	uo        uniOpts
	clients   int
	total     int
	concFlush bool
	scripts   [][]cOp
}

func genConcPlan(r *rand.Rand, idx int, u **universe) concPlan {
	var p concPlan
	cfg := &p.cfg
	cfg.Ver = idx % 2
	p.uo = uniOpts{n: 4 + r.Intn(5), maxLen: 3 + r.Intn(10), heightDep: r.Intn(2) == 0,
		senders: cfg.Ver == 1 && r.Intn(5) == 0, fewPrios: r.Intn(2) == 0}
	*u = genUniverse(r, p.uo)
	n := p.uo.n
	switch x := r.Intn(10); {
	case x < 4:
		cfg.Size = 1 + r.Intn(3)
	case x < 7:
		cfg.Size = 4 + r.Intn(3)
	default:
		cfg.Size = n + r.Intn(5)
	}
	cfg.MaxTxsBytes = 1 << 20
	if r.Intn(10) < 3 {
		avg := int64(p.uo.maxLen+2) / 2
		cfg.MaxTxsBytes = avg*2 + r.Int63n(avg*3)
	}
	cfg.MaxTxBytes = 1 << 20
	switch x := r.Intn(100); {
	case x < 45:
		cfg.CacheSize = 10000
	case x < 65:
		cfg.CacheSize = n
	case x < 75:
		cfg.CacheSize = 0
	default:
		cfg.CacheSize = 1 + r.Intn(n-1)
	}
	cfg.KeepInvalid = r.Intn(2) == 0
	cfg.Recheck = r.Intn(10) < 6
	cfg.PreMax, cfg.PostMaxGas = -1, -2
	cfg.InitHeight = int64(r.Intn(3))
	p.clients = 4 + r.Intn(13)
	p.total = 30 + r.Intn(31)
	if p.total < p.clients*2 {
		p.total = p.clients * 2
	}
	if p.total > 60 {
		p.total = 60
	}
	// v0.Flush only takes the read lock ("XXX: Unsafe!"): keep it out of most v0 histories so
	// that what it breaks cannot mask anything else; v1.Flush is exclusive.
	p.concFlush = cfg.Ver == 1 || r.Intn(5) == 0
	p.scripts = make([][]cOp, p.clients)
	specs := (*u).specs
	for i := 0; i < p.total; i++ {
		cl := i % p.clients
		op := cOp{Client: cl}
		x := r.Intn(100)
		switch {
		case x < 55:
			op.Kind = "checktx"
			op.Tx = r.Intn(n)
		case x < 67:
			op.Kind = "reapn"
			switch r.Intn(5) {
			case 0, 1:
				op.N = -1
			case 2:
				op.N = 0
			default:
				op.N = 1 + r.Intn(cfg.Size+1)
			}
		case x < 79:
			op.Kind = "reapbg"
			op.B, op.G = -1, -1
			if r.Intn(3) != 0 {
				k := 1 + r.Intn(3)
				op.B = 0
				for j := 0; j < k; j++ {
					op.B += protoSize(specs[r.Intn(n)].Len)
				}
				op.B += int64(r.Intn(3)) - 1
			}
			if r.Intn(3) == 0 {
				op.G = int64(r.Intn(15))
			}
		case x < 91:
			op.Kind = "update"
			for k := 1 + r.Intn(3); k > 0; k-- {
				op.Block = append(op.Block, r.Intn(n))
			}
			op.Codes = make([]uint32, len(op.Block))
			for j := range op.Codes {
				if r.Intn(5) == 0 {
					op.Codes[j] = 1
				}
			}
		case x < 97 || !p.concFlush:
			op.Kind = "size"
		default:
			op.Kind = "flush"
		}
		p.scripts[cl] = append(p.scripts[cl], op)
	}
	return p
}

// runConcHistory executes one concurrent history and checks it.
func runConcHistory(c *verdict.Ctx, res *concResult, idx int) {
	r := c.Rand(concStream, idx)
	var u *universe
	plan := genConcPlan(r, idx, &u)
	cfg := plan.cfg
	v := vname(cfg.Ver)
	res.mu.Lock()
	res.Evals++
	res.mu.Unlock()

	rp, err := newRealPool(cfg, u)
	if err != nil {
		res.mu.Lock()
		res.Inconclusive = append(res.Inconclusive, "conc: cannot build mempool: "+err.Error())
		res.mu.Unlock()
		return
	}
	var clock int64
	rp.app.clock = &clock
	h := &concHistory{Stream: concStream, Index: idx, Cfg: cfg, Clients: plan.clients, ConcFlush: plan.concFlush && cfg.Ver == 0, Universe: u.specs, u: u}

	start := make(chan struct{})
	done := make(chan []cOp, plan.clients)
	for cl := 0; cl < plan.clients; cl++ {
		script := plan.scripts[cl]
		yield := rand.New(rand.NewSource(r.Int63()))
		go func(cl int) {
			var rec []cOp
			defer func() { done <- rec }()
			<-start
			for _, op := range script {
				if yield.Intn(3) == 0 {
					runtime.Gosched()
				}
				stop := false
				func() {
					defer func() {
						if p := recover(); p != nil {
							op.Panic = fmt.Sprint(p)
							op.Ret = atomic.AddInt64(&clock, 1)
							stop = true
						}
					}()
					op.Call = atomic.AddInt64(&clock, 1)
					op.wallCall = time.Now().UnixNano()
					switch op.Kind {
					case "checktx":
						o := rp.checkTx(op.Tx, uint16(cl+1))
						op.Class = o.Class
						if o.Class == "error" {
							op.Panic = "unexpected CheckTx error: " + o.Err
						}
					case "reapn":
						op.Out = rp.ids(rp.mp.ReapMaxTxs(op.N))
					case "reapbg":
						op.Out = rp.ids(rp.mp.ReapMaxBytesMaxGas(op.B, op.G))
					case "update":
						hh, _, rej, err := rp.update(-1, op.Block, op.Codes, nil, nil, false)
						op.H, op.Rejected = hh, rej
						if err != nil {
							op.Panic = "Update returned " + err.Error()
						}
					case "flush":
						rp.mp.Flush()
					case "size":
						op.Size = rp.mp.Size()
						op.SizeB = rp.mp.SizeBytes()
					}
					op.wallRet = time.Now().UnixNano()
					op.Ret = atomic.AddInt64(&clock, 1)
				}()
				rec = append(rec, op)
				if stop {
					return
				}
			}
		}(cl)
	}
	close(start)
	watchdog := time.After(60 * time.Second)
	for i := 0; i < plan.clients; i++ {
		select {
		case rec := <-done:
			h.Ops = append(h.Ops, rec...)
		case <-watchdog:
			res.mu.Lock()
			res.Inconclusive = append(res.Inconclusive, "conc: history did not finish within 60 s (clients blocked)")
			res.mu.Unlock()
			res.count("conc.histories_watchdog", 1)
			return
		}
	}
	if !rp.waitRecheck(20 * time.Second) {
		res.mu.Lock()
		res.Inconclusive = append(res.Inconclusive, "conc: "+errRecheckTimeout.Error())
		res.mu.Unlock()
		return
	}
	endClock := atomic.AddInt64(&clock, 1)
	if cfg.Ver == 1 {
		for _, rec := range rp.app.takeRecheckLog() {
			if !rec.OK {
				h.Ops = append(h.Ops, cOp{Client: plan.clients, Kind: "recheck-reject", Tx: rec.ID, Call: rec.Call, Ret: endClock})
			}
		}
	}
	sort.SliceStable(h.Ops, func(i, j int) bool { return h.Ops[i].Call < h.Ops[j].Call })
	func() {
		defer func() {
			if p := recover(); p != nil {
				res.violation(v+"-panic-at-quiescence", fmt.Sprintf("panic while reading the quiescent pool: %v", p), h)
			}
		}()
		h.FinalWalk = rp.walk()
		h.FinalSize = rp.mp.Size()
		h.FinalSB = rp.mp.SizeBytes()
		h.FinalReap = rp.ids(rp.mp.ReapMaxTxs(-1))
	}()
	checkConcHistory(res, h)
}

// keyPrefix: what a concurrent v0 Flush (read lock only, documented as unsafe) breaks is
// reported under its own keys so that it cannot hide, or be hidden by, anything else.
func (h *concHistory) keyPrefix() string {
	return vname(h.Cfg.Ver) + "-"
}

const v0FlushKey = "v0-concurrent-flush-inconsistent"

// racingCacheRemoval: is there a CheckTx(id) that got past the cache (whatever happened to it
// afterwards) and overlaps a Flush or an Update that commits id with a non-OK code?  Both drop
// id from the cache while that CheckTx is on its way; a second CheckTx(id) then passes the cache
// too, and v1 has no other uniqueness check (and the first one, if refused later, even removes
// the cache entry of the by then live tx).
func (h *concHistory) racingCacheRemoval(id int) bool {
	for _, c := range h.Ops {
		if c.Kind != "checktx" || c.Tx != id {
			continue
		}
		switch c.Class {
		case "accepted", "app-rejected", "mempool-full", "mempool-sender", "postcheck":
		default:
			continue
		}
		for _, x := range h.Ops {
			if !(x.Call < c.Ret && c.Call < x.Ret) {
				continue
			}
			if x.Kind == "flush" {
				return true
			}
			if x.Kind == "update" {
				for i, b := range x.Block {
					if b == id && x.Codes[i] != 0 {
						return true
					}
				}
			}
		}
	}
	return false
}

// racingCommit: is there an accepted CheckTx(id) that overlaps an Update committing id with code OK?
func (h *concHistory) racingCommit(id int) bool {
	for _, c := range h.Ops {
		if c.Kind != "checktx" || c.Tx != id || c.Class != "accepted" {
			continue
		}
		for _, x := range h.Ops {
			if x.Kind != "update" || !(x.Call < c.Ret && c.Call < x.Ret) {
				continue
			}
			for i, b := range x.Block {
				if b == id && x.Codes[i] == 0 {
					return true
				}
			}
		}
	}
	return false
}

// overlappingAcceptedOf: do two accepted CheckTx operations of tx id overlap?
func (h *concHistory) overlappingAcceptedOf(id int) bool {
	for i, a := range h.Ops {
		if a.Kind != "checktx" || a.Class != "accepted" || a.Tx != id {
			continue
		}
		for _, b := range h.Ops[i+1:] {
			if b.Kind == "checktx" && b.Class == "accepted" && b.Tx == id && b.Call < a.Ret && a.Call < b.Ret {
				return true
			}
		}
	}
	return false
}

// overlappingAccepted: do two accepted CheckTx operations overlap?
func (h *concHistory) overlappingAccepted() bool {
	for i, a := range h.Ops {
		if a.Kind != "checktx" || a.Class != "accepted" {
			continue
		}
		for _, b := range h.Ops[i+1:] {
			if b.Kind == "checktx" && b.Class == "accepted" && b.Call < a.Ret && a.Call < b.Ret {
				return true
			}
		}
	}
	return false
}

func (h *concHistory) hasFlush() bool {
	for _, o := range h.Ops {
		if o.Kind == "flush" {
			return true
		}
	}
	return false
}

func (h *concHistory) s5Possible() bool {
	ids := map[int]bool{}
	for _, o := range h.Ops {
		if o.Kind == "checktx" {
			ids[o.Tx] = true
		}
		for _, b := range o.Block {
			ids[b] = true
		}
	}
	return h.Cfg.CacheSize == 0 || h.Cfg.CacheSize < len(ids)
}

func checkConcHistory(res *concResult, h *concHistory) {
	cfg := h.Cfg
	u := h.u
	v := vname(cfg.Ver)
	pre := h.keyPrefix()
	res.count("conc.histories", 1)
	res.count("conc.histories_"+v, 1)
	res.count("conc.operations", int64(len(h.Ops)))
	res.max("conc.max_clients", int64(h.Clients))

	// distinct tx ids that occur in the history: the cache can have evicted something only
	// if it is smaller than that
	ids := map[int]bool{}
	for _, o := range h.Ops {
		if o.Kind == "checktx" {
			ids[o.Tx] = true
		}
		for _, b := range o.Block {
			ids[b] = true
		}
	}
	s5Possible := cfg.CacheSize == 0 || cfg.CacheSize < len(ids)
	// Duplicates.  The sequential defect (no index lookup before insert) is fixed in /repo, so
	// the old keys are hard violations again.  What remains in v0 is the concurrent variant: with
	// the local ABCI client resCbFirstTime runs in every caller's goroutine under the READ lock, so
	// its txsMap lookup and addTx are not atomic; two overlapping CheckTx of the same tx that both
	// got past the cache (possible only if the cache could forget it in between) both append.
	// That key is used only when the recorded history shows exactly this.
	dupKey := func(id int) string {
		switch {
		case cfg.Ver == 0 && s5Possible && h.overlappingAcceptedOf(id):
			return "v0-duplicate-concurrent-checktx-after-cache-eviction"
		case s5Possible:
			return v + "-duplicate-after-cache-eviction"
		case cfg.Ver == 1 && h.racingCacheRemoval(id):
			return "v1-duplicate-checktx-racing-cache-removal"
		}
		return pre + "duplicate-while-cached"
	}
	limitKey := pre + "limit-exceeded"
	if cfg.Ver == 0 && h.overlappingAccepted() {
		limitKey = "v0-limit-exceeded-concurrent-admission"
	}
	flushHist := h.ConcFlush && h.hasFlush()

	found := 0
	report := func(key, what string) {
		found++
		if flushHist && !strings.HasSuffix(key, "-duplicate-after-cache-eviction") {
			// v0.Flush holds only the read lock (its own comment: "XXX: Unsafe! Calling Flush may
			// leave mempool in inconsistent state"): whatever a history with a concurrent v0
			// Flush shows is reported under one key of its own, so it can neither hide nor be
			// hidden by anything else.
			what = "[" + key + "] " + what
			key = v0FlushKey
		}
		res.violation(key, what, h)
	}
	tolS4 := false
	dupSeen := false
	overlaps, admissions, updates := 0, 0, 0
	for i, o := range h.Ops {
		for j := i + 1; j < len(h.Ops) && h.Ops[j].Call < o.Ret; j++ {
			overlaps++
		}
		if o.Panic != "" {
			report(pre+"panic", fmt.Sprintf("%s by client %d: %s", o.Kind, o.Client, o.Panic))
			continue
		}
		res.count("conc.op."+o.Kind, 1)
		switch o.Kind {
		case "checktx":
			res.count("conc.checktx."+o.Class, 1)
			if o.Class == "accepted" {
				admissions++
			}
		case "update":
			updates++
			res.count("conc.update.recheck_rejected", int64(len(o.Rejected)))
		case "recheck-reject":
			res.count("conc.v1_detached_recheck_rejections", 1)
		case "size":
			if o.Size > cfg.Size {
				report(limitKey, fmt.Sprintf("Size()=%d observed with size limit %d", o.Size, cfg.Size))
			}
			if o.SizeB > cfg.MaxTxsBytes {
				report(limitKey, fmt.Sprintf("SizeBytes()=%d observed with max_txs_bytes %d", o.SizeB, cfg.MaxTxsBytes))
			}
		case "reapn", "reapbg":
			desc := fmt.Sprintf("ReapMaxTxs(%d)", o.N)
			if o.Kind == "reapbg" {
				desc = fmt.Sprintf("ReapMaxBytesMaxGas(%d,%d)", o.B, o.G)
			}
			bad := false
			for _, id := range o.Out {
				if id < 0 {
					report(pre+"unknown-tx-in-reap", desc+" returned bytes that were never submitted")
					bad = true
				}
			}
			if bad {
				continue
			}
			if id, dup := firstDup(o.Out); dup {
				dupSeen = true
				report(dupKey(id), fmt.Sprintf("%s returned tx %d twice: %v (cache_size %d, %d distinct txs in the history)", desc, id, o.Out, cfg.CacheSize, len(ids)))
				continue
			}
			var pb, raw, gas int64
			for _, id := range o.Out {
				pb += protoSize(u.specs[id].Len)
				raw += int64(u.specs[id].Len)
				gas += u.specs[id].Gas
			}
			if len(o.Out) > cfg.Size || raw > cfg.MaxTxsBytes {
				report(limitKey, fmt.Sprintf("%s returned %d txs / %d bytes from a pool limited to %d / %d", desc, len(o.Out), raw, cfg.Size, cfg.MaxTxsBytes))
			}
			if o.Kind == "reapn" && o.N >= 0 && len(o.Out) > o.N {
				if cfg.Ver == 0 && len(o.Out) == o.N+1 {
					tolS4 = true
					res.violation("v0-reapmaxtxs-off-by-one", fmt.Sprintf("ReapMaxTxs(%d) returned %d txs %v", o.N, len(o.Out), o.Out), h)
				} else {
					report(pre+"reapmaxtxs-exceeds-count", fmt.Sprintf("ReapMaxTxs(%d) returned %d txs", o.N, len(o.Out)))
				}
			}
			if o.Kind == "reapbg" && o.B >= 0 && pb > o.B {
				report(pre+"reap-exceeds-max-bytes", fmt.Sprintf("%s returned %v: %d bytes as encoded in block data", desc, o.Out, pb))
			}
			if o.Kind == "reapbg" && o.G >= 0 && gas > o.G {
				report(pre+"reap-exceeds-max-gas", fmt.Sprintf("%s returned %v: total gas %d", desc, o.Out, gas))
			}
		}
	}
	res.count("conc.overlapping_operation_pairs", int64(overlaps))

	// ---- quiescent end of the history ----
	walk := h.FinalWalk
	if id, dup := firstDup(walk); dup {
		dupSeen = true
		report(dupKey(id), fmt.Sprintf("at the quiescent end the walk holds tx %d twice: %v (cache_size %d, %d distinct txs in the history)", id, walk, cfg.CacheSize, len(ids)))
	}
	// v1: elements of the walk that Reap does not show (orphaned list elements)
	orphansRacing := false
	orphan := map[int]bool{}
	if cfg.Ver == 1 {
		left := append([]int{}, h.FinalReap...)
		n, all := 0, true
		for _, id := range walk {
			found := false
			for i, x := range left {
				if x == id {
					left = append(left[:i], left[i+1:]...)
					found = true
					break
				}
			}
			if !found {
				n++
				orphan[id] = true
				all = all && id >= 0 && h.racingCacheRemoval(id)
			}
		}
		orphansRacing = n > 0 && all && len(left) == 0
	}
	structural := func(key, what string) {
		if orphansRacing {
			report("v1-duplicate-checktx-racing-cache-removal", what+" (an orphaned list element left by a duplicate admission whose CheckTx raced a Flush / non-OK commit of the same tx)")
			return
		}
		if dupSeen {
			return // consequence of the duplicate already reported
		}
		report(pre+key, what)
	}
	if !dupSeen {
		for _, id := range walk {
			if id < 0 {
				report(pre+"unknown-tx-in-pool", "the pool holds bytes that were never submitted")
			}
		}
	}
	if h.FinalSize != len(walk) {
		structural("size-differs-from-walk", fmt.Sprintf("quiescent: Size()=%d, the walk has %d elements", h.FinalSize, len(walk)))
	}
	if !dupSeen && !sameSet(walk, h.FinalReap) {
		structural("reap-all-differs-from-walk", fmt.Sprintf("quiescent: ReapMaxTxs(-1)=%v, walk=%v", h.FinalReap, walk))
	}
	var wb int64
	for _, id := range walk {
		if id >= 0 {
			wb += int64(u.specs[id].Len)
		}
	}
	if h.FinalSB != wb {
		structural("sizebytes-differs-from-contents", fmt.Sprintf("quiescent: SizeBytes()=%d, the txs in the walk total %d bytes", h.FinalSB, wb))
	}
	if h.FinalSize > cfg.Size || h.FinalSB > cfg.MaxTxsBytes || len(walk) > cfg.Size || wb > cfg.MaxTxsBytes {
		if !dupSeen {
			report(limitKey, fmt.Sprintf("quiescent: Size()=%d SizeBytes()=%d walk=%v with limits %d / %d", h.FinalSize, h.FinalSB, walk, cfg.Size, cfg.MaxTxsBytes))
		}
	}
	// no committed tx present: a tx in the final pool needs an accepted CheckTx that is not
	// entirely before some Update containing it / some Flush
	if !dupSeen {
		seen := map[int]bool{}
		for _, id := range walk {
			if id < 0 || seen[id] || orphansRacing && orphan[id] {
				continue
			}
			seen[id] = true
			explained := false
			for _, cop := range h.Ops {
				if cop.Kind != "checktx" || cop.Tx != id || cop.Class != "accepted" {
					continue
				}
				ok := true
				for _, uop := range h.Ops {
					if uop.Call < cop.Ret {
						continue // overlaps or precedes the submission
					}
					if uop.Kind == "flush" || uop.Kind == "update" && count(uop.Block, id) > 0 {
						ok = false
						break
					}
				}
				if ok {
					explained = true
					break
				}
			}
			if !explained && cfg.Ver == 0 && s5Possible && h.overlappingAcceptedOf(id) {
				// the concurrent duplicate (two overlapping accepted CheckTx, cache able to forget):
				// the commit removed the copy txsMap pointed to, the other copy is out of reach
				report("v0-duplicate-concurrent-checktx-after-cache-eviction", fmt.Sprintf("quiescent: tx %d is still in the pool after an Update that committed it: two overlapping CheckTx of it were both accepted (cache_size %d), the pool held it twice and the commit could remove only the copy txsMap pointed to", id, cfg.CacheSize))
			} else if !explained {
				report(pre+"committed-tx-still-present", fmt.Sprintf("quiescent: tx %d is in the pool, but every accepted CheckTx of it returned before a later Update that committed it (or a Flush) was called", id))
			}
		}
	}

	nontrivial := admissions >= 2 && overlaps >= 1 && updates >= 1
	if nontrivial {
		hs := sha256.New()
		for _, o := range h.Ops {
			fmt.Fprintf(hs, "%d,%s,%d,%d,%d,%d,%v,%s,%v,%d,%d;", o.Client, o.Kind, o.Tx, o.N, o.B, o.G, o.Block, o.Class, o.Out, o.Call, o.Ret)
		}
		res.mu.Lock()
		res.Distinct = append(res.Distinct, [2]string{jsonStr(cfg), hex.EncodeToString(hs.Sum(nil)[:12])})
		res.mu.Unlock()
	}

	// ---- linearizability ----
	switch {
	case found > 0:
		res.count("conc.lin_skipped_after_direct_finding", 1)
		return
	case flushHist:
		res.count("conc.lin_skipped_v0_concurrent_flush", 1)
		return
	}
	if cfg.Ver == 1 {
		// v1 orders equal priorities by wall-clock arrival: make sure the wall clock agrees
		// with the history clock for submissions that did not overlap
		var maxRet int64
		type ev struct {
			t, wall int64
			ret     bool
		}
		var evs []ev
		for _, o := range h.Ops {
			if o.Kind == "checktx" {
				evs = append(evs, ev{o.Call, o.wallCall, false}, ev{o.Ret, o.wallRet, true})
			}
		}
		sort.Slice(evs, func(i, j int) bool { return evs[i].t < evs[j].t })
		for _, e := range evs {
			if e.ret {
				if e.wall > maxRet {
					maxRet = e.wall
				}
			} else if e.wall <= maxRet {
				res.mu.Lock()
				res.Inconclusive = append(res.Inconclusive, "conc: wall clock did not advance between two non-overlapping submissions (v1 orders by wall-clock arrival time)")
				res.mu.Unlock()
				return
			}
		}
	}
	t0 := time.Now()
	r, keys := checkLinearizable(h, tolS4, 5*time.Second)
	res.max("conc.lin_max_ms", time.Since(t0).Milliseconds())
	switch r {
	case porcupine.Ok:
		res.count("conc.lin_ok", 1)
	case porcupine.Unknown:
		res.count("conc.lin_timeout", 1)
		res.mu.Lock()
		res.Inconclusive = append(res.Inconclusive, "conc: porcupine timed out")
		res.mu.Unlock()
	default:
		res.count("conc.lin_illegal", 1)
		for _, k := range keys {
			res.violation(k, "the recorded call/return history has no linearization against the sequential pool model (reaps must be the longest prefix of the pool order; committed / flushed / recheck-rejected txs leave; admissions keep the limits, possibly evicting strictly-lower-priority txs)", h)
		}
	}
	res.mu.Lock()
	if len(res.Samples) < 2 && nontrivial {
		n := len(h.Ops)
		if n > 14 {
			n = 14
		}
		res.Samples = append(res.Samples, map[string]interface{}{"stream": concStream, "index": h.Index, "config": cfg, "clients": h.Clients, "first_ops": h.Ops[:n], "final_walk": h.FinalWalk})
	}
	res.mu.Unlock()
}

func runConcCases(c *verdict.Ctx, idxs []int, workers int) *concResult {
	res := newConcResult()
	var next int64 = -1
	var wg sync.WaitGroup
	for w := 0; w < workers; w++ {
		wg.Add(1)
		go func() {
			defer wg.Done()
			for {
				i := int(atomic.AddInt64(&next, 1))
				if i >= len(idxs) {
					return
				}
				func() {
					defer func() {
						if r := recover(); r != nil {
							res.violation(vname(idxs[i]%2)+"-panic-harness-goroutine", fmt.Sprintf("panic while running / checking a concurrent history: %v", r),
								map[string]interface{}{"stream": concStream, "index": idxs[i]})
						}
					}()
					runConcHistory(c, res, idxs[i])
				}()
			}
		}()
	}
	wg.Wait()
	return res
}

func mergeConc(c *verdict.Ctx, r *concResult) {
	if r == nil {
		return
	}
	for i := 0; i < r.Evals; i++ {
		c.Eval()
	}
	for k, n := range r.Counters {
		c.Count(k, n)
	}
	for k, n := range r.Maxes {
		c.Max(k, n)
	}
	for _, s := range r.Inconclusive {
		c.Inconclusive(s)
	}
	for _, d := range r.Distinct {
		c.Distinct("conc", d[0], d[1])
	}
	for _, s := range r.Samples {
		c.Sample(s)
	}
	for _, v := range r.Violations {
		c.Violation(v.Key, v.What, v.Witness)
	}
}

// concChildMain is the race-built sub-stage: VERIF_C12_STAGE=conc.
func concChildMain(c *verdict.Ctx) int {
	n, _ := strconv.Atoi(os.Getenv("VERIF_C12_N"))
	out := os.Getenv("VERIF_C12_OUT")
	if n <= 0 || out == "" {
		fmt.Fprintln(os.Stderr, "c12 child: VERIF_C12_N / VERIF_C12_OUT not set")
		return 2
	}
	idxs := make([]int, n)
	for i := range idxs {
		idxs[i] = i
	}
	res := runConcCases(c, idxs, 16)
	res.RaceBuild = true
	b, err := json.Marshal(res)
	if err != nil {
		fmt.Fprintln(os.Stderr, "c12 child:", err)
		return 2
	}
	if err := os.WriteFile(out, b, 0o644); err != nil {
		fmt.Fprintln(os.Stderr, "c12 child:", err)
		return 2
	}
	return 0
}

var raceFrame = regexp.MustCompile(`^\s+([A-Za-z0-9_./()*\-]+)\(`)

// raceSignatures deduplicates the race detector's reports (diagnostics only).
func raceSignatures(dir string) (total int, sigs map[string]int) {
	sigs = map[string]int{}
	files, _ := filepath.Glob(filepath.Join(dir, "race.*"))
	for _, fn := range files {
		f, err := os.Open(fn)
		if err != nil {
			continue
		}
		sc := bufio.NewScanner(f)
		sc.Buffer(make([]byte, 1<<20), 1<<20)
		var cur []string
		want := false
		flush := func() {
			if len(cur) > 0 {
				sigs[strings.Join(cur, " <-> ")]++
				total++
			}
			cur = nil
		}
		for sc.Scan() {
			line := sc.Text()
			switch {
			case strings.HasPrefix(line, "WARNING: DATA RACE"):
				flush()
			case strings.HasPrefix(line, "Write at") || strings.HasPrefix(line, "Read at") ||
				strings.HasPrefix(line, "Previous write at") || strings.HasPrefix(line, "Previous read at") ||
				strings.HasPrefix(line, "Atomic") || strings.HasPrefix(line, "Previous atomic"):
				want = true
			case want:
				if m := raceFrame.FindStringSubmatch(line); m != nil && len(cur) < 2 {
					cur = append(cur, m[1])
				}
				want = false
			}
		}
		flush()
		f.Close()
	}
	return
}

func runConcStage(c *verdict.Ctx, n int) {
	idxs := make([]int, n)
	for i := range idxs {
		idxs[i] = i
	}
	bin := os.Getenv("VERIF_RACE_BIN")
	if st, err := os.Stat(bin); bin == "" || err != nil || st.IsDir() {
		c.Set("conc.race_build", false)
		c.Set("conc.note", "VERIF_RACE_BIN not available: concurrent tier run in-process without the race detector")
		mergeConc(c, runConcCases(c, idxs, 16))
		return
	}
	dir := verdict.TmpDir("c12-")
	defer os.RemoveAll(dir)
	out := filepath.Join(dir, "conc.json")
	cmd := exec.Command(bin, "--tier", c.Tier, "C12")
	cmd.Env = append(os.Environ(),
		"VERIF_C12_STAGE=conc", "VERIF_C12_OUT="+out, "VERIF_C12_N="+strconv.Itoa(n),
		"VERIF_SEED="+strconv.FormatInt(c.Seed, 10),
		"GORACE=halt_on_error=0 log_path="+filepath.Join(dir, "race"))
	cmd.Stdout = os.Stderr
	cmd.Stderr = os.Stderr
	err := cmd.Run()
	b, rerr := os.ReadFile(out)
	if rerr != nil {
		c.HarnessError("concurrent stage (race build) produced no result: run=%v read=%v", err, rerr)
		return
	}
	var res concResult
	if jerr := json.Unmarshal(b, &res); jerr != nil {
		c.HarnessError("concurrent stage result unreadable: %v", jerr)
		return
	}
	c.Set("conc.race_build", true)
	total, sigs := raceSignatures(dir)
	c.Set("conc.race_reports_total", total)
	c.Set("conc.race_reports_distinct", len(sigs))
	if len(sigs) > 0 {
		top := make([]string, 0, len(sigs))
		for k := range sigs {
			top = append(top, k)
		}
		sort.Slice(top, func(i, j int) bool { return sigs[top[i]] > sigs[top[j]] })
		if len(top) > 12 {
			top = top[:12]
		}
		c.Set("conc.race_report_signatures", top)
	}
	mergeConc(c, &res)
}
