package c12

import (
	"encoding/binary"
	"math/rand"
	"sync"
	"sync/atomic"

	abci "github.com/tendermint/tendermint/abci/types"
)

// txSpec is one transaction of a history's universe.  Everything the
// application says about it is a deterministic function of (spec, app height):
// gas, priority and sender are constants of the tx, validity depends on height.
type txSpec struct {
	ID     int    `json:"id"`
	Len    int    `json:"len"`
	Gas    int64  `json:"gas"`
	Prio   int64  `json:"prio"`
	Sender string `json:"sender,omitempty"`
	// validity: 0 always, 1 never, 2 valid while A <= h < B, 3 invalid while A <= h < B,
	// 4 valid iff (h+A)%B != 0
	Mode int   `json:"mode"`
	A    int64 `json:"a,omitempty"`
	B    int64 `json:"b,omitempty"`

	bytes []byte
}

func (t *txSpec) valid(h int64) bool {
	switch t.Mode {
	case 0:
		return true
	case 1:
		return false
	case 2:
		return t.A <= h && h < t.B
	case 3:
		return !(t.A <= h && h < t.B)
	default:
		return (h+t.A)%t.B != 0
	}
}

// txBytes: 2-byte id, then filler derived from the id (so equal ids <=> equal bytes).
func txBytes(id, n int) []byte {
	if n < 2 {
		n = 2
	}
	b := make([]byte, n)
	binary.BigEndian.PutUint16(b, uint16(id))
	for i := 2; i < n; i++ {
		b[i] = byte(id*31 + i*7)
	}
	return b
}

type universe struct {
	specs []*txSpec
	byKey map[string]*txSpec
}

func (u *universe) lookup(tx []byte) *txSpec { return u.byKey[string(tx)] }

type uniOpts struct {
	n          int
	maxLen     int  // typical upper length
	bigLens    bool // a few txs with len >= 128 (two-byte length varint) and/or > MaxTxBytes
	heightDep  bool // some txs change validity with height
	senders    bool
	fewPrios   bool
	zeroGasAll bool
}

func genUniverse(r *rand.Rand, o uniOpts) *universe {
	u := &universe{byKey: map[string]*txSpec{}}
	nprio := 2 + r.Intn(4)
	if !o.fewPrios {
		nprio = 1000
	}
	for i := 0; i < o.n; i++ {
		t := &txSpec{ID: i}
		t.Len = 2 + r.Intn(o.maxLen-1)
		if o.bigLens && r.Intn(6) == 0 {
			t.Len = 120 + r.Intn(40) // around the 127/128 varint boundary
		}
		if !o.zeroGasAll {
			switch r.Intn(4) {
			case 0:
				t.Gas = 0
			default:
				t.Gas = int64(r.Intn(12))
			}
		}
		t.Prio = int64(r.Intn(nprio))
		if o.senders && r.Intn(3) == 0 {
			t.Sender = string(rune('a' + r.Intn(3)))
		}
		if o.heightDep {
			switch r.Intn(10) {
			case 0:
				t.Mode = 1
			case 1, 2:
				t.Mode = 2
				t.A = int64(r.Intn(10))
				t.B = t.A + 1 + int64(r.Intn(8))
			case 3, 4:
				t.Mode = 3
				t.A = 1 + int64(r.Intn(14))
				t.B = t.A + 1 + int64(r.Intn(3))
			case 5, 6:
				t.Mode = 4
				t.A = int64(r.Intn(5))
				t.B = 3 + int64(r.Intn(5))
			}
		} else if r.Intn(12) == 0 {
			t.Mode = 1
		}
		t.bytes = txBytes(i, t.Len)
		t.Len = len(t.bytes)
		u.specs = append(u.specs, t)
		u.byKey[string(t.bytes)] = t
	}
	return u
}

// recheckRec is one CheckTx(Type=Recheck) call seen by the application.
type recheckRec struct {
	ID   int
	OK   bool
	Call int64 // value of the history clock when the call arrived (concurrent tier)
}

// app is the ABCI application: a pure function of (tx, height) plus call records.
type app struct {
	abci.BaseApplication
	u      *universe
	height int64 // atomic; set by the harness under the mempool lock, as BlockExecutor.Commit does

	clock *int64 // optional history clock (concurrent tier)
	gate  *gate  // optional: holds the answers back (gated stage)

	mtx           sync.Mutex
	recheckIssued map[int]int // per tx id, Recheck calls that have returned
	recheckLog    []recheckRec
	recheckDone   int64 // atomic: number of Recheck calls that have returned
	newCalls      int64 // atomic
	unknownTx     int64 // atomic
}

func newApp(u *universe, h int64) *app {
	return &app{u: u, height: h, recheckIssued: map[int]int{}}
}

func (a *app) setHeight(h int64) { atomic.StoreInt64(&a.height, h) }
func (a *app) getHeight() int64  { return atomic.LoadInt64(&a.height) }

const recheckMark = "c12-recheck"

func (a *app) CheckTx(req abci.RequestCheckTx) abci.ResponseCheckTx {
	if a.gate != nil && req.Type != abci.CheckTxType_Recheck {
		a.gate.enter(a.u.lookup(req.Tx))
	}
	spec := a.u.lookup(req.Tx)
	if spec == nil {
		atomic.AddInt64(&a.unknownTx, 1)
		return abci.ResponseCheckTx{Code: 77}
	}
	h := a.getHeight()
	ok := spec.valid(h)
	res := abci.ResponseCheckTx{GasWanted: spec.Gas, Priority: spec.Prio, Sender: spec.Sender}
	if !ok {
		res.Code = 1
	}
	if req.Type == abci.CheckTxType_Recheck {
		res.Info = recheckMark
		var now int64
		if a.clock != nil {
			now = atomic.AddInt64(a.clock, 1)
		}
		a.mtx.Lock()
		a.recheckIssued[spec.ID]++
		a.recheckLog = append(a.recheckLog, recheckRec{ID: spec.ID, OK: ok, Call: now})
		a.mtx.Unlock()
		atomic.AddInt64(&a.recheckDone, 1)
	} else {
		atomic.AddInt64(&a.newCalls, 1)
	}
	return res
}

// takeRecheckLog returns and clears the recheck records.
func (a *app) takeRecheckLog() []recheckRec {
	a.mtx.Lock()
	defer a.mtx.Unlock()
	l := a.recheckLog
	a.recheckLog = nil
	return l
}
