package c17

import (
	"bytes"
	"encoding/binary"
	"fmt"
	"io"
	"math/rand"
	"net"
	"sync"
	"sync/atomic"
	"time"

	"github.com/gogo/protobuf/proto"
	"github.com/tendermint/tendermint/libs/log"
	tmconn "github.com/tendermint/tendermint/p2p/conn"
	tmp2p "github.com/tendermint/tendermint/proto/tendermint/p2p"

	"verif/verdict"
)

// ---------------------------------------------------------------------------
// N2: capacity and hostile packets.  A raw peer writes hand-made bytes to the
// net.Conn of a real MConnection.
//
// What the statement demands (and therefore what is a violation here):
//   - a packet stream that a conforming sender would produce (canonical
//     packetisation, message length <= RecvMessageCapacity) is delivered intact;
//   - whatever else arrives: no message above capacity is delivered,
//     len(recving) never exceeds capacity, nothing is delivered on a channel that
//     does not exist, the process survives, the receive loop does not wedge.
// Whether a hostile input drops the connection or is ignored is recorded
// (the statement allows both); the expected outcome per class is "dropped".
// ---------------------------------------------------------------------------

func uvarint(x uint64) []byte {
	var b [binary.MaxVarintLen64]byte
	n := binary.PutUvarint(b[:], x)
	return append([]byte{}, b[:n]...)
}

func frame(body []byte) []byte { return append(uvarint(uint64(len(body))), body...) }

func pktMsg(ch int32, eof bool, data []byte) []byte {
	b, err := proto.Marshal(&tmp2p.Packet{Sum: &tmp2p.Packet_PacketMsg{PacketMsg: &tmp2p.PacketMsg{ChannelID: ch, EOF: eof, Data: data}}})
	if err != nil {
		panic("HARNESS-PANIC: " + err.Error())
	}
	return frame(b)
}

func pktPing() []byte {
	b, _ := proto.Marshal(&tmp2p.Packet{Sum: &tmp2p.Packet_PacketPing{PacketPing: &tmp2p.PacketPing{}}})
	return frame(b)
}

func pktPong() []byte {
	b, _ := proto.Marshal(&tmp2p.Packet{Sum: &tmp2p.Packet_PacketPong{PacketPong: &tmp2p.PacketPong{}}})
	return frame(b)
}

// canonical packetisation: what Channel.nextPacketMsg produces
func canonical(ch int32, msg []byte, p int) [][]byte {
	var out [][]byte
	for {
		if len(msg) <= p {
			out = append(out, pktMsg(ch, true, msg))
			return out
		}
		out = append(out, pktMsg(ch, false, msg[:p]))
		msg = msg[p:]
	}
}

type n2Legal struct {
	Ch        int    `json:"channel_index"`
	Len       int    `json:"len"`
	Canonical bool   `json:"canonical_packetisation"`
	Splits    []int  `json:"splits,omitempty"`
	body      []byte // not in witness (regenerated from seed)
}

type n2Case struct {
	Stream     string    `json:"stream"`
	Case       int       `json:"case"`
	Class      string    `json:"class"`
	Param      string    `json:"param"`
	Transport  string    `json:"transport"`
	Frag       int       `json:"pipe_max_read_fragment"`
	MaxPayload int       `json:"max_packet_payload"`
	Chans      []n1Chan  `json:"channels"`
	Legal      []n2Legal `json:"legal_messages_before"`
	HostileHex string    `json:"hostile_bytes_hex_prefix"`
	HostileLen int       `json:"hostile_len"`
	ExpectDrop bool      `json:"expected_outcome_is_drop"`
	MustLive   bool      `json:"connection_must_survive"`
	CloseAfter bool      `json:"raw_peer_closes_after_hostile"`
	PanicCB    bool      `json:"on_receive_callback_panics_on_marker"`
	hostile    []byte
	stream0    []byte // the interleaved legal packets
}

var n2Classes = []string{
	"legal-canonical-mix", "legal-exact-capacity", "legal-odd-packetisation", "legal-interleaved-partial",
	"over-capacity-noneof", "over-capacity-eof", "over-capacity-after-legal", "over-capacity-tiny-packets",
	"unknown-channel", "oversized-packet", "garbage-after-valid-prefix", "huge-varint-length",
	"truncated-then-close", "malformed-packet", "ping-flood", "callback-panic", "high-channel-id-full-eof-packet",
}

var panicMarker = []byte("C17-PANIC-MARKER-like-p2p/peer.go-onReceive")

func genN2(c *verdict.Ctx, idx int) *n2Case {
	r := c.Rand("n2", idx)
	cs := &n2Case{Stream: "n2", Case: idx, Class: n2Classes[idx%len(n2Classes)]}
	if r.Intn(4) == 0 {
		cs.Transport = "tcp"
	} else {
		cs.Transport = "pipe"
		cs.Frag = []int{0, 0, 1, 5, 300}[r.Intn(5)]
	}
	cs.MaxPayload = []int{1024, 1024, 1024, 100, 33, 2000}[r.Intn(6)]
	p := cs.MaxPayload
	nch := 2 + r.Intn(2)
	used := map[byte]bool{}
	for i := 0; i < nch; i++ {
		var id byte
		for {
			id = byte(r.Intn(0x80))
			if cs.Class == "high-channel-id-full-eof-packet" && i == 0 {
				id = byte(0x80 + r.Intn(0x80))
			}
			if !used[id] {
				used[id] = true
				break
			}
		}
		capc := []int{1, 64, p - 1, p, p + 1, 2 * p, 3*p + 7, 4096, 10 * p, 21 * p, 50000 + r.Intn(50000)}[r.Intn(11)]
		if capc < 1 {
			capc = 1
		}
		if i == 0 && capc < 64 {
			capc = 64 // channel 0 carries the probe
		}
		cs.Chans = append(cs.Chans, n1Chan{ID: id, Prio: 1 + r.Intn(5), SendQ: 1, RecvBuf: []int{0, 16, 4096}[r.Intn(3)], RecvCap: capc})
	}
	body := func(n int) []byte {
		b := make([]byte, n)
		r.Read(b)
		if n >= len(panicMarker) { // never collide with the marker
			b[0] = 0
		}
		return b
	}
	addLegal := func(ci, n int, canon bool) {
		if n > cs.Chans[ci].RecvCap {
			n = cs.Chans[ci].RecvCap
		}
		if n < 1 {
			n = 1
		}
		l := n2Legal{Ch: ci, Len: n, Canonical: canon, body: body(n)}
		if !canon {
			rest := n
			for rest > 0 {
				k := []int{0, 1, 2, p, p / 2, 1 + r.Intn(p)}[r.Intn(6)]
				if k > rest {
					k = rest
				}
				if k > p {
					k = p
				}
				l.Splits = append(l.Splits, k)
				rest -= k
			}
			if r.Intn(2) == 0 {
				l.Splits = append(l.Splits, 0) // final empty EOF packet
			}
		}
		cs.Legal = append(cs.Legal, l)
	}
	lens := func(ci int) int {
		capc := cs.Chans[ci].RecvCap
		return []int{1, 2, p - 1, p, p + 1, 2*p - 1, 2 * p, 2*p + 1, capc - 1, capc, capc / 2, 1 + r.Intn(3*p)}[r.Intn(12)]
	}
	bigCh := func() int { return r.Intn(nch) }
	switch cs.Class {
	case "legal-canonical-mix":
		for k := 0; k < 2+r.Intn(5); k++ {
			ci := r.Intn(nch)
			addLegal(ci, lens(ci), true)
		}
		cs.MustLive = true
	case "legal-exact-capacity":
		ci := bigCh()
		addLegal(ci, cs.Chans[ci].RecvCap, true)
		if r.Intn(2) == 0 {
			addLegal(ci, cs.Chans[ci].RecvCap, true) // twice in a row: recving must have been reset
		}
		cs.MustLive = true
	case "legal-odd-packetisation":
		for k := 0; k < 1+r.Intn(3); k++ {
			ci := r.Intn(nch)
			addLegal(ci, lens(ci), false)
		}
	case "legal-interleaved-partial":
		for k := 0; k < nch+r.Intn(3); k++ {
			ci := k % nch
			n := 2*p + 1 + r.Intn(3*p)
			addLegal(ci, n, true)
		}
		cs.MustLive = true
	case "over-capacity-noneof", "over-capacity-eof", "over-capacity-after-legal", "over-capacity-tiny-packets":
		ci := bigCh()
		capc := cs.Chans[ci].RecvCap
		k := []int{1, 1, 2, p, 5 * p}[r.Intn(5)]
		if cs.Class == "over-capacity-after-legal" {
			addLegal(ci, lens(ci), true)
		}
		data := body(capc + k)
		var out []byte
		switch cs.Class {
		case "over-capacity-eof", "over-capacity-after-legal":
			for _, pk := range canonical(int32(cs.Chans[ci].ID), data, p) {
				out = append(out, pk...)
			}
		case "over-capacity-tiny-packets":
			step := 1 + r.Intn(7)
			if capc > 5000 {
				step = p / 3
			}
			for off := 0; off < len(data); off += step {
				e := off + step
				if e > len(data) {
					e = len(data)
				}
				out = append(out, pktMsg(int32(cs.Chans[ci].ID), false, data[off:e])...)
			}
		default:
			for off := 0; off < len(data); off += p {
				e := off + p
				if e > len(data) {
					e = len(data)
				}
				out = append(out, pktMsg(int32(cs.Chans[ci].ID), false, data[off:e])...)
			}
		}
		cs.hostile = out
		cs.Param = fmt.Sprintf("channel_index=%d capacity=%d over_by=%d", ci, capc, k)
		cs.ExpectDrop = true
	case "unknown-channel":
		var id int32
		known := int32(cs.Chans[0].ID)
		switch r.Intn(8) {
		case 0:
			for {
				id = int32(r.Intn(256))
				if !used[byte(id)] {
					break
				}
			}
		case 1:
			id = 256 + known // aliases a real channel after truncation to a byte
		case 2:
			id = 256*int32(1+r.Intn(1000)) + known
		case 3:
			id = -1
		case 4:
			id = -256 + known // negative alias
		case 5:
			id = 1<<31 - 1
		case 6:
			id = -1 << 31
		default:
			id = 256
		}
		cs.hostile = pktMsg(id, r.Intn(2) == 0, body(1+r.Intn(p)))
		cs.Param = fmt.Sprintf("channel_id=%d", id)
		cs.ExpectDrop = true
	case "oversized-packet":
		n := []int{p + 8, p + 100, 2 * p, 10 * p, 70000, 1 << 20}[r.Intn(6)]
		cs.hostile = pktMsg(int32(cs.Chans[0].ID), r.Intn(2) == 0, body(n))
		cs.Param = fmt.Sprintf("data_len=%d max_payload=%d", n, p)
		cs.ExpectDrop = true
	case "garbage-after-valid-prefix":
		addLegal(0, lens(0), true)
		g := make([]byte, 1+r.Intn(300))
		r.Read(g)
		cs.hostile = g
		cs.Param = fmt.Sprintf("garbage_len=%d", len(g))
		cs.ExpectDrop = true
	case "huge-varint-length":
		var h []byte
		switch r.Intn(8) {
		case 0:
			h = uvarint(1 << 31)
		case 1:
			h = uvarint(1 << 32)
		case 2:
			h = uvarint(1<<63 - 1)
		case 3:
			h = uvarint(1 << 63)
		case 4:
			h = uvarint(^uint64(0))
		case 5:
			h = bytes.Repeat([]byte{0xff}, 10) // overflows 64 bits
		case 6:
			h = bytes.Repeat([]byte{0x80}, 11+r.Intn(50)) // over-long
		default:
			h = uvarint(uint64(3*p + r.Intn(1<<20)))
		}
		cs.Param = fmt.Sprintf("length_prefix=%x", h)
		cs.hostile = append(h, body(r.Intn(64))...)
		cs.ExpectDrop = true
	case "truncated-then-close":
		full := pktMsg(int32(cs.Chans[0].ID), true, body(1+r.Intn(p)))
		cut := 1 + r.Intn(len(full)-1)
		cs.hostile = full[:cut]
		cs.Param = fmt.Sprintf("cut_at=%d of %d", cut, len(full))
		cs.CloseAfter = true
		cs.ExpectDrop = true
	case "malformed-packet":
		ch0 := byte(cs.Chans[0].ID)
		var b []byte
		switch r.Intn(9) {
		case 0:
			b = frame(nil) // empty packet: no oneof member
			cs.Param = "empty packet"
		case 1:
			b = frame([]byte{0x22, 0x00}) // field 4, length 0: unknown oneof member
			cs.Param = "unknown field 4"
		case 2:
			b = frame([]byte{0x1a, 0x05, 0x08, ch0}) // packet_msg claims 5 bytes, only 2 present
			cs.Param = "inner length beyond outer"
		case 3:
			b = frame([]byte{0x18, 0x01}) // field 3 as varint (wrong wire type)
			cs.Param = "wrong wire type for packet_msg"
		case 4:
			inner := []byte{0x08, ch0, 0x10, 0x01, 0x18, 0x07} // data as varint
			b = frame(append([]byte{0x1a, byte(len(inner))}, inner...))
			cs.Param = "wrong wire type for data"
		case 5:
			inner := []byte{0x08, 0xff, 0xff, 0xff, 0xff, 0xff, 0xff, 0xff, 0xff, 0xff, 0x7f, 0x10, 0x01} // channel varint 2^70-ish
			b = frame(append([]byte{0x1a, byte(len(inner))}, inner...))
			cs.Param = "channel id varint overflow"
		case 6:
			inner := []byte{0x08, ch0, 0x1a, 0xff, 0xff, 0xff, 0xff, 0x0f} // data length 2^32-1
			b = frame(append([]byte{0x1a, byte(len(inner))}, inner...))
			cs.Param = "data length 2^32-1"
		case 7:
			b = frame([]byte{0x0a, 0x03, 0x01, 0x02, 0x03}) // ping with a payload of unknown fields
			cs.Param = "ping with payload"
		default:
			inner := []byte{0x08, ch0, 0x10, 0x02} // eof = 2
			b = frame(append([]byte{0x1a, byte(len(inner))}, inner...))
			cs.Param = "eof=2, no data"
		}
		cs.hostile = b
		cs.ExpectDrop = true
	case "ping-flood":
		n := 200 + r.Intn(2000)
		var out []byte
		for i := 0; i < n; i++ {
			if r.Intn(5) == 0 {
				out = append(out, pktPong()...)
			} else {
				out = append(out, pktPing()...)
			}
		}
		cs.hostile = out
		cs.Param = fmt.Sprintf("pings_and_pongs=%d", n)
	case "callback-panic":
		addLegal(0, lens(0), true)
		cs.hostile = pktMsg(int32(cs.Chans[0].ID), true, panicMarker)
		cs.PanicCB = true
		cs.ExpectDrop = true
		cs.Param = "onReceive panics as p2p/peer.go does for an undecodable message"
	case "high-channel-id-full-eof-packet":
		// what the real sender produces for messages of (about) k*MaxPayload bytes on a channel id >= 0x80:
		// the last packet, or every packet, carries a full payload.  Legal traffic: must be delivered.
		for m := 0; m < 1+r.Intn(3); m++ {
			k := 1 + r.Intn(4)
			n := k*p + []int{0, 0, 0, -1, 1}[r.Intn(5)]
			if cs.Chans[0].RecvCap < n {
				cs.Chans[0].RecvCap = n
			}
			addLegal(0, n, true)
		}
		cs.MustLive = true
		cs.Param = fmt.Sprintf("channel_id=%#x", cs.Chans[0].ID)
	}
	cs.HostileLen = len(cs.hostile)
	cs.HostileHex = verdict.Hex(cs.hostile)
	// interleave the packets of the legal messages (per-channel order kept)
	type q struct{ pk [][]byte }
	perCh := map[int][][]byte{}
	for _, l := range cs.Legal {
		id := int32(cs.Chans[l.Ch].ID)
		if l.Canonical {
			perCh[l.Ch] = append(perCh[l.Ch], canonical(id, l.body, p)...)
		} else {
			off := 0
			for i, k := range l.Splits {
				perCh[l.Ch] = append(perCh[l.Ch], pktMsg(id, i == len(l.Splits)-1, l.body[off:off+k]))
				off += k
			}
		}
	}
	for {
		var live []int
		for ci := range cs.Chans {
			if len(perCh[ci]) > 0 {
				live = append(live, ci)
			}
		}
		if len(live) == 0 {
			break
		}
		ci := live[r.Intn(len(live))]
		cs.stream0 = append(cs.stream0, perCh[ci][0]...)
		perCh[ci] = perCh[ci][1:]
	}
	return cs
}

type n2Event struct {
	ch  byte
	msg []byte
}

func runN2Case(r *rec, cs *n2Case) {
	r.Eval()
	var srv, raw net.Conn
	if cs.Transport == "tcp" {
		var err error
		srv, raw, err = tcpPair()
		if err != nil {
			r.Inconclusive("n2: tcp loopback unavailable")
			return
		}
	} else {
		a, b := newMemPipe(1<<16, cs.Frag, int64(cs.Case))
		srv, raw = a, b
	}
	defer raw.Close()
	defer srv.Close()
	var ds []*tmconn.ChannelDescriptor
	for _, ch := range cs.Chans {
		ds = append(ds, &tmconn.ChannelDescriptor{ID: ch.ID, Priority: ch.Prio, SendQueueCapacity: ch.SendQ, RecvBufferCapacity: ch.RecvBuf, RecvMessageCapacity: ch.RecvCap})
	}
	mcfg := tmconn.DefaultMConnConfig()
	mcfg.SendRate, mcfg.RecvRate = 1<<40, 1<<40
	mcfg.MaxPacketMsgPayloadSize = cs.MaxPayload
	mcfg.FlushThrottle = time.Millisecond
	events := make(chan n2Event, 4096)
	errCh := make(chan string, 1)
	onRecv := func(ch byte, msg []byte) {
		cp := append([]byte{}, msg...)
		select {
		case events <- n2Event{ch, cp}:
		default:
		}
		if cs.PanicCB && bytes.Equal(cp, panicMarker) {
			panic(fmt.Errorf("unmarshaling message: simulated decode failure in the peer's onReceive"))
		}
	}
	onErr := func(e interface{}) {
		select {
		case errCh <- fmt.Sprint(e):
		default:
		}
	}
	hookOverMu.Lock()
	over0 := len(hookOver)
	hookOverMu.Unlock()
	mc := tmconn.NewMConnectionWithConfig(srv, ds, onRecv, onErr, mcfg)
	mc.SetLogger(log.NewNopLogger())
	if err := mc.Start(); err != nil {
		r.HarnessError("n2: start: %v", err)
		return
	}
	defer mc.Stop() //nolint:errcheck
	// the raw peer discards whatever the connection sends (pongs)
	go func() { _, _ = io.Copy(io.Discard, raw) }()
	var wmu sync.Mutex
	var wedgedWrite int32
	write := func(b []byte) {
		if len(b) == 0 {
			return
		}
		done := make(chan struct{})
		go func() {
			wmu.Lock()
			_, _ = raw.Write(b)
			wmu.Unlock()
			close(done)
		}()
		select {
		case <-done:
		case <-time.After(15 * time.Second):
			atomic.StoreInt32(&wedgedWrite, 1)
		}
	}
	wit := func(extra map[string]interface{}) map[string]interface{} {
		w := map[string]interface{}{"case": cs}
		for k, v := range extra {
			w[k] = v
		}
		return w
	}
	var delivered []n2Event
	knownCh := func(id byte) (int, bool) {
		for i, ch := range cs.Chans {
			if ch.ID == id {
				return i, true
			}
		}
		return -1, false
	}
	generic := func(ev n2Event) {
		ci, ok := knownCh(ev.ch)
		if !ok {
			r.Violation("mconn-delivered-on-unknown-channel", "onReceive was called for a channel id that is not configured", wit(map[string]interface{}{"channel": ev.ch, "len": len(ev.msg)}))
			return
		}
		if len(ev.msg) > cs.Chans[ci].RecvCap {
			r.Violation("mconn-delivered-above-capacity", "a message longer than the channel's RecvMessageCapacity was delivered", wit(map[string]interface{}{"channel": ev.ch, "len": len(ev.msg), "capacity": cs.Chans[ci].RecvCap}))
		}
	}

	// ---- phase 1: the legal prefix must be delivered, intact, in per-channel order
	write(cs.stream0)
	want := map[byte][][]byte{}
	canon := map[byte]bool{}
	nwant := 0
	for _, l := range cs.Legal {
		id := cs.Chans[l.Ch].ID
		want[id] = append(want[id], l.body)
		if l.Canonical {
			canon[id] = true
		}
		nwant++
	}
	allCanon := true
	for _, l := range cs.Legal {
		if !l.Canonical {
			allCanon = false
		}
	}
	droppedEarly := ""
	deadline := time.After(20 * time.Second)
	for got := 0; got < nwant && droppedEarly == ""; {
		select {
		case ev := <-events:
			delivered = append(delivered, ev)
			generic(ev)
			exp := want[ev.ch]
			if len(exp) == 0 || !bytes.Equal(exp[0], ev.msg) {
				key := "mconn-legal-stream-delivered-modified"
				what := "a well-formed packet stream was delivered as something other than the concatenation of its packets up to EOF"
				r.Violation(key, what, wit(map[string]interface{}{"channel": ev.ch, "got": verdict.Hex(ev.msg), "got_len": len(ev.msg), "expected_len": func() int {
					if len(exp) > 0 {
						return len(exp[0])
					}
					return -1
				}()}))
				return
			}
			want[ev.ch] = exp[1:]
			got++
		case e := <-errCh:
			droppedEarly = e
		case <-deadline:
			if allCanon {
				r.Violation("mconn-legal-input-not-delivered", "messages in canonical packetisation within capacity were not delivered within 20 s and the connection reported no error", wit(nil))
			} else {
				r.Count("n2.odd_packetisation_not_delivered", 1)
			}
			return
		}
	}
	if droppedEarly != "" {
		if kind := classifyConnErr(droppedEarly); allCanon && (kind == "packet_exceeds_max_size" || kind == "message_exceeds_capacity") {
			r.Count("n2.outcome."+cs.Class+".dropped", 1)
			r.Violation("mconn-conforming-traffic-rejected:"+kind, "the connection rejected a packet stream exactly as a conforming sender (Channel.nextPacketMsg) produces it, every message within RecvMessageCapacity: "+droppedEarly,
				wit(map[string]interface{}{"error": droppedEarly}))
		} else if allCanon {
			r.Violation("mconn-legal-input-dropped-connection", "the connection failed on a packet stream that a conforming sender produces: "+droppedEarly, wit(map[string]interface{}{"error": droppedEarly}))
		} else {
			r.Count("n2.odd_packetisation_dropped_connection", 1)
		}
		return
	}
	r.Count("n2.legal_messages_delivered_intact", int64(nwant))

	// ---- phase 2: hostile bytes, then a probe
	outcome := "survived"
	errStr := ""
	probe := append([]byte("probe-"), byte(cs.Case), byte(cs.Case>>8), 0x55)
	probeSeen := false
	modified := false
	if len(cs.hostile) > 0 {
		write(cs.hostile)
	}
	if cs.CloseAfter {
		if mp, ok := raw.(*memConn); ok {
			mp.CloseWrite()
		} else if tc, ok := raw.(*net.TCPConn); ok {
			_ = tc.CloseWrite()
		}
	} else {
		write(pktMsg(int32(cs.Chans[0].ID), true, probe))
	}
	waitFor := func(d time.Duration) bool { // true = decided
		t := time.After(d)
		for {
			select {
			case ev := <-events:
				delivered = append(delivered, ev)
				generic(ev)
				if bytes.Equal(ev.msg, probe) && ev.ch == cs.Chans[0].ID {
					probeSeen = true
					return true
				}
				if len(cs.hostile) == 0 {
					// only the probe was sent: whatever else arrives is a corrupted delivery
					r.Violation("mconn-legal-stream-delivered-modified", "after legal traffic a legal probe message was delivered as something else",
						wit(map[string]interface{}{"channel": ev.ch, "got": verdict.Hex(ev.msg), "got_len": len(ev.msg), "expected": verdict.Hex(probe)}))
					modified = true
					return true
				}
			case e := <-errCh:
				outcome, errStr = "dropped", e
				return true
			case <-t:
				return false
			}
		}
	}
	first := 500 * time.Millisecond
	if cs.MustLive || len(cs.hostile) == 0 {
		first = 20 * time.Second
	}
	decided := waitFor(first)
	if modified {
		return
	}
	if !decided {
		if cs.MustLive || len(cs.hostile) == 0 {
			r.Violation("mconn-legal-input-not-delivered", "a legal probe message after legal traffic was not delivered within 20 s and the connection reported no error", wit(nil))
			return
		}
		// undecided: terminate whatever partial packet is pending with bytes that cannot be a valid packet
		outcome = "undecided"
		if !cs.CloseAfter {
			write(make([]byte, 4*cs.MaxPayload+64))
		}
		if !waitFor(10 * time.Second) {
			raw.Close()
			if !waitFor(10 * time.Second) {
				r.Violation("mconn-recv-wedged-after-hostile-input", "after hostile bytes the connection neither delivered, nor failed, not even after the peer closed", wit(map[string]interface{}{"write_blocked": atomic.LoadInt32(&wedgedWrite) == 1}))
				return
			}
		}
		if outcome == "dropped" {
			outcome = "dropped-after-terminator"
		}
	}
	if probeSeen {
		outcome = "survived"
	}
	_ = errStr
	// anything delivered out of the hostile bytes was already checked by generic();
	// the hook tells whether the receive buffer ever exceeded capacity
	hookOverMu.Lock()
	if len(hookOver) > over0 {
		r.Violation("mconn-recving-exceeds-capacity", "len(ch.recving) exceeded the channel's RecvMessageCapacity: "+hookOver[len(hookOver)-1], wit(nil))
	}
	hookOverMu.Unlock()
	if cs.MustLive && outcome != "survived" {
		r.Violation("mconn-legal-input-dropped-connection", "the connection failed on legal traffic: "+errStr, wit(map[string]interface{}{"error": errStr}))
	}
	if cs.PanicCB && outcome == "survived" {
		// the callback panicked inside recvRoutine; a connection that carries on has lost its receive loop
		r.Count("n2.callback_panic_survived", 1)
	}
	r.Count("n2.outcome."+cs.Class+"."+outcome, 1)
	if errStr != "" {
		r.Count("n2.error_kind."+classifyConnErr(errStr), 1)
	}
	if cs.ExpectDrop && outcome == "survived" {
		r.Count("n2.expected_drop_but_survived."+cs.Class, 1)
	}
	r.Distinct("n2", cs.Class, cs.Param, cs.MaxPayload, len(cs.Legal), cs.Chans[0].RecvCap, cs.Transport, cs.HostileLen)
	if cs.Case%97 == 5 {
		r.Sample(map[string]interface{}{"stage": "n2", "case": cs, "outcome": outcome, "error": errStr})
	}
}

func stageN2(c *verdict.Ctx, r *rec) {
	installRecvingHook()
	n := c.N(306, 3400)
	rnd := rand.New(rand.NewSource(1))
	_ = rnd
	for i := 0; i < n; i++ {
		runN2Case(r, genN2(c, i))
	}
	r.Count("n2.recving_hook_hits", atomic.LoadInt64(&hookHits))
	r.Max("n2.max_recving_permille_of_capacity", atomic.LoadInt64(&hookMaxRatio))
}
