package c17

import (
	"encoding/json"
	"fmt"
	"math"
	"os"
	"path/filepath"
	"strconv"
	"strings"
	"sync"
	"time"

	"github.com/gogo/protobuf/proto"

	bcproto "github.com/tendermint/tendermint/proto/tendermint/blockchain"
	protomem "github.com/tendermint/tendermint/proto/tendermint/mempool"
	ssproto "github.com/tendermint/tendermint/proto/tendermint/statesync"
	tmproto "github.com/tendermint/tendermint/proto/tendermint/types"
	"github.com/tendermint/tendermint/types"

	"verif/verdict"
)

// ---------------------------------------------------------------------------
// N3-volume: VOLUME of well-formed messages on the non-consensus channels of a
// node that has run consensus from its start (its block-sync pool, state-sync
// syncer etc. were never started): more than a thousand unsolicited
// BlockResponses for heights far from the node's, StatusResponses,
// NoBlockResponses, BlockRequests, transactions, chunk requests.
//
// Events that decide:
//   - every Receive call the volume caused has returned (wrapReactor), or the node dropped the peer;
//   - the hostile peer can be removed: after its connection is closed both switches forget it;
//   - a message of a second, honest peer on the same channel is consumed (its Receive returns);
//   - the family's probes, including two more committed heights.
// A Receive that stays in flight / a peer that stays in the node's peer set after generous
// watchdogs is a candidate; the child reports it (exit 92) and the parent executes the same
// case in a fresh process: only a repeated candidate is a violation, a single one is inconclusive.
// ---------------------------------------------------------------------------

type volCase struct {
	Stream  string `json:"stream"`
	Case    int    `json:"case"`
	Kind    string `json:"kind"`
	Count   int    `json:"messages"`
	Confirm bool   `json:"second_execution"`
}

var volKinds = []string{"blockchain-BlockResponse-far-heights", "blockchain-StatusResponse+NoBlockResponse", "blockchain-BlockRequest",
	"blockchain-BlockResponse-far-heights", "mempool-Txs", "statesync-ChunkRequest+SnapshotsRequest"}

func genVol(c *verdict.Ctx, idx int) volCase {
	r := c.Rand("n3volume", idx)
	return volCase{Stream: "n3volume", Case: idx, Kind: volKinds[idx%len(volKinds)], Count: 1100 + r.Intn(c.N(300, 1500))}
}

// volMessages builds the case's messages (channel, bytes).
func volMessages(c *verdict.Ctx, n *n3Node, vc volCase) ([]wireMsg, error) {
	r := c.Rand("n3volume-msgs", vc.Case)
	var out []wireMsg
	H := n.store.Height()
	switch vc.Kind {
	case "blockchain-BlockResponse-far-heights":
		blk := n.store.LoadBlock(H)
		if blk == nil {
			return nil, fmt.Errorf("no block at %d", H)
		}
		pb, err := blk.ToProto()
		if err != nil {
			return nil, err
		}
		for i := 0; i < vc.Count; i++ {
			cp := proto.Clone(pb).(*tmproto.Block)
			// unsolicited, genuine-looking blocks for heights far above and (as far as there is room) below the node's
			cp.Header.Height = pick64(r, H+101+int64(r.Intn(1000)), H+1000000, 1<<40, math.MaxInt64-int64(r.Intn(1000)), H+150)
			if H > 300 && r.Intn(3) == 0 {
				cp.Header.Height = 1 + int64(r.Intn(int(H-200)))
			}
			if _, err := types.BlockFromProto(cp); err != nil {
				return nil, fmt.Errorf("harness cannot build a well-formed far block: %v", err)
			}
			out = append(out, wm(chBlockchan, fmt.Sprintf("BlockResponse h=%d (node at %d)", cp.Header.Height, H), &bcproto.BlockResponse{Block: cp}))
		}
	case "blockchain-StatusResponse+NoBlockResponse":
		for i := 0; i < vc.Count; i++ {
			h := pick64(r, H+int64(r.Intn(1000)), 1<<40, math.MaxInt64, 1, H)
			out = append(out, wm(chBlockchan, fmt.Sprintf("StatusResponse h=%d base=1", h), &bcproto.StatusResponse{Height: h, Base: 1}))
			out = append(out, wm(chBlockchan, fmt.Sprintf("NoBlockResponse h=%d", h), &bcproto.NoBlockResponse{Height: h}))
		}
	case "blockchain-BlockRequest":
		for i := 0; i < vc.Count; i++ {
			h := pick64(r, 1+int64(r.Intn(int(H))), H, H+1, H+1000, math.MaxInt64, 0)
			out = append(out, wm(chBlockchan, fmt.Sprintf("BlockRequest h=%d", h), &bcproto.BlockRequest{Height: h}))
		}
	case "mempool-Txs":
		for i := 0; i < vc.Count; i++ {
			out = append(out, wm(chMempool, "Txs n=1", &protomem.Txs{Txs: [][]byte{[]byte(fmt.Sprintf("vol-%d-%d=%d", vc.Case, i, r.Int63()))}}))
		}
	default:
		for i := 0; i < vc.Count; i++ {
			if i%2 == 0 {
				out = append(out, wm(chChunk, "ChunkRequest", &ssproto.ChunkRequest{Height: uint64(1 + r.Intn(3)), Format: 1, Index: uint32(r.Intn(4))}))
			} else {
				out = append(out, wm(chSnapshot, "SnapshotsRequest", &ssproto.SnapshotsRequest{}))
			}
		}
	}
	return out, nil
}

func stageN3Volume(c *verdict.Ctx, r *rec, arg string) {
	memoryGuard(6 << 30)
	dir := os.Getenv("VERIF_C17_DIR")
	if dir == "" {
		dir = verdict.TmpDir("c17n3v-")
		defer os.RemoveAll(dir)
	}
	tag := sanitizeName(arg)
	logF, err := os.Create(filepath.Join(dir, "n3volume-"+tag+".inputs"))
	if err != nil {
		r.HarnessError("n3volume: %v", err)
		return
	}
	defer logF.Close()
	n := newN3NodeOpts(filepath.Join(dir, "node-n3volume-"+tag), nodeOpts{gossipSleep: n3GossipSleep, timeoutCommit: 10 * time.Millisecond, skipTimeoutCommit: true})
	ch := &n3Child{c: c, r: r, n: n, logF: logF}
	if got, err := n.advance(3, 60*time.Second); err != nil {
		r.HarnessError("n3volume: the node under test did not commit its first heights (%d of 3): %v", got, err)
		return
	}
	hostileID := n.hostile.NodeInfo().ID()
	honestID := n.honest.NodeInfo().ID()
	for _, f := range strings.Split(arg, ",") {
		confirm := strings.HasSuffix(f, ":confirm")
		idx, err := strconv.Atoi(strings.TrimSuffix(f, ":confirm"))
		if err != nil {
			continue
		}
		vc := genVol(c, idx)
		vc.Confirm = confirm
		r.Eval()
		msgs, err := volMessages(c, n, vc)
		if err != nil {
			r.HarnessError("n3volume: %v", err)
			return
		}
		b, _ := json.Marshal(map[string]interface{}{"stream": "n3volume", "case": vc, "first_message_hex": hexCap(msgs[0].B, 300), "first_message": msgs[0].Note})
		_, _ = logF.Write(append(b, '\n'))
		p, _, err := n.peerOf(n.hostile)
		if err != nil {
			r.HarnessError("n3volume: hostile peer cannot connect: %v", err)
			return
		}
		reactor := chanReactor(msgs[0].Ch)
		base := map[string]int64{}
		for name, w := range n.wraps {
			base[name] = w.doneFor(hostileID)
		}
		sentTo := map[string]int64{}
		accepted, timeouts := 0, 0
		for _, m := range msgs {
			if !p.Send(m.Ch, m.B) {
				if !p.IsRunning() {
					break // dropped: allowed
				}
				if timeouts++; timeouts >= 2 {
					break // the node has not read anything for 20 s
				}
				continue
			}
			timeouts = 0
			accepted++
			sentTo[chanReactor(m.Ch)]++
		}
		r.Count("n3volume.cases", 1)
		r.Count("n3volume.messages_accepted_for_sending."+reactor, int64(accepted))
		det := map[string]interface{}{"accepted_for_sending": accepted}
		wit := func() map[string]interface{} {
			det["goroutines"] = goroutineDump()
			return map[string]interface{}{"stream": "n3volume", "case": vc, "observation": det}
		}
		candidate := func(class string) {
			r.Set("n3volume.candidate", map[string]interface{}{"class": class, "witness": wit()})
			r.Count("n3volume.candidates", 1)
			r.flush()
			os.Exit(92)
		}
		// (1) every Receive call of the volume returns, or the node dropped the peer
		drained := func() bool {
			if !n.nodeHasPeer(n.hostile) {
				return true
			}
			for name, k := range sentTo {
				w := n.wraps[name]
				if w.inFlight() != 0 || w.doneFor(hostileID)-base[name] < k {
					return false
				}
			}
			return true
		}
		if !waitUntil(60*time.Second, drained) {
			// still moving?  a Receive that neither returns nor lets another one in for 30 s is stuck
			d0 := map[string]int64{}
			for name := range sentTo {
				d0[name] = n.wraps[name].doneFor(hostileID)
			}
			if !waitUntil(30*time.Second, func() bool {
				if drained() {
					return true
				}
				for name := range sentTo {
					if n.wraps[name].doneFor(hostileID) != d0[name] {
						d0[name] = n.wraps[name].doneFor(hostileID)
					}
				}
				return false
			}) {
				moved := false
				for name := range sentTo {
					w := n.wraps[name]
					det["receive_calls_in_flight."+name] = w.inFlight()
					det["receive_calls_completed."+name] = w.doneFor(hostileID) - base[name]
					if w.inFlight() == 0 {
						moved = true
					}
				}
				if !moved {
					candidate("receive-never-returns")
				}
				r.Inconclusive("n3volume: the volume was not worked off within 90 s although no Receive call is stuck")
				return
			}
		}
		r.Count("n3volume.volume_worked_off", 1)
		dropped := !n.nodeHasPeer(n.hostile)
		if dropped {
			r.Count("n3volume.hostile_peer_dropped_by_node", 1)
		}
		// (2) the hostile peer can be removed
		if !dropped {
			if !n.disconnectWithin(n.hostile, 45*time.Second) {
				det["node_still_lists_hostile_peer"] = n.nodeHasPeer(n.hostile)
				candidate("peer-cannot-be-removed")
			}
		}
		r.Count("n3volume.probe_ok.hostile-peer-removed", 1)
		// (3) a second, honest peer's message on the same channel is consumed
		hp, _, err := n.peerOf(n.honest)
		if err != nil {
			det["honest_connect_error"] = err.Error()
			candidate("honest-peer-cannot-connect")
		}
		w := n.wraps["blockchain"]
		b0 := w.doneFor(honestID)
		hp.Send(chBlockchan, mustMarshal((&bcproto.StatusResponse{Height: n.store.Height(), Base: 1}).Wrap()))
		if !waitUntil(45*time.Second, func() bool { return w.doneFor(honestID) > b0 }) {
			det["blockchain_receive_calls_in_flight"] = w.inFlight()
			candidate("honest-blockchain-message-not-consumed")
		}
		r.Count("n3volume.probe_ok.honest-blockchain-message-consumed", 1)
		// (4) the family's probes: all reactors answer, two more heights
		v0 := len(r.Violations)
		ch.recent = []*n3Input{{Stream: "n3volume", Batch: idx, Reactor: reactor, State: "fresh", Class: "volume:" + vc.Kind, Seq: []wireMsg{{Note: fmt.Sprintf("%d x %s", accepted, msgs[0].Note)}}}}
		ch.probes(1000 + idx)
		ch.checkConsensus("n3volume", idx)
		if len(r.Violations) == v0 {
			r.Distinct("n3volume", vc.Case, vc.Kind, vc.Count)
			r.Count("n3volume.cases_all_probes_ok", 1)
		}
		r.flush()
	}
	n.stop()
}

// runN3volume is the parent side (same two-execution rule as the flood family).
func runN3volume(c *verdict.Ctx, dir string, mu *sync.Mutex) {
	ncase := c.N(6, 18)
	var todo []string
	for i := 0; i < ncase; i++ {
		todo = append(todo, strconv.Itoa(i))
	}
	t0 := time.Now()
	var first map[string]interface{}
	for attempt := 0; len(todo) > 0 && attempt < 8; attempt++ {
		arg := strings.Join(todo, ",")
		res := spawn(c, dir, "n3volume", arg, false, 12*time.Minute)
		mu.Lock()
		cand, _ := res.rec.Sets["n3volume.candidate"].(map[string]interface{})
		delete(res.rec.Sets, "n3volume.candidate")
		res.rec.apply(c, "")
		mu.Unlock()
		if !res.crashed {
			break
		}
		if res.exit == 91 {
			break // consensus failure: recorded by the child
		}
		if res.exit != 92 || cand == nil {
			mu.Lock()
			reportCrash(c, "n3volume", res, map[string]interface{}{"stream": "n3volume", "cases": arg})
			mu.Unlock()
			break
		}
		caseIdx := -1
		if w, ok := cand["witness"].(map[string]interface{}); ok {
			if cs, ok := w["case"].(map[string]interface{}); ok {
				if v, ok := cs["case"].(float64); ok {
					caseIdx = int(v)
				}
			}
		}
		wasConfirm := strings.HasSuffix(todo[0], ":confirm") && strings.HasPrefix(todo[0], strconv.Itoa(caseIdx)+":")
		var rest []string
		found := false
		for _, f := range todo {
			id, _ := strconv.Atoi(strings.TrimSuffix(f, ":confirm"))
			if found {
				rest = append(rest, f)
			} else if id == caseIdx {
				found = true
			}
		}
		class, _ := cand["class"].(string)
		if wasConfirm {
			key, what := "node-wedged-by-message-volume:"+class, ""
			switch class {
			case "receive-never-returns":
				what = "a volume of well-formed messages on a non-consensus channel left a Receive call of the reactor blocked for good (the peer is neither dropped nor read any more)"
			case "peer-cannot-be-removed":
				key, what = "peer-cannot-be-removed-after-message-volume", "after a volume of well-formed messages the hostile peer's connection was closed, yet the node never removes the peer (Switch.stopAndRemovePeer / a reactor's RemovePeer does not return)"
			case "honest-peer-cannot-connect":
				what = "after a volume of well-formed messages from one peer an honest peer can no longer (re)connect to the node"
			default:
				what = "after a volume of well-formed messages from one peer, a message of another, honest peer on the same channel is never consumed (its Receive does not return)"
			}
			mu.Lock()
			c.Violation(key, what+"; reproduced in a fresh process", map[string]interface{}{"stream": "n3volume", "first_execution": first, "second_execution": cand})
			c.Count("n3volume.cases_not_run_after_confirmed_violation", int64(len(rest)))
			mu.Unlock()
			todo = nil
		} else {
			first = cand
			todo = append([]string{fmt.Sprintf("%d:confirm", caseIdx)}, rest...)
		}
	}
	mu.Lock()
	if first != nil && c.Counter("n3volume.candidates") == 1 {
		c.Inconclusive("n3volume: a candidate was not reproduced in a fresh process")
		b, _ := json.Marshal(first)
		if len(b) > 20000 {
			b = b[:20000]
		}
		c.Set("n3volume.unreproduced_candidate", string(b))
	}
	c.Set("n3volume.wall_s", time.Since(t0).Seconds())
	mu.Unlock()
}
