package c17

import (
	"bytes"
	"encoding/binary"
	"fmt"
	"math/rand"
	"net"
	"os"
	"runtime"
	"strings"
	"sync"
	"sync/atomic"
	"time"

	"github.com/tendermint/tendermint/libs/log"
	"github.com/tendermint/tendermint/libs/verifhook"
	tmconn "github.com/tendermint/tendermint/p2p/conn"

	"verif/verdict"
)

// ---------------------------------------------------------------------------
// N1: delivery.  Two real MConnections, several channels, several senders per
// side.  Reference model: per (direction, channel) the multiset-with-order of
// messages for which Send/TrySend returned true; the receiver must see exactly
// the merge of the per-sender sequences.
// ---------------------------------------------------------------------------

type n1Chan struct {
	ID      byte `json:"id"`
	Prio    int  `json:"priority"`
	SendQ   int  `json:"send_queue_capacity"`
	RecvBuf int  `json:"recv_buffer_capacity"`
	RecvCap int  `json:"recv_message_capacity"`
}

type n1Sender struct {
	Side int   `json:"side"`
	Ch   int   `json:"channel_index"`
	Try  bool  `json:"try_send"`
	Lens []int `json:"lengths"`
	Solo bool  `json:"only_sender_on_channel"`
}

type n1Cfg struct {
	Stream     string     `json:"stream"`
	Case       int        `json:"case"`
	CaseSeed   int64      `json:"case_seed"`
	Transport  string     `json:"transport"`
	PipeBuf    int        `json:"pipe_buffer"`
	Frag       int        `json:"pipe_max_read_fragment"`
	Chans      []n1Chan   `json:"channels"`
	SendRate   int64      `json:"send_rate"`
	RecvRate   int64      `json:"recv_rate"`
	MaxPayload int        `json:"max_packet_payload"`
	FlushMs    int        `json:"flush_throttle_ms"`
	PingMs     int        `json:"ping_interval_ms"`
	PongMs     int        `json:"pong_timeout_ms"`
	SlowRecvUs [2]int     `json:"slow_on_receive_max_us"`
	Senders    []n1Sender `json:"senders"`
	ZeroLen    bool       `json:"has_zero_length_messages"`
	HighIDs    bool       `json:"has_channel_ids_from_0x80"`
}

const n1Magic = 0xC1
const n1Hdr = 16

// n1Msg builds message (side, ch, sender, seq) of length n.  Messages of at
// least n1Hdr bytes carry their identity; shorter ones are pure PRNG bytes.
func n1Msg(seed int64, side, ch, sender, seq, n int) []byte {
	b := make([]byte, n)
	x := uint64(seed) ^ uint64(side+1)*0x9E3779B97F4A7C15 ^ uint64(ch+1)*0xC2B2AE3D27D4EB4F ^ uint64(sender+1)*0x165667B19E3779F9 ^ uint64(seq+1)*0x27D4EB2F165667C5
	if x == 0 {
		x = 1
	}
	for i := range b {
		x ^= x << 13
		x ^= x >> 7
		x ^= x << 17
		b[i] = byte(x >> 24)
	}
	if n >= n1Hdr {
		b[0] = n1Magic
		b[1] = byte(side)
		b[2] = byte(ch)
		b[3] = byte(sender)
		binary.BigEndian.PutUint32(b[4:8], uint32(seq))
		binary.BigEndian.PutUint32(b[8:12], uint32(n))
		binary.BigEndian.PutUint32(b[12:16], uint32(seed))
	}
	return b
}

func genN1(c *verdict.Ctx, idx int) n1Cfg {
	r := c.Rand("n1", idx)
	cfg := n1Cfg{Stream: "n1", Case: idx, CaseSeed: c.SubSeed("n1", idx)}
	if r.Intn(10) < 3 {
		cfg.Transport = "tcp"
	} else {
		cfg.Transport = "pipe"
		cfg.PipeBuf = []int{64, 1024, 4096, 65536, 1 << 20}[r.Intn(5)]
		cfg.Frag = []int{0, 0, 1, 7, 100, 1500}[r.Intn(6)]
	}
	cfg.MaxPayload = []int{1024, 1024, 1024, 1024, 1024, 1024, 100, 17, 4096, 1}[r.Intn(10)]
	nch := 3 + r.Intn(3)
	used := map[byte]bool{}
	// a quarter of the runs use channel ids >= 0x80 (two-byte varint on the wire) on some channels
	cfg.HighIDs = r.Intn(6) == 0
	for i := 0; i < nch; i++ {
		var id byte
		for {
			id = byte(r.Intn(0x80))
			if cfg.HighIDs && (i == 0 || r.Intn(2) == 0) {
				id = []byte{0x80, 0xC0, 0xFF, byte(0x80 + r.Intn(0x80))}[r.Intn(4)]
			}
			if !used[id] {
				used[id] = true
				break
			}
		}
		capc := []int{64, 1000, 1024, 2048, 4096, 20000, 100000}[r.Intn(7)]
		cfg.Chans = append(cfg.Chans, n1Chan{ID: id, Prio: 1 + r.Intn(10), SendQ: []int{1, 1, 2, 5, 50}[r.Intn(5)],
			RecvBuf: []int{0, 0, 16, 100000}[r.Intn(4)], RecvCap: capc})
	}
	budget := 300_000
	switch r.Intn(5) {
	case 0:
		cfg.SendRate, cfg.RecvRate = 512000, 512000
		budget = 100_000
	case 1:
		cfg.SendRate, cfg.RecvRate = 5_120_000, 512000*4
		budget = 200_000
	case 2:
		cfg.SendRate, cfg.RecvRate = 1<<40, 5_120_000
	default:
		cfg.SendRate, cfg.RecvRate = 1<<40, 1<<40
	}
	if b := cfg.MaxPayload * 300; b < budget {
		budget = b
	}
	cfg.FlushMs = []int{100, 100, 10, 1}[r.Intn(4)]
	cfg.PingMs, cfg.PongMs = 60000, 45000
	slowOK := true
	if cfg.SendRate == 1<<40 && cfg.RecvRate == 1<<40 && r.Intn(3) == 0 {
		cfg.PingMs, cfg.PongMs = 40, 30
		slowOK = false
	}
	for s := 0; s < 2; s++ {
		if slowOK && r.Intn(3) == 0 {
			cfg.SlowRecvUs[s] = []int{50, 500, 2000}[r.Intn(3)]
		}
	}
	zero := r.Intn(3) == 0 // a third of the runs contain zero-length messages
	for side := 0; side < 2; side++ {
		ns := 2 + r.Intn(7)
		// channel 0 of each side always has exactly one sender (channel-order oracle)
		perCh := make([]int, nch)
		chOf := make([]int, ns)
		chOf[0] = 0
		perCh[0] = 1
		for i := 1; i < ns; i++ {
			chOf[i] = 1 + r.Intn(nch-1)
			perCh[chOf[i]]++
		}
		for i := 0; i < ns; i++ {
			ch := cfg.Chans[chOf[i]]
			sd := n1Sender{Side: side, Ch: chOf[i], Try: r.Intn(3) == 0, Solo: perCh[chOf[i]] == 1}
			b := budget / ns
			nmsg := 5 + r.Intn(36)
			p := cfg.MaxPayload
			cands := []int{16, 17, 100, 1023, 1024, 1025, 2047, 2048, 2049, 3000, 4096, 10000,
				p - 1, p, p + 1, 2*p - 1, 2 * p, 2*p + 1, 3 * p, 10 * p, ch.RecvCap - 1, ch.RecvCap, ch.RecvCap / 2, 16 + r.Intn(64)}
			if cfg.HighIDs {
				// messages whose last packet (or every packet) carries a full payload
				cands = append(cands, p, p, 2*p, 2*p, 3*p, 4*p)
			}
			if sd.Solo {
				cands = append(cands, 1, 2, 15, 1, 3)
				if zero {
					cands = append(cands, 0, 0, 0)
				}
			}
			for k := 0; k < nmsg && b > 0; k++ {
				l := cands[r.Intn(len(cands))]
				if l > ch.RecvCap {
					l = ch.RecvCap
				}
				if l < 0 || (!sd.Solo && l < n1Hdr) {
					l = n1Hdr
				}
				if !zero && l == 0 {
					l = 1
				}
				if l > b {
					l = b
					if l < n1Hdr {
						l = n1Hdr
					}
				}
				if l == 0 {
					cfg.ZeroLen = true
				}
				sd.Lens = append(sd.Lens, l)
				b -= l
			}
			// the tail message always identifies itself
			tl := n1Hdr + r.Intn(48)
			if tl > ch.RecvCap {
				tl = ch.RecvCap
			}
			sd.Lens = append(sd.Lens, tl)
			cfg.Senders = append(cfg.Senders, sd)
		}
	}
	return cfg
}

type n1Side struct {
	mc      *tmconn.MConnection
	mu      sync.Mutex
	recv    map[byte][][]byte // copies, in arrival order, per channel id
	nrecv   int64
	errV    atomic.Value // first onError value as string
	errored int32
	slowUs  int
	rng     *rand.Rand
	rngMu   sync.Mutex
}

type acc struct {
	seq, n int
}

func (cfg *n1Cfg) descs() []*tmconn.ChannelDescriptor {
	var ds []*tmconn.ChannelDescriptor
	for _, ch := range cfg.Chans {
		ds = append(ds, &tmconn.ChannelDescriptor{ID: ch.ID, Priority: ch.Prio, SendQueueCapacity: ch.SendQ,
			RecvBufferCapacity: ch.RecvBuf, RecvMessageCapacity: ch.RecvCap})
	}
	return ds
}

func (cfg *n1Cfg) mconf() tmconn.MConnConfig {
	mc := tmconn.DefaultMConnConfig()
	mc.SendRate, mc.RecvRate = cfg.SendRate, cfg.RecvRate
	mc.MaxPacketMsgPayloadSize = cfg.MaxPayload
	mc.FlushThrottle = time.Duration(cfg.FlushMs) * time.Millisecond
	mc.PingInterval = time.Duration(cfg.PingMs) * time.Millisecond
	mc.PongTimeout = time.Duration(cfg.PongMs) * time.Millisecond
	return mc
}

// runN1Case executes one run and applies the oracle.
func runN1Case(r *rec, cfg n1Cfg) {
	r.Eval()
	var ca, cb net.Conn
	if cfg.Transport == "tcp" {
		var err error
		ca, cb, err = tcpPair()
		if err != nil {
			r.Inconclusive("n1: tcp loopback unavailable")
			return
		}
	} else {
		a, b := newMemPipe(cfg.PipeBuf, cfg.Frag, cfg.CaseSeed)
		ca, cb = a, b
	}
	sides := [2]*n1Side{}
	var shutting int32
	for s := 0; s < 2; s++ {
		sd := &n1Side{recv: map[byte][][]byte{}, slowUs: cfg.SlowRecvUs[s], rng: rand.New(rand.NewSource(cfg.CaseSeed + int64(s)))}
		conn := ca
		if s == 1 {
			conn = cb
		}
		onRecv := func(chID byte, msg []byte) {
			cp := make([]byte, len(msg))
			copy(cp, msg) // the buffer is reused by the connection
			sd.mu.Lock()
			sd.recv[chID] = append(sd.recv[chID], cp)
			sd.mu.Unlock()
			atomic.AddInt64(&sd.nrecv, 1)
			if sd.slowUs > 0 {
				sd.rngMu.Lock()
				d := sd.rng.Intn(sd.slowUs + 1)
				sd.rngMu.Unlock()
				if d > sd.slowUs/2 {
					time.Sleep(time.Duration(d) * time.Microsecond)
				}
			}
		}
		onErr := func(e interface{}) {
			if atomic.LoadInt32(&shutting) == 0 {
				if atomic.CompareAndSwapInt32(&sd.errored, 0, 1) {
					sd.errV.Store(fmt.Sprint(e))
				}
			}
		}
		sd.mc = tmconn.NewMConnectionWithConfig(conn, cfg.descs(), onRecv, onErr, cfg.mconf())
		sd.mc.SetLogger(log.NewNopLogger())
		sides[s] = sd
	}
	for s := 0; s < 2; s++ {
		if err := sides[s].mc.Start(); err != nil {
			r.HarnessError("n1: cannot start MConnection: %v", err)
			return
		}
	}
	defer func() {
		atomic.StoreInt32(&shutting, 1)
		for s := 0; s < 2; s++ {
			_ = sides[s].mc.Stop()
		}
		ca.Close()
		cb.Close()
	}()
	anyErr := func() bool {
		return atomic.LoadInt32(&sides[0].errored) != 0 || atomic.LoadInt32(&sides[1].errored) != 0
	}

	// senders
	accepted := make([][]acc, len(cfg.Senders))
	tailOK := make([]bool, len(cfg.Senders))
	var wg sync.WaitGroup
	var nAcc, nRej, sendFalse int64
	for si := range cfg.Senders {
		wg.Add(1)
		go func(si int) {
			defer wg.Done()
			sd := cfg.Senders[si]
			mc := sides[sd.Side].mc
			chID := cfg.Chans[sd.Ch].ID
			lr := rand.New(rand.NewSource(cfg.CaseSeed ^ int64(si+1)*7919))
			for seq, l := range sd.Lens {
				msg := n1Msg(cfg.CaseSeed, sd.Side, sd.Ch, si, seq, l)
				last := seq == len(sd.Lens)-1
				ok := false
				if sd.Try && !last {
					for attempt := 0; attempt < 200; attempt++ {
						if mc.TrySend(chID, msg) {
							ok = true
							break
						}
						if anyErr() || lr.Intn(4) == 0 {
							break // give this message up: it was never accepted
						}
						if attempt%8 == 7 {
							time.Sleep(200 * time.Microsecond)
						} else {
							runtime.Gosched()
						}
					}
				} else {
					tries := 1
					if last {
						tries = 3
					}
					for t := 0; t < tries && !ok; t++ {
						ok = mc.Send(chID, msg)
						if !ok {
							atomic.AddInt64(&sendFalse, 1)
							if anyErr() || !mc.IsRunning() {
								break
							}
						}
					}
				}
				if ok {
					accepted[si] = append(accepted[si], acc{seq, l})
					atomic.AddInt64(&nAcc, 1)
					if last {
						tailOK[si] = true
					}
				} else {
					atomic.AddInt64(&nRej, 1)
				}
				if anyErr() {
					return
				}
			}
		}(si)
	}
	wg.Wait()

	// quiescence by logical condition: the tail message of every sender has arrived
	tailSeen := func() (bool, int64) {
		all := true
		for si, sd := range cfg.Senders {
			if !tailOK[si] {
				continue
			}
			rs := sides[1-sd.Side]
			want := n1Msg(cfg.CaseSeed, sd.Side, sd.Ch, si, len(sd.Lens)-1, sd.Lens[len(sd.Lens)-1])
			found := false
			rs.mu.Lock()
			list := rs.recv[cfg.Chans[sd.Ch].ID]
			for i := len(list) - 1; i >= 0; i-- {
				if bytes.Equal(list[i], want) {
					found = true
					break
				}
			}
			rs.mu.Unlock()
			if !found {
				all = false
				break
			}
		}
		return all, atomic.LoadInt64(&sides[0].nrecv) + atomic.LoadInt64(&sides[1].nrecv)
	}
	settled := false
	shortStall := false
	lastProgress := time.Now()
	var lastN int64 = -1
	stalled := false
	for {
		ok, n := tailSeen()
		if ok {
			settled = true
			break
		}
		if anyErr() {
			break
		}
		if n != lastN {
			lastN = n
			lastProgress = time.Now()
		} else if atomic.LoadInt64(&n1Stalls) >= 3 && time.Since(lastProgress) > 2*time.Second {
			// the 20 s stall has been established three times in this run already: do not spend
			// minutes re-establishing it; the run is only counted
			shortStall = true
			break
		} else if time.Since(lastProgress) > 20*time.Second {
			stalled = true
			atomic.AddInt64(&n1Stalls, 1)
			break
		}
		time.Sleep(2 * time.Millisecond)
	}
	if shortStall {
		r.Count("n1.runs_stalled_short_window_not_judged", 1)
	}
	errRun := anyErr()
	running := sides[0].mc.IsRunning() && sides[1].mc.IsRunning()
	allTails := true
	for si := range cfg.Senders {
		if !tailOK[si] {
			allTails = false
		}
	}
	// freeze what was received
	atomic.StoreInt32(&shutting, 1)
	got := [2]map[byte][][]byte{}
	for s := 0; s < 2; s++ {
		sides[s].mu.Lock()
		got[s] = map[byte][][]byte{}
		for k, v := range sides[s].recv {
			got[s][k] = append([][]byte{}, v...)
		}
		sides[s].mu.Unlock()
	}

	r.Count("n1.accepted", nAcc)
	r.Count("n1.not_accepted", nRej)
	r.Count("n1.blocking_send_returned_false", sendFalse)
	if errRun {
		r.Count("n1.runs_with_connection_error", 1)
		for s := 0; s < 2; s++ {
			if v := sides[s].errV.Load(); v != nil {
				r.Count("n1.conn_error."+classifyConnErr(v.(string)), 1)
			}
		}
	}
	wit := func(extra map[string]interface{}) map[string]interface{} {
		w := map[string]interface{}{"config": cfg, "connection_error": errRun, "settled": settled}
		for k, v := range extra {
			w[k] = v
		}
		return w
	}
	// Both ends are conforming MConnections with the same configuration and every message fits the
	// receiver's capacity: a receiver that rejects what its peer's sendRoutine produced is a defect
	// (the accepted messages behind it are lost with the connection).
	for s := 0; s < 2; s++ {
		if v := sides[s].errV.Load(); v != nil {
			es := v.(string)
			kind := classifyConnErr(es)
			if strings.Contains(es, "unknown channel") {
				kind = "unknown_channel"
			} else if strings.Contains(es, "unknown message type") {
				kind = "unknown_message_type"
			}
			switch kind {
			case "packet_exceeds_max_size", "message_exceeds_capacity", "recovered_panic", "unknown_channel", "unknown_message_type":
				r.Violation("mconn-conforming-traffic-rejected:"+kind, "a real MConnection rejected the packets produced by its peer's real MConnection (same configuration, every message within RecvMessageCapacity): "+es,
					wit(map[string]interface{}{"receiving_side": s, "error": es}))
			}
		}
	}
	if cfg.HighIDs {
		r.Count("n1.runs_with_channel_ids_from_0x80", 1)
		if settled && !errRun {
			r.Count("n1.runs_with_channel_ids_from_0x80_clean", 1)
		}
	}
	if stalled && !errRun && running {
		// which messages are missing is established below; this is the time-based part
		r.Count("n1.stalled_runs", 1)
	}

	// ---- oracle -----------------------------------------------------------
	delivered := int64(0)
	chansWithTraffic := [2]int{}
	for dir := 0; dir < 2; dir++ { // dir = sending side
		rs := got[1-dir]
		for ci, ch := range cfg.Chans {
			list := rs[ch.ID]
			delivered += int64(len(list))
			if len(list) > 0 {
				chansWithTraffic[dir]++
			}
			// senders of this (dir, channel)
			var sids []int
			for si, sd := range cfg.Senders {
				if sd.Side == dir && sd.Ch == ci {
					sids = append(sids, si)
				}
			}
			for _, m := range list {
				if len(m) > ch.RecvCap {
					r.Violation("mconn-delivered-above-capacity", "a message longer than RecvMessageCapacity was delivered",
						wit(map[string]interface{}{"direction": dir, "channel": ch.ID, "len": len(m)}))
				}
			}
			if len(sids) == 1 {
				checkSolo(r, &cfg, dir, ci, sids[0], accepted[sids[0]], list, settled && !errRun, stalled && !errRun && running, wit)
			} else {
				checkMulti(r, &cfg, dir, ci, sids, accepted, list, settled && !errRun, stalled && !errRun && running, wit)
			}
		}
		// anything on a channel id that does not exist?
		for id := range rs {
			known := false
			for _, ch := range cfg.Chans {
				if ch.ID == id {
					known = true
				}
			}
			if !known {
				r.Violation("mconn-delivered-on-unknown-channel", "onReceive was called for a channel that was never configured",
					wit(map[string]interface{}{"direction": dir, "channel": id}))
			}
		}
	}
	r.Count("n1.delivered", delivered)
	if settled && !errRun {
		r.Count("n1.runs_clean_settled", 1)
		if !allTails {
			r.Count("n1.runs_with_unaccepted_tail", 1)
		}
	}
	if chansWithTraffic[0] >= 2 && chansWithTraffic[1] >= 2 {
		r.Distinct("n1", cfg.Case, cfg.Transport, len(cfg.Chans), cfg.MaxPayload, cfg.SendRate, len(cfg.Senders))
	}
	r.Count("n1.transport."+cfg.Transport, 1)
	if cfg.ZeroLen {
		r.Count("n1.runs_with_zero_length_messages", 1)
	}
	if cfg.Case < 2 {
		r.Sample(map[string]interface{}{"stage": "n1", "config": cfg, "accepted": nAcc, "delivered": delivered, "connection_error": errRun})
	}
}

func classifyConnErr(s string) string {
	switch {
	case bytes.Contains([]byte(s), []byte("pong timeout")):
		return "pong_timeout"
	case bytes.Contains([]byte(s), []byte("exceeds max size")):
		return "packet_exceeds_max_size"
	case bytes.Contains([]byte(s), []byte("exceeds available capacity")):
		return "message_exceeds_capacity"
	case bytes.Contains([]byte(s), []byte("EOF")):
		return "eof"
	case bytes.Contains([]byte(s), []byte("closed")):
		return "closed"
	case bytes.Contains([]byte(s), []byte("recovered from panic")):
		return "recovered_panic"
	}
	return "other"
}

type witFn func(map[string]interface{}) map[string]interface{}

func accDesc(a []acc, limit int) []string {
	var out []string
	for i, x := range a {
		if i >= limit {
			out = append(out, fmt.Sprintf("…(%d more)", len(a)-limit))
			break
		}
		out = append(out, fmt.Sprintf("seq=%d len=%d", x.seq, x.n))
	}
	return out
}

// reportLost classifies accepted-but-skipped messages (a later message of the
// same sender on the same channel was delivered, so these can never arrive in order).
func reportLost(r *rec, cfg *n1Cfg, dir, ci, si int, lost []acc, wit witFn) {
	if len(lost) == 0 {
		return
	}
	allZero := true
	for _, l := range lost {
		if l.n != 0 {
			allZero = false
		}
	}
	w := wit(map[string]interface{}{"direction": dir, "channel_index": ci, "channel": cfg.Chans[ci].ID, "sender": si, "lost": accDesc(lost, 20)})
	if allZero {
		r.Count("n1.zero_length_messages_lost", int64(len(lost)))
		r.Violation("mconn-zero-length-message-lost", fmt.Sprintf("%d zero-length message(s) for which Send/TrySend returned true were never delivered although later messages of the same sender on the same channel were", len(lost)), w)
	} else {
		r.Violation("mconn-message-lost", "a message accepted for sending was skipped: later messages of the same sender on the same channel were delivered", w)
	}
}

func checkSolo(r *rec, cfg *n1Cfg, dir, ci, si int, accd []acc, list [][]byte, clean, stalled bool, wit witFn) {
	exp := make([][]byte, len(accd))
	for i, a := range accd {
		exp[i] = n1Msg(cfg.CaseSeed, dir, ci, si, a.seq, a.n)
	}
	j := 0
	var lost []acc
	for ri, m := range list {
		k := -1
		for t := j; t < len(exp); t++ {
			if bytes.Equal(exp[t], m) {
				k = t
				break
			}
		}
		if k >= 0 {
			lost = append(lost, accd[j:k]...)
			j = k + 1
			continue
		}
		// not among the remaining expected messages
		key, what := "mconn-message-modified", "a delivered message equals no message accepted for sending on this channel"
		for t := 0; t < j && t < len(exp); t++ {
			if bytes.Equal(exp[t], m) {
				key, what = "mconn-duplicate-or-reordered-delivery", "a message was delivered again or after a later message of the same channel"
				break
			}
		}
		r.Violation(key, what, wit(map[string]interface{}{"direction": dir, "channel_index": ci, "channel": cfg.Chans[ci].ID, "sender": si,
			"received_index": ri, "received": verdict.Hex(m), "expected_next": accDesc(accd[minInt(j, len(accd)):], 3)}))
		return
	}
	reportLost(r, cfg, dir, ci, si, lost, wit)
	if j < len(exp) {
		if clean {
			// the tail arrived, so everything before it must have
			r.Violation("mconn-message-lost", "settled run: accepted messages missing at the end of a channel", wit(map[string]interface{}{"direction": dir, "channel_index": ci, "sender": si, "missing": accDesc(accd[j:], 10)}))
		} else if stalled {
			r.Violation("mconn-accepted-message-not-delivered", "both connections running, no error, no delivery for 20 s, yet accepted messages were not delivered",
				wit(map[string]interface{}{"direction": dir, "channel_index": ci, "channel": cfg.Chans[ci].ID, "sender": si, "missing": accDesc(accd[j:], 10)}))
		}
	}
	r.Count("n1.solo_channel_sequences_checked", 1)
}

func checkMulti(r *rec, cfg *n1Cfg, dir, ci int, sids []int, accepted [][]acc, list [][]byte, clean, stalled bool, wit witFn) {
	next := map[int]int{} // sender -> index into accepted[sender]
	lost := map[int][]acc{}
	for ri, m := range list {
		bad := func(key, what string) {
			r.Violation(key, what, wit(map[string]interface{}{"direction": dir, "channel_index": ci, "channel": cfg.Chans[ci].ID,
				"received_index": ri, "received": verdict.Hex(m)}))
		}
		if len(m) < n1Hdr || m[0] != n1Magic {
			bad("mconn-message-modified", "a delivered message carries no valid header although every message sent on this channel has one")
			return
		}
		side, ch, si, seq, n := int(m[1]), int(m[2]), int(m[3]), int(binary.BigEndian.Uint32(m[4:8])), int(binary.BigEndian.Uint32(m[8:12]))
		okSender := false
		for _, s := range sids {
			if s == si {
				okSender = true
			}
		}
		if side != dir || ch != ci || !okSender {
			bad("mconn-delivered-on-wrong-channel", "a message was delivered on a channel / direction other than the one it was sent on (or its header was modified)")
			return
		}
		if n != len(m) || !bytes.Equal(m, n1Msg(cfg.CaseSeed, dir, ci, si, seq, n)) {
			bad("mconn-message-modified", "delivered bytes differ from the bytes handed to Send")
			return
		}
		a := accepted[si]
		j := next[si]
		k := -1
		for t := j; t < len(a); t++ {
			if a[t].seq == seq {
				k = t
				break
			}
		}
		if k < 0 {
			was := false
			for t := 0; t < j && t < len(a); t++ {
				if a[t].seq == seq {
					was = true
				}
			}
			if was {
				bad("mconn-duplicate-or-reordered-delivery", "a message was delivered twice or after a later message of the same sender")
			} else {
				bad("mconn-delivered-unaccepted-message", "a message was delivered for which Send/TrySend returned false")
			}
			return
		}
		lost[si] = append(lost[si], a[j:k]...)
		next[si] = k + 1
	}
	for _, si := range sids {
		reportLost(r, cfg, dir, ci, si, lost[si], wit)
		if next[si] < len(accepted[si]) {
			if clean {
				r.Violation("mconn-message-lost", "settled run: accepted messages missing at the end of a channel", wit(map[string]interface{}{"direction": dir, "channel_index": ci, "sender": si, "missing": accDesc(accepted[si][next[si]:], 10)}))
			} else if stalled {
				r.Violation("mconn-accepted-message-not-delivered", "both connections running, no error, no delivery for 20 s, yet accepted messages were not delivered",
					wit(map[string]interface{}{"direction": dir, "channel_index": ci, "channel": cfg.Chans[ci].ID, "sender": si, "missing": accDesc(accepted[si][next[si]:], 10)}))
			}
		}
	}
	r.Count("n1.multi_sender_channel_sequences_checked", 1)
}

func minInt(a, b int) int {
	if a < b {
		return a
	}
	return b
}

// hook: len(ch.recving) after every append, for every connection of this process
var (
	hookOnce     sync.Once
	hookOverMu   sync.Mutex
	hookOver     []string
	hookMaxRatio int64 // max of len*1000/cap
	hookHits     int64
	hookPerCap   sync.Map // cap -> *int64 max len
)

func installRecvingHook() {
	hookOnce.Do(func() {
		verifhook.Handle("mconn.recving", func(kv ...interface{}) {
			if len(kv) < 3 {
				return
			}
			id, _ := kv[0].(int)
			l, _ := kv[1].(int)
			cp, _ := kv[2].(int)
			atomic.AddInt64(&hookHits, 1)
			if cp > 0 {
				ratio := int64(l) * 1000 / int64(cp)
				for {
					old := atomic.LoadInt64(&hookMaxRatio)
					if ratio <= old || atomic.CompareAndSwapInt64(&hookMaxRatio, old, ratio) {
						break
					}
				}
			}
			v, _ := hookPerCap.LoadOrStore(cp, new(int64))
			p := v.(*int64)
			for {
				old := atomic.LoadInt64(p)
				if int64(l) <= old || atomic.CompareAndSwapInt64(p, old, int64(l)) {
					break
				}
			}
			if l > cp {
				hookOverMu.Lock()
				if len(hookOver) < 5 {
					hookOver = append(hookOver, fmt.Sprintf("channel %#x: len(recving)=%d > RecvMessageCapacity=%d", id, l, cp))
				}
				hookOverMu.Unlock()
			}
		})
	})
}

func hookMaxFor(cp int) int64 {
	if v, ok := hookPerCap.Load(cp); ok {
		return atomic.LoadInt64(v.(*int64))
	}
	return -1
}

var n1Stalls int64

func stageN1(c *verdict.Ctx, r *rec) {
	installRecvingHook()
	stagePark(c, r) // first: it is fast, and its verdict must not depend on how long the delivery runs take
	if os.Getenv("VERIF_C17_N1_SKIP_MAIN") != "" {
		return
	}
	n := c.N(100, 1200)
	idxs := make(chan int, n)
	for i := 0; i < n; i++ {
		idxs <- i
	}
	close(idxs)
	var wg sync.WaitGroup
	workers := 8
	for w := 0; w < workers; w++ {
		wg.Add(1)
		go func() {
			defer wg.Done()
			for i := range idxs {
				runN1Case(r, genN1(c, i))
			}
		}()
	}
	wg.Wait()
	r.Count("n1.recving_hook_hits", atomic.LoadInt64(&hookHits))
	r.Max("n1.max_recving_permille_of_capacity", atomic.LoadInt64(&hookMaxRatio))
	hookOverMu.Lock()
	for _, s := range hookOver {
		r.Violation("mconn-recving-exceeds-capacity", "len(ch.recving) exceeded the channel's RecvMessageCapacity", map[string]interface{}{"stage": "n1", "observation": s})
	}
	hookOverMu.Unlock()
	if !verifhook.Enabled {
		r.HarnessError("built without -tags verif: the mconn.recving hook is not compiled in")
	}
}
