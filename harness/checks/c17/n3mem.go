package c17

import (
	"encoding/json"
	"fmt"
	"os"
	"path/filepath"
	"runtime"
	"time"

	cstypes "github.com/tendermint/tendermint/consensus/types"
	"github.com/tendermint/tendermint/crypto/ed25519"
	tmcons "github.com/tendermint/tendermint/proto/tendermint/consensus"
	tmbits "github.com/tendermint/tendermint/proto/tendermint/libs/bits"
	protomem "github.com/tendermint/tendermint/proto/tendermint/mempool"
	tmp2p "github.com/tendermint/tendermint/proto/tendermint/p2p"
	ssproto "github.com/tendermint/tendermint/proto/tendermint/statesync"
	tmproto "github.com/tendermint/tendermint/proto/tendermint/types"
	"github.com/tendermint/tendermint/types"
	tmtime "github.com/tendermint/tendermint/types/time"

	"verif/verdict"
)

// ---------------------------------------------------------------------------
// N3-lite memory stage: how much does ONE hostile message make the node
// allocate (TotalAlloc) and keep (HeapAlloc after a forced GC)?  Both are
// measured against an idle window of the same length taken just before.
//
//	amplification: TotalAlloc growth must stay below 64 x RecvMessageCapacity of the channel
//	retention:     heap kept because of the message must not exceed RecvMessageCapacity
//	               ("never makes it buffer more than the channel's configured capacity")
// ---------------------------------------------------------------------------

type memSample struct {
	Name        string `json:"message"`
	Channel     byte   `json:"channel"`
	WireLen     int    `json:"wire_len"`
	Capacity    int    `json:"channel_recv_message_capacity"`
	AllocDelta  int64  `json:"total_alloc_growth_minus_idle"`
	RetainDelta int64  `json:"heap_retained_growth_minus_idle"`
	IdleAlloc   int64  `json:"idle_total_alloc_growth"`
	Outcome     string `json:"outcome"`
}

func heapAfterGC() (uint64, uint64) {
	runtime.GC()
	runtime.GC()
	var ms runtime.MemStats
	runtime.ReadMemStats(&ms)
	return ms.TotalAlloc, ms.HeapAlloc
}

func totalAlloc() uint64 {
	var ms runtime.MemStats
	runtime.ReadMemStats(&ms)
	return ms.TotalAlloc
}

type memCase struct {
	name   string
	state  string // "synced" | "fresh" | "proposer" (wait until the harness' validator is the proposer, sign properly)
	build  func(n *n3Node, lc liveCtx) []wireMsg
	key    string // finding key when the oracle fires
	expect string
}

func stageN3Mem(c *verdict.Ctx, r *rec, arg string) {
	memoryGuard(6 << 30)
	dir := os.Getenv("VERIF_C17_DIR")
	if dir == "" {
		dir = verdict.TmpDir("c17n3m-")
		defer os.RemoveAll(dir)
	}
	logF, err := os.Create(filepath.Join(dir, "n3mem.inputs"))
	if err != nil {
		r.HarnessError("n3mem: %v", err)
		return
	}
	defer logF.Close()
	n := newN3Node(filepath.Join(dir, "node-mem"), 100*time.Millisecond)
	if got, err := n.advance(3, 60*time.Second); err != nil {
		r.HarnessError("n3mem: the node under test did not commit its first heights (%d of 3): %v", got, err)
		return
	}
	unknown := ed25519.GenPrivKeyFromSecret([]byte("c17-mem-unknown"))
	proposal := func(n *n3Node, lc liveCtx, total uint32, signer func([]byte) []byte) wireMsg {
		h := make([]byte, 32)
		p := tmproto.Proposal{Type: tmproto.ProposalType, Height: lc.H, Round: lc.R, PolRound: -1, Timestamp: tmtime.Now(),
			BlockID: tmproto.BlockID{Hash: h, PartSetHeader: tmproto.PartSetHeader{Total: total, Hash: h}}}
		p.Signature = signer(types.ProposalSignBytes(n.chainID, &p))
		return wm(chData, fmt.Sprintf("Proposal h=%d r=%d PartSetHeader.Total=%d", lc.H, lc.R, total), &tmcons.Proposal{Proposal: p})
	}
	unk := func(b []byte) []byte { s, _ := unknown.Sign(b); return s }
	var cases []memCase
	for _, t := range []uint32{1 << 10, 1 << 20, 1 << 23, 1 << 24, 1 << 26} {
		t := t
		cases = append(cases, memCase{name: fmt.Sprintf("proposal-unknown-signer-total-2^%d", log2(t)), state: "synced",
			key:   "consensus-proposal-part-set-total-unbounded@PeerState.SetHasProposal",
			build: func(n *n3Node, lc liveCtx) []wireMsg { return []wireMsg{proposal(n, lc, t, unk)} }})
	}
	for _, t := range []uint32{1 << 10, 1 << 20, 1 << 24} {
		t := t
		cases = append(cases, memCase{name: fmt.Sprintf("proposal-signed-by-proposer-total-2^%d", log2(t)), state: "proposer",
			key: "consensus-proposal-part-set-total-unbounded@State.defaultSetProposal",
			build: func(n *n3Node, lc liveCtx) []wireMsg {
				return []wireMsg{proposal(n, lc, t, func(b []byte) []byte { s, _ := n.hostPV.PrivKey.Sign(b); return s })}
			}})
	}
	words := func(k int) []uint64 { return make([]uint64, k) }
	cases = append(cases,
		memCase{name: "proposalPOL-10000-bits", state: "synced", key: "consensus-proposalPOL-allocation",
			build: func(n *n3Node, lc liveCtx) []wireMsg {
				return []wireMsg{wm(chData, "ProposalPOL 10000 bits", &tmcons.ProposalPOL{Height: lc.H, ProposalPolRound: 0, ProposalPol: tmbits.BitArray{Bits: 10000, Elems: words(157)}})}
			}},
		memCase{name: "voteSetBits-10000-bits", state: "synced", key: "consensus-voteSetBits-allocation",
			build: func(n *n3Node, lc liveCtx) []wireMsg {
				return []wireMsg{wm(chVoteBits, "VoteSetBits 10000 bits", &tmcons.VoteSetBits{Height: lc.H, Round: lc.R, Type: tmproto.PrevoteType, BlockID: lc.PrevBID, Votes: tmbits.BitArray{Bits: 10000, Elems: words(157)}})}
			}},
		memCase{name: "newValidBlock-1601-parts", state: "synced", key: "consensus-newValidBlock-allocation",
			build: func(n *n3Node, lc liveCtx) []wireMsg {
				return []wireMsg{wm(chState, "NewValidBlock 1601 parts", &tmcons.NewValidBlock{Height: lc.H, Round: lc.R, BlockPartSetHeader: tmproto.PartSetHeader{Total: 1601, Hash: make([]byte, 32)}, BlockParts: &tmbits.BitArray{Bits: 1601, Elems: words(26)}})}
			}},
		memCase{name: "hasVote-index-maxint32", state: "synced", key: "consensus-hasVote-allocation",
			build: func(n *n3Node, lc liveCtx) []wireMsg {
				return []wireMsg{wm(chState, "HasVote index=2^31-1", &tmcons.HasVote{Height: lc.H, Round: lc.R, Type: tmproto.PrevoteType, Index: 1<<31 - 1})}
			}},
		memCase{name: "mempool-1000-tiny-txs", state: "fresh", key: "mempool-txs-allocation",
			build: func(n *n3Node, lc liveCtx) []wireMsg {
				var txs [][]byte
				for i := 0; i < 1000; i++ {
					txs = append(txs, []byte(fmt.Sprintf("m%d-%d=%d", lc.H, i, i)))
				}
				return []wireMsg{wm(chMempool, "Txs 1000 x ~10 bytes", &protomem.Txs{Txs: txs})}
			}},
		memCase{name: "pex-addrs-250-unsolicited", state: "fresh", key: "pex-addrs-allocation",
			build: func(n *n3Node, lc liveCtx) []wireMsg {
				var as []tmp2p.NetAddress
				for i := 0; i < 250; i++ {
					as = append(as, tmp2p.NetAddress{ID: fmt.Sprintf("%040x", i+1), IP: fmt.Sprintf("8.8.%d.%d", i/250, 1+i%250), Port: 26656})
				}
				return []wireMsg{wm(chPex, "PexAddrs 250 (unsolicited)", &tmp2p.PexAddrs{Addrs: as})}
			}},
		memCase{name: "statesync-chunk-request-far", state: "fresh", key: "statesync-chunkrequest-allocation",
			build: func(n *n3Node, lc liveCtx) []wireMsg {
				return []wireMsg{wm(chChunk, "ChunkRequest h=2^62 index=2^32-1", &ssproto.ChunkRequest{Height: 1 << 62, Format: 1<<32 - 1, Index: 1<<32 - 1})}
			}},
		memCase{name: "evidence-empty-list", state: "fresh", key: "evidence-allocation",
			build: func(n *n3Node, lc liveCtx) []wireMsg {
				return []wireMsg{wm(chEvidence, "EvidenceList of 1000 empty Evidence", &tmproto.EvidenceList{Evidence: make([]tmproto.Evidence, 1000)})}
			}},
	)

	var samples []memSample
	for ci, mc := range cases {
		r.Eval()
		// put the node into a quiet, known state
		var lc liveCtx
		if mc.state == "proposer" {
			ok := false
			for tries := 0; tries < 40 && !ok; tries++ {
				// step the chain until the harness' validator is the proposer of the round the node waits in
				dl := time.Now().Add(20 * time.Second)
				for time.Now().Before(dl) {
					rs := n.conS.GetRoundState()
					if rs.Step == cstypes.RoundStepPropose && rs.Proposal == nil && rs.Validators != nil && string(rs.Validators.GetProposer().Address) == string(n.hostAddr) {
						lc = n.live()
						ok = lc.H == rs.Height && lc.R == rs.Round
						break
					}
					if _, err := n.mirrorStep(); err != nil {
						break
					}
					time.Sleep(200 * time.Microsecond)
				}
			}
			if !ok {
				r.Inconclusive("n3mem: never caught a round in which the harness' validator is the proposer")
				continue
			}
		} else {
			_, _ = n.advance(1, 30*time.Second)
			n.settle(3 * time.Second)
			lc = n.live()
			if mc.state == "synced" {
				// the peer announces the NEXT round: the node has no proposal of its own to
				// tell the peer about there, so what the peer state holds is what the peer sent
				lc.R++
				lc.Step = 3
			}
		}
		p, _, err := n.peerOf(n.hostile)
		if err != nil {
			r.Inconclusive("n3mem: hostile peer cannot connect")
			continue
		}
		g := &gen{r: c.Rand("n3mem", ci), n: n, lc: lc, unknown: unknown}
		g.peerH, g.peerR = lc.H, lc.R
		if mc.state != "fresh" {
			m := g.mNRS(lc.H, lc.R, lc.Step)
			ret0, pan0 := n.receiveCount("consensus")
			p.Send(m.Ch, m.B)
			waitProc(n, "consensus", ret0, pan0)
		}
		msgs := mc.build(n, lc)
		wl := 0
		for _, m := range msgs {
			wl += len(m.B)
		}
		in := map[string]interface{}{"stream": "n3mem", "case": ci, "name": mc.name, "wire_len": wl, "node_height": lc.H, "node_round": lc.R, "first_message_hex": hexCap(msgs[0].B, 400)}
		b, _ := json.Marshal(in)
		_, _ = logF.Write(append(b, '\n'))

		window := 150 * time.Millisecond
		if mc.state == "proposer" {
			window = 60 * time.Millisecond // stay inside the propose timeout
		}
		// idle window
		a0, h0 := heapAfterGC()
		time.Sleep(window)
		a1 := totalAlloc()
		_, h1 := heapAfterGC()
		idleAlloc, idleHeap := int64(a1-a0), int64(h1)-int64(h0)
		if idleHeap < 0 {
			idleHeap = 0 // memory released while idle must not count as retained by the message
		}
		// the message
		a2, h2 := heapAfterGC()
		outcome := "ignored"
		for _, m := range msgs {
			reactor := chanReactor(m.Ch)
			ret0, pan0 := n.receiveCount(reactor)
			if !p.Send(m.Ch, m.B) {
				break
			}
			waitProc(n, reactor, ret0, pan0)
		}
		time.Sleep(window)
		a3 := totalAlloc()
		_, h3 := heapAfterGC()
		if !n.nodeHasPeer(n.hostile) {
			outcome = "dropped"
		}
		ms := memSample{Name: mc.name, Channel: msgs[0].Ch, WireLen: wl, Capacity: n.chanCap[msgs[0].Ch],
			AllocDelta: int64(a3-a2) - idleAlloc, RetainDelta: (int64(h3) - int64(h2)) - idleHeap, IdleAlloc: idleAlloc, Outcome: outcome}
		if ms.RetainDelta > ms.AllocDelta {
			ms.RetainDelta = ms.AllocDelta // nothing can be kept that was not allocated: the rest is noise of other goroutines
		}
		samples = append(samples, ms)
		r.Distinct("n3mem", mc.name, wl)
		r.Max("n3mem.max_alloc_amplification_x1000_of_capacity", ms.AllocDelta*1000/int64(ms.Capacity))
		wit := map[string]interface{}{"stream": "n3mem", "case": ci, "measurement": ms, "input": in,
			"threshold_amplification": 64 * ms.Capacity, "threshold_retention": ms.Capacity}
		if ms.AllocDelta > 64*int64(ms.Capacity) {
			r.Violation(mc.key, fmt.Sprintf("one %d-byte message made the node allocate %d bytes (> 64 x the channel's RecvMessageCapacity %d)", wl, ms.AllocDelta, ms.Capacity), wit)
		} else if ms.RetainDelta > int64(ms.Capacity)+(256<<10) {
			r.Violation(mc.key, fmt.Sprintf("one %d-byte message made the node retain %d bytes of heap, more than the channel's RecvMessageCapacity %d", wl, ms.RetainDelta, ms.Capacity), wit)
		}
		n.disconnect(n.hostile)
		// the chain must still move afterwards
		if got, err := n.advance(1, 60*time.Second); err != nil {
			r.Violation("node-unresponsive-after-hostile-batch:consensus-progress", fmt.Sprintf("after %s the node committed %d of 1 heights in 60 s: %v", mc.name, got, err),
				map[string]interface{}{"stream": "n3mem", "case": ci, "input": in, "goroutines": goroutineDump()})
			break
		}
	}
	r.Set("n3mem.measurements", samples)
	r.Set("n3mem.note", "PeerState.SetHasProposal allocates PartSetHeader.Total/8 bytes and State.defaultSetProposal 8*Total + Total/8 bytes; "+
		"with the DataChannel capacity of 1 MiB the retained bit array exceeds the capacity for Total > 2^23 and the part slice for Total > 2^17; Total is a uint32, so up to 512 MiB resp. 32.5 GiB per message")
	n.stop()
}

func waitProc(n *n3Node, reactor string, ret0, pan0 int64) {
	dl := time.Now().Add(5 * time.Second)
	for time.Now().Before(dl) {
		ret, pan := n.receiveCount(reactor)
		if ret > ret0 || pan > pan0 || !n.nodeHasPeer(n.hostile) {
			return
		}
		time.Sleep(100 * time.Microsecond)
	}
}

func log2(x uint32) int {
	k := 0
	for x > 1 {
		x >>= 1
		k++
	}
	return k
}
