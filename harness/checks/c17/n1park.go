package c17

import (
	"bytes"
	"fmt"
	"strings"
	"sync"
	"sync/atomic"
	"time"

	"github.com/tendermint/tendermint/libs/log"
	tmconn "github.com/tendermint/tendermint/p2p/conn"

	"verif/verdict"
)

// ---------------------------------------------------------------------------
// N1-park: "a message accepted for sending is delivered without further traffic".
//
// One real MConnection sends to another over the in-memory pipe.  Messages are
// queued on 2-4 channels of different priorities in a burst (while the reader is
// gated shut so that the sendRoutine is back-pressured, or simply all at once so
// that wake-up tokens coalesce), then the reader is released and NOTHING more is
// sent.  Every message for which Send/TrySend returned true must now arrive, the
// connection staying up.
//
// Deciding: the logical condition is "all accepted messages delivered".  If it
// is not reached within a generous window although both connections run, the
// pipe is open and no byte moves, one unrelated message (the "kick") is sent on
// another channel.  Parked messages that arrive only behind the kick are the
// refuting event; because a starved scheduler could fake that once, the case is
// executed again and only a repeated observation is a violation (a single one
// is inconclusive).
// ---------------------------------------------------------------------------

type pkChan struct {
	ID    byte `json:"id"`
	Prio  int  `json:"priority"`
	SendQ int  `json:"send_queue_capacity"`
}

type pkMsg struct {
	Ch  int `json:"channel_index"`
	Len int `json:"len"`
}

type pkCfg struct {
	Stream     string   `json:"stream"`
	Case       int      `json:"case"`
	CaseSeed   int64    `json:"case_seed"`
	Shape      string   `json:"burst_shape"`
	Chans      []pkChan `json:"channels"`
	MaxPayload int      `json:"max_packet_payload"`
	FlushMs    int      `json:"flush_throttle_ms"`
	SendRate   int64    `json:"send_rate"`
	PipeBuf    int      `json:"pipe_buffer"`
	Frag       int      `json:"pipe_max_read_fragment"`
	Warm       []pkMsg  `json:"warm_up_messages_delivered_before_the_burst"`
	Burst      []pkMsg  `json:"burst"`
	Blocking   []pkMsg  `json:"blocking_sends_started_before_release"`
	KickCh     int      `json:"kick_channel_index"`
}

var pkShapes = []string{"gated-trysend", "gated-trysend+blocked-senders", "open-burst-per-channel", "open-burst-one-goroutine", "throttled-burst", "gated-exact-packet-boundary"}

func genPark(c *verdict.Ctx, idx int) pkCfg {
	r := c.Rand("n1park", idx)
	cfg := pkCfg{Stream: "n1park", Case: idx, CaseSeed: c.SubSeed("n1park", idx), Shape: pkShapes[idx%len(pkShapes)]}
	cfg.MaxPayload = []int{64, 100, 256, 1024, 1024}[r.Intn(5)]
	p := cfg.MaxPayload
	cfg.FlushMs = []int{1, 5, 10, 50, 100}[r.Intn(5)]
	cfg.SendRate = 1 << 40
	if cfg.Shape == "throttled-burst" {
		cfg.SendRate = []int64{100_000, 300_000, 1_000_000}[r.Intn(3)]
	}
	cfg.PipeBuf = []int{64, 512, 4096, 1 << 16}[r.Intn(4)]
	cfg.Frag = []int{0, 0, 7, 300}[r.Intn(4)]
	nch := 2 + r.Intn(3)
	used := map[byte]bool{}
	prios := r.Perm(10)
	for i := 0; i < nch; i++ {
		var id byte
		for {
			id = byte(1 + r.Intn(0x7f))
			if !used[id] {
				used[id] = true
				break
			}
		}
		cfg.Chans = append(cfg.Chans, pkChan{ID: id, Prio: 1 + prios[i], SendQ: []int{1, 1, 2, 3, 10}[r.Intn(5)]})
	}
	// one more channel that stays silent until (and unless) the kick is needed
	for {
		id := byte(1 + r.Intn(0x7f))
		if !used[id] {
			cfg.Chans = append(cfg.Chans, pkChan{ID: id, Prio: 1 + r.Intn(10), SendQ: 1})
			cfg.KickCh = nch
			break
		}
	}
	length := func() int {
		k := []int{1, 1, 1, 2, 2, 3, 5}[r.Intn(7)]
		n := k*p + []int{-1, 0, 0, 0, 1}[r.Intn(5)]
		if cfg.Shape == "gated-exact-packet-boundary" {
			n = k * p
		} else if r.Intn(6) == 0 {
			n = n1Hdr + r.Intn(p)
		}
		if n < n1Hdr {
			n = n1Hdr
		}
		return n
	}
	// unequal recentlySent: first push a lot through one or two channels
	if r.Intn(2) == 0 {
		for i := 0; i < 3+r.Intn(10); i++ {
			cfg.Warm = append(cfg.Warm, pkMsg{Ch: r.Intn(1 + r.Intn(nch)), Len: length() + p*r.Intn(8)})
		}
	}
	total := 2 + r.Intn(14)
	for i := 0; i < total; i++ {
		cfg.Burst = append(cfg.Burst, pkMsg{Ch: r.Intn(nch), Len: length()})
	}
	if cfg.Shape == "gated-trysend+blocked-senders" {
		for i := 0; i < 1+r.Intn(nch); i++ {
			cfg.Blocking = append(cfg.Blocking, pkMsg{Ch: i % nch, Len: length()})
		}
	}
	return cfg
}

type pkOutcome struct {
	class     string // "delivered" | "parked-until-unrelated-send" | "never-delivered" | "connection-error" | "harness"
	detail    map[string]interface{}
	accepted  int
	rejected  int
	waitedFor time.Duration
}

// runParkOnce executes the case once.
// parkConfirmed counts violations already established in this run; after three, further
// candidates are only counted (no re-execution, short waits): the verdict no longer depends on them.
var parkConfirmed int64

func runParkOnce(cfg pkCfg) pkOutcome {
	fast := atomic.LoadInt64(&parkConfirmed) >= 3
	a, b := newMemPipe(cfg.PipeBuf, cfg.Frag, cfg.CaseSeed)
	var descs []*tmconn.ChannelDescriptor
	for _, ch := range cfg.Chans {
		descs = append(descs, &tmconn.ChannelDescriptor{ID: ch.ID, Priority: ch.Prio, SendQueueCapacity: ch.SendQ, RecvMessageCapacity: 1 << 20})
	}
	mcfg := tmconn.DefaultMConnConfig()
	mcfg.SendRate, mcfg.RecvRate = cfg.SendRate, 1<<40
	mcfg.MaxPacketMsgPayloadSize = cfg.MaxPayload
	mcfg.FlushThrottle = time.Duration(cfg.FlushMs) * time.Millisecond
	// default ping interval (60 s): no ping will come to the rescue within a case
	var mu sync.Mutex
	recv := map[byte][][]byte{}
	var nrecv int64
	var errMu sync.Mutex
	var errs []string
	var closing int32
	onErr := func(side string) func(interface{}) {
		return func(e interface{}) {
			if atomic.LoadInt32(&closing) == 0 {
				errMu.Lock()
				errs = append(errs, side+": "+fmt.Sprint(e))
				errMu.Unlock()
			}
		}
	}
	snd := tmconn.NewMConnectionWithConfig(a, descs, func(byte, []byte) {}, onErr("sender"), mcfg)
	rcv := tmconn.NewMConnectionWithConfig(b, descs, func(ch byte, m []byte) {
		cp := append([]byte{}, m...)
		mu.Lock()
		recv[ch] = append(recv[ch], cp)
		mu.Unlock()
		atomic.AddInt64(&nrecv, 1)
	}, onErr("receiver"), mcfg)
	snd.SetLogger(log.NewNopLogger())
	rcv.SetLogger(log.NewNopLogger())
	if err := snd.Start(); err != nil {
		return pkOutcome{class: "harness", detail: map[string]interface{}{"error": err.Error()}}
	}
	if err := rcv.Start(); err != nil {
		return pkOutcome{class: "harness", detail: map[string]interface{}{"error": err.Error()}}
	}
	defer func() {
		atomic.StoreInt32(&closing, 1)
		b.SetReadGate(false)
		_ = snd.Stop()
		_ = rcv.Stop()
		a.Close()
		b.Close()
	}()
	hasErr := func() bool { errMu.Lock(); defer errMu.Unlock(); return len(errs) > 0 }

	// accepted[ch] = messages accepted on that channel, in acceptance order (one goroutine per channel)
	accepted := make([][]acc, len(cfg.Chans))
	seq := make([]int, len(cfg.Chans))
	var accMu sync.Mutex
	var nAcc, nRej int64
	send := func(m pkMsg, blocking bool) {
		accMu.Lock()
		s := seq[m.Ch]
		seq[m.Ch]++
		accMu.Unlock()
		msg := n1Msg(cfg.CaseSeed, 0, m.Ch, m.Ch, s, m.Len)
		var ok bool
		if blocking {
			ok = snd.Send(cfg.Chans[m.Ch].ID, msg)
		} else {
			ok = snd.TrySend(cfg.Chans[m.Ch].ID, msg)
		}
		if ok {
			accMu.Lock()
			accepted[m.Ch] = append(accepted[m.Ch], acc{s, m.Len})
			accMu.Unlock()
			atomic.AddInt64(&nAcc, 1)
		} else {
			atomic.AddInt64(&nRej, 1)
		}
	}
	allDelivered := func() bool {
		accMu.Lock()
		defer accMu.Unlock()
		mu.Lock()
		defer mu.Unlock()
		for ci, ch := range cfg.Chans {
			if len(recv[ch.ID]) < len(accepted[ci]) {
				return false
			}
		}
		return true
	}
	waitDelivered := func(d time.Duration) bool {
		dl := time.Now().Add(d)
		for {
			if allDelivered() {
				return true
			}
			if hasErr() || time.Now().After(dl) {
				return allDelivered()
			}
			time.Sleep(500 * time.Microsecond)
		}
	}
	perChannel := func(list []pkMsg, blocking bool, barrier chan struct{}) *sync.WaitGroup {
		var wg sync.WaitGroup
		by := map[int][]pkMsg{}
		for _, m := range list {
			by[m.Ch] = append(by[m.Ch], m)
		}
		for _, ms := range by {
			wg.Add(1)
			go func(ms []pkMsg) {
				defer wg.Done()
				if barrier != nil {
					<-barrier
				}
				for _, m := range ms {
					send(m, blocking)
				}
			}(ms)
		}
		return &wg
	}

	// warm-up: delivered before the burst, leaves the channels with unequal recentlySent
	if len(cfg.Warm) > 0 {
		perChannel(cfg.Warm, true, nil).Wait()
		warmWait := 20 * time.Second
		if fast {
			warmWait = time.Second
		}
		if !waitDelivered(warmWait) {
			if hasErr() {
				return pkOutcome{class: "connection-error", detail: map[string]interface{}{"phase": "warm-up", "errors": errs}}
			}
			return pkOutcome{class: "never-delivered", detail: map[string]interface{}{"phase": "warm-up"}}
		}
	}
	gated := strings.HasPrefix(cfg.Shape, "gated")
	if gated {
		b.SetReadGate(true)
	}
	switch cfg.Shape {
	case "open-burst-one-goroutine":
		for _, m := range cfg.Burst {
			send(m, false)
		}
	case "open-burst-per-channel", "throttled-burst":
		barrier := make(chan struct{})
		wg := perChannel(cfg.Burst, true, barrier)
		close(barrier)
		wg.Wait()
	default: // gated: non-blocking sends while the reader does not read
		perChannel(cfg.Burst, false, nil).Wait()
	}
	var blockedWG *sync.WaitGroup
	if len(cfg.Blocking) > 0 {
		blockedWG = perChannel(cfg.Blocking, true, nil)
		time.Sleep(2 * time.Millisecond) // let them reach the full queues
	}
	if gated {
		b.SetReadGate(false) // release the reader ...
	}
	if blockedWG != nil {
		blockedWG.Wait()
	}
	// ... and send nothing more.
	t0 := time.Now()
	window := 3*time.Second + 50*time.Duration(cfg.FlushMs)*time.Millisecond
	kickWait := 5 * time.Second
	if fast {
		window, kickWait = time.Second, time.Second
	}
	out := pkOutcome{}
	ok := waitDelivered(window)
	out.waitedFor = time.Since(t0)
	out.accepted, out.rejected = int(atomic.LoadInt64(&nAcc)), int(atomic.LoadInt64(&nRej))
	pending := func() []string {
		accMu.Lock()
		defer accMu.Unlock()
		mu.Lock()
		defer mu.Unlock()
		var ps []string
		for ci, ch := range cfg.Chans {
			for k := len(recv[ch.ID]); k < len(accepted[ci]); k++ {
				ps = append(ps, fmt.Sprintf("channel_index=%d id=%#x seq=%d len=%d", ci, ch.ID, accepted[ci][k].seq, accepted[ci][k].n))
			}
		}
		return ps
	}
	if !ok {
		if hasErr() {
			out.class = "connection-error"
			out.detail = map[string]interface{}{"phase": "after-burst", "errors": errs}
			return out
		}
		st := snd.Status()
		before := pending()
		det := map[string]interface{}{"undelivered_before_kick": before, "window_ms": window.Milliseconds(),
			"sender_running": snd.IsRunning(), "receiver_running": rcv.IsRunning(), "sender_status_channels": st.Channels, "bytes_sent_so_far": st.SendMonitor.Bytes}
		// the unrelated send
		kick := pkMsg{Ch: cfg.KickCh, Len: n1Hdr + 8}
		send(kick, true)
		if waitDelivered(kickWait) {
			out.class = "parked-until-unrelated-send"
			det["delivered_after_kick_ms"] = time.Since(t0).Milliseconds() - window.Milliseconds()
		} else {
			waitDelivered(2 * kickWait)
			det["undelivered_after_kick"] = pending()
			if allDelivered() {
				out.class = "parked-until-unrelated-send"
			} else {
				out.class = "never-delivered"
			}
		}
		out.detail = det
		return out
	}
	// delivered: intact and in channel order?
	accMu.Lock()
	defer accMu.Unlock()
	mu.Lock()
	defer mu.Unlock()
	for ci, ch := range cfg.Chans {
		if len(recv[ch.ID]) != len(accepted[ci]) {
			out.class = "modified"
			out.detail = map[string]interface{}{"channel_index": ci, "delivered": len(recv[ch.ID]), "accepted": len(accepted[ci])}
			return out
		}
		for k, m := range recv[ch.ID] {
			if !bytes.Equal(m, n1Msg(cfg.CaseSeed, 0, ci, ci, accepted[ci][k].seq, accepted[ci][k].n)) {
				out.class = "modified"
				out.detail = map[string]interface{}{"channel_index": ci, "position": k, "got": verdict.Hex(m), "expected_seq": accepted[ci][k].seq, "expected_len": accepted[ci][k].n}
				return out
			}
		}
	}
	if hasErr() || !snd.IsRunning() || !rcv.IsRunning() {
		out.class = "connection-error"
		out.detail = map[string]interface{}{"phase": "after-delivery", "errors": errs}
		return out
	}
	out.class = "delivered"
	return out
}

func runParkCase(r *rec, cfg pkCfg) {
	r.Eval()
	out := runParkOnce(cfg)
	r.Count("n1park.accepted", int64(out.accepted))
	r.Count("n1park.not_accepted", int64(out.rejected))
	r.Count("n1park.shape."+cfg.Shape, 1)
	r.Max("n1park.max_wait_for_delivery_ms", out.waitedFor.Milliseconds())
	wit := func(o pkOutcome, runs []string) map[string]interface{} {
		return map[string]interface{}{"config": cfg, "observation": o.detail, "outcomes_of_all_executions": runs}
	}
	switch out.class {
	case "delivered":
		r.Count("n1park.cases_all_delivered_connection_up", 1)
		if out.accepted >= 2 {
			r.Distinct("n1park", cfg.Case, cfg.Shape, len(cfg.Chans), cfg.MaxPayload, len(cfg.Burst), out.accepted)
		}
	case "modified":
		r.Violation("mconn-message-modified", "burst delivery: the delivered sequence of a channel differs from the accepted sequence", wit(out, nil))
	case "harness":
		r.HarnessError("n1park: %v", out.detail)
	case "connection-error":
		es := fmt.Sprint(out.detail["errors"])
		kind := classifyConnErr(es)
		if kind == "packet_exceeds_max_size" || kind == "message_exceeds_capacity" || kind == "recovered_panic" {
			r.Violation("mconn-conforming-traffic-rejected:"+kind, "the connection failed on a burst of legal messages: "+es, wit(out, nil))
		} else {
			r.Count("n1park.connection_error."+kind, 1)
		}
	default:
		if atomic.LoadInt64(&parkConfirmed) >= 3 {
			r.Count("n1park.further_candidates_not_judged."+out.class, 1)
			return
		}
		// candidate: execute the same case again; only a repeated observation counts
		runs := []string{out.class}
		same := 1
		last := out
		for k := 0; k < 3 && same < 2; k++ {
			o := runParkOnce(cfg)
			runs = append(runs, o.class)
			if o.class == out.class {
				same++
				last = o
			}
		}
		if same >= 2 {
			atomic.AddInt64(&parkConfirmed, 1)
			if out.class == "parked-until-unrelated-send" {
				r.Violation("mconn-accepted-message-parked-until-unrelated-send",
					"messages for which Send/TrySend returned true were not delivered after the reader was released and sending stopped (connection up, default ping interval), and arrived only behind an unrelated message sent on another channel", wit(last, runs))
			} else {
				r.Violation("mconn-accepted-message-not-delivered", "messages for which Send/TrySend returned true were never delivered although both connections kept running without an error, not even behind an unrelated message", wit(last, runs))
			}
		} else {
			r.Inconclusive("n1park: a " + out.class + " observation was not reproduced by re-executing the case")
			r.Set("n1park.unreproduced_candidate", wit(out, runs))
		}
	}
	if cfg.Case == 3 {
		r.Sample(map[string]interface{}{"stage": "n1park", "config": cfg, "outcome": out.class, "accepted": out.accepted})
	}
}

func stagePark(c *verdict.Ctx, r *rec) {
	n := c.N(300, 4000)
	idxs := make(chan int, n)
	for i := 0; i < n; i++ {
		idxs <- i
	}
	close(idxs)
	var wg sync.WaitGroup
	for w := 0; w < 8; w++ {
		wg.Add(1)
		go func() {
			defer wg.Done()
			for i := range idxs {
				runParkCase(r, genPark(c, i))
			}
		}()
	}
	wg.Wait()
}
